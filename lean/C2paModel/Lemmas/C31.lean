import C2paModel.Model.C31
/-
C31 — helper lemmas: the registry as a finite map, effect of one guard event, invariants.
-/
namespace C2pa.C31

/-! ### `Reg` is a finite map -/

theorem Reg.get_remove (r : Reg) (a b : Nat) :
    (r.remove a).get b = if b = a then none else r.get b := by
  induction r with
  | nil => simp [Reg.remove, Reg.get]
  | cons x xs ih =>
    obtain ⟨k, e⟩ := x
    unfold Reg.remove at ih ⊢
    by_cases hk : k = a
    · subst hk
      simp only [List.filter_cons, bne_self_eq_false, Bool.false_eq_true, if_false]
      rw [ih]
      by_cases hb : b = k
      · simp [hb]
      · have : ¬ k = b := fun h => hb h.symm
        simp [hb, Reg.get, this]
    · have hne : (k != a) = true := by simp [hk]
      simp only [List.filter_cons, hne, if_true, Reg.get]
      by_cases hkb : k = b
      · subst hkb
        simp [hk]
      · simp only [hkb, if_false]
        exact ih

theorem Reg.get_insert (r : Reg) (a b : Nat) (e : Entry) :
    (r.insert a e).get b = if b = a then some e else r.get b := by
  unfold Reg.insert
  by_cases hb : b = a
  · subst hb; simp [Reg.get]
  · have : ¬ a = b := fun h => hb h.symm
    simp only [Reg.get, this, if_false, hb]
    rw [Reg.get_remove]; simp [hb]

theorem Reg.get_none_iff (r : Reg) (a : Nat) : r.get a = none ↔ a ∉ r.map (·.1) := by
  induction r with
  | nil => simp [Reg.get]
  | cons x xs ih =>
    obtain ⟨k, e⟩ := x
    by_cases hk : k = a
    · subst hk; simp [Reg.get]
    · have : ¬ a = k := fun h => hk h.symm
      simp [Reg.get, hk, ih, this]

theorem Reg.remove_of_get_none (r : Reg) (a : Nat) (h : r.get a = none) : r.remove a = r := by
  unfold Reg.remove
  rw [List.filter_eq_self]
  intro x hx
  have : a ∉ r.map (·.1) := (Reg.get_none_iff r a).1 h
  have hne : x.1 ≠ a := by
    intro heq; apply this; rw [← heq]; exact List.mem_map_of_mem hx
  simp [hne]

theorem Reg.keys_remove_sublist (r : Reg) (a : Nat) :
    ((r.remove a).map (·.1)).Sublist (r.map (·.1)) := by
  unfold Reg.remove
  exact (List.filter_sublist).map _

theorem Reg.keys_remove_nodup (r : Reg) (a : Nat) (h : (r.map (·.1)).Nodup) :
    ((r.remove a).map (·.1)).Nodup := (Reg.keys_remove_sublist r a).nodup h

/-- Removing the entry found by `get` moves exactly its allocation id out. -/
theorem Reg.allocs_remove_perm (r : Reg) (a : Nat) (e : Entry)
    (hk : (r.map (·.1)).Nodup) (hg : r.get a = some e) :
    (r.map (·.2.alloc)).Perm (e.alloc :: (r.remove a).map (·.2.alloc)) := by
  induction r with
  | nil => simp [Reg.get] at hg
  | cons x xs ih =>
    obtain ⟨k, e'⟩ := x
    have hk' : (xs.map (·.1)).Nodup := (List.nodup_cons.1 (by simpa using hk)).2
    have hknot : k ∉ xs.map (·.1) := (List.nodup_cons.1 (by simpa using hk)).1
    by_cases hka : k = a
    · subst hka
      simp only [Reg.get, if_true, Option.some.injEq] at hg
      subst hg
      have hnone : Reg.get xs k = none := (Reg.get_none_iff xs k).2 hknot
      have : Reg.remove ((k, e') :: xs) k = xs := by
        unfold Reg.remove
        simp only [List.filter_cons, bne_self_eq_false, Bool.false_eq_true, if_false]
        exact Reg.remove_of_get_none xs k hnone
      rw [this]
      simp
    · simp only [Reg.get, hka, if_false] at hg
      have hne : (k != a) = true := by simp [hka]
      have hrem : Reg.remove ((k, e') :: xs) a = (k, e') :: Reg.remove xs a := by
        unfold Reg.remove; simp [hne]
      rw [hrem]
      have := ih hk' hg
      simp only [List.map_cons]
      exact (List.Perm.cons _ this).trans (List.Perm.swap _ _ _)


/-! ### effect of one guard event -/

/-- What a passing guard event can do to the world: nothing, or release the tracked
argument (ownership taken by `untrack_or_return!` / cleanup run by `cimpl_free`). -/
inductive EvEffect (w : World) (a : Nat) : World → List Nat → Prop
  | same : EvEffect w a w []
  | released (ent : Entry) (ha : a ≠ 0) (hg : w.reg.get a = some ent) :
      EvEffect w a { w with reg := w.reg.remove a, cleanups := (ent.alloc, a) :: w.cleanups } [a]

theorem validate_ok_iff (r : Reg) (a : Nat) (t : Ty) (e : Entry) :
    validate r a t = .ok e ↔ a ≠ 0 ∧ r.get a = some e ∧ e.ty = t := by
  unfold validate
  by_cases ha : a = 0
  · simp [ha]
  · cases hg : r.get a with
    | none => simp [ha]
    | some e' =>
      by_cases ht : e'.ty = t
      · simp only [ha, if_false, ht, if_true, Except.ok.injEq, ne_eq, not_false_eq_true,
          Option.some.injEq, true_and]
        constructor
        · intro h; subst h; exact ⟨rfl, ht⟩
        · intro h; exact h.1
      · simp only [ha, if_false, ht, ne_eq, not_false_eq_true, Option.some.injEq, true_and]
        constructor
        · intro h; cases h
        · rintro ⟨h1, h2⟩; subst h1; exact absurd h2 ht

theorem untrack_ok_iff (r r' : Reg) (a : Nat) (t : Ty) (e : Entry) :
    untrack r a t = .ok (r', e) ↔ a ≠ 0 ∧ r.get a = some e ∧ e.ty = t ∧ r' = r.remove a := by
  unfold untrack
  by_cases ha : a = 0
  · simp [ha]
  · cases hg : r.get a with
    | none => simp [ha]
    | some e' =>
      by_cases ht : e'.ty = t
      · simp only [ha, if_false, ht, if_true, Except.ok.injEq, Prod.mk.injEq, ne_eq,
          not_false_eq_true, Option.some.injEq, true_and]
        constructor
        · rintro ⟨h1, h2⟩; subst h2; exact ⟨rfl, ht, h1.symm⟩
        · rintro ⟨h1, _, h3⟩; exact ⟨h3.symm, h1⟩
      · simp only [ha, if_false, ht, ne_eq, not_false_eq_true, Option.some.injEq, true_and]
        constructor
        · intro h; cases h
        · rintro ⟨h1, h2, _⟩; subst h1; exact absurd h2 ht

theorem free_ok_iff (r r' : Reg) (a : Nat) (t : Ty) (oe : Option Entry) :
    free r a t = .ok (r', oe) ↔
      (a = 0 ∧ r' = r ∧ oe = none) ∨
      (a ≠ 0 ∧ ∃ e, r.get a = some e ∧ oe = some e ∧ r' = r.remove a ∧ (t = .none ∨ e.ty = t)) := by
  unfold free
  by_cases ha : a = 0
  · simp only [ha, if_true, Except.ok.injEq, Prod.mk.injEq, true_and, ne_eq, not_true_eq_false,
      false_and, or_false]
    constructor
    · rintro ⟨h1, h2⟩; exact ⟨h1.symm, h2.symm⟩
    · rintro ⟨h1, h2⟩; exact ⟨h1.symm, h2.symm⟩
  · cases hg : r.get a with
    | none => simp [ha]
    | some e =>
      by_cases ht : t = .none ∨ e.ty = t
      · simp only [ha, if_false, ht, if_true, Except.ok.injEq, Prod.mk.injEq, false_and, ne_eq,
          not_false_eq_true, Option.some.injEq, true_and, false_or]
        constructor
        · rintro ⟨h1, h2⟩; exact ⟨e, rfl, h2.symm, h1.symm, ht⟩
        · rintro ⟨e', h1, h2, h3, _⟩; subst h1; exact ⟨h3.symm, h2.symm⟩
      · simp only [ha, if_false, ht, false_and, ne_eq, not_false_eq_true, Option.some.injEq,
          true_and, false_or]
        constructor
        · intro h; cases h
        · rintro ⟨e', h1, _, _, h4⟩; subst h1; exact absurd h4 ht

/-- The two ways a release is refused: the address is not tracked, or (typed release only) it
is tracked with another type. -/
theorem free_err (r : Reg) (a : Nat) (t : Ty) (x : RegErr) (h : free r a t = .error x) :
    a ≠ 0 ∧ ((x = .untracked ∧ r.get a = none) ∨
             (x = .wrongType ∧ t ≠ .none ∧ ∃ e, r.get a = some e ∧ e.ty ≠ t)) := by
  unfold free at h
  by_cases ha : a = 0
  · simp [ha] at h
  · refine ⟨ha, ?_⟩
    cases hg : r.get a with
    | none => simp [ha, hg] at h; exact Or.inl ⟨h.symm, rfl⟩
    | some e =>
      by_cases ht : t = .none ∨ e.ty = t
      · simp [ha, hg, ht] at h
      · simp only [ha, hg, if_false, ht, Except.error.injEq] at h
        refine Or.inr ⟨h.symm, fun h0 => ht (Or.inl h0), e, rfl, fun h1 => ht (Or.inr h1)⟩

theorem evStep_ok (row : FnRow) (args : List Arg) (w w' : World) (e : Event) (f : List Nat)
    (h : evStep row args w e = .ok (w', f)) : EvEffect w (argOf args e.p).a w' f := by
  unfold evStep at h
  cases hu : e.use <;> simp only [hu] at h
  case validate =>
    cases hv : validate w.reg (argOf args e.p).a e.ty <;> simp [hv] at h
    obtain ⟨h1, h2⟩ := h; subst h1; subst h2; exact .same
  case validateNonnull =>
    by_cases ha : (argOf args e.p).a = 0
    · simp [ha] at h; obtain ⟨h1, h2⟩ := h; subst h1; subst h2; exact .same
    · cases hv : validate w.reg (argOf args e.p).a e.ty <;> simp [ha, hv] at h
      obtain ⟨h1, h2⟩ := h; subst h1; subst h2; exact .same
  case untrack =>
    cases hv : untrack w.reg (argOf args e.p).a e.ty with
    | error x => simp [hv] at h
    | ok p =>
      obtain ⟨r, ent⟩ := p
      simp only [hv, Except.ok.injEq, Prod.mk.injEq] at h
      obtain ⟨h1, h2⟩ := h
      obtain ⟨ha, hg, _, hr⟩ := (untrack_ok_iff _ _ _ _ _).1 hv
      subst h1; subst h2; subst hr
      exact .released ent ha hg
  case free =>
    cases hv : free w.reg (argOf args e.p).a e.ty with
    | error x => simp [hv] at h
    | ok p =>
      obtain ⟨r, oe⟩ := p
      rcases (free_ok_iff _ _ _ _ _).1 hv with ⟨_, hr, ho⟩ | ⟨ha, ent, hg, ho, hr, _⟩
      · subst ho
        simp only [hv, Except.ok.injEq, Prod.mk.injEq] at h
        obtain ⟨h1, h2⟩ := h; subst h1; subst h2; exact .same
      · subst ho
        simp only [hv, Except.ok.injEq, Prod.mk.injEq] at h
        obtain ⟨h1, h2⟩ := h; subst h1; subst h2; subst hr
        exact .released ent ha hg
  case nullck => split at h <;> simp at h; obtain ⟨h1, h2⟩ := h; subst h1; subst h2; exact .same
  case nullretOk => split at h <;> simp at h; obtain ⟨h1, h2⟩ := h; subst h1; subst h2; exact .same
  case nullretSilent => split at h <;> simp at h; obtain ⟨h1, h2⟩ := h; subst h1; subst h2; exact .same
  case nullbranch => split at h <;> simp at h; obtain ⟨h1, h2⟩ := h; subst h1; subst h2; exact .same
  case cstr => split at h <;> simp at h; obtain ⟨h1, h2⟩ := h; subst h1; subst h2; exact .same
  case bytes =>
    split at h
    · simp at h
    · split at h <;> simp at h; obtain ⟨h1, h2⟩ := h; subst h1; subst h2; exact .same
  case ifnonnull => simp at h; obtain ⟨h1, h2⟩ := h; subst h1; subst h2; exact .same
  case cstropt => simp at h; obtain ⟨h1, h2⟩ := h; subst h1; subst h2; exact .same
  case cstrarr => simp at h; obtain ⟨h1, h2⟩ := h; subst h1; subst h2; exact .same
  case «opaque» => simp at h; obtain ⟨h1, h2⟩ := h; subst h1; subst h2; exact .same
  case scalar => simp at h; obtain ⟨h1, h2⟩ := h; subst h1; subst h2; exact .same
  case raw => split at h <;> simp at h; obtain ⟨h1, h2⟩ := h; subst h1; subst h2; exact .same
  case rawwrite => split at h <;> simp at h; obtain ⟨h1, h2⟩ := h; subst h1; subst h2; exact .same
  case fieldread => split at h <;> simp at h; obtain ⟨h1, h2⟩ := h; subst h1; subst h2; exact .same
  case rawNonnull =>
    split at h
    · simp at h; obtain ⟨h1, h2⟩ := h; subst h1; subst h2; exact .same
    · split at h <;> simp at h; obtain ⟨h1, h2⟩ := h; subst h1; subst h2; exact .same
  case writeNonnull =>
    split at h
    · simp at h; obtain ⟨h1, h2⟩ := h; subst h1; subst h2; exact .same
    · split at h <;> simp at h; obtain ⟨h1, h2⟩ := h; subst h1; subst h2; exact .same


/-! ### the allocation-id invariant -/

/-- All allocation ids the world knows about: tracked, untracked-but-live arrays, cleaned up. -/
def World.ids (w : World) : List Nat :=
  w.reg.map (·.2.alloc) ++ (w.arrays.map (·.alloc) ++ w.cleanups.map (·.1))

/-- Every allocation id below `next` is in exactly one of: tracked, live array, cleaned up
(exactly once). -/
structure Inv (w : World) : Prop where
  keys : (w.reg.map (·.1)).Nodup
  akeys : (w.arrays.map (·.addr)).Nodup
  nodup : w.ids.Nodup
  lt : ∀ i, i ∈ w.ids ↔ i < w.next

theorem Inv.empty : Inv {} := by
  constructor <;> simp [World.ids]

theorem Inv.of_perm {w w' : World} (h : Inv w) (hk : (w'.reg.map (·.1)).Nodup)
    (ha : (w'.arrays.map (·.addr)).Nodup) (hp : w'.ids.Perm w.ids) (hn : w'.next = w.next) : Inv w' :=
  { keys := hk, akeys := ha, nodup := hp.nodup_iff.2 h.nodup
    lt := fun i => by rw [hp.mem_iff, h.lt, hn] }

theorem EvEffect.inv {w w' : World} {a : Nat} {f : List Nat} (h : EvEffect w a w' f) (hi : Inv w) : Inv w' := by
  cases h with
  | same => exact hi
  | released ent ha hg =>
    refine hi.of_perm (Reg.keys_remove_nodup _ _ hi.keys) hi.akeys ?_ rfl
    have hp := Reg.allocs_remove_perm w.reg a ent hi.keys hg
    simp only [World.ids, List.map_cons]
    -- X ++ (A ++ i :: C)  ~  (i :: X) ++ (A ++ C)  ~  R ++ (A ++ C)
    refine List.Perm.trans ?_ (hp.symm.append_right _)
    refine List.Perm.trans (List.Perm.append_left _ List.perm_middle) ?_
    exact List.perm_middle

theorem EvEffect.get {w w' : World} {a : Nat} {f : List Nat} (h : EvEffect w a w' f) (b : Nat) :
    w'.reg.get b = none ∨ w'.reg.get b = w.reg.get b := by
  cases h with
  | same => exact Or.inr rfl
  | released ent ha hg =>
    simp only [Reg.get_remove]
    by_cases hb : b = a
    · left; simp [hb]
    · right; simp [hb]

theorem EvEffect.arrays {w w' : World} {a : Nat} {f : List Nat} (h : EvEffect w a w' f) :
    w'.arrays = w.arrays ∧ w'.next = w.next := by
  cases h <;> exact ⟨rfl, rfl⟩

theorem runEvents_inv (row : FnRow) (args : List Arg) (es : List Event) (w : World) (fr : List Nat)
    (hi : Inv w) : Inv (runEvents row args w fr es).1 := by
  induction es generalizing w fr with
  | nil => exact hi
  | cons e es ih =>
    unfold runEvents
    cases h : evStep row args w e with
    | error s => exact hi
    | ok p =>
      obtain ⟨w', f⟩ := p
      exact ih w' (fr ++ f) ((evStep_ok _ _ _ _ _ _ h).inv hi)

theorem runEvents_get (row : FnRow) (args : List Arg) (es : List Event) (w : World) (fr : List Nat) (b : Nat) :
    (runEvents row args w fr es).1.reg.get b = none ∨ (runEvents row args w fr es).1.reg.get b = w.reg.get b := by
  induction es generalizing w fr with
  | nil => exact Or.inr rfl
  | cons e es ih =>
    unfold runEvents
    cases h : evStep row args w e with
    | error s => exact Or.inr rfl
    | ok p =>
      obtain ⟨w', f⟩ := p
      rcases ih w' (fr ++ f) with h1 | h1
      · exact Or.inl h1
      · rcases (evStep_ok _ _ _ _ _ _ h).get b with h2 | h2
        · left; rw [h1, h2]
        · right; rw [h1, h2]

theorem runEvents_arrays (row : FnRow) (args : List Arg) (es : List Event) (w : World) (fr : List Nat) :
    (runEvents row args w fr es).1.arrays = w.arrays ∧ (runEvents row args w fr es).1.next = w.next := by
  induction es generalizing w fr with
  | nil => exact ⟨rfl, rfl⟩
  | cons e es ih =>
    unfold runEvents
    cases h : evStep row args w e with
    | error s => exact ⟨rfl, rfl⟩
    | ok p =>
      obtain ⟨w', f⟩ := p
      obtain ⟨h1, h2⟩ := ih w' (fr ++ f)
      obtain ⟨h3, h4⟩ := (evStep_ok _ _ _ _ _ _ h).arrays
      exact ⟨h1.trans h3, h2.trans h4⟩


/-! ### allocation and release loops -/

theorem World.arrayAt_none_iff (w : World) (a : Nat) : w.arrayAt a = none ↔ a ∉ w.arrays.map (·.addr) := by
  unfold World.arrayAt
  rw [List.find?_eq_none]
  simp only [List.mem_map, not_exists, not_and]
  constructor
  · intro h x hx heq; exact h x hx (by simp [heq])
  · intro h x hx heq; exact h x hx (by simpa using heq)

theorem World.live_false (w : World) (a : Nat) (h : w.live a = false) :
    w.reg.get a = none ∧ a ∉ w.arrays.map (·.addr) := by
  unfold World.live at h
  simp only [Bool.or_eq_false_iff, Option.isSome_eq_false_iff, Option.isNone_iff_eq_none] at h
  exact ⟨h.1, (w.arrayAt_none_iff a).1 h.2⟩

theorem allocTracked_inv (w : World) (a : Nat) (t : Ty) (hi : Inv w)
    (hok : (allocTracked w a t).2 = true) : Inv (allocTracked w a t).1 := by
  unfold allocTracked at hok ⊢
  by_cases ha : a = 0
  · simpa [ha] using hi
  · simp only [ha, if_false, Bool.not_eq_true'] at hok ⊢
    obtain ⟨hg, _⟩ := w.live_false a hok
    have hrem : w.reg.remove a = w.reg := Reg.remove_of_get_none _ _ hg
    have hnk : a ∉ w.reg.map (·.1) := (Reg.get_none_iff _ _).1 hg
    have hnext : w.next ∉ w.ids := fun h => Nat.lt_irrefl _ ((hi.lt _).1 h)
    constructor
    · simp only [track, ha, if_false, Reg.insert, hrem, List.map_cons]
      exact List.nodup_cons.2 ⟨hnk, hi.keys⟩
    · exact hi.akeys
    · simp only [World.ids, track, ha, if_false, Reg.insert, hrem, List.map_cons, List.cons_append]
      exact List.nodup_cons.2 ⟨hnext, hi.nodup⟩
    · intro i
      simp only [World.ids, track, ha, if_false, Reg.insert, hrem, List.map_cons, List.cons_append,
        List.mem_cons]
      have := hi.lt i
      simp only [World.ids] at this
      rw [this]; omega

theorem allocTracked_arrays (w : World) (a : Nat) (t : Ty) : (allocTracked w a t).1.arrays = w.arrays := by
  unfold allocTracked; by_cases ha : a = 0 <;> simp [ha]

theorem allocStrings_inv (l : List Nat) (w : World) (hi : Inv w)
    (hok : (allocStrings w l).2 = true) : Inv (allocStrings w l).1 := by
  induction l generalizing w with
  | nil => exact hi
  | cons a as ih =>
    simp only [allocStrings, Bool.and_eq_true, decide_eq_true_eq] at hok ⊢
    exact ih _ (allocTracked_inv w a .cstring hi hok.1.2) hok.2

theorem allocStrings_arrays (l : List Nat) (w : World) : (allocStrings w l).1.arrays = w.arrays := by
  induction l generalizing w with
  | nil => rfl
  | cons a as ih => simp only [allocStrings]; rw [ih, allocTracked_arrays]

theorem freeElems_inv (t : Ty) (l : List Nat) (w : World) (hi : Inv w) :
    Inv (freeElems t w l).1 ∧ (freeElems t w l).1.arrays = w.arrays := by
  induction l generalizing w with
  | nil => exact ⟨hi, rfl⟩
  | cons a as ih =>
    unfold freeElems
    cases hf : free w.reg a t with
    | error x => simpa using ih w hi
    | ok p =>
      obtain ⟨r, oe⟩ := p
      rcases (free_ok_iff _ _ _ _ _).1 hf with ⟨_, _, ho⟩ | ⟨ha, ent, hg, ho, hr, _⟩
      · subst ho; simpa using ih w hi
      · subst ho; subst hr
        have hi' : Inv { w with reg := w.reg.remove a, cleanups := (ent.alloc, a) :: w.cleanups } :=
          (EvEffect.released ent ha hg).inv hi
        simpa using ih _ hi'

/-- Removing the array found by `arrayAt` moves exactly its allocation id out. -/
theorem arrays_remove_perm (l : List ArrayEntry) (a : Nat) (ar : ArrayEntry)
    (hk : (l.map (·.addr)).Nodup) (hf : l.find? (fun x => x.addr == a) = some ar) :
    (l.map (·.alloc)).Perm (ar.alloc :: (l.filter (fun x => x.addr != ar.addr)).map (·.alloc)) ∧
    ((l.filter (fun x => x.addr != ar.addr)).map (·.addr)).Nodup := by
  induction l with
  | nil => simp at hf
  | cons x xs ih =>
    have hk' : (xs.map (·.addr)).Nodup := (List.nodup_cons.1 (by simpa using hk)).2
    have hx : x.addr ∉ xs.map (·.addr) := (List.nodup_cons.1 (by simpa using hk)).1
    by_cases hxa : x.addr = a
    · have : ar = x := by simp [hxa] at hf; exact hf.symm
      subst this
      have hfil : xs.filter (fun y => y.addr != ar.addr) = xs := by
        rw [List.filter_eq_self]
        intro y hy
        have : y.addr ≠ ar.addr := fun h => hx (h ▸ List.mem_map_of_mem hy)
        simp [this]
      simp only [List.filter_cons, bne_self_eq_false, Bool.false_eq_true, if_false, hfil]
      exact ⟨List.Perm.refl _, hk'⟩
    · have hf' : xs.find? (fun y => y.addr == a) = some ar := by
        simpa [List.find?_cons, hxa] using hf
      obtain ⟨h1, h2⟩ := ih hk' hf'
      have hara : ar.addr = a := by
        have := List.find?_some hf'; simpa using this
      have hne : (x.addr != ar.addr) = true := by simp [hara, hxa]
      simp only [List.filter_cons, hne, if_true, List.map_cons]
      refine ⟨(List.Perm.cons _ h1).trans (List.Perm.swap _ _ _), ?_⟩
      refine List.nodup_cons.2 ⟨?_, h2⟩
      intro hmem
      apply hx
      exact (List.filter_sublist.map _).subset hmem

theorem finish_inv (w : World) (c : Call) (fr : List Nat) (hi : Inv w)
    (hok : (finish w c fr).2.allocBad = false) : Inv (finish w c fr).1 := by
  unfold finish at hok ⊢
  by_cases hfa : c.row.freesArray = true
  · simp only [hfa, if_true] at hok ⊢
    cases har : w.arrayAt (argOf c.args 0).a with
    | none => simpa [har] using hi
    | some ar =>
      simp only []
      obtain ⟨hi1, harr⟩ := freeElems_inv c.row.elemTy ar.elems w hi
      have hf : (freeElems c.row.elemTy w ar.elems).1.arrays.find? (fun x => x.addr == (argOf c.args 0).a) = some ar := by
        rw [harr]; exact har
      obtain ⟨hp, hnd⟩ := arrays_remove_perm _ _ ar hi1.akeys hf
      refine hi1.of_perm hi1.keys hnd ?_ rfl
      simp only [World.ids, List.map_cons]
      -- R ++ (A' ++ i :: C) ~ R ++ (i :: A' ++ C) ~ R ++ (A ++ C)
      refine List.Perm.append_left _ ?_
      refine List.Perm.trans List.perm_middle ?_
      exact (hp.symm.append_right _)
  · have hfa' : c.row.freesArray = false := by simpa using hfa
    simp only [hfa', Bool.false_eq_true, if_false] at hok ⊢
    cases hr : c.row.ret <;> simp only [hr] at hok ⊢
    case unit => exact hi
    case int => exact hi
    case bool => exact hi
    case handle =>
      simp only [Bool.not_eq_eq_eq_not, Bool.not_false, Bool.and_eq_true] at hok
      exact allocTracked_inv _ _ _ hi hok.1
    case cstring =>
      simp only [Bool.not_eq_eq_eq_not, Bool.not_false] at hok
      exact allocTracked_inv _ _ _ hi hok
    case cstringOpt =>
      simp only [Bool.not_eq_eq_eq_not, Bool.not_false] at hok
      exact allocTracked_inv _ _ _ hi hok
    case bytes =>
      simp only [Bool.not_eq_eq_eq_not, Bool.not_false] at hok
      exact allocTracked_inv _ _ _ hi hok
    case int64 =>
      cases hob : c.row.outBytes with
      | none => simpa [hob] using hi
      | some p =>
        simp only [hob] at hok ⊢
        by_cases hz : (argOf c.args p).a = 0
        · simpa [hz] using hi
        · simp only [hz, if_false, Bool.not_eq_eq_eq_not, Bool.not_false] at hok ⊢
          exact allocTracked_inv _ _ _ hi hok
    case strarray =>
      cases hrev : c.allocs.reverse with
      | nil => simp [hrev] at hok
      | cons arr revElems =>
        simp only [hrev, Bool.or_eq_false_iff, Bool.not_eq_eq_eq_not, Bool.not_false,
          beq_eq_false_iff_ne, ne_eq] at hok ⊢
        obtain ⟨hok1, hnz, hnl⟩ := hok
        have hi1 := allocStrings_inv revElems.reverse w hi hok1
        obtain ⟨_, hna⟩ := World.live_false _ _ hnl
        have hnext : (allocStrings w revElems.reverse).1.next ∉ (allocStrings w revElems.reverse).1.ids :=
          fun h => Nat.lt_irrefl _ ((hi1.lt _).1 h)
        constructor
        · exact hi1.keys
        · simp only [List.map_cons]; exact List.nodup_cons.2 ⟨hna, hi1.akeys⟩
        · simp only [World.ids, List.map_cons, List.cons_append]
          exact (List.perm_middle.nodup_iff).2 (List.nodup_cons.2 ⟨hnext, hi1.nodup⟩)
        · intro i
          simp only [World.ids, List.map_cons, List.cons_append]
          rw [List.perm_middle.mem_iff, List.mem_cons]
          have := hi1.lt i
          simp only [World.ids] at this
          rw [this]; omega

theorem step_inv (w : World) (c : Call) (hi : Inv w) (hok : (step w c).2.allocBad = false) :
    Inv (step w c).1 := by
  unfold step at hok ⊢
  have hre := runEvents_inv c.row c.args c.row.events w [] hi
  rcases hrun : runEvents c.row c.args w [] c.row.events with ⟨w1, fr, st⟩
  rw [hrun] at hre hok
  simp only at hre
  cases st with
  | none =>
    simp only at hok ⊢
    by_cases hin : c.inner = true
    · simp only [hin, if_true] at hok ⊢; exact finish_inv _ _ _ hre hok
    · simp only [hin]; exact hre
  | some s =>
    cases s with
    | err e => exact hre
    | silent => exact hre
    | okEarly => exact hre
    | ub => exact hi
    | alt =>
      simp only at hok ⊢
      by_cases hin : c.inner = true
      · simp only [hin, if_true] at hok ⊢; exact finish_inv _ _ _ hre hok
      · simp only [hin]; exact hre

end C2pa.C31
