import C2paModel.Lemmas.C13Pipe
import C2paModel.Lemmas.C13Run
/-
C13 — the two-actor hand-off system (`PStep`) tied to the sequential chunk loop (`chunkLoop`):
* every run of the hand-off system can be completed (`pipeline_reaches_done`);
* the chunks the loop reads are `loopChunks`, and the hasher content the sequential loop ends
  with is the content every completed schedule of the hand-off system ends with.
-/
namespace C2pa.C13

theorem PReach.trans {s t u : PState} (h1 : PReach s t) (h2 : PReach t u) : PReach s u := by
  induction h2 with
  | refl => exact h1
  | step _ hs ih => exact PReach.step ih hs

theorem PReach.single {s t : PState} (h : PStep s t) : PReach s t :=
  PReach.step (PReach.refl s) h

/-- one full hand-off: from "main holds chunk `c`, more to read" to "main holds the next
chunk and the hasher that absorbed `c`" (worker first, then the read) -/
theorem handoff_reach (h0 c u : List UInt8) (us : List (List UInt8)) :
    PReach (pInit h0 c (u :: us)) (pInit (h0 ++ c) u us) := by
  unfold pInit
  have s1 := PStep.spawn u us c h0
  have s2 := PStep.workerRun (u :: us) none h0 c
  have s3 := PStep.readNext u us none (some (h0 ++ c))
  have s4 := PStep.recv us u (h0 ++ c)
  exact PReach.step (PReach.step (PReach.step (PReach.single s1) s2) s3) s4

/-- **Termination**: from the initial state a finished state is reachable. -/
theorem pipeline_reaches_done : ∀ (cs : List (List UInt8)) (h0 c : List UInt8),
    ∃ s, PReach (pInit h0 c cs) s ∧ s.done = true := by
  intro cs
  induction cs with
  | nil =>
    intro h0 c
    exact ⟨_, PReach.single (PStep.inlineLast c h0), rfl⟩
  | cons u us ih =>
    intro h0 c
    obtain ⟨s, hs, hd⟩ := ih (h0 ++ c) u
    exact ⟨s, (handoff_reach h0 c u us).trans hs, hd⟩

/-! ### the chunks the sequential loop reads -/

/-- the chunks `chunkLoop` reads after the one it was entered with: `left` bytes from stream
position `pos`, each chunk `min left buf` bytes long (`fuel` as in `chunkLoop`) -/
def loopChunks (data : List UInt8) (buf : Nat) : Nat → Nat → Nat → List (List UInt8)
  | 0, _, _ => []
  | fuel + 1, pos, left =>
    if left = 0 then []
    else (data.drop pos).take (min left buf) :: loopChunks data buf fuel (pos + min left buf) (left - min left buf)

/-- every chunk is non-empty and at most `buf` bytes (for chunks inside the data) -/
theorem loopChunks_len (data : List UInt8) (buf : Nat) : ∀ (fuel pos left : Nat),
    pos + left ≤ data.length → 0 < buf →
    ∀ ch ∈ loopChunks data buf fuel pos left, 1 ≤ ch.length ∧ ch.length ≤ buf := by
  intro fuel
  induction fuel with
  | zero => intro pos left _ _ ch h; simp [loopChunks] at h
  | succ fuel ih =>
    intro pos left hin hb ch h
    unfold loopChunks at h
    by_cases hz : left = 0
    · simp [hz] at h
    · simp only [hz, if_false, List.mem_cons] at h
      have hm1 : 1 ≤ min left buf := by rw [Nat.le_min]; omega
      have hm2 : min left buf ≤ left := Nat.min_le_left _ _
      have hm3 : min left buf ≤ buf := Nat.min_le_right _ _
      rcases h with rfl | h
      · have : ((data.drop pos).take (min left buf)).length = min left buf := by simp; omega
        omega
      · exact ih _ _ (by omega) hb ch h

/-- **The sequential loop is one run of the hand-off system.** When `chunkLoop` succeeds, the
chunks it read (each one the result of a successful `read_exact`) are `loopChunks`, and it
absorbed the entry chunk followed by these chunks, in order. -/
theorem chunkLoop_chunks {data : List UInt8} {buf T : Nat} {c : Option Nat} :
    ∀ (fuel pos : Nat) (chunk : List UInt8) (left : Nat) (st st' : St),
      chunkLoop data buf T c fuel pos chunk left st = .ok st' →
      st'.absorbed =
        st.absorbed ++ chunk ++ (loopChunks data buf fuel pos (left - chunk.length)).flatten := by
  intro fuel
  induction fuel with
  | zero => intro pos chunk left st st' h; simp [chunkLoop] at h
  | succ fuel ih =>
    intro pos chunk left st st' h
    unfold chunkLoop at h
    by_cases h1 : left < chunk.length
    · simp [h1] at h
    · simp only [h1, if_false] at h
      by_cases h2 : left - chunk.length = 0
      · simp only [h2, if_true, Except.ok.injEq] at h
        subst h
        simp [loopChunks, h2]
      · simp only [h2, if_false] at h
        cases hr : readExact data pos (min (left - chunk.length) buf) with
        | none => simp [hr] at h
        | some next =>
          simp only [hr] at h
          cases ht : tick T c { st with absorbed := st.absorbed ++ chunk } with
          | error o => simp [ht] at h
          | ok st2 =>
            simp only [ht] at h
            have ha := ih _ _ _ _ _ h
            obtain ⟨hn, _, hl⟩ := readExact_some hr
            obtain ⟨t1, _, _, _, _⟩ := tick_ok ht
            have e : loopChunks data buf (fuel + 1) pos (left - chunk.length) =
                next :: loopChunks data buf fuel (pos + min (left - chunk.length) buf)
                  (left - chunk.length - min (left - chunk.length) buf) := by
              simp only [loopChunks, h2, if_false]
              rw [← hn]
            rw [ha, t1, hl, e]
            simp [List.append_assoc]

/-- a finished state reached from the initial state has the hasher back on the main thread,
having absorbed all chunks in stream order -/
theorem pipeline_done_mainH (h0 c : List UInt8) (cs : List (List UInt8)) (s : PState)
    (hr : PReach (pInit h0 c cs) s) (hd : s.done = true) :
    s.mainH = some (h0 ++ c ++ cs.flatten) ∧ s.worker = none ∧ s.chan = none := by
  have hv := hr.view_eq
  have hsh := hr.shape (PShape.holding cs c h0)
  cases hsh with
  | finished h =>
    simp [PState.view, pInit] at hv
    exact ⟨by rw [hv, List.append_assoc], rfl, rfl⟩
  | holding us c' h => simp at hd
  | spawned u us h c' => simp at hd
  | hashed u us h => simp at hd
  | readAhead us nx h c' => simp at hd
  | both us nx h => simp at hd

/-- … hence every completed schedule of the hand-off system, started with the hasher content
and the entry chunk of the loop and fed the chunks the loop reads, ends with exactly the
hasher content the sequential loop ends with; and such a schedule exists. -/
theorem chunkLoop_pipeline {data : List UInt8} {buf T : Nat} {c : Option Nat}
    (fuel pos : Nat) (chunk : List UInt8) (left : Nat) (st st' : St)
    (h : chunkLoop data buf T c fuel pos chunk left st = .ok st') :
    (∃ s, PReach (pInit st.absorbed chunk (loopChunks data buf fuel pos (left - chunk.length))) s ∧
      s.done = true) ∧
    ∀ s, PReach (pInit st.absorbed chunk (loopChunks data buf fuel pos (left - chunk.length))) s →
      s.done = true → s.mainH = some st'.absorbed := by
  refine ⟨pipeline_reaches_done _ _ _, ?_⟩
  intro s hs hd
  rw [(pipeline_done_mainH _ _ _ s hs hd).1, chunkLoop_chunks _ _ _ _ _ _ h]

end C2pa.C13
