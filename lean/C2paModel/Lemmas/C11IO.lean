import C2paModel.Model.C11
/-
C11 — the fill loop of `container_from_stream` (`fill`) under well-behaved and failing streams.
-/
namespace C2pa.C11

/-- a script without hard errors and without a premature `Ok(0)` (which `Read` reserves for
end of stream) -/
def Benign (script : List Ev) : Prop := ∀ ev ∈ script, ev ≠ Ev.fail ∧ ev ≠ Ev.chunk 0

theorem fill_benign (want : Nat) (script : List Ev) (hb : Benign script) :
    ∀ (avail got : List UInt8),
      (fill want script avail got).1 = some (got ++ avail.take (want - got.length))
        ∧ Benign (fill want script avail got).2 := by
  induction script with
  | nil => intro avail got; exact ⟨rfl, by intro ev h; cases h⟩
  | cons ev rest ih =>
    intro avail got
    have hrest : Benign rest := fun e he => hb e (List.mem_cons_of_mem _ he)
    unfold fill
    by_cases hfull : got.length ≥ want
    · rw [if_pos hfull]
      have : want - got.length = 0 := by omega
      simp [this]; exact hb
    · rw [if_neg hfull]
      cases ev with
      | fail => exact absurd rfl (hb Ev.fail (List.mem_cons_self)).1
      | intr => exact ih hrest avail got
      | chunk k =>
        have hk : k ≠ 0 := by
          intro h0; subst h0; exact absurd rfl (hb (Ev.chunk 0) (List.mem_cons_self)).2
        simp only
        by_cases hemp : (avail.take (min k (want - got.length))).isEmpty = true
        · rw [if_pos hemp]
          have hnil : avail = [] := by
            cases avail with
            | nil => rfl
            | cons x xs =>
              have hpos : min k (want - got.length) = (min k (want - got.length) - 1) + 1 := by omega
              rw [hpos, List.take_succ_cons] at hemp; simp at hemp
          subst hnil; simp; exact hrest
        · rw [if_neg hemp]
          obtain ⟨h1, h2⟩ := ih hrest (avail.drop (avail.take (min k (want - got.length))).length)
            (got ++ avail.take (min k (want - got.length)))
          refine ⟨?_, h2⟩
          rw [h1]
          congr 1
          rw [List.append_assoc]
          congr 1
          -- take m ++ take (w - m') (drop m') = take w   where m' = |take m| ≤ w
          have hm : (avail.take (min k (want - got.length))).length ≤ want - got.length := by
            rw [List.length_take]; omega
          have e1 : avail.take (min k (want - got.length))
              = avail.take (avail.take (min k (want - got.length))).length := by
            rw [List.length_take]; exact List.take_eq_take_min
          have e2 : want - (got ++ avail.take (min k (want - got.length))).length
              = (want - got.length) - (avail.take (min k (want - got.length))).length := by
            rw [List.length_append]; omega
          rw [e2]
          generalize hm' : (avail.take (min k (want - got.length))).length = m' at *
          have e3 : want - got.length = m' + ((want - got.length) - m') := by omega
          conv => rhs; rw [e3, List.take_add]
          rw [← e1]

/-- bytes the events of a script prefix can deliver at most -/
def budget : List Ev → Nat
  | [] => 0
  | Ev.chunk k :: r => k + budget r
  | _ :: r => budget r

theorem fill_hits_error (want : Nat) (pre post : List Ev) (hb : Benign pre) :
    ∀ (avail got : List UInt8), got.length + budget pre < want → budget pre < avail.length →
      (fill want (pre ++ Ev.fail :: post) avail got).1 = none := by
  induction pre with
  | nil =>
    intro avail got h1 _
    simp only [List.nil_append]
    unfold fill
    rw [if_neg (by simp [budget] at h1; omega)]
  | cons ev rest ih =>
    intro avail got h1 h2
    have hrest : Benign rest := fun e he => hb e (List.mem_cons_of_mem _ he)
    simp only [List.cons_append]
    unfold fill
    cases ev with
    | fail => exact absurd rfl (hb Ev.fail (List.mem_cons_self)).1
    | intr =>
      simp only [budget] at h1 h2
      rw [if_neg (by omega)]
      exact ih hrest avail got h1 h2
    | chunk k =>
      have hk : k ≠ 0 := by
        intro h0; subst h0; exact absurd rfl (hb (Ev.chunk 0) (List.mem_cons_self)).2
      simp only [budget] at h1 h2
      rw [if_neg (by omega)]
      simp only
      have hmin : min k (want - got.length) = k := by omega
      rw [hmin]
      have hlen : (avail.take k).length = k := by rw [List.length_take]; omega
      have hne : (avail.take k).isEmpty = false := by
        cases hh : avail.take k with
        | nil => rw [hh] at hlen; simp at hlen; omega
        | cons _ _ => rfl
      rw [hne]
      simp only [Bool.false_eq_true, ↓reduceIte, hlen]
      apply ih hrest
      · rw [List.length_append, hlen]; omega
      · rw [List.length_drop]; omega

theorem fill_benign_fst (want : Nat) (script : List Ev) (avail : List UInt8) (hb : Benign script) :
    (fill want script avail []).1 = some (avail.take want) := by
  have := (fill_benign want script hb avail []).1
  simpa using this

theorem fill_benign_snd (want : Nat) (script : List Ev) (avail : List UInt8) (hb : Benign script) :
    Benign (fill want script avail []).2 := (fill_benign want script hb avail []).2

theorem sliceEq_mFLaC (s : List UInt8) (off : Nat) :
    sliceEq s off mFLaC = ((s.drop off).take 4 == mFLaC) := rfl

theorem none_beq (k : Nat) : ((none : Option Nat) == some k) = false := rfl

/-- `detectIO` without seek failures, once the two fills are known -/
theorem detectIO_eq (pdf : Bool) (script : List Ev) (s buf m : List UInt8)
    (h1 : (fill 16 script s []).1 = some buf)
    (p1 : (fill 4 (fill 16 script s []).2 (s.drop (10 + id3Size buf)) []).1 = some m) :
    detectIO pdf script none s = detectB pdf buf (m == mFLaC) := by
  unfold detectIO
  rw [none_beq, h1]
  simp only [Bool.false_eq_true, ↓reduceIte, none_beq]
  rw [p1]

/-- a hard read error while filling the sniff buffer: nothing is detected -/
theorem detectIO_none_of_fill_none (pdf : Bool) (script : List Ev) (sf : Option Nat) (s : List UInt8)
    (h : (fill 16 script s []).1 = none) : detectIO pdf script sf s = none := by
  unfold detectIO
  rw [h]
  split <;> rfl

end C2pa.C11
