import C2paModel.Model.C01
import C2paModel.Props.C13
/-
C01 — lemmas about the position-wise selection `exclSpec` (C13) used by the data-hash and BMFF
binding theorems: equal selections of two streams under the same exclusion list mean equal
bytes at every position that is not excluded (and, without offset markers, equal lengths).
-/
namespace C2pa.C01
open C2pa.C13

/-- no entry carries a BMFF offset (what a `c2pa.hash.data` assertion can express: the offset
field of `HashRange` is `#[serde(skip)]`) -/
def Plain (ex : List HashRange) : Prop := ∀ r ∈ ex, r.off = none
/-- all entries end inside a stream of `n` bytes (what the C13 end check guarantees on success) -/
def Within (ex : List HashRange) (n : Nat) : Prop := ∀ r ∈ ex, r.start + r.length ≤ n

/-- two `flatMap`s with chunk-wise equal lengths are equal only if they are equal chunk by chunk -/
theorem flatMap_inj_len {α β : Type} (L : List α) (f g : α → List β)
    (hl : ∀ x ∈ L, (f x).length = (g x).length) (h : L.flatMap f = L.flatMap g) :
    ∀ x ∈ L, f x = g x := by
  induction L with
  | nil => intro x hx; cases hx
  | cons a as ih =>
    simp only [List.flatMap_cons] at h
    obtain ⟨h1, h2⟩ := List.append_inj h (hl a (List.mem_cons_self ..))
    intro x hx
    rcases List.mem_cons.1 hx with rfl | hx
    · exact h1
    · exact ih (fun y hy => hl y (List.mem_cons_of_mem _ hy)) h2 x hx

theorem byteAt_length (d : List UInt8) (x : Nat) (h : x < d.length) : (byteAt d x).length = 1 := by
  simp [byteAt, h]

/-- With equal lengths the per-position chunks of `exclSpec` have the same shape on both
streams, so equal selections are equal chunk by chunk. Holds with markers as well. -/
theorem exclSpec_eq_bytes (a a' : List UInt8) (ex : List HashRange) (hlen : a.length = a'.length)
    (h : exclSpec a ex = exclSpec a' ex) :
    ∀ x, excluded ex x = false → a[x]? = a'[x]? := by
  intro x hx
  by_cases hxn : x < a.length
  · unfold exclSpec at h
    rw [← hlen] at h
    have key := flatMap_inj_len (List.range a.length) _ _ ?_ h x (List.mem_range.2 hxn)
    · have key' := List.append_cancel_left key
      have hinc : included a.length ex x = true := by simp [included, hxn, hx]
      rw [hinc] at key'
      simp only [if_true] at key'
      have hx' : x < a'.length := by omega
      simpa [byteAt, hxn, hx'] using key'
    · intro y hy
      have hy1 := List.mem_range.1 hy
      have hy2 : y < a'.length := by omega
      simp only [List.length_append]
      congr 1
      split
      · rw [byteAt_length a y hy1, byteAt_length a' y hy2]
      · rfl
  · have h1 : a.length ≤ x := by omega
    have h2 : a'.length ≤ x := by omega
    rw [List.getElem?_eq_none h1, List.getElem?_eq_none h2]

/-- converse direction (completeness): equal length and equal bytes outside the exclusions give
equal selections -/
theorem exclSpec_congr (a a' : List UInt8) (ex : List HashRange) (hlen : a.length = a'.length)
    (hb : ∀ x, excluded ex x = false → a[x]? = a'[x]?) : exclSpec a ex = exclSpec a' ex := by
  unfold exclSpec
  rw [← hlen]
  apply flatMap_congr'
  intro x _
  congr 1
  by_cases hi : included a.length ex x = true
  · have : excluded ex x = false := by
      simp [included] at hi; exact hi.2
    simp only [hi, if_true, byteAt, hb x this]
  · simp [hi]

/-- normal form without markers -/
theorem markersOf_plain (ex : List HashRange) (hp : Plain ex) : markersOf ex = [] := by
  unfold markersOf
  rw [List.filterMap_eq_nil_iff]
  intro r hr; exact hp r hr

theorem exclSpec_plain (d : List UInt8) (ex : List HashRange) (hp : Plain ex) :
    exclSpec d ex = (List.range d.length).flatMap
      (fun x => if excluded ex x then [] else byteAt d x) := by
  unfold exclSpec
  apply flatMap_congr'
  intro x hx
  have hx1 := List.mem_range.1 hx
  simp [markerCopies, markersOf_plain ex hp, included, hx1]
  cases excluded ex x <;> simp


/-- number of non-excluded positions below `n` -/
def keepCount (ex : List HashRange) (n : Nat) : Nat :=
  (List.range n).countP (fun x => !excluded ex x)

theorem sel_length (d : List UInt8) (ex : List HashRange) : ∀ n, n ≤ d.length →
    ((List.range n).flatMap (fun x => if excluded ex x then [] else byteAt d x)).length =
      keepCount ex n := by
  intro n
  induction n with
  | zero => intro _; simp [keepCount]
  | succ n ih =>
    intro hn
    unfold keepCount at *
    rw [List.range_succ, List.flatMap_append, List.length_append, ih (by omega), List.countP_append]
    congr 1
    cases h : excluded ex n
    · simp [h, byteAt_length d n (by omega)]
    · simp [h]

theorem within_not_excluded (ex : List HashRange) (n x : Nat) (hw : Within ex n) (hx : n ≤ x) :
    excluded ex x = false := by
  rw [Bool.eq_false_iff]
  intro h
  obtain ⟨r, hr, hc⟩ := List.any_eq_true.1 h
  have := hw r hr
  simp only [Bool.and_eq_true, decide_eq_true_eq] at hc
  omega

theorem keepCount_add (ex : List HashRange) (n : Nat) (hw : Within ex n) :
    ∀ k, keepCount ex (n + k) = keepCount ex n + k := by
  intro k
  induction k with
  | zero => rfl
  | succ k ih =>
    have e : n + (k + 1) = (n + k) + 1 := by omega
    rw [e]
    unfold keepCount at *
    rw [List.range_succ, List.countP_append, ih]
    simp [within_not_excluded ex n (n + k) hw (by omega)]
    omega

/-- Without markers the selection has one byte per non-excluded position; when every range ends
inside both streams the longer stream selects strictly more bytes. -/
theorem exclSpec_plain_length (a a' : List UInt8) (ex : List HashRange) (hp : Plain ex)
    (hw : Within ex a.length) (hw' : Within ex a'.length)
    (h : exclSpec a ex = exclSpec a' ex) : a.length = a'.length := by
  have h1 := congrArg List.length h
  rw [exclSpec_plain a ex hp, exclSpec_plain a' ex hp, sel_length a ex _ (Nat.le_refl _),
    sel_length a' ex _ (Nat.le_refl _)] at h1
  rcases Nat.lt_trichotomy a.length a'.length with hlt | heq | hgt
  · have := keepCount_add ex a.length hw (a'.length - a.length)
    rw [show a.length + (a'.length - a.length) = a'.length by omega] at this
    omega
  · exact heq
  · have := keepCount_add ex a'.length hw' (a.length - a'.length)
    rw [show a'.length + (a.length - a'.length) = a.length by omega] at this
    omega

theorem exclSpec_plain_binds (a a' : List UInt8) (ex : List HashRange) (hp : Plain ex)
    (hw : Within ex a.length) (hw' : Within ex a'.length)
    (h : exclSpec a ex = exclSpec a' ex) :
    a.length = a'.length ∧ ∀ x, excluded ex x = false → a[x]? = a'[x]? :=
  ⟨exclSpec_plain_length a a' ex hp hw hw' h,
   exclSpec_eq_bytes a a' ex (exclSpec_plain_length a a' ex hp hw hw' h) h⟩

/-! ### with BMFF offset markers: the selection still fixes the length

The markers are hashed in-line, so in general two streams of different length can have the same
selection (eight data bytes that spell an offset). Under *one* exclusion list this cannot
happen as soon as some byte is hashed: lengthening the stream never removes a marker copy and
adds at least one byte per new position. -/

/-- the chunk of the specification at position `x` -/
def specChunk (d : List UInt8) (hr : List HashRange) (x : Nat) : List UInt8 :=
  (List.replicate (markerCopies d.length hr x) (be64 x)).flatten ++
    (if included d.length hr x then byteAt d x else [])

theorem exclSpec_eq_chunks (d : List UInt8) (hr : List HashRange) :
    exclSpec d hr = (List.range d.length).flatMap (specChunk d hr) := rfl

theorem included_mono (hr : List HashRange) (n n' x : Nat) (hx : x < n) (hn : n ≤ n') :
    included n' hr x = included n hr x := by
  have h1 : x < n' := by omega
  simp [included, hx, h1]

theorem replicate_flatten_len_mono {α : Type} (l : List α) (k k' : Nat) (h : k ≤ k') :
    (List.replicate k l).flatten.length ≤ (List.replicate k' l).flatten.length := by
  have e : ∀ k, (List.replicate k l).flatten.length = k * l.length := by intro k; simp
  rw [e, e]
  exact Nat.mul_le_mul_right _ h

theorem markerCopies_mono (hr : List HashRange) (n n' x : Nat) (hx : x < n) (hn : n ≤ n')
    (hany : ∃ y, y < n ∧ excluded hr y = false) :
    markerCopies n hr x ≤ markerCopies n' hr x := by
  obtain ⟨y, hy, hey⟩ := hany
  have hinc : ∀ z, z < n → included n' hr z = included n hr z := fun z hz => included_mono hr n n' z hz hn
  have hA : (List.range n).any (included n hr) = true :=
    List.any_eq_true.2 ⟨y, List.mem_range.2 hy, by simp [included, hy, hey]⟩
  have hA' : (List.range n').any (included n' hr) = true :=
    List.any_eq_true.2 ⟨y, List.mem_range.2 (by omega), by simp [included, hey]; omega⟩
  unfold markerCopies
  rw [hinc x hx]
  split
  · exact Nat.le_refl _
  · have hb : between n hr x = true → between n' hr x = true := by
      unfold between
      rw [hA, hA']
      simp only [if_true, Bool.and_eq_true]
      rintro ⟨h1, h2⟩
      constructor
      · unfold includedBelow at *
        obtain ⟨z, hz, hiz⟩ := List.any_eq_true.1 h1
        have hz' := List.mem_range.1 hz
        exact List.any_eq_true.2 ⟨z, hz, by rw [hinc z (by omega)]; exact hiz⟩
      · unfold includedAbove at *
        obtain ⟨z, hz, hiz⟩ := List.any_eq_true.1 h2
        rw [List.mem_range'_1] at hz
        exact List.any_eq_true.2 ⟨z, by rw [List.mem_range'_1]; omega, by rw [hinc z (by omega)]; exact hiz⟩
    by_cases hc : ((markersOf hr).contains x && between n hr x) = true
    · have : ((markersOf hr).contains x && between n' hr x) = true := by
        simp only [Bool.and_eq_true] at hc ⊢
        exact ⟨hc.1, hb hc.2⟩
      rw [if_pos hc, if_pos this]
      exact Nat.le_refl _
    · rw [if_neg hc]
      exact Nat.zero_le _

theorem specChunk_len_mono (a a' : List UInt8) (hr : List HashRange) (x : Nat) (hx : x < a.length)
    (hn : a.length ≤ a'.length) (hany : ∃ y, y < a.length ∧ excluded hr y = false) :
    (specChunk a hr x).length ≤ (specChunk a' hr x).length := by
  unfold specChunk
  rw [List.length_append, List.length_append, included_mono hr a.length a'.length x hx hn]
  have h1 := replicate_flatten_len_mono (be64 x) _ _ (markerCopies_mono hr a.length a'.length x hx hn hany)
  have h2 : (if included a.length hr x = true then byteAt a x else []).length =
      (if included a.length hr x = true then byteAt a' x else []).length := by
    split
    · rw [byteAt_length a x hx, byteAt_length a' x (by omega)]
    · rfl
  omega

theorem chunks_prefix_le (a a' : List UInt8) (hr : List HashRange) (hn : a.length ≤ a'.length)
    (hany : ∃ y, y < a.length ∧ excluded hr y = false) : ∀ m, m ≤ a.length →
    ((List.range m).flatMap (specChunk a hr)).length ≤ ((List.range m).flatMap (specChunk a' hr)).length := by
  intro m
  induction m with
  | zero => intro _; simp
  | succ m ih =>
    intro hm
    rw [List.range_succ, List.flatMap_append, List.flatMap_append, List.length_append, List.length_append]
    have := specChunk_len_mono a a' hr m (by omega) hn hany
    have := ih (by omega)
    simp only [List.flatMap_cons, List.flatMap_nil, List.append_nil]
    omega

theorem chunks_tail_ge (a' : List UInt8) (hr : List HashRange) (n : Nat) (hw : Within hr n) :
    ∀ k, n + k ≤ a'.length →
    ((List.range n).flatMap (specChunk a' hr)).length + k ≤
      ((List.range (n + k)).flatMap (specChunk a' hr)).length := by
  intro k
  induction k with
  | zero => intro _; exact Nat.le_refl _
  | succ k ih =>
    intro hk
    have e : n + (k + 1) = (n + k) + 1 := by omega
    rw [e, List.range_succ, List.flatMap_append, List.length_append]
    have := ih (by omega)
    have hinc : included a'.length hr (n + k) = true := by
      simp [included, within_not_excluded hr n (n + k) hw (by omega)]; omega
    have h1 : 1 ≤ (specChunk a' hr (n + k)).length := by
      unfold specChunk
      rw [List.length_append, hinc, if_pos rfl, byteAt_length a' (n + k) (by omega)]
      omega
    simp only [List.flatMap_cons, List.flatMap_nil, List.append_nil]
    omega

/-- **Length from the selection, markers included.** Same exclusion list (ranges and offset
markers), every range inside both streams, and some byte of the shorter stream is hashed: equal
selections force equal lengths. -/
theorem exclSpec_markers_length (a a' : List UInt8) (ex : List HashRange)
    (hw : Within ex a.length) (hw' : Within ex a'.length)
    (hany : ∃ y, y < a.length ∧ excluded ex y = false)
    (hany' : ∃ y, y < a'.length ∧ excluded ex y = false)
    (h : exclSpec a ex = exclSpec a' ex) : a.length = a'.length := by
  have hl := congrArg List.length h
  rw [exclSpec_eq_chunks, exclSpec_eq_chunks] at hl
  rcases Nat.lt_trichotomy a.length a'.length with hlt | heq | hgt
  · have h1 := chunks_prefix_le a a' ex (by omega) hany a.length (Nat.le_refl _)
    have h2 := chunks_tail_ge a' ex a.length hw (a'.length - a.length) (by omega)
    rw [show a.length + (a'.length - a.length) = a'.length by omega] at h2
    omega
  · exact heq
  · have h1 := chunks_prefix_le a' a ex (by omega) hany' a'.length (Nat.le_refl _)
    have h2 := chunks_tail_ge a ex a'.length hw' (a.length - a'.length) (by omega)
    rw [show a'.length + (a.length - a'.length) = a.length by omega] at h2
    omega

end C2pa.C01
