import C2paModel.Model.C01
import C2paModel.Props.C13
/-
C01 — lemmas about the position-wise selection `exclSpec` (C13) used by the data-hash and BMFF
binding theorems: equal selections of two streams under the same exclusion list mean equal
bytes at every position that is not excluded (and, without offset markers, equal lengths).
-/
namespace C2pa.C01
open C2pa.C13

/-- no entry carries a BMFF offset (what a `c2pa.hash.data` assertion can express: the offset
field of `HashRange` is `#[serde(skip)]`) -/
def Plain (ex : List HashRange) : Prop := ∀ r ∈ ex, r.off = none
/-- all entries end inside a stream of `n` bytes (what the C13 end check guarantees on success) -/
def Within (ex : List HashRange) (n : Nat) : Prop := ∀ r ∈ ex, r.start + r.length ≤ n

/-- two `flatMap`s with chunk-wise equal lengths are equal only if they are equal chunk by chunk -/
theorem flatMap_inj_len {α β : Type} (L : List α) (f g : α → List β)
    (hl : ∀ x ∈ L, (f x).length = (g x).length) (h : L.flatMap f = L.flatMap g) :
    ∀ x ∈ L, f x = g x := by
  induction L with
  | nil => intro x hx; cases hx
  | cons a as ih =>
    simp only [List.flatMap_cons] at h
    obtain ⟨h1, h2⟩ := List.append_inj h (hl a (List.mem_cons_self ..))
    intro x hx
    rcases List.mem_cons.1 hx with rfl | hx
    · exact h1
    · exact ih (fun y hy => hl y (List.mem_cons_of_mem _ hy)) h2 x hx

theorem byteAt_length (d : List UInt8) (x : Nat) (h : x < d.length) : (byteAt d x).length = 1 := by
  simp [byteAt, h]

/-- With equal lengths the per-position chunks of `exclSpec` have the same shape on both
streams, so equal selections are equal chunk by chunk. Holds with markers as well. -/
theorem exclSpec_eq_bytes (a a' : List UInt8) (ex : List HashRange) (hlen : a.length = a'.length)
    (h : exclSpec a ex = exclSpec a' ex) :
    ∀ x, excluded ex x = false → a[x]? = a'[x]? := by
  intro x hx
  by_cases hxn : x < a.length
  · unfold exclSpec at h
    rw [← hlen] at h
    have key := flatMap_inj_len (List.range a.length) _ _ ?_ h x (List.mem_range.2 hxn)
    · have key' := List.append_cancel_left key
      have hinc : included a.length ex x = true := by simp [included, hxn, hx]
      rw [hinc] at key'
      simp only [if_true] at key'
      have hx' : x < a'.length := by omega
      simpa [byteAt, hxn, hx'] using key'
    · intro y hy
      have hy1 := List.mem_range.1 hy
      have hy2 : y < a'.length := by omega
      simp only [List.length_append]
      congr 1
      split
      · rw [byteAt_length a y hy1, byteAt_length a' y hy2]
      · rfl
  · have h1 : a.length ≤ x := by omega
    have h2 : a'.length ≤ x := by omega
    rw [List.getElem?_eq_none h1, List.getElem?_eq_none h2]

/-- converse direction (completeness): equal length and equal bytes outside the exclusions give
equal selections -/
theorem exclSpec_congr (a a' : List UInt8) (ex : List HashRange) (hlen : a.length = a'.length)
    (hb : ∀ x, excluded ex x = false → a[x]? = a'[x]?) : exclSpec a ex = exclSpec a' ex := by
  unfold exclSpec
  rw [← hlen]
  apply flatMap_congr'
  intro x _
  congr 1
  by_cases hi : included a.length ex x = true
  · have : excluded ex x = false := by
      simp [included] at hi; exact hi.2
    simp only [hi, if_true, byteAt, hb x this]
  · simp [hi]

/-- normal form without markers -/
theorem markersOf_plain (ex : List HashRange) (hp : Plain ex) : markersOf ex = [] := by
  unfold markersOf
  rw [List.filterMap_eq_nil_iff]
  intro r hr; exact hp r hr

theorem exclSpec_plain (d : List UInt8) (ex : List HashRange) (hp : Plain ex) :
    exclSpec d ex = (List.range d.length).flatMap
      (fun x => if excluded ex x then [] else byteAt d x) := by
  unfold exclSpec
  apply flatMap_congr'
  intro x hx
  have hx1 := List.mem_range.1 hx
  simp [markerCopies, markersOf_plain ex hp, included, hx1]
  cases excluded ex x <;> simp


/-- number of non-excluded positions below `n` -/
def keepCount (ex : List HashRange) (n : Nat) : Nat :=
  (List.range n).countP (fun x => !excluded ex x)

theorem sel_length (d : List UInt8) (ex : List HashRange) : ∀ n, n ≤ d.length →
    ((List.range n).flatMap (fun x => if excluded ex x then [] else byteAt d x)).length =
      keepCount ex n := by
  intro n
  induction n with
  | zero => intro _; simp [keepCount]
  | succ n ih =>
    intro hn
    unfold keepCount at *
    rw [List.range_succ, List.flatMap_append, List.length_append, ih (by omega), List.countP_append]
    congr 1
    cases h : excluded ex n
    · simp [h, byteAt_length d n (by omega)]
    · simp [h]

theorem within_not_excluded (ex : List HashRange) (n x : Nat) (hw : Within ex n) (hx : n ≤ x) :
    excluded ex x = false := by
  rw [Bool.eq_false_iff]
  intro h
  obtain ⟨r, hr, hc⟩ := List.any_eq_true.1 h
  have := hw r hr
  simp only [Bool.and_eq_true, decide_eq_true_eq] at hc
  omega

theorem keepCount_add (ex : List HashRange) (n : Nat) (hw : Within ex n) :
    ∀ k, keepCount ex (n + k) = keepCount ex n + k := by
  intro k
  induction k with
  | zero => rfl
  | succ k ih =>
    have e : n + (k + 1) = (n + k) + 1 := by omega
    rw [e]
    unfold keepCount at *
    rw [List.range_succ, List.countP_append, ih]
    simp [within_not_excluded ex n (n + k) hw (by omega)]
    omega

/-- Without markers the selection has one byte per non-excluded position; when every range ends
inside both streams the longer stream selects strictly more bytes. -/
theorem exclSpec_plain_length (a a' : List UInt8) (ex : List HashRange) (hp : Plain ex)
    (hw : Within ex a.length) (hw' : Within ex a'.length)
    (h : exclSpec a ex = exclSpec a' ex) : a.length = a'.length := by
  have h1 := congrArg List.length h
  rw [exclSpec_plain a ex hp, exclSpec_plain a' ex hp, sel_length a ex _ (Nat.le_refl _),
    sel_length a' ex _ (Nat.le_refl _)] at h1
  rcases Nat.lt_trichotomy a.length a'.length with hlt | heq | hgt
  · have := keepCount_add ex a.length hw (a'.length - a.length)
    rw [show a.length + (a'.length - a.length) = a'.length by omega] at this
    omega
  · exact heq
  · have := keepCount_add ex a'.length hw' (a.length - a'.length)
    rw [show a'.length + (a.length - a'.length) = a.length by omega] at this
    omega

theorem exclSpec_plain_binds (a a' : List UInt8) (ex : List HashRange) (hp : Plain ex)
    (hw : Within ex a.length) (hw' : Within ex a'.length)
    (h : exclSpec a ex = exclSpec a' ex) :
    a.length = a'.length ∧ ∀ x, excluded ex x = false → a[x]? = a'[x]? :=
  ⟨exclSpec_plain_length a a' ex hp hw hw' h,
   exclSpec_eq_bytes a a' ex (exclSpec_plain_length a a' ex hp hw hw' h) h⟩

end C2pa.C01
