import C2paModel.Model.C16
/-
C16 — helper lemmas about `split_bmff_merkle_map` (`splitBoxes`): when the number of stored
groups equals the number of MerkleMaps (the validator's `mm_vec.len() != bmff_merkle_maps.len()`
test), every MerkleMap finds, under its own `local_id`, a group of exactly `count` boxes.
-/
namespace C2pa.C16

variable {α β : Type}

theorem lookup_mem (k : Nat) (g : β) :
    ∀ (l : List (Nat × β)), l.lookup k = some g → (k, g) ∈ l
  | [], h => by simp at h
  | (k', g') :: l, h => by
    by_cases e : k = k'
    · subst e
      simp [List.lookup] at h
      subst h
      exact List.mem_cons_self
    · have : (k == k') = false := by simpa using e
      simp only [List.lookup, this] at h
      exact List.mem_cons_of_mem _ (lookup_mem k g l h)

theorem mapInsert_length_le (k : Nat) (v : β) (m : List (Nat × β)) :
    (mapInsert k v m).length ≤ m.length + 1 := by
  simp only [mapInsert, List.length_cons]
  have := List.length_filter_le (fun e : Nat × β => e.1 != k) m
  omega

/-- the map grew: the key was new and nothing was overwritten -/
theorem mapInsert_of_length (k : Nat) (v : β) (m : List (Nat × β))
    (h : (mapInsert k v m).length = m.length + 1) :
    mapInsert k v m = (k, v) :: m ∧ ∀ e ∈ m, e.1 ≠ k := by
  simp only [mapInsert, List.length_cons, Nat.add_right_cancel_iff] at h
  have hall : ∀ e ∈ m, (e.1 != k) = true := List.length_filter_eq_length_iff.mp h
  refine ⟨?_, fun e he => by simpa using hall e he⟩
  simp only [mapInsert]
  rw [List.filter_eq_self.mpr hall]

theorem splitBoxes_spec :
    ∀ (ms : List (Mdat α)) (cur : List (Box α)) (out groups : List (Nat × List (Box α))),
      splitBoxes ms cur out = some groups →
        groups.length ≤ out.length + ms.length ∧
        (groups.length = out.length + ms.length →
          (∀ k g, out.lookup k = some g → groups.lookup k = some g) ∧
          (∀ m ∈ ms, ∃ g, groups.lookup m.localId = some g ∧ g.length = m.count))
  | [], cur, out, groups, h => by
    simp only [splitBoxes, Option.some.injEq] at h
    subst h
    simp
  | m :: ms, cur, out, groups, h => by
    simp only [splitBoxes] at h
    by_cases hc : m.count > cur.length
    · simp [hc] at h
    · simp only [hc, if_false] at h
      obtain ⟨hle, heq⟩ := splitBoxes_spec ms _ _ groups h
      have hins := mapInsert_length_le m.localId (cur.take m.count) out
      refine ⟨by simp only [List.length_cons]; omega, fun hlen => ?_⟩
      simp only [List.length_cons] at hlen
      have h1 : (mapInsert m.localId (cur.take m.count) out).length = out.length + 1 := by omega
      obtain ⟨hshape, hnew⟩ := mapInsert_of_length _ _ _ h1
      obtain ⟨hsurv, hms⟩ := heq (by omega)
      have hself : groups.lookup m.localId = some (cur.take m.count) := by
        apply hsurv
        rw [hshape]
        simp [List.lookup]
      refine ⟨fun k g hk => ?_, fun m' hm' => ?_⟩
      · apply hsurv
        rw [hshape]
        have hne : k ≠ m.localId := fun e => hnew _ (lookup_mem k g out hk) e
        have : (k == m.localId) = false := by simpa using hne
        simp only [List.lookup, this]
        exact hk
      · rcases List.mem_cons.mp hm' with rfl | hin
        · exact ⟨_, hself, by simp [List.length_take]; omega⟩
        · exact hms m' hin

/-- as used by the validator (`out = []`) -/
theorem splitBoxes_group (ms : List (Mdat α)) (boxes : List (Box α))
    (groups : List (Nat × List (Box α))) (h : splitBoxes ms boxes [] = some groups)
    (hlen : ms.length = groups.length) (m : Mdat α) (hm : m ∈ ms) :
    ∃ g, groups.lookup m.localId = some g ∧ g.length = m.count := by
  obtain ⟨_, heq⟩ := splitBoxes_spec ms boxes [] groups h
  exact (heq (by simp [hlen])).2 m hm

end C2pa.C16
