import C2paModel.Model.C33
import C2paModel.Props.C04
/-
C33 — lemmas about C04's `addStatus` / `state` needed for "CAWG failures never make the manifest
Invalid": adding a status that is not a failure, or a failure with a tolerated code, to the active
manifest, to an existing ingredient delta or as a new ingredient delta keeps the statement's Valid
condition; and a failure, once recorded anywhere, stays recorded.
(C04's own theorems go the other way: adding a failure never raises the state.)
-/
namespace C2pa.C33

open C2pa.C04

/-- A status that cannot hurt: not a failure, or a failure whose code is tolerated. -/
def Harmless (s : Status) : Prop := s.kind = .failure → tolerated s.code = true

theorem add_failure_mem (c : Codes) (s : Status) (f : Code) (h : f ∈ (c.add s).failure) :
    f ∈ c.failure ∨ (s.kind = .failure ∧ f = s.code) := by
  unfold Codes.add at h
  cases hk : s.kind <;> rw [hk] at h <;> simp at h
  · exact Or.inl h
  · exact Or.inl h
  · rcases h with h | h
    · exact Or.inl h
    · exact Or.inr ⟨rfl, h⟩

theorem add_success_mono (c : Codes) (s : Status) (x : Code) (h : x ∈ c.success) :
    x ∈ (c.add s).success := by
  unfold Codes.add; cases s.kind <;> simp [h]

theorem add_failure_mono (c : Codes) (s : Status) (x : Code) (h : x ∈ c.failure) :
    x ∈ (c.add s).failure := by
  unfold Codes.add; cases s.kind <;> simp [h]

/-- Every failure of a delta after `addToFirst` was there before or is the new status. -/
theorem addToFirst_failure_mem (u : List Char) (s : Status) :
    ∀ (ds ds' : List Delta), addToFirst u s ds = some ds' →
      ∀ d' ∈ ds', ∀ f ∈ d'.codes.failure,
        (∃ d ∈ ds, f ∈ d.codes.failure) ∨ (s.kind = .failure ∧ f = s.code) := by
  intro ds
  induction ds with
  | nil => intro ds' h; simp [addToFirst] at h
  | cons d ds ih =>
    intro ds' h d' hd' f hf
    unfold addToFirst at h
    by_cases hu : (d.uri == u) = true
    · simp only [hu, if_true, Option.some.injEq] at h
      subst h
      rcases List.mem_cons.1 hd' with rfl | hd'
      · rcases add_failure_mem d.codes s f hf with h | h
        · exact Or.inl ⟨d, List.mem_cons_self .., h⟩
        · exact Or.inr h
      · exact Or.inl ⟨d', List.mem_cons_of_mem _ hd', hf⟩
    · cases hrec : addToFirst u s ds with
      | none => simp [hu, hrec] at h
      | some ds'' =>
        simp [hu, hrec] at h
        subst h
        rcases List.mem_cons.1 hd' with rfl | hd'
        · exact Or.inl ⟨d', List.mem_cons_self .., hf⟩
        · rcases ih ds'' hrec d' hd' f hf with ⟨x, hx, hxf⟩ | h
          · exact Or.inl ⟨x, List.mem_cons_of_mem _ hx, hxf⟩
          · exact Or.inr h

/-- Every old failure of a delta is still in some delta after `addToFirst`. -/
theorem addToFirst_failure_mono (u : List Char) (s : Status) :
    ∀ (ds ds' : List Delta), addToFirst u s ds = some ds' →
      ∀ d ∈ ds, ∀ f ∈ d.codes.failure, ∃ d' ∈ ds', f ∈ d'.codes.failure := by
  intro ds
  induction ds with
  | nil => intro ds' h; simp [addToFirst] at h
  | cons x ds ih =>
    intro ds' h d hd f hf
    unfold addToFirst at h
    by_cases hu : (x.uri == u) = true
    · simp only [hu, if_true, Option.some.injEq] at h
      subst h
      rcases List.mem_cons.1 hd with rfl | hd
      · exact ⟨_, List.mem_cons_self .., add_failure_mono _ s f hf⟩
      · exact ⟨d, List.mem_cons_of_mem _ hd, hf⟩
    · cases hrec : addToFirst u s ds with
      | none => simp [hu, hrec] at h
      | some ds'' =>
        simp [hu, hrec] at h
        subst h
        rcases List.mem_cons.1 hd with rfl | hd
        · exact ⟨d, List.mem_cons_self .., hf⟩
        · obtain ⟨d', hd', hf'⟩ := ih ds'' hrec d hd f hf
          exact ⟨d', List.mem_cons_of_mem _ hd', hf'⟩

theorem addStatus_none (r : Results) (s : Status) (hu : s.uri = none) :
    addStatus r s = { r with active := some ((r.active.getD {}).add s) } := by
  unfold addStatus; rw [hu]

theorem addStatus_some_hit (r : Results) (s : Status) (u : List Char) (hu : s.uri = some u)
    (ds' : List Delta) (h : addToFirst u s (deltasOf r) = some ds') :
    addStatus r s = { r with deltas := some ds' } := by
  unfold addStatus; rw [hu]; simp only [h]

theorem addStatus_some_miss (r : Results) (s : Status) (u : List Char) (hu : s.uri = some u)
    (h : addToFirst u s (deltasOf r) = none) :
    addStatus r s
      = { r with deltas := some (deltasOf r ++ [{ uri := u, codes := ({} : Codes).add s }]) } := by
  unfold addStatus; rw [hu]; simp only [h]

/-- **One harmless status keeps the Valid condition**, wherever it lands. -/
theorem addStatus_harmless_valid (r : Results) (s : Status) (hs : Harmless s)
    (h : ValidCond r) : ValidCond (addStatus r s) := by
  obtain ⟨a, ha, hv, hi, hfa, hfd⟩ := h
  cases hu : s.uri with
  | none =>
    rw [addStatus_none r s hu]
    have hg : r.active.getD {} = a := by rw [ha]; rfl
    refine ⟨a.add s, by rw [hg], add_success_mono _ _ _ hv, add_success_mono _ _ _ hi, ?_, ?_⟩
    · intro f hf
      rcases add_failure_mem a s f hf with h | ⟨hk, rfl⟩
      · exact hfa f h
      · exact hs hk
    · intro d hd f hf; exact hfd d hd f hf
  | some u =>
    cases hadd : addToFirst u s (deltasOf r) with
    | some ds' =>
      rw [addStatus_some_hit r s u hu ds' hadd]
      refine ⟨a, ha, hv, hi, hfa, ?_⟩
      intro d' hd' f hf
      have hd'' : d' ∈ ds' := by simpa [deltasOf] using hd'
      rcases addToFirst_failure_mem u s _ _ hadd d' hd'' f hf with ⟨d, hd, hdf⟩ | ⟨hk, rfl⟩
      · exact hfd d hd f hdf
      · exact hs hk
    | none =>
      rw [addStatus_some_miss r s u hu hadd]
      refine ⟨a, ha, hv, hi, hfa, ?_⟩
      intro d' hd' f hf
      have hd'' : d' ∈ deltasOf r ++ [{ uri := u, codes := ({} : Codes).add s }] := by
        simpa [deltasOf] using hd'
      rcases List.mem_append.1 hd'' with hd | hd
      · exact hfd d' hd f hf
      · have hd2 : d' = { uri := u, codes := ({} : Codes).add s } := by simpa using hd
        subst hd2
        rcases add_failure_mem ({} : Codes) s f hf with h | ⟨hk, rfl⟩
        · cases h
        · exact hs hk

/-- The same for any sequence of statuses (any mix of destinations). -/
theorem foldl_harmless_valid (ss : List Status) (hs : ∀ s ∈ ss, Harmless s) :
    ∀ r : Results, ValidCond r → ValidCond (ss.foldl addStatus r) := by
  induction ss with
  | nil => intro r h; exact h
  | cons s ss ih =>
    intro r h
    simp only [List.foldl_cons]
    exact ih (fun x hx => hs x (List.mem_cons_of_mem _ hx)) _
      (addStatus_harmless_valid r s (hs s (List.mem_cons_self ..)) h)

/-- **Harmless statuses never make the state Invalid.** -/
theorem harmless_never_invalid (ss : List Status) (hs : ∀ s ∈ ss, Harmless s) (r : Results)
    (h : state r ≠ .invalid) : state (ss.foldl addStatus r) ≠ .invalid := by
  rw [state_not_invalid_iff] at h ⊢
  exact foldl_harmless_valid ss hs r h

/-! ### a recorded failure stays recorded -/

/-- `f` is among the failures of the active manifest or of some ingredient delta. -/
def HasFailure (r : Results) (f : Code) : Prop :=
  (∃ a, r.active = some a ∧ f ∈ a.failure) ∨ ∃ d ∈ deltasOf r, f ∈ d.codes.failure

theorem hasFailure_addStatus (r : Results) (s : Status) (f : Code) (h : HasFailure r f) :
    HasFailure (addStatus r s) f := by
  cases hu : s.uri with
  | none =>
    rw [addStatus_none r s hu]
    rcases h with ⟨a, ha, hf⟩ | ⟨d, hd, hf⟩
    · left
      refine ⟨(r.active.getD {}).add s, rfl, ?_⟩
      have hg : r.active.getD {} = a := by rw [ha]; rfl
      rw [hg]; exact add_failure_mono a s f hf
    · right; exact ⟨d, hd, hf⟩
  | some u =>
    cases hadd : addToFirst u s (deltasOf r) with
    | some ds' =>
      rw [addStatus_some_hit r s u hu ds' hadd]
      rcases h with ⟨a, ha, hf⟩ | ⟨d, hd, hf⟩
      · left; exact ⟨a, ha, hf⟩
      · right
        obtain ⟨d', hd', hf'⟩ := addToFirst_failure_mono u s _ _ hadd d hd f hf
        exact ⟨d', by simpa [deltasOf] using hd', hf'⟩
    | none =>
      rw [addStatus_some_miss r s u hu hadd]
      rcases h with ⟨a, ha, hf⟩ | ⟨d, hd, hf⟩
      · left; exact ⟨a, ha, hf⟩
      · right
        refine ⟨d, ?_, hf⟩
        simp only [deltasOf, Option.getD_some, List.mem_append]
        left; exact hd

theorem hasFailure_foldl (ss : List Status) (f : Code) :
    ∀ r : Results, HasFailure r f → HasFailure (ss.foldl addStatus r) f := by
  induction ss with
  | nil => intro r h; exact h
  | cons s ss ih => intro r h; exact ih _ (hasFailure_addStatus r s f h)

theorem hasFailure_of_add (r : Results) (s : Status) (hk : s.kind = .failure) :
    HasFailure (addStatus r s) s.code := by
  obtain ⟨_, _, h3⟩ := addStatus_failure_spec r s hk
  exact h3

/-- A recorded non-tolerated failure means Invalid. -/
theorem invalid_of_hasFailure (r : Results) (f : Code) (h : HasFailure r f)
    (ht : tolerated f = false) : state r = .invalid := by
  rw [state_invalid_iff]
  rintro ⟨a, ha, _, _, hfa, hfd⟩
  rcases h with ⟨a', ha', hf⟩ | ⟨d, hd, hf⟩
  · rw [ha] at ha'; cases ha'
    have := hfa f hf; rw [ht] at this; cases this
  · have := hfd d hd f hf; rw [ht] at this; cases this

/-- **A non-tolerated failure anywhere in a sequence of added statuses gives Invalid**, whatever
is added before or after it and wherever it lands. -/
theorem nontolerated_in_sequence_invalid (ss : List Status) (s : Status) (hm : s ∈ ss)
    (hk : s.kind = .failure) (ht : tolerated s.code = false) :
    ∀ r : Results, state (ss.foldl addStatus r) = .invalid := by
  induction ss with
  | nil => cases hm
  | cons x xs ih =>
    intro r
    simp only [List.foldl_cons]
    rcases List.mem_cons.1 hm with rfl | hm'
    · exact invalid_of_hasFailure _ _
        (hasFailure_foldl xs _ _ (hasFailure_of_add r s hk)) ht
    · exact ih hm' _

end C2pa.C33
