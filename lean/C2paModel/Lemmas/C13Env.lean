import C2paModel.Lemmas.C13Top
/-
C13 — the environment parameter `spawnOk` (can worker threads be created?).
* `spawnOk = true`: `hashModelE` is `hashModel`.
* `spawnOk = false`: the run either never needed a worker (same outcome as `hashModel`) or
  stops with the I/O error of the failed spawn; nothing else (no panic, no different digest).
-/
namespace C2pa.C13

variable {data : List UInt8} {buf T : Nat} {c : Option Nat}

theorem chunkLoopE_true : ∀ (fuel pos : Nat) (chunk : List UInt8) (left : Nat) (st : St),
    chunkLoopE true data buf T c fuel pos chunk left st = chunkLoop data buf T c fuel pos chunk left st := by
  intro fuel
  induction fuel with
  | zero => intro pos chunk left st; rfl
  | succ fuel ih =>
    intro pos chunk left st
    unfold chunkLoopE chunkLoop
    by_cases h1 : left < chunk.length
    · simp [h1]
    · simp only [h1, if_false]
      by_cases h2 : left - chunk.length = 0
      · simp [h2]
      · simp only [h2, if_false, Bool.not_true, Bool.false_eq_true]
        cases readExact data pos (min (left - chunk.length) buf) with
        | none => rfl
        | some next =>
          simp only
          cases tick T c { st with absorbed := st.absorbed ++ chunk } with
          | error o => rfl
          | ok st2 => simp only; exact ih _ _ _ _

theorem runPieceE_true (p : Piece) (st : St) :
    runPieceE true data buf T c p st = runPiece data buf T c p st := by
  unfold runPieceE runPiece
  cases tick T c st with
  | error o => rfl
  | ok st1 =>
    simp only
    by_cases h1 : p.hi < p.lo
    · simp [h1]
    · simp only [h1, if_false]
      by_cases h2 : p.hi - p.lo + 1 > u64Max
      · simp [h2]
      · simp only [h2, if_false]
        by_cases hm : p.marker = true
        · simp [hm]
        · simp only [hm]
          cases readExact data p.lo (min (p.hi - p.lo + 1) buf) with
          | none => rfl
          | some chunk => simp only; exact chunkLoopE_true _ _ _ _ _

theorem runPiecesE_true : ∀ (ps : List Piece) (st : St),
    runPiecesE true data buf T c ps st = runPieces data buf T c ps st := by
  intro ps
  induction ps with
  | nil => intro st; rfl
  | cons p ps ih =>
    intro st
    unfold runPiecesE runPieces
    rw [runPieceE_true]
    cases runPiece data buf T c p st with
    | error o => rfl
    | ok st1 => simp only; exact ih st1

/-- with working thread creation the environment-aware model is the model -/
theorem hashModelE_true (alg : String) (data : List UInt8) (hr : Option (List HashRange))
    (isExcl : Bool) (buf : Nat) (c : Option Nat) :
    hashModelE true alg data hr isExcl buf c = hashModel alg data hr isExcl buf c := by
  unfold hashModelE hashModel
  by_cases h1 : supported alg = true
  · simp only [h1, Bool.not_true, Bool.false_eq_true, if_false]
    by_cases h2 : data.length < 1
    · simp [h2]
    · simp only [h2, if_false]
      cases buildPieces data.length hr isExcl with
      | error s => rfl
      | ok ps =>
        simp only
        cases totalOf buf ps 0 with
        | error s => rfl
        | ok T => simp only; rw [runPiecesE_true]
  · have h1' : supported alg = false := by simpa using h1
    simp [h1']

/-! ### every spawn fails -/

theorem chunkLoopE_false (fuel pos : Nat) (chunk : List UInt8) (left : Nat) (st : St) :
    chunkLoopE false data buf T c fuel pos chunk left st =
        chunkLoop data buf T c fuel pos chunk left st ∨
      chunkLoopE false data buf T c fuel pos chunk left st = .error (.err .io st.prog) := by
  cases fuel with
  | zero => left; rfl
  | succ fuel =>
    unfold chunkLoopE chunkLoop
    by_cases h1 : left < chunk.length
    · left; simp [h1]
    · simp only [h1, if_false]
      by_cases h2 : left - chunk.length = 0
      · left; simp [h2]
      · right; simp [h2]

/-- a range that fits one chunk never spawns -/
theorem chunkLoopE_one_chunk (b : Bool) (fuel pos : Nat) (chunk : List UInt8) (st : St) :
    chunkLoopE b data buf T c fuel pos chunk chunk.length st =
      chunkLoop data buf T c fuel pos chunk chunk.length st := by
  cases fuel with
  | zero => rfl
  | succ fuel =>
    unfold chunkLoopE chunkLoop
    simp

theorem runPieceE_false (p : Piece) (st : St) :
    runPieceE false data buf T c p st = runPiece data buf T c p st ∨
      ∃ prog, runPieceE false data buf T c p st = .error (.err .io prog) := by
  unfold runPieceE runPiece
  cases tick T c st with
  | error o => left; rfl
  | ok st1 =>
    simp only
    by_cases h1 : p.hi < p.lo
    · left; simp [h1]
    · simp only [h1, if_false]
      by_cases h2 : p.hi - p.lo + 1 > u64Max
      · left; simp [h2]
      · simp only [h2, if_false]
        by_cases hm : p.marker = true
        · left; simp [hm]
        · simp only [hm]
          cases readExact data p.lo (min (p.hi - p.lo + 1) buf) with
          | none => left; rfl
          | some chunk =>
            simp only
            rcases chunkLoopE_false (data := data) (buf := buf) (T := T) (c := c) (p.hi - p.lo + 1)
              (p.lo + min (p.hi - p.lo + 1) buf) chunk (p.hi - p.lo + 1) st1 with h | h
            · left; exact h
            · right; exact ⟨_, h⟩

theorem runPiecesE_false : ∀ (ps : List Piece) (st : St),
    runPiecesE false data buf T c ps st = runPieces data buf T c ps st ∨
      ∃ prog, runPiecesE false data buf T c ps st = .error (.err .io prog) := by
  intro ps
  induction ps with
  | nil => intro st; left; rfl
  | cons p ps ih =>
    intro st
    unfold runPiecesE runPieces
    rcases runPieceE_false (data := data) (buf := buf) (T := T) (c := c) p st with h | ⟨prog, h⟩
    · rw [h]
      cases runPiece data buf T c p st with
      | error o => left; rfl
      | ok st1 => simp only; exact ih st1
    · right; exact ⟨prog, by rw [h]⟩

/-- **Thread creation fails**: the outcome is the outcome of the ordinary run (no range needed
a second chunk before the run ended) or the I/O error of the failed spawn. -/
theorem hashModelE_false (alg : String) (data : List UInt8) (hr : Option (List HashRange))
    (isExcl : Bool) (buf : Nat) (c : Option Nat) :
    hashModelE false alg data hr isExcl buf c = hashModel alg data hr isExcl buf c ∨
      ∃ prog, hashModelE false alg data hr isExcl buf c = .err .io prog := by
  unfold hashModelE hashModel
  by_cases h1 : supported alg = true
  · simp only [h1, Bool.not_true, Bool.false_eq_true, if_false]
    by_cases h2 : data.length < 1
    · left; simp [h2]
    · simp only [h2, if_false]
      cases buildPieces data.length hr isExcl with
      | error s => left; rfl
      | ok ps =>
        simp only
        cases totalOf buf ps 0 with
        | error s => left; rfl
        | ok T =>
          simp only
          rcases runPiecesE_false (data := data) (buf := buf) (T := T) (c := c) ps {} with h | ⟨prog, h⟩
          · left; rw [h]
          · right; exact ⟨prog, by rw [h]; rfl⟩
  · have h1' : supported alg = false := by simpa using h1
    left; simp [h1']

/-! ### no spawn is needed when every range fits one chunk -/

theorem runPieceE_fits (b : Bool) (p : Piece) (st : St) (hfit : p.hi - p.lo + 1 ≤ buf) :
    runPieceE b data buf T c p st = runPiece data buf T c p st := by
  unfold runPieceE runPiece
  cases tick T c st with
  | error o => rfl
  | ok st1 =>
    simp only
    by_cases h1 : p.hi < p.lo
    · simp [h1]
    · simp only [h1, if_false]
      by_cases h2 : p.hi - p.lo + 1 > u64Max
      · simp [h2]
      · simp only [h2, if_false]
        by_cases hm : p.marker = true
        · simp [hm]
        · simp only [hm]
          cases hr : readExact data p.lo (min (p.hi - p.lo + 1) buf) with
          | none => rfl
          | some chunk =>
            simp only
            obtain ⟨_, _, hl⟩ := readExact_some hr
            have hmin : min (p.hi - p.lo + 1) buf = p.hi - p.lo + 1 := Nat.min_eq_left hfit
            have e : p.hi - p.lo + 1 = chunk.length := by omega
            rw [e]
            exact chunkLoopE_one_chunk b _ _ chunk st1

theorem runPiecesE_fits (b : Bool) : ∀ (ps : List Piece) (st : St),
    (∀ p ∈ ps, p.hi - p.lo + 1 ≤ buf) →
    runPiecesE b data buf T c ps st = runPieces data buf T c ps st := by
  intro ps
  induction ps with
  | nil => intro st _; rfl
  | cons p ps ih =>
    intro st hfit
    unfold runPiecesE runPieces
    rw [runPieceE_fits b p st (hfit p (List.mem_cons_self ..))]
    cases runPiece data buf T c p st with
    | error o => rfl
    | ok st1 => simp only; exact ih st1 (fun q hq => hfit q (List.mem_cons_of_mem _ hq))

/-- with a chunk size of at least the stream length no worker is ever created: the outcome
does not depend on the environment -/
theorem hashModelE_whole_buffer (b : Bool) (alg : String) (data : List UInt8)
    (hr : Option (List HashRange)) (isExcl : Bool) (buf : Nat) (c : Option Nat)
    (hlen : data.length ≤ u64Max) (hbuf : data.length ≤ buf) :
    hashModelE b alg data hr isExcl buf c = hashModel alg data hr isExcl buf c := by
  unfold hashModelE hashModel
  by_cases h1 : supported alg = true
  · simp only [h1, Bool.not_true, Bool.false_eq_true, if_false]
    by_cases h2 : data.length < 1
    · simp [h2]
    · simp only [h2, if_false]
      cases hb : buildPieces data.length hr isExcl with
      | error s => rfl
      | ok ps =>
        simp only
        cases totalOf buf ps 0 with
        | error s => rfl
        | ok T =>
          simp only
          have hok := buildPieces_pieceOK (by omega) hlen hb
          rw [runPiecesE_fits b ps {} (fun p hp => by
            obtain ⟨p1, _, p3, p4⟩ := hok p hp
            rcases p4 with hm | hlt
            · have := p3 hm; omega
            · omega)]
  · have h1' : supported alg = false := by simpa using h1
    simp [h1']

end C2pa.C13
