import C2paModel.Lemmas.C13Run
/-
C13 — the hashing loop on well-formed pieces: it never reaches an arithmetic panic, an I/O error
or fuel exhaustion; it stops early only because the progress callback cancelled or because the
`u32` step counter would overflow; otherwise it makes exactly `chunkCount` callbacks.
-/
namespace C2pa.C13

/-- what the piece builder guarantees about every piece -/
def PieceOK (data : List UInt8) (p : Piece) : Prop :=
  p.lo ≤ p.hi ∧ p.hi - p.lo + 1 ≤ u64Max ∧ (p.marker = true → p.hi = p.lo) ∧
    (p.marker = true ∨ p.hi < data.length)

/-- number of progress callbacks a piece list needs (one per chunk) -/
def chunkCount (buf : Nat) (ps : List Piece) : Nat :=
  (ps.map fun p => ceilDiv (p.hi - p.lo + 1) buf).sum

/-- the same with each summand truncated to `u32` (what `total` is computed from) -/
def wrapCount (buf : Nat) (ps : List Piece) : Nat :=
  (ps.map fun p => ceilDiv (p.hi - p.lo + 1) buf % (u32Max + 1)).sum

/-- an early stop between step `lo` and the step `hi` that a full run would reach -/
def Stopped (T : Nat) (c : Option Nat) (lo hi : Nat) (o : Stop) : Prop :=
  (o = .panic .counter ∧ hi > u32Max) ∨
    (∃ n, o = .err .cancelled (ticks T n) ∧ lo < n ∧ n ≤ hi ∧ c = some n)

theorem Stopped.mono {T : Nat} {c : Option Nat} {lo hi lo' hi' : Nat} {o : Stop}
    (h : Stopped T c lo hi o) (h1 : lo' ≤ lo) (h2 : hi ≤ hi') : Stopped T c lo' hi' o := by
  rcases h with ⟨a, b⟩ | ⟨n, a, b, c', d⟩
  · exact Or.inl ⟨a, by omega⟩
  · exact Or.inr ⟨n, a, by omega, by omega, d⟩

theorem tick_stopped {T : Nat} {c : Option Nat} {st : St} {o : Stop} (hi : ProgInv T st)
    (h : tick T c st = .error o) (k : Nat) (hk : 1 ≤ k) : Stopped T c st.step (st.step + k) o := by
  rcases tick_error h with ⟨a, b⟩ | ⟨a, b⟩
  · exact Or.inl ⟨a, by omega⟩
  · right
    refine ⟨st.step + 1, ?_, by omega, by omega, ?_⟩
    · rw [a, ticks_succ, ← hi]
    · rw [b, hi, ticks_length]

theorem ceilDiv_one (b : Nat) (hb : 0 < b) : ceilDiv 1 b = 1 := by
  unfold ceilDiv
  have : 1 + (b - 1) = b := by omega
  rw [this, Nat.div_self hb]

theorem ceilDiv_pos (a b : Nat) (hb : 0 < b) (ha : a ≠ 0) : 1 ≤ ceilDiv a b := by
  rw [ceilDiv_step a b hb ha]; omega

theorem readExact_ok {data : List UInt8} {pos n : Nat} (h : pos + n ≤ data.length) :
    readExact data pos n = some ((data.drop pos).take n) := by
  unfold readExact; simp [h]

theorem chunkLoop_tri {data : List UInt8} {buf T : Nat} {c : Option Nat} (hb : 0 < buf) :
    ∀ (fuel pos : Nat) (chunk : List UInt8) (left : Nat) (st : St),
      ProgInv T st → 1 ≤ chunk.length → chunk.length ≤ left → left < fuel + chunk.length →
      pos + (left - chunk.length) ≤ data.length →
      match chunkLoop data buf T c fuel pos chunk left st with
      | .ok st' => st'.step = st.step + ceilDiv (left - chunk.length) buf ∧ ProgInv T st'
      | .error o => Stopped T c st.step (st.step + ceilDiv (left - chunk.length) buf) o := by
  intro fuel
  induction fuel with
  | zero => intro pos chunk left st _ h1 h2 h3 _; omega
  | succ fuel ih =>
    intro pos chunk left st hi h1 h2 h3 h4
    unfold chunkLoop
    have hn1 : ¬ left < chunk.length := by omega
    simp only [hn1, if_false]
    by_cases hz : left - chunk.length = 0
    · simp only [hz, if_true, ceilDiv_zero buf hb, Nat.add_zero]
      exact ⟨trivial, by simpa [ProgInv] using hi⟩
    · simp only [hz, if_false]
      have hmin1 : 1 ≤ min (left - chunk.length) buf := by
        rw [Nat.le_min]; omega
      have hmin2 : min (left - chunk.length) buf ≤ left - chunk.length := Nat.min_le_left _ _
      rw [readExact_ok (by omega)]
      simp only
      have hstep := ceilDiv_step (left - chunk.length) buf hb hz
      cases ht : tick T c { st with absorbed := st.absorbed ++ chunk } with
      | error o =>
        simp only
        have hi' : ProgInv T { st with absorbed := st.absorbed ++ chunk } := by simpa [ProgInv] using hi
        have := tick_stopped hi' ht (ceilDiv (left - chunk.length) buf) (by omega)
        simpa using this
      | ok st2 =>
        simp only
        obtain ⟨_, t2, _, _, _⟩ := tick_ok ht
        have hi2 : ProgInv T st2 := tick_inv ht (by simpa [ProgInv] using hi)
        have hlen : ((data.drop pos).take (min (left - chunk.length) buf)).length =
            min (left - chunk.length) buf := by
          simp; omega
        have := ih (pos + min (left - chunk.length) buf)
          ((data.drop pos).take (min (left - chunk.length) buf)) (left - chunk.length) st2 hi2
          (by rw [hlen]; exact hmin1) (by rw [hlen]; exact hmin2) (by rw [hlen]; omega)
          (by rw [hlen]; omega)
        rw [hlen] at this
        simp only at t2
        cases hr : chunkLoop data buf T c fuel (pos + min (left - chunk.length) buf)
            ((data.drop pos).take (min (left - chunk.length) buf)) (left - chunk.length) st2 with
        | ok st' =>
          rw [hr] at this
          simp only at this ⊢
          exact ⟨by omega, this.2⟩
        | error o =>
          rw [hr] at this
          simp only at this ⊢
          exact this.mono (by omega) (by omega)

theorem runPiece_tri {data : List UInt8} {buf T : Nat} {c : Option Nat} (hb : 0 < buf)
    (p : Piece) (st : St) (hp : PieceOK data p) (hi : ProgInv T st) :
    match runPiece data buf T c p st with
    | .ok st' => st'.step = st.step + ceilDiv (p.hi - p.lo + 1) buf ∧ ProgInv T st'
    | .error o => Stopped T c st.step (st.step + ceilDiv (p.hi - p.lo + 1) buf) o := by
  obtain ⟨p1, p2, p3, p4⟩ := hp
  have hpos := ceilDiv_pos (p.hi - p.lo + 1) buf hb (by omega)
  unfold runPiece
  cases ht : tick T c st with
  | error o =>
    simp only
    exact tick_stopped hi ht _ hpos
  | ok st1 =>
    simp only
    obtain ⟨_, t2, _, _, _⟩ := tick_ok ht
    have hi1 : ProgInv T st1 := tick_inv ht hi
    have hn1 : ¬ p.hi < p.lo := by omega
    have hn2 : ¬ p.hi - p.lo + 1 > u64Max := by omega
    simp only [hn1, hn2, if_false]
    by_cases hm : p.marker = true
    · simp only [hm, if_true]
      have : p.hi - p.lo + 1 = 1 := by have := p3 hm; omega
      rw [this, ceilDiv_one buf hb]
      exact ⟨by show st1.step = _; omega, by simpa [ProgInv] using hi1⟩
    · simp only [hm]
      have hlt : p.hi < data.length := by
        rcases p4 with h | h
        · exact absurd h hm
        · exact h
      have hmin1 : 1 ≤ min (p.hi - p.lo + 1) buf := by rw [Nat.le_min]; omega
      have hmin2 : min (p.hi - p.lo + 1) buf ≤ p.hi - p.lo + 1 := Nat.min_le_left _ _
      rw [readExact_ok (by omega)]
      simp only
      have hlen : ((data.drop p.lo).take (min (p.hi - p.lo + 1) buf)).length =
          min (p.hi - p.lo + 1) buf := by
        simp; omega
      have hstep := ceilDiv_step (p.hi - p.lo + 1) buf hb (by omega)
      have := chunkLoop_tri (data := data) (T := T) (c := c) hb (p.hi - p.lo + 1)
        (p.lo + min (p.hi - p.lo + 1) buf)
        ((data.drop p.lo).take (min (p.hi - p.lo + 1) buf)) (p.hi - p.lo + 1) st1 hi1
        (by rw [hlen]; exact hmin1) (by rw [hlen]; exact hmin2) (by rw [hlen]; omega)
        (by rw [hlen]; omega)
      rw [hlen] at this
      cases hr : chunkLoop data buf T c (p.hi - p.lo + 1) (p.lo + min (p.hi - p.lo + 1) buf)
          ((data.drop p.lo).take (min (p.hi - p.lo + 1) buf)) (p.hi - p.lo + 1) st1 with
      | ok st' =>
        rw [hr] at this
        simp only at this ⊢
        exact ⟨by omega, this.2⟩
      | error o =>
        rw [hr] at this
        simp only at this ⊢
        exact this.mono (by omega) (by omega)

theorem chunkCount_cons (buf : Nat) (p : Piece) (ps : List Piece) :
    chunkCount buf (p :: ps) = ceilDiv (p.hi - p.lo + 1) buf + chunkCount buf ps := by
  simp [chunkCount]

theorem runPieces_tri {data : List UInt8} {buf T : Nat} {c : Option Nat} (hb : 0 < buf) :
    ∀ (ps : List Piece) (st : St), (∀ p ∈ ps, PieceOK data p) → ProgInv T st →
      match runPieces data buf T c ps st with
      | .ok st' => st'.step = st.step + chunkCount buf ps ∧ ProgInv T st'
      | .error o => Stopped T c st.step (st.step + chunkCount buf ps) o := by
  intro ps
  induction ps with
  | nil => intro st _ hi; simp [runPieces, chunkCount]; exact hi
  | cons p ps ih =>
    intro st hp hi
    unfold runPieces
    have h1 := runPiece_tri (data := data) (T := T) (c := c) hb p st (hp p (List.mem_cons_self ..)) hi
    rw [chunkCount_cons]
    cases hr : runPiece data buf T c p st with
    | error o =>
      rw [hr] at h1
      simp only at h1 ⊢
      exact h1.mono (Nat.le_refl _) (by omega)
    | ok st1 =>
      rw [hr] at h1
      simp only at h1 ⊢
      have h2 := ih st1 (fun q hq => hp q (List.mem_cons_of_mem _ hq)) h1.2
      cases hr2 : runPieces data buf T c ps st1 with
      | error o =>
        rw [hr2] at h2
        simp only at h2 ⊢
        exact h2.mono (by omega) (by omega)
      | ok st' =>
        rw [hr2] at h2
        simp only at h2 ⊢
        exact ⟨by omega, h2.2⟩

/-! ### `total` -/

theorem wrapCount_cons (buf : Nat) (p : Piece) (ps : List Piece) :
    wrapCount buf (p :: ps) = ceilDiv (p.hi - p.lo + 1) buf % (u32Max + 1) + wrapCount buf ps := by
  simp [wrapCount]

theorem wrapCount_le (buf : Nat) (ps : List Piece) : wrapCount buf ps ≤ chunkCount buf ps := by
  induction ps with
  | nil => simp [wrapCount, chunkCount]
  | cons p ps ih =>
    rw [wrapCount_cons, chunkCount_cons]
    have := Nat.mod_le (ceilDiv (p.hi - p.lo + 1) buf) (u32Max + 1)
    omega

theorem wrapCount_eq (buf : Nat) (ps : List Piece) (h : chunkCount buf ps ≤ u32Max) :
    wrapCount buf ps = chunkCount buf ps := by
  induction ps with
  | nil => simp [wrapCount, chunkCount]
  | cons p ps ih =>
    rw [wrapCount_cons, chunkCount_cons] at *
    rw [ih (by omega), Nat.mod_eq_of_lt (by omega)]

theorem totalOf_spec {data : List UInt8} (buf : Nat) : ∀ (ps : List Piece) (acc : Nat),
    (∀ p ∈ ps, PieceOK data p) →
      match totalOf buf ps acc with
      | .ok t => t = acc + wrapCount buf ps
      | .error o => o = .panic .counter ∧ acc + wrapCount buf ps > u32Max := by
  intro ps
  induction ps with
  | nil => intro acc _; simp [totalOf, wrapCount]
  | cons p ps ih =>
    intro acc hp
    obtain ⟨p1, p2, _, _⟩ := hp p (List.mem_cons_self ..)
    unfold totalOf pieceChunks
    have hn1 : ¬ p.hi < p.lo := by omega
    have hn2 : ¬ p.hi - p.lo + 1 > u64Max := by omega
    simp only [hn1, hn2, if_false]
    rw [wrapCount_cons]
    by_cases hov : acc + (p.hi - p.lo + 1 + (buf - 1)) / buf % (u32Max + 1) > u32Max
    · simp only [hov, if_true, ceilDiv]
      exact ⟨trivial, by omega⟩
    · simp only [hov, if_false]
      have := ih (acc + (p.hi - p.lo + 1 + (buf - 1)) / buf % (u32Max + 1))
        (fun q hq => hp q (List.mem_cons_of_mem _ hq))
      cases hr : totalOf buf ps (acc + (p.hi - p.lo + 1 + (buf - 1)) / buf % (u32Max + 1)) with
      | ok t =>
        rw [hr] at this
        simp only [ceilDiv] at this ⊢
        omega
      | error o =>
        rw [hr] at this
        simp only [ceilDiv] at this ⊢
        exact ⟨this.1, by omega⟩


/-! ### a completed run never went past `u32::MAX` steps -/

theorem chunkLoop_step_le {data : List UInt8} {buf T : Nat} {c : Option Nat} :
    ∀ (fuel pos : Nat) (chunk : List UInt8) (left : Nat) (st st' : St),
      chunkLoop data buf T c fuel pos chunk left st = .ok st' →
      st'.step ≤ u32Max ∨ st'.step = st.step := by
  intro fuel
  induction fuel with
  | zero => intro pos chunk left st st' h; simp [chunkLoop] at h
  | succ fuel ih =>
    intro pos chunk left st st' h
    unfold chunkLoop at h
    by_cases h1 : left < chunk.length
    · simp [h1] at h
    · simp only [h1, if_false] at h
      by_cases h2 : left - chunk.length = 0
      · simp only [h2, if_true, Except.ok.injEq] at h
        subst h; exact Or.inr rfl
      · simp only [h2, if_false] at h
        cases hr : readExact data pos (min (left - chunk.length) buf) with
        | none => simp [hr] at h
        | some next =>
          simp only [hr] at h
          cases ht : tick T c { st with absorbed := st.absorbed ++ chunk } with
          | error o => simp [ht] at h
          | ok st2 =>
            simp only [ht] at h
            obtain ⟨_, t2, _, t4, _⟩ := tick_ok ht
            simp only at t2 t4
            rcases ih _ _ _ _ _ h with hh | hh
            · exact Or.inl hh
            · left; omega

theorem runPiece_step_le {data : List UInt8} {buf T : Nat} {c : Option Nat} {p : Piece} {st st' : St}
    (h : runPiece data buf T c p st = .ok st') : st'.step ≤ u32Max := by
  unfold runPiece at h
  cases ht : tick T c st with
  | error o => simp [ht] at h
  | ok st1 =>
    simp only [ht] at h
    obtain ⟨_, t2, _, t4, _⟩ := tick_ok ht
    by_cases h1 : p.hi < p.lo
    · simp [h1] at h
    · simp only [h1, if_false] at h
      by_cases h2 : p.hi - p.lo + 1 > u64Max
      · simp [h2] at h
      · simp only [h2, if_false] at h
        by_cases hm : p.marker = true
        · simp only [hm, if_true, Except.ok.injEq] at h
          subst h
          show st1.step ≤ u32Max
          omega
        · simp only [hm] at h
          cases hr : readExact data p.lo (min (p.hi - p.lo + 1) buf) with
          | none => simp [hr] at h
          | some chunk =>
            simp only [hr] at h
            rcases chunkLoop_step_le _ _ _ _ _ _ h with hh | hh
            · exact hh
            · omega

theorem runPieces_step_le {data : List UInt8} {buf T : Nat} {c : Option Nat} :
    ∀ (ps : List Piece) (st st' : St), runPieces data buf T c ps st = .ok st' →
      st'.step ≤ u32Max ∨ st'.step = st.step := by
  intro ps
  induction ps with
  | nil => intro st st' h; simp [runPieces] at h; subst h; exact Or.inr rfl
  | cons p ps ih =>
    intro st st' h
    unfold runPieces at h
    cases hp : runPiece data buf T c p st with
    | error o => simp [hp] at h
    | ok st1 =>
      simp only [hp] at h
      have h1 := runPiece_step_le hp
      rcases ih _ _ h with hh | hh
      · exact Or.inl hh
      · left; omega

end C2pa.C13
