import C2paModel.Model.C32
/-
C32 — invariant machinery: every primitive of the model preserves

  * `agree`   locations outside `P` hold what they held before the run,
  * `conf`    every location touched by an emitted action is in `P`,
  * `explain` the current file system is the initial one with the actions applied,

for an arbitrary predicate `P` on locations. The property theorems instantiate `P` with
"was absent before the run" (no clobbering) and with "is a declared output" (confinement).
-/
namespace C2pa.C32

structure Inv (fs0 : FS) (P : Loc → Prop) (st : St) : Prop where
  agree : ∀ p, ¬ P p → st.fs p = fs0 p
  conf : ∀ a ∈ st.acts, ∀ p, a.touches p = true → P p
  explain : st.fs = applyAll st.acts fs0

theorem Inv.init (fs0 : FS) (P : Loc → Prop) : Inv fs0 P { fs := fs0, acts := [] } :=
  ⟨fun _ _ => rfl, fun _ h => (nomatch h), rfl⟩

theorem apply_frame (a : Action) (fs : FS) (p : Loc) (h : a.touches p = false) :
    apply a fs p = fs p := by
  cases a <;> simp_all [apply, Action.touches]

theorem applyAll_append (as : List Action) (a : Action) (fs : FS) :
    applyAll (as ++ [a]) fs = apply a (applyAll as fs) := by
  simp [applyAll, List.foldl_append]

theorem Inv.emit {fs0 : FS} {P : Loc → Prop} {st : St} (h : Inv fs0 P st) (a : Action)
    (ha : ∀ p, a.touches p = true → P p) : Inv fs0 P (emit a st) := by
  refine ⟨?_, ?_, ?_⟩
  · intro p hp
    have : a.touches p = false := by
      cases ht : a.touches p with
      | false => rfl
      | true => exact absurd (ha p ht) hp
    simp only [C32.emit]
    rw [apply_frame a st.fs p this]
    exact h.agree p hp
  · intro b hb p hbp
    simp only [C32.emit, List.mem_append, List.mem_singleton] at hb
    rcases hb with hb | hb
    · exact h.conf b hb p hbp
    · subst hb; exact ha p hbp
  · simp only [C32.emit]
    rw [applyAll_append, ← h.explain]

/-- a location the current state shows as absent and that is outside `P` was absent before -/
theorem Inv.absent_of {fs0 : FS} {P : Loc → Prop} {st : St} (h : Inv fs0 P st) {p : Loc}
    (hn : fs0 p = .absent → P p) (hs : st.fs p = .absent) : P p := by
  by_cases hp : P p
  · exact hp
  · have := h.agree p hp
    exact hn (by rw [← this]; exact hs)

theorem touches_eq_iff {p q : Loc} : (p == q) = true ↔ p = q := by simp

theorem removeFile_inv {fs0 : FS} {P : Loc → Prop} {st st' : St} {p : Loc}
    (h : Inv fs0 P st) (hp : P p) (e : removeFile p st = some st') : Inv fs0 P st' := by
  unfold removeFile at e
  split at e
  · cases e
    exact h.emit _ (by intro q hq; simp [Action.touches] at hq; subst hq; exact hp)
  · cases e

theorem writeFile_inv {fs0 : FS} {P : Loc → Prop} {st st' : St} {p : Loc} {c : Content}
    (h : Inv fs0 P st) (hn : fs0 p = .absent → P p) (hp : st.fs p ≠ .absent → P p)
    (e : writeFile p c st = some st') : Inv fs0 P st' := by
  unfold writeFile at e
  split at e
  · cases e
  · rename_i c' hc
    cases e
    exact h.emit _ (by
      intro q hq; simp [Action.touches] at hq; subst hq
      exact hp (by rw [hc]; exact fun h => by cases h))
  · rename_i hc
    split at e
    · cases e
      exact h.emit _ (by
        intro q hq; simp [Action.touches] at hq; subst hq
        exact h.absent_of hn hc)
    · cases e

theorem createNew_inv {fs0 : FS} {P : Loc → Prop} {st st' : St} {p : Loc} {c : Content}
    (h : Inv fs0 P st) (hn : fs0 p = .absent → P p)
    (e : createNew p c st = some st') : Inv fs0 P st' := by
  unfold createNew at e
  split at e
  · rename_i hc
    split at e
    · cases e
      exact h.emit _ (by
        intro q hq; simp [Action.touches] at hq; subst hq
        exact h.absent_of hn hc)
    · cases e
  · cases e

theorem mkdirEach_inv {fs0 : FS} {P : Loc → Prop} (qs : List Loc) :
    ∀ (st : St), Inv fs0 P st → (∀ q ∈ qs, fs0 q = .absent → P q) → Inv fs0 P (mkdirEach qs st) := by
  induction qs with
  | nil => intro st h _; exact h
  | cons q qs ih =>
    intro st h hq
    unfold mkdirEach
    apply ih
    · split
      · rename_i hc
        have hc' : st.fs q = .absent := by simpa using hc
        exact h.emit _ (by
          intro r hr; simp [Action.touches] at hr; subst hr
          exact h.absent_of (hq _ (List.mem_cons_self)) hc')
      · exact h
    · intro r hr; exact hq r (List.mem_cons_of_mem _ hr)

theorem mkdirAll_inv {fs0 : FS} {P : Loc → Prop} {st st' : St} {p : Loc}
    (h : Inv fs0 P st) (hq : ∀ q ∈ prefixes p, fs0 q = .absent → P q)
    (e : mkdirAll p st = some st') : Inv fs0 P st' := by
  unfold mkdirAll at e
  split at e
  · cases e
  · cases e
    exact mkdirEach_inv _ _ h hq

theorem rmTree_inv {fs0 : FS} {P : Loc → Prop} {st st' : St} {p : Loc}
    (h : Inv fs0 P st) (hp : ∀ q, p <+: q → P q) (e : rmTree p st = some st') : Inv fs0 P st' := by
  unfold rmTree at e
  split at e
  · cases e
    exact h.emit _ (by
      intro q hq
      simp only [Action.touches, List.isPrefixOf_iff_prefix] at hq
      exact hp q hq)
  · cases e

/-! ### facts about `prefixes` -/

theorem prefixes_prefix : ∀ (p q : Loc), q ∈ prefixes p → q <+: p := by
  intro p
  induction p with
  | nil => intro q h; simp [prefixes] at h
  | cons x xs ih =>
    intro q h
    simp only [prefixes, List.mem_cons, List.mem_map] at h
    rcases h with h | ⟨r, hr, rfl⟩
    · subst h; exact ⟨xs, rfl⟩
    · obtain ⟨t, ht⟩ := ih r hr
      exact ⟨t, by simp [← ht]⟩

theorem prefix_dropLast (p : Loc) : p.dropLast <+: p := List.dropLast_prefix p

/-! ### the signing arm -/

theorem signFile_inv {fs0 : FS} {P : Loc → Prop} {cfg : Cfg} {src out : Loc} {c : Content} {st : St}
    (h : Inv fs0 P st) (hO : P out) (hA : ∀ q ∈ prefixes out.dropLast, fs0 q = .absent → P q) :
    Inv fs0 P (signFile cfg src out c st).2 := by
  unfold signFile
  split
  · exact h
  · split
    · exact h
    · rename_i st1 e1
      have h1 := mkdirAll_inv h hA e1
      split
      · exact h1
      · split
        · exact h1
        · split
          · exact h1
          · rename_i st2 e2
            have h2 := writeFile_inv h1 (fun _ => hO) (fun _ => hO) e2
            split <;> exact h2

theorem signInPlace_inv {fs0 : FS} {P : Loc → Prop} {cfg : Cfg} {src out : Loc} {c : Content} {st : St}
    (h : Inv fs0 P st) (hO : P out) (hA : ∀ q ∈ prefixes out.dropLast, fs0 q = .absent → P q) :
    Inv fs0 P (signInPlace cfg src out c st).2 := by
  unfold signInPlace
  split
  · exact h
  · split
    · exact h
    · split
      · exact h
      · split
        · exact h
        · rename_i st1 e1
          have h1 : Inv fs0 P st1 := by
            split at e1
            · cases e1; exact h
            · exact mkdirAll_inv h hA e1
          split
          · exact h1
          · rename_i st2 e2
            exact writeFile_inv h1 (fun _ => hO) (fun _ => hO) e2

theorem outputCheck_inv {fs0 : FS} {P : Loc → Prop} {cfg : Cfg} {path output : RawPath} {st st1 : St}
    (h : Inv fs0 P st)
    (h1 : (cfg.force = true ∨ st.fs (cfg.rho output) = .absent) → P (cfg.rho output))
    (e : outputCheck cfg path output st = some (some st1)) :
    Inv fs0 P st1 ∧ (cfg.force = true ∨ st.fs (cfg.rho output) = .absent)
      ∧ (cfg.force = false → st1 = st) := by
  unfold outputCheck at e
  split at e
  · split at e
    · rename_i hf
      have hforce : cfg.force = true := by
        simp only [Bool.and_eq_true] at hf; exact hf.1
      split at e
      · rename_i s e'
        cases e
        exact ⟨removeFile_inv h (h1 (Or.inl hforce)) e', Or.inl hforce,
          fun hh => by simp [hforce] at hh⟩
      · cases e
    · split at e
      · cases e
      · rename_i hnf
        have hforce : cfg.force = true := by simpa using hnf
        cases e
        exact ⟨h, Or.inl hforce, fun hh => by simp [hforce] at hh⟩
  · rename_i hne
    cases e
    refine ⟨h, Or.inr ?_, fun _ => rfl⟩
    simpa [pExists, locExists] using hne

theorem signStep_inv {fs0 : FS} {P : Loc → Prop} {cfg : Cfg} {path output : RawPath} {st : St}
    (h : Inv fs0 P st) (hO : P (cfg.rho output))
    (hA : ∀ q ∈ prefixes (cfg.rho output).dropLast, fs0 q = .absent → P q) :
    Inv fs0 P (signStep cfg path output st).2 := by
  unfold signStep
  split
  · exact signFile_inv h hO hA
  · exact signInPlace_inv h hO hA

theorem signTail_inv {fs0 : FS} {P : Loc → Prop} {cfg : Cfg} {sc : Loc} {r : Outcome × St}
    (h : Inv fs0 P r.2) (hS : cfg.sidecar = true → P sc) :
    Inv fs0 P (signTail cfg sc r).st := by
  unfold signTail
  split
  · exact h
  · split
    · exact h
    · rename_i st3 e3
      have h3 : Inv fs0 P st3 := by
        split at e3
        · rename_i hside
          exact writeFile_inv h (fun _ => hS hside) (fun _ => hS hside) e3
        · cases e3; exact h
      split <;> exact h3

theorem signBranch_inv {fs0 : FS} {P : Loc → Prop} {cfg : Cfg} {path output : RawPath} {st : St}
    (h : Inv fs0 P st)
    (h1 : (cfg.force = true ∨ st.fs (cfg.rho output) = .absent) → P (cfg.rho output))
    (h2 : cfg.sidecar = true →
      (cfg.force = true ∨ st.fs (cfg.rho (withExtension output "c2pa")) = .absent) →
      P (cfg.rho (withExtension output "c2pa")))
    (h3 : ∀ q ∈ prefixes (cfg.rho output).dropLast, fs0 q = .absent → P q) :
    Inv fs0 P (signBranch cfg path output st).st := by
  unfold signBranch
  dsimp only
  split
  · exact h
  · split
    · exact h
    · exact h
    · rename_i st1 hchk
      obtain ⟨hi1, hfo, hst⟩ := outputCheck_inv h h1 hchk
      have hO : P (cfg.rho output) := h1 hfo
      split
      · exact hi1
      · rename_i hsc
        split
        · exact hi1
        · split
          · exact hi1
          · apply signTail_inv (signStep_inv hi1 hO h3)
            intro hside
            apply h2 hside
            cases hf : cfg.force with
            | true => exact Or.inl rfl
            | false =>
              right
              have := hst hf
              subst this
              simpa [hside, hf, locExists] using hsc

/-! ### the fragment arm -/

theorem prefixes_near {out : Loc} {x : String} {q : Loc} (h : q ∈ prefixes (out ++ [x])) :
    q <+: out ∨ out <+: q :=
  List.prefix_or_prefix_of_prefix (prefixes_prefix _ _ h) ⟨[x], rfl⟩

theorem writeFrags_inv {fs0 : FS} {P : Loc → Prop} {cfg : Cfg} {d : Loc} (fs : List String) :
    ∀ st, Inv fs0 P st → (∀ f, fs0 (d ++ [f]) = .absent → P (d ++ [f])) →
      Inv fs0 P (writeFrags cfg d fs st).2 := by
  induction fs with
  | nil => intro st h _; unfold writeFrags; exact h
  | cons f fs ih =>
    intro st h hN
    unfold writeFrags
    split
    · exact h
    · split
      · exact h
      · rename_i st1 e
        exact ih st1 (createNew_inv h (hN f) e) hN

theorem fragLoop_inv {fs0 : FS} {P : Loc → Prop} {cfg : Cfg} {out : Loc} (rs : List Rend) :
    ∀ st, Inv fs0 P st → (∀ q, (q <+: out ∨ out <+: q) → fs0 q = .absent → P q) →
      Inv fs0 P (fragLoop cfg out rs st).2 := by
  induction rs with
  | nil => intro st h _; unfold fragLoop; exact h
  | cons r rs ih =>
    intro st h hN
    unfold fragLoop
    split
    · exact h
    · split
      · exact h
      · rename_i dn hdn
        dsimp only
        split
        · exact h
        · split
          · exact h
          · rename_i st1 e1
            have h1 : Inv fs0 P st1 := by
              split at e1
              · exact mkdirAll_inv h (fun q hq => hN q (prefixes_near hq)) e1
              · split at e1
                · cases e1; exact h
                · cases e1
            have h2 : Inv fs0 P (writeFrags cfg (out ++ [dn]) r.frags st1).2 :=
              writeFrags_inv _ _ h1 (fun f => hN _ (Or.inr ⟨[dn, f], by simp⟩))
            split
            · rename_i st2 e2
              rw [e2] at h2; exact h2
            · rename_i st2 e2
              rw [e2] at h2; exact ih st2 h2 hN

theorem initLoop_inv {fs0 : FS} {P : Loc → Prop} {out : Loc} (rs : List Rend) :
    ∀ st, Inv fs0 P st → (∀ r ∈ rs, ∀ d, initDest out r = some d → P d) →
      Inv fs0 P (initLoop out rs st).2 := by
  induction rs with
  | nil => intro st h _; unfold initLoop; exact h
  | cons r rs ih =>
    intro st h hD
    unfold initLoop
    split
    · exact h
    · rename_i d hd
      split
      · exact h
      · rename_i st1 e1
        have hPd : P d := hD r List.mem_cons_self d hd
        exact ih st1 (writeFile_inv h (fun _ => hPd) (fun _ => hPd) e1)
          (fun r' hr' => hD r' (List.mem_cons_of_mem _ hr'))

theorem fragBranch_inv {fs0 : FS} {P : Loc → Prop} {cfg : Cfg} {output : RawPath} {glob : Bool}
    {rends : List Rend} {st : St}
    (h : Inv fs0 P st)
    (hN : ∀ q, (q <+: cfg.rho output ∨ cfg.rho output <+: q) → fs0 q = .absent → P q)
    (hD : ∀ r ∈ rends, ∀ d, initDest (cfg.rho output) r = some d →
      (cfg.force = true ∨ st.fs d = .absent) → P d) :
    Inv fs0 P (fragBranch cfg output glob rends st).st := by
  unfold fragBranch
  dsimp only
  split
  · exact h
  · split
    · exact h
    · split
      · exact h
      · rename_i hchk
        have hD' : ∀ r ∈ rends, ∀ d, initDest (cfg.rho output) r = some d → P d := by
          intro r hr d hd
          apply hD r hr d hd
          cases hf : cfg.force with
          | true => exact Or.inl rfl
          | false =>
            right
            simp only [hf, Bool.not_false, Bool.true_and, Bool.not_eq_true,
              List.any_eq_false] at hchk
            have := hchk r hr
            rw [hd] at this
            simpa [locExists] using this
        split
        · exact h
        · split
          · exact h
          · split
            · exact h
            · rename_i st1 e1
              have h1 : Inv fs0 P st1 := by
                split at e1
                · exact mkdirAll_inv h
                    (fun q hq => hN q (Or.inl (prefixes_prefix _ _ hq))) e1
                · cases e1; exact h
              have h2 := fragLoop_inv (cfg := cfg) (out := cfg.rho output) rends st1 h1 hN
              split
              · rename_i st2 e2
                rw [e2] at h2; exact h2
              · rename_i st2 e2
                rw [e2] at h2
                have h3 := initLoop_inv (out := cfg.rho output) rends st2 h2 hD'
                split
                · rename_i st3 e3
                  rw [e3] at h3; exact h3
                · rename_i st3 e3
                  rw [e3] at h3
                  split <;> exact h3

/-! ### the report-folder arm -/

theorem folderBranch_inv {fs0 : FS} {P : Loc → Prop} {cfg : Cfg} {path output : RawPath} {st : St}
    (h : Inv fs0 P st)
    (hN : ∀ q, (q <+: cfg.rho output ∨ cfg.rho output <+: q) → fs0 q = .absent → P q)
    (hR : cfg.force = true → ∀ q, cfg.rho output <+: q → P q)
    (hC : ∀ n, (cfg.force = true ∨ st.fs (cfg.rho output) = .absent) → P (cfg.rho output ++ [n])) :
    Inv fs0 P (folderBranch cfg path output st).st := by
  unfold folderBranch
  dsimp only
  split
  · exact h
  · split
    · exact h
    · exact h
    · rename_i st1 hchk
      have key : Inv fs0 P st1 ∧ (cfg.force = true ∨ st.fs (cfg.rho output) = .absent) := by
        split at hchk
        · split at hchk
          · rename_i hforce
            split at hchk
            · rename_i s e
              cases hchk
              exact ⟨rmTree_inv h (hR hforce) e, Or.inl hforce⟩
            · cases hchk
          · cases hchk
        · rename_i hne
          cases hchk
          exact ⟨h, Or.inr (by simpa [pExists, locExists] using hne)⟩
      obtain ⟨hi1, hfo⟩ := key
      have hW : ∀ {s s' : St} {n : String} {c : Content}, Inv fs0 P s →
          writeFile (cfg.rho output ++ [n]) c s = some s' → Inv fs0 P s' :=
        fun hs e => writeFile_inv hs (fun _ => hC _ hfo) (fun _ => hC _ hfo) e
      split
      · exact hi1
      · rename_i st2 e2
        have hi2 : Inv fs0 P st2 :=
          mkdirAll_inv hi1 (fun q hq => hN q (Or.inl (prefixes_prefix _ _ hq))) e2
        split
        · split
          · exact hi2
          · split
            · exact hi2
            · split
              · exact hi2
              · split
                · exact hi2
                · rename_i st3 e3
                  have hi3 := hW hi2 e3
                  split
                  · exact hi3
                  · rename_i st4 e4
                    exact hW hi3 e4
        · split
          · exact hi2
          · split
            · exact hi2
            · split
              · exact hi2
              · rename_i st3 e3
                have hi3 := hW hi2 e3
                split
                · exact hi3
                · rename_i st4 e4
                  have hi4 : Inv fs0 P st4 := by
                    split at e4
                    · exact hW hi3 e4
                    · cases e4; exact hi3
                  split
                  · exact hi4
                  · rename_i st5 e5
                    exact hW hi4 e5
end C2pa.C32
