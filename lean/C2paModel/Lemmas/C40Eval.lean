import C2paModel.Model.C40
/-
C40 — evaluation lemmas for the two expansions: congruences of `evalF`, soundness of
`expand` (the macro's desugaring), flavour-independence of site-free programs, and `erase`.
-/
namespace C2pa.C40

variable {σ ε : Type} (env : Nat → Option Prog) (I : Interp σ ε)

/-- the two runs agree for every fuel up to `F` -/
def EqUpTo (F : Nat) (fl : Flavour) (p : Prog) (fl' : Flavour) (q : Prog) : Prop :=
  ∀ fuel, fuel ≤ F → ∀ s, evalF env I fuel fl p s = evalF env I fuel fl' q s

theorem eq_seq {F fl fl' p p' q q'} (hp : EqUpTo env I F fl p fl' p') (hq : EqUpTo env I F fl q fl' q') :
    EqUpTo env I F fl (.seq p q) fl' (.seq p' q') := by
  intro fuel hf s
  rw [evalF, evalF, hp fuel hf s]
  cases h : evalF env I fuel fl' p' s with
  | none => rfl
  | some o => cases o with
    | next s' => simp [hq fuel hf s']
    | ret s' => rfl
    | err e => rfl

theorem eq_ite {F fl fl' c p p' q q'} (hp : EqUpTo env I F fl p fl' p') (hq : EqUpTo env I F fl q fl' q') :
    EqUpTo env I F fl (.ite c p q) fl' (.ite c p' q') := by
  intro fuel hf s
  rw [evalF, evalF, hp fuel hf s, hq fuel hf s]

theorem eq_loop {F fl fl' c p p'} (hp : EqUpTo env I F fl p fl' p') :
    EqUpTo env I F fl (.loop c p) fl' (.loop c p') := by
  intro fuel
  induction fuel with
  | zero => intro _ s; rw [evalF, evalF]
  | succ n ih =>
    intro hf s
    rw [evalF, evalF]
    by_cases hc : I.cond c s = true
    · simp only [hc, if_true]
      rw [hp (n + 1) hf s]
      cases h : evalF env I (n + 1) fl' p' s with
      | none => rfl
      | some o => cases o with
        | next s' => simp [ih (by omega) s']
        | ret s' => rfl
        | err e => rfl
    · simp [hc]

/-- atoms do not look at the flavour -/
theorem eq_atom_skip {F fl fl'} : EqUpTo env I F fl .skip fl' .skip := by
  intro fuel _ s; rw [evalF, evalF]
theorem eq_atom_prim {F fl fl' n} : EqUpTo env I F fl (.prim n) fl' (.prim n) := by
  intro fuel _ s; rw [evalF, evalF]
theorem eq_atom_ret {F fl fl'} : EqUpTo env I F fl .ret fl' .ret := by
  intro fuel _ s; rw [evalF, evalF]
theorem eq_atom_leaf {F fl fl' n} : EqUpTo env I F fl (.leaf n) fl' (.leaf n) := by
  intro fuel _ s; rw [evalF, evalF]
theorem eq_atom_leafA {F fl fl' n} : EqUpTo env I F fl (.leafA n) fl' (.leafA n) := by
  intro fuel _ s; rw [evalF, evalF]

theorem eq_refl {F fl p} : EqUpTo env I F fl p fl p := fun _ _ _ => rfl
theorem eq_symm {F fl fl' p q} (h : EqUpTo env I F fl p fl' q) : EqUpTo env I F fl' q fl p :=
  fun fuel hf s => (h fuel hf s).symm
theorem eq_trans {F fl fl' fl'' p q r} (h1 : EqUpTo env I F fl p fl' q) (h2 : EqUpTo env I F fl' q fl'' r) :
    EqUpTo env I F fl p fl'' r := fun fuel hf s => (h1 fuel hf s).trans (h2 fuel hf s)

theorem eq_site_sync {F a b} : EqUpTo env I F .sync (.site a b) .sync a := by
  intro fuel _ s; rw [evalF]
theorem eq_site_async {F a b} : EqUpTo env I F .async (.site a b) .async b := by
  intro fuel _ s; rw [evalF]

/-- **The macro's desugaring is what `evalF` runs**: evaluating a body in flavour `fl` is
evaluating its expansion for `fl` (which contains no site any more). -/
theorem eq_expand (F : Nat) (fl : Flavour) : ∀ p, EqUpTo env I F fl p fl (expand fl p) := by
  intro p
  induction p with
  | skip | prim | leaf | leafA | ret => exact eq_refl env I
  | seq p q ihp ihq => cases fl <;> exact eq_seq env I ihp ihq
  | ite c p q ihp ihq => cases fl <;> exact eq_ite env I ihp ihq
  | loop c p ih => cases fl <;> exact eq_loop env I ih
  | site a b iha ihb =>
    cases fl with
    | sync => exact eq_trans env I (eq_site_sync env I) iha
    | async => exact eq_trans env I (eq_site_async env I) ihb

theorem noSite_expand (fl : Flavour) : ∀ p, noSite (expand fl p) = true := by
  intro p
  induction p with
  | skip | prim | leaf | leafA | ret => cases fl <;> rfl
  | seq p q ihp ihq => cases fl <;> simp [expand, noSite, ihp, ihq]
  | ite c p q ihp ihq => cases fl <;> simp [expand, noSite, ihp, ihq]
  | loop c p ih => cases fl <;> simp [expand, noSite, ih]
  | site a b iha ihb => cases fl <;> simp [expand, iha, ihb]

/-- a program without sites runs the same in both flavours -/
theorem eq_noSite (F : Nat) (fl fl' : Flavour) : ∀ p, noSite p = true → EqUpTo env I F fl p fl' p := by
  intro p
  induction p with
  | skip => intro _; exact eq_atom_skip env I
  | prim => intro _; exact eq_atom_prim env I
  | leaf => intro _; exact eq_atom_leaf env I
  | leafA => intro _; exact eq_atom_leafA env I
  | ret => intro _; exact eq_atom_ret env I
  | seq p q ihp ihq =>
    intro h; simp [noSite] at h; exact eq_seq env I (ihp h.1) (ihq h.2)
  | ite c p q ihp ihq =>
    intro h; simp [noSite] at h; exact eq_ite env I (ihp h.1) (ihq h.2)
  | loop c p ih => intro h; simp [noSite] at h; exact eq_loop env I (ih h)
  | site a b _ _ => intro h; simp [noSite] at h

/-- callee pairs agree below `F`: primitive pairs by hypothesis, modelled bodies by evaluation -/
def CalleesAgree (F : Nat) : Prop :=
  (∀ n, env n = none → I.sync n = I.async n) ∧
  (∀ f, f < F → ∀ n body, env n = some body → ∀ s,
      evalF env I f .sync body s = evalF env I f .async body s)

/-- replacing `n_async(..).await` by `n(..)` does not change a run when callee pairs agree -/
theorem eq_erase (F : Nat) (fl : Flavour) (hc : CalleesAgree env I F) :
    ∀ p, noSite p = true → EqUpTo env I F fl (erase p) fl p := by
  intro p
  induction p with
  | skip | prim | leaf | ret => intro _; exact eq_refl env I
  | leafA n =>
    intro _ fuel hf s
    simp only [erase]
    rw [evalF, evalF]
    cases hn : env n with
    | none => simp [hc.1 n hn]
    | some body =>
      cases fuel with
      | zero => rfl
      | succ f => simp only []; rw [hc.2 f (by omega) n body hn s]
  | seq p q ihp ihq =>
    intro h; simp [noSite] at h; exact eq_seq env I (ihp h.1) (ihq h.2)
  | ite c p q ihp ihq =>
    intro h; simp [noSite] at h; exact eq_ite env I (ihp h.1) (ihq h.2)
  | loop c p ih => intro h; simp [noSite] at h; exact eq_loop env I (ih h)
  | site a b _ _ => intro h; simp [noSite] at h

end C2pa.C40
