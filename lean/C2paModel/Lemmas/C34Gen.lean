import C2paModel.Lemmas.C34Inst
import C2paModel.Lemmas.C34Total
/-
C34 — labels of new claims (`Claim::new`, the vendor test of `Builder::to_claim`), the
parse-first direction (`Display` after `manifest_label_to_parts` on labels read from files)
and ASCII lower-casing.
-/
set_option linter.unusedSimpArgs false
namespace C2pa.C34

/-! ### ASCII lower-casing -/

theorem toAsciiLower_toNat (c : Char) :
    (toAsciiLower c).toNat = if 65 ≤ c.toNat ∧ c.toNat ≤ 90 then c.toNat + 32 else c.toNat := by
  unfold toAsciiLower
  have e1 : ('A' ≤ c) ↔ 65 ≤ c.toNat := by
    rw [Char.le_def, UInt32.le_iff_toNat_le, Char.toNat_val]; rfl
  have e2 : (c ≤ 'Z') ↔ c.toNat ≤ 90 := by
    rw [Char.le_def, UInt32.le_iff_toNat_le, Char.toNat_val]; rfl
  simp only [e1, e2]
  split
  · next h =>
    have hv : (c.toNat + 32).isValidChar := by left; omega
    rw [Char.ofNat, dif_pos hv]
    rfl
  · rfl

theorem char_eq_of_toNat {c d : Char} (h : c.toNat = d.toNat) : c = d := by
  apply Char.ext
  apply UInt32.toNat_inj.mp
  simpa [Char.toNat_val] using h

/-- lower-casing neither creates nor removes a character outside `A–Z` / `a–z` -/
theorem lower_eq_iff {c d : Char} (hd : d.toNat < 65 ∨ (90 < d.toNat ∧ d.toNat < 97) ∨ 122 < d.toNat) :
    toAsciiLower c = d ↔ c = d := by
  constructor
  · intro h
    have h1 := toAsciiLower_toNat c
    rw [h] at h1
    apply char_eq_of_toNat
    split at h1 <;> omega
  · rintro rfl
    apply char_eq_of_toNat
    rw [toAsciiLower_toNat]
    split <;> omega

theorem lower_idem (c : Char) : toAsciiLower (toAsciiLower c) = toAsciiLower c := by
  apply char_eq_of_toNat
  rw [toAsciiLower_toNat (toAsciiLower c), toAsciiLower_toNat c]
  by_cases h : 65 ≤ c.toNat ∧ c.toNat ≤ 90
  · rw [if_pos h, if_neg (by omega)]
  · rw [if_neg h, if_neg h]

theorem visible_lower {c : Char} (h : visible c = true) : visible (toAsciiLower c) = true := by
  simp only [visible, Bool.and_eq_true, decide_eq_true_eq] at h ⊢
  rw [toAsciiLower_toNat]
  split <;> omega

theorem not_mem_lower {d : Char} (hd : d.toNat < 65 ∨ (90 < d.toNat ∧ d.toNat < 97) ∨ 122 < d.toNat)
    {v : Str} (h : d ∉ v) : d ∉ lowerAscii v := by
  simp only [lowerAscii, List.mem_map, not_exists, not_and]
  intro c hc he
  exact h ((lower_eq_iff hd).mp he ▸ hc)

theorem lowerAscii_idem (v : Str) : lowerAscii (lowerAscii v) = lowerAscii v := by
  simp [lowerAscii, List.map_map, Function.comp_def, lower_idem]

/-! ### the vendor test of `Builder::to_claim` -/

theorem asciiGraphic_eq_visible (c : Char) : asciiGraphic c = visible c := rfl

theorem vendorOk_iff {v : Str} : vendorOk v = true ↔
    v ≠ [] ∧ utf8Len v ≤ 32 ∧ ∀ c ∈ v, visible c = true ∧ c ≠ ':' ∧ c ≠ '/' ∧ c ≠ '=' := by
  simp only [vendorOk, asciiGraphic_eq_visible, Bool.and_eq_true, Bool.not_eq_true', List.all_eq_true,
    Bool.or_eq_false_iff, beq_eq_false_iff_ne, decide_eq_true_eq, List.isEmpty_eq_false_iff, ne_eq]
  constructor
  · rintro ⟨⟨h1, h2⟩, h3⟩
    exact ⟨h1, h2, fun c hc => ⟨(h3 c hc).1, (h3 c hc).2.1.1, (h3 c hc).2.1.2, (h3 c hc).2.2⟩⟩
  · rintro ⟨h1, h2, h3⟩
    exact ⟨⟨h1, h2⟩, fun c hc => ⟨(h3 c hc).1, ⟨(h3 c hc).2.1, (h3 c hc).2.2.1⟩, (h3 c hc).2.2.2⟩⟩

/-- What the accepted vendor looks like after `Claim::new` has lower-cased it. -/
theorem vendorOk_lower {v : Str} (h : vendorOk v = true) :
    lowerAscii v ≠ [] ∧ (lowerAscii v).length ≤ 32
    ∧ (∀ c ∈ lowerAscii v, visible c = true) ∧ ':' ∉ lowerAscii v ∧ '/' ∉ lowerAscii v ∧ '=' ∉ lowerAscii v := by
  obtain ⟨h1, h2, h3⟩ := vendorOk_iff.mp h
  have hlen : utf8Len v = v.length := utf8Len_visible v (fun c hc => (h3 c hc).1)
  refine ⟨?_, ?_, ?_, ?_, ?_, ?_⟩
  · cases v <;> simp_all [lowerAscii]
  · simp [lowerAscii]; omega
  · intro c hc
    simp only [lowerAscii, List.mem_map] at hc
    obtain ⟨d, hd, rfl⟩ := hc
    exact visible_lower (h3 d hd).1
  · exact not_mem_lower (by decide) (fun hm => (h3 _ hm).2.1 rfl)
  · exact not_mem_lower (by decide) (fun hm => (h3 _ hm).2.2.1 rfl)
  · exact not_mem_lower (by decide) (fun hm => (h3 _ hm).2.2.2 rfl)

/-! ### `Claim::new` writes what `Display` writes -/

theorem newLabel_eq_display (g : Str) (vendor : Option Str) (v1 : Bool) :
    newLabel g vendor v1 = display ⟨g, v1, vendor.map lowerAscii, none, none⟩ := by
  cases vendor <;> cases v1 <;> simp [newLabel, display]

/-! ### what `manifest_label_to_parts` returns is well-formed -/

theorem parseUsize_lt {s : Str} {n : Nat} (h : parseUsize s = some n) : n < usizeLimit := by
  unfold parseUsize at h
  simp only at h
  repeat' split at h
  all_goals first | (injection h with h; omega) | (simp at h)

theorem parseVendor_wf {parts : List Str} (hc : ∀ x ∈ parts, Cl x) {vend : Option Str}
    (h : parseVendor parts = some (some vend)) :
    ∀ v, vend = some v → Cl v ∧ v ≠ [] ∧ vendorBad v = false := by
  unfold parseVendor at h
  rcases parts with _ | ⟨a, _ | ⟨b, _ | ⟨c, _ | ⟨d, t⟩⟩⟩⟩ <;> simp [idx] at h
  · intro v hv; simp [← h] at hv
  · intro v hv; simp [← h] at hv
  · intro v hv; simp [← h] at hv
  · intro v hv; simp [← h] at hv
  · intro v hv
    subst hv
    split at h
    · simp at h
    · split at h
      · simp at h
      · next h1 h2 =>
        simp at h
        subst h
        exact ⟨hc _ (by simp), h1, by simpa using h2⟩

theorem parseVersion_wf {parts : List Str} {ver rsn : Option Nat}
    (h : parseVersion parts = some (some (ver, rsn))) :
    optLt ver = true ∧ optLt rsn = true ∧ (rsn.isNone || ver.isSome) = true := by
  unfold parseVersion at h
  rcases parts with _ | ⟨a, _ | ⟨b, _ | ⟨c, _ | ⟨d, _ | ⟨e, t⟩⟩⟩⟩⟩ <;> simp [idx] at h
  iterate 5 (obtain ⟨rfl, rfl⟩ := h; simp [optLt])
  by_cases he : e = []
  · simp [he] at h; obtain ⟨rfl, rfl⟩ := h; simp [optLt]
  · simp only [if_neg he] at h
    cases h0 : (splitOnC '_' e)[0]? with
    | none => simp [h0] at h
    | some v0 =>
      simp only [h0, Option.bind_some] at h
      cases hp : parseUsize v0 with
      | none => simp [hp] at h
      | some ver' =>
        simp only [hp] at h
        cases h1 : (splitOnC '_' e)[1]? with
        | none =>
          simp [h1] at h; obtain ⟨rfl, rfl⟩ := h; simp [optLt, parseUsize_lt hp]
        | some r =>
          simp only [h1] at h
          cases hr : parseUsize r with
          | none => simp [hr] at h
          | some rr =>
            simp [hr] at h; obtain ⟨rfl, rfl⟩ := h
            simp [optLt, parseUsize_lt hp, parseUsize_lt hr]

theorem parse_direct_wf {s : Str} {p : Parts} (hs : '/' ∉ s)
    (h : manifestLabelToParts s = some (some p)) : WF p = true := by
  have hc : ∀ x ∈ splitOnC ':' s, Cl x := fun x hx =>
    ⟨sep_not_mem_of_mem_splitOnC hx, fun hm => hs (mem_of_mem_splitOnC hx hm)⟩
  unfold manifestLabelToParts at h
  rw [mlabel_noSlash hs] at h
  simp only [Option.bind_eq_bind, Option.bind_some, Option.getD_none, bind_pure_comp, pure, bind] at h
  generalize splitOnC ':' s = parts at h hc
  rcases parts with _ | ⟨a, _ | ⟨b, _ | ⟨c, t⟩⟩⟩
  · simp at h
  · simp at h
  · simp at h
  · simp [idx] at h
    have ha := hc a (by simp)
    have hcc := hc c (by simp)
    rw [if_neg (by omega)] at h
    split at h
    · split at h
      · split at h
        · simp at h
        · split at h
          · -- 1.x label without vendor
            simp at h; subst h
            simp [WF, clean_iff, hcc.1, hcc.2]
          · split at h
            · simp at h
            · -- 2.x label
              cases hv : parseVendor (a :: b :: c :: t) with
              | none => simp [hv] at h
              | some vend =>
                cases vend with
                | none => simp [hv] at h
                | some vendor =>
                  simp only [hv, Option.bind_some] at h
                  cases hw : parseVersion (a :: b :: c :: t) with
                  | none => simp [hw] at h
                  | some vr =>
                    cases vr with
                    | none => simp [hw] at h
                    | some vr =>
                      obtain ⟨ver, rsn⟩ := vr
                      simp only [hw, Option.bind_some] at h
                      simp at h; subst h
                      obtain ⟨w1, w2, w3⟩ := parseVersion_wf hw
                      have hvend := parseVendor_wf hc hv
                      cases vendor with
                      | none => simp [WF, clean_iff, hcc.1, hcc.2, w1, w2, w3]
                      | some v =>
                        obtain ⟨v1, v2, v3⟩ := hvend v rfl
                        simp [WF, clean_iff, hcc.1, hcc.2, w1, w2, w3, v1.1, v1.2, v2, v3]
      · split at h
        · split at h
          · -- 1.x label with vendor
            next hl =>
            rcases t with _ | ⟨d, t'⟩
            · simp at hl
            · simp at h; subst h
              have hd := hc d (by simp)
              simp [WF, clean_iff, hd.1, hd.2, ha.1, ha.2]
          · simp at h
        · simp at h
    · simp at h

theorem parts_of_uri' {u L : Str} (h1 : manifestLabelFromUri u = some (some L))
    (h2 : manifestLabelFromUri L = some none) :
    manifestLabelToParts u = manifestLabelToParts L := by
  simp [manifestLabelToParts, h1, h2]

theorem mlabel_some_noSlash {s L : Str} (h : manifestLabelFromUri s = some (some L)) : '/' ∉ L := by
  obtain ⟨raw, hr⟩ := norm_total s
  unfold manifestLabelFromUri at h
  rw [hr] at h
  simp only [Option.bind_eq_bind, Option.bind_some, bind, pure] at h
  cases hb : lenGtAndEq (splitOnC '/' raw) 2 1 cManifestStore with
  | none => simp [hb] at h
  | some b =>
    cases b with
    | false => simp [hb] at h
    | true =>
      simp only [hb, Option.bind_some, if_true] at h
      cases hi : idx (splitOnC '/' raw) 2 with
      | none => simp [hi] at h
      | some p2 =>
        simp [hi] at h
        subst h
        exact sep_not_mem_of_mem_splitOnC (List.mem_of_getElem? hi)

/-- **What the parser returns is well-formed**, whenever its input is a bare label (no `/`)
or a JUMBF URI that names a manifest: the parts can be printed and parsed again. (An input
with `/` that is *not* such a URI is the exception, see `parts_display_idempotent_false`.) -/
theorem parse_wf {s : Str} {p : Parts}
    (hs : '/' ∉ s ∨ ∃ L, manifestLabelFromUri s = some (some L))
    (h : manifestLabelToParts s = some (some p)) : WF p = true := by
  rcases hs with hs | ⟨L, hL⟩
  · exact parse_direct_wf hs h
  · have hn := mlabel_some_noSlash hL
    rw [parts_of_uri' hL (mlabel_noSlash hn)] at h
    exact parse_direct_wf hn h

/-! ### ingredient-thumbnail labels whose format suffix is not lower case -/

/-- format suffix of any case: no `_`, `.`, `/`, `=` -/
def fmtAny (f : Str) : Bool :=
  !f.contains '_' && !f.contains '.' && !f.contains '/' && !f.contains '='

theorem fmtAny_iff {f : Str} : fmtAny f = true ↔ '_' ∉ f ∧ '.' ∉ f ∧ '/' ∉ f ∧ '=' ∉ f := by
  simp [fmtAny, and_assoc]

theorem fmtOk_lower {f : Str} (h : fmtAny f = true) : fmtOk (lowerAscii f) = true := by
  obtain ⟨h1, h2, h3, h4⟩ := fmtAny_iff.mp h
  rw [fmtOk_iff]
  exact ⟨⟨⟨not_mem_lower (by decide) h1, not_mem_lower (by decide) h2⟩,
    not_mem_lower (by decide) h3, not_mem_lower (by decide) h4⟩, lowerAscii_idem f⟩

theorem imageType_ing_fmt_any {x f : Str} (hx : '.' ∉ x) (hf : '.' ∉ f) (hu : '_' ∉ f) :
    thumbnailImageType (cIngThumb ++ (x ++ '.' :: f)) = some (some (lowerAscii f)) := by
  simp [thumbnailImageType, split_dot_ing_fmt hx hf, containsSub_append _ _ _ contains_thumb,
    containsSub_append _ _ _ contains_thumb', idx, splitOnC_of_not_mem hu, lowerAscii]

theorem ing_any_zero {f : Str} (hf : fmtAny f = true) :
    labelAndInstance (cIngThumb ++ '.' :: f) = some (cIngThumb ++ '.' :: lowerAscii f, 0) := by
  obtain ⟨h1, h2, _, _⟩ := fmtAny_iff.mp hf
  have i1 := instance_ing_none (y := '.' :: f) (by simp [h1])
  have i2 := imageType_ing_fmt_any (x := []) (f := f) (by simp) h2 h1
  simp only [List.nil_append] at i2
  simp [labelAndInstance, thumbnailType_ing, i1, i2]

theorem lwi_ing_any_pos {f : Str} {n : Nat} (hf : fmtAny f = true) (hn : n ≠ 0) :
    labelWithInstance (cIngThumb ++ '.' :: f) n
      = some (cIngThumb ++ '_' :: '_' :: (showNat n ++ '.' :: lowerAscii f)) := by
  obtain ⟨h1, h2, _, _⟩ := fmtAny_iff.mp hf
  have i2 := imageType_ing_fmt_any (x := []) (f := f) (by simp) h2 h1
  simp only [List.nil_append] at i2
  simp [labelWithInstance, hn, thumbnailType_ing, i2]

end C2pa.C34
