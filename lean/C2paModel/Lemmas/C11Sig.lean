import C2paModel.Model.C11
/-
C11 — which signature wins does not depend on the rule order.

`sig0 pdf buf flac` are the offset-0 tests of `rulesB` (everything except "ftyp at offset 4"),
the ID3 branch written as two exclusive tests. At most one of them holds
(`offset0_signatures_exclusive`), so any signature that holds *is* the result, unless the ftyp
rule also holds and comes first (`detect_eq_of_signature`).
-/
namespace C2pa.C11

def sig0 (pdf : Bool) (buf : List UInt8) (flac : Bool) : List (Bool × Fmt) :=
  [ (sliceEq buf 0 [0xff, 0xd8, 0xff], lJpg),
    (sliceEq buf 0 [0x89, 0x50, 0x4e, 0x47, 0x0d, 0x0a, 0x1a, 0x0a], lPng),
    (sliceEq buf 0 mGIF87a || sliceEq buf 0 mGIF89a, lGif),
    (sliceEq buf 0 [0x49, 0x49, 0x2A, 0x00] || sliceEq buf 0 [0x4D, 0x4D, 0x00, 0x2A]
      || sliceEq buf 0 [0x49, 0x49, 0x2B, 0x00] || sliceEq buf 0 [0x4D, 0x4D, 0x00, 0x2B], lTif),
    (sliceEq buf 0 [0x00, 0x00, 0x00, 0x0c, 0x4a, 0x58, 0x4c, 0x20, 0x0d, 0x0a, 0x87, 0x0a], lJxl),
    (sliceEq buf 0 mRIFF, lAvi),
    (sliceEq buf 0 mFLaC, lFlac),
    (isId3 buf && flac, lFlac),
    (isId3 buf && !flac, lMp3),
    (buf.getD 0 0 == 0xff && (buf.getD 1 0).toNat / 32 == 7, lMp3),
    (pdf && sliceEq buf 0 mPDF, lPdf) ]


/-- the first two bytes of the buffer, as numbers -/
def key2 (buf : List UInt8) : Nat × Nat := ((buf.getD 0 0).toNat, (buf.getD 1 0).toNat)

theorem sliceEq0_key2 (buf : List UInt8) (x y : UInt8) (rest : List UInt8)
    (h : sliceEq buf 0 (x :: y :: rest) = true) : key2 buf = (x.toNat, y.toNat) := by
  unfold sliceEq at h
  match buf, h with
  | [], h => simp at h
  | [_], h => simp at h
  | u :: v :: tl, h =>
    simp only [List.drop_zero, List.length_cons, List.take_succ_cons] at h
    have h' := eq_of_beq h
    injection h' with h1 h2
    injection h2 with h2 _
    simp [key2, h1, h2]

/-- index of the offset-0 signature class a 2-byte key can belong to (`none` = no signature) -/
def classOfKey (k : Nat × Nat) : Option Nat :=
  if k = (0xff, 0xd8) then some 0
  else if k = (0x89, 0x50) then some 1
  else if k = (0x47, 0x49) then some 2
  else if k = (0x49, 0x49) ∨ k = (0x4d, 0x4d) then some 3
  else if k = (0x00, 0x00) then some 4
  else if k = (0x52, 0x49) then some 5
  else if k = (0x66, 0x4c) then some 6
  else if k = (0x49, 0x44) then some 7
  else if k.1 = 0xff ∧ k.2 / 32 = 7 then some 9
  else if k = (0x25, 0x50) then some 10
  else none

theorem classOfKey_mpeg : ∀ n, n < 256 → n / 32 = 7 → classOfKey (255, n) = some 9 := by decide +kernel

/-- Every offset-0 test that holds pins the 2-byte key to its own class (the two ID3 tests share
class 7 and are told apart by `flac`). -/
theorem sig0_class (pdf : Bool) (buf : List UInt8) (flac : Bool) (i : Nat)
    (hi : i < (sig0 pdf buf flac).length) (h : ((sig0 pdf buf flac)[i]).1 = true) :
    classOfKey (key2 buf) = some (if i = 8 then 7 else i) := by
  have hlen : (sig0 pdf buf flac).length = 11 := rfl
  rw [hlen] at hi
  have hk := sliceEq0_key2 buf
  match i, hi with
  | 0, _ =>
    simp only [sig0, List.getElem_cons_zero] at h
    have := hk _ _ _ h; rw [this]; decide
  | 1, _ =>
    simp only [sig0, List.getElem_cons_succ, List.getElem_cons_zero] at h
    have := hk _ _ _ h; rw [this]; decide
  | 2, _ =>
    simp only [sig0, List.getElem_cons_succ, List.getElem_cons_zero, Bool.or_eq_true] at h
    rcases h with h | h <;> (have := hk _ _ _ h; rw [this]; decide)
  | 3, _ =>
    simp only [sig0, List.getElem_cons_succ, List.getElem_cons_zero, Bool.or_eq_true] at h
    rcases h with ((h | h) | h) | h <;> (have := hk _ _ _ h; rw [this]; decide)
  | 4, _ =>
    simp only [sig0, List.getElem_cons_succ, List.getElem_cons_zero] at h
    have := hk _ _ _ h; rw [this]; decide
  | 5, _ =>
    simp only [sig0, List.getElem_cons_succ, List.getElem_cons_zero] at h
    have := hk _ _ _ h; rw [this]; decide
  | 6, _ =>
    simp only [sig0, List.getElem_cons_succ, List.getElem_cons_zero] at h
    have := hk _ _ _ h; rw [this]; decide
  | 7, _ =>
    simp only [sig0, List.getElem_cons_succ, List.getElem_cons_zero, Bool.and_eq_true, isId3] at h
    have := hk _ _ _ h.1.2; rw [this]; decide
  | 8, _ =>
    simp only [sig0, List.getElem_cons_succ, List.getElem_cons_zero, Bool.and_eq_true, isId3] at h
    have := hk _ _ _ h.1.2; rw [this]; decide
  | 9, _ =>
    simp only [sig0, List.getElem_cons_succ, List.getElem_cons_zero, Bool.and_eq_true, beq_iff_eq] at h
    obtain ⟨h0, h1⟩ := h
    have e0 : (buf.getD 0 0).toNat = 255 := by rw [h0]; rfl
    have hlt : (buf.getD 1 0).toNat < 256 := (buf.getD 1 0).toNat_lt
    have := classOfKey_mpeg _ hlt h1
    unfold key2; rw [e0, this]; rfl
  | 10, _ =>
    simp only [sig0, List.getElem_cons_succ, List.getElem_cons_zero, Bool.and_eq_true] at h
    have := hk _ _ _ h.2; rw [this]; decide

/-- **Offset-0 signatures are mutually exclusive**: two different tests of `sig0` never hold
together, for any buffer (so their relative order in `container_from_stream` is immaterial). -/
theorem offset0_signatures_exclusive (pdf : Bool) (buf : List UInt8) (flac : Bool) (i j : Nat)
    (hi : i < (sig0 pdf buf flac).length) (hj : j < (sig0 pdf buf flac).length)
    (h₁ : ((sig0 pdf buf flac)[i]).1 = true) (h₂ : ((sig0 pdf buf flac)[j]).1 = true) : i = j := by
  have c₁ := sig0_class pdf buf flac i hi h₁
  have c₂ := sig0_class pdf buf flac j hj h₂
  rw [c₁] at c₂
  have e : (if i = 8 then 7 else i) = (if j = 8 then 7 else j) := by simpa using c₂
  by_cases hi8 : i = 8
  · by_cases hj8 : j = 8
    · omega
    · -- i = 8 (ID3 ∧ ¬flac), j = 7 (ID3 ∧ flac): contradictory on `flac`
      have hj7 : j = 7 := by simp [hi8, hj8] at e; omega
      subst hi8; subst hj7
      simp only [sig0, List.getElem_cons_succ, List.getElem_cons_zero, Bool.and_eq_true] at h₁ h₂
      have := h₁.2; simp [h₂.2] at this
  · by_cases hj8 : j = 8
    · have hi7 : i = 7 := by simp [hi8, hj8] at e; omega
      subst hj8; subst hi7
      simp only [sig0, List.getElem_cons_succ, List.getElem_cons_zero, Bool.and_eq_true] at h₁ h₂
      have := h₂.2; simp [h₁.2] at this
    · simp [hi8, hj8] at e; exact e

/-! ### `firstMatch` over exclusive tests -/

/-- `firstMatch` over a list in which at most one test holds returns that one. -/
theorem firstMatch_of_exclusive (rs : List (Bool × Fmt)) (i : Nat) (hi : i < rs.length)
    (h : (rs[i]).1 = true)
    (hex : ∀ j (hj : j < rs.length), (rs[j]).1 = true → j = i) :
    firstMatch rs = some (rs[i]).2 := by
  induction rs generalizing i with
  | nil => simp at hi
  | cons r rs ih =>
    obtain ⟨c, e⟩ := r
    cases i with
    | zero => simp at h; simp [firstMatch, h]
    | succ k =>
      have hc : c = false := by
        cases c with
        | false => rfl
        | true => have := hex 0 (by simp) rfl; omega
      subst hc
      simp only [firstMatch, Bool.false_eq_true, ↓reduceIte, List.getElem_cons_succ]
      apply ih k (by simpa using hi) (by simpa using h)
      intro j hj hjt
      have := hex (j + 1) (by simpa using hj) (by simpa using hjt)
      omega

theorem firstMatch_append_none (xs ys : List (Bool × Fmt)) (h : firstMatch xs = none) :
    firstMatch (xs ++ ys) = firstMatch ys := by
  induction xs with
  | nil => rfl
  | cons r xs ih =>
    obtain ⟨c, e⟩ := r
    cases c with
    | true => simp [firstMatch] at h
    | false => simp only [firstMatch, Bool.false_eq_true, ↓reduceIte] at h; simp [firstMatch, ih h]

theorem firstMatch_append_some (xs ys : List (Bool × Fmt)) (d : Fmt) (h : firstMatch xs = some d) :
    firstMatch (xs ++ ys) = some d := by
  induction xs with
  | nil => simp [firstMatch] at h
  | cons r xs ih =>
    obtain ⟨c, e⟩ := r
    cases c with
    | true => simpa [firstMatch] using h
    | false => simp only [firstMatch, Bool.false_eq_true, ↓reduceIte] at h; simp [firstMatch, ih h]

theorem tail_equiv (a i f m pdf p : Bool) :
    firstMatch ([(a, lFlac), (i && f, lFlac), (i, lMp3), (m, lMp3)] ++ (if pdf then [(p, lPdf)] else []))
      = firstMatch [(a, lFlac), (i && f, lFlac), (i && !f, lMp3), (m, lMp3), (pdf && p, lPdf)] := by
  cases a <;> cases i <;> cases f <;> cases m <;> cases pdf <;> cases p <;> rfl

theorem rulesB_split (pdf : Bool) (buf : List UInt8) (flac : Bool) :
    rulesB pdf buf flac = (sig0 pdf buf flac).take 6 ++ (sliceEq buf 4 mFtyp, lAvif) ::
      ([(sliceEq buf 0 mFLaC, lFlac), (isId3 buf && flac, lFlac), (isId3 buf, lMp3),
        (buf.getD 0 0 == 0xff && (buf.getD 1 0).toNat / 32 == 7, lMp3)]
        ++ (if pdf then [(sliceEq buf 0 mPDF, lPdf)] else [])) := by
  cases pdf <;> rfl

/-- the rule list of the code is `sig0` with the ftyp rule inserted after the sixth test (and the
second ID3 test not repeating `¬flac`): same first match -/
theorem firstMatch_rulesB (pdf : Bool) (buf : List UInt8) (flac : Bool) :
    firstMatch (rulesB pdf buf flac) =
      match firstMatch ((sig0 pdf buf flac).take 6) with
      | some d => some d
      | none => if sliceEq buf 4 mFtyp then some lAvif else firstMatch ((sig0 pdf buf flac).drop 6) := by
  rw [rulesB_split]
  cases hfm : firstMatch ((sig0 pdf buf flac).take 6) with
  | some d => rw [firstMatch_append_some _ _ d hfm]
  | none =>
    rw [firstMatch_append_none _ _ hfm]
    simp only [firstMatch]
    split
    · rfl
    · rw [tail_equiv]; rfl

/-- **Order-free reading of the rule list**: if the offset-0 signature number `i` is present in
a buffer of at least two bytes, the stream is detected as that signature's container — except
that a simultaneous "ftyp" at offset 4 takes precedence over the signatures listed after it
(fLaC, ID3, MPEG sync, %PDF). No other pair of rules can interact. -/
theorem detect_eq_of_signature (pdf : Bool) (s : List UInt8) (i : Nat)
    (hlen : 2 ≤ (s.take 16).length)
    (hi : i < (sig0 pdf (s.take 16) (sliceEq s (10 + id3Size (s.take 16)) mFLaC)).length)
    (h : ((sig0 pdf (s.take 16) (sliceEq s (10 + id3Size (s.take 16)) mFLaC))[i]).1 = true)
    (hftyp : i < 6 ∨ sliceEq (s.take 16) 4 mFtyp = false) :
    detect pdf s
      = some ((sig0 pdf (s.take 16) (sliceEq s (10 + id3Size (s.take 16)) mFLaC))[i]).2 := by
  unfold detect detectB
  rw [if_neg (by omega), firstMatch_rulesB]
  generalize sliceEq s (10 + id3Size (s.take 16)) mFLaC = flac at *
  generalize s.take 16 = buf at *
  have hall := firstMatch_of_exclusive (sig0 pdf buf flac) i hi h
    (fun j hj hjt => offset0_signatures_exclusive pdf buf flac j i hj hi hjt h)
  have hall' : firstMatch ((sig0 pdf buf flac).take 6 ++ (sig0 pdf buf flac).drop 6)
      = some ((sig0 pdf buf flac)[i]).2 := by
    rw [List.take_append_drop]; exact hall
  cases hfm : firstMatch ((sig0 pdf buf flac).take 6) with
  | some d =>
    rw [firstMatch_append_some _ _ d hfm] at hall'
    simp only; exact hall'
  | none =>
    rw [firstMatch_append_none _ _ hfm] at hall'
    simp only
    rcases hftyp with hlt | hf
    · -- a signature among the first six holds, so `firstMatch (take 6)` cannot be `none`
      exfalso
      have hlen11 : (sig0 pdf buf flac).length = 11 := rfl
      have hi6 : i < ((sig0 pdf buf flac).take 6).length := by
        rw [List.length_take, hlen11]; omega
      have hget : (((sig0 pdf buf flac).take 6)[i]).1 = true := by
        rw [List.getElem_take]; exact h
      have := firstMatch_of_exclusive ((sig0 pdf buf flac).take 6) i hi6 hget
        (fun j hj hjt => by
          have hj' : j < (sig0 pdf buf flac).length := by
            rw [List.length_take, hlen11] at hj; omega
          have hjt' : ((sig0 pdf buf flac)[j]).1 = true := by rw [List.getElem_take] at hjt; exact hjt
          exact offset0_signatures_exclusive pdf buf flac j i hj' hi hjt' h)
      rw [hfm] at this; cases this
    · rw [hf]; simp only [Bool.false_eq_true, ↓reduceIte]; exact hall'

end C2pa.C11
