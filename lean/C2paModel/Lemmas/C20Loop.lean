import C2paModel.Model.C20
import C2paModel.Lemmas.C19C04
/-
C20 helper lemmas: the assertion loop of `verify_internal`, the position erasure of
`redact_assertion`, and the bridge from a validation log to the C04 results/state model.
-/
namespace C2pa.C20
open C2pa.C34

/-! ### events -/

def Ev.isFailure (e : Ev) : Bool := e.kind == .failure

theorem fail_isFailure (c : String) (i : Bool) : (fail c i).isFailure = true := rfl
theorem succ_not_failure (c : String) (i : Bool) : (succ c i).isFailure = false := rfl
theorem info_not_failure (c : String) (i : Bool) : (info c i).isFailure = false := rfl

/-! ### the assertion loop -/

/-- the condition under which one hashed URI of the claim produces no failure -/
def RefClean (c : Claim) (keys : List RedKey) (r : Ref) : Prop :=
  (r.manifest = none ∨ r.manifest = some c.label) ∧
  (isRedacted keys c.label r.label r.inst = true ∨
    ∃ ca, findCA c r.label r.inst = some ca ∧ ca.hash = r.hu.hash)

theorem outside_nil_iff (c : Claim) (ing : Bool) (r : Ref) :
    outsideEvents c ing r = [] ↔ (r.manifest = none ∨ r.manifest = some c.label) := by
  unfold outsideEvents
  cases hm : r.manifest with
  | none => simp
  | some m =>
    by_cases h : m = c.label
    · simp [h]
    · simp [h]

theorem outside_all_failure (c : Claim) (ing : Bool) (r : Ref) :
    ∀ e ∈ outsideEvents c ing r, e.isFailure = true := by
  unfold outsideEvents
  cases hm : r.manifest with
  | none => simp
  | some m =>
    by_cases h : m = c.label
    · simp [h]
    · simp [h, fail_isFailure]

theorem outside_clean_iff (c : Claim) (ing : Bool) (r : Ref) :
    (∀ e ∈ outsideEvents c ing r, e.isFailure = false) ↔
      (r.manifest = none ∨ r.manifest = some c.label) := by
  rw [← outside_nil_iff c ing r]
  have hall := outside_all_failure c ing r
  constructor
  · intro h
    cases ho : outsideEvents c ing r with
    | nil => rfl
    | cons x xs =>
      rw [ho] at h hall
      have h1 := h x (List.mem_cons_self ..)
      have h2 := hall x (List.mem_cons_self ..)
      rw [h1] at h2; cases h2
  · intro h; rw [h]; intro e he; cases he

theorem forall_mem_append_single {α : Type} (p : α → Prop) (l : List α) (x : α) :
    (∀ e ∈ l ++ [x], p e) ↔ (∀ e ∈ l, p e) ∧ p x := by
  constructor
  · intro h
    exact ⟨fun e he => h e (List.mem_append_left _ he), h x (List.mem_append_right _ (List.mem_cons_self ..))⟩
  · rintro ⟨h1, h2⟩ e he
    rcases List.mem_append.1 he with he | he
    · exact h1 e he
    · rcases List.mem_singleton.1 he with rfl; exact h2

/-- one step logs no failure exactly when the reference is clean -/
theorem step_no_failure_iff (c : Claim) (keys : List RedKey) (ing : Bool) (track : List CA) (r : Ref) :
    (∀ e ∈ (assertionStep c keys ing track r).1, e.isFailure = false) ↔ RefClean c keys r := by
  unfold assertionStep RefClean
  have hoc := outside_clean_iff c ing r
  simp only []
  by_cases hred : isRedacted keys c.label r.label r.inst = true
  · simp only [hred, if_true]
    rw [hoc]; simp
  · have hredf : isRedacted keys c.label r.label r.inst = false := by simpa using hred
    simp only [hredf, Bool.false_eq_true, if_false]
    cases hf : findCA c r.label r.inst with
    | none =>
      simp only []
      rw [forall_mem_append_single]
      constructor
      · rintro ⟨_, h⟩
        simp [fail_isFailure] at h
      · rintro ⟨_, h | ⟨ca, h, _⟩⟩
        · cases h
        · cases h
    | some ca =>
      simp only []
      by_cases hh : ca.hash = r.hu.hash
      · simp only [hh, bne_self_eq_false, Bool.false_eq_true, if_false]
        rw [forall_mem_append_single, hoc]
        constructor
        · rintro ⟨h1, _⟩; exact ⟨h1, Or.inr ⟨ca, rfl, hh⟩⟩
        · rintro ⟨h1, _⟩; exact ⟨h1, succ_not_failure _ _⟩
      · have hne : (ca.hash != r.hu.hash) = true := by simpa using hh
        simp only [hne, if_true]
        rw [forall_mem_append_single]
        constructor
        · rintro ⟨_, h⟩
          simp [fail_isFailure] at h
        · rintro ⟨_, h | ⟨ca', h, h'⟩⟩
          · cases h
          · cases h; exact absurd h' hh

/-- **the assertion loop logs no failure exactly when every hashed URI of the claim is clean**
(points into this manifest, and is either covered by a redaction of the hierarchy or resolves
to an assertion whose hash matches) -/
theorem loop_no_failure_iff (c : Claim) (keys : List RedKey) (ing : Bool) :
    ∀ (refs : List Ref) (track : List CA),
      (∀ e ∈ (assertionLoop c keys ing refs track).1, e.isFailure = false) ↔
        ∀ r ∈ refs, RefClean c keys r := by
  intro refs
  induction refs with
  | nil => intro track; simp [assertionLoop]
  | cons r rs ih =>
    intro track
    simp only [assertionLoop]
    have hs := step_no_failure_iff c keys ing track r
    have hi := ih (assertionStep c keys ing track r).2
    constructor
    · intro h x hx
      rcases List.mem_cons.1 hx with rfl | hx
      · exact hs.1 fun e he => h e (List.mem_append_left _ he)
      · exact hi.1 (fun e he => h e (List.mem_append_right _ he)) x hx
    · intro h e he
      rcases List.mem_append.1 he with he | he
      · exact hs.2 (h r (List.mem_cons_self ..)) e he
      · exact hi.2 (fun x hx => h x (List.mem_cons_of_mem _ hx)) e he

/-- the events of one step are contained in the loop's events -/
theorem step_sub_loop (c : Claim) (keys : List RedKey) (ing : Bool) :
    ∀ (refs : List Ref) (track : List CA) (r : Ref), r ∈ refs →
      ∃ t, ∀ e ∈ (assertionStep c keys ing t r).1, e ∈ (assertionLoop c keys ing refs track).1 := by
  intro refs
  induction refs with
  | nil => intro _ r hr; cases hr
  | cons x xs ih =>
    intro track r hr
    simp only [assertionLoop]
    rcases List.mem_cons.1 hr with rfl | hr
    · exact ⟨track, fun e he => List.mem_append_left _ he⟩
    · obtain ⟨t, ht⟩ := ih (assertionStep c keys ing track x).2 r hr
      exact ⟨t, fun e he => List.mem_append_right _ (ht e he)⟩

/-- a reference whose assertion is gone and which no redaction covers logs `assertion.missing` -/
theorem step_missing (c : Claim) (keys : List RedKey) (ing : Bool) (t : List CA) (r : Ref)
    (hred : isRedacted keys c.label r.label r.inst = false) (hf : findCA c r.label r.inst = none) :
    fail "assertion.missing" ing ∈ (assertionStep c keys ing t r).1 := by
  unfold assertionStep
  simp [hred, hf]

/-- a reference whose assertion data changed and which no redaction covers logs a mismatch -/
theorem step_mismatch (c : Claim) (keys : List RedKey) (ing : Bool) (t : List CA) (r : Ref) (ca : CA)
    (hred : isRedacted keys c.label r.label r.inst = false) (hf : findCA c r.label r.inst = some ca)
    (hh : ca.hash ≠ r.hu.hash) :
    fail "assertion.hashedURI.mismatch" ing ∈ (assertionStep c keys ing t r).1 := by
  unfold assertionStep
  have hne : (ca.hash != r.hu.hash) = true := by simpa using hh
  simp [hred, hf, hne]

/-! ### `redact_assertion`: erasure of the first matching position -/

theorem erasePos_some (target : Str) :
    ∀ (l l' : List CA), erasePos target l = some (some l') →
      ∃ pre a post, l = pre ++ a :: post ∧ l' = pre ++ post ∧
        labelWithInstance a.label a.inst = some target ∧
        ∀ b ∈ pre, labelWithInstance b.label b.inst ≠ some target := by
  intro l
  induction l with
  | nil => intro l' h; simp [erasePos] at h
  | cons a as ih =>
    intro l' h
    unfold erasePos at h
    cases hk : labelWithInstance a.label a.inst with
    | none => simp [hk] at h
    | some k =>
      simp only [hk, Option.bind_eq_bind, Option.bind_some] at h
      by_cases he : (k == target) = true
      · simp only [he, if_true] at h
        cases h
        have : k = target := by simpa using he
        exact ⟨[], a, as, rfl, rfl, by rw [hk, this], by intro b hb; cases hb⟩
      · simp only [he] at h
        cases hr : erasePos target as with
        | none => simp [hr] at h
        | some o =>
          cases o with
          | none => simp [hr] at h
          | some r =>
            simp [hr] at h
            subst h
            obtain ⟨pre, x, post, h1, h2, h3, h4⟩ := ih r hr
            refine ⟨a :: pre, x, post, by simp [h1], by simp [h2], h3, ?_⟩
            intro b hb
            rcases List.mem_cons.1 hb with rfl | hb
            · rw [hk]; intro hc; cases hc; exact he (by simp)
            · exact h4 b hb

theorem erasePos_none (target : Str) :
    ∀ (l : List CA), erasePos target l = some none →
      ∀ a ∈ l, labelWithInstance a.label a.inst ≠ some target := by
  intro l
  induction l with
  | nil => intro _ a ha; cases ha
  | cons x xs ih =>
    intro h a ha
    unfold erasePos at h
    cases hk : labelWithInstance x.label x.inst with
    | none => simp [hk] at h
    | some k =>
      simp only [hk, Option.bind_eq_bind, Option.bind_some] at h
      by_cases he : (k == target) = true
      · simp [he] at h
      · simp only [he] at h
        cases hr : erasePos target xs with
        | none => simp [hr] at h
        | some o =>
          cases o with
          | some r => simp [hr] at h
          | none =>
            rcases List.mem_cons.1 ha with rfl | ha
            · rw [hk]; intro hc; cases hc; exact he (by simp)
            · exact ih hr a ha

/-! ### bridge to the C04 results model -/

/-- `ValidationStatus` of a logged item; `uriOf` gives the ingredient URI of an ingredient-scoped
item -/
def toStatus (uriOf : Ev → List Char) (e : Ev) : C04.Status :=
  { code := e.code,
    kind := match e.kind with
      | .success => .success | .info => .informational | .failure => .failure,
    uri := if e.ing then some (uriOf e) else none }

/-- `ValidationResults::from_store`: the statuses that survive the "already recorded in an
ingredient assertion" filter (`keep`), added in log order to `r0` -/
def report (keep : Ev → Bool) (uriOf : Ev → List Char) (r0 : C04.Results) (log : List Ev) : C04.Results :=
  ((log.filter keep).map (toStatus uriOf)).foldl C04.addStatus r0

/-- **a kept, non-tolerated failure anywhere in the log makes the reported state Invalid** -/
theorem report_invalid (keep : Ev → Bool) (uriOf : Ev → List Char) (r0 : C04.Results)
    (log : List Ev) (e : Ev) (he : e ∈ log) (hk : keep e = true) (hf : e.isFailure = true)
    (ht : C04.tolerated e.code = false) :
    C04.state (report keep uriOf r0 log) = .invalid := by
  unfold report
  refine C04.nontolerated_failure_in_sequence_invalid r0 _ (toStatus uriOf e) ?_ ?_ ht
  · exact List.mem_map.2 ⟨e, List.mem_filter.2 ⟨he, hk⟩, rfl⟩
  · have : e.kind = .failure := by
      unfold Ev.isFailure at hf; simpa using hf
    simp [toStatus, this]

end C2pa.C20
