import C2paModel.Lemmas.C18Base
/-
C18 — postconditions of the individual readers (no panic, positions stay inside the data and
advance, structural invariants of what is returned).
-/
namespace C2pa.C18

theorem readHeader_post (d : Bytes) (pos : Nat) (hp : pos ≤ d.length) :
    (readHeader d pos).Post (fun r => r.2 ≤ d.length ∧
      ((r.2 = pos ∧ r.1 = ⟨0, 0⟩) ∨ r.2 = pos + 8 ∨ r.2 = pos + 16)) := by
  unfold readHeader
  simp only []
  split
  · simp [hp]
  · split
    · simp
    · split
      · split
        · simp
        · simp; omega
      · simp; omega

theorem unread_ok (p : Nat) (h : 8 ≤ p) : unread p = .ok (p - 8) := by
  unfold unread; simp; omega

theorem readToVec_post (d : Bytes) (pos n : Nat) :
    (readToVec d pos n).Post (fun r => r.2 = pos + n ∧ r.2 ≤ d.length ∧ r.1.length = n) := by
  unfold readToVec
  split
  · simp
  · split
    · simp
    · simp; omega

theorem readExact_post (d : Bytes) (pos n : Nat) (hp : pos ≤ d.length) :
    (readExact d pos n).Post (fun r => r.2 = pos + n ∧ r.2 ≤ d.length ∧ r.1.length = n ∧ r.1 = slice d pos n) := by
  unfold readExact
  split
  · simp
  · simp; omega

theorem readByte_post (d : Bytes) (pos : Nat) (hp : pos ≤ d.length) :
    (readByte d pos).Post (fun r => r.2 = pos + 1 ∧ r.2 ≤ d.length) := by
  unfold readByte
  split
  · simp
  · rename_i b r h
    have := avail_of_drop h
    simp at this ⊢
    omega

/-- the "did we start without the header" step -/
theorem reseek_post (c : Bool) (pos p1 : Nat) (h : p1 = pos + 8 ∨ p1 = pos + 16) :
    (reseek c p1).Post (fun p2 => pos ≤ p2 ∧ p2 ≤ p1) := by
  unfold reseek
  split
  · rw [unread_ok p1 (by omega)]; simp; omega
  · simp; omega

/-- a header whose size is not 0 was really read -/
theorem header_nonzero {pos p1 : Nat} {h : Header}
    (hc : (p1 = pos ∧ h = ⟨0, 0⟩) ∨ p1 = pos + 8 ∨ p1 = pos + 16) (hs : ¬ h.size = 0) :
    p1 = pos + 8 ∨ p1 = pos + 16 := by
  rcases hc with ⟨_, h0⟩ | h | h
  · rw [h0] at hs; simp at hs
  · exact Or.inl h
  · exact Or.inr h

theorem header_named {pos p1 : Nat} {h : Header}
    (hc : (p1 = pos ∧ h = ⟨0, 0⟩) ∨ p1 = pos + 8 ∨ p1 = pos + 16) (hs : ¬ h.name = 0) :
    p1 = pos + 8 ∨ p1 = pos + 16 := by
  rcases hc with ⟨_, h0⟩ | h | h
  · rw [h0] at hs; simp at hs
  · exact Or.inl h
  · exact Or.inr h

theorem readData_mono (d : Bytes) (pos size : Nat) (hp : pos ≤ d.length) :
    (readData d pos size).Post (fun r => pos ≤ r.2 ∧ r.2 ≤ d.length) := by
  unfold readData
  refine Res.Post.bind ((readHeader_post d pos hp).mapErr _) ?_
  rintro ⟨h, p1⟩ ⟨hl, hc⟩
  simp only []
  split
  · simp; omega
  · rename_i hs
    refine Res.Post.bind (reseek_post _ pos p1 (header_nonzero hc hs)) ?_
    intro p2 hp2
    split
    · simp
    · exact (readToVec_post d p2 _).mono (fun r hr => by omega)

/-- when the header at `pos` is an ordinary 8-byte header, re-reading it gives the same header and
the reader advances by at least the header -/
theorem readData_progress (d : Bytes) (pos : Nat) (bh : Header) (hp : pos ≤ d.length)
    (hh : readHeader d pos = .ok (bh, pos + 8)) :
    (readData d pos bh.size).Post (fun r => pos + 8 ≤ r.2 ∧ r.2 ≤ d.length) := by
  have hl : pos + 8 ≤ d.length := by
    have := readHeader_post d pos hp; rw [hh] at this; simpa using this.1
  unfold readData
  rw [hh]
  simp only [mapErr_ok, bind_ok]
  split
  · simp; omega
  · simp only [reseek, bne_self_eq_false, Bool.false_eq_true, if_false, bind_ok]
    split
    · simp
    · exact (readToVec_post d _ _).mono (fun r hr => by omega)

theorem usub_post (a b : Nat) (h : b ≤ a) : usub a b = .ok (a - b) := by
  unfold usub; simp; omega

theorem readUuid_mono (d : Bytes) (pos size : Nat) (hp : pos ≤ d.length) :
    (readUuid d pos size).Post (fun r => pos ≤ r.2 ∧ r.2 ≤ d.length ∧ r.1.1.length = 16) := by
  unfold readUuid
  refine Res.Post.bind ((readHeader_post d pos hp).mapErr _) ?_
  rintro ⟨h, p1⟩ ⟨hl, hc⟩
  simp only []
  split
  · simp [zeros16]; omega
  · rename_i hs
    refine Res.Post.bind (reseek_post _ pos p1 (header_nonzero hc hs)) ?_
    intro p2 hp2
    refine Res.Post.bind (readExact_post d p2 16 (by omega)) ?_
    rintro ⟨u, p3⟩ ⟨h3, h3l, hul, _⟩
    simp only []
    split
    · simp
    · refine Res.Post.bind (readToVec_post d p3 _) ?_
      rintro ⟨buf, p4⟩ ⟨h4, h4l, _⟩
      simp at h3 h4 hul ⊢
      omega

theorem readUuid_progress (d : Bytes) (pos : Nat) (bh : Header) (hp : pos ≤ d.length)
    (hh : readHeader d pos = .ok (bh, pos + 8)) :
    (readUuid d pos bh.size).Post (fun r => pos + 8 ≤ r.2 ∧ r.2 ≤ d.length) := by
  have hl : pos + 8 ≤ d.length := by
    have := readHeader_post d pos hp; rw [hh] at this; simpa using this.1
  unfold readUuid
  rw [hh]
  simp only [mapErr_ok, bind_ok]
  split
  · simp; omega
  · simp only [reseek, bne_self_eq_false, Bool.false_eq_true, if_false, bind_ok]
    refine Res.Post.bind (readExact_post d _ 16 hl) ?_
    rintro ⟨u, p3⟩ ⟨h3, h3l, hul, _⟩
    simp only []
    split
    · simp
    · refine Res.Post.bind (readToVec_post d p3 _) ?_
      rintro ⟨buf, p4⟩ ⟨h4, h4l, _⟩
      simp at h3 h4 ⊢
      omega

theorem splitMedia_post (togs : UInt8) (buf : Bytes) : (splitMedia togs buf).Post (fun _ => True) := by
  unfold splitMedia
  split
  · split
    · rename_i p hp
      have : 1 ≤ buf.length := by
        cases buf with
        | nil => simp at hp
        | cons => simp
      rw [usub_post _ _ this]
      simp only [bind_ok]
      split <;> simp
    · simp
  · split <;> simp

theorem readBfdb_mono (d : Bytes) (pos size : Nat) (hp : pos ≤ d.length) :
    (readBfdb d pos size).Post (fun r => pos ≤ r.2 ∧ r.2 ≤ d.length) := by
  unfold readBfdb
  split
  · simp
  · rename_i hsz
    refine Res.Post.bind ((readHeader_post d pos hp).mapErr _) ?_
    rintro ⟨h, p1⟩ ⟨hl, hc⟩
    simp only []
    split
    · simp; omega
    · rename_i hs
      refine Res.Post.bind (reseek_post _ pos p1 (header_nonzero hc hs)) ?_
      intro p2 hp2
      refine Res.Post.bind (readByte_post d p2 (by omega)) ?_
      rintro ⟨t, p3⟩ ⟨h3, h3l⟩
      simp only []
      rw [usub_post size 8 (by omega)]
      simp only [Res.bind]
      rw [usub_post (size - 8) 1 (by omega)]
      simp only [bind_ok]
      refine Res.Post.bind (readToVec_post d p3 _) ?_
      rintro ⟨buf, p4⟩ ⟨h4, h4l, _⟩
      simp only []
      refine Res.Post.bind (splitMedia_post _ buf) ?_
      rintro ⟨mt, fn⟩ _
      simp at h3 h4 ⊢
      omega

theorem readBfdb_progress (d : Bytes) (pos : Nat) (bh : Header) (hp : pos ≤ d.length)
    (hh : readHeader d pos = .ok (bh, pos + 8)) :
    (readBfdb d pos bh.size).Post (fun r => pos + 8 ≤ r.2 ∧ r.2 ≤ d.length) := by
  have hl : pos + 8 ≤ d.length := by
    have := readHeader_post d pos hp; rw [hh] at this; simpa using this.1
  unfold readBfdb
  split
  · simp
  · rename_i hsz
    rw [hh]
    simp only [mapErr_ok, bind_ok]
    split
    · simp; omega
    · simp only [reseek, bne_self_eq_false, Bool.false_eq_true, if_false, bind_ok]
      refine Res.Post.bind (readByte_post d _ hl) ?_
      rintro ⟨t, p3⟩ ⟨h3, h3l⟩
      simp only []
      rw [usub_post bh.size 8 (by omega)]
      simp only [Res.bind]
      rw [usub_post (bh.size - 8) 1 (by omega)]
      simp only [bind_ok]
      refine Res.Post.bind (readToVec_post d p3 _) ?_
      rintro ⟨buf, p4⟩ ⟨h4, h4l, _⟩
      simp only []
      refine Res.Post.bind (splitMedia_post _ buf) ?_
      rintro ⟨mt, fn⟩ _
      simp at h3 h4 ⊢
      omega

theorem readLabel_post : ∀ (rest : Bytes) (bl : Nat),
    (readLabel rest bl).Post (fun r => (0 : UInt8) ∉ r.1 ∧ r.1.length + 1 ≤ rest.length ∧
      r.2 + r.1.length + 1 = bl ∧ 8 ≤ r.2) := by
  intro rest
  induction rest with
  | nil => intro bl; unfold readLabel; split <;> simp
  | cons b r ih =>
    intro bl
    unfold readLabel
    split
    · simp
    · rename_i hbl
      simp only []
      rw [usub_post bl 1 (by omega)]
      simp only [bind_ok]
      split
      · simp; omega
      · rename_i hb
        refine Res.Post.bind (ih (bl - 1)) ?_
        rintro ⟨l, x⟩ ⟨h1, h2, h3, h4⟩
        simp at h2 h3 h4 ⊢
        refine ⟨⟨fun h => hb h.symm, h1⟩, by omega, by omega, h4⟩

theorem readBoxId_post (d : Bytes) (togs : UInt8) (p bl : Nat) (hp : p ≤ d.length) (hbl : 8 ≤ bl) :
    (readBoxId d togs p bl).Post (fun r => (r.1.isSome = true ↔ togs &&& 0x04 = 0x04) ∧
      (∀ x, r.1 = some x → x < 4294967296) ∧ p ≤ r.2.2 ∧ r.2.2 ≤ d.length) := by
  unfold readBoxId
  split
  · rename_i ht
    refine Res.Post.bind (readExact_post d p 4 hp) ?_
    rintro ⟨v, p'⟩ ⟨h1, h2, h3, _⟩
    simp only []
    rw [usub_post bl 4 (by omega)]
    simp only [bind_ok, post_ok]
    simp at h1 h3
    refine ⟨by simp [ht], ?_, by omega, h2⟩
    intro x hx
    simp at hx
    have := be_lt v
    rw [h3] at this
    omega
  · rename_i ht
    simp [ht, hp]

theorem readSig_post (d : Bytes) (togs : UInt8) (p bl : Nat) (hp : p ≤ d.length) :
    (readSig d togs p bl).Post (fun r => (r.1.isSome = true ↔ togs &&& 0x08 = 0x08) ∧
      (∀ s, r.1 = some s → s.length = 32) ∧ p ≤ r.2.2 ∧ r.2.2 ≤ d.length) := by
  unfold readSig
  split
  · rename_i ht
    refine Res.Post.bind (readExact_post d p 32 hp) ?_
    rintro ⟨v, p'⟩ ⟨h1, h2, h3, _⟩
    simp only []
    split
    · simp
    · simp at h1 h3 ⊢
      refine ⟨by simp [ht], h3, by omega, h2⟩
  · rename_i ht
    simp [ht, hp]

theorem readSalt_post (d : Bytes) (togs : UInt8) (p bl : Nat) (hp : p ≤ d.length) :
    (readSalt d togs p bl).Post (fun r => (r.1.isSome = true ↔ togs &&& 0x10 = 0x10) ∧
      p ≤ r.2.2 ∧ r.2.2 ≤ d.length) := by
  unfold readSalt
  split
  · rename_i ht
    refine Res.Post.bind ((readHeader_post d p hp).mapErr _) ?_
    rintro ⟨h, q1⟩ ⟨hl, hc⟩
    simp only []
    split
    · simp
    · rename_i hs
      refine Res.Post.bind (reseek_post _ p q1 (header_nonzero hc hs)) ?_
      intro q2 hq2
      split
      · simp
      · split
        · simp
        · refine Res.Post.bind (readToVec_post d q2 _) ?_
          rintro ⟨buf, q3⟩ ⟨h4, h4l, _⟩
          simp only []
          split
          · simp
          · simp at h4 ⊢
            refine ⟨by simp [ht], by omega, h4l⟩
  · rename_i ht
    simp [ht, hp]

theorem readDesc_post (d : Bytes) (pos size : Nat) (hp : pos ≤ d.length) :
    (readDesc d pos size).Post (fun r => r.1.Valid0 ∧ pos + 18 ≤ r.2 ∧ r.2 ≤ d.length) := by
  unfold readDesc
  split
  · simp
  · rename_i hsz
    simp only []
    split
    · simp
    · rename_i hk
      rw [usub_post size _ (by omega)]
      simp only [bind_ok]
      refine Res.Post.bind (readByte_post d _ (by omega)) ?_
      rintro ⟨t, p1⟩ ⟨h1, h1l⟩
      simp only []
      rw [usub_post _ 1 (by omega)]
      simp only [bind_ok]
      have hk16 : min 16 (d.length - pos) = 16 := by
        simp at h1 h1l
        omega
      split
      · simp
      · rename_i ht
        refine Res.Post.bind (readLabel_post (d.drop p1) _) ?_
        rintro ⟨label, bl⟩ ⟨hl0, hll, hlb, hl8⟩
        simp only []
        simp at h1 hll
        refine Res.Post.bind (readBoxId_post d _ _ bl (by omega) hl8) ?_
        rintro ⟨bxid, bl2, p3⟩ ⟨hi1, hi2, hi3, hi4⟩
        simp only []
        refine Res.Post.bind (readSig_post d _ p3 bl2 hi4) ?_
        rintro ⟨sig, bl3, p4⟩ ⟨hs1, hs2, hs3, hs4⟩
        simp only []
        refine Res.Post.bind (readSalt_post d _ p4 bl3 hs4) ?_
        rintro ⟨salt, bl4, p5⟩ ⟨ha1, ha3, ha4⟩
        simp only []
        split
        · simp
        · simp only [post_ok]
          simp at hi3 hs3 ha3
          refine ⟨⟨?_, ?_, hl0, hi1, hi2, hs1, hs2, ha1⟩, by omega, ha4⟩
          · simp; omega
          · simpa using ht


end C2pa.C18
