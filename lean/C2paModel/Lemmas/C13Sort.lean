import C2paModel.Model.C13
/-
C13 — facts about the stable insertion sort used by the model for `sort_by_key`/`sort_by`/`sort`:
it is a permutation, its result is ordered by key, it is the identity on ordered input and it
keeps the relative order of entries with equal keys (so it is *the* stable sort).
-/
namespace C2pa.C13

variable {α : Type}

theorem insertAfter_perm (key : α → Nat) (x : α) (l : List α) :
    (insertAfter key x l).Perm (x :: l) := by
  induction l with
  | nil => exact List.Perm.refl _
  | cons y ys ih =>
    unfold insertAfter
    by_cases h : key y ≤ key x
    · simp only [h, if_true]
      exact (List.Perm.cons y ih).trans (List.Perm.swap x y ys)
    · simp only [h, if_false]
      exact List.Perm.refl _

theorem foldl_insertAfter_perm (key : α → Nat) (l acc : List α) :
    (l.foldl (fun acc x => insertAfter key x acc) acc).Perm (acc ++ l) := by
  induction l generalizing acc with
  | nil => simp
  | cons x xs ih =>
    simp only [List.foldl_cons]
    refine (ih _).trans ?_
    have h1 : (insertAfter key x acc ++ xs).Perm ((x :: acc) ++ xs) :=
      List.Perm.append_right xs (insertAfter_perm key x acc)
    refine h1.trans ?_
    simp only [List.cons_append]
    exact (List.perm_middle (a := x) (l₁ := acc) (l₂ := xs)).symm

theorem stableSort_perm (key : α → Nat) (l : List α) : (stableSort key l).Perm l := by
  have := foldl_insertAfter_perm key l []
  simpa [stableSort] using this

theorem mem_stableSort (key : α → Nat) (l : List α) (x : α) : x ∈ stableSort key l ↔ x ∈ l :=
  (stableSort_perm key l).mem_iff

theorem mem_insertAfter (key : α → Nat) (x y : α) (l : List α) :
    y ∈ insertAfter key x l ↔ y = x ∨ y ∈ l := by
  rw [(insertAfter_perm key x l).mem_iff]; simp

theorem insertAfter_sorted (key : α → Nat) (x : α) (l : List α)
    (h : l.Pairwise (fun a b => key a ≤ key b)) :
    (insertAfter key x l).Pairwise (fun a b => key a ≤ key b) := by
  induction l with
  | nil => simp [insertAfter]
  | cons y ys ih =>
    unfold insertAfter
    rw [List.pairwise_cons] at h
    by_cases hk : key y ≤ key x
    · simp only [hk, if_true]
      rw [List.pairwise_cons]
      refine ⟨?_, ih h.2⟩
      intro z hz
      rcases (mem_insertAfter key x z ys).1 hz with rfl | hz
      · exact hk
      · exact h.1 z hz
    · simp only [hk, if_false]
      rw [List.pairwise_cons]
      refine ⟨?_, List.pairwise_cons.2 h⟩
      intro z hz
      rcases List.mem_cons.1 hz with rfl | hz
      · omega
      · have := h.1 z hz; omega

theorem foldl_insertAfter_sorted (key : α → Nat) (l acc : List α)
    (h : acc.Pairwise (fun a b => key a ≤ key b)) :
    (l.foldl (fun acc x => insertAfter key x acc) acc).Pairwise (fun a b => key a ≤ key b) := by
  induction l generalizing acc with
  | nil => simpa using h
  | cons x xs ih => exact ih _ (insertAfter_sorted key x acc h)

theorem stableSort_sorted (key : α → Nat) (l : List α) :
    (stableSort key l).Pairwise (fun a b => key a ≤ key b) :=
  foldl_insertAfter_sorted key l [] List.Pairwise.nil

theorem insertAfter_eq_append (key : α → Nat) (x : α) (l : List α)
    (h : ∀ y ∈ l, key y ≤ key x) : insertAfter key x l = l ++ [x] := by
  induction l with
  | nil => rfl
  | cons y ys ih =>
    unfold insertAfter
    have hy : key y ≤ key x := h y (List.mem_cons_self ..)
    simp only [hy, if_true, List.cons_append]
    rw [ih (fun z hz => h z (List.mem_cons_of_mem _ hz))]

theorem foldl_insertAfter_of_sorted (key : α → Nat) (l acc : List α)
    (h : (acc ++ l).Pairwise (fun a b => key a ≤ key b)) :
    l.foldl (fun acc x => insertAfter key x acc) acc = acc ++ l := by
  induction l generalizing acc with
  | nil => simp
  | cons x xs ih =>
    simp only [List.foldl_cons]
    have hx : ∀ y ∈ acc, key y ≤ key x := by
      intro y hy
      rw [List.pairwise_append] at h
      exact h.2.2 y hy x (List.mem_cons_self ..)
    rw [insertAfter_eq_append key x acc hx]
    have h' : ((acc ++ [x]) ++ xs).Pairwise (fun a b => key a ≤ key b) := by
      simpa using h
    rw [ih _ h']; simp

/-- on input that is already ordered by key the sort is the identity -/
theorem stableSort_of_sorted (key : α → Nat) (l : List α)
    (h : l.Pairwise (fun a b => key a ≤ key b)) : stableSort key l = l := by
  have := foldl_insertAfter_of_sorted key l [] (by simpa using h)
  simpa [stableSort] using this

theorem insertAfter_filter (key : α → Nat) (x : α) (l : List α) (k : Nat)
    (h : l.Pairwise (fun a b => key a ≤ key b)) :
    (insertAfter key x l).filter (fun a => key a == k) =
      l.filter (fun a => key a == k) ++ (if key x == k then [x] else []) := by
  induction l with
  | nil => by_cases hx : (key x == k) = true <;> simp [insertAfter, List.filter, hx]
  | cons y ys ih =>
    unfold insertAfter
    rw [List.pairwise_cons] at h
    by_cases hk : key y ≤ key x
    · simp only [hk, if_true, List.filter_cons]
      rw [ih h.2]
      by_cases hy : (key y == k) = true <;> simp [hy]
    · simp only [hk, if_false]
      -- every element of y :: ys has key > key x, so none of them equals k when key x = k
      by_cases hx : (key x == k) = true
      · have hxk : key x = k := by simpa using hx
        have hnone : (y :: ys).filter (fun a => key a == k) = [] := by
          rw [List.filter_eq_nil_iff]
          intro z hz
          rcases List.mem_cons.1 hz with rfl | hz
          · simp; omega
          · have := h.1 z hz; simp; omega
        rw [List.filter_cons, hx, if_pos rfl, hnone]; simp
      · have hx' : (key x == k) = false := by simpa using hx
        rw [List.filter_cons, hx']; simp

theorem foldl_insertAfter_filter (key : α → Nat) (l acc : List α) (k : Nat)
    (h : acc.Pairwise (fun a b => key a ≤ key b)) :
    (l.foldl (fun acc x => insertAfter key x acc) acc).filter (fun a => key a == k) =
      acc.filter (fun a => key a == k) ++ l.filter (fun a => key a == k) := by
  induction l generalizing acc with
  | nil => simp
  | cons x xs ih =>
    simp only [List.foldl_cons]
    rw [ih _ (insertAfter_sorted key x acc h), insertAfter_filter key x acc k h, List.filter_cons]
    by_cases hx : (key x == k) = true <;> simp [hx]

/-- stability: entries with equal key keep their input order -/
theorem stableSort_stable (key : α → Nat) (l : List α) (k : Nat) :
    (stableSort key l).filter (fun a => key a == k) = l.filter (fun a => key a == k) := by
  have := foldl_insertAfter_filter key l [] k List.Pairwise.nil
  simpa [stableSort] using this

end C2pa.C13
