import C2paModel.Lemmas.C40Eval
import C2paModel.Gen.C40Sites
/-
C40 — synchronous and asynchronous APIs behave identically.

Statement: for every operation offered in both forms, running the asynchronous form on the
same inputs, settings and signer yields the same outcome.

Every such pair in sdk/src is ONE body expanded twice by `#[async_generic]`; the two
expansions differ exactly at the `if _sync {A} else {B}` sites. The theorems:

* `twins_equal` — for every program (any shape: sequences, branches, loops, early returns,
  nested sites, calls of other generic functions to any depth), every interpretation of the
  shared steps and every state: if every site is a twin site (the async arm erases to the sync
  arm) in the body and in every generic callee body, and the *primitive* callee pairs (the
  signer / resolver / validator trait methods the caller supplies in two forms) agree, the
  two expansions compute the same result with the same fuel.
* `nontwin_can_differ`, `leaf_disagreement_can_differ` — both hypotheses are needed (proved
  witnesses: an arm that skips a step; a callee pair that disagrees).
* `all_sites_twins_or_listed` — the table of all sites of the *current source*, regenerated on
  every run, re-decided by the kernel with `related`: every site is a twin or is one of six
  reviewed sites, each of which must satisfy its own (weaker, still token-exact) relation.
* `settings_projection_safe` + `sign_claim_settings_disjoint` — the one reviewed site whose
  arms pass different *values* (`adjusted_settings` vs `settings` into `cose_sign`): the callee
  reads only fields in which the two do not differ.
* `all_signatures_flavoured_only`, `inventory_complete` (the inventory of attributed functions
  equals an independent raw-text count; every site belongs to a listed function).
* `required_pairs_generic` — the operations the statement names are macro-generated pairs;
  `hand_pairs_reviewed`, `cross_scope_reviewed`, `async_orphans_reviewed` — every hand-written
  `fn X_async` of the source is accounted for (token-twin bodies re-decided by the kernel, or
  a differential of the harness named by the entry); `all_async_callees_known` — every
  `_async` callee of an async arm is one of those or a generic function.
* `all_async_arms_await_balanced` — no async arm (and no hand-written twin body) creates a future
  without awaiting it on the spot (`unawaited_future_is_token_twin`: the hole it closes).
* `verify_cose_flavours_agree` + `verify_cose_matches_table` — `twins_equal` instantiated with
  a real SDK function whose program is tied to its rows of the regenerated table.
-/
namespace C2pa.C40

/-! ### The expansion theorem -/

/-- Every modelled body has only twin sites. -/
def EnvTwins (env : Nat → Option Prog) : Prop := ∀ n body, env n = some body → twins body = true

/-- Primitive callee pairs (no modelled body) agree as functions of the state. -/
def LeafAgree {σ ε : Type} (env : Nat → Option Prog) (I : Interp σ ε) : Prop :=
  ∀ n, env n = none → I.sync n = I.async n

theorem twins_upTo {σ ε : Type} (env : Nat → Option Prog) (I : Interp σ ε)
    (henv : EnvTwins env) (hleaf : LeafAgree env I) :
    ∀ F p, twins p = true → EqUpTo env I F .sync p .async p := by
  intro F
  induction F using Nat.strongRecOn with
  | _ F ihF =>
    have hc : CalleesAgree env I F :=
      ⟨hleaf, fun f hf n body hn s => ihF f hf body (henv n body hn) f (Nat.le_refl f) s⟩
    intro p
    induction p with
    | skip => intro _; exact eq_atom_skip env I
    | prim => intro _; exact eq_atom_prim env I
    | leaf => intro _; exact eq_atom_leaf env I
    | leafA => intro _; exact eq_atom_leafA env I
    | ret => intro _; exact eq_atom_ret env I
    | seq p q ihp ihq =>
      intro h; simp [twins] at h; exact eq_seq env I (ihp h.1) (ihq h.2)
    | ite c p q ihp ihq =>
      intro h; simp [twins] at h; exact eq_ite env I (ihp h.1) (ihq h.2)
    | loop c p ih => intro h; simp [twins] at h; exact eq_loop env I (ih h)
    | site a b _ _ =>
      intro h
      have hab : erase (expand .async b) = expand .sync a := by simpa [twins] using h
      -- sync run of the site = sync run of `expand sync a` = … of `erase (expand async b)`
      have h1 : EqUpTo env I F .sync (.site a b) .sync (expand .sync a) :=
        eq_trans env I (eq_site_sync env I) (eq_expand env I F .sync a)
      have h2 : EqUpTo env I F .sync (erase (expand .async b)) .sync (expand .async b) :=
        eq_erase env I F .sync hc _ (noSite_expand .async b)
      have h3 : EqUpTo env I F .sync (expand .async b) .async (expand .async b) :=
        eq_noSite env I F .sync .async _ (noSite_expand .async b)
      have h4 : EqUpTo env I F .async (expand .async b) .async (.site a b) :=
        eq_symm env I (eq_trans env I (eq_site_async env I) (eq_expand env I F .async b))
      rw [← hab] at h1
      exact eq_trans env I (eq_trans env I (eq_trans env I h1 h2) h3) h4

/-- **Twin sites ⇒ equal expansions.** For all programs, environments of generic callees,
interpretations, fuel and states. -/
theorem twins_equal {σ ε : Type} (env : Nat → Option Prog) (I : Interp σ ε)
    (henv : EnvTwins env) (hleaf : LeafAgree env I) (p : Prog) (hp : twins p = true)
    (fuel : Nat) (s : σ) :
    evalF env I fuel .sync p s = evalF env I fuel .async p s :=
  twins_upTo env I henv hleaf fuel p hp fuel (Nat.le_refl fuel) s

/-- The macro's desugaring is what is evaluated (both flavours): `expand` removes every site. -/
theorem expansion_sound {σ ε : Type} (env : Nat → Option Prog) (I : Interp σ ε) (fl : Flavour)
    (p : Prog) (fuel : Nat) (s : σ) :
    evalF env I fuel fl p s = evalF env I fuel fl (expand fl p) s ∧ noSite (expand fl p) = true :=
  ⟨eq_expand env I fuel fl p fuel (Nat.le_refl fuel) s, noSite_expand fl p⟩

/-- The twin hypothesis is needed: a site whose sync arm skips a step the async arm performs
(the shape of "one flavour skips a check") makes the two forms differ. -/
theorem nontwin_can_differ :
    ∃ (p : Prog) (s : TState), twins p = false ∧
      evalF testEnv tInterp 8 .sync p s ≠ evalF testEnv tInterp 8 .async p s :=
  ⟨.seq (.prim 0) (.seq (.site .skip (.prim 9)) (.prim 2)),
   { trace := [], conds := 0, ctr := 0, failAt := some 9 }, by decide, by
     simp [evalF, tInterp, tstep, C2pa.C40.ofExcept]⟩

/-- The leaf hypothesis is needed: with a twin site but a callee pair that disagrees
(non-equivalent sync/async signers) the two forms differ. -/
theorem leaf_disagreement_can_differ :
    ∃ (p : Prog) (s : TState), twins p = true ∧
      evalF (fun _ => none) tInterp 8 .sync p s ≠ evalF (fun _ => none) tInterp 8 .async p s :=
  ⟨.site (.leaf 1) (.leafA 1), { trace := [], conds := 0, ctr := 0, failAt := none }, by decide, by
     simp [evalF, tInterp, tstep, C2pa.C40.ofExcept]⟩

/-! ### The table of the current source -/

/-- Sites whose arms are not literal twins, reviewed one by one. Each must still satisfy the
relation of its kind (checked by the kernel below); any other edit of these sites, and any
new non-twin site, fails `all_sites_twins_or_listed`. -/
def reviewed : List Reviewed := [
  -- `self.maybe_add_timestamp(..)?;` vs `self.maybe_add_timestamp_async(..).await?` (unit value)
  { file := "builder.rs", fn := "sign", idx := 0, kind := .unitSemi },
  -- `ctx.signer()?` vs `ctx.async_signer()?`: the caller-supplied signer of each flavour
  { file := "builder.rs", fn := "save_to_stream", idx := 0, kind := .flavouredName },
  -- `SignerWrapper(signer)` vs `AsyncSignerWrapper(signer)`: forwarding adapters
  { file := "cose_sign.rs", fn := "cose_sign", idx := 0, kind := .flavouredName },
  -- `signer.sign(&tbs)?` vs `signer.sign(tbs).await?`
  { file := "crypto/cose/sign.rs", fn := "sign_v1", idx := 2, kind := .argMode },
  { file := "crypto/cose/sign.rs", fn := "sign_v2_embedded", idx := 1, kind := .argMode },
  -- `cose_sign(.., &adjusted_settings)` vs `cose_sign_async(.., settings)`
  { file := "store.rs", fn := "sign_claim", idx := 0, kind := .settingsProj }
]

theorem chunks_covered :
    Gen.siteChunks.all (fun ch => ch.all (fun s => s.coveredBy reviewed)) = true := by
  decide +kernel

/-- **Every `if _sync` site of the current source is a twin site or a reviewed one.** -/
theorem all_sites_twins_or_listed : Gen.sites.all (fun s => s.coveredBy reviewed) = true := by
  have h := chunks_covered
  simp only [List.all_eq_true] at h ⊢
  intro s hs
  obtain ⟨ch, hch, hsch⟩ := List.mem_flatten.1 hs
  exact h ch hch s hsch

/-- Every reviewed entry is in use (no stale exception). -/
theorem reviewed_all_used :
    reviewed.all (fun r => Gen.siteChunks.any (fun ch => ch.any (fun s =>
      r.file == s.file && r.fn == s.fn && r.idx == s.idx && !s.isTwin))) = true := by
  decide +kernel

/-- Every site belongs to a function of the inventory. -/
theorem sites_in_inventory :
    Gen.siteChunks.all (fun ch => ch.all (fun s =>
      Gen.functions.any (fun f => f.1 == s.file && f.2.1 == s.fn))) = true := by
  decide +kernel

/-- The operations the property statement names (and the internal pairs they are made of) are
**macro-generated** pairs of non-test code. Removing `#[async_generic]` from one of them and
writing two bodies by hand fails this (and the hand-written pair must then pass
`hand_pairs_reviewed`). -/
theorem required_pairs_generic : requiredPairs.all (isGeneric Gen.functions) = true := by
  decide +kernel

/-- Every `_sync` token of sdk/src is one of the parsed sites (no `_async` conditions exist: the
translator fails closed on them); the list of attributed functions found by the lexer-based
scan has as many entries as there are `#[async_generic` attribute lines in the raw text
(independent scan; the harness repeats it a third time in Rust: request `inv`); every site lies
in a listed function; every required pair is present. -/
theorem inventory_complete :
    (Gen.siteChunks.map List.length).sum = Gen.syncTokenCount ∧ 0 < Gen.syncTokenCount ∧
      Gen.functions.length = Gen.functionCount ∧ Gen.functionCount = Gen.attrScanCount ∧
      requiredPairs.length ≤ Gen.functionCount ∧
      requiredPairs.all (isGeneric Gen.functions) = true ∧
      Gen.sites.all (fun s => Gen.functions.any (fun f => f.1 == s.file && f.2.1 == s.fn)) = true := by
  refine ⟨by decide +kernel, by decide +kernel, by decide +kernel, by decide +kernel,
    by decide +kernel, required_pairs_generic, ?_⟩
  have h := sites_in_inventory
  simp only [List.all_eq_true] at h ⊢
  intro s hs
  obtain ⟨ch, hch, hsch⟩ := List.mem_flatten.1 hs
  exact h ch hch s hsch

/-! ### Hand-written pairs -/

/-- **Every hand-written `fn X_async` with a sibling `fn X`** (non-test code) is a reviewed
entry and satisfies the relation of its kind, re-decided by the kernel on the regenerated
bodies: token-twin and await-balanced bodies (`X509SignatureVerifier`, `BuiltInSignatureVerifier`,
`IcaSignatureVerifier::check_signature(_async)`, `did_web::resolve(_async)`), a bodiless trait
declaration, a plain `fn` accessor of the asynchronous slot, or a pair with different bodies
that a named harness differential compares (`Ingredient::from_stream(_async)`). A new
hand-written pair, or an edit that makes two twin bodies diverge, fails this. -/
theorem hand_pairs_reviewed : Gen.handPairs.all (fun p => p.covered reviewedHand) = true := by
  decide +kernel

theorem reviewed_hand_all_used :
    reviewedHand.all (fun r => Gen.handPairs.any (fun p =>
      !p.test && r.file == p.file && r.fn == p.fn && r.idx == p.idx)) = true := by
  decide +kernel

/-- `fn X_async` / `fn X` in different scopes of one file are the `SyncHttpResolver` /
`AsyncHttpResolver` method pairs only. -/
theorem cross_scope_reviewed :
    Gen.crossScope.all (fun c => c.2.2 || reviewedCross.contains (c.1, c.2.1)) = true := by
  decide +kernel

/-- `fn X_async` without any `fn X` (non-test code) are the three reviewed deprecated
`Ingredient` constructors. -/
theorem async_orphans_reviewed :
    Gen.asyncOrphans.all (fun c => c.2.2 || reviewedOrphans.any (fun r => r.1 == c.1 && r.2.1 == c.2.1)) = true := by
  decide +kernel

/-- a callee name is accounted for: a generic function, a hand-written pair, a trait pair or a
reviewed orphan -/
def knownCallee (c : String) : Bool :=
  Gen.functions.any (fun f => f.2.1 == c) || Gen.handPairs.any (fun p => p.fn == c && !p.test) ||
    Gen.crossScope.any (fun x => x.2.1 == c && !x.2.2) || Gen.asyncOrphans.any (fun x => x.2.1 == c && !x.2.2)

theorem chunks_callees_known :
    Gen.siteChunks.all (fun ch => ch.all (fun s => (asyncCallees s.asyncArm).all knownCallee)) = true := by
  decide +kernel

/-- **The callee pairs are enumerated**: every `_async` function an async arm (or a hand-written
twin body) calls is a generic function (its own sites are in the table), a reviewed hand-written
pair, or a method of the resolver trait pair. There is no implicit `LeafAgree` leaf with an
`_async` name. -/
theorem all_async_callees_known :
    Gen.sites.all (fun s => (asyncCallees s.asyncArm).all knownCallee) = true ∧
    Gen.handPairs.all (fun p => (asyncCallees p.asyncBody).all knownCallee) = true := by
  refine ⟨?_, by decide +kernel⟩
  have h := chunks_callees_known
  simp only [List.all_eq_true] at h ⊢
  intro s hs
  obtain ⟨ch, hch, hsch⟩ := List.mem_flatten.1 hs
  exact h ch hch s hsch

/-! ### Adapter pairs -/

/-- **Both flavours of every adapter forward the same trait methods.** For every pair
`impl T for X` / `impl AsyncT for AsyncX` of non-test code (`SignerWrapper`/`AsyncSignerWrapper`
as `CoseSigner` and as `TimeStampProvider`, `Box<T>` as `Signer`, `CallbackSigner`, the resolver
stacks, the identity assertion builders, the X.509 credential holders) the two `impl` blocks
define the same set of methods: none is overridden in one flavour and left to the trait's
default body in the other. -/
theorem adapter_pairs_forward_same_methods :
    Gen.implPairs.all (fun p => p.test || p.syncMethods == p.asyncMethods) = true := by
  decide +kernel

/-- … and each common method has token-twin, await-balanced bodies, or is one of three reviewed
methods bound to its own relation. -/
theorem adapter_methods_twin_or_reviewed :
    Gen.implPairs.all (fun p => p.test || p.methodsOk) = true := by
  decide +kernel

theorem reviewed_methods_all_used :
    reviewedMethods.all (fun r => Gen.implPairs.any (fun p => !p.test && p.traitName == r.1 && p.ty == r.2.1 &&
      p.methods.any (fun m => m.name == r.2.2.1 && !m.ok none))) = true := by
  decide +kernel

/-- the adapters the signing path goes through are in the table (so the two theorems above are
about them) -/
theorem signer_adapters_present :
    ([("CoseSigner", "SignerWrapper < '_ >"), ("TimeStampProvider", "SignerWrapper < '_ >"),
      ("Signer", "Box < T >"), ("Signer", "CallbackSigner")] : List (String × String)).all
      (fun k => Gen.implPairs.any (fun p => !p.test && p.traitName == k.1 && p.ty == k.2 &&
        !p.syncMethods.isEmpty)) = true := by
  decide +kernel

theorem async_only_impls_reviewed :
    Gen.asyncOnlyImpls.all (fun i => i.2.2.2 || reviewedAsyncOnly.contains (i.2.1, i.2.2.1)) = true := by
  decide +kernel

/-! ### Awaited futures -/

theorem chunks_await_balanced :
    Gen.siteChunks.all (fun ch => ch.all (fun s => awaitBalanced s.asyncArm)) = true := by
  decide +kernel

/-- **No async arm creates a future without awaiting it**: in every async arm of the current
source every call of an `_async` function (after removing `Box::pin( … )` wrappers) and every call
of a same-named `async` trait method (`flavouredMethods`) is directly followed by `.await`, and no
`async` block occurs. Together with `all_sites_twins_or_listed` an arm that normalises to the
sync arm really runs the calls it names. -/
theorem all_async_arms_await_balanced :
    Gen.sites.all (fun s => awaitBalanced s.asyncArm) = true := by
  have h := chunks_await_balanced
  simp only [List.all_eq_true] at h ⊢
  intro s hs
  obtain ⟨ch, hch, hsch⟩ := List.mem_flatten.1 hs
  exact h ch hch s hsch

/-- The hole `awaitBalanced` closes: arms that `related .twin` accepts although the future is
never driven — a missing `.await`, an un-awaited `Box::pin(..)`, an `async` block that is dropped,
and a same-named trait method without `.await`. -/
theorem unawaited_future_is_token_twin :
    (related .twin (["log", "(", "x", ")", ";"].map classify) (["log_async", "(", "x", ")", ";"].map classify) = true ∧
      awaitBalanced (["log_async", "(", "x", ")", ";"].map classify) = false) ∧
    (related .twin (["f", "(", "x", ")", ";"].map classify)
        (["Box", ":", ":", "pin", "(", "f_async", "(", "x", ")", ")", ";"].map classify) = true ∧
      awaitBalanced (["Box", ":", ":", "pin", "(", "f_async", "(", "x", ")", ")", ";"].map classify) = false) ∧
    (related .twin (["let", "_", "=", "{", "check", "(", "x", ")", "}", ";"].map classify)
        (["let", "_", "=", "async", "{", "check", "(", "x", ")", "}", ";"].map classify) = true ∧
      awaitBalanced (["let", "_", "=", "async", "{", "check", "(", "x", ")", "}", ";"].map classify) = false) ∧
    (related .twin (["let", "_", "=", "signer", ".", "sign", "(", "tbs", ")", ";"].map classify)
        (["let", "_", "=", "signer", ".", "sign", "(", "tbs", ")", ";"].map classify) = true ∧
      awaitBalanced (["let", "_", "=", "signer", ".", "sign", "(", "tbs", ")", ";"].map classify) = false) := by
  decide +kernel

/-- what `awaitBalanced` demands of an arm that starts with an `_async` call -/
theorem await_balanced_head (s : String) (r : List Tok) (hs : ¬ s ∈ syncNamedAccessors)
    (h : callsAwaited (.sfx s :: r) = true) : callAwaited r = true ∧ callsAwaited r = true := by
  simpa [callsAwaited, hs] using h

/-! ### `twins_equal` at work: `verify_cose` -/

/-- The program `verifyCoseProg` has the sites of `verify_cose` in the regenerated table: the same
number, order and nesting, and each arm calls exactly the callee pair of the program in the
flavour of the arm. -/
theorem verify_cose_matches_table :
    progMatchesTable verifyCoseCallee ["validate_cose_tst_info", "verify_signature"] verifyCoseProg
      (Gen.sites.filter (fun s => s.file == "cose_validator.rs" && s.fn == "verify_cose")) = true ∧
    (Gen.sites.filter (fun s => s.file == "cose_validator.rs" && s.fn == "verify_cose")).all
      (fun s => s.isTwin && awaitBalanced s.asyncArm) = true ∧
    isGeneric Gen.functions ("cose_validator.rs", "verify_cose") = true ∧
    isGeneric Gen.functions ("crypto/cose/sigtst.rs", "validate_cose_tst_info") = true ∧
    isGeneric Gen.functions ("crypto/cose/verifier.rs", "verify_signature") = true := by
  decide +kernel

theorem verify_cose_twins : twins verifyCoseProg = true := by decide

/-- **`verify_cose` and `verify_cose_async` compute the same result**: for every meaning of the
shared steps (verifier choice, `parse_cose_sign1`, the time-stamp override), every state, every
environment of generic callee bodies with twin sites only (`validate_cose_tst_info`,
`verify_signature` and everything below them: `all_sites_twins_or_listed`) and agreeing
primitive callee pairs. -/
theorem verify_cose_flavours_agree {σ ε : Type} (env : Nat → Option Prog) (I : Interp σ ε)
    (henv : EnvTwins env) (hleaf : LeafAgree env I) (fuel : Nat) (s : σ) :
    evalF env I fuel .sync verifyCoseProg s = evalF env I fuel .async verifyCoseProg s :=
  twins_equal env I henv hleaf verifyCoseProg verify_cose_twins fuel s

/-- What the table protects against: `verify_cose` with an async arm that skips the time-stamp
validation is not a twin program, does not match the table, and the two flavours differ. -/
theorem verify_cose_skipping_tst_differs :
    let bad : Prog := .seq (.prim 0) (.seq (.prim 1) (.seq (.ite 0 (.prim 2) (.site (.leaf 1) .skip)) (.site (.leaf 2) (.leafA 2))))
    twins bad = false ∧
    progMatchesTable verifyCoseCallee ["validate_cose_tst_info", "verify_signature"] bad
      (Gen.sites.filter (fun s => s.file == "cose_validator.rs" && s.fn == "verify_cose")) = false ∧
    ∃ s : TState, evalF (fun _ => none) { tInterp with async := tInterp.sync } 4 .sync bad s ≠
      evalF (fun _ => none) { tInterp with async := tInterp.sync } 4 .async bad s := by
  refine ⟨by decide, by decide +kernel, ⟨{ trace := [], conds := 0, ctr := 0, failAt := none }, ?_⟩⟩
  simp [evalF, tInterp, tstep, C2pa.C40.ofExcept]

/-- Every `async_signature(..)` differs from the synchronous parameter list only in flavoured
type names (`Signer`/`AsyncSigner`, `CoseSigner`/`AsyncCoseSigner`, `PostValidator`/…). -/
theorem all_signatures_flavoured_only : Gen.signatures.all Sig.isTwin = true := by
  decide +kernel

/-- The flavoured parameter types are exactly these: the things a caller supplies in two forms,
i.e. the primitive callee pairs of `LeafAgree`. -/
def flavouredTypes : List Tok :=
  [.pfA "Signer", .pfA "CoseSigner", .pfA "PostValidator", .pfA "DynamicAssertion", .pfA "HttpResolver"]

theorem flavoured_parameter_types :
    Gen.signatures.all (fun g => g.flavoured.all (fun t => flavouredTypes.contains t)) = true := by
  decide +kernel

/-! ### The `settingsProj` site -/

/-- A callee that reads only fields `R` gives the same result on the adjusted settings when
no field of `R` is overwritten. -/
theorem settings_projection_safe {α : Type} (R W : List String) (f : Settings → α)
    (hf : ReadsOnly R f) (hdis : ∀ k, k ∈ R → k ∉ W) (v s : Settings) :
    f (adjust W v s) = f s := by
  apply hf
  intro k hk
  have hk' : ¬ k ∈ W := hdis k hk
  simp [adjust, hk']

/-- In the current source `cose_sign` reads `settings` only through `signing_cert_valid`, which
reads `trust.trust_config`; `adjusted_settings` differs from `settings` in
`verify.verify_timestamp_trust` only. (Regenerated; `*` marks a use the translator cannot
classify and makes this fail.) -/
theorem sign_claim_settings_disjoint :
    (∀ k, k ∈ Gen.coseSignSettingsReads → k ∉ Gen.adjustedSettingsWrites) ∧
      ¬ "*" ∈ Gen.coseSignSettingsReads ∧ ¬ "*" ∈ Gen.adjustedSettingsWrites := by
  decide +kernel

/-- The two facts combined on the regenerated tables: whatever `cose_sign` computes from the
settings (any function that reads only the fields `cose_sign` reads in the current source) is
the same on `adjusted_settings` and on `settings`, whatever values `Store::sign_claim` writes
into the adjusted fields. -/
theorem cose_sign_sees_same_settings {α : Type} (f : Settings → α)
    (hf : ReadsOnly Gen.coseSignSettingsReads f) (v s : Settings) :
    f (adjust Gen.adjustedSettingsWrites v s) = f s :=
  settings_projection_safe Gen.coseSignSettingsReads Gen.adjustedSettingsWrites f hf
    sign_claim_settings_disjoint.1 v s

/-! ### The `flavouredName` site of `Builder::save_to_stream`: `ctx.signer()` / `ctx.async_signer()` -/

/-- Full statement for the accessor pair (false for the code as it is). -/
def AccessorsAgree : Prop := ∀ slot, ctxSigner slot = ctxAsyncSigner slot

/-- With a caller-supplied signer of each flavour the accessors agree. -/
theorem accessors_agree_partial : ctxSigner .custom = ctxAsyncSigner .custom := rfl

/-- The code falsifies the full statement: a signer that exists only in the settings is found by
the sync accessor and not by the async one (known finding `sync-async-differ:settings-signer`,
replayed on the implementation by the harness). Without signer settings both fail, with
different error kinds. -/
theorem accessors_differ_from_settings : ¬ AccessorsAgree := by
  intro h; have := h (.fromSettings true); simp [ctxSigner, ctxAsyncSigner] at this

/-! ### Non-vacuity -/
example : twins (.seq (.prim 0) (.site (.seq (.leaf 1) (.site (.leaf 2) (.leafA 3)))
    (.seq (.leafA 1) (.site (.leaf 4) (.leafA 2))))) = true := by decide
example : EnvTwins testEnv := by
  intro n body h
  unfold testEnv at h
  split at h
  · simp [testProg] at h; subst h; decide
  · simp [testProg] at h; subst h; decide
  · cases h
example : related .twin (["f", "(", "x", ",", ")", "?"].map classify)
    (["f_async", "(", "x", ")", ".", "await", "?"].map classify) = true := by
  decide +kernel
example : related .twin (["f", "(", "x", ")"].map classify)
    (["Box", ":", ":", "pin", "(", "f_async", "(", "x", ")", ")", ".", "await"].map classify) = true := by
  decide +kernel
example : related .twin (["check", "(", "x", ")", "?", ";", "f", "(", "x", ")"].map classify)
    (["f_async", "(", "x", ")", ".", "await"].map classify) = false := by
  decide +kernel
example : (Tok.sfx "with_store").text = "with_store_async" ∧ classify "with_store_async" = .sfx "with_store" := by
  decide +kernel
-- `verify_cose_flavours_agree` is not vacuous: an interpretation whose callee pairs agree, and the
-- run reaches both sites
example : LeafAgree (fun _ => none) { tInterp with async := tInterp.sync } := fun _ _ => rfl
example : EnvTwins (fun _ => none) := fun _ _ h => by cases h
example : evalF (fun _ => none) { tInterp with async := tInterp.sync } 4 .async verifyCoseProg
    { trace := [], conds := 0, ctr := 0, failAt := none } =
    some (.next { trace := ["p0", "p1", "L1", "L2"], conds := 0, ctr := 0, failAt := none }) := by
  simp [verifyCoseProg, evalF, tInterp, tstep, C2pa.C40.ofExcept]
  decide
example : awaitBalanced (["Box", ":", ":", "pin", "(", "f_async", "(", "g", "(", "x", ")", ")", ")", ".", "await", "?"].map classify) = true := by
  decide +kernel
example : awaitBalanced (["ctx", ".", "resolver_async", "(", ")", ".", "http_resolve_async", "(", "r", ")", ".", "await"].map classify) = true := by
  decide +kernel
example : ReadsOnly Gen.coseSignSettingsReads (fun s : Settings => s "trust.trust_config" + 1) := by
  intro s t h; simp [h "trust.trust_config" (by decide)]
example : ReadsOnly ["a"] (fun s : Settings => s "a" + 1) := by
  intro s t h; simp [h "a" (by simp)]

end C2pa.C40
