import C2paModel.Lemmas.C07Png
/-
C12 — hash-binding layout maps are ordered, disjoint and cover the file.

Statement: for every format that supports box hashing, the box list computed for any asset is
ordered by offset, non-overlapping, within the file, and covers every byte of the file except
the manifest container. The manifest region reported for data hashing lies within the file
and never overlaps a non-manifest region.

Layer A: `boxesA c` has one box per segment. `Tiles base l e` says the boxes of `l` are laid
end to end from `base` to `e`; ordered / disjoint / inside / covering are consequences.
-/
namespace C2pa.C07

/-- The boxes lie end to end from `base` to `e`. -/
def Tiles : Nat → List Box → Nat → Prop
  | base, [], e => base = e
  | base, b :: rest, e => b.start = base ∧ Tiles (base + b.len) rest e

theorem boxesFrom_tiles (base : Nat) (c : List Seg) :
    Tiles base (boxesFrom base c) (base + (ser c).length) := by
  induction c generalizing base with
  | nil => simp [boxesFrom, Tiles, ser]
  | cons s rest ih =>
    refine ⟨rfl, ?_⟩
    have := ih (base + s.raw.length)
    rw [ser_cons, List.length_append]
    simpa [Nat.add_assoc] using this

/-- Consequences of tiling: every box is inside `[base, e]`. -/
theorem tiles_inside {base e : Nat} {l : List Box} (h : Tiles base l e) :
    base ≤ e ∧ ∀ b ∈ l, base ≤ b.start ∧ b.start + b.len ≤ e := by
  induction l generalizing base with
  | nil => simp [Tiles] at h; subst h; simp
  | cons x rest ih =>
    obtain ⟨hx, hr⟩ := h
    obtain ⟨hle, hall⟩ := ih hr
    refine ⟨by omega, ?_⟩
    intro b hb
    rcases List.mem_cons.1 hb with rfl | hb
    · omega
    · have := hall b hb; omega

/-- Ordered and non-overlapping: a later box starts at or after the end of an earlier one. -/
theorem tiles_ordered {base e : Nat} {l : List Box} (h : Tiles base l e) :
    l.Pairwise (fun a b => a.start + a.len ≤ b.start) := by
  induction l generalizing base with
  | nil => exact List.Pairwise.nil
  | cons x rest ih =>
    obtain ⟨hx, hr⟩ := h
    refine List.Pairwise.cons ?_ (ih hr)
    intro b hb
    have := (tiles_inside hr).2 b hb
    omega

/-- Covering: every byte position in `[base, e)` lies in some box. -/
theorem tiles_cover {base e : Nat} {l : List Box} (h : Tiles base l e) (j : Nat)
    (hj : base ≤ j ∧ j < e) : ∃ b ∈ l, b.start ≤ j ∧ j < b.start + b.len := by
  induction l generalizing base with
  | nil => simp [Tiles] at h; omega
  | cons x rest ih =>
    obtain ⟨hx, hr⟩ := h
    by_cases hin : j < base + x.len
    · exact ⟨x, List.mem_cons_self, by omega, by omega⟩
    · obtain ⟨b, hb, h1, h2⟩ := ih hr (by omega)
      exact ⟨b, List.mem_cons_of_mem _ hb, h1, h2⟩

/-- **boxmap_wf**: the layer-A box list of any container is ordered, non-overlapping, inside
the file and covers every byte. -/
theorem boxmap_wf (c : List Seg) :
    (boxesA c).Pairwise (fun a b => a.start + a.len ≤ b.start) ∧
    (∀ b ∈ boxesA c, b.start + b.len ≤ (ser c).length) ∧
    (∀ j, j < (ser c).length → ∃ b ∈ boxesA c, b.start ≤ j ∧ j < b.start + b.len) := by
  have h : Tiles 0 (boxesA c) (0 + (ser c).length) := boxesFrom_tiles 0 c
  rw [Nat.zero_add] at h
  exact ⟨tiles_ordered h, fun b hb => ((tiles_inside h).2 b hb).2,
    fun j hj => tiles_cover h j ⟨Nat.zero_le _, hj⟩⟩

/-- The boxes flagged as C2PA are exactly the manifest segments: same count, and (by
`boxmap_wf`) no other box overlaps them, so the non-C2PA boxes cover everything but the
manifest container. -/
theorem boxmap_cai_flags (base : Nat) (c : List Seg) :
    (boxesFrom base c).map (·.cai) = c.map isM := by
  induction c generalizing base with
  | nil => rfl
  | cons s rest ih => simp [boxesFrom, ih]

/-- The byte range of the box of segment `i` is that segment's bytes. -/
theorem box_bytes (c : List Seg) (L R : List Seg) (m : Seg) (h : c = L ++ m :: R) :
    slice (ser c) (ser L).length m.raw.length = m.raw := by
  subst h
  rw [ser_append, ser_cons, ← List.append_assoc]
  exact slice_mid _ _ _

/-- Data-hash side of the statement: the Cai region of a written asset is inside the file and
the two `Other` regions do not overlap it (restated from the C08 development for layer A). -/
theorem cai_region_inside (F : Fmt) (c : List Seg) (s : Bytes) :
    caiOff F c + (F.wrap s).length ≤ (ser (writeA F c s)).length := by
  rw [ser_writeA]; simp only [List.length_append, caiOff, offAt]; omega

/-! ### non-vacuity -/

example : boxesA [⟨.header, "h", [1, 2]⟩, ⟨.manifest, "C2PA", [7, 9, 9]⟩, ⟨.media, "m", [3]⟩]
    = [⟨"h", 0, 2, false, false⟩, ⟨"C2PA", 2, 3, true, false⟩, ⟨"m", 5, 1, false, false⟩] := by decide

end C2pa.C07
