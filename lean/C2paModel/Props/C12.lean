import C2paModel.Lemmas.C07PngBox
/-
C12 — hash-binding layout maps are ordered, disjoint and cover the file.

Statement: for every format that supports box hashing, the box list computed for any asset is
ordered by offset, non-overlapping, within the file, and covers every byte of the file except
the manifest container. The manifest region reported for data hashing lies within the file
and never overlaps a non-manifest region.

This file has two clearly separated parts.

**Specification part** (`boxesA`, `boxesFrom`, `Tiles`, `boxmap_wf`, `boxmap_cai_flags`,
`box_bytes`). `boxesA c` is the *specification* map of a layer-A container `c`: what a correct
box map looks like — one box per segment, *including* a box for data that trails the last
structural element. `Tiles base l e` says the boxes of `l` are laid end to end from `base` to
`e`; ordered / disjoint / inside / covering are consequences. These theorems say that the
specification is consistent (such a map exists and has all four properties). They are **not**
statements about the implementation: nothing in them mentions a handler's `get_box_map`.

**Implementation part** (`png_boxmap_wf`, `png_boxmap_cover_iff`, `png_boxmap_partial`,
`png_boxmap_covers_file_false`, `png_boxmap_c2pa_exact`, `png_boxmap_vs_spec`,
`sidecar_boxmap`). These are about `Png.boxMap` / `Sidecar.boxMap`, the byte-exact models of
`PngIO::get_box_map` / `C2paIO::get_box_map` (compared with the real code on every run by the
differential harness), and hold for *all* byte lists. For PNG the result is: the map tiles
`[0, end of IEND)`; it is ordered, non-overlapping and inside the file; it covers the whole
file **iff** nothing follows IEND. The coverage clause of C12 is therefore *false* for the
implementation as it is (`png_boxmap_covers_file_false`, open finding `boxmap-trailing-png`):
bytes after IEND are in no box, so they are not bound by a box hash. `png_boxmap_vs_spec`
states the exact difference between the implementation's map and the specification map: the
box of the trailing data (and the zero-length excluded placeholder, which covers nothing).
-/
namespace C2pa.C07

/-! ## the specification map `boxesA` (not tied to the implementation) -/

/-- The boxes lie end to end from `base` to `e`. -/
def Tiles : Nat → List Box → Nat → Prop
  | base, [], e => base = e
  | base, b :: rest, e => b.start = base ∧ Tiles (base + b.len) rest e

/-- *Specification map only.* The specification boxes of a segment list tile
`[base, base + |ser c|)`. Not a statement about any handler's `get_box_map`; for the
implementation see `png_boxmap_wf`. -/
theorem boxesFrom_tiles (base : Nat) (c : List Seg) :
    Tiles base (boxesFrom base c) (base + (ser c).length) := by
  induction c generalizing base with
  | nil => simp [boxesFrom, Tiles, ser]
  | cons s rest ih =>
    refine ⟨rfl, ?_⟩
    have := ih (base + s.raw.length)
    rw [ser_cons, List.length_append]
    simpa [Nat.add_assoc] using this

/-- Consequences of tiling: every box is inside `[base, e]`. -/
theorem tiles_inside {base e : Nat} {l : List Box} (h : Tiles base l e) :
    base ≤ e ∧ ∀ b ∈ l, base ≤ b.start ∧ b.start + b.len ≤ e := by
  induction l generalizing base with
  | nil => simp [Tiles] at h; subst h; simp
  | cons x rest ih =>
    obtain ⟨hx, hr⟩ := h
    obtain ⟨hle, hall⟩ := ih hr
    refine ⟨by omega, ?_⟩
    intro b hb
    rcases List.mem_cons.1 hb with rfl | hb
    · omega
    · have := hall b hb; omega

/-- Ordered and non-overlapping: a later box starts at or after the end of an earlier one. -/
theorem tiles_ordered {base e : Nat} {l : List Box} (h : Tiles base l e) :
    l.Pairwise (fun a b => a.start + a.len ≤ b.start) := by
  induction l generalizing base with
  | nil => exact List.Pairwise.nil
  | cons x rest ih =>
    obtain ⟨hx, hr⟩ := h
    refine List.Pairwise.cons ?_ (ih hr)
    intro b hb
    have := (tiles_inside hr).2 b hb
    omega

/-- Covering: every byte position in `[base, e)` lies in some box. -/
theorem tiles_cover {base e : Nat} {l : List Box} (h : Tiles base l e) (j : Nat)
    (hj : base ≤ j ∧ j < e) : ∃ b ∈ l, b.start ≤ j ∧ j < b.start + b.len := by
  induction l generalizing base with
  | nil => simp [Tiles] at h; omega
  | cons x rest ih =>
    obtain ⟨hx, hr⟩ := h
    by_cases hin : j < base + x.len
    · exact ⟨x, List.mem_cons_self, by omega, by omega⟩
    · obtain ⟨b, hb, h1, h2⟩ := ih hr (by omega)
      exact ⟨b, List.mem_cons_of_mem _ hb, h1, h2⟩

/-- **boxmap_wf** (*specification map only*): the specification map `boxesA c` — one box per
segment of the container, trailing data included — is ordered, non-overlapping, inside the
file and covers every byte. This shows that the C12 requirements are satisfiable by a map of
this shape; it says nothing about what the implementation computes. The implementation's PNG
map satisfies the first three clauses but not the fourth: `png_boxmap_partial`,
`png_boxmap_covers_file_false`. -/
theorem boxmap_wf (c : List Seg) :
    (boxesA c).Pairwise (fun a b => a.start + a.len ≤ b.start) ∧
    (∀ b ∈ boxesA c, b.start + b.len ≤ (ser c).length) ∧
    (∀ j, j < (ser c).length → ∃ b ∈ boxesA c, b.start ≤ j ∧ j < b.start + b.len) := by
  have h : Tiles 0 (boxesA c) (0 + (ser c).length) := boxesFrom_tiles 0 c
  rw [Nat.zero_add] at h
  exact ⟨tiles_ordered h, fun b hb => ((tiles_inside h).2 b hb).2,
    fun j hj => tiles_cover h j ⟨Nat.zero_le _, hj⟩⟩

/-- *Specification map only.* In `boxesA` the boxes flagged as C2PA are exactly the manifest
segments: same count, and (by `boxmap_wf`) no other box overlaps them, so the non-C2PA boxes
cover everything but the manifest container. Which boxes the implementation flags is
`png_boxmap_c2pa_exact`. -/
theorem boxmap_cai_flags (base : Nat) (c : List Seg) :
    (boxesFrom base c).map (·.cai) = c.map isM := by
  induction c generalizing base with
  | nil => rfl
  | cons s rest ih => simp [boxesFrom, ih]

/-- *Specification map only.* The byte range of the specification box of a segment is that
segment's bytes. -/
theorem box_bytes (c : List Seg) (L R : List Seg) (m : Seg) (h : c = L ++ m :: R) :
    slice (ser c) (ser L).length m.raw.length = m.raw := by
  subst h
  rw [ser_append, ser_cons, ← List.append_assoc]
  exact slice_mid _ _ _

/-! ## the implementation: `Png.boxMap` (byte-exact model of `PngIO::get_box_map`) -/

/-- Tilings compose. -/
theorem tiles_append {a m e : Nat} {l₁ l₂ : List Box} (h₁ : Tiles a l₁ m) (h₂ : Tiles m l₂ e) :
    Tiles a (l₁ ++ l₂) e := by
  induction l₁ generalizing a with
  | nil => have : a = m := h₁; subst this; exact h₂
  | cons x r ih => exact ⟨h₁.1, ih h₁.2⟩

/-- The boxes of one chunk (its own box of length `length + 12`, possibly followed by the
zero-length placeholder at its end) tile the chunk's byte range. -/
theorem Png.boxOf_tiles (has : Bool) (c : Png.Chunk) : Tiles c.start (Png.boxOf has c) c.fin := by
  unfold Png.boxOf
  by_cases h1 : (c.name == Png.caBX) = true
  · rw [if_pos h1]
    exact ⟨rfl, by show c.start + (c.length + 12) = c.fin; simp [Png.Chunk.fin]; omega⟩
  · rw [if_neg h1]
    by_cases h2 : (!has && c.name == Png.IHDR) = true
    · simp only [h2, if_true]
      refine ⟨rfl, ?_, ?_⟩
      · show c.fin = c.start + (c.length + 12); simp [Png.Chunk.fin]; omega
      · show c.start + (c.length + 12) + 0 = c.fin; simp [Png.Chunk.fin]; omega
    · simp only [h2]
      exact ⟨rfl, by show c.start + (c.length + 12) = c.fin; simp [Png.Chunk.fin]; omega⟩

/-- Chunks lying end to end from `pos` to `fin` give boxes lying end to end from `pos` to `fin`. -/
theorem Png.chunkBoxes_tiles (b : Bytes) (has : Bool) : ∀ (ps : List Png.Chunk) (pos fin : Nat),
    Png.ChunksTile b pos ps fin → Tiles pos (ps.flatMap (Png.boxOf has)) fin
  | [], pos, fin, h => by have : pos = fin := h; subst this; exact rfl
  | c :: r, pos, fin, h => by
    obtain ⟨h1, _, h3⟩ := h
    rw [List.flatMap_cons, ← h1]
    exact tiles_append (Png.boxOf_tiles has c) (Png.chunkBoxes_tiles b has r _ _ h3)

/-- The implementation's map tiles `[0, end of IEND)`. -/
theorem png_boxmap_tiles (b : Bytes) (l : List Box) (ps : List Png.Chunk)
    (h : Png.boxMap b = some l) (hc : Png.chunks b = some ps) : Tiles 0 l (Png.finOf ps) := by
  rw [Png.boxMap_eq b ps hc] at h
  injection h with h; subst h
  obtain ⟨ht, _⟩ := Png.chunks_tile b ps hc
  exact ⟨rfl, Png.chunkBoxes_tiles b _ ps _ _ ht⟩

/-- **png_boxmap_wf** (implementation, all byte lists): whenever `get_box_map` succeeds, the
chunk walk succeeded with some `ps`, and the returned list (PNGh box, one box per chunk, and
the zero-length excluded C2PA placeholder after IHDR when there is no caBX chunk) tiles
`[0, Png.finOf ps)` where `Png.finOf ps` is the end of IEND; hence it is ordered,
non-overlapping and inside the file. Nothing is said about bytes from `Png.finOf ps` on:
see `png_boxmap_cover_iff`. -/
theorem png_boxmap_wf (b : Bytes) (l : List Box) (h : Png.boxMap b = some l) :
    ∃ ps, Png.chunks b = some ps ∧ Tiles 0 l (Png.finOf ps) ∧ 8 < Png.finOf ps ∧
      Png.finOf ps ≤ b.length ∧ l.Pairwise (fun x y => x.start + x.len ≤ y.start) ∧
      (∀ x ∈ l, x.start + x.len ≤ b.length) := by
  obtain ⟨ps, hc⟩ := Png.chunks_of_boxMap b l h
  have ht := png_boxmap_tiles b l ps h hc
  obtain ⟨_, h20, hf, _, _⟩ := Png.chunks_tile b ps hc
  refine ⟨ps, hc, ht, by omega, hf, tiles_ordered ht, ?_⟩
  intro x hx
  have := ((tiles_inside ht).2 x hx).2
  omega

/-- **png_boxmap_cover_iff** (implementation, all byte lists): the map covers every byte of
the file exactly when nothing follows IEND. -/
theorem png_boxmap_cover_iff (b : Bytes) (l : List Box) (ps : List Png.Chunk)
    (h : Png.boxMap b = some l) (hc : Png.chunks b = some ps) :
    (∀ j, j < b.length → ∃ x ∈ l, x.start ≤ j ∧ j < x.start + x.len) ↔
      b.drop (Png.finOf ps) = [] := by
  have ht := png_boxmap_tiles b l ps h hc
  obtain ⟨_, _, hf, _, _⟩ := Png.chunks_tile b ps hc
  rw [List.drop_eq_nil_iff]
  constructor
  · intro hcov
    apply Classical.byContradiction
    intro hn
    obtain ⟨x, hx, h1, h2⟩ := hcov (Png.finOf ps) (by omega)
    have := ((tiles_inside ht).2 x hx).2
    omega
  · intro hle j hj
    exact tiles_cover ht j ⟨Nat.zero_le _, by omega⟩

/-- The full coverage clause of C12 for the PNG handler: every byte of every file that has a
box map lies in some box. -/
def PngBoxMapCoversFile : Prop :=
  ∀ (b : Bytes) (l : List Box), Png.boxMap b = some l →
    ∀ j, j < b.length → ∃ x ∈ l, x.start ≤ j ∧ j < x.start + x.len

/-- The minimal PNG (signature, empty IHDR, empty IEND) followed by one byte: 33 bytes. -/
def pngTrailingWitness : Bytes :=
  Png.sig ++ Png.mkChunk Png.IHDR [] ++ Png.mkChunk Png.IEND [] ++ [0]

set_option maxRecDepth 8192 in
/-- The witness spelled out (the chunk CRCs are the real CRC-32 values). -/
theorem pngTrailingWitness_eq : pngTrailingWitness =
    [137, 80, 78, 71, 13, 10, 26, 10, 0, 0, 0, 0, 73, 72, 68, 82, 168, 161, 174, 10,
     0, 0, 0, 0, 73, 69, 78, 68, 174, 66, 96, 130, 0] := by decide

/-- The implementation's map of the witness ends at 32 = end of IEND. -/
theorem pngTrailingWitness_boxMap :
    Png.boxMap pngTrailingWitness = some
      [⟨"PNGh", 0, 8, false, false⟩, ⟨"IHDR", 8, 12, false, false⟩,
       ⟨"C2PA", 20, 0, true, true⟩, ⟨"IEND", 20, 12, false, false⟩] := by
  rw [pngTrailingWitness_eq]; decide

/-- **The coverage clause is false for the implementation as it is.** Witness: byte 32 of
`pngTrailingWitness` (the byte after IEND) is in no box. The witness class (valid PNG + data
after IEND) is replayed on the real `PngIO::get_box_map` by the harness generator's
trailing-data variants; known open finding `boxmap-trailing-png`. -/
theorem png_boxmap_covers_file_false : ¬ PngBoxMapCoversFile := by
  intro h
  exact absurd (h _ _ pngTrailingWitness_boxMap 32 (by rw [pngTrailingWitness_eq]; decide))
    (by decide)

/-- **What does hold for the implementation**: for every file with a box map, the map is
ordered, non-overlapping, inside the file, covers every byte before the end of IEND — and
covers no byte from the end of IEND on. -/
theorem png_boxmap_partial (b : Bytes) (l : List Box) (ps : List Png.Chunk)
    (h : Png.boxMap b = some l) (hc : Png.chunks b = some ps) :
    l.Pairwise (fun x y => x.start ≤ y.start) ∧
    l.Pairwise (fun x y => x.start + x.len ≤ y.start) ∧
    (∀ x ∈ l, x.start + x.len ≤ b.length) ∧
    Png.finOf ps ≤ b.length ∧
    (∀ j, j < Png.finOf ps → ∃ x ∈ l, x.start ≤ j ∧ j < x.start + x.len) ∧
    (∀ j, Png.finOf ps ≤ j → ¬ ∃ x ∈ l, x.start ≤ j ∧ j < x.start + x.len) := by
  have ht := png_boxmap_tiles b l ps h hc
  obtain ⟨_, _, hf, _, _⟩ := Png.chunks_tile b ps hc
  have hin := (tiles_inside ht).2
  refine ⟨(tiles_ordered ht).imp (fun hxy => by omega), tiles_ordered ht, ?_, hf,
    fun j hj => tiles_cover ht j ⟨Nat.zero_le _, hj⟩, ?_⟩
  · intro x hx; have := (hin x hx).2; omega
  · rintro j hj ⟨x, hx, _, h2⟩
    have := (hin x hx).2; omega

/-- Specification boxes of the chunk segments = implementation boxes without the placeholder. -/
theorem Png.chunkBoxes_spec (b : Bytes) (has : Bool) : ∀ (ps : List Png.Chunk) (pos fin : Nat),
    Png.ChunksTile b pos ps fin →
      boxesFrom pos (ps.map (Png.chunkSeg b)) = (ps.flatMap (Png.boxOf has)).filter (fun x => !x.excl) ∧
      pos + (ser (ps.map (Png.chunkSeg b))).length = fin
  | [], pos, fin, h => by have : pos = fin := h; subst this; simp [boxesFrom, ser]
  | c :: r, pos, fin, h => by
    obtain ⟨h1, h2, h3⟩ := h
    obtain ⟨ih1, ih2⟩ := Png.chunkBoxes_spec b has r _ _ h3
    have hl := Png.length_chunkSeg b c h2
    have hf : pos + (c.length + 12) = c.fin := by simp only [Png.Chunk.fin]; omega
    constructor
    · rw [List.map_cons, List.flatMap_cons, List.filter_append, Png.filter_boxOf]
      simp only [boxesFrom, hl, hf, ih1, Png.isM_chunkSeg]
      rw [← h1]; rfl
    · rw [List.map_cons, ser_cons, List.length_append, hl, ← Nat.add_assoc, hf]; exact ih2

/-- **png_boxmap_c2pa_exact** (implementation, all byte lists): (a) every caBX chunk has a
C2PA box over exactly its bytes; (b) a box flagged C2PA is either the box of a caBX chunk, or
— only when there is no caBX chunk at all — the zero-length excluded placeholder at the end of
an IHDR chunk; (c) the only excluded boxes are zero-length C2PA placeholders. (With two caBX
chunks both get a C2PA box, so "the C2PA box starts at the first caBX chunk" would be false.) -/
theorem png_boxmap_c2pa_exact (b : Bytes) (l : List Box) (ps : List Png.Chunk)
    (h : Png.boxMap b = some l) (hc : Png.chunks b = some ps) :
    (∀ c ∈ ps, c.name = Png.caBX → (⟨"C2PA", c.start, c.length + 12, true, false⟩ : Box) ∈ l) ∧
    (∀ x ∈ l, x.cai = true →
      (∃ c ∈ ps, c.name = Png.caBX ∧ x = ⟨"C2PA", c.start, c.length + 12, true, false⟩) ∨
      ((∀ c ∈ ps, c.name ≠ Png.caBX) ∧
        ∃ c ∈ ps, c.name = Png.IHDR ∧ x = ⟨"C2PA", c.fin, 0, true, true⟩)) ∧
    (∀ x ∈ l, x.excl = true → x.len = 0 ∧ x.cai = true) := by
  rw [Png.boxMap_eq b ps hc] at h
  injection h with h; subst h
  refine ⟨?_, ?_, ?_⟩
  · intro c hcm hn
    apply List.mem_cons_of_mem
    exact List.mem_flatMap.2 ⟨c, hcm, by rw [Png.boxOf_caBX _ c hn]; exact List.mem_singleton.2 rfl⟩
  · intro x hx hcai
    rcases List.mem_cons.1 hx with rfl | hx
    · cases hcai
    · obtain ⟨c, hcm, hxc⟩ := List.mem_flatMap.1 hx
      rcases Png.mem_boxOf_cai hxc hcai with ⟨h1, h2⟩ | ⟨h1, h2, h3⟩
      · exact Or.inl ⟨c, hcm, h1, h2⟩
      · exact Or.inr ⟨Png.any_caBX_false h1, c, hcm, h2, h3⟩
  · intro x hx he
    rcases List.mem_cons.1 hx with rfl | hx
    · cases he
    · obtain ⟨c, _, hxc⟩ := List.mem_flatMap.1 hx
      exact Png.mem_boxOf_excl hxc he

/-- **png_boxmap_vs_spec**: the specification map of the file's layer-A container
(`Png.segs`) is the implementation's map without the placeholder, plus — when data follows
IEND — the box of that trailing data. This is the whole difference between `boxmap_wf`
(specification: covers everything) and `png_boxmap_partial` (implementation: covers up to the
end of IEND). -/
theorem png_boxmap_vs_spec (b : Bytes) (l : List Box) (c : List Seg) (ps : List Png.Chunk)
    (h : Png.boxMap b = some l) (hc : Png.chunks b = some ps) (hs : Png.segs b = some c) :
    boxesA c = l.filter (fun x => !x.excl) ++
      (if (b.drop (Png.finOf ps)).isEmpty then []
       else [⟨"trailing", Png.finOf ps, b.length - Png.finOf ps, false, false⟩]) := by
  rw [Png.boxMap_eq b ps hc] at h
  injection h with h; subst h
  unfold Png.segs at hs
  rw [hc] at hs
  injection hs with hs; subst hs
  obtain ⟨ht, _, hf, _, h8⟩ := Png.chunks_tile b ps hc
  obtain ⟨e1, e2⟩ := Png.chunkBoxes_spec b (ps.any (·.name == Png.caBX)) ps 8 _ ht
  have hl8 : (b.take 8).length = 8 := by rw [List.length_take]; omega
  unfold boxesA
  rw [List.cons_append]
  simp only [boxesFrom, hl8, Nat.zero_add]
  rw [boxesFrom_append, e1, e2, List.filter_cons]
  have hP : (!(⟨"PNGh", 0, 8, false, false⟩ : Box).excl) = true := rfl
  rw [if_pos hP, List.cons_append]
  have hT : boxesFrom (Png.finOf ps)
      (if (b.drop (Png.finOf ps)).isEmpty then []
       else [(⟨.media, "trailing", b.drop (Png.finOf ps)⟩ : Seg)]) =
      (if (b.drop (Png.finOf ps)).isEmpty then []
       else [⟨"trailing", Png.finOf ps, b.length - Png.finOf ps, false, false⟩]) := by
    by_cases he : (b.drop (Png.finOf ps)).isEmpty = true
    · simp [he, boxesFrom]
    · simp only [he]; simp [boxesFrom, isM]
  rw [hT]
  rfl

/-! ## the implementation: sidecar (`.c2pa`) -/

/-- The sidecar map is a single empty C2PA box: the whole file is the manifest container, so
there is nothing to cover. -/
theorem sidecar_boxmap (b : Bytes) : Sidecar.boxMap b = some [⟨"C2PA", 0, 0, true, false⟩] := rfl

/-! ## data-hash side (layer A) -/

/-- Data-hash side of the statement, layer A: the Cai region of a written asset is inside the
file (restated from the C08 development; the `Other` regions are in `locations_wf`). -/
theorem cai_region_inside (F : Fmt) (c : List Seg) (s : Bytes) :
    caiOff F c + (F.wrap s).length ≤ (ser (writeA F c s)).length := by
  rw [ser_writeA]; simp only [List.length_append, caiOff, offAt]; omega

/-! ## data-hash side, implementation: `Png.locations` -/

/-- The three regions of `locA off len total` with `off + len ≤ total`: the Cai region is
inside `[0, total)`, the two Other regions do not meet it, and the three tile `[0, total)`. -/
theorem locA_wf (off len total : Nat) (h : off + len ≤ total) :
    ∀ x ∈ locA off len total, x.off + x.len ≤ total ∧
      (x.cai = false → x.off + x.len ≤ off ∨ off + len ≤ x.off) := by
  intro x hx
  simp only [locA, List.mem_cons, List.not_mem_nil, or_false] at hx
  rcases hx with rfl | rfl | rfl
  · exact ⟨h, fun h' => by cases h'⟩
  · exact ⟨by simp; omega, fun _ => Or.inl (by simp)⟩
  · exact ⟨by simp; omega, fun _ => Or.inr (by simp)⟩

theorem Png.mem_of_find {ps : List Png.Chunk} {c : Png.Chunk} {n : Bytes}
    (h : ps.find? (·.name == n) = some c) : c ∈ ps ∧ c.name = n := by
  have h1 := List.mem_of_find?_eq_some h
  have h2 := List.find?_some h
  exact ⟨h1, by simpa using h2⟩

/-- **The manifest region reported for data hashing by the PNG handler** (any file, with or
without a manifest): the regions are `locA off len total` with `off + len ≤ total`, hence
(by `locA_wf`) the manifest region lies within `total` and overlaps no Other region. With a
caBX chunk, `total` is the file length and the region is that chunk; without one, the handler
reports the *hypothetical* 12-byte container after IHDR in a file 12 bytes longer
(`total = |b| + 12`, see `Png.locations_fresh` in `Lemmas/C07PngRefine.lean`: these are the
regions of the asset after embedding an empty store). -/
theorem png_locations_wf (b : Bytes) (l : List Loc) (ps : List Png.Chunk)
    (h : Png.locations b = some l) (hc : Png.chunks b = some ps) :
    (∃ c ∈ ps, c.name = Png.caBX ∧ l = locA c.start (c.length + 12) b.length ∧
        c.start + (c.length + 12) ≤ b.length) ∨
    ((∀ c ∈ ps, c.name ≠ Png.caBX) ∧ ∃ ih ∈ ps, ih.name = Png.IHDR ∧
        l = locA ih.fin 12 (b.length + 12) ∧ ih.fin + 12 ≤ b.length + 12) := by
  obtain ⟨ht, _, _, _, _⟩ := Png.chunks_tile b ps hc
  have hin := Png.mem_chunks_inside b ps 8 _ ht
  unfold Png.locations at h
  rw [hc] at h
  simp only at h
  cases hcai : Png.firstCai ps with
  | some c =>
    rw [hcai] at h
    injection h with h
    obtain ⟨hm, hn⟩ := Png.mem_of_find hcai
    have := hin c hm
    exact Or.inl ⟨c, hm, hn, h.symm, by unfold Png.Chunk.fin at this; omega⟩
  | none =>
    rw [hcai] at h
    have hno : ∀ c ∈ ps, c.name ≠ Png.caBX := by
      intro c hm hn
      have := List.find?_eq_none.1 hcai c hm
      simp [hn] at this
    cases hih : Png.firstIhdr ps with
    | none => rw [hih] at h; cases h
    | some ih =>
      rw [hih] at h
      injection h with h
      obtain ⟨hm, hn⟩ := Png.mem_of_find hih
      have := hin ih hm
      exact Or.inr ⟨hno, ih, hm, hn, h.symm, by omega⟩

/-- The sidecar handler reports no regions. -/
theorem sidecar_locations_nil (b : Bytes) : Sidecar.locations b = some [] := rfl

/-! ### non-vacuity -/

example : boxesA [⟨.header, "h", [1, 2]⟩, ⟨.manifest, "C2PA", [7, 9, 9]⟩, ⟨.media, "m", [3]⟩]
    = [⟨"h", 0, 2, false, false⟩, ⟨"C2PA", 2, 3, true, false⟩, ⟨"m", 5, 1, false, false⟩] := by decide

/-- `Png.boxMap` on a PNG without caBX and without trailing data: the placeholder follows
IHDR, and the four boxes tile the whole 32-byte file. -/
def exPngPlain : Bytes := Png.sig ++ Png.mkChunk Png.IHDR [] ++ Png.mkChunk Png.IEND []
set_option maxRecDepth 8192 in
theorem exPngPlain_eq : exPngPlain =
    [137, 80, 78, 71, 13, 10, 26, 10, 0, 0, 0, 0, 73, 72, 68, 82, 168, 161, 174, 10,
     0, 0, 0, 0, 73, 69, 78, 68, 174, 66, 96, 130] := by decide
example : Png.boxMap exPngPlain = some
    [⟨"PNGh", 0, 8, false, false⟩, ⟨"IHDR", 8, 12, false, false⟩,
     ⟨"C2PA", 20, 0, true, true⟩, ⟨"IEND", 20, 12, false, false⟩] := by
  rw [exPngPlain_eq]; decide
example : exPngPlain.drop 32 = [] := by rw [exPngPlain_eq]; decide

/-- `Png.boxMap` on a PNG with a caBX chunk (3-byte store): no placeholder. -/
def exPngCai : Bytes :=
  Png.sig ++ Png.mkChunk Png.IHDR [] ++ Png.mkChunk Png.caBX [1, 2, 3] ++ Png.mkChunk Png.IEND []
set_option maxRecDepth 8192 in
theorem exPngCai_eq : exPngCai =
    [137, 80, 78, 71, 13, 10, 26, 10, 0, 0, 0, 0, 73, 72, 68, 82, 168, 161, 174, 10,
     0, 0, 0, 3, 99, 97, 66, 88, 1, 2, 3, 98, 237, 32, 146,
     0, 0, 0, 0, 73, 69, 78, 68, 174, 66, 96, 130] := by decide
example : Png.boxMap exPngCai = some
    [⟨"PNGh", 0, 8, false, false⟩, ⟨"IHDR", 8, 12, false, false⟩,
     ⟨"C2PA", 20, 15, true, false⟩, ⟨"IEND", 35, 12, false, false⟩] := by
  rw [exPngCai_eq]; decide

/-- Two caBX chunks both get a C2PA box (why `png_boxmap_c2pa_exact` is stated per chunk). -/
def exPngTwoCai : Bytes :=
  Png.sig ++ Png.mkChunk Png.IHDR [] ++ Png.mkChunk Png.caBX [1] ++ Png.mkChunk Png.caBX []
    ++ Png.mkChunk Png.IEND []
set_option maxRecDepth 8192 in
theorem exPngTwoCai_eq : exPngTwoCai =
    [137, 80, 78, 71, 13, 10, 26, 10, 0, 0, 0, 0, 73, 72, 68, 82, 168, 161, 174, 10,
     0, 0, 0, 1, 99, 97, 66, 88, 1, 237, 81, 212, 130,
     0, 0, 0, 0, 99, 97, 66, 88, 230, 61, 210, 167,
     0, 0, 0, 0, 73, 69, 78, 68, 174, 66, 96, 130] := by decide
example : Png.boxMap exPngTwoCai = some
    [⟨"PNGh", 0, 8, false, false⟩, ⟨"IHDR", 8, 12, false, false⟩,
     ⟨"C2PA", 20, 13, true, false⟩, ⟨"C2PA", 33, 12, true, false⟩,
     ⟨"IEND", 45, 12, false, false⟩] := by
  rw [exPngTwoCai_eq]; decide

/-- The witness has 33 bytes, its map ends at 32, and the specification map has the extra box. -/
example : pngTrailingWitness.length = 33 := by rw [pngTrailingWitness_eq]; decide
example : (Png.segs pngTrailingWitness).map boxesA = some
    [⟨"PNGh", 0, 8, false, false⟩, ⟨"IHDR", 8, 12, false, false⟩,
     ⟨"IEND", 20, 12, false, false⟩, ⟨"trailing", 32, 1, false, false⟩] := by
  rw [pngTrailingWitness_eq]; decide

/-- Not a PNG: no map, the `png_boxmap_*` hypotheses are not met. -/
example : Png.boxMap [1, 2, 3] = none := by decide

end C2pa.C07
