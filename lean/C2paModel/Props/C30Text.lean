import C2paModel.Props.C30
import C2paModel.Lemmas.C30Scan
import C2paModel.Lemmas.C30Term
/-
C30 — the round trip THROUGH THE TEXT.

`Props/C30.lean` states the round trip on the packet abstraction (`extractKey (addKey …)`).
Here the value is read back from the characters `add_xmp_key` writes (`render q`), with the
model of quick-xml's reader (`Model/C30Scan.lean`: `ElementParser`, `emit_start`, the
`Attributes` iterator, `read_event`, the loop of `extract_xmp_key`), which the
correspondence run compares with the real `extract_xmp_key` / quick-xml on raw texts.

What carries the proofs: everything written is quotable (`escape_no_specials`,
`addKey_values_quotable`), therefore the tokenizer splits the written tag exactly where the
writer joined it (`scan_render`), therefore the reader finds the attribute and
`unescape (escape v) = v` gives the value back (`key_roundtrip_text`).
-/
namespace C2pa.C30

/-! ### everything written can stand between double quotes -/

/-- **`escape` never emits `"`, `<`, `>` or `'`.** -/
theorem escape_no_specials (v : Str) :
    ∀ c ∈ escape v, c ≠ '"' ∧ c ≠ '<' ∧ c ≠ '>' ∧ c ≠ '\'' := by
  induction v with
  | nil => intro c hc; cases hc
  | cons a as ih =>
    intro c hc
    simp only [escape, List.mem_append] at hc
    rcases hc with hc | hc
    · exact escChar_no_specials a c hc
    · exact ih c hc

theorem editAttr_val_noquote (k v : Str) (a : Attr) : '"' ∉ (editAttr k (escape v) a).val := by
  unfold editAttr
  split
  · intro h; exact (escape_no_specials v _ h).1 rfl
  · exact requote_no_quote a.val

theorem editAttrs_val_noquote (k v : Str) (as : List Attr) :
    ∀ a ∈ editAttrs k (escape v) as, '"' ∉ a.val := by
  intro a ha
  unfold editAttrs at ha
  split at ha
  · obtain ⟨b, _, rfl⟩ := List.mem_map.1 ha; exact editAttr_val_noquote k v b
  · rcases List.mem_append.1 ha with h | h
    · obtain ⟨b, _, rfl⟩ := List.mem_map.1 h; exact editAttr_val_noquote k v b
    · simp only [List.mem_singleton] at h
      subst h
      intro hq; exact (escape_no_specials v _ hq).1 rfl

/-- **No attribute value of the element `add_xmp_key` writes contains a literal `"`** —
whatever the input values were (`double_quotable`) and whatever is added (`escape`). -/
theorem addKey_values_quotable (p : Packet) (k v : Str) (q : Packet) (h : addKey p k v = .ok q) :
    ∀ d, q.desc = some d → ∀ a ∈ d.attrs, '"' ∉ a.val := by
  intro d' hd' a ha
  obtain ⟨_, ⟨hn, hq⟩ | ⟨d, hpd, _, hq⟩⟩ := addKey_ok p k v q h
  · subst hq; rw [(finish_fields p _).2.1] at hd'; cases hd'
  · subst hq
    rw [(finish_fields p _).2.1] at hd'
    cases hd'
    exact editAttrs_val_noquote k v d.attrs a ha

theorem editAttrs_keyOk (k ev : Str) (as : List Attr) (hk : KeyOk k) (hks : ∀ a ∈ as, KeyOk a.key) :
    ∀ a ∈ editAttrs k ev as, KeyOk a.key := by
  intro a ha
  unfold editAttrs at ha
  split at ha
  · obtain ⟨b, hb, rfl⟩ := List.mem_map.1 ha; rw [editAttr_key]; exact hks b hb
  · rcases List.mem_append.1 ha with h | h
    · obtain ⟨b, hb, rfl⟩ := List.mem_map.1 h; rw [editAttr_key]; exact hks b hb
    · simp only [List.mem_singleton] at h; subst h; exact hk

/-! ### scan ∘ render = id -/

theorem std_ok (as : List Attr) (hk : ∀ a ∈ as, KeyOk a.key) (hq : ∀ a ∈ as, '"' ∉ a.val) :
    ∀ al ∈ as.map (fun a => (a, Lay.std)), KeyOk al.1.key ∧ LayOk al.1 al.2 := by
  intro al hal
  obtain ⟨a, ha, rfl⟩ := List.mem_map.1 hal
  exact ⟨hk a ha, layOk_std a (hq a ha)⟩

theorem std_nodup (as : List Attr) (hn : dupKeys as = false) :
    ((as.map (fun a => (a, Lay.std))).map (·.1.key)).Nodup := by
  have := (dupKeys_false_iff as).1 hn
  simpa [List.map_map, Function.comp_def] using this

/-- **Reading the element `Writer::write_event` wrote gives the element back**, whatever
text follows: for well-formed pairwise different names and values without a literal `"`
(values may contain `<`, `>`, `'`, `&`). Drop the quoting-safety hypothesis and the
statement is false (`scan_render_needs_quotable`). -/
theorem scan_render (d : Desc) (rest : Str) (hk : ∀ a ∈ d.attrs, KeyOk a.key)
    (hq : ∀ a ∈ d.attrs, '"' ∉ a.val) (hn : dupKeys d.attrs = false) :
    scanDesc (renderDesc d ++ rest) = some (d, rest) := by
  have := scanDesc_renderDescL (d.attrs.map fun a => (a, Lay.std)) [] d.empty rest (by decide)
    (std_ok d.attrs hk hq) (std_nodup d.attrs hn)
  rw [renderDescL_std] at this
  rw [this]
  simp [List.map_map, Function.comp_def]

/-- the same for any input layout: white space (at least one) before each name, any white
space around `=` and before the end of the tag, single or double quotes, values free of
their own quote character -/
theorem scan_render_layout (als : List (Attr × Lay)) (tw : Str) (empty : Bool) (rest : Str)
    (htw : AllWs tw) (hok : ∀ al ∈ als, KeyOk al.1.key ∧ LayOk al.1 al.2)
    (hnd : (als.map (·.1.key)).Nodup) :
    scanDesc (renderDescL als tw empty ++ rest) =
      some ({ attrs := als.map (·.1), empty := empty }, rest) :=
  scanDesc_renderDescL als tw empty rest htw hok hnd

/-- Without quoting safety the written tag does not read back: a value holding a literal
`"` cuts the attribute (this is the defect `attrs-not-preserved` that `double_quotable`
repairs; `addKey_values_quotable` shows the writer never produces such a value). -/
theorem scan_render_needs_quotable :
    scanDesc (renderDesc ⟨[⟨['a'], ['x', '"', 'y']⟩], true⟩) ≠
      some (⟨[⟨['a'], ['x', '"', 'y']⟩], true⟩, []) := by
  decide

/-! ### what the reader finds in the written text -/

theorem render_finish_some (p : Packet) (d' : Desc) :
    render (finish p (some d')) =
      p.pre ++ (renderDesc d' ++ (p.post ++ ((finish p (some d')).gap ++ xmpEnd))) := by
  simp [render, (finish_fields p (some d')).1, (finish_fields p (some d')).2.1,
    (finish_fields p (some d')).2.2.1, renderOptDesc, List.append_assoc]

/-- **Scanning the written text at the position of the element** (after the unchanged text
in front) yields an element of the same form in which the key occurs with the escaped
value and every other attribute is the input attribute in its order (`reqAttr`: a literal
`"` re-written as `&quot;`, `reqAttr_spec`); what follows is the unchanged text after the
element, the blanks (`output_shape`) and the trailer. -/
theorem output_scans (p : Packet) (k v : Str) (q : Packet) (h : addKey p k v = .ok q)
    (d : Desc) (hd : p.desc = some d) (hk : KeyOk k) (hks : ∀ a ∈ d.attrs, KeyOk a.key) :
    ∃ d', q.desc = some d' ∧
      render q = p.pre ++ (renderDesc d' ++ (p.post ++ (q.gap ++ xmpEnd))) ∧
      scanDesc (renderDesc d' ++ (p.post ++ (q.gap ++ xmpEnd))) =
        some (d', p.post ++ (q.gap ++ xmpEnd)) ∧
      d'.empty = d.empty ∧ findAttr k d'.attrs = some ⟨k, escape v⟩ ∧
      d'.attrs.filter (fun a => !decide (a.key = k)) =
        (d.attrs.filter (fun a => !decide (a.key = k))).map reqAttr := by
  obtain ⟨_, ⟨hn, _⟩ | ⟨d0, hpd, hdup, hq⟩⟩ := addKey_ok p k v q h
  · rw [hd] at hn; cases hn
  · rw [hd] at hpd; cases hpd
    subst hq
    exact ⟨{ d with attrs := editAttrs k (escape v) d.attrs }, (finish_fields p _).2.1,
      render_finish_some p _,
      scan_render _ _ (editAttrs_keyOk k _ _ hk hks) (editAttrs_val_noquote k v d.attrs)
        (dupKeys_editAttrs k _ _ hdup),
      rfl, findAttr_editAttrs_self k _ _, filter_editAttrs k _ _⟩

/-! ### round trip through the text -/

/-- **The value `extract_xmp_key` reads from the text `add_xmp_key` wrote is the value that
was added** — for every value (any characters), every well-formed key, every packet whose
first rdf:Description has well-formed attribute names, any text after the element, and in
front of it any sequence of comments / CDATA / processing instructions (without `>` inside),
end tags and start tags (balanced quotes, other names), with text free of `<` and `&`
between them. -/
theorem key_roundtrip_text (p : Packet) (k v : Str) (q : Packet) (h : addKey p k v = .ok q)
    (d : Desc) (hd : p.desc = some d) (hk : KeyOk k) (hks : ∀ a ∈ d.attrs, KeyOk a.key)
    (items : List Item) (lead : Str) (hpre : p.pre = renderItems items ++ lead)
    (hitems : ∀ it ∈ items, it.Ok k) (hl : leadOk lead) :
    extractTxt k (render q) = .found v := by
  obtain ⟨_, ⟨hn, _⟩ | ⟨d0, hpd, hdup, hq⟩⟩ := addKey_ok p k v q h
  · rw [hd] at hn; cases hn
  · rw [hd] at hpd; cases hpd
    subst hq
    rw [render_finish_some, hpre, List.append_assoc]
    have hd' : renderDesc { d with attrs := editAttrs k (escape v) d.attrs } =
        renderDescL ((editAttrs k (escape v) d.attrs).map fun a => (a, Lay.std)) [] d.empty :=
      (renderDescL_std { d with attrs := editAttrs k (escape v) d.attrs }).symm
    rw [hd']
    have := extractTxt_desc k items lead ((editAttrs k (escape v) d.attrs).map fun a => (a, Lay.std)) []
      d.empty (p.post ++ ((finish p (some { d with attrs := editAttrs k (escape v) d.attrs })).gap ++ xmpEnd))
      ⟨k, escape v⟩ hitems hl (by decide)
      (std_ok _ (editAttrs_keyOk k _ _ hk hks) (editAttrs_val_noquote k v d.attrs))
      (std_nodup _ (dupKeys_editAttrs k _ _ hdup))
      (by simp only [List.map_map, Function.comp_def, List.map_id']; exact findAttr_editAttrs_self k _ _)
    rw [this, unescapeLenient_escape]

theorem keyOk_xmlns : KeyOk kXmlnsDcterms := by decide
theorem keyOk_provenance : KeyOk kProvenance := by decide

/-- **`extract_provenance (add_provenance xmp url)` read from the written text is `url`** —
every URL, every packet as in `key_roundtrip_text`. -/
theorem provenance_roundtrip_text (p : Packet) (url : Str) (q : Packet)
    (h : addProvenance p url = .ok q)
    (d : Desc) (hd : p.desc = some d) (hks : ∀ a ∈ d.attrs, KeyOk a.key)
    (items : List Item) (lead : Str) (hpre : p.pre = renderItems items ++ lead)
    (hitems : ∀ it ∈ items, it.Ok kProvenance) (hl : leadOk lead) :
    extractProvenanceTxt (render q) = .found url := by
  unfold addProvenance at h
  cases h1 : addKey p kXmlnsDcterms vDcterms with
  | ok p1 =>
    rw [h1] at h
    obtain ⟨_, ⟨hn, _⟩ | ⟨d0, hpd, _, hq⟩⟩ := addKey_ok p _ _ p1 h1
    · rw [hd] at hn; cases hn
    · rw [hd] at hpd; cases hpd
      have hp1d : p1.desc = some { d with attrs := editAttrs kXmlnsDcterms (escape vDcterms) d.attrs } := by
        subst hq; exact (finish_fields p _).2.1
      have hp1pre : p1.pre = p.pre := by subst hq; exact (finish_fields p _).1
      exact key_roundtrip_text p1 kProvenance url q h _ hp1d keyOk_provenance
        (editAttrs_keyOk _ _ _ keyOk_xmlns hks) items lead (by rw [hp1pre, hpre]) hitems hl
  | readErr => rw [h1] at h; cases h
  | panic => rw [h1] at h; cases h

/-- `add_provenance` succeeds and the URL reads back from its output text. -/
theorem provenance_roundtrip_text_total (p : Packet) (url : Str) (d : Desc) (hd : p.desc = some d)
    (hdup : dupKeys d.attrs = false) (hp : ¬(p.trailer = true ∧ p.origLen < 19))
    (hks : ∀ a ∈ d.attrs, KeyOk a.key)
    (items : List Item) (lead : Str) (hpre : p.pre = renderItems items ++ lead)
    (hitems : ∀ it ∈ items, it.Ok kProvenance) (hl : leadOk lead) :
    ∃ q, addProvenance p url = .ok q ∧ extractProvenanceTxt (render q) = .found url := by
  obtain ⟨q, hq, _⟩ := provenance_roundtrip_total p url d hd hdup hp
  exact ⟨q, hq, provenance_roundtrip_text p url q hq d hd hks items lead hpre hitems hl⟩

/-! ### the case the code does not serve: no rdf:Description -/

/-- Without an rdf:Description element `add_provenance` succeeds, writes no reference and
nothing is read back (open finding `xmp-without-description`; the harness replays such
packets on the implementation). -/
theorem no_description_no_reference (p : Packet) (url : Str) (q : Packet)
    (hd : p.desc = none) (h : addProvenance p url = .ok q) :
    q.desc = none ∧ q.pre = p.pre ∧ q.post = p.post ∧ extractProvenance q = none := by
  unfold addProvenance at h
  cases h1 : addKey p kXmlnsDcterms vDcterms with
  | ok p1 =>
    rw [h1] at h
    have a1 := other_attrs_preserved p _ _ p1 h1
    have a2 := other_attrs_preserved p1 _ _ q h
    have hq : q.desc = none := a2.2.2.1 (a1.2.2.1 hd)
    exact ⟨hq, a2.1.trans a1.1, a2.2.1.trans a1.2.1, by simp [extractProvenance, extractKey, hq]⟩
  | readErr => rw [h1] at h; cases h
  | panic => rw [h1] at h; cases h

/-- The full statement ("the URL read back equals the URL embedded") is therefore false for
such a packet: concrete witness. -/
def exNoDesc : Packet :=
  { pre := "<x:xmpmeta xmlns:x=\"adobe:ns:meta/\"><rdf:RDF/></x:xmpmeta>".toList, desc := none,
    post := [], gap := [], trailer := true, origLen := 80 }

theorem roundtrip_fails_without_description :
    ∃ q, addProvenance exNoDesc exUrl = .ok q ∧ extractProvenance q ≠ some exUrl := by
  obtain ⟨p1, h1⟩ := addKey_succeeds exNoDesc kXmlnsDcterms vDcterms (by decide) (by intro d hd; cases hd)
  have t1 := addKey_ok_trailer exNoDesc _ _ p1 h1
  have d1 := (other_attrs_preserved exNoDesc _ _ p1 h1).2.2.1 rfl
  obtain ⟨q, h2⟩ := addKey_succeeds p1 kProvenance exUrl (by intro hc; omega)
    (by intro d hd; rw [d1] at hd; cases hd)
  have hall : addProvenance exNoDesc exUrl = .ok q := by unfold addProvenance; rw [h1]; exact h2
  refine ⟨q, hall, ?_⟩
  rw [(no_description_no_reference exNoDesc exUrl q rfl hall).2.2.2]
  simp

/-! ### the reader model is total -/

/-- The termination guard of the reader model is never taken, on any text (every
`read_event` consumes at least one character: `readEvent_length`; guard-free recursion
equations: `readToEnd_eq`, `extractLoop_eq`). -/
theorem extractTxt_ne_guard (k s : Str) : extractTxt k s ≠ .guard :=
  extractLoop_ne_guard _ k [] (stripBom s) rfl

/-! ### non-vacuity -/

/-- the markup in front of the element of `MIN_XMP`-like packets -/
def exItems : List Item :=
  [⟨[], .pi "xpacket begin=\"\" id=\"W5M0MpCehiHzreSzNTczkc9d\"".toList⟩,
   ⟨"\n".toList, .tag "x:xmpmeta xmlns:x=\"adobe:ns:meta/\" x:xmptk='a > b'".toList⟩,
   ⟨" ".toList, .comment " note ".toList⟩,
   ⟨[], .tag "rdf:RDF xmlns:rdf=\"http://www.w3.org/1999/02/22-rdf-syntax-ns#\"".toList⟩,
   ⟨[], .tag "x:empty/".toList⟩,
   ⟨"text".toList, .etag "x:none".toList⟩]

def exPacketT : Packet := { exPacket with pre := renderItems exItems ++ "\n  ".toList }

example : ∀ it ∈ exItems, it.Ok kProvenance := by decide
example : leadOk "\n  ".toList := by decide
example : ∀ a ∈ exAttrs, KeyOk a.key := by decide
example : ∃ q, addProvenance exPacketT exUrl = .ok q ∧ extractProvenanceTxt (render q) = .found exUrl :=
  provenance_roundtrip_text_total exPacketT exUrl ⟨exAttrs, false⟩ rfl (by decide) (by decide)
    (by decide) exItems "\n  ".toList rfl (by decide) (by decide)
/-- `scan_render_layout`: ExifTool-style input (line breaks, single quotes, a `"` and a `>`
inside a single-quoted value) -/
example : scanDesc ("<rdf:Description rdf:about=''\n  dc:source = 'say \"hi\" > bye'\t/>rest".toList) =
    some (⟨[⟨"rdf:about".toList, []⟩, ⟨"dc:source".toList, "say \"hi\" > bye".toList⟩], true⟩,
      "rest".toList) := by decide

end C2pa.C30
