import C2paModel.Props.C25
/-
C25 — frame theorems at depth, the general read-back theorem, the remaining entry points
(files, `IntoSettings for Value`) and histories of updates.

* `set_frame`      — `set_at_path` changes nothing at any path that is neither a prefix nor an
                     extension of the path set (siblings at every depth).
* `merge_frame`    — the merge changes nothing at a path the overlay does not name (the
                     complement of `merge_get_leaf`).
* `setValue_getValue_kept` / `setValue_getValue_iff` — read-back after `set_value` for an
                     arbitrary `norm`: it returns the value exactly when `norm` kept the path.
* `runOps_*`       — histories: failing steps are no-ops of the whole history; a value set at a
                     path is still read back after any number of later steps that do not name it.
-/
namespace C2pa.C25

/-! ## nested frame of `set_at_path` -/

theorem getAtPath_not_obj (t : Json) (s : String) (rest : List String) (h : t.isObj = false) :
    getAtPath t (s :: rest) = none := by
  cases t <;> first | rfl | (simp [Json.isObj] at h)

theorem getAtPath_obj_cons (kvs : Fields) (s : String) (rest : List String) :
    getAtPath (.obj kvs) (s :: rest) = (lookup s kvs).bind (fun c => getAtPath c rest) := by
  rw [getAtPath.eq_2]
  cases lookup s kvs <;> rfl

/-- reading below the first segment: through `fieldsOrEmpty` (a non-object has no members) -/
theorem getAtPath_cons_fieldsOrEmpty (t : Json) (s : String) (rest : List String) :
    getAtPath t (s :: rest) = (lookup s (fieldsOrEmpty t)).bind (fun c => getAtPath c rest) := by
  cases t with
  | obj kvs => rw [getAtPath_obj_cons]; rfl
  | _ => rfl

theorem getAtPath_empty_obj (q : List String) (hq : q ≠ []) : getAtPath (.obj []) q = none := by
  cases q with
  | nil => exact absurd rfl hq
  | cons s rest => rfl

/-- **set_frame.** `set_at_path(p, v)` leaves every path `q` alone that is neither a prefix of
`p` nor below `p` — siblings at every depth, for every target (object or not). -/
theorem set_frame (p q : List String) (t v r : Json)
    (h : setAtPath t p v = .ok r) (hpq : ¬ p <+: q) (hqp : ¬ q <+: p) :
    getAtPath r q = getAtPath t q := by
  induction p generalizing q t r with
  | nil => exact absurd List.nil_prefix hpq
  | cons s rest ih =>
    cases q with
    | nil => exact absurd List.nil_prefix hqp
    | cons s' qr =>
      cases rest with
      | nil =>
        simp only [setAtPath, Except.ok.injEq] at h
        subst h
        have hne : s' ≠ s := by
          intro e
          subst e
          exact hpq (List.cons_prefix_cons.2 ⟨rfl, List.nil_prefix⟩)
        rw [getAtPath_obj_cons, lookup_upsert_ne _ _ hne, getAtPath_cons_fieldsOrEmpty]
      | cons s2 rest' =>
        rw [setAtPath.eq_3] at h
        split at h
        · rename_i c hc
          simp only [Except.ok.injEq] at h
          subst h
          by_cases hs : s' = s
          · subst hs
            have hpq' : ¬ (s2 :: rest') <+: qr := fun hp => hpq (List.cons_prefix_cons.2 ⟨rfl, hp⟩)
            have hqp' : ¬ qr <+: (s2 :: rest') := fun hp => hqp (List.cons_prefix_cons.2 ⟨rfl, hp⟩)
            rw [getAtPath_obj_cons, lookup_upsert_self, getAtPath_cons_fieldsOrEmpty]
            have := ih qr _ c hc hpq' hqp'
            simp only [Option.bind_some]
            rw [this]
            cases hl : lookup s' (fieldsOrEmpty t) with
            | some ch => rfl
            | none =>
              simp only [Option.getD_none, Option.bind_none]
              exact getAtPath_empty_obj qr (fun e => hqp' (e ▸ List.nil_prefix))
          · rw [getAtPath_obj_cons, lookup_upsert_ne _ _ hs, getAtPath_cons_fieldsOrEmpty]
        · cases h

-- non-vacuity: a sibling two levels down is kept, the path set is read back
example : setAtPath (.obj [("a", .obj [("x", .num "1"), ("y", .num "2")])]) ["a", "x"] (.bool true)
    = .ok (.obj [("a", .obj [("x", .bool true), ("y", .num "2")])]) := by rfl
example : ¬ ["a", "x"] <+: ["a", "y"] := by
  intro h
  have := (List.cons_prefix_cons.1 (List.cons_prefix_cons.1 h).2).1
  simp at this

/-- the same for dotted path strings -/
theorem set_frame_path (path qpath : String) (t v r : Json)
    (h : setAtPath t (splitPath path) v = .ok r)
    (hpq : ¬ splitPath path <+: splitPath qpath) (hqp : ¬ splitPath qpath <+: splitPath path) :
    getAtPath r (splitPath qpath) = getAtPath t (splitPath qpath) :=
  set_frame _ _ t v r h hpq hqp

/-! ## frame of the merge: what the overlay does not name stays -/

/-- the overlay *names* a path when walking it along the path ends at the path's end or at a
non-object (which replaces the whole subtree); it does not when an object on the way lacks the
next segment. -/
def names : Json → List String → Bool
  | _, [] => true
  | .obj kvs, s :: rest =>
    match lookup s kvs with
    | some c => names c rest
    | none => false
  | _, _ :: _ => true

theorem names_false_obj {o : Json} {s : String} {rest : List String} (h : names o (s :: rest) = false) :
    ∃ kvs, o = .obj kvs := by
  cases o with
  | obj kvs => exact ⟨kvs, rfl⟩
  | _ => simp [names] at h

/-- a path the overlay does not name is absent from the overlay -/
theorem names_false_get_none (q : List String) (o : Json) (h : names o q = false) :
    getAtPath o q = none := by
  induction q generalizing o with
  | nil => simp [names] at h
  | cons s rest ih =>
    obtain ⟨kvs, rfl⟩ := names_false_obj h
    rw [getAtPath_obj_cons]
    rw [names.eq_2] at h
    cases hl : lookup s kvs with
    | none => rfl
    | some c =>
      rw [hl] at h
      simp only [Option.bind_some]
      exact ih c h

/-- **merge_frame.** A path the overlay does not name holds after the merge what it held in the
target — for every target, as long as the path stays within the depth limit (at the limit an
overlay object replaces the target's object wholesale: see the `example` below). -/
theorem merge_frame (q : List String) (t o : Json) (d : Nat) (ho : WF o)
    (hd : d + q.length ≤ mergeMaxDepth) (hn : names o q = false) :
    getAtPath (mergeDepth t o d) q = getAtPath t q := by
  induction q generalizing t o d with
  | nil => simp [names] at hn
  | cons s rest ih =>
    obtain ⟨okvs, rfl⟩ := names_false_obj hn
    have hlt : d < mergeMaxDepth := by simp only [List.length_cons] at hd; omega
    have hw := (WF_obj okvs).1 ho
    rw [names.eq_2] at hn
    cases t with
    | obj tkvs =>
      rw [mergeDepth_obj_lt _ _ _ hlt, getAtPath_obj_cons, getAtPath_obj_cons,
        lookup_mergeFields _ _ _ _ hw.1]
      cases hl : lookup s okvs with
      | none => rfl
      | some c =>
        rw [hl] at hn
        have hwc : WF c := WF_of_lookup ho hl
        cases hlt' : lookup s tkvs with
        | none =>
          simp only [Option.getD_none, mergeDepth_null_left, Option.bind_some, Option.bind_none]
          exact names_false_get_none rest c hn
        | some tc =>
          simp only [Option.getD_some, Option.bind_some]
          apply ih tc c (d + 1) hwc _ hn
          simp only [List.length_cons] at hd
          omega
    | _ =>
      rw [merge_left_not_obj _ _ _ rfl,
        names_false_get_none (s :: rest) (.obj okvs) (by rw [names.eq_2]; exact hn)]
      exact (getAtPath_not_obj _ s rest rfl).symm

theorem mergeJson_frame (q : List String) (t o : Json) (ho : WF o)
    (hd : q.length ≤ mergeMaxDepth) (hn : names o q = false) :
    getAtPath (mergeJson t o) q = getAtPath t q :=
  merge_frame q t o 0 ho (by omega) hn

-- non-vacuity: the overlay names `verify.b` but not `verify.a`
example : names (.obj [("verify", .obj [("b", .bool false)])]) ["verify", "a"] = false := by rfl
example : names (.obj [("verify", .obj [("b", .bool false)])]) ["verify", "b"] = true := by rfl
example : names (.obj [("verify", .null)]) ["verify", "a"] = true := by rfl
-- the depth bound is needed: at the limit the un-named sibling `a` is lost
example : getAtPath (mergeDepth (.obj [("a", .num "1")]) (.obj [("b", .num "2")]) 64) ["a"] = none := by rfl
example : names (.obj [("b", .num "2")]) ["a"] = false := by rfl

/-! ## read-back after `set_value`, for an arbitrary `norm` -/

/-- **setValue_getValue_kept.** If deserialize → validate → serialize accepts the edited
document and keeps what it holds at the path, `set_value(path, v)` succeeds and
`get_value(path)` returns `v`. (`hkeep` is what the harness evaluates on the real serde for
every accepted `set_value`; each failure of it is counted and has to be explained.) -/
theorem setValue_getValue_kept (norm : Norm) (path : String) (v self m s : Json)
    (hm : setAtPath self (splitPath path) v = .ok m) (hn : norm m = .ok s)
    (hkeep : getAtPath s (splitPath path) = getAtPath m (splitPath path)) :
    setValue norm path v self = (.ok (), s) ∧ getValue s path = .ok v := by
  obtain ⟨r, hr1, hr2⟩ := get_set_path path self v
  rw [hm] at hr1
  cases hr1
  constructor
  · simp [setValue, withValue, hm, hn]
  · simp [getValue, hkeep, hr2]

/-- **setValue_getValue_iff.** After a successful `set_value(path, v)`, `get_value(path)` returns
`v` exactly when `norm` kept the path of the edited document. -/
theorem setValue_getValue_iff (norm : Norm) (path : String) (v self s : Json)
    (h : setValue norm path v self = (.ok (), s)) :
    getValue s path = .ok v ↔
      ∃ m, setAtPath self (splitPath path) v = .ok m ∧ norm m = .ok s ∧
        getAtPath s (splitPath path) = getAtPath m (splitPath path) := by
  obtain ⟨m, hm, hn⟩ := (setValue_ok_spec norm path v self s).1 h
  obtain ⟨r, hr1, hr2⟩ := get_set_path path self v
  rw [hm] at hr1
  cases hr1
  constructor
  · intro hg
    refine ⟨m, hm, hn, ?_⟩
    rw [hr2]
    unfold getValue at hg
    cases hl : getAtPath s (splitPath path) with
    | none => rw [hl] at hg; cases hg
    | some x => rw [hl] at hg; cases hg; rfl
  · rintro ⟨m', hm', _, hk⟩
    rw [hm] at hm'
    cases hm'
    simp [getValue, hk, hr2]

-- non-vacuity: a `norm` that fills in a default elsewhere and keeps the path
example :
    setValue (fun m => .ok (mergeJson (.obj [("version", .num "1")]) m)) "a.b" (.bool false) (.obj []) =
        (.ok (), .obj [("version", .num "1"), ("a", .obj [("b", .bool false)])]) ∧
      getValue (.obj [("version", .num "1"), ("a", .obj [("b", .bool false)])]) "a.b" = .ok (.bool false) :=
  setValue_getValue_kept _ "a.b" (.bool false) (.obj []) (.obj [("a", .obj [("b", .bool false)])]) _
    (by rfl) (by rfl) (by rfl)

/-- `hkeep` can fail: a `norm` that drops the member (as `skip_serializing_if` would for an empty
list) accepts the set, and the read then fails. -/
example : setAtPath (.obj []) (splitPath "a") (.arr []) = .ok (.obj [("a", .arr [])]) := by rfl
example : getAtPath (.obj []) (splitPath "a") ≠ getAtPath (.obj [("a", .arr [])]) (splitPath "a") := by
  intro h
  have h1 : getAtPath (.obj []) (splitPath "a") = none := by rfl
  have h2 : getAtPath (.obj [("a", .arr [])]) (splitPath "a") = some (.arr []) := by rfl
  rw [h1, h2] at h
  cases h

/-! ## total characterisations of the update entry points -/

/-- `update_from_str` in one equation: the three ways it can end. -/
theorem updateFromStr_char (norm : Norm) (doc : Doc) (fmt : String) (self : Json) :
    updateFromStr norm doc fmt self =
      match parseToValue doc fmt with
      | .error e => (.error e, self)
      | .ok ov =>
        match norm (mergeJson self ov) with
        | .ok s => (.ok (), s)
        | .error e => (.error e, self) := by
  unfold updateFromStr withString
  cases parseToValue doc fmt with
  | error e => rfl
  | ok ov =>
    simp only
    cases norm (mergeJson self ov) <;> rfl

/-- `set_value` in one equation; a failing `set_at_path` surfaces as `BadParam`. -/
theorem setValue_char (norm : Norm) (path : String) (v self : Json) :
    setValue norm path v self =
      match setAtPath self (splitPath path) v with
      | .error _ => (.error .path, self)
      | .ok m =>
        match norm m with
        | .ok s => (.ok (), s)
        | .error e => (.error e, self) := by
  unfold setValue withValue
  cases setAtPath self (splitPath path) v with
  | error e => rfl
  | ok m =>
    simp only
    cases norm m <;> rfl

/-- The settings change only through a successful step: if the value after `update_from_str`
differs from the value before, the call returned `Ok` and the new value is the normalised merge. -/
theorem updateFromStr_changed (norm : Norm) (doc : Doc) (fmt : String) (self : Json)
    (h : (updateFromStr norm doc fmt self).2 ≠ self) :
    ∃ ov, parseToValue doc fmt = .ok ov ∧
      norm (mergeJson self ov) = .ok (updateFromStr norm doc fmt self).2 ∧
      (updateFromStr norm doc fmt self).1 = .ok () := by
  rw [updateFromStr_char] at h ⊢
  cases hp : parseToValue doc fmt with
  | error e => rw [hp] at h; exact absurd rfl h
  | ok ov =>
    rw [hp] at h
    simp only at h ⊢
    cases hn : norm (mergeJson self ov) with
    | error e => rw [hn] at h; exact absurd rfl h
    | ok s => exact ⟨ov, rfl, hn, rfl⟩

/-! ## files and `IntoSettings for Value` -/

/-- `with_file` succeeds exactly when the extension is present and UTF-8, the file can be read,
and `with_string` on the (lossily decoded) content with the extension as the format succeeds. -/
theorem withFile_ok_iff (norm : Norm) (self : Json) (f : FileIn) (s : Json) :
    withFile norm self f = .ok s ↔
      ∃ e doc, f.ext = some e ∧ f.extUtf8 = true ∧ f.read = some doc ∧
        withString norm self doc e = .ok s := by
  unfold withFile
  cases he : f.ext with
  | none => simp
  | some e =>
    cases hu : f.extUtf8 with
    | false => simp
    | true =>
      cases hr : f.read with
      | none => simp
      | some doc => simp

/-- the error order of `with_file`: extension before read before format/parse/validation -/
theorem withFile_errors (norm : Norm) (self : Json) (f : FileIn) :
    (f.ext = none ∨ f.extUtf8 = false → withFile norm self f = .error .ext) ∧
    (∀ e, f.ext = some e → f.extUtf8 = true → f.read = none → withFile norm self f = .error .io) := by
  constructor
  · rintro (h | h)
    · simp [withFile, h]
    · unfold withFile
      cases f.ext with
      | none => rfl
      | some e => simp [h]
  · intro e he hu hr
    simp [withFile, he, hu, hr]

/-- `from_file` (thread-local): whatever goes wrong — no extension, unreadable file, unsupported
extension, parse, type or validation error — the thread-local value stays as it was; on success
it is the merged document. -/
theorem fromFile_char (norm : Norm) (f : FileIn) (tl : Json) :
    fromFile norm f tl =
      match f.ext, f.read with
      | none, _ => (.error .format, tl)
      | some _, none => (.error .io, tl)
      | some e, some doc => fromString norm doc e tl := by
  unfold fromFile
  cases f.ext with
  | none => rfl
  | some e => cases f.read <;> rfl

theorem failed_fromFile_unchanged (norm : Norm) (f : FileIn) (tl : Json) (e : Err)
    (h : (fromFile norm f tl).1 = .error e) : (fromFile norm f tl).2 = tl := by
  rw [fromFile_char] at h ⊢
  cases he : f.ext with
  | none => rfl
  | some x =>
    cases hr : f.read with
    | none => rfl
    | some doc =>
      rw [he, hr] at h
      exact failed_fromString_unchanged norm doc x tl e h

/-- `IntoSettings for serde_json::Value` = overlaying the value (as the JSON parser reads back
its serialisation) on the defaults. -/
theorem intoSettingsValue_eq (norm : Norm) (dflt : Json) (doc : Doc) :
    intoSettingsValue norm dflt doc = withString norm dflt doc "json" := by
  unfold intoSettingsValue updateFromStr
  cases withString norm dflt doc "json" <;> rfl

/-- when serde_json round-trips the value, that is the normalised merge of defaults and value -/
theorem intoSettingsValue_roundtrip (norm : Norm) (dflt v : Json) (doc : Doc) (h : doc.json = .ok v) :
    intoSettingsValue norm dflt doc = norm (mergeJson dflt v) := by
  rw [intoSettingsValue_eq]
  unfold withString
  have : parseToValue doc "json" = .ok v := by simp [parseToValue, toLower_json, h]
  rw [this]

theorem failed_setSettingsValue_unchanged (norm : Norm) (dflt : Json) (doc : Doc) (ctx : Json) (e : Err)
    (h : (setSettingsValue norm dflt doc ctx).1 = .error e) :
    (setSettingsValue norm dflt doc ctx).2 = ctx := by
  unfold setSettingsValue at h ⊢
  cases hi : intoSettingsValue norm dflt doc with
  | error e' => rfl
  | ok s => rw [hi] at h; cases h

/-- `Context::set_settings(&str)`: the error reported is the TOML attempt's (the JSON attempt's
error is discarded by `or_else`). -/
theorem intoSettingsStr_error (norm : Norm) (dflt : Json) (doc : Doc) (e : Err)
    (h : intoSettingsStr norm dflt doc = .error e) :
    withString norm dflt doc "toml" = .error e ∧ ∃ ej, withString norm dflt doc "json" = .error ej := by
  rw [intoSettingsStr_eq] at h
  cases hj : withString norm dflt doc "json" with
  | ok s => rw [hj] at h; cases h
  | error ej =>
    rw [hj] at h
    exact ⟨h, ej, rfl⟩

/-! ## histories -/

/-- a failing step leaves the settings as they were (both kinds of step) -/
theorem step_failed_unchanged (norm : Norm) (self : Json) (op : Op) (e : Err)
    (h : (step norm self op).1 = .error e) : (step norm self op).2 = self := by
  cases op with
  | update doc fmt => exact failed_update_unchanged norm doc fmt self e h
  | setv path v => exact failed_setValue_unchanged norm path v self e h

/-- the steps of a history that succeed (decided along the run) -/
def keepOk (norm : Norm) : Json → List Op → List Op
  | _, [] => []
  | self, op :: rest =>
    match (step norm self op).1 with
    | .ok _ => op :: keepOk norm (step norm self op).2 rest
    | .error _ => keepOk norm self rest

/-- **runOps_failed_noop.** Over a whole history, the failing steps are no-ops: the settings at
the end are those reached by running only the steps that succeeded. -/
theorem runOps_failed_noop (norm : Norm) (ops : List Op) (self : Json) :
    (runOps norm self ops).2 = (runOps norm self (keepOk norm self ops)).2 := by
  induction ops generalizing self with
  | nil => rfl
  | cons op rest ih =>
    rw [keepOk]
    cases hr : (step norm self op).1 with
    | ok u =>
      simp only
      rw [runOps, runOps]
      exact ih _
    | error e =>
      simp only
      rw [runOps]
      simp only
      rw [step_failed_unchanged norm self op e hr]
      exact ih self

/-- every step kept by `keepOk` succeeds when the kept history is run -/
theorem runOps_keepOk_all_ok (norm : Norm) (ops : List Op) (self : Json) :
    ∀ r ∈ (runOps norm self (keepOk norm self ops)).1, r = .ok () := by
  induction ops generalizing self with
  | nil => intro r hr; simp [keepOk, runOps] at hr
  | cons op rest ih =>
    rw [keepOk]
    cases hr : (step norm self op).1 with
    | ok u =>
      simp only
      rw [runOps]
      intro r hmem
      simp only [List.mem_cons] at hmem
      rcases hmem with h | h
      · rw [h, hr]
      · exact ih _ r h
    | error e =>
      simp only
      exact ih self

/-- a history in which every step fails ends where it started -/
theorem runOps_all_failed (norm : Norm) (ops : List Op) (self : Json)
    (h : ∀ r ∈ (runOps norm self ops).1, ∃ e, r = .error e) : (runOps norm self ops).2 = self := by
  induction ops generalizing self with
  | nil => rfl
  | cons op rest ih =>
    rw [runOps] at h ⊢
    simp only [List.mem_cons, forall_eq_or_imp] at h
    obtain ⟨⟨e, he⟩, hrest⟩ := h
    simp only
    have hs := step_failed_unchanged norm self op e he
    rw [hs] at hrest ⊢
    exact ih self hrest

/-- A step *avoids* the path `q`: an overlay whose document (if it parses) has unique keys and
does not name `q`; a `set_value` on a path that is neither a prefix of `q` nor below `q`. -/
def Op.avoids (q : List String) : Op → Prop
  | .update doc fmt => ∀ ov, parseToValue doc fmt = .ok ov → WF ov ∧ names ov q = false
  | .setv path _ => ¬ splitPath path <+: q ∧ ¬ q <+: splitPath path

/-- one step that avoids `q` keeps what is read at `q` — whether it succeeds or fails — provided
`norm` keeps `q` -/
theorem step_avoids_keeps (norm : Norm) (q : List String) (hq : q.length ≤ mergeMaxDepth)
    (hkeep : ∀ m s, norm m = .ok s → getAtPath s q = getAtPath m q)
    (self : Json) (op : Op) (hav : op.avoids q) :
    getAtPath (step norm self op).2 q = getAtPath self q := by
  cases op with
  | update doc fmt =>
    rw [step, updateFromStr_char]
    cases hp : parseToValue doc fmt with
    | error e => rfl
    | ok ov =>
      simp only
      obtain ⟨hw, hn⟩ := hav ov hp
      cases hnm : norm (mergeJson self ov) with
      | error e => rfl
      | ok s =>
        simp only
        rw [hkeep _ _ hnm]
        exact mergeJson_frame q self ov hw hq hn
  | setv path v =>
    rw [step, setValue_char]
    cases hs : setAtPath self (splitPath path) v with
    | error e => rfl
    | ok m =>
      simp only
      cases hnm : norm m with
      | error e => rfl
      | ok s =>
        simp only
        rw [hkeep _ _ hnm]
        exact set_frame _ q self v m hs hav.1 hav.2

/-- **runOps_frame.** Any history of steps that avoid `q` — successful or not, overlays and path
updates mixed — leaves what is read at `q` unchanged, provided `norm` keeps `q`. -/
theorem runOps_frame (norm : Norm) (q : List String) (hq : q.length ≤ mergeMaxDepth)
    (hkeep : ∀ m s, norm m = .ok s → getAtPath s q = getAtPath m q)
    (ops : List Op) (self : Json) (hav : ∀ op ∈ ops, op.avoids q) :
    getAtPath (runOps norm self ops).2 q = getAtPath self q := by
  induction ops generalizing self with
  | nil => rfl
  | cons op rest ih =>
    rw [runOps]
    simp only
    rw [ih _ (fun o ho => hav o (List.mem_cons_of_mem _ ho))]
    exact step_avoids_keeps norm q hq hkeep self op (hav op List.mem_cons_self)

/-- **readback_after_history.** `set_value(path, v)` succeeds, then any history of steps that do
not name the path: `get_value(path)` still returns `v` (the ledger oracle of the harness). -/
theorem readback_after_history (norm : Norm) (path : String) (v self s : Json)
    (hq : (splitPath path).length ≤ mergeMaxDepth)
    (hkeep : ∀ m s, norm m = .ok s → getAtPath s (splitPath path) = getAtPath m (splitPath path))
    (hset : setValue norm path v self = (.ok (), s))
    (ops : List Op) (hav : ∀ op ∈ ops, op.avoids (splitPath path)) :
    getValue (runOps norm s ops).2 path = .ok v := by
  obtain ⟨m, hm, hn⟩ := (setValue_ok_spec norm path v self s).1 hset
  have h1 := (setValue_getValue_kept norm path v self m s hm hn (hkeep m s hn)).2
  unfold getValue at h1 ⊢
  rw [runOps_frame norm _ hq hkeep ops s hav]
  exact h1

-- non-vacuity: set-up of `a.x`, then an overlay naming only `a.y`, a rejected overlay and a set of `b`
example :
    runOps (fun m => if (getAtPath m ["bad"]).isNone then .ok m else .error .invalid)
      (.obj [("a", .obj [("x", .bool true)])])
      [.update ⟨.ok (.obj [("a", .obj [("y", .num "2")])]), .error .parse⟩ "json",
       .update ⟨.ok (.obj [("bad", .null)]), .error .parse⟩ "json",
       .setv "b" (.str "z")] =
      ([.ok (), .error .invalid, .ok ()],
       .obj [("a", .obj [("x", .bool true), ("y", .num "2")]), ("b", .str "z")]) := by
  rfl

-- … and those steps avoid `a.x`
example : (Op.update ⟨.ok (.obj [("a", .obj [("y", .num "2")])]), .error .parse⟩ "json").avoids ["a", "x"] := by
  intro ov h
  have hp : parseToValue ⟨.ok (.obj [("a", .obj [("y", .num "2")])]), .error .parse⟩ "json"
      = .ok (.obj [("a", .obj [("y", .num "2")])]) := by simp [parseToValue, toLower_json]
  rw [hp] at h
  cases h
  exact ⟨by simp [WF, WFFields, keys], by rfl⟩

example : (Op.setv "b" (.str "z")).avoids ["a", "x"] := by
  have hb : splitPath "b" = ["b"] := by decide
  show ¬ splitPath "b" <+: ["a", "x"] ∧ ¬ ["a", "x"] <+: splitPath "b"
  rw [hb]
  constructor
  · intro h
    have := (List.cons_prefix_cons.1 h).1
    simp at this
  · intro h
    have := (List.cons_prefix_cons.1 h).1
    simp at this

end C2pa.C25
