import C2paModel.Model.C36
import C2paModel.Props.C04
/-
C36 — property theorems. The statement (properties.jsonl):

  A time-stamp token is used as the signing time only if its message imprint matches the claim
  signature it accompanies and its CMS signature verifies; otherwise a time-stamp failure is
  reported and the signing time is not taken from it. A signing certificate that has expired is
  accepted only when a matching, valid time-stamp places the signing inside the certificate's
  validity period.

All theorems quantify over every token (any number of `SignerInfo`s with arbitrary facts), every
header, every signing-certificate fact record and every configuration.
-/
namespace C2pa.C36

open C2pa.C04 (Code Kind)

/-- What `step` demands of a `SignerInfo` before its time is returned. -/
def Accept (data : Msg) (vt : Bool) (s : SInfo) : Prop :=
  s.certFound = true ∧ s.tstOk = true ∧
  (s.signedAttrs = true → s.md = .value true ∧ s.digestAlgKnown = true) ∧
  s.encodable = true ∧ (s.signedAttrs = true ∨ s.hasContent = true) ∧
  s.sigOk = true ∧
  (s.notBefore - s.margin ≤ effTime s ∧ effTime s ≤ s.notAfter + s.margin) ∧
  s.imprintAlgKnown = true ∧ s.imprint = data ∧
  (vt = true → s.chainParses = true ∧ s.profileOk = true ∧ s.trusted = true) ∧
  s.sigAlgSupported = true

/-- The statement's binding condition: the imprint is the digest of `data`, and the CMS signature
verifies over signed attributes whose message digest is that of the TSTInfo (or over the TSTInfo
itself when there are no signed attributes). -/
def Bound (data : Msg) (s : SInfo) : Prop :=
  s.certFound = true ∧ s.imprint = data ∧ s.imprintAlgKnown = true ∧ s.sigOk = true ∧
  (s.signedAttrs = true → s.md = .value true) ∧ s.sigAlgSupported = true

theorem Accept.bound {data vt s} (h : Accept data vt s) : Bound data s :=
  ⟨h.1, h.2.2.2.2.2.2.2.2.1, h.2.2.2.2.2.2.2.1, h.2.2.2.2.2.1, fun a => (h.2.2.1 a).1,
    h.2.2.2.2.2.2.2.2.2.2⟩

/-- **Accepted ⇒ the CMS signature was verified by a validator the SDK has** — never "no validator,
so not checked". -/
theorem Accept.signature_verified {data vt s} (h : Accept data vt s) :
    s.sigAlgSupported = true ∧ s.sigOk = true :=
  ⟨h.2.2.2.2.2.2.2.2.2.2, h.2.2.2.2.2.1⟩

def okLog : List Entry := [succ cValidated, succ cTsTrusted]

theorem attrCheck_none_iff (s : SInfo) :
    attrCheck s = none ↔ (s.signedAttrs = true → s.md = .value true ∧ s.digestAlgKnown = true) := by
  unfold attrCheck
  cases hs : s.signedAttrs
  · simp
  · cases hm : s.md with
    | absent => simp
    | multi => simp
    | undecodable => simp
    | value m => cases hd : s.digestAlgKnown <;> cases m <;> simp

theorem attrCheck_some_fail (s : SInfo) (r : Step) (h : attrCheck s = some r) :
    ∃ e c, r = .fail e [info c] ∧ (c = cMalformed ∨ c = cMismatch) := by
  unfold attrCheck at h
  cases hs : s.signedAttrs <;> rw [hs] at h
  · simp at h
  · cases hm : s.md with
    | absent => rw [hm] at h; simp at h; exact ⟨_, _, h.symm, Or.inl rfl⟩
    | multi => rw [hm] at h; simp at h; exact ⟨_, _, h.symm, Or.inl rfl⟩
    | undecodable => rw [hm] at h; simp at h; exact ⟨_, _, h.symm, Or.inl rfl⟩
    | value m =>
      rw [hm] at h
      cases hd : s.digestAlgKnown <;> rw [hd] at h
      · simp at h; exact ⟨_, _, h.symm, Or.inl rfl⟩
      · cases m
        · simp at h; exact ⟨_, _, h.symm, Or.inr rfl⟩
        · simp at h

theorem trustCheck_none_iff (s : SInfo) (pre : List Entry) :
    trustCheck s pre = none ↔ s.chainParses = true ∧ s.profileOk = true ∧ s.trusted = true := by
  unfold trustCheck
  cases s.chainParses <;> cases s.profileOk <;> cases s.trusted <;> simp

theorem trustCheck_some_fail (s : SInfo) (pre : List Entry) (r : Step)
    (h : trustCheck s pre = some r) :
    ∃ l, r = .fail .untrusted (l ++ [info cTsUntrusted]) ∧
      (l = pre ∨ l = pre ++ s.profileLog.map failE) := by
  unfold trustCheck at h
  cases hc : s.chainParses <;> rw [hc] at h
  · simp at h; exact ⟨pre, h.symm, Or.inl rfl⟩
  · cases hp : s.profileOk <;> rw [hp] at h
    · simp at h; exact ⟨pre ++ s.profileLog.map failE, by rw [← h]; simp, Or.inr rfl⟩
    · cases ht : s.trusted <;> rw [ht] at h
      · simp at h; exact ⟨pre, h.symm, Or.inl rfl⟩
      · simp at h

theorem withinValidity_iff (s : SInfo) :
    withinValidity s = true ↔
      (s.notBefore - s.margin ≤ effTime s ∧ effTime s ≤ s.notAfter + s.margin) := by
  unfold withinValidity
  simp [Bool.and_eq_true, decide_eq_true_eq, ge_iff_le]

theorem validated_ne_trusted : cValidated ≠ cTsTrusted := by decide

theorem succ_ne_info (c d : Code) : succ c ≠ info d := by simp [succ, info]
theorem succ_ne_failE (c d : Code) : succ c ≠ failE d := by simp [succ, failE]

theorem succ_not_mem_map_failE (c : Code) (l : List Code) : succ c ∉ l.map failE := by
  intro h
  obtain ⟨d, _, hd⟩ := List.mem_map.1 h
  exact succ_ne_failE c d hd.symm

theorem trusted_not_mem_pre : succ cTsTrusted ∉ [succ cValidated] := by
  intro h
  have := List.mem_singleton.1 h
  simp only [succ, Prod.mk.injEq, and_true] at this
  exact validated_ne_trusted this.symm

/-- Forward: a returned time means every demand of `Accept` holds. -/
theorem step_ok_imp (data : Msg) (vt : Bool) (s : SInfo) (t : Int) (l : List Entry)
    (h : step data vt s = .ok t l) : Accept data vt s ∧ t = effTime s ∧ l = okLog := by
  unfold step at h
  cases h1 : s.certFound <;> rw [h1] at h
  · simp at h
  cases h2 : s.tstOk <;> rw [h2] at h
  · simp at h
  cases ha : attrCheck s with
  | some r =>
    rw [ha] at h
    obtain ⟨e, c, hr, _⟩ := attrCheck_some_fail s r ha
    subst hr; simp at h
  | none =>
    rw [ha] at h
    have hy := (attrCheck_none_iff s).1 ha
    simp only [Bool.not_eq_true'] at h
    cases h3 : s.encodable <;> rw [h3] at h
    · simp at h
    cases h4 : (!s.signedAttrs && !s.hasContent) <;> rw [h4] at h
    case true => simp at h
    have h4' : s.signedAttrs = true ∨ s.hasContent = true := by
      cases hs : s.signedAttrs <;> cases hc : s.hasContent <;> simp [hs, hc] at h4 ⊢
    cases h5v : sigVerified s <;> rw [h5v] at h
    · simp at h
    have h5 : s.sigOk = true := by simp [sigVerified] at h5v; exact h5v.2
    have h5a : s.sigAlgSupported = true := by simp [sigVerified] at h5v; exact h5v.1
    cases h6 : withinValidity s <;> rw [h6] at h
    · simp at h
    have h6' := (withinValidity_iff s).1 h6
    cases h7 : s.imprintAlgKnown <;> rw [h7] at h
    · simp at h
    by_cases h8 : s.imprint = data
    case neg => simp [h8] at h
    cases vt
    case false =>
      simp [h8] at h
      obtain ⟨rfl, rfl⟩ := h
      exact ⟨⟨h1, h2, hy, h3, h4', h5, h6', h7, h8, by simp, h5a⟩, rfl, rfl⟩
    case true =>
      cases ht : trustCheck s [succ cValidated] with
      | some r =>
        obtain ⟨l', hr, _⟩ := trustCheck_some_fail s _ r ht
        subst hr
        simp [h8, ht] at h
      | none =>
        have hz := (trustCheck_none_iff s _).1 ht
        simp [h8, ht] at h
        obtain ⟨rfl, rfl⟩ := h
        exact ⟨⟨h1, h2, hy, h3, h4', h5, h6', h7, h8, fun _ => hz, h5a⟩, rfl, rfl⟩

/-- Backward: under `Accept` the signer's effective time is returned with both success codes. -/
theorem accept_imp_ok (data : Msg) (vt : Bool) (s : SInfo) (h : Accept data vt s) :
    step data vt s = .ok (effTime s) okLog := by
  obtain ⟨h1, h2, hy, h3, h4, h5, h6, h7, h8, h9, h10⟩ := h
  have h5v : sigVerified s = true := by simp [sigVerified, h5, h10]
  have ha := (attrCheck_none_iff s).2 hy
  have h6' := (withinValidity_iff s).2 h6
  have h4' : (!s.signedAttrs && !s.hasContent) = false := by
    rcases h4 with h | h <;> simp [h]
  unfold step
  cases vt
  · simp [h1, h2, ha, h3, h4', h5v, h6', h7, h8, okLog]
  · have ht := (trustCheck_none_iff s [succ cValidated]).2 (h9 rfl)
    simp [h1, h2, ha, h3, h4', h5v, h6', h7, h8, ht, okLog]

/-- `step` accepts exactly under `Accept`, returns the effective time and logs both success codes. -/
theorem step_ok_iff (data : Msg) (vt : Bool) (s : SInfo) (t : Int) (l : List Entry) :
    step data vt s = .ok t l ↔ Accept data vt s ∧ t = effTime s ∧ l = okLog := by
  constructor
  · exact step_ok_imp data vt s t l
  · rintro ⟨h, rfl, rfl⟩; exact accept_imp_ok data vt s h

/-- The four informational time-stamp codes. -/
def IsTsInfo (c : Code) : Prop :=
  c = cMismatch ∨ c = cMalformed ∨ c = cOutside ∨ c = cTsUntrusted

/-- A rejecting `step` always records an informational time-stamp code, never `timeStamp.trusted`. -/
theorem step_fail_reports (data : Msg) (vt : Bool) (s : SInfo) (e : Err) (l : List Entry)
    (h : step data vt s = .fail e l) :
    (∃ c, IsTsInfo c ∧ info c ∈ l) ∧ succ cTsTrusted ∉ l := by
  unfold step at h
  cases h1 : s.certFound <;> rw [h1] at h
  · simp at h; obtain ⟨_, rfl⟩ := h
    exact ⟨⟨_, Or.inr (Or.inr (Or.inr rfl)), by simp⟩, by simp [info, succ]⟩
  cases h2 : s.tstOk <;> rw [h2] at h
  · simp at h; obtain ⟨_, rfl⟩ := h
    exact ⟨⟨_, Or.inr (Or.inl rfl), by simp⟩, by simp [info, succ]⟩
  cases ha : attrCheck s with
  | some r =>
    rw [ha] at h
    obtain ⟨e', c, hr, hc⟩ := attrCheck_some_fail s r ha
    subst hr
    simp at h; obtain ⟨_, rfl⟩ := h
    refine ⟨⟨c, ?_, by simp⟩, by simp [info, succ]⟩
    rcases hc with rfl | rfl
    · exact Or.inr (Or.inl rfl)
    · exact Or.inl rfl
  | none =>
    rw [ha] at h
    simp only [Bool.not_eq_true'] at h
    cases h3 : s.encodable <;> rw [h3] at h
    · simp at h; obtain ⟨_, rfl⟩ := h
      exact ⟨⟨_, Or.inr (Or.inl rfl), by simp⟩, by simp [info, succ]⟩
    cases h4 : (!s.signedAttrs && !s.hasContent) <;> rw [h4] at h
    case true =>
      simp at h; obtain ⟨_, rfl⟩ := h
      exact ⟨⟨_, Or.inr (Or.inl rfl), by simp⟩, by simp [info, succ]⟩
    cases h5 : sigVerified s <;> rw [h5] at h
    · simp at h; obtain ⟨_, rfl⟩ := h
      exact ⟨⟨_, Or.inr (Or.inr (Or.inr rfl)), by simp⟩, by simp [info, succ]⟩
    cases h6 : withinValidity s <;> rw [h6] at h
    · simp at h; obtain ⟨_, rfl⟩ := h
      exact ⟨⟨_, Or.inr (Or.inr (Or.inl rfl)), by simp⟩, by simp [info, succ]⟩
    cases h7 : s.imprintAlgKnown <;> rw [h7] at h
    · simp at h; obtain ⟨_, rfl⟩ := h
      exact ⟨⟨_, Or.inr (Or.inr (Or.inr rfl)), by simp⟩, by simp [info, succ]⟩
    by_cases h8 : s.imprint = data
    case neg =>
      simp [h8] at h; obtain ⟨_, rfl⟩ := h
      exact ⟨⟨_, Or.inl rfl, by simp⟩, by simp [info, succ]⟩
    cases vt
    · simp [h8] at h
    · cases ht : trustCheck s [succ cValidated] with
      | none => simp [h8, ht] at h
      | some r =>
        obtain ⟨l', hr, hl'⟩ := trustCheck_some_fail s _ r ht
        subst hr
        simp [h8, ht] at h
        obtain ⟨_, rfl⟩ := h
        refine ⟨⟨_, Or.inr (Or.inr (Or.inr rfl)), by simp⟩, ?_⟩
        intro hm
        rcases List.mem_append.1 hm with hm | hm
        · rcases hl' with rfl | rfl
          · exact trusted_not_mem_pre hm
          · rcases List.mem_append.1 hm with hm | hm
            · exact trusted_not_mem_pre hm
            · exact succ_not_mem_map_failE _ _ hm
        · exact succ_ne_info _ _ (List.mem_singleton.1 hm)

theorem step_cases (data : Msg) (vt : Bool) (s : SInfo) :
    (∃ e l, step data vt s = .fail e l) ∨ (∃ t l, step data vt s = .ok t l) := by
  cases h : step data vt s with
  | fail e l => exact Or.inl ⟨e, l, rfl⟩
  | ok t l => exact Or.inr ⟨t, l, rfl⟩

/-- The loop returns a time exactly when some `SignerInfo` is accepted and all earlier ones are
rejected; the time is that signer's effective time and the log is the two success codes. -/
theorem loop_ok_iff (data : Msg) (vt : Bool) (t : Int) :
    ∀ (ss : List SInfo) (e : Err) (cur : List Entry),
      (loop data vt ss e cur).result = .ok t ↔
        ∃ pre s post, ss = pre ++ s :: post ∧ (∀ p ∈ pre, ¬ Accept data vt p) ∧
          Accept data vt s ∧ t = effTime s := by
  intro ss
  induction ss with
  | nil => intro e cur; simp [loop]
  | cons a rest ih =>
    intro e cur
    unfold loop
    rcases step_cases data vt a with ⟨e', l', hf⟩ | ⟨t', l', hk⟩
    · rw [hf]
      have hna : ¬ Accept data vt a := by
        intro hacc
        have := (step_ok_iff data vt a (effTime a) okLog).2 ⟨hacc, rfl, rfl⟩
        rw [hf] at this; cases this
      simp only
      rw [ih e' l']
      constructor
      · rintro ⟨pre, s, post, rfl, hp, hs, ht⟩
        refine ⟨a :: pre, s, post, rfl, ?_, hs, ht⟩
        intro p hp'; cases hp' with
        | head => exact hna
        | tail _ h => exact hp p h
      · rintro ⟨pre, s, post, heq, hp, hs, ht⟩
        cases pre with
        | nil =>
          simp at heq; obtain ⟨rfl, rfl⟩ := heq; exact absurd hs hna
        | cons b pre' =>
          simp at heq; obtain ⟨rfl, rfl⟩ := heq
          exact ⟨pre', s, post, rfl, fun p h => hp p (List.mem_cons_of_mem _ h), hs, ht⟩
    · rw [hk]
      obtain ⟨hacc, rfl, rfl⟩ := (step_ok_iff data vt a t' l').1 hk
      simp only
      constructor
      · intro h; cases h
        exact ⟨[], a, rest, rfl, by simp, hacc, rfl⟩
      · rintro ⟨pre, s, post, heq, hp, hs, ht⟩
        cases pre with
        | nil => simp at heq; obtain ⟨rfl, rfl⟩ := heq; rw [ht]
        | cons b pre' =>
          simp at heq; obtain ⟨rfl, rfl⟩ := heq
          exact absurd hacc (hp _ (List.mem_cons_self ..))

/-- **A time-stamp token is used iff it is bound and valid.** `verify_time_stamp` returns a time
exactly when the token parses and its first acceptable `SignerInfo` exists; the time returned is
that signer's. -/
theorem timestamp_used_iff_bound_and_valid (tok : Token) (data : Msg) (vt : Bool) (t : Int) :
    (verifyTimeStamp tok data vt).result = .ok t ↔
      ∃ pre s post, tok = .parsed (pre ++ s :: post) ∧ (∀ p ∈ pre, ¬ Accept data vt p) ∧
        Accept data vt s ∧ t = effTime s := by
  cases tok with
  | unparsable => simp [verifyTimeStamp]
  | noCerts => simp [verifyTimeStamp]
  | badCerts => simp [verifyTimeStamp]
  | parsed ss =>
    cases ss with
    | nil => simp [verifyTimeStamp]
    | cons a rest =>
      simp only [verifyTimeStamp]
      rw [loop_ok_iff]
      constructor
      · rintro ⟨pre, s, post, h, r⟩; exact ⟨pre, s, post, by rw [h], r⟩
      · rintro ⟨pre, s, post, h, r⟩; exact ⟨pre, s, post, Token.parsed.inj h, r⟩

/-- **Used only if the imprint matches and the CMS signature verifies** (the statement's
"only if", with the signer named). -/
theorem timestamp_used_only_if_bound (tok : Token) (data : Msg) (vt : Bool) (t : Int)
    (h : (verifyTimeStamp tok data vt).result = .ok t) :
    ∃ ss s, tok = .parsed ss ∧ s ∈ ss ∧ Bound data s ∧ t = effTime s := by
  obtain ⟨pre, s, post, rfl, _, hs, ht⟩ := (timestamp_used_iff_bound_and_valid tok data vt t).1 h
  exact ⟨_, s, rfl, by simp, hs.bound, ht⟩

/-- **A token is used as signing time only if the CMS signature of the accepted `SignerInfo` was
verified by a validator the SDK has**: a key / digest pair without a validator (ecdsa-with-SHA1,
EC or RSA with SHA-224/MD5, RSASSA-PSS with SHA-1, Ed448, …) is a rejection, not a pass. -/
theorem timestamp_used_only_if_signature_verified (tok : Token) (data : Msg) (vt : Bool) (t : Int)
    (h : (verifyTimeStamp tok data vt).result = .ok t) :
    ∃ ss s, tok = .parsed ss ∧ s ∈ ss ∧ s.sigAlgSupported = true ∧ s.sigOk = true ∧ t = effTime s := by
  obtain ⟨pre, s, post, rfl, _, hs, ht⟩ := (timestamp_used_iff_bound_and_valid tok data vt t).1 h
  exact ⟨_, s, rfl, by simp, hs.signature_verified.1, hs.signature_verified.2, ht⟩

/-- No validator ⇒ rejected with `timeStamp.untrusted`, whatever else holds (even a "good" signature). -/
theorem unsupported_sig_alg_rejected (data : Msg) (vt : Bool) (s : SInfo)
    (h : s.sigAlgSupported = false) : ¬ Accept data vt s := by
  intro ha; rw [ha.signature_verified.1] at h; cases h

/-- The two `Accept` examples: the hypotheses are satisfiable and a bound token is used. -/
def goodSigner (d : Msg) : SInfo :=
  { certFound := true, tstOk := true, genTime := 1000, signedAttrs := true, attrTime := some 1001,
    md := .value true, digestAlgKnown := true, hasContent := true, encodable := true, sigOk := true,
    notBefore := 0, notAfter := 2000, margin := 1, imprintAlgKnown := true, imprint := d,
    chainParses := true, profileOk := true, profileLog := [], trusted := true }

example : (verifyTimeStamp (.parsed [goodSigner (headerMsg true)]) (headerMsg true) true).result
    = .ok 1001 := by decide
example : (verifyTimeStamp (.parsed [goodSigner (headerMsg false)]) (headerMsg true) true).result
    = .error .invalidData := by decide
example : (verifyTimeStamp (.parsed [{ goodSigner (headerMsg true) with sigAlgSupported := false }])
    (headerMsg true) true).result = .error .untrusted := by decide

/-! ### a rejected token is reported -/

theorem loop_error_reports (data : Msg) (vt : Bool) :
    ∀ (ss : List SInfo) (e : Err) (cur : List Entry),
      ((∃ c, IsTsInfo c ∧ info c ∈ cur) ∧ succ cTsTrusted ∉ cur) ∨ ss ≠ [] →
      ∀ e', (loop data vt ss e cur).result = .error e' →
        (∃ c, IsTsInfo c ∧ info c ∈ (loop data vt ss e cur).log) ∧
          succ cTsTrusted ∉ (loop data vt ss e cur).log := by
  intro ss
  induction ss with
  | nil =>
    intro e cur h e' _
    rcases h with h | h
    · simpa [loop] using h
    · exact absurd rfl h
  | cons a rest ih =>
    intro e cur _ e' hr
    unfold loop at hr ⊢
    rcases step_cases data vt a with ⟨e1, l1, hf⟩ | ⟨t1, l1, hk⟩
    · rw [hf] at hr ⊢
      simp only at hr ⊢
      exact ih e1 l1 (Or.inl (step_fail_reports data vt a e1 l1 hf)) e' hr
    · rw [hk] at hr; simp at hr

/-- **Otherwise a time-stamp failure is reported.** Whenever `verify_time_stamp` does not return a
time, the log it appends contains one of `timeStamp.mismatch / malformed / outsideValidity /
untrusted` (informational) and does not contain `timeStamp.trusted`. -/
theorem rejected_token_reported (tok : Token) (data : Msg) (vt : Bool) (e : Err)
    (h : (verifyTimeStamp tok data vt).result = .error e) :
    (∃ c, IsTsInfo c ∧ info c ∈ (verifyTimeStamp tok data vt).log) ∧
      succ cTsTrusted ∉ (verifyTimeStamp tok data vt).log := by
  cases tok with
  | unparsable =>
    exact ⟨⟨_, Or.inr (Or.inl rfl), by simp [verifyTimeStamp]⟩, by simp [verifyTimeStamp, info, succ]⟩
  | noCerts =>
    exact ⟨⟨_, Or.inr (Or.inr (Or.inr rfl)), by simp [verifyTimeStamp]⟩,
      by simp [verifyTimeStamp, info, succ]⟩
  | badCerts =>
    exact ⟨⟨_, Or.inr (Or.inr (Or.inr rfl)), by simp [verifyTimeStamp]⟩,
      by simp [verifyTimeStamp, info, succ]⟩
  | parsed ss =>
    cases ss with
    | nil =>
      exact ⟨⟨_, Or.inr (Or.inl rfl), by simp [verifyTimeStamp]⟩,
        by simp [verifyTimeStamp, info, succ]⟩
    | cons a rest =>
      simp only [verifyTimeStamp] at h ⊢
      exact loop_error_reports data vt (a :: rest) .invalidData [] (Or.inr (by simp)) e h

/-- `timeStamp.trusted` is logged exactly when the token is used. -/
theorem trusted_code_iff_used (tok : Token) (data : Msg) (vt : Bool) :
    succ cTsTrusted ∈ (verifyTimeStamp tok data vt).log ↔
      ∃ t, (verifyTimeStamp tok data vt).result = .ok t := by
  constructor
  · intro hm
    cases hr : (verifyTimeStamp tok data vt).result with
    | ok t => exact ⟨t, rfl⟩
    | error e => exact absurd hm (rejected_token_reported tok data vt e hr).2
  · rintro ⟨t, ht⟩
    obtain ⟨pre, s, post, rfl, hp, hs, rfl⟩ := (timestamp_used_iff_bound_and_valid tok data vt t).1 ht
    -- the loop ends at `s` with `okLog`
    have key : ∀ (pre : List SInfo) (e : Err) (cur : List Entry),
        (∀ p ∈ pre, ¬ Accept data vt p) →
        (loop data vt (pre ++ s :: post) e cur).log = okLog := by
      intro pre
      induction pre with
      | nil =>
        intro e cur _
        have := (step_ok_iff data vt s (effTime s) okLog).2 ⟨hs, rfl, rfl⟩
        simp [loop, this]
      | cons b pre' ih =>
        intro e cur hb
        rcases step_cases data vt b with ⟨e1, l1, hf⟩ | ⟨t1, l1, hk⟩
        · simp only [List.cons_append, loop, hf]
          exact ih e1 l1 (fun p h => hb p (List.mem_cons_of_mem _ h))
        · exact absurd ((step_ok_iff data vt b t1 l1).1 hk).1 (hb b (List.mem_cons_self ..))
    have hl : (verifyTimeStamp (.parsed (pre ++ s :: post)) data vt).log = okLog := by
      cases hpre : pre with
      | nil => simp only [List.nil_append, verifyTimeStamp]; exact key [] _ _ (by simp)
      | cons b pre' =>
        simp only [List.cons_append, verifyTimeStamp]
        have := key (b :: pre') .invalidData [] (by rw [← hpre]; exact hp)
        simpa using this
    rw [hl]; simp [okLog]

/-! ### COSE header -/

/-- **The header time-stamp gives the signing time iff there is exactly one token and it is bound
to the message this header kind must cover** (`sigTst2`: the CBOR-wrapped signature; `sigTst`:
the payload; both inside the countersignature structure). -/
theorem header_time_iff (h : Header) (vt : Bool) (t : Int) :
    (validateCoseTst h vt).1 = some t ↔
      ∃ v2 tok, h = .present v2 (.toks [tok]) ∧
        (verifyTimeStamp tok (headerMsg v2) vt).result = .ok t := by
  cases h with
  | absent => simp [validateCoseTst]
  | present v2 c =>
    cases c with
    | unparsable => simp [validateCoseTst]
    | toks l =>
      match l with
      | [] => simp [validateCoseTst]
      | [tok] =>
        simp only [validateCoseTst, List.length_singleton, Nat.lt_irrefl, if_false,
          gt_iff_lt]
        cases hr : (verifyTimeStamp tok (headerMsg v2) vt).result with
        | ok x =>
          constructor
          · intro h; cases h; exact ⟨v2, tok, rfl, hr⟩
          · rintro ⟨v2', tok', heq, hr'⟩
            cases heq; rw [hr] at hr'; cases hr'; rfl
        | error e =>
          constructor
          · intro h; cases h
          · rintro ⟨v2', tok', heq, hr'⟩
            cases heq; rw [hr] at hr'; cases hr'
      | a :: b :: rest =>
        have : (a :: b :: rest).length > 1 := by simp
        simp only [validateCoseTst, this, if_true]
        constructor
        · intro h; cases h
        · rintro ⟨_, _, heq, _⟩; cases heq

/-- A header that carries tokens but yields no time reports an informational time-stamp code. -/
theorem header_rejection_reported (v2 : Bool) (l : List Token) (vt : Bool) (hl : l ≠ [])
    (h : (validateCoseTst (.present v2 (.toks l)) vt).1 = none) :
    ∃ c, IsTsInfo c ∧ info c ∈ (validateCoseTst (.present v2 (.toks l)) vt).2 := by
  match l, hl with
  | [tok], _ =>
    simp only [validateCoseTst, List.length_singleton, Nat.lt_irrefl, if_false, gt_iff_lt] at h ⊢
    cases hr : (verifyTimeStamp tok (headerMsg v2) vt).result with
    | ok x => rw [hr] at h; cases h
    | error e => exact (rejected_token_reported tok _ vt e hr).1
  | a :: b :: rest, _ =>
    have : (a :: b :: rest).length > 1 := by simp
    simp only [validateCoseTst, this, if_true]
    exact ⟨_, Or.inr (Or.inl rfl), by simp⟩

/-! ### expired signing certificate -/

theorem validAt_iff (nb na t : Int) : validAt nb na t = true ↔ nb ≤ t ∧ t ≤ na := by
  simp [validAt]

/-- `signingCredential.expired` is logged by the profile check exactly when the certificate is v3
and the checked time (time-stamp if used, else now) is outside its validity. -/
theorem profile_expired_iff (s : Signing) (tst : Option Int) (now : Int) :
    failE cExpired ∈ profileLog s tst now ↔
      s.versionOk = true ∧
        validAt s.notBefore s.notAfter (checkTime tst now) = false := by
  have hne : failE cExpired ≠ failE cCredInvalid := by
    intro h
    simp only [failE, Prod.mk.injEq, and_true] at h
    exact absurd h (by decide)
  unfold profileLog
  cases hv : s.versionOk
  · simp only [Bool.not_false, if_true, List.mem_singleton]
    constructor
    · intro h; exact absurd h hne
    · rintro ⟨h, _⟩; cases h
  · cases hva : validAt s.notBefore s.notAfter (checkTime tst now)
    · simp
    · cases hr : s.restOk
      · simp only [Bool.not_true, Bool.false_eq_true, if_false, Bool.not_false, if_true,
          List.mem_singleton]
        constructor
        · intro h; exact absurd h hne
        · rintro ⟨_, h⟩; cases h
      · simp

/-- **An expired (or not yet valid) signing certificate is accepted only with a matching, valid
time-stamp inside its validity.** If the certificate is not valid now and the validation log does
not contain `signingCredential.expired`, then a time was used, it lies inside the certificate's
validity, and it came either from a verified time-stamp assertion (`ext`) or from a single header
token for which `verify_time_stamp` succeeded (hence bound and valid by
`timestamp_used_iff_bound_and_valid`). -/
theorem expired_cert_needs_valid_timestamp (ext : Option Int) (h : Header) (s : Signing) (cfg : Cfg)
    (hc : cfg.certCheck = true) (hv : s.versionOk = true)
    (hnow : ¬ (s.notBefore ≤ cfg.now ∧ cfg.now ≤ s.notAfter))
    (hlog : failE cExpired ∉ claimLog ext h s cfg) :
    ∃ t, (usedTime ext h cfg).1 = some t ∧ s.notBefore ≤ t ∧ t ≤ s.notAfter ∧
      (ext = some t ∨
        (ext = none ∧ ∃ v2 tok, h = .present v2 (.toks [tok]) ∧
          (verifyTimeStamp tok (headerMsg v2) cfg.tsTrust).result = .ok t)) := by
  have hp : failE cExpired ∉ profileLog s (usedTime ext h cfg).1 cfg.now := by
    intro hm; apply hlog
    unfold claimLog coseLog
    simp only [hc, if_true, List.mem_append]
    exact Or.inl (Or.inl (Or.inr hm))
  rw [profile_expired_iff] at hp
  cases hu : (usedTime ext h cfg).1 with
  | none =>
    rw [hu] at hp
    simp only [checkTime] at hp
    exfalso; apply hp
    refine ⟨hv, ?_⟩
    cases hva : validAt s.notBefore s.notAfter cfg.now
    · rfl
    · exact absurd ((validAt_iff _ _ _).1 hva) hnow
  | some t =>
    rw [hu] at hp
    simp only [checkTime] at hp
    have hva : validAt s.notBefore s.notAfter t = true := by
      cases hva : validAt s.notBefore s.notAfter t
      · exact absurd ⟨hv, hva⟩ hp
      · rfl
    obtain ⟨h1, h2⟩ := (validAt_iff _ _ _).1 hva
    refine ⟨t, rfl, h1, h2, ?_⟩
    cases ext with
    | some x => simp [usedTime] at hu; exact Or.inl (by rw [hu])
    | none =>
      simp only [usedTime] at hu
      exact Or.inr ⟨rfl, (header_time_iff h cfg.tsTrust t).1 hu⟩

/-! #### … and is Invalid otherwise -/

theorem mem_foldl_add_failure (l : List Entry) (c : Code) (acc : C04.Codes) :
    (c ∈ acc.failure ∨ (c, Kind.failure) ∈ l) →
      c ∈ (l.foldl (fun a e => a.add { code := e.1, kind := e.2, uri := none }) acc).failure := by
  induction l generalizing acc with
  | nil => intro h; rcases h with h | h; exact h; cases h
  | cons x xs ih =>
    intro h
    simp only [List.foldl_cons]
    apply ih
    rcases h with h | h
    · left
      unfold C04.Codes.add
      cases x.2 <;> simp [h]
    · cases h with
      | head => left; simp [C04.Codes.add]
      | tail _ h => right; exact h

theorem mem_toCodes_failure (l : List Entry) (c : Code) (h : failE c ∈ l) :
    c ∈ (toCodes l).failure :=
  mem_foldl_add_failure l c {} (Or.inr h)

theorem expired_not_tolerated : C04.tolerated cExpired = false := by decide

/-- **Without such a time-stamp the manifest is Invalid.** Certificate not valid at the time that
is checked (the used time-stamp's time, or now when none is used) ⇒ `signingCredential.expired`
is a failure of the active manifest ⇒ state Invalid (C04), whatever other failures were logged. -/
theorem expired_cert_without_timestamp_invalid (extra : List Code) (ext : Option Int) (h : Header)
    (s : Signing) (cfg : Cfg) (hc : cfg.certCheck = true) (hv : s.versionOk = true)
    (hbad : ¬ (s.notBefore ≤ checkTime (usedTime ext h cfg).1 cfg.now ∧
      checkTime (usedTime ext h cfg).1 cfg.now ≤ s.notAfter)) :
    claimStateX extra ext h s cfg = .invalid := by
  have hm : failE cExpired ∈ claimLog ext h s cfg ++ extra.map failE := by
    unfold claimLog coseLog
    simp only [hc, if_true, List.mem_append]
    refine Or.inl (Or.inl (Or.inl (Or.inr ?_)))
    rw [profile_expired_iff]
    refine ⟨hv, ?_⟩
    cases hva : validAt s.notBefore s.notAfter (checkTime (usedTime ext h cfg).1 cfg.now)
    · rfl
    · exact absurd ((validAt_iff _ _ _).1 hva) hbad
  have hf := mem_toCodes_failure _ _ hm
  unfold claimStateX
  rw [C04.state_invalid_iff]
  rintro ⟨a, ha, _, _, htol, _⟩
  simp only [Option.some.injEq] at ha
  subst ha
  have := htol _ hf
  rw [expired_not_tolerated] at this
  cases this

/-- Non-vacuity: an expired certificate with a bound, valid time-stamp inside its validity is
accepted (Trusted), and the same certificate with a time-stamp for another message is Invalid. -/
def expiredCert : Signing :=
  { notBefore := 0, notAfter := 1500, versionOk := true, restOk := true, trustNoTime := true,
    trustAtTst := true, sigOk := true }

example : claimState none (.present true (.toks [.parsed [goodSigner (headerMsg true)]])) expiredCert
    { verifyTrust := true, tsTrust := true, now := 5000 } = .trusted := by decide
example : claimState none (.present true (.toks [.parsed [goodSigner (headerMsg false)]])) expiredCert
    { verifyTrust := true, tsTrust := true, now := 5000 } = .invalid := by decide
example : claimState none .absent expiredCert
    { verifyTrust := true, tsTrust := true, now := 5000 } = .invalid := by decide

/-! ### the header that is looked at -/

/-- **`get_cose_tst_info` takes the first `sigTst2`/`sigTst` entry in header order**; later entries
(even a `sigTst2` after a `sigTst`) are never looked at. -/
theorem headerOf_first (v2 : Bool) (c : Container) (rest : List (Bool × Container)) :
    headerOf ((v2, c) :: rest) = .present v2 c := rfl

/-- With both kinds present the unprotected-header order decides: a bound `sigTst2` token behind an
unusable `sigTst` entry gives no time, the same two entries in the other order do. -/
example : (validateCoseTst (headerOf [(false, .unparsable),
      (true, .toks [.parsed [goodSigner (headerMsg true)]])]) true).1 = none := by decide
example : (validateCoseTst (headerOf [(true, .toks [.parsed [goodSigner (headerMsg true)]]),
      (false, .unparsable)]) true).1 = some 1001 := by decide

/-- The statement says a token must match "the claim signature it accompanies". -/
def HeaderTokenCoversSignature : Prop := ∀ v2, (headerMsg v2).data = .sigCbor

/-- **False for the legacy `sigTst` header**: its token covers the claim bytes (COSE payload) inside
the countersignature structure, not the signature — the token stays valid when the same claim is
signed again (replayed by the harness: `transplant/v1`, class `v1-token-survives-resigning`). -/
theorem header_token_covers_signature_false : ¬ HeaderTokenCoversSignature := by
  intro h; have := h false; simp [headerMsg] at this

theorem header_token_covers_signature_partial : (headerMsg true).data = .sigCbor := rfl

theorem v1_header_covers_payload : headerMsg false = ⟨true, .payload⟩ := rfl

/-! ### the displayed signing time -/

/-- **`SignatureInfo.time` is only ever the time of a bound header token** (validated without the
trust part): exactly one token, a `SignerInfo` of it bound to the message this header kind covers. -/
theorem displayed_time_only_if_bound (h : Header) (t : Int) (hd : displayTime h = some t) :
    ∃ v2 tok ss s, h = .present v2 (.toks [tok]) ∧ tok = .parsed ss ∧ s ∈ ss ∧
      Bound (headerMsg v2) s ∧ t = effTime s := by
  obtain ⟨v2, tok, rfl, hr⟩ := (header_time_iff h false t).1 hd
  obtain ⟨ss, s, rfl, hs, hb, ht⟩ := timestamp_used_only_if_bound tok (headerMsg v2) false t hr
  exact ⟨v2, _, ss, s, rfl, rfl, hs, hb, ht⟩

/-! ### time-stamp assertions -/

/-- **The time of a time-stamp assertion is used iff** it is the earliest of the times of the
tokens that `verify_time_stamp` accepts over the raw COSE signature (whatever their order). -/
theorem ext_time_iff (toks : List Token) (vt : Bool) (t : Int) :
    extTime toks vt = some t ↔
      (∃ tok ∈ toks, (verifyTimeStamp tok assertionMsg vt).result = .ok t) ∧
        ∀ tok ∈ toks, ∀ u, (verifyTimeStamp tok assertionMsg vt).result = .ok u → t ≤ u := by
  induction toks generalizing t with
  | nil => simp [extTime]
  | cons a rest ih =>
    unfold extTime
    cases ha : (verifyTimeStamp a assertionMsg vt).result with
    | error e =>
      simp only
      rw [ih t]
      constructor
      · rintro ⟨⟨tok, hm, hr⟩, hmin⟩
        refine ⟨⟨tok, List.mem_cons_of_mem _ hm, hr⟩, ?_⟩
        intro tok' hm' u hu
        rcases List.mem_cons.1 hm' with rfl | hm''
        · rw [ha] at hu; cases hu
        · exact hmin tok' hm'' u hu
      · rintro ⟨⟨tok, hm, hr⟩, hmin⟩
        refine ⟨?_, fun tok' hm' u hu => hmin tok' (List.mem_cons_of_mem _ hm') u hu⟩
        rcases List.mem_cons.1 hm with rfl | hm'
        · rw [ha] at hr; cases hr
        · exact ⟨tok, hm', hr⟩
    | ok x =>
      cases hr : extTime rest vt with
      | none =>
        simp only
        have hnone : ∀ tok ∈ rest, ∀ u, (verifyTimeStamp tok assertionMsg vt).result ≠ .ok u := by
          intro tok hm u hu
          -- an accepted token in `rest` would give `extTime rest` a value
          have key : ∀ (l : List Token), (∃ q ∈ l, ∃ w, (verifyTimeStamp q assertionMsg vt).result = .ok w) →
              ∃ w, extTime l vt = some w := by
            intro l
            induction l with
            | nil => rintro ⟨q, hq, _⟩; cases hq
            | cons c l' ihl =>
              rintro ⟨q, hq, w, hw⟩
              unfold extTime
              cases hc : (verifyTimeStamp c assertionMsg vt).result with
              | ok y =>
                cases hl : extTime l' vt with
                | some z => exact ⟨_, rfl⟩
                | none => exact ⟨_, rfl⟩
              | error e =>
                simp only
                rcases List.mem_cons.1 hq with rfl | hq'
                · rw [hc] at hw; cases hw
                · exact ihl ⟨q, hq', w, hw⟩
          obtain ⟨w, hw⟩ := key rest ⟨tok, hm, u, hu⟩
          rw [hr] at hw; cases hw
        constructor
        · intro h; cases h
          refine ⟨⟨a, List.mem_cons_self .., ha⟩, ?_⟩
          intro tok hm u hu
          rcases List.mem_cons.1 hm with rfl | hm'
          · rw [ha] at hu; cases hu; exact Int.le_refl _
          · exact absurd hu (hnone tok hm' u)
        · rintro ⟨⟨tok, hm, hr'⟩, _⟩
          rcases List.mem_cons.1 hm with rfl | hm'
          · rw [ha] at hr'; cases hr'; rfl
          · exact absurd hr' (hnone tok hm' t)
      | some y =>
        simp only
        obtain ⟨⟨toky, hmy, hry⟩, hminy⟩ := (ih y).1 hr
        constructor
        · intro h
          have ht : t = if y < x then y else x := by cases h; rfl
          by_cases hlt : y < x
          · rw [if_pos hlt] at ht; subst ht
            refine ⟨⟨toky, List.mem_cons_of_mem _ hmy, hry⟩, ?_⟩
            intro tok hm u hu
            rcases List.mem_cons.1 hm with rfl | hm'
            · rw [ha] at hu; cases hu; omega
            · exact hminy tok hm' u hu
          · rw [if_neg hlt] at ht; subst ht
            refine ⟨⟨a, List.mem_cons_self .., ha⟩, ?_⟩
            intro tok hm u hu
            rcases List.mem_cons.1 hm with rfl | hm'
            · rw [ha] at hu; cases hu; exact Int.le_refl _
            · have := hminy tok hm' u hu; omega
        · rintro ⟨⟨tok, hm, hr'⟩, hmin⟩
          have h1 : t ≤ x := hmin a (List.mem_cons_self ..) x ha
          have h2 : t ≤ y := hmin toky (List.mem_cons_of_mem _ hmy) y hry
          have h3 : t = x ∨ y ≤ t := by
            rcases List.mem_cons.1 hm with rfl | hm'
            · rw [ha] at hr'; cases hr'; exact Or.inl rfl
            · exact Or.inr (hminy tok hm' t hr')
          by_cases hlt : y < x
          · rw [if_pos hlt]; congr 1; omega
          · rw [if_neg hlt]; congr 1; omega

/-- **A time-stamp assertion gives the signing time only if one of its tokens is bound to the raw
claim signature** (imprint = the signature bytes, CMS signature and message-digest attribute ok). -/
theorem ext_time_only_if_bound (toks : List Token) (vt : Bool) (t : Int)
    (h : extTime toks vt = some t) :
    ∃ tok ∈ toks, ∃ ss s, tok = .parsed ss ∧ s ∈ ss ∧ Bound assertionMsg s ∧ t = effTime s := by
  obtain ⟨⟨tok, hm, hr⟩, _⟩ := (ext_time_iff toks vt t).1 h
  obtain ⟨ss, s, rfl, hs, hb, ht⟩ := timestamp_used_only_if_bound tok assertionMsg vt t hr
  exact ⟨_, hm, ss, s, rfl, hs, hb, ht⟩

/-- **A rejected assertion token is reported**: the store pass appends its informational
`timeStamp.*` entry to the validation log (since the repair of store.rs; before it the entries went
into a dropped scratch log — finding `assertion-ts-failure-unreported`, fixed). -/
theorem rejected_assertion_token_reported (toks : List Token) (vt : Bool) (tok : Token)
    (hm : tok ∈ toks) (e : Err) (he : (verifyTimeStamp tok assertionMsg vt).result = .error e) :
    ∃ c, IsTsInfo c ∧ info c ∈ extLog toks vt := by
  induction toks with
  | nil => cases hm
  | cons a rest ih =>
    unfold extLog
    rcases List.mem_cons.1 hm with rfl | hm'
    · obtain ⟨c, hc, hin⟩ := (rejected_token_reported tok assertionMsg vt e he).1
      refine ⟨c, hc, List.mem_append.2 (Or.inl ?_)⟩
      rw [he]; exact hin
    · obtain ⟨c, hc, hin⟩ := ih hm'
      exact ⟨c, hc, List.mem_append.2 (Or.inr hin)⟩

/-- An accepted assertion token logs nothing in the store pass, and never `timeStamp.trusted`. -/
theorem ext_log_no_trusted (toks : List Token) (vt : Bool) : succ cTsTrusted ∉ extLog toks vt := by
  induction toks with
  | nil => simp [extLog]
  | cons a rest ih =>
    unfold extLog
    intro hm
    rcases List.mem_append.1 hm with hm | hm
    · cases hr : (verifyTimeStamp a assertionMsg vt).result with
      | ok t => rw [hr] at hm; cases hm
      | error e => rw [hr] at hm; exact (rejected_token_reported a assertionMsg vt e hr).2 hm
    · exact ih hm

example : extTime [.parsed [goodSigner assertionMsg]] true = some 1001 := by decide
example : extTime [.parsed [goodSigner (headerMsg true)]] true = none := by decide
example : extLog [.parsed [goodSigner (headerMsg true)]] true = [info cMismatch] := by decide
/-- the earliest accepted time is kept, in whatever order the store meets the tokens -/
example : extTime [.parsed [{ goodSigner assertionMsg with attrTime := some 1500 }],
    .parsed [goodSigner assertionMsg], .unparsable] true = some 1001 := by decide
example : extTime [.unparsable, .parsed [goodSigner assertionMsg],
    .parsed [{ goodSigner assertionMsg with attrTime := some 1500 }]] true = some 1001 := by decide

/-! ### a rejected header token, lifted to the claim's log -/

/-- **Without a time-stamp assertion** a header that carries tokens but yields no time is reported
in the claim's validation log. -/
theorem header_rejection_reported_claim (v2 : Bool) (l : List Token) (s : Signing) (cfg : Cfg)
    (hl : l ≠ []) (h : (validateCoseTst (.present v2 (.toks l)) cfg.tsTrust).1 = none) :
    ∃ c, IsTsInfo c ∧ info c ∈ claimLog none (.present v2 (.toks l)) s cfg := by
  obtain ⟨c, hc, hin⟩ := header_rejection_reported v2 l cfg.tsTrust hl h
  refine ⟨c, hc, ?_⟩
  unfold claimLog coseLog
  simp only [usedTime, List.mem_append]
  exact Or.inl (Or.inl (Or.inl hin))

/-- The statement's "otherwise a time-stamp failure is reported", for header tokens, whatever else
supplies the time. -/
def RejectedHeaderTokenReported : Prop :=
  ∀ (ext : Option Int) (v2 : Bool) (tok : Token) (s : Signing) (cfg : Cfg) (e : Err),
    (verifyTimeStamp tok (headerMsg v2) cfg.tsTrust).result = .error e →
    ∃ c, IsTsInfo c ∧ info c ∈ claimLog ext (.present v2 (.toks [tok])) s cfg

theorem ts_info_codes_distinct (c : Code) (h : IsTsInfo c) :
    c ≠ C04.cTrusted ∧ c ≠ C04.cUntrusted ∧ c ≠ cExpired ∧ c ≠ cCredInvalid ∧
      c ≠ C04.cInsideValidity ∧ c ≠ C04.cSigValidated ∧ c ≠ cSigMismatch := by
  rcases h with rfl | rfl | rfl | rfl <;> decide

/-- **False when a time-stamp assertion supplies the time**: `verify_cose` then does not look at the
header at all (`Some(tst_info) => …` skips `validate_cose_tst_info`), so a header token for another
message stays unreported. Replayed by the harness (`ext+wrongmsg-hdr`, class
`hdr-token-unreported-with-assertion-ts`). -/
theorem rejected_header_token_reported_false : ¬ RejectedHeaderTokenReported := by
  intro h
  have hr : (verifyTimeStamp (.parsed [goodSigner (headerMsg false)]) (headerMsg true) true).result
      = .error .invalidData := by decide
  obtain ⟨c, hc, hin⟩ := h (some 1000) true (.parsed [goodSigner (headerMsg false)]) expiredCert
    { verifyTrust := true, tsTrust := true, now := 5000 } .invalidData hr
  have hl : claimLog (some 1000) (.present true (.toks [.parsed [goodSigner (headerMsg false)]]))
      expiredCert { verifyTrust := true, tsTrust := true, now := 5000 }
      = [succ C04.cTrusted, succ C04.cInsideValidity, succ C04.cSigValidated] := by decide
  rw [hl] at hin
  obtain ⟨h1, _, _, _, h5, h6, _⟩ := ts_info_codes_distinct c hc
  simp only [List.mem_cons, info, succ, Prod.mk.injEq, List.mem_nil_iff, or_false] at hin
  rcases hin with ⟨_, hk⟩ | ⟨_, hk⟩ | ⟨_, hk⟩ <;> cases hk

/-- … true without one (`header_rejection_reported_claim` for the single-token header). -/
theorem rejected_header_token_reported_partial (v2 : Bool) (tok : Token) (s : Signing) (cfg : Cfg)
    (e : Err) (he : (verifyTimeStamp tok (headerMsg v2) cfg.tsTrust).result = .error e) :
    ∃ c, IsTsInfo c ∧ info c ∈ claimLog none (.present v2 (.toks [tok])) s cfg := by
  apply header_rejection_reported_claim v2 [tok] s cfg (by simp)
  simp [validateCoseTst, he]

/-! ### expired signing certificate, with the assertion time tied to its tokens -/

/-- **An expired (or not yet valid) signing certificate is accepted only with a bound, valid
time-stamp inside its validity** — stated down to the token: either a token of a time-stamp
assertion bound to the raw claim signature, or (no assertion time) the single header token bound to
the message its header kind covers; the token's effective time lies inside the validity period. -/
theorem expired_cert_needs_bound_timestamp (toks : List Token) (xvt : Bool) (h : Header)
    (s : Signing) (cfg : Cfg) (hc : cfg.certCheck = true) (hv : s.versionOk = true)
    (hnow : ¬ (s.notBefore ≤ cfg.now ∧ cfg.now ≤ s.notAfter))
    (hlog : failE cExpired ∉ claimLog (extTime toks xvt) h s cfg) :
    ∃ t, s.notBefore ≤ t ∧ t ≤ s.notAfter ∧
      ((∃ tok ∈ toks, ∃ ss si, tok = .parsed ss ∧ si ∈ ss ∧ Bound assertionMsg si ∧ t = effTime si) ∨
       (extTime toks xvt = none ∧ ∃ v2 tok ss si, h = .present v2 (.toks [tok]) ∧ tok = .parsed ss ∧
          si ∈ ss ∧ Bound (headerMsg v2) si ∧ t = effTime si)) := by
  obtain ⟨t, _, h1, h2, hsrc⟩ := expired_cert_needs_valid_timestamp (extTime toks xvt) h s cfg hc hv hnow hlog
  refine ⟨t, h1, h2, ?_⟩
  rcases hsrc with hx | ⟨hx, v2, tok, rfl, hr⟩
  · exact Or.inl (ext_time_only_if_bound toks xvt t hx)
  · obtain ⟨ss, si, rfl, hs, hb, ht⟩ := timestamp_used_only_if_bound tok (headerMsg v2) cfg.tsTrust t hr
    exact Or.inr ⟨hx, v2, _, ss, si, rfl, rfl, hs, hb, ht⟩

example : claimState (extTime [.parsed [goodSigner assertionMsg]] true) .absent expiredCert
    { verifyTrust := true, tsTrust := true, now := 5000 } = .trusted := by decide
example : claimState (extTime [.parsed [goodSigner (headerMsg true)]] true) .absent expiredCert
    { verifyTrust := true, tsTrust := true, now := 5000 } = .invalid := by decide

end C2pa.C36
