import C2paModel.Model.C39
/-
C39 — property theorems. The statement (properties.jsonl):

  Adding a signed asset as an ingredient records its active manifest (so the parent's store
  contains the ingredient's manifests unchanged) together with the validation state and failure
  codes obtained by reading the ingredient on its own. Adding an unsigned asset records no
  manifest and no failure.

* `unsigned_no_manifest_no_failure`, `validation_copied`, `tampered_failure_shown` — the capture
  rule (`update_validation_status`).
* `ingredient_store_embedded_unchanged` — merging an incoming store that has no label conflict
  with the claim's ingredient store succeeds for every claim version / setting / redaction
  classifier; afterwards every incoming manifest is found under its own label with its own
  content, and every manifest already there is still there with its content.
  `all_ingredient_stores_embedded` lifts this to any list of pairwise compatible ingredient
  stores (the `to_claim` loop).
* `IngredientStoreEmbeddedFull` (the same for *every* pair of stores, "modulo relabelling on
  conflict") is false for the code as it stands: `first_conflict_fails` — with no relabelled
  manifest in the claim's store yet (every first conflict) the conflict branch returns
  "ingredient label malformed" instead of relabelling (replayed on the implementation by the
  harness, class `conflicting-label-ingredients-sign-fails`); `conflict_overwrites_current` —
  when a version is available, the relabelled copy *and* the entry under the original label are
  both the incoming manifest: the manifest the earlier ingredient brought is gone (model only: no
  public API produces a versioned label first).
* `hard_error_blocks_signing` — a hard error of the stand-alone validation (not a logged
  failure) leaves `validationResults` without `activeManifest`, which the v3 ingredient
  assertion refuses: the parent cannot be signed (harness class
  `damaged-ingredient-blocks-signing`).
-/
namespace C2pa.C39

/-! ### capture -/

/-- **unsigned_no_manifest_no_failure.** -/
theorem unsigned_no_manifest_no_failure :
    addStream .noManifest = some ⟨none, none, none⟩ ∧
    toAssertion ⟨none, none, none⟩ = .ok (none, none) := ⟨rfl, rfl⟩

/-- **Validation results are copied from the stand-alone read**, with the active manifest and the
manifest store; the ingredient assertion carries exactly them. -/
theorem validation_copied (store : MStore) (active : MLabel) (results : Results) :
    addStream (.ok store active results) = some ⟨some active, some store, some results⟩ ∧
    toAssertion ⟨some active, some store, some results⟩ = .ok (some active, some results) :=
  ⟨rfl, rfl⟩

/-- a tampered ingredient shows exactly the failures of its stand-alone read -/
theorem tampered_failure_shown (store : MStore) (active : MLabel) (results : Results) (i : IngRec)
    (h : addStream (.ok store active results) = some i) :
    (i.results.map failures) = some (failures results) := by
  injection h with h
  subst h
  rfl

example : failures [(0, "claimSignature.validated"), (2, "assertion.dataHash.mismatch")] =
    ["assertion.dataHash.mismatch"] := by decide

/-- **hard_error_blocks_signing** (as coded): results without active manifest are refused. -/
theorem hard_error_blocks_signing (logged : Results) :
    ∃ i, addStream (.hardError logged) = some i ∧ toAssertion i = .error .bothOrNeither :=
  ⟨_, rfl, rfl⟩

/-! ### lookup / replaceOrInsert -/

theorem lookup_roi_same (s : MStore) (m : Man) : lookup (replaceOrInsert s m) m.label = some m.content := by
  induction s with
  | nil => simp [replaceOrInsert, lookup]
  | cons x xs ih =>
    unfold replaceOrInsert
    by_cases h : x.label = m.label
    · simp [h, lookup]
    · simp [h, lookup, ih]

theorem lookup_roi_other (s : MStore) (m : Man) (l : MLabel) (h : m.label ≠ l) :
    lookup (replaceOrInsert s m) l = lookup s l := by
  induction s with
  | nil => simp [replaceOrInsert, lookup, h]
  | cons x xs ih =>
    unfold replaceOrInsert
    by_cases hx : x.label = m.label
    · have : x.label ≠ l := by rw [hx]; exact h
      simp [hx, lookup, h, this]
    · simp only [hx, if_false, lookup, ih]

/-- lookup after inserting a list: the last inserted manifest with that label, else the old one -/
theorem lookup_foldl (inc : MStore) (s : MStore) (l : MLabel) :
    lookup (inc.foldl replaceOrInsert s) l =
      match lookup inc.reverse l with
      | some c => some c
      | none => lookup s l := by
  induction inc generalizing s with
  | nil => simp [lookup]
  | cons m ms ih =>
    simp only [List.foldl_cons, List.reverse_cons]
    rw [ih]
    -- lookup in (ms.reverse ++ [m])
    have happ : ∀ (a : MStore), lookup (a ++ [m]) l =
        match lookup a l with
        | some c => some c
        | none => if m.label = l then some m.content else none := by
      intro a
      induction a with
      | nil => simp [lookup]
      | cons y ys ihy =>
        simp only [List.cons_append, lookup]
        by_cases hy : y.label = l
        · simp [hy]
        · simp [hy, ihy]
    rw [happ]
    cases hl : lookup ms.reverse l with
    | some c => rfl
    | none =>
      simp only
      by_cases hm : m.label = l
      · simp only [hm, if_true]
        rw [← hm]
        exact lookup_roi_same s m
      · simp only [hm, if_false]
        exact lookup_roi_other s m l hm

/-- labels of a store are pairwise different -/
def Uniq (s : MStore) : Prop := (s.map (·.label)).Nodup

theorem lookup_mem_uniq (s : MStore) (hu : Uniq s) (m : Man) (hm : m ∈ s) :
    lookup s m.label = some m.content := by
  induction s with
  | nil => cases hm
  | cons x xs ih =>
    unfold Uniq at hu
    simp only [List.map_cons, List.nodup_cons] at hu
    simp only [lookup]
    rcases List.mem_cons.1 hm with rfl | hm'
    · simp
    · have : x.label ≠ m.label := by
        intro h
        exact hu.1 (h ▸ List.mem_map_of_mem hm')
      simp [this, ih hu.2 hm']

theorem lookup_none_of_not_mem (s : MStore) (l : MLabel) (h : ∀ m ∈ s, m.label ≠ l) :
    lookup s l = none := by
  induction s with
  | nil => rfl
  | cons x xs ih =>
    simp only [lookup]
    have := h x (by simp)
    simp [this, ih (fun m hm => h m (by simp [hm]))]

theorem lookup_some_mem (s : MStore) (l : MLabel) (c : String) (h : lookup s l = some c) :
    ∃ m ∈ s, m.label = l ∧ m.content = c := by
  induction s with
  | nil => simp [lookup] at h
  | cons x xs ih =>
    simp only [lookup] at h
    by_cases hx : x.label = l
    · simp only [hx, if_true, Option.some.injEq] at h
      exact ⟨x, by simp, hx, h⟩
    · simp only [hx, if_false] at h
      obtain ⟨m, hm, h1, h2⟩ := ih h
      exact ⟨m, by simp [hm], h1, h2⟩

/-- no manifest of `inc` is in `cur` under the same label with another content -/
def Compatible (cur inc : MStore) : Prop :=
  ∀ m ∈ inc, ∀ c, lookup cur m.label = some c → c = m.content

theorem conflicts_nil_of_compatible (cur inc : MStore) (h : Compatible cur inc) :
    conflicts cur inc = [] := by
  unfold conflicts
  rw [List.filter_eq_nil_iff]
  intro m hm
  cases hl : lookup cur m.label with
  | none => simp
  | some c =>
    have := h m hm c hl
    simp [this]

theorem merge_of_compatible (v : Nat) (skip : Bool) (kind : Man → RedactionKind) (cur inc : MStore)
    (h : Compatible cur inc) : merge v skip kind cur inc = .ok (inc.foldl replaceOrInsert cur) := by
  unfold merge
  rw [conflicts_nil_of_compatible cur inc h]
  by_cases hc : (decide (v > 1) && !skip) = true
  · simp only [hc, if_true, resolve]
    congr 2
    apply List.filter_eq_self.2
    intro m _
    simp
  · simp only [hc]
    rfl

/-- **ingredient_store_embedded_unchanged.** Without a label conflict the merge succeeds, every
incoming manifest is then present under its own label with its own content, and every manifest
the claim's store already held is still there with its content — for every claim version, with
or without conflict resolution, for every redaction classifier. -/
theorem ingredient_store_embedded_unchanged (v : Nat) (skip : Bool) (kind : Man → RedactionKind)
    (cur inc : MStore) (hui : Uniq inc) (huc : Uniq cur) (h : Compatible cur inc) :
    ∃ s', merge v skip kind cur inc = .ok s' ∧
      (∀ m ∈ inc, lookup s' m.label = some m.content) ∧
      (∀ c ∈ cur, lookup s' c.label = some c.content) := by
  refine ⟨_, merge_of_compatible v skip kind cur inc h, ?_, ?_⟩
  · intro m hm
    rw [lookup_foldl]
    have hur : Uniq inc.reverse := by
      unfold Uniq at *
      rw [List.map_reverse]
      exact (List.reverse_perm _).nodup_iff.2 hui
    rw [lookup_mem_uniq inc.reverse hur m (List.mem_reverse.2 hm)]
  · intro c hc
    rw [lookup_foldl]
    cases hl : lookup inc.reverse c.label with
    | none => exact lookup_mem_uniq cur huc c hc
    | some x =>
      simp only
      obtain ⟨m, hm, h1, h2⟩ := lookup_some_mem _ _ _ hl
      have hm' : m ∈ inc := List.mem_reverse.1 hm
      have := h m hm' c.content (by rw [h1]; exact lookup_mem_uniq cur huc c hc)
      rw [← h2, this]

example : Uniq [⟨⟨"A", none, none⟩, "a"⟩, ⟨⟨"B", none, none⟩, "b"⟩] ∧
    Compatible [⟨⟨"A", none, none⟩, "a"⟩] [⟨⟨"A", none, none⟩, "a"⟩, ⟨⟨"B", none, none⟩, "b"⟩] := by
  refine ⟨by simp [Uniq], ?_⟩
  intro m hm c hc
  simp at hm
  rcases hm with rfl | rfl
  · simp [lookup] at hc; exact hc.symm
  · simp [lookup] at hc

/-! ### the conflict branch as coded -/

/-- The full statement: any two stores merge, the incoming manifests are embedded (under their own
label or a relabelled one) and nothing the claim already held is lost. -/
def IngredientStoreEmbeddedFull : Prop :=
  ∀ (cur inc : MStore), Uniq cur → Uniq inc →
    ∃ s', merge 2 false (fun _ => .notByRedaction) cur inc = .ok s' ∧
      (∀ c ∈ cur, ∃ l, lookup s' l = some c.content) ∧
      (∀ m ∈ inc, ∃ l, lookup s' l = some m.content)

/-- **Every first conflict fails**: with no relabelled manifest in the claim's store yet there is
no "last conflict version", and the code returns an error instead of starting at version 1. -/
theorem first_conflict_fails (v : Nat) (cur inc : MStore) (hv : v > 1)
    (hc : conflicts cur inc ≠ []) (hnov : maxVersion cur = none) :
    merge v false (fun _ => .notByRedaction) cur inc = .error .labelMalformed := by
  unfold merge
  have : (decide (v > 1) && !false) = true := by simp [hv]
  simp only [this, if_true]
  cases hcf : conflicts cur inc with
  | nil => exact absurd hcf hc
  | cons m ms => simp [resolve, hnov]

theorem ingredient_store_embedded_full_false : ¬ IngredientStoreEmbeddedFull := by
  intro h
  obtain ⟨s', hs, _⟩ := h [⟨⟨"L", none, none⟩, "a"⟩] [⟨⟨"L", none, none⟩, "b"⟩] (by simp [Uniq]) (by simp [Uniq])
  have : merge 2 false (fun _ => RedactionKind.notByRedaction) [⟨⟨"L", none, none⟩, "a"⟩]
      [⟨⟨"L", none, none⟩, "b"⟩] = .error .labelMalformed := by rfl
  rw [this] at hs
  cases hs

/-- when a version is available the conflict is "resolved" by storing the incoming manifest twice;
the manifest the claim held under that label is lost -/
theorem conflict_overwrites_current :
    ∃ s', merge 2 false (fun _ => .notByRedaction)
        [⟨⟨"L", none, none⟩, "a"⟩, ⟨⟨"K", some 3, some 1⟩, "x"⟩] [⟨⟨"L", none, none⟩, "b"⟩] = .ok s' ∧
      lookup s' ⟨"L", none, none⟩ = some "b" ∧ lookup s' ⟨"L", some 4, some 1⟩ = some "b" ∧
      ∀ l, lookup s' l ≠ some "a" := by
  refine ⟨[⟨⟨"L", none, none⟩, "b"⟩, ⟨⟨"K", some 3, some 1⟩, "x"⟩, ⟨⟨"L", some 4, some 1⟩, "b"⟩], by rfl,
    by decide, by decide, ?_⟩
  intro l h
  obtain ⟨m, hm, _, h2⟩ := lookup_some_mem _ _ _ h
  simp at hm
  rcases hm with rfl | rfl | rfl <;> simp at h2

/-! ### several ingredients -/

theorem mem_roi (s : MStore) (m x : Man) (h : x ∈ replaceOrInsert s m) : x ∈ s ∨ x = m := by
  induction s with
  | nil => simp [replaceOrInsert] at h; exact Or.inr h
  | cons y ys ih =>
    unfold replaceOrInsert at h
    by_cases hy : y.label = m.label
    · simp only [hy, if_true, List.mem_cons] at h
      rcases h with h | h
      · exact Or.inr h
      · exact Or.inl (by simp [h])
    · simp only [hy, if_false, List.mem_cons] at h
      rcases h with h | h
      · exact Or.inl (by simp [h])
      · rcases ih h with h | h
        · exact Or.inl (by simp [h])
        · exact Or.inr h

theorem mem_foldl_roi (inc s : MStore) (x : Man) (h : x ∈ inc.foldl replaceOrInsert s) :
    x ∈ s ∨ x ∈ inc := by
  induction inc generalizing s with
  | nil => exact Or.inl h
  | cons m ms ih =>
    simp only [List.foldl_cons] at h
    rcases ih _ h with h | h
    · rcases mem_roi s m x h with h | h
      · exact Or.inl h
      · exact Or.inr (by simp [h])
    · exact Or.inr (by simp [h])

theorem uniq_roi (s : MStore) (m : Man) (hu : Uniq s) : Uniq (replaceOrInsert s m) := by
  induction s with
  | nil => simp [replaceOrInsert, Uniq]
  | cons y ys ih =>
    unfold Uniq at hu ih ⊢
    simp only [List.map_cons, List.nodup_cons] at hu
    unfold replaceOrInsert
    by_cases hy : y.label = m.label
    · simp only [hy, if_true, List.map_cons, List.nodup_cons]
      exact ⟨hy ▸ hu.1, hu.2⟩
    · simp only [hy, if_false, List.map_cons, List.nodup_cons]
      refine ⟨?_, ih hu.2⟩
      intro hmem
      obtain ⟨x, hx, hxl⟩ := List.mem_map.1 hmem
      rcases mem_roi ys m x hx with h | h
      · exact hu.1 (hxl ▸ List.mem_map_of_mem h)
      · subst h; exact hy hxl.symm

theorem uniq_foldl_roi (inc s : MStore) (hu : Uniq s) : Uniq (inc.foldl replaceOrInsert s) := by
  induction inc generalizing s with
  | nil => exact hu
  | cons m ms ih => exact ih _ (uniq_roi s m hu)

/-- all stores agree wherever they share a label -/
def Agree (a b : MStore) : Prop := ∀ x ∈ a, ∀ y ∈ b, x.label = y.label → x.content = y.content

theorem compatible_of_agree (cur inc : MStore) (_huc : Uniq cur) (h : Agree cur inc) :
    Compatible cur inc := by
  intro m hm c hc
  obtain ⟨x, hx, h1, h2⟩ := lookup_some_mem _ _ _ hc
  rw [← h2]
  exact h x hx m hm h1

/-- **all_ingredient_stores_embedded.** For any list of ingredient stores that pairwise agree on
shared labels (and agree with what the claim already holds), adding them one after the other
succeeds and the final store holds every manifest of every ingredient store, and everything the
claim held before, unchanged. -/
theorem all_ingredient_stores_embedded (v : Nat) (skip : Bool) (kind : Man → RedactionKind)
    (stores : List MStore) (cur : MStore) (huc : Uniq cur)
    (hu : ∀ s ∈ stores, Uniq s)
    (hcur : ∀ s ∈ stores, Agree cur s)
    (hpair : ∀ s ∈ stores, ∀ t ∈ stores, Agree s t) :
    ∃ fin, mergeAll v skip kind stores cur = .ok fin ∧
      (∀ c ∈ cur, lookup fin c.label = some c.content) ∧
      (∀ s ∈ stores, ∀ m ∈ s, lookup fin m.label = some m.content) := by
  induction stores generalizing cur with
  | nil => exact ⟨cur, rfl, fun c hc => lookup_mem_uniq cur huc c hc, by simp⟩
  | cons s ss ih =>
    have hcomp : Compatible cur s := compatible_of_agree cur s huc (hcur s (by simp))
    obtain ⟨s1, hs1, hinc, hold⟩ :=
      ingredient_store_embedded_unchanged v skip kind cur s (hu s (by simp)) huc hcomp
    have hs1eq : s1 = s.foldl replaceOrInsert cur := by
      have := merge_of_compatible v skip kind cur s hcomp
      rw [this] at hs1
      injection hs1 with hs1
      exact hs1.symm
    have hu1 : Uniq s1 := hs1eq ▸ uniq_foldl_roi s cur huc
    have hagree1 : ∀ t ∈ ss, Agree s1 t := by
      intro t ht x hx y hy hxy
      rw [hs1eq] at hx
      rcases mem_foldl_roi s cur x hx with hx | hx
      · exact hcur t (by simp [ht]) x hx y hy hxy
      · exact hpair s (by simp) t (by simp [ht]) x hx y hy hxy
    obtain ⟨fin, hfin, hold1, hrest⟩ := ih s1 hu1 (fun t ht => hu t (by simp [ht])) hagree1
      (fun a ha b hb => hpair a (by simp [ha]) b (by simp [hb]))
    refine ⟨fin, ?_, ?_, ?_⟩
    · simp only [mergeAll, hs1]
      exact hfin
    · intro c hc
      -- c is in s1 with its content (lookup), hence some member of s1 has that label/content
      obtain ⟨x, hx, h1, h2⟩ := lookup_some_mem _ _ _ (hold c hc)
      have := hold1 x hx
      rw [h1, h2] at this
      exact this
    · intro t ht m hm
      rcases List.mem_cons.1 ht with rfl | ht'
      · obtain ⟨x, hx, h1, h2⟩ := lookup_some_mem _ _ _ (hinc m hm)
        have := hold1 x hx
        rw [h1, h2] at this
        exact this
      · exact hrest t ht' m hm

end C2pa.C39
