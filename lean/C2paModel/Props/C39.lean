import C2paModel.Model.C39
/-
C39 — property theorems. The statement (properties.jsonl):

  Adding a signed asset as an ingredient records its active manifest (so the parent's store
  contains the ingredient's manifests unchanged) together with the validation state and failure
  codes obtained by reading the ingredient on its own. Adding an unsigned asset records no
  manifest and no failure.

Capture (`update_validation_status` / `add_stream_internal` / `add_to_claim`):
* `no_manifest_arm_iff` — exactly the error classes JumbfNotFound / ProvenanceMissing /
  UnsupportedType / "unrecognized file type" select the "no claims but valid file" arm;
  `unsigned_no_manifest_no_failure` — for each of them nothing is recorded, the claim's ingredient
  store is untouched and the ingredient assertion (v2 or v3) carries no manifest reference, no
  results and no status; `nothing_recorded_iff` — no other outcome records nothing.
* `manifest_recorded_iff` — manifest data is recorded iff the stand-alone read produced a store,
  the active manifest iff that store has a provenance claim, results iff the outcome is not "no
  manifest"; the recorded active manifest is the provenance label of the recorded data (the
  reference `add_to_claim` writes). `record_ok_arm` states the two conditions of the `Ok` arm.
* `validation_copied`, `tampered_failure_shown` — a readable ingredient: results, store and active
  manifest of the stand-alone read are recorded and carried by the assertion; the merged store is
  the fold of the ingredient's store into the claim's.
* `signable_iff` (version 2 claim) / `signable_v1_iff` — which outcomes can be signed. Hard errors
  and inaccessible remote manifests block a version 2 claim (`hard_error_blocks_signing`,
  `inaccessible_blocks_signing`: open findings), a store without provenance claim blocks every
  claim (`missing_provenance_blocks_signing`).

Merge (`load_ingredient_to_claim`):
* `merge_compatible_nf`, `merge_ok_iff_of_compatible`, `merge_rejects_newer_active`,
  `merge_rejects_newer` — the version gates: a store merges without label conflict iff it is not
  empty and none of its claims is newer than the claim being built.
* `ingredient_store_embedded_unchanged`, `all_ingredient_stores_embedded` — under those conditions
  every incoming manifest and every manifest already held is present afterwards, unchanged.
  `v2_ingredient_into_v1_claim_rejected` — without the version condition the statement is false
  (the earlier formulation "for every claim version" overclaimed).
* `first_conflict_fails`, `ingredient_store_embedded_full_false`, `conflict_overwrites_current` —
  the conflict branch as coded.

Parent read (`ValidationResults::from_store`):
* `from_store_mem_iff`, `faithful_capture_no_failure_delta`, `dropped_failure_is_delta` — a status
  logged for an ingredient while the parent is read is reported as an ingredient delta iff it is
  not among the statuses captured in the ingredient assertions.
-/
namespace C2pa.C39

/-! ### capture -/

theorem provenance_none_iff (s : MStore) : provenance s = none ↔ s = [] := by
  unfold provenance
  exact List.getLast?_eq_none_iff

theorem provenance_mem (s : MStore) (pc : Man) (h : provenance s = some pc) : pc ∈ s := by
  unfold provenance at h
  exact List.mem_of_getLast? h

theorem provenance_isSome_iff (s : MStore) : (provenance s).isSome ↔ s ≠ [] := by
  constructor
  · intro h he
    rw [he] at h
    simp [provenance] at h
  · intro h
    cases hp : provenance s with
    | none => exact absurd ((provenance_none_iff s).1 hp) h
    | some _ => rfl

/-- **Exactly four error classes mean "unsigned asset".** -/
theorem no_manifest_arm_iff (c : ErrClass) (l : Results) :
    armOf c l = .noManifest ↔
      c = .jumbfNotFound ∨ c = .provenanceMissing ∨ c = .unsupportedType ∨ c = .unrecognizedFileType := by
  cases c <;> simp [armOf]

/-- the arm never depends on the log except for the content of a hard error, and never yields `ok` -/
theorem armOf_ne_ok (c : ErrClass) (l : Results) (s : MStore) (r : Results) : armOf c l ≠ .ok s r := by
  cases c <;> simp [armOf]

/-- **unsigned_no_manifest_no_failure.** Whatever "no manifest" class the stand-alone read ends in
(also an asset of a format without handler: `UnsupportedType`; also a store without manifests:
`ProvenanceMissing`), and whatever was logged: nothing is recorded, and adding the ingredient to a
version 1 or 2 claim leaves the claim's ingredient store as it was and writes an assertion without
manifest reference, results or status. -/
theorem unsigned_no_manifest_no_failure (c : ErrClass) (l : Results)
    (hc : c = .jumbfNotFound ∨ c = .provenanceMissing ∨ c = .unsupportedType ∨ c = .unrecognizedFileType)
    (v : Nat) (hv : v = 1 ∨ v = 2) (skip : Bool) (kind : Man → RedactionKind) (cur : MStore) :
    addStream (armOf c l) = some ⟨none, none, none, none⟩ ∧
    addToClaim v skip kind cur ⟨none, none, none, none⟩ = .ok (cur, ⟨none, none, none⟩) := by
  rw [(no_manifest_arm_iff c l).2 hc]
  refine ⟨rfl, ?_⟩
  rcases hv with rfl | rfl <;> rfl

example : addStream (armOf .unsupportedType []) = some ⟨none, none, none, none⟩ := rfl

/-- only the "no manifest" outcome records nothing -/
theorem nothing_recorded_iff (o : ReadOutcome) :
    addStream o = some ⟨none, none, none, none⟩ ↔ o = .noManifest := by
  cases o <;> simp [addStream, record]

/-- `add_stream_internal` is `addStream` of the outcome: a failing load selects the arm of its error
class with an empty log and no bytes; a failing validation the arm of its class with the log; the
manifest bytes only matter in the `ok` arm. -/
theorem add_stream_internal_eq (load : Except ErrClass MStore)
    (validate : MStore → Except (ErrClass × Results) Results) :
    addStreamInternal load validate =
      addStream (match load with
        | .error c => armOf c []
        | .ok b => match validate b with
          | .ok r => .ok b r
          | .error (c, l) => armOf c l) := by
  cases load with
  | error c => cases c <;> rfl
  | ok b =>
    simp only [addStreamInternal]
    cases hv : validate b with
    | ok r => rfl
    | error e =>
      obtain ⟨c, l⟩ := e
      cases c <;> rfl

/-- the two conditions of the `Ok` arm of `update_validation_status`: the active manifest is set
only from the store's provenance claim, the manifest data only from the bytes handed in. -/
theorem record_ok_arm (s : MStore) (r : Results) (bytes : Option MStore) :
    ∃ i, record (.ok s r) bytes = some i ∧ i.data = bytes ∧
      i.active = (provenance s).map (·.label) ∧ (i.active.isSome ↔ s ≠ []) ∧
      i.results = some r ∧ i.status = statusOf r := by
  refine ⟨_, rfl, rfl, rfl, ?_, rfl, rfl⟩
  simp only [Option.isSome_map]
  exact provenance_isSome_iff s

/-- in every other arm the bytes are ignored and neither manifest nor data is recorded -/
theorem record_err_arm (o : ReadOutcome) (bytes : Option MStore) (i : IngRec)
    (hno : ∀ s r, o ≠ .ok s r) (h : record o bytes = some i) : i.active = none ∧ i.data = none := by
  cases o with
  | ok s r => exact absurd rfl (hno s r)
  | noManifest => simp [record] at h; subst h; exact ⟨rfl, rfl⟩
  | inaccessible => simp [record] at h; subst h; exact ⟨rfl, rfl⟩
  | cancelled => simp [record] at h
  | hardError l => simp [record] at h; subst h; exact ⟨rfl, rfl⟩

/-- **manifest_recorded_iff.** -/
theorem manifest_recorded_iff (o : ReadOutcome) (i : IngRec) (h : addStream o = some i) :
    (i.data.isSome ↔ ∃ s r, o = .ok s r) ∧
    (i.active.isSome ↔ ∃ s r, o = .ok s r ∧ s ≠ []) ∧
    (i.results.isSome ↔ o ≠ .noManifest) ∧
    i.active = i.data.bind (fun s => (provenance s).map (·.label)) := by
  cases o with
  | noManifest => simp [addStream, record] at h; subst h; simp
  | inaccessible => simp [addStream, record] at h; subst h; simp
  | cancelled => simp [addStream, record] at h
  | hardError l => simp [addStream, record] at h; subst h; simp
  | ok s r =>
    simp [addStream, record] at h
    subst h
    refine ⟨⟨fun _ => ⟨s, r, rfl⟩, fun _ => rfl⟩, ?_, ⟨fun _ => by simp, fun _ => rfl⟩, rfl⟩
    simp only [Option.isSome_map]
    rw [provenance_isSome_iff]
    constructor
    · intro hs; exact ⟨s, r, rfl, hs⟩
    · rintro ⟨s', r', heq, hs'⟩
      injection heq with h1 _
      exact h1 ▸ hs'

example : ∃ i, addStream (.ok [⟨⟨"L", none, none⟩, "c", 2⟩] []) = some i ∧ i.active = some ⟨"L", none, none⟩ :=
  ⟨_, rfl, rfl⟩

/-- a tampered ingredient shows exactly the failures of its stand-alone read (as `validation_status`
codes, `None` when there is none) -/
theorem tampered_failure_shown (store : MStore) (results : Results) (i : IngRec)
    (h : addStream (.ok store results) = some i) :
    i.results.map failures = some (failures results) ∧ i.status = statusOf results := by
  simp [addStream, record] at h
  subst h
  exact ⟨rfl, rfl⟩

example : failures [⟨0, "claimSignature.validated", "L", "c2pa.signature", none⟩,
    ⟨2, "assertion.dataHash.mismatch", "L", "c2pa.assertions/c2pa.hash.data", none⟩] =
    ["assertion.dataHash.mismatch"] := by decide

/-! ### lookup / replaceOrInsert -/

theorem lookup_roi_same (s : MStore) (m : Man) : lookup (replaceOrInsert s m) m.label = some m.content := by
  induction s with
  | nil => simp [replaceOrInsert, lookup]
  | cons x xs ih =>
    unfold replaceOrInsert
    by_cases h : x.label = m.label
    · simp [h, lookup]
    · simp [h, lookup, ih]

theorem lookup_roi_other (s : MStore) (m : Man) (l : MLabel) (h : m.label ≠ l) :
    lookup (replaceOrInsert s m) l = lookup s l := by
  induction s with
  | nil => simp [replaceOrInsert, lookup, h]
  | cons x xs ih =>
    unfold replaceOrInsert
    by_cases hx : x.label = m.label
    · have : x.label ≠ l := by rw [hx]; exact h
      simp [hx, lookup, h, this]
    · simp only [hx, if_false, lookup, ih]

/-- lookup after inserting a list: the last inserted manifest with that label, else the old one -/
theorem lookup_foldl (inc : MStore) (s : MStore) (l : MLabel) :
    lookup (inc.foldl replaceOrInsert s) l =
      match lookup inc.reverse l with
      | some c => some c
      | none => lookup s l := by
  induction inc generalizing s with
  | nil => simp [lookup]
  | cons m ms ih =>
    simp only [List.foldl_cons, List.reverse_cons]
    rw [ih]
    -- lookup in (ms.reverse ++ [m])
    have happ : ∀ (a : MStore), lookup (a ++ [m]) l =
        match lookup a l with
        | some c => some c
        | none => if m.label = l then some m.content else none := by
      intro a
      induction a with
      | nil => simp [lookup]
      | cons y ys ihy =>
        simp only [List.cons_append, lookup]
        by_cases hy : y.label = l
        · simp [hy]
        · simp [hy, ihy]
    rw [happ]
    cases hl : lookup ms.reverse l with
    | some c => rfl
    | none =>
      simp only
      by_cases hm : m.label = l
      · simp only [hm, if_true]
        rw [← hm]
        exact lookup_roi_same s m
      · simp only [hm, if_false]
        exact lookup_roi_other s m l hm

/-- labels of a store are pairwise different -/
def Uniq (s : MStore) : Prop := (s.map (·.label)).Nodup

theorem lookup_mem_uniq (s : MStore) (hu : Uniq s) (m : Man) (hm : m ∈ s) :
    lookup s m.label = some m.content := by
  induction s with
  | nil => cases hm
  | cons x xs ih =>
    unfold Uniq at hu
    simp only [List.map_cons, List.nodup_cons] at hu
    simp only [lookup]
    rcases List.mem_cons.1 hm with rfl | hm'
    · simp
    · have : x.label ≠ m.label := by
        intro h
        exact hu.1 (h ▸ List.mem_map_of_mem hm')
      simp [this, ih hu.2 hm']

theorem lookup_none_of_not_mem (s : MStore) (l : MLabel) (h : ∀ m ∈ s, m.label ≠ l) :
    lookup s l = none := by
  induction s with
  | nil => rfl
  | cons x xs ih =>
    simp only [lookup]
    have := h x (by simp)
    simp [this, ih (fun m hm => h m (by simp [hm]))]

theorem lookup_some_mem (s : MStore) (l : MLabel) (c : String) (h : lookup s l = some c) :
    ∃ m ∈ s, m.label = l ∧ m.content = c := by
  induction s with
  | nil => simp [lookup] at h
  | cons x xs ih =>
    simp only [lookup] at h
    by_cases hx : x.label = l
    · simp only [hx, if_true, Option.some.injEq] at h
      exact ⟨x, by simp, hx, h⟩
    · simp only [hx, if_false] at h
      obtain ⟨m, hm, h1, h2⟩ := ih h
      exact ⟨m, by simp [hm], h1, h2⟩

/-- no manifest of `inc` is in `cur` under the same label with another content -/
def Compatible (cur inc : MStore) : Prop :=
  ∀ m ∈ inc, ∀ c, lookup cur m.label = some c → c = m.content

theorem conflicts_nil_of_compatible (cur inc : MStore) (h : Compatible cur inc) :
    conflicts cur inc = [] := by
  unfold conflicts
  rw [List.filter_eq_nil_iff]
  intro m hm
  cases hl : lookup cur m.label with
  | none => simp
  | some c =>
    have := h m hm c hl
    simp [this]

theorem compatible_nil (inc : MStore) : Compatible [] inc := by
  intro m _ c hc
  simp [lookup] at hc

/-- **Normal form of the merge without label conflict**: the three gates, then the fold. -/
theorem merge_compatible_nf (v : Nat) (skip : Bool) (kind : Man → RedactionKind) (cur inc : MStore)
    (h : Compatible cur inc) :
    merge v skip kind cur inc =
      match provenance inc with
      | none => .error .missingProvenance
      | some pc =>
        if v < pc.ver then .error .versionTooNew
        else if inc.any (fun m => decide (m.ver > v)) then .error .versionCompatibility
        else .ok (inc.foldl replaceOrInsert cur) := by
  unfold merge
  cases provenance inc with
  | none => rfl
  | some pc =>
    simp only
    by_cases h1 : v < pc.ver
    · simp only [h1, if_true]
    · simp only [h1, if_false]
      have hres : (if (decide (v > 1) && !skip) = true then
            resolve v kind (conflicts cur inc) cur [] else Except.ok (cur, [])) =
          Except.ok (cur, ([] : List MLabel)) := by
        rw [conflicts_nil_of_compatible cur inc h]
        split <;> rfl
      rw [hres]
      simp only
      have hadds : inc.filter (fun m => !([] : List MLabel).contains m.label) = inc := by
        apply List.filter_eq_self.2
        intro m _
        simp
      rw [hadds]

theorem merge_of_compatible (v : Nat) (skip : Bool) (kind : Man → RedactionKind) (cur inc : MStore)
    (h : Compatible cur inc) (hne : inc ≠ []) (hv : ∀ m ∈ inc, m.ver ≤ v) :
    merge v skip kind cur inc = .ok (inc.foldl replaceOrInsert cur) := by
  rw [merge_compatible_nf v skip kind cur inc h]
  cases hp : provenance inc with
  | none => exact absurd ((provenance_none_iff inc).1 hp) hne
  | some pc =>
    have h1 : ¬ v < pc.ver := Nat.not_lt.2 (hv pc (provenance_mem inc pc hp))
    have hany : inc.any (fun m => decide (m.ver > v)) = false := by
      rw [List.any_eq_false]
      intro m hm
      simpa using hv m hm
    simp [h1, hany]

/-- **The version gates, as an iff**: a store without label conflict can be merged exactly when it
has a provenance claim (is not empty) and none of its claims is newer than the claim being built. -/
theorem merge_ok_iff_of_compatible (v : Nat) (skip : Bool) (kind : Man → RedactionKind)
    (cur inc : MStore) (h : Compatible cur inc) :
    (∃ s', merge v skip kind cur inc = .ok s') ↔ inc ≠ [] ∧ ∀ m ∈ inc, m.ver ≤ v := by
  constructor
  · rintro ⟨s', hs⟩
    rw [merge_compatible_nf v skip kind cur inc h] at hs
    cases hp : provenance inc with
    | none => rw [hp] at hs; cases hs
    | some pc =>
      rw [hp] at hs
      simp only at hs
      refine ⟨fun he => (by rw [he] at hp; cases hp), ?_⟩
      by_cases h1 : v < pc.ver
      · simp [h1] at hs
      · simp only [h1, if_false] at hs
        by_cases hany : inc.any (fun m => decide (m.ver > v)) = true
        · simp [hany] at hs
        · intro m hm
          have := (List.any_eq_false.1 (Bool.eq_false_iff.2 hany)) m hm
          simpa using this
  · rintro ⟨hne, hv⟩
    exact ⟨_, merge_of_compatible v skip kind cur inc h hne hv⟩

/-- **merge_rejects_newer_active**: an ingredient whose active manifest is newer than the claim is
refused with "ingredient version too new" — whatever the claim already holds. -/
theorem merge_rejects_newer_active (v : Nat) (skip : Bool) (kind : Man → RedactionKind)
    (cur inc : MStore) (pc : Man) (hp : provenance inc = some pc) (hn : pc.ver > v) :
    merge v skip kind cur inc = .error .versionTooNew := by
  unfold merge
  rw [hp]
  simp [hn]

/-- **merge_rejects_newer**: any newer claim anywhere in the incoming store is refused
(`versionTooNew` when it is the active one, else `VersionCompatibility`). -/
theorem merge_rejects_newer (v : Nat) (skip : Bool) (kind : Man → RedactionKind)
    (cur inc : MStore) (h : Compatible cur inc) (hn : ∃ m ∈ inc, m.ver > v) :
    merge v skip kind cur inc = .error .versionTooNew ∨
    merge v skip kind cur inc = .error .versionCompatibility := by
  rw [merge_compatible_nf v skip kind cur inc h]
  obtain ⟨m, hm, hmv⟩ := hn
  cases hp : provenance inc with
  | none => rw [(provenance_none_iff inc).1 hp] at hm; cases hm
  | some pc =>
    simp only
    by_cases h1 : v < pc.ver
    · left; simp [h1]
    · right
      have hany : inc.any (fun m => decide (m.ver > v)) = true :=
        List.any_eq_true.2 ⟨m, hm, by simpa using hmv⟩
      simp [h1, hany]

theorem merge_missing_provenance (v : Nat) (skip : Bool) (kind : Man → RedactionKind) (cur : MStore) :
    merge v skip kind cur [] = .error .missingProvenance := rfl

example : merge 1 false (fun _ => .notByRedaction) [] [⟨⟨"A", none, none⟩, "a", 1⟩, ⟨⟨"B", none, none⟩, "b", 2⟩] =
    .error .versionTooNew := by rfl
example : merge 1 false (fun _ => .notByRedaction) [] [⟨⟨"B", none, none⟩, "b", 2⟩, ⟨⟨"A", none, none⟩, "a", 1⟩] =
    .error .versionCompatibility := by rfl

/-- **ingredient_store_embedded_unchanged.** Without a label conflict, for a non-empty incoming store
none of whose claims is newer than the claim being built, the merge succeeds, every incoming
manifest is then present under its own label with its own content, and every manifest the claim's
store already held is still there with its content — with or without conflict resolution, for every
redaction classifier. (The version condition is necessary: `merge_ok_iff_of_compatible`.) -/
theorem ingredient_store_embedded_unchanged (v : Nat) (skip : Bool) (kind : Man → RedactionKind)
    (cur inc : MStore) (hui : Uniq inc) (huc : Uniq cur) (h : Compatible cur inc)
    (hne : inc ≠ []) (hv : ∀ m ∈ inc, m.ver ≤ v) :
    ∃ s', merge v skip kind cur inc = .ok s' ∧
      (∀ m ∈ inc, lookup s' m.label = some m.content) ∧
      (∀ c ∈ cur, lookup s' c.label = some c.content) := by
  refine ⟨_, merge_of_compatible v skip kind cur inc h hne hv, ?_, ?_⟩
  · intro m hm
    rw [lookup_foldl]
    have hur : Uniq inc.reverse := by
      unfold Uniq at *
      rw [List.map_reverse]
      exact (List.reverse_perm _).nodup_iff.2 hui
    rw [lookup_mem_uniq inc.reverse hur m (List.mem_reverse.2 hm)]
  · intro c hc
    rw [lookup_foldl]
    cases hl : lookup inc.reverse c.label with
    | none => exact lookup_mem_uniq cur huc c hc
    | some x =>
      simp only
      obtain ⟨m, hm, h1, h2⟩ := lookup_some_mem _ _ _ hl
      have hm' : m ∈ inc := List.mem_reverse.1 hm
      have := h m hm' c.content (by rw [h1]; exact lookup_mem_uniq cur huc c hc)
      rw [← h2, this]

example : Uniq [⟨⟨"A", none, none⟩, "a", 1⟩, ⟨⟨"B", none, none⟩, "b", 2⟩] ∧
    Compatible [⟨⟨"A", none, none⟩, "a", 1⟩] [⟨⟨"A", none, none⟩, "a", 1⟩, ⟨⟨"B", none, none⟩, "b", 2⟩] := by
  refine ⟨by simp [Uniq], ?_⟩
  intro m hm c hc
  simp at hm
  rcases hm with rfl | rfl
  · simp [lookup] at hc; exact hc.symm
  · simp [lookup] at hc

/-- The statement without the version condition ("for every claim version") is false: a version 2
ingredient cannot be added to a version 1 claim (replayed on the implementation: `add v=1` with an
ingredient signed in-process). -/
theorem v2_ingredient_into_v1_claim_rejected :
    ¬ (∀ (v : Nat) (cur inc : MStore), Uniq inc → Uniq cur → Compatible cur inc → inc ≠ [] →
        ∃ s', merge v false (fun _ => .notByRedaction) cur inc = .ok s') := by
  intro h
  obtain ⟨s', hs⟩ := h 1 [] [⟨⟨"L", none, none⟩, "a", 2⟩] (by simp [Uniq]) (by simp [Uniq])
    (compatible_nil _) (by simp)
  have : merge 1 false (fun _ => RedactionKind.notByRedaction) [] [⟨⟨"L", none, none⟩, "a", 2⟩] =
      .error .versionTooNew := by rfl
  rw [this] at hs
  cases hs

/-! ### what can be signed -/

/-- **signable_iff** (version 2 claim, v3 ingredient assertion). Given no label conflict with what the
claim already holds, the ingredient can be added and the claim built exactly when the stand-alone
read found no manifest at all, or produced a store with a provenance claim and no claim newer than
version 2. In particular an inaccessible remote manifest and a hard error block signing. -/
theorem signable_iff (o : ReadOutcome) (skip : Bool) (kind : Man → RedactionKind) (cur : MStore)
    (hcompat : ∀ s r, o = .ok s r → Compatible cur s) :
    (∃ i, addStream o = some i ∧ ∃ out, addToClaim 2 skip kind cur i = .ok out) ↔
      o = .noManifest ∨ ∃ s r, o = .ok s r ∧ s ≠ [] ∧ ∀ m ∈ s, m.ver ≤ 2 := by
  cases o with
  | noManifest => simp [addStream, record, addToClaim, toAssertion]
  | inaccessible => simp [addStream, record, addToClaim, toAssertion]
  | cancelled => simp [addStream, record]
  | hardError l => simp [addStream, record, addToClaim, toAssertion]
  | ok s r =>
    have hc := hcompat s r rfl
    simp only [addStream, record, Option.some.injEq, exists_eq_left', reduceCtorEq, false_or]
    constructor
    · rintro ⟨out, hout⟩
      simp only [addToClaim] at hout
      cases hm : merge 2 skip kind cur s with
      | error e => rw [hm] at hout; cases hout
      | ok cur' =>
        have := (merge_ok_iff_of_compatible 2 skip kind cur s hc).1 ⟨cur', hm⟩
        exact ⟨s, r, rfl, this.1, this.2⟩
    · rintro ⟨s', r', heq, hne, hv⟩
      injection heq with h1 h2
      subst h1
      have hm := merge_of_compatible 2 skip kind cur s hc hne hv
      have hp : (provenance s).isSome = true := (provenance_isSome_iff s).2 hne
      simp [addToClaim, hm, toAssertion, hp]

/-- **signable_v1_iff** (version 1 claim, v2 ingredient assertion: no both-or-neither rule): every
outcome but a cancelled read can be signed, provided a produced store has a provenance claim and only
version 1 claims. -/
theorem signable_v1_iff (o : ReadOutcome) (skip : Bool) (kind : Man → RedactionKind) (cur : MStore)
    (hcompat : ∀ s r, o = .ok s r → Compatible cur s) :
    (∃ i, addStream o = some i ∧ ∃ out, addToClaim 1 skip kind cur i = .ok out) ↔
      o ≠ .cancelled ∧ ∀ s r, o = .ok s r → s ≠ [] ∧ ∀ m ∈ s, m.ver ≤ 1 := by
  cases o with
  | noManifest => simp [addStream, record, addToClaim, toAssertion]
  | inaccessible => simp [addStream, record, addToClaim, toAssertion]
  | cancelled => simp [addStream, record]
  | hardError l => simp [addStream, record, addToClaim, toAssertion]
  | ok s r =>
    have hc := hcompat s r rfl
    simp only [addStream, record, Option.some.injEq, exists_eq_left', ne_eq, reduceCtorEq,
      not_false_eq_true, true_and]
    constructor
    · rintro ⟨out, hout⟩ s' r' heq
      injection heq with h1 h2
      subst h1
      simp only [addToClaim] at hout
      cases hm : merge 1 skip kind cur s with
      | error e => rw [hm] at hout; cases hout
      | ok cur' => exact (merge_ok_iff_of_compatible 1 skip kind cur s hc).1 ⟨cur', hm⟩
    · intro h
      obtain ⟨hne, hv⟩ := h s r rfl
      have hm := merge_of_compatible 1 skip kind cur s hc hne hv
      simp [addToClaim, hm, toAssertion]

/-- **hard_error_blocks_signing** (as coded; open finding `damaged-ingredient-blocks-signing`): a
hard error of the stand-alone validation leaves results without manifest data, which the v3
ingredient assertion refuses; a version 1 claim takes it (status list only). -/
theorem hard_error_blocks_signing (logged : Results) (skip : Bool) (kind : Man → RedactionKind)
    (cur : MStore) :
    ∃ i, addStream (.hardError logged) = some i ∧
      addToClaim 2 skip kind cur i = .error .bothOrNeither ∧
      addToClaim 1 skip kind cur i = .ok (cur, ⟨none, none, statusOf logged⟩) :=
  ⟨_, rfl, rfl, rfl⟩

/-- **inaccessible_blocks_signing** (as coded; open finding
`inaccessible-remote-ingredient-blocks-signing`). -/
theorem inaccessible_blocks_signing (c : ErrClass) (l : Results)
    (hc : c = .remoteManifestUrl ∨ c = .remoteManifestFetch) (skip : Bool)
    (kind : Man → RedactionKind) (cur : MStore) :
    ∃ i, addStream (armOf c l) = some i ∧ i.active = none ∧ i.data = none ∧
      i.status = some ["manifest.inaccessible"] ∧
      addToClaim 2 skip kind cur i = .error .bothOrNeither := by
  rcases hc with rfl | rfl <;> exact ⟨_, rfl, rfl, rfl, rfl, rfl⟩

/-- a store without provenance claim (only reachable with `verify_after_reading = false`) is
recorded as manifest data without active manifest and blocks every claim -/
theorem missing_provenance_blocks_signing (r : Results) (v : Nat) (skip : Bool)
    (kind : Man → RedactionKind) (cur : MStore) :
    ∃ i, addStream (.ok [] r) = some i ∧ i.active = none ∧ i.data = some [] ∧
      addToClaim v skip kind cur i = .error .missingProvenance :=
  ⟨_, rfl, rfl, rfl, rfl⟩

/-- **Validation results are copied from the stand-alone read**, with the active manifest and the
manifest store; the v3 ingredient assertion carries exactly them, its manifest reference is the
recorded active manifest, and the claim's ingredient store is the fold of the ingredient's store
into it. For a version 1 claim the assertion carries the failure codes instead. -/
theorem validation_copied (s : MStore) (r : Results) (v : Nat) (hv12 : v = 1 ∨ v = 2) (skip : Bool)
    (kind : Man → RedactionKind) (cur : MStore) (hne : s ≠ []) (hv : ∀ m ∈ s, m.ver ≤ v)
    (hc : Compatible cur s) :
    ∃ i, addStream (.ok s r) = some i ∧ i.results = some r ∧ i.data = some s ∧
      i.active = (provenance s).map (·.label) ∧ i.active.isSome ∧
      ∃ a, addToClaim v skip kind cur i = .ok (s.foldl replaceOrInsert cur, a) ∧
        a.manifestRef = i.active ∧
        (v = 2 → a.results = some r) ∧ (v = 1 → a.status = statusOf r) := by
  have hp : (provenance s).isSome = true := (provenance_isSome_iff s).2 hne
  refine ⟨_, rfl, rfl, rfl, rfl, by simpa using hp, ?_⟩
  have hm := merge_of_compatible v skip kind cur s hc hne hv
  rcases hv12 with rfl | rfl
  · exact ⟨⟨(provenance s).map (·.label), none, statusOf r⟩, by simp [addToClaim, hm, toAssertion],
      rfl, by simp, fun _ => rfl⟩
  · exact ⟨⟨(provenance s).map (·.label), some r, none⟩, by simp [addToClaim, hm, toAssertion, hp],
      rfl, fun _ => rfl, by simp⟩

example : [⟨⟨"L", none, none⟩, "c", 2⟩] ≠ ([] : MStore) ∧
    (∀ m ∈ [(⟨⟨"L", none, none⟩, "c", 2⟩ : Man)], m.ver ≤ 2) ∧
    Compatible [] [⟨⟨"L", none, none⟩, "c", 2⟩] :=
  ⟨by simp, by simp, compatible_nil _⟩

/-! ### the conflict branch as coded -/

/-- The full statement: any two stores (the incoming one admissible: not empty, no claim newer than
the claim) merge, the incoming manifests are embedded (under their own label or a relabelled one)
and nothing the claim already held is lost. -/
def IngredientStoreEmbeddedFull : Prop :=
  ∀ (cur inc : MStore), Uniq cur → Uniq inc → inc ≠ [] → (∀ m ∈ inc, m.ver ≤ 2) →
    ∃ s', merge 2 false (fun _ => .notByRedaction) cur inc = .ok s' ∧
      (∀ c ∈ cur, ∃ l, lookup s' l = some c.content) ∧
      (∀ m ∈ inc, ∃ l, lookup s' l = some m.content)

/-- **Every first conflict fails**: with no relabelled manifest in the claim's store yet there is
no "last conflict version", and the code returns an error instead of starting at version 1. -/
theorem first_conflict_fails (v : Nat) (cur inc : MStore) (hv : v > 1)
    (hc : conflicts cur inc ≠ []) (hnov : maxVersion cur = none)
    (hle : ∀ pc, provenance inc = some pc → pc.ver ≤ v) :
    merge v false (fun _ => .notByRedaction) cur inc = .error .labelMalformed := by
  unfold merge
  cases hp : provenance inc with
  | none =>
    have : inc = [] := (provenance_none_iff inc).1 hp
    subst this
    exact absurd rfl hc
  | some pc =>
    have h1 : ¬ v < pc.ver := Nat.not_lt.2 (hle pc hp)
    have h2 : (decide (v > 1) && !false) = true := by simp [hv]
    simp only [h1, if_false, h2, if_true]
    cases hcf : conflicts cur inc with
    | nil => exact absurd hcf hc
    | cons m ms => simp [resolve, hnov]

theorem ingredient_store_embedded_full_false : ¬ IngredientStoreEmbeddedFull := by
  intro h
  obtain ⟨s', hs, _⟩ := h [⟨⟨"L", none, none⟩, "a", 2⟩] [⟨⟨"L", none, none⟩, "b", 2⟩]
    (by simp [Uniq]) (by simp [Uniq]) (by simp) (by simp)
  have : merge 2 false (fun _ => RedactionKind.notByRedaction) [⟨⟨"L", none, none⟩, "a", 2⟩]
      [⟨⟨"L", none, none⟩, "b", 2⟩] = .error .labelMalformed := by rfl
  rw [this] at hs
  cases hs

/-- when a version is available the conflict is "resolved" by storing the incoming manifest twice;
the manifest the claim held under that label is lost -/
theorem conflict_overwrites_current :
    ∃ s', merge 2 false (fun _ => .notByRedaction)
        [⟨⟨"L", none, none⟩, "a", 2⟩, ⟨⟨"K", some 3, some 1⟩, "x", 2⟩] [⟨⟨"L", none, none⟩, "b", 2⟩] = .ok s' ∧
      lookup s' ⟨"L", none, none⟩ = some "b" ∧ lookup s' ⟨"L", some 4, some 1⟩ = some "b" ∧
      ∀ l, lookup s' l ≠ some "a" := by
  refine ⟨[⟨⟨"L", none, none⟩, "b", 2⟩, ⟨⟨"K", some 3, some 1⟩, "x", 2⟩, ⟨⟨"L", some 4, some 1⟩, "b", 2⟩],
    by rfl, by decide, by decide, ?_⟩
  intro l h
  obtain ⟨m, hm, _, h2⟩ := lookup_some_mem _ _ _ h
  simp at hm
  rcases hm with rfl | rfl | rfl <;> simp at h2

/-! ### several ingredients -/

theorem mem_roi (s : MStore) (m x : Man) (h : x ∈ replaceOrInsert s m) : x ∈ s ∨ x = m := by
  induction s with
  | nil => simp [replaceOrInsert] at h; exact Or.inr h
  | cons y ys ih =>
    unfold replaceOrInsert at h
    by_cases hy : y.label = m.label
    · simp only [hy, if_true, List.mem_cons] at h
      rcases h with h | h
      · exact Or.inr h
      · exact Or.inl (by simp [h])
    · simp only [hy, if_false, List.mem_cons] at h
      rcases h with h | h
      · exact Or.inl (by simp [h])
      · rcases ih h with h | h
        · exact Or.inl (by simp [h])
        · exact Or.inr h

theorem mem_foldl_roi (inc s : MStore) (x : Man) (h : x ∈ inc.foldl replaceOrInsert s) :
    x ∈ s ∨ x ∈ inc := by
  induction inc generalizing s with
  | nil => exact Or.inl h
  | cons m ms ih =>
    simp only [List.foldl_cons] at h
    rcases ih _ h with h | h
    · rcases mem_roi s m x h with h | h
      · exact Or.inl h
      · exact Or.inr (by simp [h])
    · exact Or.inr (by simp [h])

theorem uniq_roi (s : MStore) (m : Man) (hu : Uniq s) : Uniq (replaceOrInsert s m) := by
  induction s with
  | nil => simp [replaceOrInsert, Uniq]
  | cons y ys ih =>
    unfold Uniq at hu ih ⊢
    simp only [List.map_cons, List.nodup_cons] at hu
    unfold replaceOrInsert
    by_cases hy : y.label = m.label
    · simp only [hy, if_true, List.map_cons, List.nodup_cons]
      exact ⟨hy ▸ hu.1, hu.2⟩
    · simp only [hy, if_false, List.map_cons, List.nodup_cons]
      refine ⟨?_, ih hu.2⟩
      intro hmem
      obtain ⟨x, hx, hxl⟩ := List.mem_map.1 hmem
      rcases mem_roi ys m x hx with h | h
      · exact hu.1 (hxl ▸ List.mem_map_of_mem h)
      · subst h; exact hy hxl.symm

theorem uniq_foldl_roi (inc s : MStore) (hu : Uniq s) : Uniq (inc.foldl replaceOrInsert s) := by
  induction inc generalizing s with
  | nil => exact hu
  | cons m ms ih => exact ih _ (uniq_roi s m hu)

/-- all stores agree wherever they share a label -/
def Agree (a b : MStore) : Prop := ∀ x ∈ a, ∀ y ∈ b, x.label = y.label → x.content = y.content

theorem compatible_of_agree (cur inc : MStore) (_huc : Uniq cur) (h : Agree cur inc) :
    Compatible cur inc := by
  intro m hm c hc
  obtain ⟨x, hx, h1, h2⟩ := lookup_some_mem _ _ _ hc
  rw [← h2]
  exact h x hx m hm h1

/-- **all_ingredient_stores_embedded.** For any list of admissible ingredient stores (not empty, no
claim newer than the claim being built) that pairwise agree on shared labels (and agree with what
the claim already holds), adding them one after the other succeeds and the final store holds every
manifest of every ingredient store, and everything the claim held before, unchanged. -/
theorem all_ingredient_stores_embedded (v : Nat) (skip : Bool) (kind : Man → RedactionKind)
    (stores : List MStore) (cur : MStore) (huc : Uniq cur)
    (hu : ∀ s ∈ stores, Uniq s)
    (hadm : ∀ s ∈ stores, s ≠ [] ∧ ∀ m ∈ s, m.ver ≤ v)
    (hcur : ∀ s ∈ stores, Agree cur s)
    (hpair : ∀ s ∈ stores, ∀ t ∈ stores, Agree s t) :
    ∃ fin, mergeAll v skip kind stores cur = .ok fin ∧
      (∀ c ∈ cur, lookup fin c.label = some c.content) ∧
      (∀ s ∈ stores, ∀ m ∈ s, lookup fin m.label = some m.content) := by
  induction stores generalizing cur with
  | nil => exact ⟨cur, rfl, fun c hc => lookup_mem_uniq cur huc c hc, by simp⟩
  | cons s ss ih =>
    have hcomp : Compatible cur s := compatible_of_agree cur s huc (hcur s (by simp))
    have hs := hadm s (by simp)
    obtain ⟨s1, hs1, hinc, hold⟩ :=
      ingredient_store_embedded_unchanged v skip kind cur s (hu s (by simp)) huc hcomp hs.1 hs.2
    have hs1eq : s1 = s.foldl replaceOrInsert cur := by
      have := merge_of_compatible v skip kind cur s hcomp hs.1 hs.2
      rw [this] at hs1
      injection hs1 with hs1
      exact hs1.symm
    have hu1 : Uniq s1 := hs1eq ▸ uniq_foldl_roi s cur huc
    have hagree1 : ∀ t ∈ ss, Agree s1 t := by
      intro t ht x hx y hy hxy
      rw [hs1eq] at hx
      rcases mem_foldl_roi s cur x hx with hx | hx
      · exact hcur t (by simp [ht]) x hx y hy hxy
      · exact hpair s (by simp) t (by simp [ht]) x hx y hy hxy
    obtain ⟨fin, hfin, hold1, hrest⟩ := ih s1 hu1 (fun t ht => hu t (by simp [ht]))
      (fun t ht => hadm t (by simp [ht])) hagree1
      (fun a ha b hb => hpair a (by simp [ha]) b (by simp [hb]))
    refine ⟨fin, ?_, ?_, ?_⟩
    · simp only [mergeAll, hs1]
      exact hfin
    · intro c hc
      obtain ⟨x, hx, h1, h2⟩ := lookup_some_mem _ _ _ (hold c hc)
      have := hold1 x hx
      rw [h1, h2] at this
      exact this
    · intro t ht m hm
      rcases List.mem_cons.1 ht with rfl | ht'
      · obtain ⟨x, hx, h1, h2⟩ := lookup_some_mem _ _ _ (hinc m hm)
        have := hold1 x hx
        rw [h1, h2] at this
        exact this
      · exact hrest t ht' m hm

/-! ### resource lookup: an ingredient's own resource is never shadowed -/

/-- **own_resource_never_shadowed.** Whatever the Builder's resource store holds — in particular
another ingredient's manifest under the same (default) identifier — a resource present in the
ingredient's own store is the one `add_to_claim` uses. -/
theorem own_resource_never_shadowed {α : Type} (own builder : RStore α) (id : String) (r : α)
    (h : rget own id = some r) : getResource own builder id = some r := by
  simp [getResource, h]

/-- the Builder's store is consulted exactly when the ingredient's own store has nothing under the
identifier -/
theorem get_resource_iff {α : Type} (own builder : RStore α) (id : String) (r : α) :
    getResource own builder id = some r ↔
      rget own id = some r ∨ (rget own id = none ∧ rget builder id = some r) := by
  unfold getResource
  cases h : rget own id with
  | none => simp
  | some x => simp

/-- **own_manifest_embedded_whatever_the_builder_holds.** An ingredient that keeps its manifest data
in its own store is added to the claim exactly as if there were no Builder store: its own manifest
store is merged and referenced, for every content of the Builder's store. -/
theorem own_manifest_embedded_whatever_the_builder_holds (v : Nat) (skip : Bool)
    (kind : Man → RedactionKind) (cur : MStore) (i : IngRec) (id : String) (s : MStore)
    (own builder : RStore MStore) (h : rget own id = some s) :
    addToClaimRef v skip kind cur i (some id) own builder =
      addToClaim v skip kind cur { i with data := some s } := by
  simp [addToClaimRef, own_resource_never_shadowed own builder id s h]

/-- two stream ingredients and a definition ingredient colliding on the default identifier: each
carries its own manifest (the seeded swap of the lookup order would give B the manifest of A) -/
example : getResource [("manifest_data.c2pa", "B")] [("manifest_data.c2pa", "A")] "manifest_data.c2pa" = some "B" ∧
    getResource ([] : RStore String) [("manifest_data.c2pa", "A")] "manifest_data.c2pa" = some "A" := by
  decide

/-! ### recorded results and the parent Reader's ingredient deltas -/

/-- **Which logged statuses the parent's read reports.** A status is reported iff it was logged and
(it was not logged for an ingredient, or it is about the active manifest itself, or it is not equal
(code, url, kind) to any status captured in an ingredient assertion of the store). -/
theorem from_store_mem_iff (a : String) (cap log : List Status) (s : Status) :
    s ∈ fromStore (some a) cap log ↔
      s ∈ log ∧ (s.ingUri = none ∨ s.manifest = a ∨ ∀ c ∈ cap, c.same s = false) := by
  unfold fromStore
  by_cases hany : log.any (fun s => s.manifest != a) = true
  · simp only [hany, if_true, List.mem_filter, Bool.or_eq_true, Option.isNone_iff_eq_none,
      beq_iff_eq, Bool.not_eq_true', List.any_eq_false, or_assoc]
    constructor
    · rintro ⟨h1, h2⟩
      refine ⟨h1, ?_⟩
      rcases h2 with h | h | h
      · exact Or.inl h
      · exact Or.inr (Or.inl h)
      · exact Or.inr (Or.inr (fun c hc => by simpa using h c hc))
    · rintro ⟨h1, h2⟩
      refine ⟨h1, ?_⟩
      rcases h2 with h | h | h
      · exact Or.inl h
      · exact Or.inr (Or.inl h)
      · exact Or.inr (Or.inr (fun c hc => by simpa using h c hc))
  · simp only [hany]
    constructor
    · intro h1
      refine ⟨h1, Or.inr (Or.inl ?_)⟩
      have := List.any_eq_false.1 (Bool.eq_false_iff.2 hany) s h1
      simpa using this
    · exact fun h => h.1

/-- **faithful_capture_no_failure_delta.** If every failure logged for an ingredient manifest while
the parent is read is among the captured statuses (which hold the stand-alone results of each
ingredient: `validation_copied`), the parent's read reports no failure delta about an ingredient
manifest — the only possible delta failures concern the active manifest itself. -/
theorem faithful_capture_no_failure_delta (a : String) (cap log : List Status)
    (hcov : ∀ s ∈ log, s.kind = 2 → s.ingUri.isSome → s.manifest ≠ a → ∃ c ∈ cap, c.same s = true) :
    ∀ s ∈ deltaFailures (fromStore (some a) cap log), s.manifest = a := by
  intro s hs
  unfold deltaFailures at hs
  simp only [List.mem_filter, Bool.and_eq_true, beq_iff_eq] at hs
  obtain ⟨hmem, hu, hk⟩ := hs
  obtain ⟨hlog, hor⟩ := (from_store_mem_iff a cap log s).1 hmem
  rcases hor with h | h | h
  · rw [h] at hu; cases hu
  · exact h
  · apply Classical.byContradiction
    intro hne
    obtain ⟨c, hc, hsame⟩ := hcov s hlog hk hu hne
    rw [h c hc] at hsame
    cases hsame

/-- **dropped_failure_is_delta.** Conversely a failure found for an ingredient manifest while the
parent is read that the capture did not record is reported as an ingredient delta failure: an
unfaithful capture is visible in the parent's read. -/
theorem dropped_failure_is_delta (a : String) (cap log : List Status) (f : Status)
    (hf : f ∈ log) (hk : f.kind = 2) (hu : f.ingUri.isSome)
    (hnot : ∀ c ∈ cap, c.same f = false) :
    f ∈ deltaFailures (fromStore (some a) cap log) := by
  unfold deltaFailures
  simp only [List.mem_filter, Bool.and_eq_true, beq_iff_eq]
  exact ⟨(from_store_mem_iff a cap log f).2 ⟨hf, Or.inr (Or.inr hnot)⟩, hu, hk⟩

example : deltaFailures (fromStore (some "P") [⟨2, "assertion.dataHash.mismatch", "I", "h", none⟩]
    [⟨2, "assertion.dataHash.mismatch", "I", "h", some "P/ing"⟩, ⟨0, "claimSignature.validated", "P", "s", none⟩]) = [] := by
  decide
example : deltaFailures (fromStore (some "P") []
    [⟨2, "assertion.dataHash.mismatch", "I", "h", some "P/ing"⟩, ⟨0, "claimSignature.validated", "P", "s", none⟩]) =
    [⟨2, "assertion.dataHash.mismatch", "I", "h", some "P/ing"⟩] := by
  decide

end C2pa.C39
