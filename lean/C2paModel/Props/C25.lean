import C2paModel.Lemmas.C25
/-
C25 — property theorems. The statement (properties.jsonl):

  Overlaying a JSON or TOML document on settings yields the recursive merge of the current
  settings with the document, and setting a value at a path makes reading that path return
  the value. An update that fails validation or parsing leaves the settings unchanged, and
  equivalent JSON and TOML documents give equal settings.

All theorems quantify over every `Json` value (unbounded width and nesting), every path,
every depth counter and every `norm` (deserialize → validate → serialize). `WF` (unique
keys, hereditarily) is the invariant of `serde_json::Map`; it is assumed of the *overlay*
only where the loop over the overlay's entries needs it.
-/
namespace C2pa.C25

/-! ## merge = recursive right-biased union below the depth limit, replacement otherwise -/

def Json.isObj : Json → Bool
  | .obj _ => true
  | _ => false

@[simp] theorem isObj_null : Json.isObj .null = false := rfl
@[simp] theorem isObj_bool (b : Bool) : Json.isObj (.bool b) = false := rfl
@[simp] theorem isObj_num (r : String) : Json.isObj (.num r) = false := rfl
@[simp] theorem isObj_str (s : String) : Json.isObj (.str s) = false := rfl
@[simp] theorem isObj_arr (xs : List Json) : Json.isObj (.arr xs) = false := rfl
@[simp] theorem isObj_obj (kvs : Fields) : Json.isObj (.obj kvs) = true := rfl

/-- Replacement: unless both sides are objects and the depth counter is below the limit, the
overlay value replaces the target value (scalars, arrays, `null`, and everything at depth ≥ 64). -/
theorem merge_replace (t o : Json) (d : Nat)
    (h : ¬ (t.isObj = true ∧ o.isObj = true ∧ d < mergeMaxDepth)) : mergeDepth t o d = o := by
  cases t with
  | obj tkvs =>
    cases o with
    | obj okvs =>
      have hd : ¬ d < mergeMaxDepth := fun hd => h ⟨rfl, rfl, hd⟩
      exact mergeDepth_obj_ge _ _ _ hd
    | _ => exact mergeDepth_not_obj_right _ _ _ (fun _ h => by cases h)
  | _ => exact mergeDepth_not_obj_left _ _ _ (fun _ h => by cases h)

theorem isObj_iff (j : Json) : j.isObj = true ↔ ∃ kvs, j = .obj kvs := by
  cases j <;> simp

theorem merge_left_not_obj (t o : Json) (d : Nat) (h : t.isObj = false) : mergeDepth t o d = o :=
  merge_replace t o d (fun hc => by rw [h] at hc; exact Bool.noConfusion hc.1)

theorem merge_right_not_obj (t o : Json) (d : Nat) (h : o.isObj = false) : mergeDepth t o d = o :=
  merge_replace t o d (fun hc => by rw [h] at hc; exact Bool.noConfusion hc.2.1)

/-- **merge_spec.** Below the limit, merging two objects gives an object whose
* key set is the union,
* key order is the target's order followed by the overlay's new keys in the overlay's order,
* value at `k` is the target's when the overlay has no `k`, and otherwise the recursive merge
  (one level deeper) of the target's value — `null` when absent — with the overlay's. -/
theorem merge_spec (tkvs okvs : Fields) (d : Nat) (hd : d < mergeMaxDepth)
    (hnd : (keys okvs).Nodup) :
    ∃ r, mergeDepth (.obj tkvs) (.obj okvs) d = .obj r ∧
      (∀ k, k ∈ keys r ↔ k ∈ keys tkvs ∨ k ∈ keys okvs) ∧
      keys r = keys tkvs ++ (keys okvs).filter (fun k => decide (k ∉ keys tkvs)) ∧
      ∀ k, lookup k r =
        match lookup k okvs with
        | none => lookup k tkvs
        | some ov => some (mergeDepth ((lookup k tkvs).getD .null) ov (d + 1)) :=
  ⟨mergeFields tkvs okvs d, mergeDepth_obj_lt _ _ _ hd,
    fun k => mem_keys_mergeFields _ _ _ k, keys_mergeFields _ _ _ hnd,
    fun k => lookup_mergeFields _ _ _ k hnd⟩

/-- A key the overlay does not mention keeps its value. -/
theorem merge_keeps_untouched (tkvs okvs : Fields) (d : Nat) (k : String)
    (hnd : (keys okvs).Nodup) (hk : k ∉ keys okvs) :
    lookup k (mergeFields tkvs okvs d) = lookup k tkvs := by
  rw [lookup_mergeFields _ _ _ _ hnd, (lookup_eq_none_iff _ _).2 hk]

/-- A key only the overlay has takes the overlay's value as it is. -/
theorem merge_adds_new (tkvs okvs : Fields) (d : Nat) (k : String) (ov : Json)
    (hnd : (keys okvs).Nodup) (hk : k ∉ keys tkvs) (ho : lookup k okvs = some ov) :
    lookup k (mergeFields tkvs okvs d) = some ov := by
  rw [lookup_mergeFields _ _ _ _ hnd, ho, (lookup_eq_none_iff _ _).2 hk]
  simp [mergeDepth_null_left]

-- non-vacuity: a real two-level merge (sibling kept, leaf replaced, new key appended)
example :
    mergeJson (.obj [("verify", .obj [("a", .bool true), ("b", .bool true)]), ("v", .num "1")])
        (.obj [("verify", .obj [("b", .bool false), ("c", .null)])])
      = .obj [("verify", .obj [("a", .bool true), ("b", .bool false), ("c", .null)]), ("v", .num "1")] := by
  rfl

-- at the limit the overlay object replaces the target object (the sibling `a` is lost)
example :
    mergeDepth (.obj [("a", .num "1"), ("b", .num "1")]) (.obj [("b", .num "2")]) 64
      = .obj [("b", .num "2")] := by rfl
example :
    mergeDepth (.obj [("a", .num "1"), ("b", .num "1")]) (.obj [("b", .num "2")]) 63
      = .obj [("a", .num "1"), ("b", .num "2")] := by rfl

theorem WF_merge_left_not_obj (t o : Json) (d : Nat) (h : t.isObj = false) (ho : WF o) :
    WF (mergeDepth t o d) := by rw [merge_left_not_obj t o d h]; exact ho

theorem WF_merge_right_not_obj (t o : Json) (d : Nat) (h : o.isObj = false) (ho : WF o) :
    WF (mergeDepth t o d) := by rw [merge_right_not_obj t o d h]; exact ho

/-- The result of a merge has unique keys when target and overlay have. -/
theorem merge_WF (t o : Json) (d : Nat) (ht : WF t) (ho : WF o) : WF (mergeDepth t o d) := by
  induction o using Json.induct generalizing t d with
  | hobj okvs ih =>
    cases t with
    | obj tkvs =>
      by_cases hd : d < mergeMaxDepth
      · rw [mergeDepth_obj_lt _ _ _ hd, WF_obj]
        rw [WF_obj] at ht ho
        refine ⟨nodup_keys_mergeFields _ _ _ ht.1, ?_⟩
        -- every value of the result is an old value or a merge into one
        have key : ∀ (os ts : Fields), (∀ kv ∈ os, kv ∈ okvs) → (∀ kv ∈ ts, WF kv.2) →
            ∀ kv ∈ mergeFields ts os d, WF kv.2 := by
          intro os
          induction os with
          | nil => intro ts _ hts; simpa [mergeFields] using hts
          | cons hd' tl ihl =>
            obtain ⟨k0, ov0⟩ := hd'
            intro ts hsub hts
            rw [mergeFields.eq_2]
            apply ihl
            · intro kv hkv; exact hsub kv (List.mem_cons_of_mem _ hkv)
            · intro kv hkv
              rcases mem_upsert hkv with h | h
              · exact hts kv h
              · rw [h]
                have hmem : (k0, ov0) ∈ okvs := hsub _ List.mem_cons_self
                apply ih (k0, ov0) hmem
                · cases hl : lookup k0 ts with
                  | none => simp [WF]
                  | some x => exact hts _ (lookup_mem hl)
                · exact ho.2 _ hmem
        exact key okvs tkvs (fun _ h => h) ht.2
      · rw [mergeDepth_obj_ge _ _ _ hd]; exact ho
    | _ => exact WF_merge_left_not_obj _ _ _ rfl ho
  | _ => exact WF_merge_right_not_obj _ _ _ rfl ho

/-! ## idempotence -/

/-- Merging a well-formed value into itself changes nothing. -/
theorem merge_self (o : Json) (d : Nat) (ho : WF o) : mergeDepth o o d = o := by
  induction o using Json.induct generalizing d with
  | hobj okvs ih =>
    by_cases hd : d < mergeMaxDepth
    · rw [mergeDepth_obj_lt _ _ _ hd]
      rw [WF_obj] at ho
      congr 1
      apply mergeFields_fix
      intro kv hkv
      exact ⟨kv.2, lookup_of_mem ho.1 hkv, ih kv hkv (d + 1) (ho.2 kv hkv)⟩
    · exact mergeDepth_obj_ge _ _ _ hd
  | _ => exact mergeDepth_not_obj_right _ _ _ (fun _ h => by cases h)

theorem merge_idem_right_not_obj (t o : Json) (d : Nat) (h : o.isObj = false) :
    mergeDepth (mergeDepth t o d) o d = mergeDepth t o d := by
  rw [merge_right_not_obj t o d h, merge_right_not_obj o o d h]

theorem merge_idem_left_not_obj (t o : Json) (d : Nat) (h : t.isObj = false) (ho : WF o) :
    mergeDepth (mergeDepth t o d) o d = mergeDepth t o d := by
  rw [merge_left_not_obj t o d h]; exact merge_self o d ho

/-- **merge_idem.** Applying the same overlay a second time changes nothing — at every depth
counter, for every target, for every well-formed overlay. -/
theorem merge_idem (t o : Json) (d : Nat) (ho : WF o) :
    mergeDepth (mergeDepth t o d) o d = mergeDepth t o d := by
  induction o using Json.induct generalizing t d with
  | hobj okvs ih =>
    cases t with
    | obj tkvs =>
      by_cases hd : d < mergeMaxDepth
      · rw [mergeDepth_obj_lt _ _ _ hd, mergeDepth_obj_lt _ _ _ hd]
        have hw := (WF_obj okvs).1 ho
        congr 1
        apply mergeFields_fix
        intro kv hkv
        have hl : lookup kv.1 okvs = some kv.2 := lookup_of_mem hw.1 hkv
        refine ⟨mergeDepth ((lookup kv.1 tkvs).getD .null) kv.2 (d + 1), ?_, ?_⟩
        · rw [lookup_mergeFields _ _ _ _ hw.1, hl]
        · exact ih kv hkv _ (d + 1) (hw.2 kv hkv)
      · rw [mergeDepth_obj_ge _ _ _ hd]; exact merge_self _ _ ho
    | _ => exact merge_idem_left_not_obj _ _ _ rfl ho
  | _ => exact merge_idem_right_not_obj _ _ _ rfl

theorem mergeJson_idem (t o : Json) (ho : WF o) : mergeJson (mergeJson t o) o = mergeJson t o :=
  merge_idem t o 0 ho

-- non-vacuity of `WF`: a nested object with distinct keys
example : WF (.obj [("verify", .obj [("b", .bool false), ("c", .null)]), ("x", .arr [.obj []])]) := by
  simp [WF, WFFields, WFList, keys]

/-- Without unique keys the law fails (a second pass lets the later duplicate overwrite the
earlier one) — which is why it is stated for `serde_json` maps, whose keys are unique. -/
example : mergeJson .null (.obj [("a", .num "1"), ("a", .num "2")])
    = .obj [("a", .num "1"), ("a", .num "2")] := by rfl
example : mergeJson (mergeJson .null (.obj [("a", .num "1"), ("a", .num "2")]))
      (.obj [("a", .num "1"), ("a", .num "2")])
    = .obj [("a", .num "2"), ("a", .num "2")] := by rfl

/-! ## what the overlay says at a leaf is what the merged value says there -/

theorem WF_of_lookup {k : String} {kvs : Fields} {c : Json} (hw : WF (.obj kvs))
    (h : lookup k kvs = some c) : WF c :=
  ((WF_obj kvs).1 hw).2 _ (lookup_mem h)

/-- **merge_get_leaf.** If the overlay holds a non-object value `v` (scalar, array or `null`)
at a path, the merged value holds exactly `v` at that path — whatever the target, the depth
counter and the length of the path (beyond the limit the whole subtree is the overlay's). -/
theorem merge_get_leaf (p : List String) (t o v : Json) (d : Nat) (ho : WF o)
    (hv : v.isObj = false) (h : getAtPath o p = some v) :
    getAtPath (mergeDepth t o d) p = some v := by
  induction p generalizing t o d with
  | nil =>
    simp only [getAtPath, Option.some.injEq] at h
    subst h
    rw [merge_replace]
    · rfl
    · intro hc; rw [hv] at hc; exact Bool.noConfusion hc.2.1
  | cons s rest ih =>
    cases o with
    | obj okvs =>
      rw [getAtPath.eq_2] at h
      cases hl : lookup s okvs with
      | none => rw [hl] at h; cases h
      | some c =>
        rw [hl] at h
        by_cases hobj : t.isObj = true ∧ d < mergeMaxDepth
        · cases t with
          | obj tkvs =>
            rw [mergeDepth_obj_lt _ _ _ hobj.2, getAtPath.eq_2,
              lookup_mergeFields _ _ _ _ ((WF_obj okvs).1 ho).1, hl]
            exact ih _ c (d + 1) (WF_of_lookup ho hl) h
          | _ => exact absurd hobj.1 (by simp [Json.isObj])
        · rw [merge_replace _ _ _ (fun hc => hobj ⟨hc.1, hc.2.2⟩), getAtPath.eq_2, hl]
          exact h
    | _ => simp [getAtPath] at h

/-- `null` in a document sets the property to `null` (docs/context-settings.md). -/
theorem merge_null_sets_null (p : List String) (t o : Json) (ho : WF o)
    (h : getAtPath o p = some .null) : getAtPath (mergeJson t o) p = some .null :=
  merge_get_leaf p t o .null 0 ho rfl h

example : getAtPath (.obj [("builder", .obj [("intent", .null)])]) ["builder", "intent"] = some .null := by
  rfl

/-! ## set then get -/

theorem splitDotAux_ne_nil (cs cur : List Char) : splitDotAux cs cur ≠ [] := by
  induction cs generalizing cur with
  | nil => simp [splitDotAux]
  | cons c cs ih =>
    rw [splitDotAux]
    split
    · simp
    · exact ih _

/-- `split('.')` always yields at least one segment: the "empty path" error of `set_at_path`
is unreachable, as its comment says. -/
theorem splitPath_ne_nil (p : String) : splitPath p ≠ [] := by
  unfold splitPath
  intro h
  exact splitDotAux_ne_nil _ _ (List.map_eq_nil_iff.1 h)

/-- **get_set.** For every target (object or not), every non-empty list of segments and every
value, `set_at_path` succeeds and `get_at_path` then returns exactly that value. -/
theorem get_set (p : List String) (hp : p ≠ []) (t v : Json) :
    ∃ r, setAtPath t p v = .ok r ∧ getAtPath r p = some v := by
  induction p generalizing t with
  | nil => exact absurd rfl hp
  | cons s rest ih =>
    cases rest with
    | nil =>
      refine ⟨_, rfl, ?_⟩
      rw [getAtPath.eq_2, lookup_upsert_self]
      rfl
    | cons s' rest' =>
      obtain ⟨c, hc1, hc2⟩ := ih (by simp) ((lookup s (fieldsOrEmpty t)).getD (.obj []))
      refine ⟨.obj (upsert s c (fieldsOrEmpty t)), ?_, ?_⟩
      · rw [setAtPath.eq_3, hc1]
      · rw [getAtPath.eq_2, lookup_upsert_self]
        exact hc2

/-- The same for dotted path strings, as `Settings::set_value` / `get_value` take them. -/
theorem get_set_path (path : String) (t v : Json) :
    ∃ r, setAtPath t (splitPath path) v = .ok r ∧ getAtPath r (splitPath path) = some v :=
  get_set _ (splitPath_ne_nil path) t v

/-- Frame, top level only (helper; `set_frame` in `Props/C25Seq.lean` is the statement for
siblings at every depth). -/
theorem set_keeps_other_keys (p : List String) (s k : String) (t v r : Json)
    (h : setAtPath t (s :: p) v = .ok r) (hk : k ≠ s) :
    ∃ kvs, r = .obj kvs ∧ lookup k kvs = lookup k (fieldsOrEmpty t) := by
  cases p with
  | nil =>
    simp only [setAtPath, Except.ok.injEq] at h
    exact ⟨_, h.symm, lookup_upsert_ne _ _ hk⟩
  | cons s' rest =>
    rw [setAtPath.eq_3] at h
    split at h
    · simp only [Except.ok.injEq] at h
      exact ⟨_, h.symm, lookup_upsert_ne _ _ hk⟩
    · cases h

example : setAtPath (.num "7") (splitPath "a..b") (.bool true)
    = .ok (.obj [("a", .obj [("", .obj [("b", .bool true)])])]) := by rfl
example : splitPath "" = [""] := by decide

/-! ## the update control flow: failure leaves the settings as they were -/

theorem toLower_json : lowerAscii "json" = "json" := by decide
theorem toLower_toml : lowerAscii "toml" = "toml" := by decide

/-- Success of an overlay update is exactly: the document parses in the given format and the
merged value passes deserialisation + validation; the new settings are that normalised merge. -/
theorem withString_ok_iff (norm : Norm) (self : Json) (doc : Doc) (fmt : String) (s : Json) :
    withString norm self doc fmt = .ok s ↔
      ∃ ov, parseToValue doc fmt = .ok ov ∧ norm (mergeJson self ov) = .ok s := by
  unfold withString
  cases parseToValue doc fmt with
  | error e => simp
  | ok ov => simp

theorem updateFromStr_ok (norm : Norm) (doc : Doc) (fmt : String) (self s : Json)
    (h : withString norm self doc fmt = .ok s) :
    updateFromStr norm doc fmt self = (.ok (), s) := by
  simp [updateFromStr, h]

/-- **failed_update_unchanged** (`update_from_str`, hence `with_json`/`with_toml` callers):
any error — unsupported format, parse error, type error, validation error — leaves `self`
exactly as it was.

Like the code (`*self = self.with_string(..)?`), the model builds the new value first and assigns
only on success, so this and the four theorems below are short. What carries the clause against
the *code* is (1) the differential run, which compares the settings value after every failing call
(`s=` / `tl=` in the error replies) with the model's, and (2) the oracle class `atomicity`
evaluated on the real `Settings` / thread-local value / `Context`. Their content over histories is
`runOps_failed_noop` in `Props/C25Seq.lean`. -/
theorem failed_update_unchanged (norm : Norm) (doc : Doc) (fmt : String) (self : Json) (e : Err)
    (h : (updateFromStr norm doc fmt self).1 = .error e) :
    (updateFromStr norm doc fmt self).2 = self := by
  unfold updateFromStr at h ⊢
  cases hw : withString norm self doc fmt with
  | error e' => rfl
  | ok s => rw [hw] at h; cases h

/-- `set_value`: a failing call leaves `self` unchanged. -/
theorem failed_setValue_unchanged (norm : Norm) (path : String) (v self : Json) (e : Err)
    (h : (setValue norm path v self).1 = .error e) : (setValue norm path v self).2 = self := by
  unfold setValue at h ⊢
  cases hw : withValue norm self path v with
  | error e' => rfl
  | ok s => rw [hw] at h; cases h

/-- thread-local `Settings::from_string`: a failing call leaves the thread-local value unchanged
(`SETTINGS.set(merged)` happens only after deserialisation and validation). -/
theorem failed_fromString_unchanged (norm : Norm) (doc : Doc) (fmt : String) (tl : Json) (e : Err)
    (h : (fromString norm doc fmt tl).1 = .error e) : (fromString norm doc fmt tl).2 = tl := by
  unfold fromString at h ⊢
  cases hp : parseToValue doc fmt with
  | error e' => rfl
  | ok ov =>
    simp only [hp] at h ⊢
    cases hn : norm (mergeJson tl ov) with
    | error e' => rfl
    | ok s => rw [hn] at h; cases h

theorem failed_setThreadLocalValue_unchanged (norm : Norm) (path : String) (v tl : Json) (e : Err)
    (h : (setThreadLocalValue norm path v tl).1 = .error e) :
    (setThreadLocalValue norm path v tl).2 = tl := by
  unfold setThreadLocalValue at h ⊢
  cases hs : setAtPath tl (splitPath path) v with
  | error e' => rfl
  | ok m =>
    simp only [hs] at h ⊢
    cases hn : norm m with
    | error e' => rfl
    | ok s => rw [hn] at h; cases h

/-- `Context::set_settings(&str)`: a failing call leaves the context's settings unchanged. -/
theorem failed_setSettings_unchanged (norm : Norm) (dflt : Json) (doc : Doc) (ctx : Json) (e : Err)
    (h : (setSettingsStr norm dflt doc ctx).1 = .error e) :
    (setSettingsStr norm dflt doc ctx).2 = ctx := by
  unfold setSettingsStr at h ⊢
  cases hi : intoSettingsStr norm dflt doc with
  | error e' => rfl
  | ok s => rw [hi] at h; cases h

/-- Because a failed JSON attempt leaves the defaults untouched, the TOML attempt of
`IntoSettings for &str` starts from the defaults too. -/
theorem intoSettingsStr_eq (norm : Norm) (dflt : Json) (doc : Doc) :
    intoSettingsStr norm dflt doc =
      match withString norm dflt doc "json" with
      | .ok s => .ok s
      | .error _ => withString norm dflt doc "toml" := by
  unfold intoSettingsStr updateFromStr
  cases hj : withString norm dflt doc "json" with
  | ok s => rfl
  | error e =>
    simp only
    cases ht : withString norm dflt doc "toml" with
    | ok s => rfl
    | error e' => rfl

-- non-vacuity: a validation failure and a parse failure, settings untouched
example :
    updateFromStr (fun _ => .error .invalid) ⟨.ok (.obj [("version", .num "2")]), .error .parse⟩ "json"
      (.obj [("version", .num "1")]) = (.error .invalid, .obj [("version", .num "1")]) := by
  simp [updateFromStr, withString, parseToValue, toLower_json]
example :
    updateFromStr (fun m => .ok m) ⟨.error .parse, .error .parse⟩ "toml" (.obj [("version", .num "1")])
      = (.error .parse, .obj [("version", .num "1")]) := by
  simp [updateFromStr, withString, parseToValue, toLower_toml]
example :
    updateFromStr (fun m => .ok m) ⟨.ok .null, .ok .null⟩ "yaml" (.obj []) = (.error .format, .obj []) := by
  have h1 : (lowerAscii "yaml" = "json") = False := by decide
  have h2 : (lowerAscii "yaml" = "toml") = False := by decide
  simp [updateFromStr, withString, parseToValue, h1, h2]

/-! ## set_value then get_value on settings -/

/-- When the schema keeps the edited document as it is (`norm` is the identity on it), a
successful `set_value(path, v)` makes `get_value(path)` return `v`. (Helper: the special case
`s = m` of `setValue_getValue_kept` in `Props/C25Seq.lean`, which needs only that `norm` keeps
what the document holds *at the path*.) -/
theorem setValue_getValue (norm : Norm) (path : String) (v self m : Json)
    (hm : setAtPath self (splitPath path) v = .ok m) (hfix : norm m = .ok m) :
    setValue norm path v self = (.ok (), m) ∧ getValue m path = .ok v := by
  obtain ⟨r, hr1, hr2⟩ := get_set_path path self v
  rw [hm] at hr1
  cases hr1
  constructor
  · simp [setValue, withValue, hm, hfix]
  · simp [getValue, hr2]

/-- In general the value read is whatever `norm` kept at the path. -/
theorem setValue_ok_spec (norm : Norm) (path : String) (v self s : Json) :
    setValue norm path v self = (.ok (), s) ↔
      ∃ m, setAtPath self (splitPath path) v = .ok m ∧ norm m = .ok s := by
  unfold setValue withValue
  cases hs : setAtPath self (splitPath path) v with
  | error e => simp
  | ok m =>
    cases hn : norm m with
    | error e => simp [hn]
    | ok s' => simp [hn]

example : setAtPath (.obj [("verify", .obj [("verify_trust", .bool true)])])
    (splitPath "verify.verify_trust") (.bool false)
    = .ok (.obj [("verify", .obj [("verify_trust", .bool false)])]) := by rfl

/-! ## the format matters only in parsing -/

/-- json_toml_equal (helper; the clause itself is `json_toml_equiv` in `Props/C25Equiv.lean`).
A JSON document and a TOML document that parse to the *same ordered* value give the same result
from the same starting settings — the format is consulted by `parse_to_value` only. -/
theorem json_toml_equal (norm : Norm) (self : Json) (dj dt : Doc) (h : dj.json = dt.toml) :
    withString norm self dj "json" = withString norm self dt "toml" := by
  have hj : parseToValue dj "json" = dj.json := by simp [parseToValue, toLower_json]
  have ht : parseToValue dt "toml" = dt.toml := by
    unfold parseToValue
    simp [toLower_toml]
  unfold withString
  rw [hj, ht, h]

theorem json_toml_equal_update (norm : Norm) (self : Json) (dj dt : Doc) (h : dj.json = dt.toml) :
    updateFromStr norm dj "json" self = updateFromStr norm dt "toml" self := by
  unfold updateFromStr
  rw [json_toml_equal norm self dj dt h]

/-- The format name is matched case-insensitively; anything else is `UnsupportedType`
before any parsing or merging happens. -/
example (doc : Doc) : parseToValue doc "JSON" = doc.json := by
  unfold parseToValue
  have : lowerAscii "JSON" = "json" := by decide
  simp [this]

end C2pa.C25
