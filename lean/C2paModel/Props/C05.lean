import C2paModel.Model.C05
import C2paModel.Props.C06
/-
C05 — property theorems. The statement (properties.jsonl):

  A signing credential is reported trusted only if its certificate is on the configured
  end-entity allow list, or chains through the certificates supplied in the manifest to a
  configured trust anchor (system or user) with an accepted extended key usage, and it is
  otherwise reported untrusted. Trust-anchor-only mode never accepts user anchors, and with trust
  verification disabled no trust verdict is issued.

Chain building (`sysValid`, `userValid`) is an oracle input; every theorem holds for all its
values, all policies and all queries.
-/
namespace C2pa.C05

open C2pa.C06 (Eku hasAllowedEku Mode Trust)

/-- The end-entity certificate carries an EKU the policy accepts. -/
def EkuAccepted (p : Policy) (q : Query) : Prop :=
  q.eeParses = true ∧ ∃ e, q.eku = some e ∧ hasAllowedEku p.allowedEkus e = true

/-- The statement's condition for "trusted", for the OpenSSL backend. `passthrough` is the
internal no-check policy (never built from reader settings). -/
def TrustedBy (p : Policy) (q : Query) (a : Anchor) : Prop :=
  (p.passthrough = true ∧ a = .noCheck) ∨
  (p.passthrough = false ∧ q.certHash ∈ p.allowSet ∧ a = .endEntity) ∨
  (p.passthrough = false ∧ q.certHash ∉ p.allowSet ∧ (p.nSys ≠ 0 ∨ p.nUser ≠ 0) ∧ EkuAccepted p q ∧
    q.chainParses = true ∧ q.sysAnchorsParse = true ∧
    ((q.sysValid = true ∧ a = .system) ∨
     (q.sysValid = false ∧ p.anchorsOnly = false ∧ q.userAnchorsParse = true ∧ q.userValid = true ∧ a = .user)))

theorem ekuGate_none_iff (p : Policy) (q : Query) : ekuGate p q = none ↔ EkuAccepted p q := by
  unfold ekuGate EkuAccepted
  cases hp : q.eeParses
  · simp
  · cases he : q.eku with
    | none => simp
    | some e => cases hh : hasAllowedEku p.allowedEkus e <;> simp [hh]

theorem opensslCheck_ok_iff (p : Policy) (q : Query) (a : Anchor) :
    opensslCheck p q = .ok a ↔
      (p.nSys ≠ 0 ∨ p.nUser ≠ 0) ∧ EkuAccepted p q ∧ q.chainParses = true ∧ q.sysAnchorsParse = true ∧
      ((q.sysValid = true ∧ a = .system) ∨
       (q.sysValid = false ∧ p.anchorsOnly = false ∧ q.userAnchorsParse = true ∧ q.userValid = true ∧ a = .user)) := by
  rw [← ekuGate_none_iff]
  unfold opensslCheck
  by_cases h0 : (p.nSys == 0 && p.nUser == 0) = true
  · have : ¬ (p.nSys ≠ 0 ∨ p.nUser ≠ 0) := by
      simp only [Bool.and_eq_true, beq_iff_eq] at h0
      omega
    simp [h0, this]
  · have hne : p.nSys ≠ 0 ∨ p.nUser ≠ 0 := by
      simp only [Bool.and_eq_true, beq_iff_eq, not_and] at h0
      omega
    simp only [h0, Bool.false_eq_true, if_false, hne, true_and]
    cases hg : ekuGate p q with
    | some e => simp
    | none =>
      cases q.chainParses <;> cases q.sysAnchorsParse <;> cases q.sysValid <;> cases p.anchorsOnly <;>
        cases q.userAnchorsParse <;> cases q.userValid <;> cases a <;> simp

/-- **`check_certificate_trust` succeeds exactly under the statement's condition**, and reports
which kind of anchor did it. -/
theorem checkTrust_ok_iff (p : Policy) (q : Query) (a : Anchor) :
    checkTrust .openssl p q = .ok a ↔ TrustedBy p q a := by
  unfold checkTrust TrustedBy
  cases hp : p.passthrough
  · by_cases hm : p.allowSet.contains q.certHash = true
    · have hmem : q.certHash ∈ p.allowSet := by simpa using hm
      simp only [hm, if_true, Bool.false_eq_true, if_false, false_and, false_or, true_and, hmem,
        not_true_eq_false, or_false, Except.ok.injEq]
      exact eq_comm
    · have hmem : q.certHash ∉ p.allowSet := by simpa using hm
      simp only [hm, Bool.false_eq_true, if_false, opensslCheck_ok_iff, false_and, false_or, true_and,
        hmem, not_false_eq_true]
  · simp only [if_true, Except.ok.injEq, true_and, Bool.true_eq_false, false_and, or_false]
    exact eq_comm

/-- **trusted_iff_policy**: `signingCredential.trusted` is logged exactly when trust is being
verified and the statement's condition holds for some anchor kind. -/
theorem trusted_iff_policy (mode : Mode) (p : Policy) (q : Query) :
    verifyTrust mode .openssl p q = .trusted ↔ mode = .trustPolicy ∧ ∃ a, TrustedBy p q a := by
  unfold verifyTrust
  cases mode with
  | trustPolicy =>
    cases h : checkTrust .openssl p q with
    | ok a => simp; exact ⟨a, (checkTrust_ok_iff p q a).1 h⟩
    | error e =>
      simp
      intro a ha
      rw [(checkTrust_ok_iff p q a).2 ha] at h; cases h
  | profileOnly => simp
  | ignore => simp

/-- The same characterisation for the rust_native backend (modelled control flow; there the
chain oracle also absorbs decoding failures of chain certificates and anchors). -/
theorem checkTrust_native_ok_iff (p : Policy) (q : Query) (a : Anchor) :
    checkTrust .rustNative p q = .ok a ↔
      (p.passthrough = true ∧ a = .noCheck) ∨
      (p.passthrough = false ∧ q.certHash ∈ p.allowSet ∧ a = .endEntity) ∨
      (p.passthrough = false ∧ q.certHash ∉ p.allowSet ∧ (p.nSys ≠ 0 ∨ p.nUser ≠ 0) ∧ EkuAccepted p q ∧
        ((q.sysValid = true ∧ a = .system) ∨
         (q.sysValid = false ∧ p.anchorsOnly = false ∧ q.userValid = true ∧ a = .user))) := by
  unfold checkTrust
  cases hp : p.passthrough
  · by_cases hm : p.allowSet.contains q.certHash = true
    · have hmem : q.certHash ∈ p.allowSet := by simpa using hm
      simp only [hm, if_true, Bool.false_eq_true, if_false, false_and, false_or, true_and, hmem,
        not_true_eq_false, or_false, Except.ok.injEq]
      exact eq_comm
    · have hmem : q.certHash ∉ p.allowSet := by simpa using hm
      simp only [hm, Bool.false_eq_true, if_false, false_and, false_or, true_and, hmem, not_false_eq_true]
      rw [← ekuGate_none_iff]
      unfold rustNativeCheck
      by_cases h0 : (p.nSys == 0 && p.nUser == 0) = true
      · have : ¬ (p.nSys ≠ 0 ∨ p.nUser ≠ 0) := by
          simp only [Bool.and_eq_true, beq_iff_eq] at h0
          omega
        simp [h0, this]
      · have hne : p.nSys ≠ 0 ∨ p.nUser ≠ 0 := by
          simp only [Bool.and_eq_true, beq_iff_eq, not_and] at h0
          omega
        simp only [h0, Bool.false_eq_true, if_false, hne, true_and]
        cases hg : ekuGate p q with
        | some e => simp
        | none => cases q.sysValid <;> cases p.anchorsOnly <;> cases q.userValid <;> cases a <;> simp
  · simp only [if_true, Except.ok.injEq, true_and, Bool.true_eq_false, false_and, or_false]
    exact eq_comm

/-- When trust is verified a verdict is always logged, one of the two. -/
theorem verdict_total (b : Backend) (p : Policy) (q : Query) :
    verifyTrust .trustPolicy b p q = .trusted ∨ verifyTrust .trustPolicy b p q = .untrusted := by
  unfold verifyTrust
  cases checkTrust b p q <;> simp

/-- **…and it is otherwise reported untrusted**: when trust is verified exactly one of the two
verdicts is logged. -/
theorem otherwise_untrusted (p : Policy) (q : Query) :
    verifyTrust .trustPolicy .openssl p q = .untrusted ↔ ¬ ∃ a, TrustedBy p q a := by
  have h := trusted_iff_policy .trustPolicy p q
  rcases verdict_total .openssl p q with ht | hu
  · rw [ht]
    constructor
    · intro hc; cases hc
    · intro hn; exact absurd (h.1 ht).2 hn
  · rw [hu]
    constructor
    · intro _ hex
      have := h.2 ⟨rfl, hex⟩
      rw [hu] at this; cases this
    · intro _; rfl

/-- **anchors_only_never_user**: in trust-anchor-only mode the answer is never `User`, and it
does not depend on anything about the user anchors (whether they parse, whether the chain
verifies against them) — for both backends. -/
theorem anchors_only_never_user (b : Backend) (p : Policy) (q : Query) (h : p.anchorsOnly = true) :
    checkTrust b p q ≠ .ok .user ∧
    ∀ uv up, checkTrust b p { q with userValid := uv, userAnchorsParse := up } = checkTrust b p q := by
  constructor
  · unfold checkTrust opensslCheck rustNativeCheck
    cases b <;> cases p.passthrough <;> cases p.allowSet.contains q.certHash <;>
      cases (p.nSys == 0 && p.nUser == 0) <;> cases ekuGate p q <;>
      cases q.chainParses <;> cases q.sysAnchorsParse <;> cases q.sysValid <;> simp [h]
  · intro uv up
    unfold checkTrust opensslCheck rustNativeCheck ekuGate
    simp [h]

/-- A system verdict does not depend on the user anchors either (OpenSSL backend: the system
store is tried first, the user store only after it failed). Not claimed for rust_native, whose
walk goes certificate by certificate from the top of the chain and tries both stores at each, so
that which *kind* of anchor answers when both stores would verify depends on the positions. -/
theorem system_first (p : Policy) (q : Query) (h : checkTrust .openssl p q = .ok .system) :
    ∀ uv up, checkTrust .openssl p { q with userValid := uv, userAnchorsParse := up } = .ok .system := by
  intro uv up
  revert h
  unfold checkTrust opensslCheck ekuGate
  cases p.passthrough <;> cases p.allowSet.contains q.certHash <;>
    cases (p.nSys == 0 && p.nUser == 0) <;> cases q.eeParses <;> cases q.eku <;>
    cases q.chainParses <;> cases q.sysAnchorsParse <;> cases q.sysValid <;> cases p.anchorsOnly <;>
    cases q.userAnchorsParse <;> cases q.userValid <;> simp
  all_goals (split <;> simp)

/-- **disabled_no_verdict**: with trust verification disabled (`verify_trust = false` selects
`VerifyCertificateProfileOnly`; `cert_check = false` selects `IgnoreProfileAndTrustPolicy`) no
verdict is logged: neither `signingCredential.trusted` nor `signingCredential.untrusted` is among
the signature codes, whatever the policy, the credential and the oracle say. -/
theorem disabled_no_verdict (mode : Mode) (hm : mode ≠ .trustPolicy) (b : Backend)
    (tst : Option Int) (now : Int) (f : C06.CertFacts) (p : Policy) (q : Query) (sigOk : Bool) :
    verifyTrust mode b p q = .none ∧
    C04.cTrusted ∉ (credentialCodes mode b tst now f p q sigOk).success ∧
    C04.cUntrusted ∉ (credentialCodes mode b tst now f p q sigOk).failure := by
  refine ⟨?_, ?_, ?_⟩
  · cases mode <;> simp [verifyTrust] at hm ⊢
  · unfold credentialCodes C06.signatureCodes C06.trustCodes
    cases mode <;> cases sigOk <;> simp at hm ⊢ <;> decide
  · unfold credentialCodes C06.signatureCodes C06.trustCodes C06.profileFailure
    cases mode <;> cases sigOk <;> simp at hm ⊢
    all_goals
      cases C06.checkEndEntity (envOf p tst now) f with
      | ok => simp <;> decide
      | err k c r => cases c <;> simp <;> decide

/-- A chain verdict (system or user anchor) needs an accepted EKU — both backends. -/
theorem eku_required_for_chain_trust (b : Backend) (p : Policy) (q : Query)
    (h : checkTrust b p q = .ok .system ∨ checkTrust b p q = .ok .user) : EkuAccepted p q := by
  rw [← ekuGate_none_iff]
  revert h
  unfold checkTrust opensslCheck rustNativeCheck
  cases b <;> cases p.passthrough <;> cases p.allowSet.contains q.certHash <;>
    cases (p.nSys == 0 && p.nUser == 0) <;> cases ekuGate p q <;> simp

/-! ### The reported state -/

theorem state_of_codes (mode : Mode) (prof : C06.Res) (trust : Trust) (sigOk : Bool) :
    C04.state (C06.resultsOf (C06.signatureCodes mode prof trust sigOk)) =
      if !sigOk then .invalid
      else if mode ≠ .ignore ∧ prof.rejected then .invalid
      else if mode = .trustPolicy ∧ trust = .trusted then .trusted
      else .valid := by
  cases prof with
  | ok => cases mode <;> cases trust <;> cases sigOk <;> decide
  | err k c r =>
    have hk : C06.signatureCodes mode (.err k c r) trust sigOk =
        C06.signatureCodes mode (.err .invalidCertificate c .parse) trust sigOk := rfl
    have hr : (C06.Res.err k c r).rejected = (C06.Res.err .invalidCertificate c .parse).rejected := rfl
    rw [hk, hr]
    cases c <;> cases mode <;> cases trust <;> cases sigOk <;> decide

/-- The profile check and the trust check agree on the EKU: a certificate that conforms to the
profile under the policy's EKU configuration passes the trust backends' EKU gate. (In the code
both read the same `CertificateTrustPolicy` and the same certificate bytes; the model has one
`p` and derives the trust query's certificate view from `f`.) -/
theorem conforming_eku_accepted (p : Policy) (tst : Option Int) (now : Int) (f : C06.CertFacts)
    (q : Query) (c : C06.Conforming (envOf p tst now) f) : EkuAccepted p (queryOf f q) := by
  obtain ⟨e, he, _, hal, _⟩ := c.eku
  refine ⟨?_, e, ?_, hal⟩
  · simp [queryOf, c.parses]
  · simp [queryOf, he, ekuOfFacts]

/-- **The state is Trusted exactly when** trust is verified, the policy trusts the credential, the
certificate conforms to the profile (C06) under the *same* policy, and the signature verifies. -/
theorem credential_trusted_iff (mode : Mode) (tst : Option Int) (now : Int) (f : C06.CertFacts)
    (p : Policy) (q : Query) (sigOk : Bool) :
    credentialState mode .openssl tst now f p q sigOk = .trusted ↔
      mode = .trustPolicy ∧ (∃ a, TrustedBy p (queryOf f q) a) ∧
        C06.Conforming (envOf p tst now) f ∧ sigOk = true := by
  unfold credentialState credentialCodes
  rw [state_of_codes, ← C06.accepted_iff_conforming]
  have ht := trusted_iff_policy mode p (queryOf f q)
  cases sigOk
  · simp
  · cases hpr : C06.checkEndEntity (envOf p tst now) f with
    | ok =>
      cases mode
      · rcases verdict_total .openssl p (queryOf f q) with hv | hv
        · have := (ht.1 hv).2
          simp [hv, Verdict.toTrust, C06.Res.rejected, this]
        · have hne : ¬ ∃ a, TrustedBy p (queryOf f q) a := fun hex => by
            have := ht.2 ⟨rfl, hex⟩; rw [hv] at this; cases this
          simp [hv, Verdict.toTrust, C06.Res.rejected, hne]
      · simp [C06.Res.rejected]
      · simp [C06.Res.rejected]
    | err k c r =>
      cases mode
      · simp [C06.Res.rejected]
      · simp [C06.Res.rejected]
      · simp [C06.Res.rejected]

/-- **eku_required**: a Trusted state implies an EKU on the signing certificate that the
policy's own configuration accepts, whichever way trust was established (allow list included). -/
theorem eku_required (mode : Mode) (tst : Option Int) (now : Int) (f : C06.CertFacts) (p : Policy)
    (q : Query) (sigOk : Bool) (h : credentialState mode .openssl tst now f p q sigOk = .trusted) :
    ∃ e, f.eku = .some e ∧ e.any = false ∧ hasAllowedEku p.allowedEkus e = true := by
  obtain ⟨_, _, c, _⟩ := (credential_trusted_iff mode tst now f p q sigOk).1 h
  obtain ⟨e, he, ha, hal, _⟩ := c.eku
  exact ⟨e, he, ha, hal⟩

/-- A conforming, correctly signed credential that the policy does not trust is Valid with
`signingCredential.untrusted`. -/
theorem conforming_untrusted_valid (tst : Option Int) (now : Int) (f : C06.CertFacts) (p : Policy)
    (q : Query) (hc : C06.Conforming (envOf p tst now) f) (hn : ¬ ∃ a, TrustedBy p (queryOf f q) a) :
    credentialState .trustPolicy .openssl tst now f p q true = .valid ∧
    C04.cUntrusted ∈ (credentialCodes .trustPolicy .openssl tst now f p q true).failure := by
  have hu := (otherwise_untrusted p (queryOf f q)).2 hn
  unfold credentialState credentialCodes
  rw [C06.conforming_accepted _ f hc, hu]
  exact ⟨by decide, by decide⟩

/-! ### The statement, declaratively -/

/-- Input-level coherence of the chain oracle with the configuration: a chain can only verify
against a store that holds at least one anchor. (The implementation's oracle, OpenSSL, cannot
answer "verified" from an empty store.) -/
def OracleCoherent (p : Policy) (q : Query) : Prop :=
  (q.sysValid = true → p.nSys ≠ 0) ∧ (q.userValid = true → p.nUser ≠ 0)

/-- The property statement's condition, without reference to the order of the tests in the code:
on the allow list, **or** an accepted EKU and a chain (all inputs decodable) to a system anchor or
— unless trust-anchor-only — to a user anchor. -/
def StatementTrusted (p : Policy) (q : Query) : Prop :=
  q.certHash ∈ p.allowSet ∨
  (EkuAccepted p q ∧ q.chainParses = true ∧ q.sysAnchorsParse = true ∧
    (q.sysValid = true ∨ (p.anchorsOnly = false ∧ q.userAnchorsParse = true ∧ q.userValid = true)))

theorem trustedBy_iff_statement (p : Policy) (q : Query) (hp : p.passthrough = false)
    (hc : OracleCoherent p q) : (∃ a, TrustedBy p q a) ↔ StatementTrusted p q := by
  unfold TrustedBy StatementTrusted
  constructor
  · rintro ⟨a, h | h | h⟩
    · rw [hp] at h; cases h.1
    · exact Or.inl h.2.1
    · obtain ⟨_, _, _, he, hcp, hsp, h⟩ := h
      refine Or.inr ⟨he, hcp, hsp, ?_⟩
      rcases h with ⟨hs, _⟩ | ⟨_, ho, hup, hu, _⟩
      · exact Or.inl hs
      · exact Or.inr ⟨ho, hup, hu⟩
  · intro h
    by_cases hm : q.certHash ∈ p.allowSet
    · exact ⟨.endEntity, Or.inr (Or.inl ⟨hp, hm, rfl⟩)⟩
    · rcases h with h | ⟨he, hcp, hsp, h⟩
      · exact absurd h hm
      · cases hs : q.sysValid
        · rcases h with h | ⟨ho, hup, hu⟩
          · rw [hs] at h; cases h
          · exact ⟨.user, Or.inr (Or.inr ⟨hp, hm, Or.inr (hc.2 hu), he, hcp, hsp,
              Or.inr ⟨rfl, ho, hup, hu, rfl⟩⟩)⟩
        · exact ⟨.system, Or.inr (Or.inr ⟨hp, hm, Or.inl (hc.1 hs), he, hcp, hsp, Or.inl ⟨rfl, rfl⟩⟩)⟩

/-- **trusted_iff_statement**: for every policy a reader can configure (`passthrough` is the
internal no-check policy) `signingCredential.trusted` is logged exactly under the statement's
condition, and `signingCredential.untrusted` exactly otherwise. -/
theorem trusted_iff_statement (p : Policy) (q : Query) (hp : p.passthrough = false)
    (hc : OracleCoherent p q) :
    (verifyTrust .trustPolicy .openssl p q = .trusted ↔ StatementTrusted p q) ∧
    (verifyTrust .trustPolicy .openssl p q = .untrusted ↔ ¬ StatementTrusted p q) := by
  rw [← trustedBy_iff_statement p q hp hc]
  exact ⟨by simpa using trusted_iff_policy .trustPolicy p q, otherwise_untrusted p q⟩

/-- **allowlisted_regardless**: an allow-listed certificate is trusted as `EndEntity` whatever
else is true of it (EKU, chain, anchors, decodability), on both backends. -/
theorem allowlisted_regardless (p : Policy) (q : Query) (h : p.passthrough = false)
    (hm : q.certHash ∈ p.allowSet) :
    ∀ (b : Backend) (q' : Query), q'.certHash = q.certHash → checkTrust b p q' = .ok .endEntity := by
  intro b q' hq
  have hm' : q'.certHash ∈ p.allowSet := by rw [hq]; exact hm
  unfold checkTrust
  simp [h, hm']

/-- **empty_policy_untrusted**: a policy with no allow-list entry and no anchor trusts nothing. -/
theorem empty_policy_untrusted (p : Policy) (h0 : p.passthrough = false) (h1 : p.allowSet = [])
    (h2 : p.nSys = 0) (h3 : p.nUser = 0) :
    ∀ (b : Backend) (q : Query), verifyTrust .trustPolicy b p q = .untrusted := by
  intro b q
  unfold verifyTrust checkTrust opensslCheck rustNativeCheck
  cases b <;> simp [h0, h1, h2, h3]

/-- **trust_monotone_in_oracle**: a positive answer is preserved when the chain oracle's answers
only move from "does not verify" to "verifies" (everything else unchanged). -/
theorem trust_monotone_in_oracle (b : Backend) (p : Policy) (q : Query) (a : Anchor) (sv uv : Bool)
    (h : checkTrust b p q = .ok a) (hs : q.sysValid = true → sv = true)
    (hu : q.userValid = true → uv = true) :
    ∃ a', checkTrust b p { q with sysValid := sv, userValid := uv } = .ok a' := by
  have hg : ekuGate p { q with sysValid := sv, userValid := uv } = ekuGate p q := rfl
  revert h
  unfold checkTrust opensslCheck rustNativeCheck
  simp only [hg]
  cases b <;> cases p.passthrough <;> cases p.allowSet.contains q.certHash <;>
    cases (p.nSys == 0 && p.nUser == 0) <;> cases ekuGate p q <;> simp
  · cases hsv : q.sysValid <;> cases huv : q.userValid <;> simp [hsv, huv] at hs hu <;>
      cases q.chainParses <;> cases q.sysAnchorsParse <;> cases p.anchorsOnly <;>
      cases q.userAnchorsParse <;> cases sv <;> cases uv <;> simp_all
  · cases hsv : q.sysValid <;> cases huv : q.userValid <;> simp [hsv, huv] at hs hu <;>
      cases p.anchorsOnly <;> cases sv <;> cases uv <;> simp_all

/-! ### Settings loading (`Store::from_context`) -/

/-- No reader setting selects the no-check policy or trust-anchor-only mode. -/
theorem fromContext_flags (d : List String) (s : TrustSettings) :
    (fromContext d s).passthrough = false ∧ (fromContext d s).anchorsOnly = false := ⟨rfl, rfl⟩

/-- **The default configuration trusts nothing**: with no `trust` setting every credential is
reported untrusted. -/
theorem fromContext_default_untrusted (d : List String) (b : Backend) (q : Query) :
    verifyTrust .trustPolicy b (fromContext d {}) q = .untrusted :=
  empty_policy_untrusted _ rfl rfl rfl rfl b q

/-- The built-in EKU list is always accepted; `trust_config` only adds to it. -/
theorem fromContext_ekus (d : List String) (s : TrustSettings) :
    (∀ o ∈ d, o ∈ (fromContext d s).allowedEkus) ∧
    (∀ ls, s.trustConfig = some ls → ∀ l ∈ ls, l.b64ok = true → l.text ∈ (fromContext d s).allowedEkus) := by
  refine ⟨fun o ho => List.mem_append_left _ ho, ?_⟩
  intro ls hls l hl hok
  unfold fromContext
  simp only [hls]
  apply List.mem_append_right
  unfold loadEkus
  exact List.mem_map.2 ⟨l, List.mem_filter.2 ⟨hl, hok⟩, rfl⟩

/-- A reader-configured policy trusts a credential only through what the settings supplied: an
`allowed_list` entry, or — with an accepted EKU — a chain to a `trust_anchors` or `user_anchors`
certificate. -/
theorem fromContext_trusted_only_if (d : List String) (s : TrustSettings) (q : Query)
    (h : verifyTrust .trustPolicy .openssl (fromContext d s) q = .trusted) :
    (∃ ls ps, s.allowedList = some (ls, ps) ∧ q.certHash ∈ (loadAllowListR ls ps).2) ∨
    (EkuAccepted (fromContext d s) q ∧
      ((∃ bs, s.trustAnchors = some bs ∧ (loadAnchors bs).2 ≠ 0 ∧ q.sysValid = true) ∨
       (∃ bs, s.userAnchors = some bs ∧ (loadAnchors bs).2 ≠ 0 ∧ q.userValid = true) ∨
       -- the oracle answered "verifies" for a store the settings left empty (excluded by `OracleCoherent`)
       (q.sysValid = true ∧ (fromContext d s).nSys = 0) ∨ (q.userValid = true ∧ (fromContext d s).nUser = 0))) := by
  obtain ⟨_, a, ha⟩ := (trusted_iff_policy .trustPolicy _ q).1 h
  rcases ha with ha | ha | ha
  · cases ha.1
  · left
    have hm := ha.2.1
    unfold fromContext at hm
    cases hal : s.allowedList with
    | none => simp [hal] at hm
    | some lp => obtain ⟨ls, ps⟩ := lp; exact ⟨ls, ps, rfl, by simpa [hal] using hm⟩
  · right
    obtain ⟨_, _, _, he, _, _, hv⟩ := ha
    refine ⟨he, ?_⟩
    rcases hv with ⟨hs, _⟩ | ⟨_, _, _, hu, _⟩
    · cases hta : s.trustAnchors with
      | none => exact Or.inr (Or.inr (Or.inl ⟨hs, by simp [fromContext, hta]⟩))
      | some bs =>
        by_cases hz : (loadAnchors bs).2 = 0
        · exact Or.inr (Or.inr (Or.inl ⟨hs, by simp [fromContext, hta, hz]⟩))
        · exact Or.inl ⟨bs, rfl, hz, hs⟩
    · cases hua : s.userAnchors with
      | none => exact Or.inr (Or.inr (Or.inr ⟨hu, by simp [fromContext, hua]⟩))
      | some bs =>
        by_cases hz : (loadAnchors bs).2 = 0
        · exact Or.inr (Or.inr (Or.inr ⟨hu, by simp [fromContext, hua, hz]⟩))
        · exact Or.inr (Or.inl ⟨bs, rfl, hz, hu⟩)

/-! ### `cert_chain_from_sign1` / `Verifier::verify_signature`: when is there a verdict at all -/

/-- A chain is found exactly when exactly one header supplies one (the protected header's wins the
lookup; a usable chain in both is an error). -/
theorem chain_ok_iff (prot unprot : HeaderChain) :
    certChainFromSign1 prot unprot = .ok () ↔
      (prot = .chain ∧ unprot ≠ .chain) ∨ (prot = .absent ∧ unprot = .chain) := by
  cases prot <;> cases unprot <;> simp [certChainFromSign1]

/-- What `Claim::verify_internal` adds to the log for the outcome of `verify_signature`. -/
def afterVerifyInternal (o : VerifyOut) : C04.Codes :=
  match o.result with
  | .ok _ => { success := o.success ++ [C04.cInsideValidity, C04.cSigValidated], informational := [],
               failure := o.failure }
  | .error _ => { success := o.success, informational := [], failure := o.failure ++ [C06.cMismatch] }

/-- The outcome of `verify_signature` as the single `sigOk` bit of the code assembly. -/
def VerifyOut.isOk (o : VerifyOut) : Bool :=
  match o.result with
  | .ok _ => true
  | .error _ => false

/-- **Refinement**: when the chain can be extracted, the function-level model of
`verify_signature` followed by `verify_internal` is the end-to-end code assembly
(`C06.signatureCodes`) with `sigOk` = "`verify_signature` returned `Ok`" — i.e. an undecodable
certificate, a wrong signature and a subject without organisation are exactly the `sigOk = false`
cases. -/
theorem verifySignature_refines (mode : Mode) (b : Backend) (tst : Option Int) (now : Int)
    (f : C06.CertFacts) (p : Policy) (q : Query) (prot unprot : HeaderChain) (sigOk hasOrg : Bool)
    (hc : certChainFromSign1 prot unprot = .ok ()) :
    afterVerifyInternal (verifySignature mode b tst now f p q prot unprot sigOk hasOrg) =
      credentialCodes mode b tst now f p q (f.parses && sigOk && hasOrg) := by
  unfold verifySignature afterVerifyInternal credentialCodes C06.signatureCodes
  rw [hc]
  cases f.parses <;> cases sigOk <;> cases hasOrg <;> simp

/-- **verdict_iff_chain**: with trust verification on, `verify_signature` logs exactly one of
`signingCredential.trusted` / `signingCredential.untrusted` when the signature carries a usable
certificate chain — and *neither* when it does not; then it returns an error, so the claim
signature is reported as mismatching and the manifest is Invalid (never Trusted). -/
theorem verdict_iff_chain (b : Backend) (tst : Option Int) (now : Int) (f : C06.CertFacts)
    (p : Policy) (q : Query) (prot unprot : HeaderChain) (sigOk hasOrg : Bool) :
    let o := verifySignature .trustPolicy b tst now f p q prot unprot sigOk hasOrg
    (certChainFromSign1 prot unprot = .ok () →
      (C04.cTrusted ∈ o.success ↔ verifyTrust .trustPolicy b p (queryOf f q) = .trusted) ∧
      (C04.cUntrusted ∈ o.failure ↔ verifyTrust .trustPolicy b p (queryOf f q) = .untrusted)) ∧
    (certChainFromSign1 prot unprot ≠ .ok () →
      o.success = [] ∧ o.failure = [] ∧ o.isOk = false ∧
      C04.state (C06.resultsOf (afterVerifyInternal o)) = .invalid) := by
  intro o
  constructor
  · intro hc
    have ho : o = verifySignature .trustPolicy b tst now f p q prot unprot sigOk hasOrg := rfl
    unfold verifySignature at ho
    rw [hc] at ho
    simp only at ho
    rcases verdict_total b p (queryOf f q) with hv | hv
    · rw [ho, hv]
      constructor
      · simp [C06.trustCodes, Verdict.toTrust]
      · simp only [C06.trustCodes, Verdict.toTrust, if_true, List.append_nil]
        constructor
        · intro hmem
          exfalso
          unfold C06.profileFailure at hmem
          cases hce : C06.checkEndEntity (envOf p tst now) f with
          | ok => rw [hce] at hmem; simp at hmem
          | err k c r =>
            rw [hce] at hmem
            cases c <;> simp at hmem <;> exact absurd hmem (by decide)
        · intro h; cases h
    · rw [ho, hv]
      constructor
      · simp [C06.trustCodes, Verdict.toTrust]
      · simp [C06.trustCodes, Verdict.toTrust]
  · intro hc
    have ho : o = verifySignature .trustPolicy b tst now f p q prot unprot sigOk hasOrg := rfl
    unfold verifySignature at ho
    cases hcc : certChainFromSign1 prot unprot with
    | ok u => cases u; exact absurd hcc hc
    | error e =>
      rw [hcc] at ho
      cases e <;> simp only at ho <;> rw [ho] <;>
        exact ⟨rfl, rfl, rfl, by decide⟩

/-! ### The allow-list loader -/

/-- Everything the line scan collects is the text of a stand-alone 44-character base64 line. -/
theorem scanLines_sound : ∀ (ls : List Line) (inside : Bool) (x : String),
    x ∈ scanLines ls inside → ∃ l ∈ ls, l.text = x ∧ l.text.length = 44 ∧ l.b64ok = true := by
  intro ls
  induction ls with
  | nil => intro inside x h; simp [scanLines] at h
  | cons l ls ih =>
    intro inside x h
    unfold scanLines at h
    split at h
    · rename_i hc
      rcases List.mem_cons.1 h with rfl | h
      · simp only [Bool.and_eq_true, beq_iff_eq] at hc
        exact ⟨l, List.mem_cons_self .., rfl, hc.1.2, hc.2⟩
      · obtain ⟨l', hl', h'⟩ := ih _ x h
        exact ⟨l', List.mem_cons_of_mem _ hl', h'⟩
    · obtain ⟨l', hl', h'⟩ := ih _ x h
      exact ⟨l', List.mem_cons_of_mem _ hl', h'⟩

/-- **The allow list holds exactly what was configured**: every PEM certificate's hash is in
it, and every entry is a PEM certificate's hash or a 44-character base64 line of the text. -/
theorem loadAllowList_spec (lines : List Line) (pems : List String) :
    (∀ h ∈ pems, h ∈ loadAllowList lines pems) ∧
    (∀ x ∈ loadAllowList lines pems,
      x ∈ pems ∨ ∃ l ∈ lines, l.text = x ∧ l.text.length = 44 ∧ l.b64ok = true) := by
  unfold loadAllowList
  refine ⟨fun h hh => List.mem_append_right _ hh, ?_⟩
  intro x hx
  rcases List.mem_append.1 hx with h | h
  · exact Or.inr (scanLines_sound lines false x h)
  · exact Or.inl h

theorem scanLines_no_begin (pre : List Line) (hpre : ∀ x ∈ pre, x.isBegin = false) (rest : List Line) :
    ∀ y, y ∈ scanLines rest false → y ∈ scanLines (pre ++ rest) false := by
  induction pre with
  | nil => intro y hy; exact hy
  | cons a pre ih =>
    intro y hy
    have ha : a.isBegin = false := hpre a (List.mem_cons_self ..)
    have hn : nextInside a false = false := by unfold nextInside; cases a.isEnd <;> simp [ha]
    have ih' := ih (fun x hx => hpre x (List.mem_cons_of_mem _ hx)) y hy
    simp only [List.cons_append]
    unfold scanLines
    rw [hn]
    split
    · exact List.mem_cons_of_mem _ ih'
    · exact ih'

/-- A hash line that stands outside every PEM block (no BEGIN line before it) is loaded. -/
theorem hash_line_loaded (pre post : List Line) (l : Line) (pems : List String)
    (hpre : ∀ x ∈ pre, x.isBegin = false) (hb : l.isBegin = false)
    (hlen : l.text.length = 44) (hok : l.b64ok = true) :
    l.text ∈ loadAllowList (pre ++ l :: post) pems := by
  unfold loadAllowList
  apply List.mem_append_left
  apply scanLines_no_begin pre hpre
  have hn : nextInside l false = false := by unfold nextInside; cases l.isEnd <;> simp [hb]
  unfold scanLines
  rw [hn]
  simp [hlen, hok]

/-! ### The failure path of the loaders -/

theorem mem_of_mem_takeWhile {α} (p : α → Bool) (x : α) : ∀ (l : List α), x ∈ l.takeWhile p → x ∈ l := by
  intro l
  induction l with
  | nil => intro h; simp at h
  | cons a l ih =>
    intro h
    rw [List.takeWhile_cons] at h
    split at h
    · rcases List.mem_cons.1 h with rfl | h
      · exact List.mem_cons_self ..
      · exact List.mem_cons_of_mem _ (ih h)
    · simp at h

theorem takeWhile_map_some : ∀ (l : List String),
    ((l.map some).takeWhile Option.isSome).filterMap id = l := by
  intro l
  induction l with
  | nil => rfl
  | cons a l ih => simp [List.takeWhile_cons, ih]

theorem loadPems_spec : ∀ (ps : List (Option String)),
    ((loadPems ps).1 = true ↔ ∀ x ∈ ps, x ≠ none) ∧
    (loadPems ps).2 = (ps.takeWhile Option.isSome).filterMap id := by
  intro ps
  induction ps with
  | nil => simp [loadPems]
  | cons x xs ih =>
    cases x with
    | none => simp [loadPems]
    | some h => simp [loadPems, ih.1, ih.2]

/-- With every block decodable the loader is the total `loadAllowList` and returns `Ok`. -/
theorem loadAllowListR_ok (lines : List Line) (pems : List String) :
    loadAllowListR lines (pems.map some) = (true, loadAllowList lines pems) := by
  have h := loadPems_spec (pems.map some)
  have h1 : (loadPems (pems.map some)).1 = true := h.1.2 (by simp)
  have h2 : (loadPems (pems.map some)).2 = pems := by
    rw [h.2]; exact takeWhile_map_some pems
  unfold loadAllowListR loadAllowList
  rw [h1, h2]

/-- **A bad PEM block**: the call returns `Err` exactly when some block is rejected; the hash
lines and the blocks *before* the first bad one are in the set all the same, nothing after it
is, and nothing else ever is. -/
theorem loadAllowListR_spec (lines : List Line) (ps : List (Option String)) :
    ((loadAllowListR lines ps).1 = true ↔ ∀ x ∈ ps, x ≠ none) ∧
    (∀ x ∈ scanLines lines false, x ∈ (loadAllowListR lines ps).2) ∧
    (∀ (pre : List String) (rest : List (Option String)), ps = pre.map some ++ rest →
      ∀ h ∈ pre, h ∈ (loadAllowListR lines ps).2) ∧
    (∀ (pre : List String) (rest : List (Option String)), ps = pre.map some ++ none :: rest →
      (loadAllowListR lines ps).2 = scanLines lines false ++ pre) ∧
    (∀ x ∈ (loadAllowListR lines ps).2,
      some x ∈ ps ∨ ∃ l ∈ lines, l.text = x ∧ l.text.length = 44 ∧ l.b64ok = true) := by
  have hp := loadPems_spec ps
  have hpre : ∀ (pre : List String) (rest : List (Option String)),
      ((pre.map some ++ rest).takeWhile Option.isSome).filterMap id =
        pre ++ (rest.takeWhile Option.isSome).filterMap id := by
    intro pre rest
    induction pre with
    | nil => rfl
    | cons a l ih => simp [List.takeWhile_cons, ih]
  refine ⟨hp.1, fun x hx => List.mem_append_left _ hx, ?_, ?_, ?_⟩
  · intro pre rest he h hh
    unfold loadAllowListR
    rw [hp.2, he, hpre]
    exact List.mem_append_right _ (List.mem_append_left _ hh)
  · intro pre rest he
    unfold loadAllowListR
    rw [hp.2, he, hpre]
    simp
  · intro x hx
    unfold loadAllowListR at hx
    rcases List.mem_append.1 hx with h | h
    · exact Or.inr (scanLines_sound lines false x h)
    · left
      rw [hp.2] at h
      obtain ⟨y, hy, hyx⟩ := List.mem_filterMap.1 h
      have := mem_of_mem_takeWhile _ _ _ hy
      cases y with
      | none => cases hyx
      | some z => simp at hyx; rw [← hyx]; exact this

theorem loadAnchors_spec : ∀ (bs : List Bool),
    ((loadAnchors bs).1 = true ↔ ∀ x ∈ bs, x = true) ∧
    (loadAnchors bs).2 = (bs.takeWhile id).length := by
  intro bs
  induction bs with
  | nil => simp [loadAnchors]
  | cons x xs ih => cases x <;> simp [loadAnchors, ih.1, ih.2]

/-! ### Non-vacuity -/

def exPolicy : Policy := { nSys := 1, nUser := 1, allowedEkus := ["1.3.6.1.5.5.7.3.36"] }
def exQuery : Query := { certHash := "h", eku := some { other := ["1.3.6.1.5.5.7.3.36"] }, userValid := true }

example : checkTrust .openssl exPolicy exQuery = .ok .user := rfl
example : TrustedBy exPolicy exQuery .user := (checkTrust_ok_iff _ _ _).1 rfl
example : checkTrust .openssl { exPolicy with anchorsOnly := true } exQuery = .error .certificateNotTrusted := rfl
example : checkTrust .openssl exPolicy { exQuery with sysValid := true } = .ok .system := rfl
example : checkTrust .openssl { exPolicy with allowSet := ["h"] } { exQuery with userValid := false } = .ok .endEntity := rfl
example : checkTrust .openssl exPolicy { exQuery with eku := some { serverAuth := true } } = .error .invalidEku := rfl
example : verifyTrust .profileOnly .openssl exPolicy exQuery = .none := by decide
example : credentialState .trustPolicy .openssl none 50 C06.exConforming exPolicy exQuery true = .trusted := by decide
example : credentialState .trustPolicy .openssl none 50 C06.exConforming { exPolicy with anchorsOnly := true } exQuery true = .valid := by decide
example : OracleCoherent exPolicy exQuery := ⟨by decide, by decide⟩
example : StatementTrusted exPolicy exQuery := ((trusted_iff_statement _ _ rfl ⟨by decide, by decide⟩).1).1 rfl
example : loadAllowListR [{ text := "BBBBBBBBBBBBBBBBBBBBBBBBBBBBBBBBBBBBBBBBBBB=", b64ok := true }] [some "p", none, some "r"]
    = (false, ["BBBBBBBBBBBBBBBBBBBBBBBBBBBBBBBBBBBBBBBBBBB=", "p"]) := by decide
example : loadAnchors [true, true, false, true] = (false, 2) := by decide
example : certChainFromSign1 .absent .absent = .error .missing := rfl
example : certChainFromSign1 .chain .chain = .error .multiple := rfl
example : certChainFromSign1 .bad .chain = .error .multiple := rfl
example : certChainFromSign1 .absent .chain = .ok () := rfl
example : (verifySignature .trustPolicy .openssl none 50 C06.exConforming exPolicy exQuery .bad .absent true true).failure = [] := rfl
example : (verifySignature .trustPolicy .openssl none 50 C06.exConforming exPolicy exQuery .chain .absent true true).success
    = [C04.cTrusted] := by decide
example : (fromContext ["1.3.6.1.5.5.7.3.36"] { userAnchors := some [true] }).nUser = 1 := rfl
example : loadAllowList [{ text := "-----BEGIN CERTIFICATE-----", isBegin := true },
    { text := "AAAAAAAAAAAAAAAAAAAAAAAAAAAAAAAAAAAAAAAAAAA=", b64ok := true },
    { text := "-----END CERTIFICATE-----", isEnd := true },
    { text := "BBBBBBBBBBBBBBBBBBBBBBBBBBBBBBBBBBBBBBBBBBB=", b64ok := true }] ["p"]
    = ["BBBBBBBBBBBBBBBBBBBBBBBBBBBBBBBBBBBBBBBBBBB=", "p"] := by decide

end C2pa.C05
