import C2paModel.Model.C05
import C2paModel.Props.C06
/-
C05 — property theorems. The statement (properties.jsonl):

  A signing credential is reported trusted only if its certificate is on the configured
  end-entity allow list, or chains through the certificates supplied in the manifest to a
  configured trust anchor (system or user) with an accepted extended key usage, and it is
  otherwise reported untrusted. Trust-anchor-only mode never accepts user anchors, and with trust
  verification disabled no trust verdict is issued.

Chain building (`sysValid`, `userValid`) is an oracle input; every theorem holds for all its
values, all policies and all queries.
-/
namespace C2pa.C05

open C2pa.C06 (Eku hasAllowedEku Mode Trust)

/-- The end-entity certificate carries an EKU the policy accepts. -/
def EkuAccepted (p : Policy) (q : Query) : Prop :=
  q.eeParses = true ∧ ∃ e, q.eku = some e ∧ hasAllowedEku p.allowedEkus e = true

/-- The statement's condition for "trusted", for the OpenSSL backend. `passthrough` is the
internal no-check policy (never built from reader settings). -/
def TrustedBy (p : Policy) (q : Query) (a : Anchor) : Prop :=
  (p.passthrough = true ∧ a = .noCheck) ∨
  (p.passthrough = false ∧ q.certHash ∈ p.allowSet ∧ a = .endEntity) ∨
  (p.passthrough = false ∧ q.certHash ∉ p.allowSet ∧ (p.nSys ≠ 0 ∨ p.nUser ≠ 0) ∧ EkuAccepted p q ∧
    q.chainParses = true ∧ q.sysAnchorsParse = true ∧
    ((q.sysValid = true ∧ a = .system) ∨
     (q.sysValid = false ∧ p.anchorsOnly = false ∧ q.userAnchorsParse = true ∧ q.userValid = true ∧ a = .user)))

theorem ekuGate_none_iff (p : Policy) (q : Query) : ekuGate p q = none ↔ EkuAccepted p q := by
  unfold ekuGate EkuAccepted
  cases hp : q.eeParses
  · simp
  · cases he : q.eku with
    | none => simp
    | some e => cases hh : hasAllowedEku p.allowedEkus e <;> simp [hh]

theorem opensslCheck_ok_iff (p : Policy) (q : Query) (a : Anchor) :
    opensslCheck p q = .ok a ↔
      (p.nSys ≠ 0 ∨ p.nUser ≠ 0) ∧ EkuAccepted p q ∧ q.chainParses = true ∧ q.sysAnchorsParse = true ∧
      ((q.sysValid = true ∧ a = .system) ∨
       (q.sysValid = false ∧ p.anchorsOnly = false ∧ q.userAnchorsParse = true ∧ q.userValid = true ∧ a = .user)) := by
  rw [← ekuGate_none_iff]
  unfold opensslCheck
  by_cases h0 : (p.nSys == 0 && p.nUser == 0) = true
  · have : ¬ (p.nSys ≠ 0 ∨ p.nUser ≠ 0) := by
      simp only [Bool.and_eq_true, beq_iff_eq] at h0
      omega
    simp [h0, this]
  · have hne : p.nSys ≠ 0 ∨ p.nUser ≠ 0 := by
      simp only [Bool.and_eq_true, beq_iff_eq, not_and] at h0
      omega
    simp only [h0, Bool.false_eq_true, if_false, hne, true_and]
    cases hg : ekuGate p q with
    | some e => simp
    | none =>
      cases q.chainParses <;> cases q.sysAnchorsParse <;> cases q.sysValid <;> cases p.anchorsOnly <;>
        cases q.userAnchorsParse <;> cases q.userValid <;> cases a <;> simp

/-- **`check_certificate_trust` succeeds exactly under the statement's condition**, and reports
which kind of anchor did it. -/
theorem checkTrust_ok_iff (p : Policy) (q : Query) (a : Anchor) :
    checkTrust .openssl p q = .ok a ↔ TrustedBy p q a := by
  unfold checkTrust TrustedBy
  cases hp : p.passthrough
  · by_cases hm : p.allowSet.contains q.certHash = true
    · have hmem : q.certHash ∈ p.allowSet := by simpa using hm
      simp only [hm, if_true, Bool.false_eq_true, if_false, false_and, false_or, true_and, hmem,
        not_true_eq_false, or_false, Except.ok.injEq]
      exact eq_comm
    · have hmem : q.certHash ∉ p.allowSet := by simpa using hm
      simp only [hm, Bool.false_eq_true, if_false, opensslCheck_ok_iff, false_and, false_or, true_and,
        hmem, not_false_eq_true]
  · simp only [if_true, Except.ok.injEq, true_and, Bool.true_eq_false, false_and, or_false]
    exact eq_comm

/-- **trusted_iff_policy**: `signingCredential.trusted` is logged exactly when trust is being
verified and the statement's condition holds for some anchor kind. -/
theorem trusted_iff_policy (mode : Mode) (p : Policy) (q : Query) :
    verifyTrust mode .openssl p q = .trusted ↔ mode = .trustPolicy ∧ ∃ a, TrustedBy p q a := by
  unfold verifyTrust
  cases mode with
  | trustPolicy =>
    cases h : checkTrust .openssl p q with
    | ok a => simp; exact ⟨a, (checkTrust_ok_iff p q a).1 h⟩
    | error e =>
      simp
      intro a ha
      rw [(checkTrust_ok_iff p q a).2 ha] at h; cases h
  | profileOnly => simp
  | ignore => simp

/-- The same characterisation for the rust_native backend (modelled control flow; there the
chain oracle also absorbs decoding failures of chain certificates and anchors). -/
theorem checkTrust_native_ok_iff (p : Policy) (q : Query) (a : Anchor) :
    checkTrust .rustNative p q = .ok a ↔
      (p.passthrough = true ∧ a = .noCheck) ∨
      (p.passthrough = false ∧ q.certHash ∈ p.allowSet ∧ a = .endEntity) ∨
      (p.passthrough = false ∧ q.certHash ∉ p.allowSet ∧ (p.nSys ≠ 0 ∨ p.nUser ≠ 0) ∧ EkuAccepted p q ∧
        ((q.sysValid = true ∧ a = .system) ∨
         (q.sysValid = false ∧ p.anchorsOnly = false ∧ q.userValid = true ∧ a = .user))) := by
  unfold checkTrust
  cases hp : p.passthrough
  · by_cases hm : p.allowSet.contains q.certHash = true
    · have hmem : q.certHash ∈ p.allowSet := by simpa using hm
      simp only [hm, if_true, Bool.false_eq_true, if_false, false_and, false_or, true_and, hmem,
        not_true_eq_false, or_false, Except.ok.injEq]
      exact eq_comm
    · have hmem : q.certHash ∉ p.allowSet := by simpa using hm
      simp only [hm, Bool.false_eq_true, if_false, false_and, false_or, true_and, hmem, not_false_eq_true]
      rw [← ekuGate_none_iff]
      unfold rustNativeCheck
      by_cases h0 : (p.nSys == 0 && p.nUser == 0) = true
      · have : ¬ (p.nSys ≠ 0 ∨ p.nUser ≠ 0) := by
          simp only [Bool.and_eq_true, beq_iff_eq] at h0
          omega
        simp [h0, this]
      · have hne : p.nSys ≠ 0 ∨ p.nUser ≠ 0 := by
          simp only [Bool.and_eq_true, beq_iff_eq, not_and] at h0
          omega
        simp only [h0, Bool.false_eq_true, if_false, hne, true_and]
        cases hg : ekuGate p q with
        | some e => simp
        | none => cases q.sysValid <;> cases p.anchorsOnly <;> cases q.userValid <;> cases a <;> simp
  · simp only [if_true, Except.ok.injEq, true_and, Bool.true_eq_false, false_and, or_false]
    exact eq_comm

/-- When trust is verified a verdict is always logged, one of the two. -/
theorem verdict_total (b : Backend) (p : Policy) (q : Query) :
    verifyTrust .trustPolicy b p q = .trusted ∨ verifyTrust .trustPolicy b p q = .untrusted := by
  unfold verifyTrust
  cases checkTrust b p q <;> simp

/-- **…and it is otherwise reported untrusted**: when trust is verified exactly one of the two
verdicts is logged. -/
theorem otherwise_untrusted (p : Policy) (q : Query) :
    verifyTrust .trustPolicy .openssl p q = .untrusted ↔ ¬ ∃ a, TrustedBy p q a := by
  have h := trusted_iff_policy .trustPolicy p q
  rcases verdict_total .openssl p q with ht | hu
  · rw [ht]
    constructor
    · intro hc; cases hc
    · intro hn; exact absurd (h.1 ht).2 hn
  · rw [hu]
    constructor
    · intro _ hex
      have := h.2 ⟨rfl, hex⟩
      rw [hu] at this; cases this
    · intro _; rfl

/-- **anchors_only_never_user**: in trust-anchor-only mode the answer is never `User`, and it
does not depend on anything about the user anchors (whether they parse, whether the chain
verifies against them) — for both backends. -/
theorem anchors_only_never_user (b : Backend) (p : Policy) (q : Query) (h : p.anchorsOnly = true) :
    checkTrust b p q ≠ .ok .user ∧
    ∀ uv up, checkTrust b p { q with userValid := uv, userAnchorsParse := up } = checkTrust b p q := by
  constructor
  · unfold checkTrust opensslCheck rustNativeCheck
    cases b <;> cases p.passthrough <;> cases p.allowSet.contains q.certHash <;>
      cases (p.nSys == 0 && p.nUser == 0) <;> cases ekuGate p q <;>
      cases q.chainParses <;> cases q.sysAnchorsParse <;> cases q.sysValid <;> simp [h]
  · intro uv up
    unfold checkTrust opensslCheck rustNativeCheck ekuGate
    simp [h]

/-- A system verdict does not depend on the user anchors either (system anchors are tried first). -/
theorem system_first (b : Backend) (p : Policy) (q : Query) (h : checkTrust b p q = .ok .system) :
    ∀ uv up, checkTrust b p { q with userValid := uv, userAnchorsParse := up } = .ok .system := by
  intro uv up
  revert h
  unfold checkTrust opensslCheck rustNativeCheck ekuGate
  cases b <;> cases p.passthrough <;> cases p.allowSet.contains q.certHash <;>
    cases (p.nSys == 0 && p.nUser == 0) <;> cases q.eeParses <;> cases q.eku <;>
    cases q.chainParses <;> cases q.sysAnchorsParse <;> cases q.sysValid <;> cases p.anchorsOnly <;>
    cases q.userAnchorsParse <;> cases q.userValid <;> simp
  all_goals (split <;> simp)

/-- **disabled_no_verdict**: with trust verification disabled (`verify_trust = false` selects
`VerifyCertificateProfileOnly`; `cert_check = false` selects `IgnoreProfileAndTrustPolicy`) no
verdict is logged: neither `signingCredential.trusted` nor `signingCredential.untrusted` is among
the signature codes, whatever the policy, the credential and the oracle say. -/
theorem disabled_no_verdict (mode : Mode) (hm : mode ≠ .trustPolicy) (b : Backend)
    (env : C06.Env) (f : C06.CertFacts) (p : Policy) (q : Query) (sigOk : Bool) :
    verifyTrust mode b p q = .none ∧
    C04.cTrusted ∉ (credentialCodes mode b env f p q sigOk).success ∧
    C04.cUntrusted ∉ (credentialCodes mode b env f p q sigOk).failure := by
  refine ⟨?_, ?_, ?_⟩
  · cases mode <;> simp [verifyTrust] at hm ⊢
  · unfold credentialCodes C06.signatureCodes C06.trustCodes
    cases mode <;> cases sigOk <;> simp at hm ⊢ <;> decide
  · unfold credentialCodes C06.signatureCodes C06.trustCodes C06.profileFailure
    cases mode <;> cases sigOk <;> simp at hm ⊢
    all_goals
      cases C06.checkEndEntity env f with
      | ok => simp <;> decide
      | err k c r => cases c <;> simp <;> decide

/-- A chain verdict (system or user anchor) needs an accepted EKU — both backends. -/
theorem eku_required_for_chain_trust (b : Backend) (p : Policy) (q : Query)
    (h : checkTrust b p q = .ok .system ∨ checkTrust b p q = .ok .user) : EkuAccepted p q := by
  rw [← ekuGate_none_iff]
  revert h
  unfold checkTrust opensslCheck rustNativeCheck
  cases b <;> cases p.passthrough <;> cases p.allowSet.contains q.certHash <;>
    cases (p.nSys == 0 && p.nUser == 0) <;> cases ekuGate p q <;> simp

/-! ### The reported state -/

theorem state_of_codes (mode : Mode) (prof : C06.Res) (trust : Trust) (sigOk : Bool) :
    C04.state (C06.resultsOf (C06.signatureCodes mode prof trust sigOk)) =
      if !sigOk then .invalid
      else if mode ≠ .ignore ∧ prof.rejected then .invalid
      else if mode = .trustPolicy ∧ trust = .trusted then .trusted
      else .valid := by
  cases prof with
  | ok => cases mode <;> cases trust <;> cases sigOk <;> decide
  | err k c r =>
    have hk : C06.signatureCodes mode (.err k c r) trust sigOk =
        C06.signatureCodes mode (.err .invalidCertificate c .parse) trust sigOk := rfl
    have hr : (C06.Res.err k c r).rejected = (C06.Res.err .invalidCertificate c .parse).rejected := rfl
    rw [hk, hr]
    cases c <;> cases mode <;> cases trust <;> cases sigOk <;> decide

/-- **The state is Trusted exactly when** trust is verified, the policy trusts the credential, the
certificate conforms to the profile (C06) and the signature verifies. -/
theorem credential_trusted_iff (mode : Mode) (env : C06.Env) (f : C06.CertFacts) (p : Policy)
    (q : Query) (sigOk : Bool) :
    credentialState mode .openssl env f p q sigOk = .trusted ↔
      mode = .trustPolicy ∧ (∃ a, TrustedBy p q a) ∧ C06.Conforming env f ∧ sigOk = true := by
  unfold credentialState credentialCodes
  rw [state_of_codes, ← C06.accepted_iff_conforming]
  have ht := trusted_iff_policy mode p q
  cases sigOk
  · simp
  · cases hpr : C06.checkEndEntity env f with
    | ok =>
      cases mode
      · rcases verdict_total .openssl p q with hv | hv
        · have := (ht.1 hv).2
          simp [hv, Verdict.toTrust, C06.Res.rejected, this]
        · have hne : ¬ ∃ a, TrustedBy p q a := fun hex => by
            have := ht.2 ⟨rfl, hex⟩; rw [hv] at this; cases this
          simp [hv, Verdict.toTrust, C06.Res.rejected, hne]
      · simp [C06.Res.rejected]
      · simp [C06.Res.rejected]
    | err k c r =>
      cases mode
      · simp [C06.Res.rejected]
      · simp [C06.Res.rejected]
      · simp [C06.Res.rejected]

/-- **eku_required**: a Trusted state implies an EKU accepted by the configuration on the
signing certificate (through the profile check, whichever way trust was established). -/
theorem eku_required (mode : Mode) (env : C06.Env) (f : C06.CertFacts) (p : Policy) (q : Query)
    (sigOk : Bool) (h : credentialState mode .openssl env f p q sigOk = .trusted) :
    ∃ e, f.eku = .some e ∧ e.any = false ∧ hasAllowedEku env.allowedEkus e = true := by
  obtain ⟨_, _, c, _⟩ := (credential_trusted_iff mode env f p q sigOk).1 h
  obtain ⟨e, he, ha, hal, _⟩ := c.eku
  exact ⟨e, he, ha, hal⟩

/-- A conforming, correctly signed credential that the policy does not trust is Valid with
`signingCredential.untrusted`. -/
theorem conforming_untrusted_valid (env : C06.Env) (f : C06.CertFacts) (p : Policy) (q : Query)
    (hc : C06.Conforming env f) (hn : ¬ ∃ a, TrustedBy p q a) :
    credentialState .trustPolicy .openssl env f p q true = .valid ∧
    C04.cUntrusted ∈ (credentialCodes .trustPolicy .openssl env f p q true).failure := by
  have hu := (otherwise_untrusted p q).2 hn
  unfold credentialState credentialCodes
  rw [C06.conforming_accepted env f hc, hu]
  exact ⟨by decide, by decide⟩

/-! ### The allow-list loader -/

/-- Everything the line scan collects is the text of a stand-alone 44-character base64 line. -/
theorem scanLines_sound : ∀ (ls : List Line) (inside : Bool) (x : String),
    x ∈ scanLines ls inside → ∃ l ∈ ls, l.text = x ∧ l.text.length = 44 ∧ l.b64ok = true := by
  intro ls
  induction ls with
  | nil => intro inside x h; simp [scanLines] at h
  | cons l ls ih =>
    intro inside x h
    unfold scanLines at h
    split at h
    · rename_i hc
      rcases List.mem_cons.1 h with rfl | h
      · simp only [Bool.and_eq_true, beq_iff_eq] at hc
        exact ⟨l, List.mem_cons_self .., rfl, hc.1.2, hc.2⟩
      · obtain ⟨l', hl', h'⟩ := ih _ x h
        exact ⟨l', List.mem_cons_of_mem _ hl', h'⟩
    · obtain ⟨l', hl', h'⟩ := ih _ x h
      exact ⟨l', List.mem_cons_of_mem _ hl', h'⟩

/-- **The allow list holds exactly what was configured**: every PEM certificate's hash is in
it, and every entry is a PEM certificate's hash or a 44-character base64 line of the text. -/
theorem loadAllowList_spec (lines : List Line) (pems : List String) :
    (∀ h ∈ pems, h ∈ loadAllowList lines pems) ∧
    (∀ x ∈ loadAllowList lines pems,
      x ∈ pems ∨ ∃ l ∈ lines, l.text = x ∧ l.text.length = 44 ∧ l.b64ok = true) := by
  unfold loadAllowList
  refine ⟨fun h hh => List.mem_append_right _ hh, ?_⟩
  intro x hx
  rcases List.mem_append.1 hx with h | h
  · exact Or.inr (scanLines_sound lines false x h)
  · exact Or.inl h

theorem scanLines_no_begin (pre : List Line) (hpre : ∀ x ∈ pre, x.isBegin = false) (rest : List Line) :
    ∀ y, y ∈ scanLines rest false → y ∈ scanLines (pre ++ rest) false := by
  induction pre with
  | nil => intro y hy; exact hy
  | cons a pre ih =>
    intro y hy
    have ha : a.isBegin = false := hpre a (List.mem_cons_self ..)
    have hn : nextInside a false = false := by unfold nextInside; cases a.isEnd <;> simp [ha]
    have ih' := ih (fun x hx => hpre x (List.mem_cons_of_mem _ hx)) y hy
    simp only [List.cons_append]
    unfold scanLines
    rw [hn]
    split
    · exact List.mem_cons_of_mem _ ih'
    · exact ih'

/-- A hash line that stands outside every PEM block (no BEGIN line before it) is loaded. -/
theorem hash_line_loaded (pre post : List Line) (l : Line) (pems : List String)
    (hpre : ∀ x ∈ pre, x.isBegin = false) (hb : l.isBegin = false)
    (hlen : l.text.length = 44) (hok : l.b64ok = true) :
    l.text ∈ loadAllowList (pre ++ l :: post) pems := by
  unfold loadAllowList
  apply List.mem_append_left
  apply scanLines_no_begin pre hpre
  have hn : nextInside l false = false := by unfold nextInside; cases l.isEnd <;> simp [hb]
  unfold scanLines
  rw [hn]
  simp [hlen, hok]

/-! ### Non-vacuity -/

def exPolicy : Policy := { nSys := 1, nUser := 1, allowedEkus := ["1.3.6.1.5.5.7.3.36"] }
def exQuery : Query := { certHash := "h", eku := some { other := ["1.3.6.1.5.5.7.3.36"] }, userValid := true }

example : checkTrust .openssl exPolicy exQuery = .ok .user := rfl
example : TrustedBy exPolicy exQuery .user := (checkTrust_ok_iff _ _ _).1 rfl
example : checkTrust .openssl { exPolicy with anchorsOnly := true } exQuery = .error .certificateNotTrusted := rfl
example : checkTrust .openssl exPolicy { exQuery with sysValid := true } = .ok .system := rfl
example : checkTrust .openssl { exPolicy with allowSet := ["h"] } { exQuery with userValid := false } = .ok .endEntity := rfl
example : checkTrust .openssl exPolicy { exQuery with eku := some { serverAuth := true } } = .error .invalidEku := rfl
example : verifyTrust .profileOnly .openssl exPolicy exQuery = .none := by decide
example : credentialState .trustPolicy .openssl { now := 50 } C06.exConforming exPolicy exQuery true = .trusted := by decide
example : credentialState .trustPolicy .openssl { now := 50 } C06.exConforming { exPolicy with anchorsOnly := true } exQuery true = .valid := by decide
example : loadAllowList [{ text := "-----BEGIN CERTIFICATE-----", isBegin := true },
    { text := "AAAAAAAAAAAAAAAAAAAAAAAAAAAAAAAAAAAAAAAAAAA=", b64ok := true },
    { text := "-----END CERTIFICATE-----", isEnd := true },
    { text := "BBBBBBBBBBBBBBBBBBBBBBBBBBBBBBBBBBBBBBBBBBB=", b64ok := true }] ["p"]
    = ["BBBBBBBBBBBBBBBBBBBBBBBBBBBBBBBBBBBBBBBBBBB=", "p"] := by decide

end C2pa.C05
