import C2paModel.Model.C04
/-
C04 — property theorems. The statement (properties.jsonl):

  Valid only if the active manifest's claim signature validated and was inside its
  validity period and every failure code (of the active manifest and of every
  ingredient delta) is one of the explicitly tolerated credential codes; Trusted only
  if additionally the signing credential was found trusted and there are no failures
  at all; otherwise Invalid. Adding any non-tolerated failure never turns Invalid
  into Valid or Trusted.

All theorems quantify over every `Results` value (any number of deltas, any codes,
known or unknown) and every `Status`.
-/
namespace C2pa.C04

/-- The statement's condition for "at least Valid". -/
def ValidCond (r : Results) : Prop :=
  ∃ a, r.active = some a ∧ cSigValidated ∈ a.success ∧ cInsideValidity ∈ a.success ∧
    (∀ f ∈ a.failure, tolerated f = true) ∧
    ∀ d ∈ deltasOf r, ∀ f ∈ d.codes.failure, tolerated f = true

/-- The statement's condition for Trusted. -/
def TrustedCond (r : Results) : Prop :=
  ∃ a, r.active = some a ∧ cSigValidated ∈ a.success ∧ cInsideValidity ∈ a.success ∧
    cTrusted ∈ a.success ∧ a.failure = [] ∧ ∀ d ∈ deltasOf r, d.codes.failure = []

theorem failuresTolerated_iff (c : Codes) :
    failuresTolerated c = true ↔ ∀ f ∈ c.failure, tolerated f = true := by
  unfold failuresTolerated
  cases h : c.failure with
  | nil => simp
  | cons x xs => simp [List.all_eq_true]

theorem any_beq_iff (l : List Code) (c : Code) : l.any (· == c) = true ↔ c ∈ l := by
  simp [List.any_eq_true]

theorem isValid_iff (a : Codes) (r : Results) :
    isValid a r = true ↔
      cSigValidated ∈ a.success ∧ cInsideValidity ∈ a.success ∧
      (∀ f ∈ a.failure, tolerated f = true) ∧
      ∀ d ∈ deltasOf r, ∀ f ∈ d.codes.failure, tolerated f = true := by
  unfold isValid
  simp only [Bool.and_eq_true, any_beq_iff, failuresTolerated_iff, List.all_eq_true]
  constructor
  · rintro ⟨⟨⟨h1, h2⟩, h3⟩, h4⟩; exact ⟨h1, h2, h3, h4⟩
  · rintro ⟨h1, h2, h3, h4⟩; exact ⟨⟨⟨h1, h2⟩, h3⟩, h4⟩

theorem tolerated_nil_of_empty (l : List Code) (h : l = []) : ∀ f ∈ l, tolerated f = true := by
  subst h; intro f hf; cases hf

theorem isTrusted_iff (a : Codes) (r : Results) :
    isTrusted a r = true ↔
      cSigValidated ∈ a.success ∧ cInsideValidity ∈ a.success ∧ cTrusted ∈ a.success ∧
      a.failure = [] ∧ ∀ d ∈ deltasOf r, d.codes.failure = [] := by
  unfold isTrusted
  simp only [Bool.and_eq_true, any_beq_iff, isValid_iff, List.all_eq_true, List.isEmpty_iff]
  constructor
  · rintro ⟨⟨⟨h1, h2⟩, h3⟩, h4, h5, _, _⟩; exact ⟨h4, h5, h1, h2, h3⟩
  · rintro ⟨h1, h2, h3, h4, h5⟩
    refine ⟨⟨⟨h3, h4⟩, h5⟩, h1, h2, tolerated_nil_of_empty _ h4, ?_⟩
    intro d hd; exact tolerated_nil_of_empty _ (h5 d hd)

/-- **Trusted ⇔ the statement's Trusted condition.** -/
theorem state_trusted_iff (r : Results) : state r = .trusted ↔ TrustedCond r := by
  unfold state TrustedCond
  cases hr : r.active with
  | none => simp
  | some a =>
    simp only [Option.some.injEq, exists_eq_left']
    by_cases ht : isTrusted a r = true
    · simp only [ht, if_true, true_iff]; exact (isTrusted_iff a r).1 ht
    · have : ¬ (cSigValidated ∈ a.success ∧ cInsideValidity ∈ a.success ∧ cTrusted ∈ a.success ∧
          a.failure = [] ∧ ∀ d ∈ deltasOf r, d.codes.failure = []) := fun h => ht ((isTrusted_iff a r).2 h)
      simp only [ht]
      by_cases hv : isValid a r = true <;> simp [hv, this]

theorem trusted_implies_valid_cond (r : Results) (h : TrustedCond r) : ValidCond r := by
  obtain ⟨a, ha, h1, h2, _, h4, h5⟩ := h
  exact ⟨a, ha, h1, h2, tolerated_nil_of_empty _ h4, fun d hd => tolerated_nil_of_empty _ (h5 d hd)⟩

/-- **Not Invalid (Valid or Trusted) ⇔ the statement's Valid condition.** -/
theorem state_not_invalid_iff (r : Results) : state r ≠ .invalid ↔ ValidCond r := by
  unfold state ValidCond
  cases hr : r.active with
  | none => simp
  | some a =>
    simp only [Option.some.injEq, exists_eq_left']
    by_cases ht : isTrusted a r = true
    · simp only [ht, if_true]
      have := (isTrusted_iff a r).1 ht
      constructor
      · intro _
        exact ⟨this.1, this.2.1, tolerated_nil_of_empty _ this.2.2.2.1,
          fun d hd => tolerated_nil_of_empty _ (this.2.2.2.2 d hd)⟩
      · intro _ h; cases h
    · simp only [ht]
      by_cases hv : isValid a r = true
      · simp only [hv, if_true]
        constructor
        · intro _; exact (isValid_iff a r).1 hv
        · intro _ h; cases h
      · simp only [hv]
        constructor
        · intro h; exact absurd rfl h
        · intro h; exact absurd ((isValid_iff a r).2 h) hv

/-- **Valid ⇔ Valid condition and not the Trusted condition.** -/
theorem state_valid_iff (r : Results) : state r = .valid ↔ ValidCond r ∧ ¬ TrustedCond r := by
  rw [← state_not_invalid_iff, ← state_trusted_iff]
  cases state r <;> simp

/-- **Otherwise Invalid.** -/
theorem state_invalid_iff (r : Results) : state r = .invalid ↔ ¬ ValidCond r := by
  rw [← state_not_invalid_iff]; simp

/-- The tolerated set is exactly `signingCredential.untrusted` or the `cawg.x509.` prefix. -/
theorem tolerated_exact (c : Code) :
    tolerated c = true ↔ c = cUntrusted ∨ ∃ t, c = cawgX509Prefix ++ t := by
  unfold tolerated
  simp only [Bool.or_eq_true, beq_iff_eq, List.isPrefixOf_iff_prefix]
  constructor
  · rintro (h | ⟨t, ht⟩)
    · exact Or.inl h
    · exact Or.inr ⟨t, ht.symm⟩
  · rintro (h | ⟨t, ht⟩)
    · exact Or.inl h
    · exact Or.inr ⟨t, ht.symm⟩

/-! ### Adding failures -/

theorem add_failure_success (c : Codes) (s : Status) (hk : s.kind = .failure) :
    (c.add s).success = c.success ∧ (c.add s).failure = c.failure ++ [s.code] := by
  unfold Codes.add; rw [hk]; simp

/-- After `addToFirst`, every old delta has a counterpart whose failures extend it, and the
counterpart of the hit delta contains the new code. -/
theorem addToFirst_spec (u : List Char) (s : Status) (hk : s.kind = .failure) :
    ∀ (ds ds' : List Delta), addToFirst u s ds = some ds' →
      (∀ d ∈ ds, ∃ d' ∈ ds', ∀ f ∈ d.codes.failure, f ∈ d'.codes.failure) ∧
      (∃ d' ∈ ds', s.code ∈ d'.codes.failure) := by
  intro ds
  induction ds with
  | nil => intro ds' h; simp [addToFirst] at h
  | cons d ds ih =>
    intro ds' h
    unfold addToFirst at h
    by_cases hu : (d.uri == u) = true
    · simp only [hu, if_true, Option.some.injEq] at h
      subst h
      have hf := (add_failure_success d.codes s hk).2
      refine ⟨?_, ⟨_, List.mem_cons_self .., by simp [hf]⟩⟩
      intro x hx
      rcases List.mem_cons.1 hx with rfl | hx
      · exact ⟨_, List.mem_cons_self .., by intro f hf'; simp [hf, hf']⟩
      · exact ⟨x, List.mem_cons_of_mem _ hx, fun f hf' => hf'⟩
    · cases hrec : addToFirst u s ds with
      | none => simp [hu, hrec] at h
      | some ds'' =>
        simp [hu, hrec] at h
        subst h
        obtain ⟨h1, d', hd', hc⟩ := ih ds'' hrec
        refine ⟨?_, ⟨d', List.mem_cons_of_mem _ hd', hc⟩⟩
        intro x hx
        rcases List.mem_cons.1 hx with rfl | hx
        · exact ⟨x, List.mem_cons_self .., fun f hf' => hf'⟩
        · obtain ⟨y, hy, hxy⟩ := h1 x hx
          exact ⟨y, List.mem_cons_of_mem _ hy, hxy⟩

/-- Shape of `addStatus` for a failure status: success codes of the active manifest are
unchanged (or the active manifest is freshly created with none), every old failure is
still present somewhere in the same component, and the new code is present. -/
theorem addStatus_failure_spec (r : Results) (s : Status) (hk : s.kind = .failure) :
    let r' := addStatus r s
    (∀ a', r'.active = some a' →
        (∃ a, r.active = some a ∧ a'.success = a.success ∧ ∀ f ∈ a.failure, f ∈ a'.failure)
        ∨ (r.active = none ∧ a'.success = [])) ∧
    (∀ d ∈ deltasOf r, ∃ d' ∈ deltasOf r', ∀ f ∈ d.codes.failure, f ∈ d'.codes.failure) ∧
    ((∃ a', r'.active = some a' ∧ s.code ∈ a'.failure) ∨
      (∃ d' ∈ deltasOf r', s.code ∈ d'.codes.failure)) := by
  intro r'
  cases hu : s.uri with
  | none =>
    have hr' : r' = { r with active := some ((r.active.getD {}).add s) } := by
      show addStatus r s = _; unfold addStatus; rw [hu]
    have hf := add_failure_success (r.active.getD {}) s hk
    refine ⟨?_, ?_, ?_⟩
    · intro a' ha'
      rw [hr'] at ha'
      simp only [Option.some.injEq] at ha'
      subst ha'
      cases hra : r.active with
      | none =>
        right; refine ⟨rfl, ?_⟩
        simp [(add_failure_success ({} : Codes) s hk).1]
      | some a =>
        left; refine ⟨a, rfl, ?_, ?_⟩
        · simp [(add_failure_success a s hk).1]
        · intro f hf'; simp [(add_failure_success a s hk).2, hf']
    · intro d hd
      refine ⟨d, ?_, fun f hf' => hf'⟩
      rw [hr']; exact hd
    · left; exact ⟨_, by rw [hr'], by simp [hf.2]⟩
  | some u =>
    cases hadd : addToFirst u s (deltasOf r) with
    | some ds' =>
      have hr' : r' = { r with deltas := some ds' } := by
        show addStatus r s = _; unfold addStatus; rw [hu]; simp only [hadd]
      obtain ⟨h1, h2⟩ := addToFirst_spec u s hk _ _ hadd
      refine ⟨?_, ?_, ?_⟩
      · intro a' ha'
        rw [hr'] at ha'
        left; exact ⟨a', ha', rfl, fun f hf' => hf'⟩
      · intro d hd
        obtain ⟨d', hd', hsub⟩ := h1 d hd
        exact ⟨d', by rw [hr']; exact hd', hsub⟩
      · right
        obtain ⟨d', hd', hc⟩ := h2
        exact ⟨d', by rw [hr']; exact hd', hc⟩
    | none =>
      have hr' : r' = { r with deltas := some (deltasOf r ++ [{ uri := u, codes := ({} : Codes).add s }]) } := by
        show addStatus r s = _; unfold addStatus; rw [hu]; simp only [hadd]
      have hf := add_failure_success ({} : Codes) s hk
      refine ⟨?_, ?_, ?_⟩
      · intro a' ha'
        rw [hr'] at ha'
        left; exact ⟨a', ha', rfl, fun f hf' => hf'⟩
      · intro d hd
        refine ⟨d, ?_, fun f hf' => hf'⟩
        rw [hr']; simp [deltasOf, List.mem_append]; left; exact hd
      · right
        refine ⟨{ uri := u, codes := ({} : Codes).add s }, ?_, by simp [hf.2]⟩
        rw [hr']; simp [deltasOf]

/-- **Adding a non-tolerated failure anywhere (active manifest, an existing delta or a
new delta) always yields Invalid** — in particular it never turns Invalid into Valid or
Trusted. -/
theorem add_nontolerated_failure_invalid (r : Results) (s : Status)
    (hk : s.kind = .failure) (ht : tolerated s.code = false) :
    state (addStatus r s) = .invalid := by
  rw [state_invalid_iff]
  rintro ⟨a', ha', _, _, hfa, hfd⟩
  obtain ⟨_, _, h3⟩ := addStatus_failure_spec r s hk
  rcases h3 with ⟨a'', ha'', hc⟩ | ⟨d', hd', hc⟩
  · rw [ha'] at ha''; cases ha''
    have := hfa _ hc; rw [ht] at this; cases this
  · have := hfd d' hd' _ hc; rw [ht] at this; cases this

theorem validCond_of_add_failure (r : Results) (s : Status) (hk : s.kind = .failure)
    (h : ValidCond (addStatus r s)) : ValidCond r := by
  obtain ⟨a', ha', hv, hi, hfa, hfd⟩ := h
  obtain ⟨h1, h2, _⟩ := addStatus_failure_spec r s hk
  rcases h1 a' ha' with ⟨a, ha, hs, hsub⟩ | ⟨_, hs⟩
  · refine ⟨a, ha, hs ▸ hv, hs ▸ hi, fun f hf => hfa f (hsub f hf), ?_⟩
    intro d hd f hf
    obtain ⟨d', hd', hsub'⟩ := h2 d hd
    exact hfd d' hd' f (hsub' f hf)
  · rw [hs] at hv; cases hv

theorem trustedCond_of_add_failure (r : Results) (s : Status) (hk : s.kind = .failure)
    (h : TrustedCond (addStatus r s)) : TrustedCond r := by
  obtain ⟨a', ha', hv, hi, ht, hfa, hfd⟩ := h
  obtain ⟨h1, h2, _⟩ := addStatus_failure_spec r s hk
  rcases h1 a' ha' with ⟨a, ha, hs, hsub⟩ | ⟨_, hs⟩
  · refine ⟨a, ha, hs ▸ hv, hs ▸ hi, hs ▸ ht, ?_, ?_⟩
    · cases hfl : a.failure with
      | nil => rfl
      | cons x xs =>
        have := hsub x (by rw [hfl]; exact List.mem_cons_self ..)
        rw [hfa] at this; cases this
    · intro d hd
      obtain ⟨d', hd', hsub'⟩ := h2 d hd
      cases hfl : d.codes.failure with
      | nil => rfl
      | cons x xs =>
        have := hsub' x (by rw [hfl]; exact List.mem_cons_self ..)
        rw [hfd d' hd'] at this; cases this
  · rw [hs] at hv; cases hv

/-- **Adding any failure (tolerated or not) never raises the state.** -/
theorem add_failure_antitone (r : Results) (s : Status) (hk : s.kind = .failure) :
    (state (addStatus r s)).rank ≤ (state r).rank := by
  have hv := validCond_of_add_failure r s hk
  have ht := trustedCond_of_add_failure r s hk
  rw [← state_not_invalid_iff, ← state_not_invalid_iff] at hv
  rw [← state_trusted_iff, ← state_trusted_iff] at ht
  cases h' : state (addStatus r s) <;> cases h : state r <;> simp [State.rank] <;>
    simp [h', h] at hv ht

/-- The same for any sequence of failure additions (history form). -/
theorem add_failures_antitone (ss : List Status) (hk : ∀ s ∈ ss, s.kind = .failure) :
    ∀ r : Results, (state (ss.foldl addStatus r)).rank ≤ (state r).rank := by
  induction ss with
  | nil => intro r; exact Nat.le_refl _
  | cons s ss ih =>
    intro r
    simp only [List.foldl_cons]
    exact Nat.le_trans
      (ih (fun x hx => hk x (List.mem_cons_of_mem _ hx)) (addStatus r s))
      (add_failure_antitone r s (hk s (List.mem_cons_self ..)))

/-- Legacy fallback: not Invalid exactly when every listed code is the tolerated
`signingCredential.untrusted`. -/
theorem legacy_not_invalid_iff (vt : Bool) (st : Option (List Code)) :
    legacyState vt st ≠ .invalid ↔ ∀ l, st = some l → ∀ c ∈ l, c = cUntrusted := by
  cases st with
  | none => cases vt <;> simp [legacyState]
  | some l =>
    simp only [legacyState, Option.some.injEq, forall_eq']
    by_cases h : l.any (· != cUntrusted) = true
    · simp only [h, if_true, ne_eq, not_true_eq_false, false_iff]
      intro hall
      obtain ⟨c, hc, hne⟩ := List.any_eq_true.1 h
      simp [hall c hc] at hne
    · have hall : ∀ c ∈ l, c = cUntrusted := by
        intro c hc
        apply Decidable.byContradiction
        intro hne
        exact h (List.any_eq_true.2 ⟨c, hc, by simpa using hne⟩)
      simp only [h]
      constructor
      · intro _; exact hall
      · intro _; simp only [Bool.false_eq_true, if_false]; split <;> simp

/-- **Legacy fallback, Trusted clause at full strength**: Trusted exactly when trust was verified
and the old report lists no failure at all (no list, or an empty list). In particular a listed
`signingCredential.untrusted` — tolerated for Valid — never gives Trusted. (True of the repaired
code only: the unchanged tree returned Trusted for `[signingCredential.untrusted]` with
`verify_trust = true`; fixes/C04-legacy-untrusted-not-trusted.patch.) -/
theorem legacy_trusted_iff (vt : Bool) (st : Option (List Code)) :
    legacyState vt st = .trusted ↔ vt = true ∧ (st = none ∨ st = some []) := by
  cases st with
  | none => cases vt <;> simp [legacyState]
  | some l =>
    cases l with
    | nil => cases vt <;> simp [legacyState]
    | cons x xs =>
      simp only [legacyState, List.isEmpty_cons, Bool.and_false]
      split <;> simp

theorem legacy_trusted_needs_trust (st : Option (List Code)) :
    legacyState false st ≠ .trusted := by
  intro h; have := (legacy_trusted_iff false st).1 h; simp at this

/-- Legacy fallback, Valid clause: Valid exactly when not Invalid and not Trusted. -/
theorem legacy_valid_iff (vt : Bool) (st : Option (List Code)) :
    legacyState vt st = .valid ↔
      (∀ l, st = some l → ∀ c ∈ l, c = cUntrusted) ∧ ¬ (vt = true ∧ (st = none ∨ st = some [])) := by
  rw [← legacy_not_invalid_iff vt st, ← legacy_trusted_iff]
  cases legacyState vt st <;> simp

/-- the former hole, now closed: an untrusted credential in the legacy list gives Valid, not Trusted -/
example : legacyState true (some [cUntrusted]) = .valid := by decide
example : legacyState true (some []) = .trusted ∧ legacyState true none = .trusted := by decide
example : legacyState false (some [cUntrusted, cUntrusted]) = .valid := by decide

/-! ### Inert additions: informational codes anywhere, and success codes in ingredient deltas,
never change the state -/

/-- the failure lists of the ingredient deltas, in order -/
def failLists (r : Results) : List (List Code) := (deltasOf r).map (·.codes.failure)

theorem validCond_iff_fl (r : Results) :
    ValidCond r ↔ ∃ a, r.active = some a ∧ cSigValidated ∈ a.success ∧ cInsideValidity ∈ a.success ∧
      (∀ f ∈ a.failure, tolerated f = true) ∧ ∀ l ∈ failLists r, ∀ f ∈ l, tolerated f = true := by
  unfold ValidCond failLists
  simp only [List.forall_mem_map]

theorem trustedCond_iff_fl (r : Results) :
    TrustedCond r ↔ ∃ a, r.active = some a ∧ cSigValidated ∈ a.success ∧ cInsideValidity ∈ a.success ∧
      cTrusted ∈ a.success ∧ a.failure = [] ∧ ∀ l ∈ failLists r, l = [] := by
  unfold TrustedCond failLists
  simp only [List.forall_mem_map]

/-- the state is a function of the two conditions -/
theorem state_eq_of_conds (r r' : Results) (hv : ValidCond r' ↔ ValidCond r)
    (ht : TrustedCond r' ↔ TrustedCond r) : state r' = state r := by
  rw [← state_not_invalid_iff, ← state_not_invalid_iff] at hv
  rw [← state_trusted_iff, ← state_trusted_iff] at ht
  cases h' : state r' <;> cases h : state r <;> simp [h', h] at hv ht ⊢

/-- same active manifest, same delta failure lists up to one appended empty list ⇒ same state -/
theorem state_eq_of_failLists (r r' : Results) (ha : r'.active = r.active)
    (hd : failLists r' = failLists r ∨ failLists r' = failLists r ++ [[]]) : state r' = state r := by
  apply state_eq_of_conds
  · rw [validCond_iff_fl, validCond_iff_fl, ha]
    rcases hd with hd | hd <;> rw [hd]
    simp only [List.mem_append, List.mem_singleton, or_imp, forall_and, forall_eq,
      List.not_mem_nil, false_imp_iff, implies_true, and_true]
  · rw [trustedCond_iff_fl, trustedCond_iff_fl, ha]
    rcases hd with hd | hd <;> rw [hd]
    simp only [List.mem_append, List.mem_singleton, or_imp, forall_and, forall_eq, and_true]

/-- replacing the active manifest's codes by codes with the same decisive success codes and the
same failures leaves the state unchanged (an absent active manifest counts as empty codes) -/
theorem state_eq_of_active (r : Results) (a' : Codes)
    (h1 : cSigValidated ∈ a'.success ↔ cSigValidated ∈ (r.active.getD {}).success)
    (h2 : cInsideValidity ∈ a'.success ↔ cInsideValidity ∈ (r.active.getD {}).success)
    (h3 : cTrusted ∈ a'.success ↔ cTrusted ∈ (r.active.getD {}).success)
    (hf : a'.failure = (r.active.getD {}).failure) :
    state { r with active := some a' } = state r := by
  apply state_eq_of_conds
  · unfold ValidCond
    cases hr : r.active with
    | none =>
      rw [hr] at h1
      simp only [Option.some.injEq, exists_eq_left', deltasOf]
      simp at h1
      simp [h1]
    | some a =>
      rw [hr] at h1 h2 hf
      simp only [Option.getD_some] at h1 h2 hf
      simp only [Option.some.injEq, exists_eq_left', deltasOf, h1, h2, hf]
  · unfold TrustedCond
    cases hr : r.active with
    | none =>
      rw [hr] at h1
      simp only [Option.some.injEq, exists_eq_left', deltasOf]
      simp at h1
      simp [h1]
    | some a =>
      rw [hr] at h1 h2 h3 hf
      simp only [Option.getD_some] at h1 h2 h3 hf
      simp only [Option.some.injEq, exists_eq_left', deltasOf, h1, h2, h3, hf]

theorem add_nonfailure_failure (c : Codes) (s : Status) (hk : s.kind ≠ .failure) :
    (c.add s).failure = c.failure := by
  unfold Codes.add
  cases h : s.kind <;> simp_all

theorem add_informational_success (c : Codes) (s : Status) (hk : s.kind = .informational) :
    (c.add s).success = c.success := by
  unfold Codes.add; rw [hk]

theorem addToFirst_nonfailure (u : List Char) (s : Status) (hk : s.kind ≠ .failure) :
    ∀ (ds ds' : List Delta), addToFirst u s ds = some ds' →
      ds'.map (·.codes.failure) = ds.map (·.codes.failure) := by
  intro ds
  induction ds with
  | nil => intro ds' h; simp [addToFirst] at h
  | cons d ds ih =>
    intro ds' h
    unfold addToFirst at h
    by_cases hu : (d.uri == u) = true
    · simp only [hu, if_true, Option.some.injEq] at h
      subst h
      simp [add_nonfailure_failure d.codes s hk]
    · cases hrec : addToFirst u s ds with
      | none => simp [hu, hrec] at h
      | some ds'' =>
        simp [hu, hrec] at h
        subst h
        simp [ih ds'' hrec]

/-- **A success or informational status placed in an ingredient delta (existing or new) is
inert**: e.g. an ingredient's `signingCredential.trusted` or `claimSignature.validated` never
raises (or lowers) the state of the store. -/
theorem add_delta_nonfailure_inert (r : Results) (s : Status) (u : List Char)
    (hk : s.kind ≠ .failure) (hu : s.uri = some u) : state (addStatus r s) = state r := by
  cases hadd : addToFirst u s (deltasOf r) with
  | some ds' =>
    have hr' : addStatus r s = { r with deltas := some ds' } := by
      unfold addStatus; rw [hu]; simp only [hadd]
    rw [hr']
    refine state_eq_of_failLists r _ rfl ?_
    left
    simpa [failLists, deltasOf] using addToFirst_nonfailure u s hk _ _ hadd
  | none =>
    have hr' : addStatus r s =
        { r with deltas := some (deltasOf r ++ [{ uri := u, codes := ({} : Codes).add s }]) } := by
      unfold addStatus; rw [hu]; simp only [hadd]
    rw [hr']
    refine state_eq_of_failLists r _ rfl ?_
    right
    simp [failLists, deltasOf, add_nonfailure_failure ({} : Codes) s hk]

theorem delta_success_inert (r : Results) (s : Status) (u : List Char)
    (hk : s.kind = .success) (hu : s.uri = some u) : state (addStatus r s) = state r :=
  add_delta_nonfailure_inert r s u (by rw [hk]; decide) hu

/-- **An informational status is inert wherever it is placed** (active manifest, existing or new
delta) and whatever its code — e.g. `cawg.ica.untrusted_issuer`, or a failure-looking code logged
as informational. -/
theorem add_informational_inert (r : Results) (s : Status) (hk : s.kind = .informational) :
    state (addStatus r s) = state r := by
  cases hu : s.uri with
  | some u => exact add_delta_nonfailure_inert r s u (by rw [hk]; decide) hu
  | none =>
    have hr' : addStatus r s = { r with active := some ((r.active.getD {}).add s) } := by
      unfold addStatus; rw [hu]
    rw [hr']
    have hs := add_informational_success (r.active.getD {}) s hk
    exact state_eq_of_active r _ (by rw [hs]) (by rw [hs]) (by rw [hs])
      (add_nonfailure_failure _ s (by rw [hk]; decide))

/-- **A success status of the active manifest other than the three decisive codes is inert.** -/
theorem add_other_success_inert (r : Results) (s : Status) (hk : s.kind = .success)
    (hu : s.uri = none) (h1 : s.code ≠ cSigValidated) (h2 : s.code ≠ cInsideValidity)
    (h3 : s.code ≠ cTrusted) : state (addStatus r s) = state r := by
  have hr' : addStatus r s = { r with active := some ((r.active.getD {}).add s) } := by
    unfold addStatus; rw [hu]
  rw [hr']
  have hs : ((r.active.getD {}).add s).success = (r.active.getD {}).success ++ [s.code] := by
    unfold Codes.add; rw [hk]
  refine state_eq_of_active r _ ?_ ?_ ?_ (add_nonfailure_failure _ s (by rw [hk]; decide))
  · rw [hs]; simp [Ne.symm h1]
  · rw [hs]; simp [Ne.symm h2]
  · rw [hs]; simp [Ne.symm h3]

/-- history form: any sequence of informational statuses and delta successes is inert -/
theorem add_inert_sequence (ss : List Status)
    (h : ∀ s ∈ ss, s.kind = .informational ∨ (s.kind = .success ∧ s.uri ≠ none)) :
    ∀ r : Results, state (ss.foldl addStatus r) = state r := by
  induction ss with
  | nil => intro r; rfl
  | cons s ss ih =>
    intro r
    simp only [List.foldl_cons]
    rw [ih (fun x hx => h x (List.mem_cons_of_mem _ hx))]
    rcases h s (List.mem_cons_self ..) with hk | ⟨hk, hu⟩
    · exact add_informational_inert r s hk
    · cases hu' : s.uri with
      | none => exact absurd hu' hu
      | some u => exact delta_success_inert r s u hk hu'

/-! ### Non-vacuity: concrete results meeting each condition -/

def exTrusted : Results :=
  { active := some { success := [cSigValidated, cInsideValidity, cTrusted] }, deltas := some [] }
def exValid : Results :=
  { active := some { success := [cInsideValidity, cSigValidated], failure := [cUntrusted] },
    deltas := some [{ uri := "u".toList, codes := { failure := ["cawg.x509.x".toList] } }] }

example : state exTrusted = .trusted := by decide
example : state exValid = .valid := by decide
example : state (addStatus exValid { code := "assertion.dataHash.mismatch".toList, kind := .failure, uri := some "u".toList }) = .invalid := by decide
example : tolerated "cawg.x509".toList = false ∧ tolerated "cawg.identity.pad.invalid".toList = false := by decide
-- the inert theorems have instances that matter: a would-be-decisive success in a delta, and a
-- failure-looking informational code in the active manifest
example : state (addStatus exValid { code := cTrusted, kind := .success, uri := some "u".toList }) = .valid := by decide
example : state (addStatus exTrusted { code := "cawg.ica.untrusted_issuer".toList, kind := .informational, uri := none }) = .trusted := by decide
-- ... while the same codes placed as active success / failure do change the state
example : state (addStatus exTrusted { code := "cawg.ica.untrusted_issuer".toList, kind := .failure, uri := none }) = .invalid := by decide

end C2pa.C04
