import C2paModel.Model.C04
/-
C04 — property theorems. The statement (properties.jsonl):

  Valid only if the active manifest's claim signature validated and was inside its
  validity period and every failure code (of the active manifest and of every
  ingredient delta) is one of the explicitly tolerated credential codes; Trusted only
  if additionally the signing credential was found trusted and there are no failures
  at all; otherwise Invalid. Adding any non-tolerated failure never turns Invalid
  into Valid or Trusted.

All theorems quantify over every `Results` value (any number of deltas, any codes,
known or unknown) and every `Status`.
-/
namespace C2pa.C04

/-- The statement's condition for "at least Valid". -/
def ValidCond (r : Results) : Prop :=
  ∃ a, r.active = some a ∧ cSigValidated ∈ a.success ∧ cInsideValidity ∈ a.success ∧
    (∀ f ∈ a.failure, tolerated f = true) ∧
    ∀ d ∈ deltasOf r, ∀ f ∈ d.codes.failure, tolerated f = true

/-- The statement's condition for Trusted. -/
def TrustedCond (r : Results) : Prop :=
  ∃ a, r.active = some a ∧ cSigValidated ∈ a.success ∧ cInsideValidity ∈ a.success ∧
    cTrusted ∈ a.success ∧ a.failure = [] ∧ ∀ d ∈ deltasOf r, d.codes.failure = []

theorem failuresTolerated_iff (c : Codes) :
    failuresTolerated c = true ↔ ∀ f ∈ c.failure, tolerated f = true := by
  unfold failuresTolerated
  cases h : c.failure with
  | nil => simp
  | cons x xs => simp [List.all_eq_true]

theorem any_beq_iff (l : List Code) (c : Code) : l.any (· == c) = true ↔ c ∈ l := by
  simp [List.any_eq_true]

theorem isValid_iff (a : Codes) (r : Results) :
    isValid a r = true ↔
      cSigValidated ∈ a.success ∧ cInsideValidity ∈ a.success ∧
      (∀ f ∈ a.failure, tolerated f = true) ∧
      ∀ d ∈ deltasOf r, ∀ f ∈ d.codes.failure, tolerated f = true := by
  unfold isValid
  simp only [Bool.and_eq_true, any_beq_iff, failuresTolerated_iff, List.all_eq_true]
  constructor
  · rintro ⟨⟨⟨h1, h2⟩, h3⟩, h4⟩; exact ⟨h1, h2, h3, h4⟩
  · rintro ⟨h1, h2, h3, h4⟩; exact ⟨⟨⟨h1, h2⟩, h3⟩, h4⟩

theorem tolerated_nil_of_empty (l : List Code) (h : l = []) : ∀ f ∈ l, tolerated f = true := by
  subst h; intro f hf; cases hf

theorem isTrusted_iff (a : Codes) (r : Results) :
    isTrusted a r = true ↔
      cSigValidated ∈ a.success ∧ cInsideValidity ∈ a.success ∧ cTrusted ∈ a.success ∧
      a.failure = [] ∧ ∀ d ∈ deltasOf r, d.codes.failure = [] := by
  unfold isTrusted
  simp only [Bool.and_eq_true, any_beq_iff, isValid_iff, List.all_eq_true, List.isEmpty_iff]
  constructor
  · rintro ⟨⟨⟨h1, h2⟩, h3⟩, h4, h5, _, _⟩; exact ⟨h4, h5, h1, h2, h3⟩
  · rintro ⟨h1, h2, h3, h4, h5⟩
    refine ⟨⟨⟨h3, h4⟩, h5⟩, h1, h2, tolerated_nil_of_empty _ h4, ?_⟩
    intro d hd; exact tolerated_nil_of_empty _ (h5 d hd)

/-- **Trusted ⇔ the statement's Trusted condition.** -/
theorem state_trusted_iff (r : Results) : state r = .trusted ↔ TrustedCond r := by
  unfold state TrustedCond
  cases hr : r.active with
  | none => simp
  | some a =>
    simp only [Option.some.injEq, exists_eq_left']
    by_cases ht : isTrusted a r = true
    · simp only [ht, if_true, true_iff]; exact (isTrusted_iff a r).1 ht
    · have : ¬ (cSigValidated ∈ a.success ∧ cInsideValidity ∈ a.success ∧ cTrusted ∈ a.success ∧
          a.failure = [] ∧ ∀ d ∈ deltasOf r, d.codes.failure = []) := fun h => ht ((isTrusted_iff a r).2 h)
      simp only [ht]
      by_cases hv : isValid a r = true <;> simp [hv, this]

theorem trusted_implies_valid_cond (r : Results) (h : TrustedCond r) : ValidCond r := by
  obtain ⟨a, ha, h1, h2, _, h4, h5⟩ := h
  exact ⟨a, ha, h1, h2, tolerated_nil_of_empty _ h4, fun d hd => tolerated_nil_of_empty _ (h5 d hd)⟩

/-- **Not Invalid (Valid or Trusted) ⇔ the statement's Valid condition.** -/
theorem state_not_invalid_iff (r : Results) : state r ≠ .invalid ↔ ValidCond r := by
  unfold state ValidCond
  cases hr : r.active with
  | none => simp
  | some a =>
    simp only [Option.some.injEq, exists_eq_left']
    by_cases ht : isTrusted a r = true
    · simp only [ht, if_true]
      have := (isTrusted_iff a r).1 ht
      constructor
      · intro _
        exact ⟨this.1, this.2.1, tolerated_nil_of_empty _ this.2.2.2.1,
          fun d hd => tolerated_nil_of_empty _ (this.2.2.2.2 d hd)⟩
      · intro _ h; cases h
    · simp only [ht]
      by_cases hv : isValid a r = true
      · simp only [hv, if_true]
        constructor
        · intro _; exact (isValid_iff a r).1 hv
        · intro _ h; cases h
      · simp only [hv]
        constructor
        · intro h; exact absurd rfl h
        · intro h; exact absurd ((isValid_iff a r).2 h) hv

/-- **Valid ⇔ Valid condition and not the Trusted condition.** -/
theorem state_valid_iff (r : Results) : state r = .valid ↔ ValidCond r ∧ ¬ TrustedCond r := by
  rw [← state_not_invalid_iff, ← state_trusted_iff]
  cases state r <;> simp

/-- **Otherwise Invalid.** -/
theorem state_invalid_iff (r : Results) : state r = .invalid ↔ ¬ ValidCond r := by
  rw [← state_not_invalid_iff]; simp

/-- The tolerated set is exactly `signingCredential.untrusted` or the `cawg.x509.` prefix. -/
theorem tolerated_exact (c : Code) :
    tolerated c = true ↔ c = cUntrusted ∨ ∃ t, c = cawgX509Prefix ++ t := by
  unfold tolerated
  simp only [Bool.or_eq_true, beq_iff_eq, List.isPrefixOf_iff_prefix]
  constructor
  · rintro (h | ⟨t, ht⟩)
    · exact Or.inl h
    · exact Or.inr ⟨t, ht.symm⟩
  · rintro (h | ⟨t, ht⟩)
    · exact Or.inl h
    · exact Or.inr ⟨t, ht.symm⟩

/-! ### Adding failures -/

theorem add_failure_success (c : Codes) (s : Status) (hk : s.kind = .failure) :
    (c.add s).success = c.success ∧ (c.add s).failure = c.failure ++ [s.code] := by
  unfold Codes.add; rw [hk]; simp

/-- After `addToFirst`, every old delta has a counterpart whose failures extend it, and the
counterpart of the hit delta contains the new code. -/
theorem addToFirst_spec (u : List Char) (s : Status) (hk : s.kind = .failure) :
    ∀ (ds ds' : List Delta), addToFirst u s ds = some ds' →
      (∀ d ∈ ds, ∃ d' ∈ ds', ∀ f ∈ d.codes.failure, f ∈ d'.codes.failure) ∧
      (∃ d' ∈ ds', s.code ∈ d'.codes.failure) := by
  intro ds
  induction ds with
  | nil => intro ds' h; simp [addToFirst] at h
  | cons d ds ih =>
    intro ds' h
    unfold addToFirst at h
    by_cases hu : (d.uri == u) = true
    · simp only [hu, if_true, Option.some.injEq] at h
      subst h
      have hf := (add_failure_success d.codes s hk).2
      refine ⟨?_, ⟨_, List.mem_cons_self .., by simp [hf]⟩⟩
      intro x hx
      rcases List.mem_cons.1 hx with rfl | hx
      · exact ⟨_, List.mem_cons_self .., by intro f hf'; simp [hf, hf']⟩
      · exact ⟨x, List.mem_cons_of_mem _ hx, fun f hf' => hf'⟩
    · cases hrec : addToFirst u s ds with
      | none => simp [hu, hrec] at h
      | some ds'' =>
        simp [hu, hrec] at h
        subst h
        obtain ⟨h1, d', hd', hc⟩ := ih ds'' hrec
        refine ⟨?_, ⟨d', List.mem_cons_of_mem _ hd', hc⟩⟩
        intro x hx
        rcases List.mem_cons.1 hx with rfl | hx
        · exact ⟨x, List.mem_cons_self .., fun f hf' => hf'⟩
        · obtain ⟨y, hy, hxy⟩ := h1 x hx
          exact ⟨y, List.mem_cons_of_mem _ hy, hxy⟩

/-- Shape of `addStatus` for a failure status: success codes of the active manifest are
unchanged (or the active manifest is freshly created with none), every old failure is
still present somewhere in the same component, and the new code is present. -/
theorem addStatus_failure_spec (r : Results) (s : Status) (hk : s.kind = .failure) :
    let r' := addStatus r s
    (∀ a', r'.active = some a' →
        (∃ a, r.active = some a ∧ a'.success = a.success ∧ ∀ f ∈ a.failure, f ∈ a'.failure)
        ∨ (r.active = none ∧ a'.success = [])) ∧
    (∀ d ∈ deltasOf r, ∃ d' ∈ deltasOf r', ∀ f ∈ d.codes.failure, f ∈ d'.codes.failure) ∧
    ((∃ a', r'.active = some a' ∧ s.code ∈ a'.failure) ∨
      (∃ d' ∈ deltasOf r', s.code ∈ d'.codes.failure)) := by
  intro r'
  cases hu : s.uri with
  | none =>
    have hr' : r' = { r with active := some ((r.active.getD {}).add s) } := by
      show addStatus r s = _; unfold addStatus; rw [hu]
    have hf := add_failure_success (r.active.getD {}) s hk
    refine ⟨?_, ?_, ?_⟩
    · intro a' ha'
      rw [hr'] at ha'
      simp only [Option.some.injEq] at ha'
      subst ha'
      cases hra : r.active with
      | none =>
        right; refine ⟨rfl, ?_⟩
        simp [(add_failure_success ({} : Codes) s hk).1]
      | some a =>
        left; refine ⟨a, rfl, ?_, ?_⟩
        · simp [(add_failure_success a s hk).1]
        · intro f hf'; simp [(add_failure_success a s hk).2, hf']
    · intro d hd
      refine ⟨d, ?_, fun f hf' => hf'⟩
      rw [hr']; exact hd
    · left; exact ⟨_, by rw [hr'], by simp [hf.2]⟩
  | some u =>
    cases hadd : addToFirst u s (deltasOf r) with
    | some ds' =>
      have hr' : r' = { r with deltas := some ds' } := by
        show addStatus r s = _; unfold addStatus; rw [hu]; simp only [hadd]
      obtain ⟨h1, h2⟩ := addToFirst_spec u s hk _ _ hadd
      refine ⟨?_, ?_, ?_⟩
      · intro a' ha'
        rw [hr'] at ha'
        left; exact ⟨a', ha', rfl, fun f hf' => hf'⟩
      · intro d hd
        obtain ⟨d', hd', hsub⟩ := h1 d hd
        exact ⟨d', by rw [hr']; exact hd', hsub⟩
      · right
        obtain ⟨d', hd', hc⟩ := h2
        exact ⟨d', by rw [hr']; exact hd', hc⟩
    | none =>
      have hr' : r' = { r with deltas := some (deltasOf r ++ [{ uri := u, codes := ({} : Codes).add s }]) } := by
        show addStatus r s = _; unfold addStatus; rw [hu]; simp only [hadd]
      have hf := add_failure_success ({} : Codes) s hk
      refine ⟨?_, ?_, ?_⟩
      · intro a' ha'
        rw [hr'] at ha'
        left; exact ⟨a', ha', rfl, fun f hf' => hf'⟩
      · intro d hd
        refine ⟨d, ?_, fun f hf' => hf'⟩
        rw [hr']; simp [deltasOf, List.mem_append]; left; exact hd
      · right
        refine ⟨{ uri := u, codes := ({} : Codes).add s }, ?_, by simp [hf.2]⟩
        rw [hr']; simp [deltasOf]

/-- **Adding a non-tolerated failure anywhere (active manifest, an existing delta or a
new delta) always yields Invalid** — in particular it never turns Invalid into Valid or
Trusted. -/
theorem add_nontolerated_failure_invalid (r : Results) (s : Status)
    (hk : s.kind = .failure) (ht : tolerated s.code = false) :
    state (addStatus r s) = .invalid := by
  rw [state_invalid_iff]
  rintro ⟨a', ha', _, _, hfa, hfd⟩
  obtain ⟨_, _, h3⟩ := addStatus_failure_spec r s hk
  rcases h3 with ⟨a'', ha'', hc⟩ | ⟨d', hd', hc⟩
  · rw [ha'] at ha''; cases ha''
    have := hfa _ hc; rw [ht] at this; cases this
  · have := hfd d' hd' _ hc; rw [ht] at this; cases this

theorem validCond_of_add_failure (r : Results) (s : Status) (hk : s.kind = .failure)
    (h : ValidCond (addStatus r s)) : ValidCond r := by
  obtain ⟨a', ha', hv, hi, hfa, hfd⟩ := h
  obtain ⟨h1, h2, _⟩ := addStatus_failure_spec r s hk
  rcases h1 a' ha' with ⟨a, ha, hs, hsub⟩ | ⟨_, hs⟩
  · refine ⟨a, ha, hs ▸ hv, hs ▸ hi, fun f hf => hfa f (hsub f hf), ?_⟩
    intro d hd f hf
    obtain ⟨d', hd', hsub'⟩ := h2 d hd
    exact hfd d' hd' f (hsub' f hf)
  · rw [hs] at hv; cases hv

theorem trustedCond_of_add_failure (r : Results) (s : Status) (hk : s.kind = .failure)
    (h : TrustedCond (addStatus r s)) : TrustedCond r := by
  obtain ⟨a', ha', hv, hi, ht, hfa, hfd⟩ := h
  obtain ⟨h1, h2, _⟩ := addStatus_failure_spec r s hk
  rcases h1 a' ha' with ⟨a, ha, hs, hsub⟩ | ⟨_, hs⟩
  · refine ⟨a, ha, hs ▸ hv, hs ▸ hi, hs ▸ ht, ?_, ?_⟩
    · cases hfl : a.failure with
      | nil => rfl
      | cons x xs =>
        have := hsub x (by rw [hfl]; exact List.mem_cons_self ..)
        rw [hfa] at this; cases this
    · intro d hd
      obtain ⟨d', hd', hsub'⟩ := h2 d hd
      cases hfl : d.codes.failure with
      | nil => rfl
      | cons x xs =>
        have := hsub' x (by rw [hfl]; exact List.mem_cons_self ..)
        rw [hfd d' hd'] at this; cases this
  · rw [hs] at hv; cases hv

/-- **Adding any failure (tolerated or not) never raises the state.** -/
theorem add_failure_antitone (r : Results) (s : Status) (hk : s.kind = .failure) :
    (state (addStatus r s)).rank ≤ (state r).rank := by
  have hv := validCond_of_add_failure r s hk
  have ht := trustedCond_of_add_failure r s hk
  rw [← state_not_invalid_iff, ← state_not_invalid_iff] at hv
  rw [← state_trusted_iff, ← state_trusted_iff] at ht
  cases h' : state (addStatus r s) <;> cases h : state r <;> simp [State.rank] <;>
    simp [h', h] at hv ht

/-- The same for any sequence of failure additions (history form). -/
theorem add_failures_antitone (ss : List Status) (hk : ∀ s ∈ ss, s.kind = .failure) :
    ∀ r : Results, (state (ss.foldl addStatus r)).rank ≤ (state r).rank := by
  induction ss with
  | nil => intro r; exact Nat.le_refl _
  | cons s ss ih =>
    intro r
    simp only [List.foldl_cons]
    exact Nat.le_trans
      (ih (fun x hx => hk x (List.mem_cons_of_mem _ hx)) (addStatus r s))
      (add_failure_antitone r s (hk s (List.mem_cons_self ..)))

/-- Legacy fallback: not Invalid exactly when every listed code is the tolerated
`signingCredential.untrusted`; Trusted only when trust was verified. -/
theorem legacy_not_invalid_iff (vt : Bool) (st : Option (List Code)) :
    legacyState vt st ≠ .invalid ↔ ∀ l, st = some l → ∀ c ∈ l, c = cUntrusted := by
  unfold legacyState
  cases st with
  | none => cases vt <;> simp
  | some l =>
    by_cases h : l.any (· != cUntrusted) = true
    · simp only [h, if_true, ne_eq, not_true_eq_false, Option.some.injEq, forall_eq', false_iff]
      intro hall
      obtain ⟨c, hc, hne⟩ := List.any_eq_true.1 h
      simp [hall c hc] at hne
    · have hall : ∀ c ∈ l, c = cUntrusted := by
        intro c hc
        apply Decidable.byContradiction
        intro hne
        exact h (List.any_eq_true.2 ⟨c, hc, by simpa using hne⟩)
      have hf : (l.any fun x => x != cUntrusted) = false := by simpa using h
      show (if (l.any fun x => x != cUntrusted) = true then State.invalid
        else if vt = true then State.trusted else State.valid) ≠ State.invalid ↔ _
      rw [hf]
      cases vt <;> simp <;> exact hall

theorem legacy_trusted_needs_trust (st : Option (List Code)) :
    legacyState false st ≠ .trusted := by
  unfold legacyState
  cases st with
  | none => simp
  | some l => by_cases h : l.any (· != cUntrusted) = true <;> simp [h]

/-! ### Non-vacuity: concrete results meeting each condition -/

def exTrusted : Results :=
  { active := some { success := [cSigValidated, cInsideValidity, cTrusted] }, deltas := some [] }
def exValid : Results :=
  { active := some { success := [cInsideValidity, cSigValidated], failure := [cUntrusted] },
    deltas := some [{ uri := "u".toList, codes := { failure := ["cawg.x509.x".toList] } }] }

example : state exTrusted = .trusted := by decide
example : state exValid = .valid := by decide
example : state (addStatus exValid { code := "assertion.dataHash.mismatch".toList, kind := .failure, uri := some "u".toList }) = .invalid := by decide
example : tolerated "cawg.x509".toList = false ∧ tolerated "cawg.identity.pad.invalid".toList = false := by decide

end C2pa.C04
