import C2paModel.Model.C14
/-
C14 — property theorems. The statement (properties.jsonl):

  Whenever the caller reserves at least the minimum size needed for a signature (the
  signer's reserve size) or for a data-hash assertion (the placeholder size), the SDK pads
  the signed structure to exactly the reserved size. Signing never fails with a size error
  for a reserve that is larger than a reserve that succeeds, and never panics.

All theorems quantify over every structure (`rest`, `k` unbounded) and every reserve /
desired size (unbounded naturals; the CBOR head rule includes the 5- and 9-byte heads). The
implementation allocates the pads (`vec![0u8; n]`), so on the real code the statements are
exercised up to +70000 bytes only (registry: level_note); a reserve near `usize::MAX` aborts in
the allocator, which the model does not represent.
-/
namespace C2pa.C14

/-! ### the CBOR head-size rule -/

theorem hdr_cases (n : Nat) :
    (n < 24 ∧ hdr n = 1) ∨ (24 ≤ n ∧ n < 256 ∧ hdr n = 2) ∨ (256 ≤ n ∧ n < 65536 ∧ hdr n = 3) ∨
    (65536 ≤ n ∧ n < 4294967296 ∧ hdr n = 5) ∨ (4294967296 ≤ n ∧ hdr n = 9) := by
  unfold hdr
  by_cases h1 : n < 24
  · simp [h1]
  · by_cases h2 : n < 256
    · simp [h1, h2]; omega
    · by_cases h3 : n < 65536
      · simp [h1, h2, h3]; omega
      · by_cases h4 : n < 4294967296
        · simp [h1, h2, h3, h4]; omega
        · simp [h1, h2, h3, h4]; omega

theorem hdr_pos (n : Nat) : 1 ≤ hdr n := by
  rcases hdr_cases n with h | h | h | h | h <;> omega

theorem hdr_le (n : Nat) : hdr n ≤ 9 := by
  rcases hdr_cases n with h | h | h | h | h <;> omega

theorem hdr_mono {a b : Nat} (h : a ≤ b) : hdr a ≤ hdr b := by
  rcases hdr_cases a with ha | ha | ha | ha | ha <;>
  rcases hdr_cases b with hb | hb | hb | hb | hb <;> omega

/-! ### COSE: the adjust loop in closed form -/

/-- Size with a `pad` of `g` bytes, written as a padding-independent part plus `hdr g + g`. -/
def fixedPart (s : Sign1) (p2 : Option Nat) : Nat :=
  s.rest + hdr (s.k + 1 + optCount p2) + 4 + optEntry 4 p2

theorem size_some (s : Sign1) (p2 : Option Nat) (g : Nat) :
    size s (some g) p2 = fixedPart s p2 + hdr g + g := by
  simp [size, fixedPart, optCount, optEntry, entry]; omega

theorem size_nn (s : Sign1) : size s none none = s.rest + hdr s.k := by
  simp [size, optCount, optEntry]

theorem size_ns (s : Sign1) (m : Nat) :
    size s none (some m) = s.rest + hdr (s.k + 1) + (5 + hdr m + m) := by
  simp [size, optCount, optEntry, entry]

theorem fixedPart_none (s : Sign1) : fixedPart s none = s.rest + hdr (s.k + 1) + 4 := by
  simp [fixedPart, optCount, optEntry]

theorem fixedPart_some (s : Sign1) (m : Nat) :
    fixedPart s (some m) = s.rest + hdr (s.k + 2) + 4 + (5 + hdr m + m) := by
  simp [fixedPart, optCount, optEntry, entry, Nat.add_assoc]

theorem padded_mono (F : Nat) {a b : Nat} (h : a ≤ b) : F + hdr a + a ≤ F + hdr b + b := by
  have := hdr_mono h; omega

/-- The step-up loop from a guess whose size is not above `e`, with enough fuel: it stops at
the pad length whose size is exactly `e`, or breaks between two consecutive sizes. -/
theorem adjust_spec (s : Sign1) (p2 : Option Nat) (e : Nat) :
    ∀ (fuel g : Nat), fixedPart s p2 + hdr g + g ≤ e → e - (fixedPart s p2 + hdr g + g) < fuel →
      (∃ q, g ≤ q ∧ fixedPart s p2 + hdr q + q = e ∧ adjust s p2 e fuel g = .done q) ∨
      (∃ q, g ≤ q ∧ fixedPart s p2 + hdr q + q < e ∧ e < fixedPart s p2 + hdr (q + 1) + (q + 1) ∧
        adjust s p2 e fuel g = .brk) := by
  intro fuel
  induction fuel with
  | zero => intro g _ h; omega
  | succ fuel ih =>
    intro g hle hfuel
    have hstep := hdr_mono (show g ≤ g + 1 by omega)
    by_cases hlt : fixedPart s p2 + hdr g + g < e
    · by_cases hnext : fixedPart s p2 + hdr (g + 1) + (g + 1) ≤ e
      · rcases ih (g + 1) hnext (by omega) with ⟨q, hq, hf, ha⟩ | ⟨q, hq, hf1, hf2, ha⟩
        · left; refine ⟨q, by omega, hf, ?_⟩
          simp only [adjust, size_some, hlt, if_true]; exact ha
        · right; refine ⟨q, by omega, hf1, hf2, ?_⟩
          simp only [adjust, size_some, hlt, if_true]; exact ha
      · right
        refine ⟨g, Nat.le_refl g, hlt, by omega, ?_⟩
        obtain ⟨f', rfl⟩ : ∃ f', fuel = f' + 1 := ⟨fuel - 1, by omega⟩
        have h1 : ¬ (fixedPart s p2 + hdr (g + 1) + (g + 1) < e) := by omega
        have h2 : ¬ (fixedPart s p2 + hdr (g + 1) + (g + 1) = e) := by omega
        simp only [adjust, size_some, hlt, if_true, h1, h2, if_false]
    · left
      have heq : fixedPart s p2 + hdr g + g = e := by omega
      refine ⟨g, Nat.le_refl g, heq, ?_⟩
      simp [adjust, size_some, heq]

/-- `e` is the size of the structure for some length of the single free pad. -/
def Reachable (s : Sign1) (p2 : Option Nat) (e : Nat) : Prop :=
  ∃ g, fixedPart s p2 + hdr g + g = e

theorem size_empty (s : Sign1) (p2 : Option Nat) : size s (some 0) p2 = fixedPart s p2 + 1 := by
  rw [size_some]; simp [hdr]

/-- `attempt` decides reachability exactly; the ten units of fuel always suffice and the
guarded subtraction never underflows. -/
theorem attempt_spec (s : Sign1) (p2 : Option Nat) (e : Nat) :
    (e < fixedPart s p2 + 1 ∧ attempt s p2 e = .tooSmall) ∨
    (fixedPart s p2 + 1 ≤ e ∧ ∃ g, fixedPart s p2 + hdr g + g = e ∧ attempt s p2 e = .done g) ∨
    (fixedPart s p2 + 1 ≤ e ∧ ¬ Reachable s p2 e ∧ attempt s p2 e = .brk) := by
  unfold attempt
  simp only [size_empty]
  by_cases hlt : e < fixedPart s p2 + 1
  · left
    have : fixedPart s p2 + 1 > e := hlt
    exact ⟨hlt, by simp [this]⟩
  · right
    have hng : ¬ (fixedPart s p2 + 1 > e) := by omega
    have hcs : csub e (fixedPart s p2 + 1) = some (e - (fixedPart s p2 + 1)) := by
      unfold csub; simp; omega
    simp only [hng, if_false, hcs]
    generalize hxd : e - (fixedPart s p2 + 1) = x
    have hx : e = fixedPart s p2 + 1 + x := by omega
    have hA : fixedPart s p2 + hdr (x - 8) + (x - 8) ≤ e := by
      rcases hdr_cases (x - 8) with g | g | g | g | g <;> omega
    have hB : e - (fixedPart s p2 + hdr (x - 8) + (x - 8)) < 10 := by
      rcases hdr_cases (x - 8) with g | g | g | g | g <;> omega
    rcases adjust_spec s p2 e 10 (x - 8) hA hB with
      ⟨q, _, hf, ha⟩ | ⟨q, _, hf1, hf2, ha⟩
    · left; exact ⟨by omega, q, hf, by rw [ha]⟩
    · right
      refine ⟨by omega, ?_, by rw [ha]⟩
      rintro ⟨g, hg⟩
      by_cases hgq : g ≤ q
      · have := padded_mono (fixedPart s p2) hgq; omega
      · have := padded_mono (fixedPart s p2) (show q + 1 ≤ g by omega); omega

/-- The sizes no single byte string can fill: `x + 1` bytes for head and content together. -/
theorem unfillable_iff (x : Nat) :
    (∀ g, hdr g + g ≠ x + 1) ↔
      x = 24 ∨ x = 257 ∨ x = 65538 ∨ x = 65539 ∨ (4294967300 ≤ x ∧ x ≤ 4294967303) := by
  constructor
  · intro h
    apply Classical.byContradiction
    intro hn
    by_cases c1 : x < 24
    · have h1 : hdr x = 1 := by simp [hdr, c1]
      exact h x (by omega)
    · by_cases c2 : x ≤ 256
      · refine h (x - 1) ?_
        rcases hdr_cases (x - 1) with g | g | g | g | g <;> omega
      · by_cases c3 : x ≤ 65537
        · refine h (x - 2) ?_
          rcases hdr_cases (x - 2) with g | g | g | g | g <;> omega
        · by_cases c4 : x ≤ 4294967299
          · refine h (x - 4) ?_
            rcases hdr_cases (x - 4) with g | g | g | g | g <;> omega
          · refine h (x - 8) ?_
            rcases hdr_cases (x - 8) with g | g | g | g | g <;> omega
  · intro h g
    rcases hdr_cases g with k | k | k | k | k <;> omega

theorem not_reachable_iff (s : Sign1) (p2 : Option Nat) (e : Nat) (hle : fixedPart s p2 + 1 ≤ e) :
    ¬ Reachable s p2 e ↔
      (let x := e - (fixedPart s p2 + 1)
       x = 24 ∨ x = 257 ∨ x = 65538 ∨ x = 65539 ∨ (4294967300 ≤ x ∧ x ≤ 4294967303)) := by
  simp only
  rw [← unfillable_iff]
  unfold Reachable
  constructor
  · intro h g hg; exact h ⟨g, by omega⟩
  · rintro h ⟨g, hg⟩; exact h g (by omega)

theorem attempt_done_size (s : Sign1) (p2 : Option Nat) (e g : Nat)
    (h : attempt s p2 e = .done g) : size s (some g) p2 = e := by
  rw [size_some]
  rcases attempt_spec s p2 e with ⟨_, ha⟩ | ⟨_, q, hq, ha⟩ | ⟨_, _, ha⟩
  · rw [ha] at h; cases h
  · rw [ha] at h; cases h; exact hq
  · rw [ha] at h; cases h

theorem attempt_no_panic (s : Sign1) (p2 : Option Nat) (e : Nat) :
    attempt s p2 e ≠ .panic ∧ attempt s p2 e ≠ .fuelOut := by
  rcases attempt_spec s p2 e with ⟨_, ha⟩ | ⟨_, q, hq, ha⟩ | ⟨_, _, ha⟩ <;> rw [ha] <;> simp

/-! ### COSE: the property -/

/-- Unpadded size (`cur_size`). -/
def unpadded (s : Sign1) : Nat := size s none none

/-- Smallest padded form: one empty `pad` entry. -/
def minPadded (s : Sign1) : Nat := size s (some 0) none

theorem minPadded_eq (s : Sign1) : minPadded s = fixedPart s none + 1 := by
  unfold minPadded; rw [size_some]; simp [hdr]

theorem unpadded_lt_minPadded (s : Sign1) : unpadded s + 5 ≤ minPadded s := by
  rw [minPadded_eq, fixedPart_none, unpadded, size_nn]
  have := hdr_mono (show s.k ≤ s.k + 1 by omega)
  omega

/-- With fewer than 23 entries in the unprotected map (every real signature: at most the
time-stamp and `rVals` entries) the smallest padded form is exactly five bytes larger. -/
theorem minPadded_small_map (s : Sign1) (hk : s.k + 1 < 24) : minPadded s = unpadded s + 5 := by
  rw [minPadded_eq, fixedPart_none, unpadded, size_nn]
  have h1 : hdr (s.k + 1) = 1 := by simp [hdr, hk]
  have h0 : hdr s.k = 1 := by
    have : s.k < 24 := by omega
    simp [hdr, this]
  omega

theorem fixedPart_some0 (s : Sign1) :
    fixedPart s (some 0) = fixedPart s none + 6 + (hdr (s.k + 2) - hdr (s.k + 1)) := by
  have := hdr_mono (show s.k + 1 ≤ s.k + 2 by omega)
  have h0 : hdr 0 = 1 := by simp [hdr]
  rw [fixedPart_none, fixedPart_some, h0]
  omega

theorem hdr_step_le (n : Nat) : hdr (n + 1) - hdr n ≤ 4 := by
  rcases hdr_cases n with h | h | h | h | h <;>
  rcases hdr_cases (n + 1) with g | g | g | g | g <;> omega

/-- **Exact characterisation.** `pad_cose_sig` succeeds for a reserve `e` iff `e` is the
unpadded size or at least the smallest padded form; and then the result has exactly `e`
bytes, and that length is the serialised size of the structure with the reported pads. -/
theorem cose_ok_iff (s : Sign1) (e : Nat) :
    (∃ len p p2, padCoseSig s (some e) = .ok len p p2) ↔ (e = unpadded s ∨ minPadded s ≤ e) := by
  unfold padCoseSig
  by_cases hcur : size s none none = e
  · simp [hcur, unpadded]
  · have hne : ¬ (e = unpadded s) := fun h => hcur (by rw [h]; rfl)
    simp only [hcur, if_false, hne, false_or]
    rw [minPadded_eq]
    rcases attempt_spec s none e with ⟨hlt, ha⟩ | ⟨hle, g, _, ha⟩ | ⟨hle, hnr, ha⟩
    · rw [ha]
      constructor
      · rintro ⟨_, _, _, h⟩; cases h
      · intro h; omega
    · rw [ha]
      exact ⟨fun _ => hle, fun _ => ⟨_, _, _, rfl⟩⟩
    · -- head boundary: the empty pad2 shifts the remainder off it
      rw [ha]
      refine ⟨fun _ => hle, fun _ => ?_⟩
      have hgap := (not_reachable_iff s none e hle).1 hnr
      simp only at hgap
      have hfp := fixedPart_some0 s
      have hst : hdr (s.k + 2) - hdr (s.k + 1) ≤ 4 := hdr_step_le (s.k + 1)
      have hle2 : fixedPart s (some 0) + 1 ≤ e := by omega
      rcases attempt_spec s (some 0) e with ⟨hlt, _⟩ | ⟨_, g, _, hb⟩ | ⟨_, hnr2, _⟩
      · omega
      · rw [hb]; exact ⟨_, _, _, rfl⟩
      · have hgap2 := (not_reachable_iff s (some 0) e hle2).1 hnr2
        simp only at hgap2
        omega

/-- **Soundness of every `Ok`.** Whatever reserve is given, a successful result has exactly
the reserved length, and that length is the size of the structure with the reported pads. -/
theorem cose_ok_exact (s : Sign1) (e len : Nat) (p p2 : Option Nat)
    (h : padCoseSig s (some e) = .ok len p p2) : len = e ∧ size s p p2 = e := by
  unfold padCoseSig at h
  by_cases hcur : size s none none = e
  · simp [hcur] at h; obtain ⟨h1, h2, h3⟩ := h; subst h1 h2 h3; exact ⟨rfl, hcur⟩
  · simp only [hcur, if_false] at h
    cases ha : attempt s none e with
    | done g =>
      rw [ha] at h; simp at h; obtain ⟨h1, h2, h3⟩ := h; subst h1 h2 h3
      have := attempt_done_size s none e g ha; exact ⟨this, this⟩
    | tooSmall => rw [ha] at h; cases h
    | panic => rw [ha] at h; cases h
    | fuelOut => rw [ha] at h; cases h
    | brk =>
      rw [ha] at h; simp only at h
      cases hb : attempt s (some 0) e with
      | done g =>
        rw [hb] at h; simp at h; obtain ⟨h1, h2, h3⟩ := h; subst h1 h2 h3
        have := attempt_done_size s (some 0) e g hb; exact ⟨this, this⟩
      | tooSmall => rw [hb] at h; cases h
      | panic => rw [hb] at h; cases h
      | fuelOut => rw [hb] at h; cases h
      | brk => rw [hb] at h; cases h

/-- The statement's first sentence for signatures, at full strength, as a `Prop`:
every reserve that is at least the unpadded size is met exactly. -/
def CosePadExactFull : Prop :=
  ∀ (s : Sign1) (e : Nat), unpadded s ≤ e → ∃ p p2, padCoseSig s (some e) = .ok e p p2

/-- **cose_pad_exact (partial).** Every reserve that equals the unpadded size or is at
least the smallest padded form (unpadded + 5 for every real signature, see
`minPadded_small_map`) is met exactly. Partial: the reserves strictly between are excluded. -/
theorem cose_pad_exact_partial (s : Sign1) (e : Nat) (h : e = unpadded s ∨ minPadded s ≤ e) :
    ∃ p p2, padCoseSig s (some e) = .ok e p p2 ∧ size s p p2 = e := by
  obtain ⟨len, p, p2, hok⟩ := (cose_ok_iff s e).2 h
  obtain ⟨h1, h2⟩ := cose_ok_exact s e len p p2 hok
  subst h1
  exact ⟨p, p2, hok, h2⟩

example : minPadded ⟨1066, 0⟩ ≤ unpadded ⟨1066, 0⟩ + 29 := by decide
example : ∃ p p2, padCoseSig ⟨1066, 0⟩ (some (unpadded ⟨1066, 0⟩ + 29)) = .ok 1096 p p2 :=
  ⟨some 18, some 0, by decide⟩

/-- The code falsifies the full statement: one byte over the unpadded size is a size error
(replayed on the implementation by the harness: `base=B end=B+1`). -/
theorem cose_pad_exact_full_false : ¬ CosePadExactFull := by
  intro h
  obtain ⟨p, p2, hp⟩ := h ⟨100, 0⟩ 102 (by decide)
  have : padCoseSig ⟨100, 0⟩ (some 102) = .tooSmall := by decide
  rw [this] at hp; cases hp

/-- **The residual gap is not the loop's choice, it is the scheme's.** With the two labelled
byte-string entries the routine (and every existing reader) uses — `"pad": bytes`,
`"pad2": bytes` — no choice of lengths gives a serialised size strictly between the unpadded
size and the smallest padded form: such an entry takes at least five bytes (1 + 3 + 1).
This says nothing about other CBOR entries: a map entry can be as small as two bytes
(`0: 0`), so with a different padding vocabulary only +1 would be out of reach. -/
theorem cose_gap_impossible (s : Sign1) (p p2 : Option Nat) :
    size s p p2 = unpadded s ∨ minPadded s ≤ size s p p2 := by
  rw [minPadded_eq, fixedPart_none]
  have m1 := hdr_mono (show s.k ≤ s.k + 1 by omega)
  have m2 := hdr_mono (show s.k + 1 ≤ s.k + 2 by omega)
  cases p with
  | none =>
    cases p2 with
    | none => left; rfl
    | some m =>
      right
      have := hdr_pos m
      rw [size_ns]; omega
  | some n =>
    right
    have := hdr_pos n
    rw [size_some]
    cases p2 with
    | none => rw [fixedPart_none]; omega
    | some m =>
      have := hdr_pos m
      rw [fixedPart_some]; omega

/-- The statement's second sentence at full strength. -/
def CoseMonotoneFull : Prop :=
  ∀ (s : Sign1) (e e' : Nat), e ≤ e' →
    (∃ len p p2, padCoseSig s (some e) = .ok len p p2) →
    (∃ len p p2, padCoseSig s (some e') = .ok len p p2)

/-- **cose_monotone (partial).** A reserve larger than one that succeeds succeeds, unless it
lies in the gap right above the unpadded size. -/
theorem cose_monotone_partial (s : Sign1) (e e' : Nat) (hle : e ≤ e')
    (hok : ∃ len p p2, padCoseSig s (some e) = .ok len p p2)
    (hgap : ¬ (unpadded s < e' ∧ e' < minPadded s)) :
    ∃ len p p2, padCoseSig s (some e') = .ok len p p2 := by
  rw [cose_ok_iff] at hok ⊢
  have := unpadded_lt_minPadded s
  omega

example : (∃ len p p2, padCoseSig ⟨1066, 0⟩ (some 1096) = .ok len p p2) ∧
    ¬ (unpadded ⟨1066, 0⟩ < 1300 ∧ 1300 < minPadded ⟨1066, 0⟩) :=
  ⟨⟨1096, some 18, some 0, by decide⟩, by decide⟩

theorem cose_monotone_full_false : ¬ CoseMonotoneFull := by
  intro h
  have h1 : ∃ len p p2, padCoseSig ⟨100, 0⟩ (some 101) = .ok len p p2 :=
    ⟨101, none, none, by decide⟩
  obtain ⟨len, p, p2, hp⟩ := h ⟨100, 0⟩ 101 102 (by decide) h1
  have : padCoseSig ⟨100, 0⟩ (some 102) = .tooSmall := by decide
  rw [this] at hp; cases hp

/-- **no_panic (COSE).** For every structure and every reserve (or none) the routine neither
underflows a `usize` subtraction nor runs out of the model's loop fuel. -/
theorem cose_no_panic (s : Sign1) (endSize : Option Nat) :
    padCoseSig s endSize ≠ .panic ∧ padCoseSig s endSize ≠ .fuelOut := by
  unfold padCoseSig
  cases endSize with
  | none => simp
  | some e =>
    by_cases hcur : size s none none = e
    · simp [hcur]
    · simp only [hcur, if_false]
      have hn := attempt_no_panic s none e
      cases ha : attempt s none e with
      | done g => simp
      | tooSmall => simp
      | panic => exact absurd ha hn.1
      | fuelOut => exact absurd ha hn.2
      | brk =>
        simp only
        have hn2 := attempt_no_panic s (some 0) e
        cases hb : attempt s (some 0) e with
        | done g => simp
        | tooSmall => simp
        | panic => exact absurd hb hn2.1
        | fuelOut => exact absurd hb hn2.2
        | brk => simp

/-- No reserve: the plain serialisation is returned. -/
theorem cose_no_reserve (s : Sign1) : padCoseSig s none = .ok (unpadded s) none none := rfl

example : (⟨1066, 0⟩ : Sign1).k + 1 < 24 ∧ unpadded ⟨1066, 0⟩ + 263 ≤ 2070 ∧
    2070 ≤ unpadded ⟨1066, 0⟩ + 65542 := by decide

/-- Inside the window in which the routine already worked before the repair (263 … 65542
bytes over the unpadded size, small map) the result is the same single `pad` of
`e − unpadded − 7` bytes. -/
theorem cose_window_unchanged (s : Sign1) (e : Nat) (hk : s.k + 1 < 24)
    (hlo : unpadded s + 263 ≤ e) (hhi : e ≤ unpadded s + 65542) :
    padCoseSig s (some e) = .ok e (some (e - unpadded s - 7)) none := by
  have hmp := minPadded_small_map s hk
  rw [minPadded_eq] at hmp
  have hcur : ¬ (size s none none = e) := by unfold unpadded at hlo; omega
  have h3 : hdr (e - unpadded s - 7) = 3 := by
    rcases hdr_cases (e - unpadded s - 7) with g | g | g | g | g <;> omega
  have hsz : fixedPart s none + hdr (e - unpadded s - 7) + (e - unpadded s - 7) = e := by omega
  unfold padCoseSig
  simp only [hcur, if_false]
  rcases attempt_spec s none e with ⟨hlt, _⟩ | ⟨_, g, hg, ha⟩ | ⟨_, hnr, _⟩
  · omega
  · -- the size function is strictly increasing, so the pad length is unique
    have huniq : g = e - unpadded s - 7 := by
      by_cases c : g ≤ e - unpadded s - 7
      · by_cases c' : g = e - unpadded s - 7
        · exact c'
        · have := padded_mono (fixedPart s none) (show g + 1 ≤ e - unpadded s - 7 by omega)
          have := hdr_mono (show g ≤ g + 1 by omega)
          omega
      · have := padded_mono (fixedPart s none) (show e - unpadded s - 7 + 1 ≤ g by omega)
        have := hdr_mono (show e - unpadded s - 7 ≤ e - unpadded s - 7 + 1 by omega)
        omega
    rw [ha]; subst huniq
    simp only [size_some]
    rw [hsz]
  · exact absurd ⟨e - unpadded s - 7, hsz⟩ hnr


/-- **cose_pad2_iff.** For a reserve at or above the smallest padded form the routine uses the
second entry `pad2` (always empty) exactly at the sizes a single byte string cannot fill:
24, 257, 65538, 65539 and 2^32+4 … 2^32+7 bytes over the smallest padded form. -/
theorem cose_pad2_iff (s : Sign1) (e : Nat) (h : minPadded s ≤ e) :
    (∃ len p, padCoseSig s (some e) = .ok len p (some 0)) ↔
      (let x := e - minPadded s
       x = 24 ∨ x = 257 ∨ x = 65538 ∨ x = 65539 ∨ (4294967300 ≤ x ∧ x ≤ 4294967303)) := by
  have hmp := minPadded_eq s
  have hlt := unpadded_lt_minPadded s
  have hcur : ¬ (size s none none = e) := by unfold unpadded at hlt; omega
  have hle : fixedPart s none + 1 ≤ e := by omega
  rw [hmp, ← not_reachable_iff s none e hle]
  unfold padCoseSig
  simp only [hcur, if_false]
  rcases attempt_spec s none e with ⟨hl, _⟩ | ⟨_, g, hg, ha⟩ | ⟨_, hnr, ha⟩
  · omega
  · rw [ha]
    constructor
    · rintro ⟨_, _, h⟩; cases h
    · intro hn; exact absurd ⟨g, hg⟩ hn
  · rw [ha]
    refine ⟨fun _ => hnr, fun _ => ?_⟩
    have hgap := (not_reachable_iff s none e hle).1 hnr
    simp only at hgap
    have hfp := fixedPart_some0 s
    have hst : hdr (s.k + 2) - hdr (s.k + 1) ≤ 4 := hdr_step_le (s.k + 1)
    have hle2 : fixedPart s (some 0) + 1 ≤ e := by omega
    rcases attempt_spec s (some 0) e with ⟨hl, _⟩ | ⟨_, g, _, hb⟩ | ⟨_, hnr2, _⟩
    · omega
    · rw [hb]; exact ⟨_, _, rfl⟩
    · have hgap2 := (not_reachable_iff s (some 0) e hle2).1 hnr2
      simp only at hgap2
      omega

example : ∃ len p, padCoseSig ⟨1066, 0⟩ (some (minPadded ⟨1066, 0⟩ + 24)) = .ok len p (some 0) :=
  ⟨1096, some 18, by decide⟩
example : ∃ len p, padCoseSig ⟨1066, 0⟩ (some (minPadded ⟨1066, 0⟩ + 25)) = .ok len p none :=
  ⟨1097, some 24, by decide⟩

/-! ### DataHash::pad_to_size -/

theorem dhSize_with (d : DH) (p : Nat) :
    dhSize { d with pad := p } = d.rest + hdr p + p + optEntry 4 d.pad2 := rfl

/-- The byte-at-a-time loop, with enough fuel: stops at the pad length that gives `want`,
or reports an overshoot after pushing `q + 1 − p` bytes. -/
theorem padLoop_spec (d : DH) (want : Nat) :
    ∀ (fuel p last : Nat), d.rest + hdr p + p + optEntry 4 d.pad2 ≤ want →
      want - (d.rest + hdr p + p + optEntry 4 d.pad2) + 1 ≤ fuel →
      (∃ q, p ≤ q ∧ d.rest + hdr q + q + optEntry 4 d.pad2 = want ∧
        padLoop d want fuel p last = .done q) ∨
      (∃ q, p ≤ q ∧ d.rest + hdr q + q + optEntry 4 d.pad2 < want ∧
        want < d.rest + hdr (q + 1) + (q + 1) + optEntry 4 d.pad2 ∧
        padLoop d want fuel p last = .overshoot (last + (q + 1 - p))) := by
  intro fuel
  induction fuel with
  | zero => intro p last _ h; omega
  | succ fuel ih =>
    intro p last hle hfuel
    have hstep := hdr_mono (show p ≤ p + 1 by omega)
    by_cases heq : d.rest + hdr p + p + optEntry 4 d.pad2 = want
    · left
      exact ⟨p, Nat.le_refl p, heq, by simp [padLoop, dhSize_with, heq]⟩
    · have hgt : want > d.rest + hdr p + p + optEntry 4 d.pad2 := by omega
      by_cases hnext : d.rest + hdr (p + 1) + (p + 1) + optEntry 4 d.pad2 ≤ want
      · rcases ih (p + 1) (last + 1) hnext (by omega) with ⟨q, hq, hf, ha⟩ | ⟨q, hq, hf1, hf2, ha⟩
        · left; refine ⟨q, by omega, hf, ?_⟩
          simp only [padLoop, dhSize_with, heq, if_false, hgt, if_true]; exact ha
        · right; refine ⟨q, by omega, hf1, hf2, ?_⟩
          simp only [padLoop, dhSize_with, heq, if_false, hgt, if_true]
          rw [ha]; congr 1; omega
      · right
        refine ⟨p, Nat.le_refl p, by omega, by omega, ?_⟩
        obtain ⟨f', rfl⟩ : ∃ f', fuel = f' + 1 := ⟨fuel - 1, by omega⟩
        have h1 : ¬ (d.rest + hdr (p + 1) + (p + 1) + optEntry 4 d.pad2 = want) := by omega
        have h2 : ¬ (want > d.rest + hdr (p + 1) + (p + 1) + optEntry 4 d.pad2) := by omega
        simp only [padLoop, dhSize_with, heq, if_false, hgt, if_true, h1, h2]
        congr 1; omega

theorem padLoop_done (d : DH) (want : Nat) :
    ∀ (fuel p last q : Nat), padLoop d want fuel p last = .done q →
      dhSize { d with pad := q } = want := by
  intro fuel
  induction fuel with
  | zero => intro p last q h; simp [padLoop] at h
  | succ fuel ih =>
    intro p last q h
    by_cases heq : dhSize { d with pad := p } = want
    · simp [padLoop, heq] at h; subst h; exact heq
    · by_cases hgt : want > dhSize { d with pad := p }
      · simp only [padLoop, heq, if_false, hgt, if_true] at h
        exact ih _ _ _ h
      · simp [padLoop, heq, hgt] at h

/-- Where the serialised size jumps by more than one when a byte is pushed. -/
theorem jump_cases (q : Nat) (h : hdr q < hdr (q + 1)) :
    (q = 23 ∧ hdr q = 1 ∧ hdr (q + 1) = 2) ∨ (q = 255 ∧ hdr q = 2 ∧ hdr (q + 1) = 3) ∨
    (q = 65535 ∧ hdr q = 3 ∧ hdr (q + 1) = 5) ∨
    (q = 4294967295 ∧ hdr q = 5 ∧ hdr (q + 1) = 9) := by
  rcases hdr_cases q with a | a | a | a | a <;>
  rcases hdr_cases (q + 1) with b | b | b | b | b <;> omega

theorem padToSizeF_succ (depth : Nat) (d : DH) (want : Nat) :
    padToSizeF (depth + 1) d want =
      if dhSize d > want then .err
      else
        match padLoop d want (want - dhSize d + 2) d.pad 0 with
        | .done p => .ok { d with pad := p }
        | .fuelOut => .fuelOut
        | .overshoot last =>
          match d.pad2 with
          | some _ => .err
          | none => padToSizeF depth { d with pad := 0, pad2 := some (last / 2) } want := rfl

theorem dhSize_none (r p : Nat) : dhSize ⟨r, p, none⟩ = r + hdr p + p := by
  simp [dhSize, optEntry]

theorem dhSize_some (r p m : Nat) : dhSize ⟨r, p, some m⟩ = r + hdr p + p + (5 + hdr m + m) := by
  simp [dhSize, optEntry, entry]

theorem hdr_zero : hdr 0 = 1 := by simp [hdr]

/-- One call with `pad2` already set (the retry level): never out of fuel; `Ok` or `err`. -/
theorem retry_level (depth r p m want : Nat) :
    (∃ q, padToSizeF (depth + 1) ⟨r, p, some m⟩ want = .ok ⟨r, q, some m⟩ ∧
      r + hdr q + q + (5 + hdr m + m) = want) ∨
    (padToSizeF (depth + 1) ⟨r, p, some m⟩ want = .err ∧
      (r + hdr p + p + (5 + hdr m + m) > want ∨
       ∃ q, p ≤ q ∧ r + hdr q + q + (5 + hdr m + m) < want ∧
         want < r + hdr (q + 1) + (q + 1) + (5 + hdr m + m))) := by
  rw [padToSizeF_succ, dhSize_some]
  by_cases hc : r + hdr p + p + (5 + hdr m + m) > want
  · right; simp [hc]
  · simp only [hc, if_false]
    have e4 : optEntry 4 (some m) = 5 + hdr m + m := by simp [optEntry, entry]
    rcases padLoop_spec ⟨r, p, some m⟩ want (want - (r + hdr p + p + (5 + hdr m + m)) + 2) p 0
        (by simp only [e4]; omega) (by simp only [e4]; omega) with
      ⟨q, _, hf, ha⟩ | ⟨q, hq, hf1, hf2, ha⟩
    · left
      simp only [e4] at hf
      exact ⟨q, by simp only [ha], hf⟩
    · right
      simp only [e4] at hf1 hf2
      exact ⟨by simp only [ha], Or.inr ⟨q, hq, hf1, hf2⟩⟩

/-- **datahash_pad_exact.** For every `DataHash` without a second pad (every one the SDK
builds: `DataHash::new` sets `pad2 = None`), any starting pad, and every desired size that is
at least the current size, `pad_to_size` succeeds and the assertion then has exactly the
desired size; nothing but the pads changes. -/
theorem datahash_pad_exact (d : DH) (want : Nat) (h2 : d.pad2 = none) (hle : dhSize d ≤ want) :
    ∃ d', padToSize d want = .ok d' ∧ dhSize d' = want ∧ d'.rest = d.rest := by
  obtain ⟨r, p0, pad2⟩ := d
  simp only at h2; subst h2
  rw [dhSize_none] at hle
  have hng : ¬ (r + hdr p0 + p0 > want) := by omega
  show ∃ d', padToSizeF (1 + 1) ⟨r, p0, none⟩ want = .ok d' ∧ dhSize d' = want ∧ d'.rest = r
  rw [padToSizeF_succ, dhSize_none]
  simp only [hng, if_false]
  rcases padLoop_spec ⟨r, p0, none⟩ want (want - (r + hdr p0 + p0) + 2) p0 0
      (by simp [optEntry]; omega) (by simp [optEntry]) with
    ⟨q, _, hf, ha⟩ | ⟨q, hq, hf1, hf2, ha⟩
  · rw [ha]
    simp only [optEntry, Nat.add_zero] at hf
    exact ⟨_, rfl, by rw [dhSize_none]; exact hf, rfl⟩
  · rw [ha]
    simp only [optEntry, Nat.add_zero] at hf1 hf2
    have hj := jump_cases q (by omega)
    -- second level: pad cleared, pad2 = (pushed bytes) / 2
    simp only
    generalize hm : (0 + (q + 1 - p0)) / 2 = m
    have hmle : m ≤ (q + 1) / 2 := by omega
    rcases retry_level 0 r 0 m want with ⟨q', hok, hsz⟩ | ⟨_, hbad⟩
    · rw [hok]
      exact ⟨_, rfl, by rw [dhSize_some]; exact hsz, rfl⟩
    · exfalso
      rw [hdr_zero] at hbad
      rcases hbad with hbig | ⟨q', _, hf1', hf2'⟩
      · rcases hj with j | j | j | j <;> rcases hdr_cases m with k | k | k | k | k <;> omega
      · have hj' := jump_cases q' (by omega)
        rcases hj with j | j | j | j <;> rcases hj' with j' | j' | j' | j' <;>
          rcases hdr_cases m with k | k | k | k | k <;> omega

example : (⟨247, 0, none⟩ : DH).pad2 = none ∧ dhSize ⟨247, 0, none⟩ ≤ 248 + 65539 := by decide
example : padToSize ⟨247, 0, none⟩ (248 + 24) = .ok ⟨247, 6, some 12⟩ := by decide

/-- **Every `Ok` is exact**, also for a `DataHash` whose `pad2` the caller has set. -/
theorem datahash_ok_exact (d d' : DH) (want : Nat) (h : padToSize d want = .ok d') :
    dhSize d' = want ∧ d'.rest = d.rest := by
  obtain ⟨r, p0, pad2⟩ := d
  change padToSizeF (1 + 1) ⟨r, p0, pad2⟩ want = .ok d' at h
  cases pad2 with
  | some m =>
    rcases retry_level 1 r p0 m want with ⟨q, hok, hsz⟩ | ⟨herr, _⟩
    · rw [hok] at h; cases h; exact ⟨by rw [dhSize_some]; exact hsz, rfl⟩
    · rw [herr] at h; cases h
  | none =>
    rw [padToSizeF_succ] at h
    by_cases hc : dhSize ⟨r, p0, none⟩ > want
    · simp [hc] at h
    · simp only [hc, if_false] at h
      cases hl : padLoop ⟨r, p0, none⟩ want (want - dhSize ⟨r, p0, none⟩ + 2) p0 0 with
      | done p =>
        rw [hl] at h; simp at h; subst h
        exact ⟨padLoop_done _ want _ _ _ _ hl, rfl⟩
      | fuelOut => rw [hl] at h; cases h
      | overshoot last =>
        rw [hl] at h; simp only at h
        rcases retry_level 0 r 0 (last / 2) want with ⟨q, hok, hsz⟩ | ⟨herr, _⟩
        · rw [hok] at h; cases h; exact ⟨by rw [dhSize_some]; exact hsz, rfl⟩
        · rw [herr] at h; cases h


/-- **datahash_ok_iff.** For every `DataHash` the SDK builds (`pad2 = None`) `pad_to_size`
succeeds exactly when the desired size is at least the current size. -/
theorem datahash_ok_iff (d : DH) (want : Nat) (h2 : d.pad2 = none) :
    (∃ d', padToSize d want = .ok d') ↔ dhSize d ≤ want := by
  constructor
  · rintro ⟨d', h⟩
    apply Classical.byContradiction
    intro hn
    have hgt : dhSize d > want := by omega
    have : padToSize d want = .err := by
      show padToSizeF (1 + 1) d want = .err
      rw [padToSizeF_succ]; simp [hgt]
    rw [this] at h; cases h
  · intro hle
    obtain ⟨d', h, _⟩ := datahash_pad_exact d want h2 hle
    exact ⟨d', h⟩

/-- **datahash_monotone.** (`pad2 = None`) a desired size larger than one that succeeds
succeeds: the statement's second sentence for the data-hash assertion. -/
theorem datahash_monotone (d : DH) (want want' : Nat) (h2 : d.pad2 = none) (hle : want ≤ want')
    (hok : ∃ d', padToSize d want = .ok d') : ∃ d', padToSize d want' = .ok d' := by
  rw [datahash_ok_iff d _ h2] at hok ⊢
  omega

/-- **datahash_preset_ok_iff.** With a caller-set `pad2` (a public field the SDK itself never
sets before the call) the single retry is used up: it succeeds exactly when some pad length
from the current one upwards gives the desired size. -/
theorem datahash_preset_ok_iff (r p m want : Nat) :
    (∃ d', padToSize ⟨r, p, some m⟩ want = .ok d') ↔
      ∃ q, p ≤ q ∧ r + hdr q + q + (5 + hdr m + m) = want := by
  show (∃ d', padToSizeF (1 + 1) ⟨r, p, some m⟩ want = .ok d') ↔ _
  rw [padToSizeF_succ, dhSize_some]
  have e4 : optEntry 4 (some m) = 5 + hdr m + m := by simp [optEntry, entry]
  by_cases hc : r + hdr p + p + (5 + hdr m + m) > want
  · simp only [hc, if_true]
    constructor
    · rintro ⟨_, h⟩; cases h
    · rintro ⟨q, hq, hs⟩
      have := padded_mono r hq
      omega
  · simp only [hc, if_false]
    rcases padLoop_spec ⟨r, p, some m⟩ want (want - (r + hdr p + p + (5 + hdr m + m)) + 2) p 0
        (by simp only [e4]; omega) (by simp only [e4]; omega) with
      ⟨q, hq, hf, ha⟩ | ⟨q, hq, hf1, hf2, ha⟩
    · simp only [e4] at hf
      rw [ha]
      exact ⟨fun _ => ⟨q, hq, hf⟩, fun _ => ⟨_, rfl⟩⟩
    · simp only [e4] at hf1 hf2
      rw [ha]
      constructor
      · rintro ⟨_, h⟩; cases h
      · rintro ⟨q', _, hs⟩
        by_cases c : q' ≤ q
        · have := padded_mono r c; omega
        · have := padded_mono r (show q + 1 ≤ q' by omega); omega

/-- The statement's second sentence for *every* `DataHash` value, preset `pad2` included. -/
def DataHashMonotoneFull : Prop :=
  ∀ (d : DH) (want want' : Nat), want ≤ want' →
    (∃ d', padToSize d want = .ok d') → (∃ d', padToSize d want' = .ok d')

/-- It is false: with `pad2` preset, 130 succeeds (already that size) and 131 is an error (the
pad header grows at 24 bytes and the retry is used up). Replayed on the implementation
(`C14 dh a=102 pad=23 pad2=0 want=…`). -/
theorem datahash_monotone_full_false : ¬ DataHashMonotoneFull := by
  intro h
  have h1 : ∃ d', padToSize ⟨100, 23, some 0⟩ 130 = .ok d' := ⟨⟨100, 23, some 0⟩, by decide⟩
  obtain ⟨d', hd⟩ := h ⟨100, 23, some 0⟩ 130 131 (by decide) h1
  have : padToSize ⟨100, 23, some 0⟩ 131 = .err := by decide
  rw [this] at hd; cases hd

/-- With a caller-set `pad2` the single retry is already used up: a desired size just past
a head boundary is an error (never a wrong size, see `datahash_ok_exact`). The SDK never
builds such a value; the hypothesis `pad2 = none` of `datahash_pad_exact` is needed. -/
theorem datahash_preset_pad2_can_fail :
    ∃ d want, d.pad2 ≠ none ∧ dhSize d ≤ want ∧ padToSize d want = .err :=
  ⟨⟨100, 23, some 0⟩, 131, by decide, by decide, by decide⟩

/-- **no_panic / termination (DataHash).** `pad_to_size` contains no subtraction; the loop
ends within `desired − current + 2` iterations and the self-recursion is at most one deep. -/
theorem datahash_terminates (d : DH) (want : Nat) : padToSize d want ≠ .fuelOut := by
  obtain ⟨r, p0, pad2⟩ := d
  change padToSizeF (1 + 1) ⟨r, p0, pad2⟩ want ≠ .fuelOut
  cases pad2 with
  | some m =>
    rcases retry_level 1 r p0 m want with ⟨q, hok, _⟩ | ⟨herr, _⟩
    · rw [hok]; simp
    · rw [herr]; simp
  | none =>
    rw [padToSizeF_succ, dhSize_none]
    by_cases hc : r + hdr p0 + p0 > want
    · simp [hc]
    · simp only [hc, if_false]
      rcases padLoop_spec ⟨r, p0, none⟩ want (want - (r + hdr p0 + p0) + 2) p0 0
          (by simp [optEntry]; omega) (by simp [optEntry]) with
        ⟨q, _, _, ha⟩ | ⟨q, _, _, _, ha⟩
      · rw [ha]; simp
      · rw [ha]; simp only
        rcases retry_level 0 r 0 ((0 + (q + 1 - p0)) / 2) want with ⟨q', hok, _⟩ | ⟨herr, _⟩
        · rw [hok]; simp
        · rw [herr]; simp

/-! ### `save_to_stream`: the placeholder JUMBF and the final JUMBF have the same length -/

theorem sameSizeCheck_iff (a b : Nat) : sameSizeCheck a b = true ↔ a = b := by
  simp [sameSizeCheck]

/-- The equal-size check of `start_save_stream` never fires: whenever `pad_to_size` returned
`Ok` the regenerated JUMBF has the placeholder's size (`datahash_ok_exact`). The check is a
second line of defence, not a reachable error path of the model. -/
theorem save_check_never_fires (v : Save) (d' : DH)
    (h : padToSize v.dh1 (dhSize v.dh0) = .ok d') :
    sameSizeCheck (v.fixed + sigPlaceholder v.reserve + dhSize v.dh0)
      (v.fixed + sigPlaceholder v.reserve + dhSize d') = true := by
  rw [sameSizeCheck_iff, (datahash_ok_exact _ _ _ h).1]

/-- **save_same_size.** When the SDK pads the signature (no direct COSE handling) and the
signer's COSE structure is at least as large as the 32-byte placeholder digest (every
COSE_Sign1 with a certificate is), a successful run ends with a final JUMBF of exactly the
length of the placeholder JUMBF that was embedded and hashed — so the hashed exclusion range
still covers exactly the manifest. -/
theorem save_same_size (v : Save) (ph fin : Nat) (hd : v.direct = false)
    (hs : 32 ≤ unpadded v.sig) (h : v.run = .ok ph fin) : fin = ph := by
  unfold Save.run at h
  cases hp : padToSize v.dh1 (dhSize v.dh0) with
  | err => rw [hp] at h; cases h
  | fuelOut => rw [hp] at h; cases h
  | ok d' =>
    rw [hp] at h
    have hc := save_check_never_fires v d' hp
    have hsz := (datahash_ok_exact _ _ _ hp).1
    simp only [hc, Bool.not_true, Bool.false_eq_true, if_false, hd] at h
    cases hq : padCoseSig v.sig (some v.reserve) with
    | tooSmall => rw [hq] at h; cases h
    | panic => rw [hq] at h; cases h
    | fuelOut => rw [hq] at h; cases h
    | ok len p p2 =>
      rw [hq] at h
      simp only [SaveRes.ok.injEq] at h
      obtain ⟨h1, h2⟩ := h
      have hlen := (cose_ok_exact _ _ _ _ _ hq).1
      have hok : v.reserve = unpadded v.sig ∨ minPadded v.sig ≤ v.reserve :=
        (cose_ok_iff v.sig v.reserve).1 ⟨len, p, p2, hq⟩
      have := unpadded_lt_minPadded v.sig
      have hr : 32 ≤ v.reserve := by omega
      have : sigPlaceholder v.reserve = v.reserve := by unfold sigPlaceholder; omega
      omega

/-- **save_ok_iff.** The run signs successfully iff the final DataHash is not larger than the
placeholder's and the reserve is the unpadded COSE size or at least the smallest padded form. -/
theorem save_ok_iff (v : Save) (hd : v.direct = false) (h2 : v.dh1.pad2 = none) :
    (∃ ph fin, v.run = .ok ph fin) ↔
      (dhSize v.dh1 ≤ dhSize v.dh0 ∧
        (v.reserve = unpadded v.sig ∨ minPadded v.sig ≤ v.reserve)) := by
  unfold Save.run
  constructor
  · rintro ⟨ph, fin, h⟩
    cases hp : padToSize v.dh1 (dhSize v.dh0) with
    | err => rw [hp] at h; cases h
    | fuelOut => rw [hp] at h; cases h
    | ok d' =>
      rw [hp] at h
      have hc := save_check_never_fires v d' hp
      simp only [hc, Bool.not_true, Bool.false_eq_true, if_false, hd] at h
      refine ⟨(datahash_ok_iff _ _ h2).1 ⟨d', hp⟩, ?_⟩
      cases hq : padCoseSig v.sig (some v.reserve) with
      | tooSmall => rw [hq] at h; cases h
      | panic => rw [hq] at h; cases h
      | fuelOut => rw [hq] at h; cases h
      | ok len p p2 => exact (cose_ok_iff v.sig v.reserve).1 ⟨len, p, p2, hq⟩
  · rintro ⟨hdh, hres⟩
    obtain ⟨d', hp⟩ := (datahash_ok_iff _ _ h2).2 hdh
    obtain ⟨len, p, p2, hq⟩ := (cose_ok_iff v.sig v.reserve).2 hres
    have hc := save_check_never_fires v d' hp
    rw [hp]
    simp only [hc, Bool.not_true, Bool.false_eq_true, if_false, hd, hq]
    exact ⟨_, _, rfl⟩

example : (⟨5000, 1300, ⟨1066, 0⟩, false, ⟨240, 10, none⟩, ⟨150, 0, none⟩⟩ : Save).run =
    .ok 6551 6551 := by decide
example : (⟨5000, 1068, ⟨1066, 0⟩, false, ⟨240, 10, none⟩, ⟨150, 0, none⟩⟩ : Save).run =
    .sigTooSmall := by decide

/-- The 32-byte floor of the placeholder is why `save_same_size` needs `32 ≤ unpadded`: a
(hypothetical) 20-byte COSE structure with a reserve of 20 is embedded behind a 32-byte
placeholder and ends 12 bytes shorter. No signer with a certificate produces one. -/
theorem save_small_sig_differs :
    (⟨0, 20, ⟨19, 0⟩, false, ⟨10, 0, none⟩, ⟨10, 0, none⟩⟩ : Save).run = .ok 43 31 := by decide

/-- **save_direct_unpadded.** With `direct_cose_handling()` the SDK does not pad: the final
JUMBF has the placeholder's length iff the signer itself returned exactly
`max(32, reserve)` bytes. -/
theorem save_direct_unpadded (v : Save) (ph fin : Nat) (hd : v.direct = true)
    (h : v.run = .ok ph fin) : (fin = ph ↔ unpadded v.sig = sigPlaceholder v.reserve) := by
  unfold Save.run at h
  cases hp : padToSize v.dh1 (dhSize v.dh0) with
  | err => rw [hp] at h; cases h
  | fuelOut => rw [hp] at h; cases h
  | ok d' =>
    rw [hp] at h
    have hc := save_check_never_fires v d' hp
    have hsz := (datahash_ok_exact _ _ _ hp).1
    simp only [hc, Bool.not_true, Bool.false_eq_true, if_false, hd, if_true] at h
    simp only [SaveRes.ok.injEq] at h
    obtain ⟨h1, h2⟩ := h
    unfold unpadded
    omega

end C2pa.C14
