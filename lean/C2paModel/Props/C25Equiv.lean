import C2paModel.Props.C25
/-
C25 — "equivalent JSON and TOML documents give equal settings", up to key order.

The JSON parser keeps the document's key order; the TOML parser yields tables in its own
(sorted) order. The two overlay values are therefore equal as `serde_json::Value`s (whose
`PartialEq` ignores key order) but not as ordered lists. `Equiv` is that order-insensitive
equality; `merge_equiv` shows the merge respects it, so the merged values — and hence
everything an order-insensitive deserializer makes of them — agree.
-/
namespace C2pa.C25

mutual
/-- `serde_json::Value::eq`: objects are compared as maps (key order is irrelevant). -/
def Equiv : Json → Json → Prop
  | .null, .null => True
  | .bool a, .bool b => a = b
  | .num a, .num b => a = b
  | .str a, .str b => a = b
  | .arr xs, .arr ys => EquivList xs ys
  | .obj kvs, .obj kvs' => (∀ k, k ∈ keys kvs ↔ k ∈ keys kvs') ∧ EquivFields kvs kvs'
  | _, _ => False
def EquivList : List Json → List Json → Prop
  | [], [] => True
  | x :: xs, y :: ys => Equiv x y ∧ EquivList xs ys
  | _, _ => False
/-- every entry on the left has an equivalent value under the same key on the right -/
def EquivFields : Fields → Fields → Prop
  | [], _ => True
  | (k, v) :: rest, kvs' => (∃ v', lookup k kvs' = some v' ∧ Equiv v v') ∧ EquivFields rest kvs'
end

theorem equivFields_iff (kvs kvs' : Fields) :
    EquivFields kvs kvs' ↔ ∀ kv ∈ kvs, ∃ v', lookup kv.1 kvs' = some v' ∧ Equiv kv.2 v' := by
  induction kvs with
  | nil => simp [EquivFields]
  | cons hd t ih =>
    obtain ⟨k, v⟩ := hd
    simp [EquivFields, ih]

theorem equiv_isObj {a b : Json} (h : Equiv a b) : a.isObj = b.isObj := by
  cases a <;> cases b <;> simp [Equiv] at h <;> rfl

/-- the shape of `Equiv` with an object on the left: the right side is an object with the same key set and equivalent values -/
theorem equiv_obj_left {kvs : Fields} {b : Json} (h : Equiv (.obj kvs) b) :
    ∃ kvs', b = .obj kvs' ∧ (∀ k, k ∈ keys kvs ↔ k ∈ keys kvs') ∧
      ∀ kv ∈ kvs, ∃ v', lookup kv.1 kvs' = some v' ∧ Equiv kv.2 v' := by
  cases b with
  | obj kvs' =>
    rw [Equiv.eq_6, equivFields_iff] at h
    exact ⟨kvs', rfl, h.1, h.2⟩
  | _ => simp [Equiv] at h

theorem equiv_refl (j : Json) (hj : WF j) : Equiv j j := by
  induction j using Json.induct with
  | hnull => simp [Equiv]
  | hbool b => simp [Equiv]
  | hnum r => simp [Equiv]
  | hstr s => simp [Equiv]
  | harr xs ih =>
    rw [Equiv.eq_5]
    rw [WF] at hj
    induction xs with
    | nil => simp [EquivList]
    | cons x xs ihx =>
      rw [WFList] at hj
      rw [EquivList]
      exact ⟨ih x List.mem_cons_self hj.1,
        ihx (fun y hy => ih y (List.mem_cons_of_mem _ hy)) hj.2⟩
  | hobj kvs ih =>
    rw [Equiv.eq_6, equivFields_iff]
    rw [WF_obj] at hj
    refine ⟨fun _ => Iff.rfl, ?_⟩
    intro kv hkv
    exact ⟨kv.2, lookup_of_mem hj.1 hkv, ih kv hkv (hj.2 kv hkv)⟩

/-- lookups of equivalent objects are equivalent (or both absent) -/
theorem equiv_lookup {kvs kvs' : Fields} (hk : ∀ k, k ∈ keys kvs ↔ k ∈ keys kvs')
    (hf : ∀ kv ∈ kvs, ∃ v', lookup kv.1 kvs' = some v' ∧ Equiv kv.2 v') (k : String) :
    (lookup k kvs = none ∧ lookup k kvs' = none) ∨
      ∃ v v', lookup k kvs = some v ∧ lookup k kvs' = some v' ∧ Equiv v v' := by
  cases hl : lookup k kvs with
  | none =>
    left
    refine ⟨rfl, ?_⟩
    have : k ∉ keys kvs := (lookup_eq_none_iff _ _).1 hl
    exact (lookup_eq_none_iff _ _).2 (fun hm => this ((hk k).2 hm))
  | some v =>
    right
    obtain ⟨v', h1, h2⟩ := hf (k, v) (lookup_mem hl)
    exact ⟨v, v', rfl, h1, h2⟩

/-- **merge respects order-insensitive equality**: equivalent targets and equivalent overlays
merge to equivalent values, at every depth counter. -/
theorem merge_equiv (o : Json) : ∀ (t t' o' : Json) (d : Nat), WF t → WF o → WF o' →
    Equiv t t' → Equiv o o' → Equiv (mergeDepth t o d) (mergeDepth t' o' d) := by
  induction o using Json.induct with
  | hobj okvs ih =>
    intro t t' o' d ht ho ho' htt hoo
    obtain ⟨okvs', rfl, hok, hof⟩ := equiv_obj_left hoo
    cases t with
    | obj tkvs =>
      obtain ⟨tkvs', rfl, htk, htf⟩ := equiv_obj_left htt
      by_cases hd : d < mergeMaxDepth
      · rw [mergeDepth_obj_lt _ _ _ hd, mergeDepth_obj_lt _ _ _ hd, Equiv.eq_6, equivFields_iff]
        have hwo := (WF_obj okvs).1 ho
        have hwo' := (WF_obj okvs').1 ho'
        have hwt := (WF_obj tkvs).1 ht
        constructor
        · intro k
          rw [mem_keys_mergeFields, mem_keys_mergeFields, htk k, hok k]
        · intro kv hkv
          have hnd : (keys (mergeFields tkvs okvs d)).Nodup := nodup_keys_mergeFields _ _ _ hwt.1
          have hl : lookup kv.1 (mergeFields tkvs okvs d) = some kv.2 := lookup_of_mem hnd hkv
          rw [lookup_mergeFields _ _ _ _ hwo.1] at hl
          rw [lookup_mergeFields _ _ _ _ hwo'.1]
          rcases equiv_lookup hok hof kv.1 with ⟨h1, h2⟩ | ⟨ov, ov', h1, h2, h3⟩
          · -- the overlay does not mention the key
            rw [h1] at hl
            rw [h2]
            rcases equiv_lookup htk htf kv.1 with ⟨g1, _⟩ | ⟨tv, tv', g1, g2, g3⟩
            · rw [g1] at hl; cases hl
            · rw [g1] at hl
              simp only [Option.some.injEq] at hl
              subst hl
              exact ⟨tv', g2, g3⟩
          · rw [h1] at hl
            simp only [Option.some.injEq] at hl
            rw [h2]
            refine ⟨_, rfl, ?_⟩
            rw [← hl]
            have hov : WF ov := hwo.2 _ (lookup_mem h1)
            have hov' : WF ov' := hwo'.2 _ (lookup_mem h2)
            rcases equiv_lookup htk htf kv.1 with ⟨g1, g2⟩ | ⟨tv, tv', g1, g2, g3⟩
            · rw [g1, g2]
              exact ih (kv.1, ov) (lookup_mem h1) _ _ _ _ (by simp [WF]) hov hov'
                (by simp [Equiv]) h3
            · rw [g1, g2]
              exact ih (kv.1, ov) (lookup_mem h1) _ _ _ _ (hwt.2 _ (lookup_mem g1)) hov hov' g3 h3
      · rw [mergeDepth_obj_ge _ _ _ hd, mergeDepth_obj_ge _ _ _ hd]; exact hoo
    | _ =>
      have e : t'.isObj = false := by rw [← equiv_isObj htt]; rfl
      rw [merge_left_not_obj _ _ _ rfl, merge_left_not_obj _ _ _ e]; exact hoo
  | _ =>
    intro t t' o' d _ _ _ _ hoo
    have e : o'.isObj = false := by rw [← equiv_isObj hoo]; rfl
    rw [merge_right_not_obj _ _ _ rfl, merge_right_not_obj _ _ _ e]; exact hoo

/-- **json_toml_equiv.** If the JSON document and the TOML document parse to values that are
equal up to key order, and deserialisation does not depend on key order, then `with_json` and
`with_toml` give the same result (the same settings or the same error) from the same settings. -/
theorem json_toml_equiv (norm : Norm) (hnorm : ∀ a b, Equiv a b → norm a = norm b)
    (self : Json) (hself : WF self) (dj dt : Doc) (ovj ovt : Json)
    (hj : dj.json = .ok ovj) (ht : dt.toml = .ok ovt) (hwj : WF ovj) (hwt : WF ovt)
    (he : Equiv ovj ovt) :
    withString norm self dj "json" = withString norm self dt "toml" := by
  have pj : parseToValue dj "json" = .ok ovj := by simp [parseToValue, toLower_json, hj]
  have pt : parseToValue dt "toml" = .ok ovt := by
    unfold parseToValue
    simp [toLower_toml, ht]
  unfold withString
  rw [pj, pt]
  exact hnorm _ _ (merge_equiv ovj self self ovt 0 hself hwj hwt (equiv_refl self hself) he)

-- non-vacuity: the same document in two key orders
example : Equiv (.obj [("b", .num "1"), ("a", .null)]) (.obj [("a", .null), ("b", .num "1")]) := by
  rw [Equiv.eq_6, equivFields_iff]
  refine ⟨?_, ?_⟩
  · intro k
    simp only [keys, List.map_cons, List.map_nil, List.mem_cons, List.not_mem_nil, or_false]
    exact Or.comm
  · intro kv hkv
    simp only [List.mem_cons, List.not_mem_nil, or_false] at hkv
    rcases hkv with rfl | rfl
    · exact ⟨.num "1", rfl, by rw [Equiv.eq_3]⟩
    · exact ⟨.null, rfl, by rw [Equiv.eq_1]; trivial⟩

end C2pa.C25
