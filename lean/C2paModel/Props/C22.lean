import C2paModel.Model.C22
/-
C22 — property theorems. The statement (properties.jsonl):

  Restoring a builder from an archive it wrote and signing it produces the same reported
  manifest content (title, assertions, ingredients with their validation results, resources,
  redactions) as signing the original builder.

`content` below is what `Builder::sign` puts into the claim and the report shows (title, claim
version, generators, thumbnail, redactions, ingredients with their stores and captured results,
the assertions — label, payload, kind, created/gathered — in claim order, hash algorithm);
instance numbers are numbering, not content (`content_of_signInput` ties it to the model's
`signInput`). Equal content ⇒ equal reported content (C03 `report_reflects_definition`).

* `archive_roundtrip_partial` — for every builder state whose assertion labels survive the
  report filter (`WF`: no hard-binding label, no `org.contentauth.archive.metadata…` label), whose
  claim version is 1 or 2 and which sets no `hash_alg`, for every fresh guid:
  `content (decode (encode s g)) = content s` — title, generators, thumbnail, redactions,
  ingredients (with their manifest stores and captured validation results), assertions (labels,
  payloads, kinds, created/gathered, instance numbers) are all preserved.
* `ArchiveRoundtripFull` (the same without the `hash_alg` and label conditions) is false:
  `archive_roundtrip_full_false` — `hash_alg` is not restored (`into_builder` never sets it);
  `reserved_label_dropped` — a user assertion labelled like the archive bookkeeping is dropped.
  Both witnesses are replayed on the implementation by the harness (the first one holds there
  too and is reported as such; see the harness notes).
* `restored_is_fixed_point` / `chain_eq_one` / `archive_chain` — a second save/restore is the
  identity on the restored *record* (not only on its signing input), so chains of any length
  ≥ 1 give the signing input of the original.
-/
namespace C2pa.C22
open C2pa.C03

theorem normLabel_idem (l : String) : normLabel (normLabel l) = normLabel l := by
  unfold normLabel
  by_cases h : (l == "c2pa.actions") = true
  · simp [h]
  · simp [h]

theorem markGens_idem (gs : List Gen) : markGens (markGens gs) = markGens gs := by
  cases gs with
  | nil => rfl
  | cons g t => rfl

/-- what `to_claim` makes of one assertion definition in a version-`v` claim -/
def norm (v : Nat) (a : BAsn) : BAsn :=
  { a with label := normLabel a.label
           created := a.created && decide (v ≥ 2) && !alwaysGathered (normLabel a.label) }

/-- claim order of assertion contents -/
def asnOrder (v : Nat) (as : List BAsn) : List BAsn :=
  if v ≥ 2 then as.filter (·.created) ++ as.filter (fun a => !a.created) else as

/-- the user assertions among store entries, instance numbers dropped -/
def asnsOf : List Entry → List BAsn
  | [] => []
  | .user a _ :: es => a :: asnsOf es
  | _ :: es => asnsOf es

theorem norm_idem (v : Nat) (a : BAsn) : norm v (norm v a) = norm v a := by
  unfold norm
  simp only [normLabel_idem]
  cases a.created <;> cases decide (v ≥ 2) <;> cases alwaysGathered (normLabel a.label) <;> rfl

theorem asnsOf_number (v : Nat) (as : List BAsn) (seen : List (String × Nat)) :
    asnsOf (numberAsns v as seen) = as.map (norm v) := by
  induction as generalizing seen with
  | nil => rfl
  | cons a t ih => simp only [numberAsns, asnsOf, List.map_cons, ih]; rfl

theorem asnsOf_append (l r : List Entry) : asnsOf (l ++ r) = asnsOf l ++ asnsOf r := by
  induction l with
  | nil => rfl
  | cons e t ih => cases e <;> simp [asnsOf, ih]

theorem asnsOf_filter_created (es : List Entry) :
    asnsOf (es.filter entryCreated) = (asnsOf es).filter (·.created) := by
  induction es with
  | nil => rfl
  | cons e t ih =>
    cases e with
    | user a i =>
      by_cases h : a.created = true
      · rw [List.filter_cons_of_pos (by exact h)]
        simp only [asnsOf]
        rw [List.filter_cons_of_pos (by exact h), ih]
      · rw [List.filter_cons_of_neg (by exact h)]
        simp only [asnsOf]
        rw [List.filter_cons_of_neg (by exact h), ih]
    | thumb f b => rw [List.filter_cons_of_neg (by simp [entryCreated])]; simpa [asnsOf] using ih
    | ingredient i => rw [List.filter_cons_of_neg (by simp [entryCreated])]; simpa [asnsOf] using ih
    | archiveMeta => rw [List.filter_cons_of_neg (by simp [entryCreated])]; simpa [asnsOf] using ih
    | boxHash => rw [List.filter_cons_of_neg (by simp [entryCreated])]; simpa [asnsOf] using ih

/-- `!entryCreated` -/
def entryGathered (e : Entry) : Bool := !entryCreated e

theorem asnsOf_filter_gathered (es : List Entry) :
    asnsOf (es.filter fun e => !entryCreated e) = (asnsOf es).filter (fun a => !a.created) := by
  show asnsOf (es.filter entryGathered) = _
  induction es with
  | nil => rfl
  | cons e t ih =>
    cases e with
    | user a i =>
      by_cases h : a.created = true
      · have hg : entryGathered (.user a i) = false := by simp [entryGathered, entryCreated, h]
        rw [List.filter_cons_of_neg (by simp [hg])]
        simp only [asnsOf]
        rw [List.filter_cons_of_neg (by simp [h]), ih]
      · have hg : entryGathered (.user a i) = true := by simp [entryGathered, entryCreated, h]
        rw [List.filter_cons_of_pos hg]
        simp only [asnsOf]
        rw [List.filter_cons_of_pos (by simp [h]), ih]
    | thumb f b => rw [List.filter_cons_of_pos (by simp [entryGathered, entryCreated])]; simpa [asnsOf] using ih
    | ingredient i => rw [List.filter_cons_of_pos (by simp [entryGathered, entryCreated])]; simpa [asnsOf] using ih
    | archiveMeta => rw [List.filter_cons_of_pos (by simp [entryGathered, entryCreated])]; simpa [asnsOf] using ih
    | boxHash => rw [List.filter_cons_of_pos (by simp [entryGathered, entryCreated])]; simpa [asnsOf] using ih

theorem asnsOf_claimOrder (v : Nat) (es : List Entry) :
    asnsOf (claimOrder v es) = asnOrder v (asnsOf es) := by
  unfold claimOrder asnOrder
  by_cases h : v ≥ 2
  · simp only [h, if_true, asnsOf_append, asnsOf_filter_created, asnsOf_filter_gathered]
  · simp only [h, if_false]

theorem decodeEntries_eq (es : List Entry) :
    decodeEntries es = (asnsOf es).filter (fun a => keptLabel a.label) := by
  induction es with
  | nil => rfl
  | cons e t ih =>
    cases e with
    | user a i =>
      simp only [decodeEntries, asnsOf, List.filter_cons]
      cases keptLabel a.label <;> simp [ih]
    | _ => simp [decodeEntries, asnsOf, ih]

theorem entryIngs_eq_nil_of_user (es : List Entry) (h : ∀ e ∈ es, ∃ a i, e = .user a i) :
    entryIngs es = [] := by
  induction es with
  | nil => rfl
  | cons e t ih =>
    obtain ⟨a, i, rfl⟩ := h e (by simp)
    simp only [entryIngs]
    exact ih (fun e he => h e (by simp [he]))

theorem number_all_user (v : Nat) (as : List BAsn) (seen : List (String × Nat)) :
    ∀ e ∈ numberAsns v as seen, ∃ a i, e = .user a i := by
  induction as generalizing seen with
  | nil => intro e he; simp [numberAsns] at he
  | cons a t ih =>
    intro e he
    simp only [numberAsns, List.mem_cons] at he
    rcases he with rfl | he
    · exact ⟨_, _, rfl⟩
    · exact ih _ e he

theorem claimOrder_all_user (v : Nat) (es : List Entry) (h : ∀ e ∈ es, ∃ a i, e = .user a i) :
    ∀ e ∈ claimOrder v es, ∃ a i, e = .user a i := by
  intro e he
  unfold claimOrder at he
  by_cases hv : v ≥ 2
  · simp only [hv, if_true, List.mem_append, List.mem_filter] at he
    rcases he with he | he <;> exact h e he.1
  · simp only [hv, if_false] at he
    exact h e he

theorem entryIngs_append (l r : List Entry) : entryIngs (l ++ r) = entryIngs l ++ entryIngs r := by
  induction l with
  | nil => rfl
  | cons e t ih => cases e <;> simp [entryIngs, ih]

theorem entryIngs_map (is : List Ing) : entryIngs (is.map Entry.ingredient) = is := by
  induction is with
  | nil => rfl
  | cons i t ih => simp [entryIngs, ih]

theorem asnsOf_ings (is : List Ing) : asnsOf (is.map Entry.ingredient) = [] := by
  induction is with
  | nil => rfl
  | cons i t ih => simp [asnsOf, ih]

theorem entryThumb_noThumb (l : List Entry) (h : ∀ e ∈ l, ∀ f b, e ≠ .thumb f b) :
    entryThumb l = none := by
  induction l with
  | nil => rfl
  | cons e t ih =>
    cases e with
    | thumb f b => exact absurd rfl (h _ (by simp) f b)
    | _ => simp only [entryThumb]; exact ih (fun e he => h e (by simp [he]))

/-- every assertion label survives the report filter -/
def WF (s : BState) : Prop := ∀ a ∈ s.assertions, keptLabel (normLabel a.label) = true

/-- the content of a builder state (see the header) -/
structure Content where
  title : Option String
  version : Nat
  generators : List Gen
  thumbnail : Option (String × String)
  redactions : Option (List String)
  ingredients : List Ing
  assertions : List BAsn
  alg : Option String
  deriving DecidableEq, Repr

def content (s : BState) : Content :=
  { title := s.title, version := s.v, generators := markGens s.generators
    thumbnail := s.thumbnail, redactions := s.redactions, ingredients := s.ingredients
    assertions := asnOrder s.v (s.assertions.map (norm s.v)), alg := s.hashAlg }

/-- `content` is the model's signing input with the instance numbers dropped -/
theorem content_of_signInput (s : BState) :
    content s = { title := (signInput s).title, version := (signInput s).version
                  generators := (signInput s).generators, thumbnail := (signInput s).thumbnail
                  redactions := (signInput s).redactions, ingredients := (signInput s).ingredients
                  assertions := asnsOf (signInput s).assertions, alg := (signInput s).alg } := by
  unfold content signInput
  simp only [asnsOf_claimOrder, asnsOf_number]

/-- the restored record, field by field -/
theorem decode_encode (s : BState) (g : String) (hwf : WF s) :
    decode (encode s g) =
      { title := s.title
        format := if s.v ≥ 2 then "" else s.format
        version := match claimLabel s g with | .gen true _ _ => some 1 | _ => none
        label := some (claimLabel s g)
        vendor := match claimLabel s g with | .gen _ v _ => v | .other _ => none
        generators := markGens s.generators
        thumbnail := s.thumbnail
        redactions := s.redactions
        ingredients := s.ingredients
        assertions := asnOrder s.v (s.assertions.map (norm s.v))
        hashAlg := none
        instanceId := s.instanceId } := by
  have huser := claimOrder_all_user s.v _ (number_all_user s.v s.assertions [])
  unfold decode encode
  simp only
  congr 1
  · split <;> simp
  · -- thumbnail
    cases ht : s.thumbnail with
    | none =>
      simp only [List.nil_append]
      apply entryThumb_noThumb
      intro e he f b
      simp only [List.mem_append, List.mem_map, List.mem_cons, List.mem_nil_iff, or_false] at he
      rcases he with (⟨i, _, rfl⟩ | he) | rfl | rfl
      · intro h; cases h
      · obtain ⟨a, i, rfl⟩ := huser e he
        intro h; cases h
      · intro h; cases h
      · intro h; cases h
    | some fb => obtain ⟨f, b⟩ := fb; rfl
  · -- ingredients
    simp only [entryIngs_append, entryIngs_map, entryIngs_eq_nil_of_user _ huser]
    cases s.thumbnail with
    | none => simp [entryIngs]
    | some fb => simp [entryIngs]
  · -- assertions
    rw [decodeEntries_eq]
    have hkept : (asnOrder s.v (s.assertions.map (norm s.v))).filter (fun a => keptLabel a.label) =
        asnOrder s.v (s.assertions.map (norm s.v)) := by
      apply List.filter_eq_self.2
      intro a ha
      have : a ∈ s.assertions.map (norm s.v) := by
        unfold asnOrder at ha
        by_cases hv : s.v ≥ 2
        · simp only [hv, if_true, List.mem_append, List.mem_filter] at ha
          rcases ha with ha | ha <;> exact ha.1
        · simp only [hv, if_false] at ha; exact ha
      obtain ⟨b, hb, rfl⟩ := List.mem_map.1 this
      exact hwf b hb
    cases s.thumbnail with
    | none =>
      simp only [List.nil_append, asnsOf_append, asnsOf_ings, asnsOf_claimOrder, asnsOf_number,
        asnsOf, List.append_nil]
      exact hkept
    | some fb =>
      simp only [asnsOf_append, asnsOf_ings, asnsOf_claimOrder, asnsOf_number, asnsOf,
        List.append_nil, List.nil_append]
      exact hkept

theorem filter_created_order (v : Nat) (l : List BAsn) :
    asnOrder v (asnOrder v l) = asnOrder v l := by
  unfold asnOrder
  by_cases hv : v ≥ 2
  · simp only [hv, if_true]
    have hA : ∀ a ∈ l.filter (·.created), a.created = true := fun a ha => (List.mem_filter.1 ha).2
    have hB : ∀ a ∈ l.filter (fun a => !a.created), a.created = false := by
      intro a ha
      have := (List.mem_filter.1 ha).2
      simpa using this
    have e1 : (l.filter (·.created)).filter (·.created) = l.filter (·.created) :=
      List.filter_eq_self.2 hA
    have e2 : (l.filter (fun a => !a.created)).filter (·.created) = [] :=
      List.filter_eq_nil_iff.2 (fun a ha => by simp [hB a ha])
    have e3 : (l.filter (·.created)).filter (fun a => !a.created) = [] :=
      List.filter_eq_nil_iff.2 (fun a ha => by simp [hA a ha])
    have e4 : (l.filter (fun a => !a.created)).filter (fun a => !a.created) =
        l.filter (fun a => !a.created) := List.filter_eq_self.2 (fun a ha => by simp [hB a ha])
    rw [List.filter_append, List.filter_append, e1, e2, e3, e4]
    simp
  · simp [hv]

theorem map_norm_order (v : Nat) (l : List BAsn) :
    (asnOrder v (l.map (norm v))).map (norm v) = asnOrder v (l.map (norm v)) := by
  have : ∀ a ∈ asnOrder v (l.map (norm v)), norm v a = a := by
    intro a ha
    have : a ∈ l.map (norm v) := by
      unfold asnOrder at ha
      by_cases hv : v ≥ 2
      · simp only [hv, if_true, List.mem_append, List.mem_filter] at ha
        rcases ha with ha | ha <;> exact ha.1
      · simp only [hv, if_false] at ha; exact ha
    obtain ⟨b, _, rfl⟩ := List.mem_map.1 this
    exact norm_idem v b
  conv => rhs; rw [← List.map_id (asnOrder v (l.map (norm v)))]
  exact List.map_congr_left this

/-- The full statement: every builder state survives the archive round trip. -/
def ArchiveRoundtripFull : Prop :=
  ∀ (s : BState) (g : String), (s.v = 1 ∨ s.v = 2) → s.label = none →
    content (decode (encode s g)) = content s

theorem restored_v (s : BState) (g : String) (hv : s.v = 1 ∨ s.v = 2) (hl : s.label = none) :
    (match claimLabel s g with | .gen true _ _ => some 1 | _ => (none : Option Nat)).getD 2 = s.v := by
  unfold claimLabel
  rw [hl]
  rcases hv with hv | hv
  · have : (s.v == 1) = true := by simp [hv]
    simp [this, hv]
  · have : (s.v == 1) = false := by simp [hv]
    simp [this, hv]

/-- **archive_roundtrip (partial: no `hash_alg`, no reserved labels).** -/
theorem archive_roundtrip_partial (s : BState) (g : String) (hwf : WF s) (hv : s.v = 1 ∨ s.v = 2)
    (hl : s.label = none) (halg : s.hashAlg = none) :
    content (decode (encode s g)) = content s := by
  rw [decode_encode s g hwf]
  unfold content
  simp only [BState.v, markGens_idem, halg]
  have hvv := restored_v s g hv hl
  unfold BState.v at hvv
  rw [hvv]
  rw [map_norm_order, filter_created_order]

example : WF ⟨some "t", "f", some 1, none, none, [⟨"g", false⟩], some ("f", "b"), none,
    [⟨"i", "f", "componentOf", "x", none, some "store", some "results", none⟩],
    [⟨"c2pa.actions", "d", false, true⟩, ⟨"org.x", "e", true, false⟩], none, "i"⟩ := by
  intro a ha
  simp at ha
  rcases ha with rfl | rfl <;> decide

/-- `hash_alg` is not restored: the witness. -/
theorem archive_roundtrip_full_false : ¬ ArchiveRoundtripFull := by
  intro h
  have := h ⟨none, "f", none, none, none, [], none, none, [], [], some "sha512", "i"⟩ "g"
    (Or.inr rfl) rfl
  simp [content, decode, encode] at this

/-- a user assertion whose label starts like the archive bookkeeping is dropped -/
theorem reserved_label_dropped :
    (decode (encode ⟨none, "f", none, none, none, [], none, none, [],
      [⟨"org.contentauth.archive.metadata.mine", "d", true, false⟩], none, "i"⟩ "g")).assertions = [] := by
  decide

theorem wf_restored (s : BState) (g : String) (hwf : WF s) : WF (decode (encode s g)) := by
  rw [decode_encode s g hwf]
  intro a ha
  simp only at ha
  have : a ∈ s.assertions.map (norm s.v) := by
    unfold asnOrder at ha
    by_cases hv : s.v ≥ 2
    · simp only [hv, if_true, List.mem_append, List.mem_filter] at ha
      rcases ha with ha | ha <;> exact ha.1
    · simp only [hv, if_false] at ha; exact ha
  obtain ⟨b, hb, rfl⟩ := List.mem_map.1 this
  show keptLabel (normLabel (normLabel b.label)) = true
  rw [normLabel_idem]
  exact hwf b hb

/-- A restored builder is a fixed point of save/restore (as a record). -/
theorem restored_is_fixed_point (s : BState) (g g' : String) (hwf : WF s)
    (hv : s.v = 1 ∨ s.v = 2) (hl : s.label = none) :
    decode (encode (decode (encode s g)) g') = decode (encode s g) := by
  rw [decode_encode _ g' (wf_restored s g hwf), decode_encode s g hwf]
  have key : ∀ v, asnOrder v ((asnOrder v (s.assertions.map (norm v))).map (norm v)) =
      asnOrder v (s.assertions.map (norm v)) := by
    intro v; rw [map_norm_order, filter_created_order]
  rcases hv with hv | hv
  · have hv' : s.version.getD 2 = 1 := hv
    simp [claimLabel, hl, BState.v, hv', markGens_idem, key]
  · have hv' : s.version.getD 2 = 2 := hv
    simp [claimLabel, hl, BState.v, hv', markGens_idem, key]

/-- **Chains**: any number ≥ 1 of save/restore steps gives the record of a single step. -/
theorem chain_eq_one (s : BState) (g : String) (gs : List String) (hwf : WF s)
    (hv : s.v = 1 ∨ s.v = 2) (hl : s.label = none) :
    chain (g :: gs) s = decode (encode s g) := by
  show chain gs (decode (encode s g)) = _
  induction gs with
  | nil => rfl
  | cons g' t ih =>
    show chain t (decode (encode (decode (encode s g)) g')) = _
    rw [restored_is_fixed_point s g g' hwf hv hl, ih]

/-- **archive_chain**: a chain of any length ≥ 1 preserves the content. -/
theorem archive_chain (s : BState) (g : String) (gs : List String) (hwf : WF s)
    (hv : s.v = 1 ∨ s.v = 2) (hl : s.label = none) (halg : s.hashAlg = none) :
    content (chain (g :: gs) s) = content s := by
  rw [chain_eq_one s g gs hwf hv hl]
  exact archive_roundtrip_partial s g hwf hv hl halg

end C2pa.C22
