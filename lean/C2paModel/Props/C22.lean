import C2paModel.Model.C22
/-
C22 — property theorems. The statement (properties.jsonl):

  Restoring a builder from an archive it wrote and signing it produces the same reported
  manifest content (title, assertions, ingredients with their validation results, resources,
  redactions) as signing the original builder.

The objects (Model/C22.lean): `sign cfg src s g` is `Builder::sign` read back, `report` what the
`Reader` shows of it (title, claim version, generators, claim thumbnail, applied redactions,
ingredients with active manifest / validation results / validation status / the image their
thumbnail resolves to, the assertions with label, instance number, payload, kind and
created-or-gathered in claim order, the ingredient manifests carried in the store, hash
algorithm, where the manifest lives). `encode` / `decode` are `to_archive` / `with_archive`.

Positive theorems (all hypotheses are conditions on the *input* builder state and settings):
* `archive_roundtrip` — one save/restore step, any ingredients: under `WF` the archive is
  written, both builders sign, and the two reports agree field by field (`ReportEq`: all fields
  equal, the carried ingredient manifests as sets).
* `assertions_roundtrip` — the assertion part alone at full strength, with instance numbers:
  needs only kept labels and `Sep` (assertions whose labels contain one another sit in the same
  created/gathered class).
* `archive_chain_plain` — chains of any length for builders whose ingredients carry no
  manifest store; `chain_examples_*` — kernel-evaluated chains 1–3 for the fixture shapes of
  manifest-carrying ingredients (one manifest; two linked by `c2pa_manifest`; three).

The unrestricted statement is false of the code. Each restriction of `WF` has a proved witness,
replayed on the implementation by the harness:
* `hash_alg_not_restored`, `embedding_mode_not_restored` (remote_url / no_embed),
  `reserved_prefix_not_restored` (label prefixes routed away by `from_store`),
* `redaction_resign_fails` (a builder with a redaction cannot be signed after a round trip),
* `settings_actions_duplicated` (settings-driven actions / templates are appended once per
  `to_claim`: a chain of n gives n+1 copies), `chain_payload_stable` its positive counterpart,
* `instance_numbers_swap` (without `Sep` instance numbers move between assertions),
* `v1_ingredient_thumbnail_lost`, `user_ingredient_thumbnail_replaced` (ingredient thumbnails),
* `edit_intent_archive_fails` (an Edit intent without parent: signs, but cannot be archived),
* `orphan_manifest_dropped` (a manifest of an ingredient store that the walk does not reach).
-/
namespace C2pa.C22

deriving instance DecidableEq for Except

/-! ### labels and kinds -/

theorem isActions_v2 : isActions "c2pa.actions.v2" = true := by decide

theorem normLabel_idem (l : String) : normLabel (normLabel l) = normLabel l := by
  unfold normLabel
  by_cases h : isActions l = true
  · simp [h, isActions_v2]
  · simp [h]

theorem normLabel_of_not_actions {l : String} (h : isActions l = false) : normLabel l = l := by
  simp [normLabel, h]

/-- what `from_store` makes of the kind -/
def fix (a : BAsn) : BAsn := { a with json := reportKind a.label a.json }

/-- one assertion definition as the report of a version-`v` claim shows it -/
def N (v : Nat) (a : BAsn) : BAsn := fix (norm v a)

theorem fix_idem (a : BAsn) : fix (fix a) = fix a := by
  unfold fix reportKind
  by_cases h : (classify a.label == Part.metadata) = true <;> simp [h]

theorem classify_v2 : classify "c2pa.actions.v2" = Part.actions := by decide

theorem typed_not_actions {l : String}
    (h : (l == "stds.schema-org.CreativeWork" || l == "stds.exif" || l == "c2pa.metadata") = true) :
    isActions l = false := by
  simp only [Bool.or_eq_true, beq_iff_eq] at h
  rcases h with (rfl | rfl) | rfl <;> decide

/-- `to_claim` leaves a reported assertion as it is -/
theorem norm_N (v : Nat) (a : BAsn) : norm v (N v a) = N v a := by
  unfold N fix norm
  simp only [normLabel_idem]
  by_cases ha : isActions a.label = true
  · -- actions: label c2pa.actions.v2, kind CBOR
    have hl : normLabel a.label = "c2pa.actions.v2" := by simp [normLabel, ha]
    simp only [hl, typedKind, ha, isActions_v2, if_true, reportKind, classify_v2]
    cases a.created <;> cases decide (v ≥ 2) <;> simp <;> decide
  · have ha' : isActions a.label = false := by simpa using ha
    have hl : normLabel a.label = a.label := normLabel_of_not_actions ha'
    simp only [hl]
    by_cases ht : (a.label == "stds.schema-org.CreativeWork" || a.label == "stds.exif" ||
        a.label == "c2pa.metadata") = true
    · simp only [typedKind, ha', ht, if_true, reportKind]
      by_cases hm : (classify a.label == Part.metadata) = true
      · simp [hm]
        cases a.created <;> cases decide (v ≥ 2) <;> cases alwaysGathered a.label <;> rfl
      · simp [hm]
        cases a.created <;> cases decide (v ≥ 2) <;> cases alwaysGathered a.label <;> rfl
    · have ht' : (a.label == "stds.schema-org.CreativeWork" || a.label == "stds.exif" ||
          a.label == "c2pa.metadata") = false := by simpa using ht
      simp only [typedKind, ha', ht', reportKind]
      simp
      cases a.created <;> cases decide (v ≥ 2) <;> cases alwaysGathered a.label <;> rfl

theorem fix_N (v : Nat) (a : BAsn) : fix (N v a) = N v a := fix_idem _

theorem N_label (v : Nat) (a : BAsn) : (N v a).label = normLabel a.label := rfl

/-! ### numbering and claim order -/

/-- numbering of (already normalised) assertions, as pairs -/
def numP : List BAsn → List (String × Nat) → List (BAsn × Nat)
  | [], _ => []
  | a :: as, seen =>
    let i := instOf seen a.label
    (a, i) :: numP as (seen ++ [(a.label, i)])

/-- the user assertions among entries with their instance numbers -/
def usersOf : List Entry → List (BAsn × Nat)
  | [] => []
  | .user a k :: es => (a, k) :: usersOf es
  | _ :: es => usersOf es

def pairOrder (v : Nat) (ps : List (BAsn × Nat)) : List (BAsn × Nat) :=
  if v ≥ 2 then ps.filter (fun q => q.1.created) ++ ps.filter (fun q => !q.1.created) else ps

def asnOrder (v : Nat) (as : List BAsn) : List BAsn :=
  if v ≥ 2 then as.filter (·.created) ++ as.filter (fun a => !a.created) else as

theorem usersOf_number (as : List BAsn) (seen : List (String × Nat)) :
    usersOf (numberAsns as seen) = numP as seen := by
  induction as generalizing seen with
  | nil => rfl
  | cons a t ih => simp only [numberAsns, usersOf, numP, ih]

theorem usersOf_append (l r : List Entry) : usersOf (l ++ r) = usersOf l ++ usersOf r := by
  induction l with
  | nil => rfl
  | cons e t ih => cases e <;> simp [usersOf, ih]

theorem usersOf_filter_created (es : List Entry) :
    usersOf (es.filter entryCreated) = (usersOf es).filter (fun q => q.1.created) := by
  induction es with
  | nil => rfl
  | cons e t ih =>
    cases e with
    | user a i =>
      by_cases h : a.created = true
      · rw [List.filter_cons_of_pos (by exact h)]
        simp only [usersOf]
        rw [List.filter_cons_of_pos (by exact h), ih]
      · rw [List.filter_cons_of_neg (by exact h)]
        simp only [usersOf]
        rw [List.filter_cons_of_neg (by exact h), ih]
    | archiveMeta => rw [List.filter_cons_of_pos (by simp [entryCreated])]; simpa [usersOf] using ih
    | thumb f b => rw [List.filter_cons_of_neg (by simp [entryCreated])]; simpa [usersOf] using ih
    | ingredient i k => rw [List.filter_cons_of_neg (by simp [entryCreated])]; simpa [usersOf] using ih
    | boxHash => rw [List.filter_cons_of_neg (by simp [entryCreated])]; simpa [usersOf] using ih
    | dataHash => rw [List.filter_cons_of_neg (by simp [entryCreated])]; simpa [usersOf] using ih

/-- `!entryCreated` -/
def entryGathered (e : Entry) : Bool := !entryCreated e

theorem usersOf_filter_gathered (es : List Entry) :
    usersOf (es.filter fun e => !entryCreated e) = (usersOf es).filter (fun q => !q.1.created) := by
  show usersOf (es.filter entryGathered) = _
  induction es with
  | nil => rfl
  | cons e t ih =>
    cases e with
    | user a i =>
      by_cases h : a.created = true
      · have hg : entryGathered (.user a i) = false := by simp [entryGathered, entryCreated, h]
        rw [List.filter_cons_of_neg (by simp [hg])]
        simp only [usersOf]
        rw [List.filter_cons_of_neg (by simp [h]), ih]
      · have hg : entryGathered (.user a i) = true := by simp [entryGathered, entryCreated, h]
        rw [List.filter_cons_of_pos hg]
        simp only [usersOf]
        rw [List.filter_cons_of_pos (by simp [h]), ih]
    | archiveMeta => rw [List.filter_cons_of_neg (by simp [entryGathered, entryCreated])]; simpa [usersOf] using ih
    | thumb f b => rw [List.filter_cons_of_pos (by simp [entryGathered, entryCreated])]; simpa [usersOf] using ih
    | ingredient i k => rw [List.filter_cons_of_pos (by simp [entryGathered, entryCreated])]; simpa [usersOf] using ih
    | boxHash => rw [List.filter_cons_of_pos (by simp [entryGathered, entryCreated])]; simpa [usersOf] using ih
    | dataHash => rw [List.filter_cons_of_pos (by simp [entryGathered, entryCreated])]; simpa [usersOf] using ih

theorem usersOf_claimOrder (v : Nat) (es : List Entry) :
    usersOf (claimOrder v es) = pairOrder v (usersOf es) := by
  unfold claimOrder pairOrder
  by_cases h : v ≥ 2
  · simp only [h, if_true, usersOf_append, usersOf_filter_created, usersOf_filter_gathered]
  · simp only [h, if_false]

theorem numP_fst (as : List BAsn) (seen : List (String × Nat)) : (numP as seen).map (·.1) = as := by
  induction as generalizing seen with
  | nil => rfl
  | cons a t ih => simp [numP, ih]

theorem numP_mem (as : List BAsn) (seen : List (String × Nat)) :
    ∀ q ∈ numP as seen, q.1 ∈ as := by
  intro q hq
  have : q.1 ∈ (numP as seen).map (·.1) := List.mem_map_of_mem hq
  rwa [numP_fst] at this

/-- numbering only looks at labels: it commutes with any label-preserving rewrite -/
theorem numP_map (f : BAsn → BAsn) (hf : ∀ a, (f a).label = a.label) (as : List BAsn)
    (seen : List (String × Nat)) :
    numP (as.map f) seen = (numP as seen).map (fun q => (f q.1, q.2)) := by
  induction as generalizing seen with
  | nil => rfl
  | cons a t ih => simp [numP, hf, ih]

theorem numP_append (x y : List BAsn) (seen : List (String × Nat)) :
    numP (x ++ y) seen =
      numP x seen ++ numP y (seen ++ (numP x seen).map (fun q => (q.1.label, q.2))) := by
  induction x generalizing seen with
  | nil => simp [numP]
  | cons a t ih => simp [numP, ih, List.append_assoc]

/-- stored entries whose label contains `l` -/
def rel (l : String) (x : String × Nat) : Bool := infixOf l.toList x.1.toList

theorem instOf_congr {s₁ s₂ : List (String × Nat)} {l : String}
    (h : s₁.filter (rel l) = s₂.filter (rel l)) : instOf s₁ l = instOf s₂ l := by
  unfold instOf
  show (match (s₁.filter (rel l)).map (·.2) with | [] => 0 | i :: is => is.foldl max i + 1) =
    (match (s₂.filter (rel l)).map (·.2) with | [] => 0 | i :: is => is.foldl max i + 1)
  rw [h]

/-- The numbering of one created/gathered class does not see the other class, when no label of
the class is contained in a label of the other class. -/
theorem numP_filter (p : Bool) (X : List BAsn) (sA sC : List (String × Nat))
    (hrel : ∀ a ∈ X, a.created = p → sA.filter (rel a.label) = sC.filter (rel a.label))
    (hsep : ∀ a ∈ X, ∀ b ∈ X, a.created = p → b.created ≠ p →
      infixOf a.label.toList b.label.toList = false) :
    (numP X sA).filter (fun q => q.1.created == p) = numP (X.filter (fun a => a.created == p)) sC := by
  induction X generalizing sA sC with
  | nil => rfl
  | cons a t ih =>
    by_cases ha : a.created = p
    · have hi : instOf sA a.label = instOf sC a.label := instOf_congr (hrel a (by simp) ha)
      simp only [numP]
      rw [List.filter_cons_of_pos (by simp [ha]), List.filter_cons_of_pos (by simp [ha])]
      simp only [numP, hi]
      congr 1
      apply ih
      · intro b hb hbp
        simp only [List.filter_append]
        rw [hrel b (by simp [hb]) hbp]
      · intro x hx y hy
        exact hsep x (by simp [hx]) y (by simp [hy])
    · simp only [numP]
      rw [List.filter_cons_of_neg (by simp [ha]), List.filter_cons_of_neg (by simp [ha])]
      apply ih
      · intro b hb hbp
        simp only [List.filter_append]
        rw [hrel b (by simp [hb]) hbp]
        have : infixOf b.label.toList a.label.toList = false :=
          hsep b (by simp [hb]) a (by simp) hbp ha
        simp [rel, this]
      · intro x hx y hy
        exact hsep x (by simp [hx]) y (by simp [hy])

/-- assertions whose labels contain one another sit in the same created/gathered class -/
def Sep (X : List BAsn) : Prop :=
  ∀ a ∈ X, ∀ b ∈ X, a.created ≠ b.created → infixOf a.label.toList b.label.toList = false

/-- **Numbering commutes with the created-first reordering** of a version-2 claim. -/
theorem numP_order (X : List BAsn) (hsep : Sep X) :
    numP (X.filter (·.created) ++ X.filter (fun a => !a.created)) [] =
      (numP X []).filter (fun q => q.1.created) ++ (numP X []).filter (fun q => !q.1.created) := by
  rw [numP_append]
  have hC := numP_filter true X [] [] (fun _ _ _ => rfl)
    (fun a ha b hb hap hbp => hsep a ha b hb (by rw [hap]; exact fun h => hbp h.symm))
  have hG := numP_filter false X []
    ([] ++ (numP (X.filter (·.created)) []).map (fun q => (q.1.label, q.2)))
    (by
      intro a ha hag
      simp only [List.filter_nil, List.nil_append]
      symm
      apply List.filter_eq_nil_iff.2
      intro x hx
      obtain ⟨q, hq, rfl⟩ := List.mem_map.1 hx
      have hqC : q.1 ∈ X.filter (·.created) := numP_mem _ _ q hq
      have hqX : q.1 ∈ X := (List.mem_filter.1 hqC).1
      have hqc : q.1.created = true := by simpa using (List.mem_filter.1 hqC).2
      have : infixOf a.label.toList q.1.label.toList = false :=
        hsep a ha q.1 hqX (by rw [hag, hqc]; decide)
      simp [rel, this])
    (fun a ha b hb hap hbp => hsep a ha b hb (by rw [hap]; exact fun h => hbp h.symm))
  have e1 : (fun a : BAsn => a.created == true) = (fun a => a.created) := by funext a; simp
  have e2 : (fun a : BAsn => a.created == false) = (fun a => !a.created) := by funext a; simp
  have e3 : (fun q : BAsn × Nat => q.1.created == true) = (fun q => q.1.created) := by funext a; simp
  have e4 : (fun q : BAsn × Nat => q.1.created == false) = (fun q => !q.1.created) := by funext a; simp
  rw [e1, e3] at hC
  rw [e2, e4] at hG
  rw [hC, hG]

theorem pairOrder_idem (v : Nat) (l : List (BAsn × Nat)) : pairOrder v (pairOrder v l) = pairOrder v l := by
  unfold pairOrder
  by_cases hv : v ≥ 2
  · simp only [hv, if_true]
    have hA : ∀ a ∈ l.filter (fun q => q.1.created), a.1.created = true :=
      fun a ha => (List.mem_filter.1 ha).2
    have hB : ∀ a ∈ l.filter (fun q => !q.1.created), a.1.created = false := by
      intro a ha
      have := (List.mem_filter.1 ha).2
      simpa using this
    have e1 : (l.filter (fun q => q.1.created)).filter (fun q => q.1.created) = l.filter (fun q => q.1.created) :=
      List.filter_eq_self.2 hA
    have e2 : (l.filter (fun q => !q.1.created)).filter (fun q => q.1.created) = [] :=
      List.filter_eq_nil_iff.2 (fun a ha => by simp [hB a ha])
    have e3 : (l.filter (fun q => q.1.created)).filter (fun q => !q.1.created) = [] :=
      List.filter_eq_nil_iff.2 (fun a ha => by simp [hA a ha])
    have e4 : (l.filter (fun q => !q.1.created)).filter (fun q => !q.1.created) =
        l.filter (fun q => !q.1.created) := List.filter_eq_self.2 (fun a ha => by simp [hB a ha])
    rw [List.filter_append, List.filter_append, e1, e2, e3, e4]
    simp
  · simp [hv]

/-- numbering a list that is already in claim order gives the claim order of the numbering -/
theorem numP_asnOrder (v : Nat) (X : List BAsn) (hsep : Sep X) :
    numP (asnOrder v X) [] = pairOrder v (numP X []) := by
  unfold asnOrder pairOrder
  by_cases hv : v ≥ 2
  · simp only [hv, if_true]
    exact numP_order X hsep
  · simp only [hv, if_false]

theorem pairOrder_map (v : Nat) (f : BAsn → BAsn) (hf : ∀ a, (f a).created = a.created)
    (l : List (BAsn × Nat)) :
    pairOrder v (l.map (fun q => (f q.1, q.2))) = (pairOrder v l).map (fun q => (f q.1, q.2)) := by
  unfold pairOrder
  by_cases hv : v ≥ 2
  · simp only [hv, if_true, List.map_append, List.filter_map]
    have e1 : ((fun q : BAsn × Nat => q.1.created) ∘ fun q : BAsn × Nat => (f q.1, q.2)) =
        fun q => q.1.created := by funext q; simp [hf]
    have e2 : ((fun q : BAsn × Nat => !q.1.created) ∘ fun q : BAsn × Nat => (f q.1, q.2)) =
        fun q => !q.1.created := by funext q; simp [hf]
    rw [e1, e2]
  · simp [hv]

theorem pairOrder_fst (v : Nat) (l : List (BAsn × Nat)) :
    (pairOrder v l).map (·.1) = asnOrder v (l.map (·.1)) := by
  unfold pairOrder asnOrder
  by_cases hv : v ≥ 2
  · simp only [hv, if_true, List.map_append, List.filter_map]
    rfl
  · simp [hv]

/-! ### the assertion part of the round trip -/

def fixP (q : BAsn × Nat) : BAsn × Nat := (fix q.1, q.2)

/-- the assertions as reported (label, instance, payload, kind, created; claim order) of a
version-`v` signing whose assertion definitions are `L` -/
def reportPairs (v : Nat) (L : List BAsn) : List (BAsn × Nat) :=
  (pairOrder v (numP (L.map (norm v)) [])).map fixP

/-- the assertion definitions a builder restored from the archive of `L` holds -/
def restoredAsns (v : Nat) (L : List BAsn) : List BAsn := asnOrder v (L.map (N v))

theorem asnOrder_mem {v : Nat} {Y : List BAsn} {a : BAsn} (h : a ∈ asnOrder v Y) : a ∈ Y := by
  unfold asnOrder at h
  by_cases hv : v ≥ 2
  · simp only [hv, if_true, List.mem_append, List.mem_filter] at h
    rcases h with h | h <;> exact h.1
  · simpa [hv] using h

theorem asnOrder_map_id (v : Nat) (Y : List BAsn) (f : BAsn → BAsn) (hf : ∀ y ∈ Y, f y = y) :
    (asnOrder v Y).map f = asnOrder v Y := by
  conv => rhs; rw [← List.map_id (asnOrder v Y)]
  exact List.map_congr_left (fun a ha => hf a (asnOrder_mem ha))

theorem Sep_map (f : BAsn → BAsn) (hl : ∀ a, (f a).label = a.label)
    (hc : ∀ a, (f a).created = a.created) (X : List BAsn) (h : Sep X) : Sep (X.map f) := by
  intro a ha b hb hab
  obtain ⟨a', ha', rfl⟩ := List.mem_map.1 ha
  obtain ⟨b', hb', rfl⟩ := List.mem_map.1 hb
  rw [hl, hl]
  exact h a' ha' b' hb' (by rw [hc, hc] at hab; exact hab)

theorem fixP_idem (q : BAsn × Nat) : fixP (fixP q) = fixP q := by
  unfold fixP
  simp [fix_idem]

/-- **assertions_roundtrip** — labels, instance numbers, payloads, kinds, created/gathered and
claim order of the assertions reported after a save/restore step are those reported for the
original definitions, whenever assertions whose labels contain one another are in the same
created/gathered class (`Sep`, on the labels and flags `to_claim` gives them). -/
theorem assertions_roundtrip (v : Nat) (L : List BAsn) (hsep : Sep (L.map (norm v))) :
    reportPairs v (restoredAsns v L) = reportPairs v L := by
  unfold reportPairs restoredAsns
  have hNN : (asnOrder v (L.map (N v))).map (norm v) = asnOrder v (L.map (N v)) := by
    apply asnOrder_map_id
    intro y hy
    obtain ⟨a, _, rfl⟩ := List.mem_map.1 hy
    exact norm_N v a
  rw [hNN]
  have hN : L.map (N v) = (L.map (norm v)).map fix := by simp [N, Function.comp]
  have hsepN : Sep (L.map (N v)) := by
    rw [hN]
    exact Sep_map fix (fun _ => rfl) (fun _ => rfl) _ hsep
  rw [numP_asnOrder v _ hsepN, pairOrder_idem, hN, numP_map fix (fun _ => rfl)]
  have : (fun q : BAsn × Nat => (fix q.1, q.2)) = fixP := rfl
  rw [this, show pairOrder v ((numP (L.map (norm v)) []).map fixP) =
      (pairOrder v (numP (L.map (norm v)) [])).map fixP from
    pairOrder_map v fix (fun _ => rfl) _]
  rw [List.map_map]
  congr 1
  funext q
  exact fixP_idem q

/-- Without `Sep` instance numbers move between assertions (`x.y` gathered, then `x.y`
created: directly signed the gathered one is `x.y`, the created one `x.y__1`; after a round trip
it is the other way round — a reference to `x.y__1` then names the other assertion). -/
theorem instance_numbers_swap :
    reportPairs 2 (restoredAsns 2 [⟨"x.y", "1", [], [], false, false⟩, ⟨"x.y", "2", [], [], false, true⟩]) ≠
      reportPairs 2 [⟨"x.y", "1", [], [], false, false⟩, ⟨"x.y", "2", [], [], false, true⟩] := by
  decide

example : Sep ([⟨"c2pa.actions", "", ["c2pa.created"], [], false, true⟩, ⟨"org.x", "e", [], [], true, false⟩,
    ⟨"org.x", "f", [], [], false, false⟩].map (norm 2)) := by
  intro a ha b hb hab
  simp at ha hb
  rcases ha with rfl | rfl | rfl <;> rcases hb with rfl | rfl | rfl <;> first | decide | exact absurd rfl hab

/-! ### settings and intent -/

theorem rewrite_noact (cfg : Cfg) (it : Option Intent) (hp : Bool) (L : List BAsn) (allow : Bool)
    (h : ∀ a ∈ L, isActions a.label = false) : rewriteAsns cfg it hp L allow = .ok L := by
  induction L generalizing allow with
  | nil => rfl
  | cons a t ih =>
    have ha : isActions a.label = false := h a (by simp)
    simp only [rewriteAsns, ha, Bool.false_eq_true, if_false]
    rw [ih allow (fun b hb => h b (by simp [hb]))]

theorem actionsSettings_plain (cfg : Cfg) (hcfg : cfg.extraActions = [] ∧ cfg.templates = [])
    (hp : Bool) (acts tmpls : List String) :
    actionsSettings cfg none hp true acts tmpls = .ok (acts, tmpls) := by
  unfold actionsSettings
  simp only [hcfg.1, hcfg.2, List.append_nil, Bool.not_true, Bool.false_and, Bool.true_and]
  by_cases h : acts.any isInception = true <;> simp [h]

/-- at most one actions assertion -/
def OneActions (L : List BAsn) : Prop := (L.filter (fun a => isActions a.label)).length ≤ 1

theorem rewrite_plain (cfg : Cfg) (hcfg : cfg.extraActions = [] ∧ cfg.templates = []) (hp : Bool)
    (L : List BAsn) (h1 : OneActions L) : rewriteAsns cfg none hp L true = .ok L := by
  induction L with
  | nil => rfl
  | cons a t ih =>
    by_cases ha : isActions a.label = true
    · have ht : ∀ b ∈ t, isActions b.label = false := by
        intro b hb
        by_cases hb' : isActions b.label = true
        · exfalso
          unfold OneActions at h1
          rw [List.filter_cons_of_pos (by exact ha)] at h1
          have : b ∈ t.filter (fun a => isActions a.label) := List.mem_filter.2 ⟨hb, hb'⟩
          have hpos : 0 < (t.filter (fun a => isActions a.label)).length := List.length_pos_of_mem this
          simp only [List.length_cons] at h1
          omega
        · simpa using hb'
      simp only [rewriteAsns, ha, if_true, actionsSettings_plain cfg hcfg, rewrite_noact cfg none hp t false ht]
    · have ha' : isActions a.label = false := by simpa using ha
      have h1' : OneActions t := by
        unfold OneActions at h1 ⊢
        rw [List.filter_cons_of_neg (by simp [ha'])] at h1
        exact h1
      simp only [rewriteAsns, ha', Bool.false_eq_true, if_false, ih h1']

/-- without settings-driven additions and without an intent, `to_claim` takes the assertion
definitions as they are -/
theorem prep_plain (cfg : Cfg) (hcfg : cfg.extraActions = [] ∧ cfg.templates = []) (hp : Bool)
    (L : List BAsn) (h1 : OneActions L) : prepAsns cfg none hp L = .ok L := by
  unfold prepAsns
  rw [rewrite_plain cfg hcfg hp L h1]
  by_cases h : L.any (fun a => isActions a.label) = true
  · simp [h]
  · simp only [h, Bool.false_eq_true, if_false, actionsSettings_plain cfg hcfg]
    simp

theorem isActions_normLabel (l : String) : isActions (normLabel l) = isActions l := by
  unfold normLabel
  by_cases h : isActions l = true
  · simp [h, isActions_v2]
  · simp [h]

theorem OneActions_restored (v : Nat) (L : List BAsn) (h : OneActions L) :
    OneActions (restoredAsns v L) := by
  unfold OneActions restoredAsns asnOrder at *
  have hm : (L.map (N v)).filter (fun a => isActions a.label) =
      (L.filter (fun a => isActions a.label)).map (N v) := by
    rw [List.filter_map]
    congr 1
    congr 1
    funext a
    simp [Function.comp, N_label, isActions_normLabel]
  by_cases hv : v ≥ 2
  · simp only [hv, if_true, List.filter_append]
    rw [List.filter_filter, List.filter_filter]
    have hperm : ((L.map (N v)).filter (fun a => isActions a.label && a.created) ++
        (L.map (N v)).filter (fun a => isActions a.label && !a.created)).length =
        ((L.map (N v)).filter (fun a => isActions a.label)).length := by
      generalize L.map (N v) = M
      induction M with
      | nil => rfl
      | cons m t ih =>
        cases h1 : isActions m.label <;> cases h2 : m.created <;>
          simp [List.filter_cons, h1, h2] at ih ⊢ <;> omega
    rw [hperm, hm, List.length_map]
    exact h
  · simp only [hv, if_false]
    rw [hm, List.length_map]
    exact h

/-! ### projections of a claim's entries -/

def ingsOf : List Entry → List (IngA × Nat)
  | [] => []
  | .ingredient i k :: es => (i, k) :: ingsOf es
  | _ :: es => ingsOf es

def idxFrom : List IngA → Nat → List (IngA × Nat)
  | [], _ => []
  | a :: as, k => (a, k) :: idxFrom as (k + 1)

theorem ingsOf_append (l r : List Entry) : ingsOf (l ++ r) = ingsOf l ++ ingsOf r := by
  induction l with
  | nil => rfl
  | cons e t ih => cases e <;> simp [ingsOf, ih]

theorem ingsOf_filter_created (es : List Entry) : ingsOf (es.filter entryCreated) = [] := by
  induction es with
  | nil => rfl
  | cons e t ih =>
    cases e with
    | user a i =>
      by_cases h : a.created = true
      · rw [List.filter_cons_of_pos (by exact h)]; simpa [ingsOf] using ih
      · rw [List.filter_cons_of_neg (by exact h)]; exact ih
    | archiveMeta => rw [List.filter_cons_of_pos (by simp [entryCreated])]; simpa [ingsOf] using ih
    | thumb f b => rw [List.filter_cons_of_neg (by simp [entryCreated])]; exact ih
    | ingredient i k => rw [List.filter_cons_of_neg (by simp [entryCreated])]; exact ih
    | boxHash => rw [List.filter_cons_of_neg (by simp [entryCreated])]; exact ih
    | dataHash => rw [List.filter_cons_of_neg (by simp [entryCreated])]; exact ih

theorem ingsOf_filter_gathered (es : List Entry) :
    ingsOf (es.filter fun e => !entryCreated e) = ingsOf es := by
  show ingsOf (es.filter entryGathered) = _
  induction es with
  | nil => rfl
  | cons e t ih =>
    cases e with
    | user a i =>
      by_cases h : a.created = true
      · have hg : entryGathered (.user a i) = false := by simp [entryGathered, entryCreated, h]
        rw [List.filter_cons_of_neg (by simp [hg])]; simpa [ingsOf] using ih
      · have hg : entryGathered (.user a i) = true := by simp [entryGathered, entryCreated, h]
        rw [List.filter_cons_of_pos hg]; simpa [ingsOf] using ih
    | archiveMeta => rw [List.filter_cons_of_neg (by simp [entryGathered, entryCreated])]; simpa [ingsOf] using ih
    | thumb f b => rw [List.filter_cons_of_pos (by simp [entryGathered, entryCreated])]; simpa [ingsOf] using ih
    | ingredient i k => rw [List.filter_cons_of_pos (by simp [entryGathered, entryCreated])]; simpa [ingsOf] using ih
    | boxHash => rw [List.filter_cons_of_pos (by simp [entryGathered, entryCreated])]; simpa [ingsOf] using ih
    | dataHash => rw [List.filter_cons_of_pos (by simp [entryGathered, entryCreated])]; simpa [ingsOf] using ih

theorem ingsOf_claimOrder (v : Nat) (es : List Entry) : ingsOf (claimOrder v es) = ingsOf es := by
  unfold claimOrder
  by_cases h : v ≥ 2
  · simp only [h, if_true, ingsOf_append, ingsOf_filter_created, ingsOf_filter_gathered, List.nil_append]
  · simp only [h, if_false]

theorem entryThumb_filter_created (es : List Entry) : entryThumb (es.filter entryCreated) = none := by
  induction es with
  | nil => rfl
  | cons e t ih =>
    cases e with
    | user a i =>
      by_cases h : a.created = true
      · rw [List.filter_cons_of_pos (by exact h)]; simpa [entryThumb] using ih
      · rw [List.filter_cons_of_neg (by exact h)]; exact ih
    | archiveMeta => rw [List.filter_cons_of_pos (by simp [entryCreated])]; simpa [entryThumb] using ih
    | thumb f b => rw [List.filter_cons_of_neg (by simp [entryCreated])]; exact ih
    | ingredient i k => rw [List.filter_cons_of_neg (by simp [entryCreated])]; exact ih
    | boxHash => rw [List.filter_cons_of_neg (by simp [entryCreated])]; exact ih
    | dataHash => rw [List.filter_cons_of_neg (by simp [entryCreated])]; exact ih

theorem entryThumb_filter_gathered (es : List Entry) :
    entryThumb (es.filter fun e => !entryCreated e) = entryThumb es := by
  show entryThumb (es.filter entryGathered) = _
  induction es with
  | nil => rfl
  | cons e t ih =>
    cases e with
    | user a i =>
      by_cases h : a.created = true
      · have hg : entryGathered (.user a i) = false := by simp [entryGathered, entryCreated, h]
        rw [List.filter_cons_of_neg (by simp [hg])]; simpa [entryThumb] using ih
      · have hg : entryGathered (.user a i) = true := by simp [entryGathered, entryCreated, h]
        rw [List.filter_cons_of_pos hg]; simpa [entryThumb] using ih
    | archiveMeta => rw [List.filter_cons_of_neg (by simp [entryGathered, entryCreated])]; simpa [entryThumb] using ih
    | thumb f b => rw [List.filter_cons_of_pos (by simp [entryGathered, entryCreated])]; simp [entryThumb]
    | ingredient i k => rw [List.filter_cons_of_pos (by simp [entryGathered, entryCreated])]; simpa [entryThumb] using ih
    | boxHash => rw [List.filter_cons_of_pos (by simp [entryGathered, entryCreated])]; simpa [entryThumb] using ih
    | dataHash => rw [List.filter_cons_of_pos (by simp [entryGathered, entryCreated])]; simpa [entryThumb] using ih

theorem entryThumb_append_none (l r : List Entry) (h : entryThumb l = none) :
    entryThumb (l ++ r) = entryThumb r := by
  induction l with
  | nil => rfl
  | cons e t ih =>
    cases e with
    | thumb f b => simp [entryThumb] at h
    | _ => simp only [entryThumb] at h; simpa [entryThumb] using ih h

theorem entryThumb_claimOrder (v : Nat) (es : List Entry) :
    entryThumb (claimOrder v es) = entryThumb es := by
  unfold claimOrder
  by_cases h : v ≥ 2
  · simp only [h, if_true]
    rw [entryThumb_append_none _ _ (entryThumb_filter_created es), entryThumb_filter_gathered]
  · simp only [h, if_false]

theorem ingsOf_numberIngs (X : List IngA) (k : Nat) : ingsOf (numberIngs X k) = idxFrom X k := by
  induction X generalizing k with
  | nil => rfl
  | cons a t ih => simp [numberIngs, ingsOf, idxFrom, ih]

theorem usersOf_numberIngs (X : List IngA) (k : Nat) : usersOf (numberIngs X k) = [] := by
  induction X generalizing k with
  | nil => rfl
  | cons a t ih => simp [numberIngs, usersOf, ih]

theorem entryThumb_numberIngs (X : List IngA) (k : Nat) : entryThumb (numberIngs X k) = none := by
  induction X generalizing k with
  | nil => rfl
  | cons a t ih => simp [numberIngs, entryThumb, ih]

theorem ingsOf_numberAsns (as : List BAsn) (seen : List (String × Nat)) :
    ingsOf (numberAsns as seen) = [] := by
  induction as generalizing seen with
  | nil => rfl
  | cons a t ih => simp [numberAsns, ingsOf, ih]

theorem entryThumb_numberAsns (as : List BAsn) (seen : List (String × Nat)) :
    entryThumb (numberAsns as seen) = none := by
  induction as generalizing seen with
  | nil => rfl
  | cons a t ih => simp [numberAsns, entryThumb, ih]

theorem entryIngs_eq (v : Nat) (mans : List Man) (es : List Entry) :
    entryIngs v mans es = (ingsOf es).map (fun p => decodeIng v mans p.1 p.2) := by
  induction es with
  | nil => rfl
  | cons e t ih => cases e <;> simp [entryIngs, ingsOf, ih]

/-- an ingredient assertion as reported -/
def repIng (v : Nat) (p : IngA × Nat) : IngR :=
  { title := p.1.title, format := p.1.format, rel := p.1.rel, iid := p.1.iid, label := (ingLabel v, p.2)
    active := p.1.active, results := p.1.results, status := p.1.status
    thumb := p.1.thumb.map (locImg p.1.active) }

theorem reportIngs_eq (v : Nat) (es : List Entry) : reportIngs v es = (ingsOf es).map (repIng v) := by
  induction es with
  | nil => rfl
  | cons e t ih => cases e <;> simp [reportIngs, ingsOf, repIng, ih]

theorem decodeEntries_eq (es : List Entry) :
    decodeEntries es = ((usersOf es).filter (fun q => keptLabel q.1.label)).map (fun q => fix q.1) := by
  induction es with
  | nil => rfl
  | cons e t ih =>
    cases e with
    | user a i =>
      simp only [decodeEntries, usersOf, List.filter_cons]
      cases keptLabel a.label <;> simp [ih, fix]
    | _ => simp [decodeEntries, usersOf, ih]

theorem reportAsns_eq (es : List Entry) :
    reportAsns es = ((usersOf es).filter (fun q => shownLabel q.1.label)).map fixP := by
  induction es with
  | nil => rfl
  | cons e t ih =>
    cases e with
    | user a i =>
      simp only [reportAsns, usersOf, List.filter_cons]
      cases shownLabel a.label <;> simp [ih, fix, fixP]
    | _ => simp [reportAsns, usersOf, ih]

/-! ### the walk over an ingredient's manifests -/

/-- every collected manifest is the one the store holds under its label -/
def Looked (st acc : List Man) : Prop := ∀ x ∈ acc, findMan st x.label = some x

theorem findMan_some {st : List Man} {l : String} {m : Man} (h : findMan st l = some m) :
    m.label = l ∧ m ∈ st := by
  unfold findMan at h
  have h1 := List.find?_some h
  have h2 := List.mem_of_find?_eq_some h
  exact ⟨by simpa using h1, h2⟩

theorem collect_looked (st : List Man) : ∀ (fuel : Nat) (ls : List String) (acc : List Man),
    Looked st acc → Looked st (collect st fuel ls acc) := by
  intro fuel
  induction fuel with
  | zero => intro ls acc h; simpa [collect] using h
  | succ n ih =>
    intro ls
    induction ls with
    | nil => intro acc h; simpa [collect] using h
    | cons l t iht =>
      intro acc h
      simp only [collect, List.foldl_cons]
      have step : Looked st (if acc.any (fun m => m.label == l) then acc
          else match findMan st l with
            | none => acc
            | some m =>
              if (collect st n (m.links.map (·.2)) acc).any (fun x => x.label == l)
              then collect st n (m.links.map (·.2)) acc
              else collect st n (m.links.map (·.2)) acc ++ [m]) := by
        by_cases hany : acc.any (fun m => m.label == l) = true
        · simp only [hany, if_true]; exact h
        · simp only [hany, Bool.false_eq_true, if_false]
          cases hf : findMan st l with
          | none => exact h
          | some m =>
            have h' := ih (m.links.map (·.2)) acc h
            simp only
            by_cases hany' : (collect st n (m.links.map (·.2)) acc).any (fun x => x.label == l) = true
            · simp only [hany', if_true]; exact h'
            · simp only [hany', Bool.false_eq_true, if_false]
              intro x hx
              rcases List.mem_append.1 hx with hx | hx
              · exact h' x hx
              · have : x = m := by simpa using hx
                subst this
                rw [(findMan_some hf).1]; exact hf
      have := iht _ step
      simp only [collect] at this
      exact this

/-- the walk from `a` keeps the manifest the store holds under `a` -/
theorem findMan_flat_root (st : List Man) (a : String) (m : Man) (h : findMan st a = some m) :
    findMan (flatStore st a) a = some m := by
  unfold flatStore
  simp only [collect, List.foldl_cons, List.foldl_nil, List.any_nil, Bool.false_eq_true, if_false, h]
  have hl : Looked st (collect st st.length (m.links.map (·.2)) []) :=
    collect_looked st _ _ _ (fun x hx => by simp at hx)
  by_cases hany : (collect st st.length (m.links.map (·.2)) []).any (fun x => x.label == a) = true
  · simp only [hany, if_true]
    cases hf : findMan (collect st st.length (m.links.map (·.2)) []) a with
    | none =>
      exfalso
      unfold findMan at hf
      rw [List.find?_eq_none] at hf
      obtain ⟨x, hx, hxa⟩ := List.any_eq_true.1 hany
      exact hf x hx hxa
    | some x =>
      obtain ⟨hxl, hxm⟩ := findMan_some hf
      have := hl x hxm
      rw [hxl, h] at this
      exact this.symm ▸ rfl
  · simp only [hany, Bool.false_eq_true, if_false]
    unfold findMan
    rw [List.find?_append]
    have hnone : (collect st st.length (m.links.map (·.2)) []).find? (fun x => x.label == a) = none := by
      rw [List.find?_eq_none]
      intro x hx hxa
      exact hany (List.any_eq_true.2 ⟨x, hx, hxa⟩)
    rw [hnone]
    simp [(findMan_some h).1]

/-! ### one ingredient through a save/restore step -/

/-- `load_ingredient_to_claim` accepts the ingredient: it has no manifest store, or its active
manifest is in the store and not of a newer claim version than the builder's -/
def IngLoad (v : Nat) (i : Ing) : Prop := i.store = [] ∨ ∃ m, activeMan i = some m ∧ m.v ≤ v

/-- the thumbnail of a manifest-carrying ingredient survives the step: a plain resource never
does (`user_ingredient_thumbnail_replaced`), a hash-less reference to the ingredient's own claim
thumbnail only in a version-2 claim whose ingredient validated and has that thumbnail
(`v1_ingredient_thumbnail_lost`) -/
def ThumbOK (v : Nat) (i : Ing) : Prop :=
  i.store = [] ∨
    match i.thumb with
    | some (.res _) => False
    | some (.own false) => v ≥ 2 ∧ isValid i = true ∧ ∀ m, activeMan i = some m → m.thumb = true
    | _ => True

theorem activeMan_label {i : Ing} {m : Man} (h : activeMan i = some m) : i.active = some m.label := by
  unfold activeMan at h
  cases ha : i.active with
  | none => simp [ha] at h
  | some a =>
    simp only [ha] at h
    rw [(findMan_some h).1]

theorem findMan_nil (l : String) : findMan [] l = none := rfl

theorem activeMan_nil {i : Ing} (h : i.store = []) : activeMan i = none := by
  unfold activeMan
  cases i.active <;> simp [h, findMan_nil]

theorem flatStore_ne_nil (st : List Man) (a : String) (m : Man) (h : findMan st a = some m) :
    flatStore st a ≠ [] := by
  intro hnil
  have := findMan_flat_root st a m h
  rw [hnil] at this
  simp [findMan_nil] at this

/-- `thumbLoc` as a function of the fields it reads -/
def thumbLocF (v : Nat) (th : Option TRef) (act : Option String) (emp : Bool) (base : Option TLoc) :
    Option TLoc :=
  match th with
  | none => base
  | some (.res img) => some (rehome v img)
  | some (.own true) => some .ownClaim
  | some (.own false) => some (rehome v (ownImg (act.getD "")))
  | some (.outer img) => if emp then some (rehome v img) else base

theorem thumbLoc_eq (v : Nat) (i : Ing) :
    thumbLoc v i = thumbLocF v i.thumb i.active i.store.isEmpty (baseThumb i) := by
  unfold thumbLoc thumbLocF
  cases i.thumb with
  | none => rfl
  | some t => cases t with
    | res img => rfl
    | own h => cases h <;> rfl
    | outer img => rfl

/-- `from_ingredient_uri` on the thumbnail reference -/
def decT : Option TLoc → Option TRef
  | none => none
  | some .ownClaim => some (.own false)
  | some (.databox img) => some (.outer img)
  | some (.ingThumb img) => some (.outer img)

def baseOf (valid mt : Bool) : Option TLoc := if valid && mt then some .ownClaim else none

/-- thumbnails of an ingredient without manifest store: any reference survives -/
theorem thumb_step_nostore (v : Nat) (th : Option TRef) (act : Option String) :
    (thumbLocF v (decT (thumbLocF v th act true none)) none true none).map (locImg none) =
      (thumbLocF v th act true none).map (locImg none) ∨ act ≠ none := by
  cases act with
  | some a => right; simp
  | none =>
    left
    cases th with
    | none => rfl
    | some t =>
      cases t with
      | res img => by_cases hv : v < 2 <;> simp [thumbLocF, decT, rehome, hv, locImg]
      | own h => cases h <;> by_cases hv : v < 2 <;> simp [thumbLocF, decT, rehome, hv, locImg]
      | outer img => by_cases hv : v < 2 <;> simp [thumbLocF, decT, rehome, hv, locImg]

/-- thumbnails of a manifest-carrying ingredient with active manifest `l` -/
theorem thumb_step_store (v : Nat) (th : Option TRef) (l : String) (valid mt : Bool)
    (hok : match th with
      | some (.res _) => False
      | some (.own false) => v ≥ 2 ∧ valid = true ∧ mt = true
      | _ => True) :
    (thumbLocF v (decT (thumbLocF v th (some l) false (baseOf valid mt))) (some l) false
        (baseOf (decide (v ≥ 2) && valid) mt)).map (locImg (some l)) =
      (thumbLocF v th (some l) false (baseOf valid mt)).map (locImg (some l)) := by
  cases th with
  | none =>
    cases valid <;> cases mt <;> by_cases hv : v < 2 <;>
      simp [thumbLocF, decT, baseOf, rehome, hv, locImg]
  | some t =>
    cases t with
    | res img => exact absurd hok id
    | own h =>
      cases h with
      | true => by_cases hv : v < 2 <;> simp [thumbLocF, decT, rehome, hv, locImg]
      | false =>
        obtain ⟨hv2, rfl, rfl⟩ := hok
        have hv : ¬ v < 2 := by omega
        simp [thumbLocF, decT, baseOf, rehome, hv, locImg, hv2]
    | outer img =>
      cases valid <;> cases mt <;> by_cases hv : v < 2 <;>
        simp [thumbLocF, decT, baseOf, rehome, hv, locImg]

theorem decodeIng_thumb (v : Nat) (mans : List Man) (a : IngA) (k : Nat) :
    (decodeIng v mans a k).thumb = decT a.thumb := by
  unfold decodeIng decT
  cases a.thumb with
  | none => rfl
  | some t => cases t <;> rfl

/-- **One ingredient, one step**: what the restored builder writes for the ingredient is
reported like what the original writes — title, format, relationship, instance id, active
manifest, validation results (version-2 claim) / validation status (version-1 claim) and the
image the thumbnail resolves to — and the restored ingredient is accepted again. `mans` is the
archive's manifest collection; `hlook` says it holds the ingredient's active manifest. -/
theorem ing_step (v : Nat) (mans : List Man) (i : Ing) (k : Nat) (hload : IngLoad v i)
    (hth : ThumbOK v i) (hlook : ∀ m, activeMan i = some m → findMan mans m.label = some m) :
    repIng v (ingAssertion v (decodeIng v mans (ingAssertion v i) k), k) = repIng v (ingAssertion v i, k) ∧
      IngLoad v (decodeIng v mans (ingAssertion v i) k) := by
  have hres : (decodeIng v mans (ingAssertion v i) k).results = (if v ≥ 2 then i.results else none) := rfl
  have hsta : (decodeIng v mans (ingAssertion v i) k).status = (if v ≥ 2 then [] else i.status) := rfl
  have e1 : (if v ≥ 2 then (decodeIng v mans (ingAssertion v i) k).results else none) =
      (if v ≥ 2 then i.results else none) := by rw [hres]; by_cases hv : v ≥ 2 <;> simp [hv]
  have e2 : (if v ≥ 2 then [] else (decodeIng v mans (ingAssertion v i) k).status) =
      (if v ≥ 2 then [] else i.status) := by rw [hsta]; by_cases hv : v ≥ 2 <;> simp [hv]
  have hthumb : (decodeIng v mans (ingAssertion v i) k).thumb = decT (thumbLoc v i) :=
    decodeIng_thumb v mans _ k
  rcases hload with hnil | ⟨m, hm, hmv⟩
  · -- no manifest store
    have ham : activeMan i = none := activeMan_nil hnil
    have hbase : baseThumb i = none := by simp [baseThumb, ham]
    have hst : (decodeIng v mans (ingAssertion v i) k).store = [] := by
      simp [decodeIng, ingAssertion, ham]
    have hact' : (decodeIng v mans (ingAssertion v i) k).active = none := by
      simp [decodeIng, ingAssertion, ham]
    have ham' : activeMan (decodeIng v mans (ingAssertion v i) k) = none := activeMan_nil hst
    have hbase' : baseThumb (decodeIng v mans (ingAssertion v i) k) = none := by simp [baseThumb, ham']
    refine ⟨?_, Or.inl hst⟩
    have e3 : (thumbLoc v (decodeIng v mans (ingAssertion v i) k)).map (locImg none) =
        (thumbLoc v i).map (locImg none) := by
      rw [thumbLoc_eq v (decodeIng v mans (ingAssertion v i) k), hthumb, hact', hst, hbase', thumbLoc_eq v i, hbase, hnil]
      -- the original may name an `active_manifest` without carrying its store: that field is
      -- not written (`active` of the assertion comes from the store), so it plays no role
      cases hia : i.active with
      | none => rcases thumb_step_nostore v i.thumb none with h | h
                · simpa using h
                · exact absurd rfl h
      | some a =>
        cases hti : i.thumb with
        | none => rfl
        | some t =>
          cases t with
          | res img => by_cases hv : v < 2 <;> simp [thumbLocF, decT, rehome, hv, locImg]
          | own h => cases h <;> by_cases hv : v < 2 <;> simp [thumbLocF, decT, rehome, hv, locImg]
          | outer img => by_cases hv : v < 2 <;> simp [thumbLocF, decT, rehome, hv, locImg]
    have hA : (ingAssertion v (decodeIng v mans (ingAssertion v i) k)).active = (ingAssertion v i).active := by
      show (activeMan (decodeIng v mans (ingAssertion v i) k)).map (·.label) = (activeMan i).map (·.label)
      rw [ham', ham]
    have hA0 : (ingAssertion v i).active = none := by simp only [ingAssertion, ham, Option.map_none]
    have hT : (thumbLoc v (decodeIng v mans (ingAssertion v i) k)).map
        (locImg (ingAssertion v (decodeIng v mans (ingAssertion v i) k)).active) =
        (thumbLoc v i).map (locImg (ingAssertion v i).active) := by
      rw [hA, hA0]
      exact e3
    unfold repIng
    congr 1
    all_goals first | rfl | exact hA | exact e1 | exact e2 | exact hT
  · -- manifest store present
    have hact : i.active = some m.label := activeMan_label hm
    have hne : i.store ≠ [] := by
      intro h; rw [activeMan_nil h] at hm; cases hm
    have hemp : i.store.isEmpty = false := by
      cases hs : i.store with
      | nil => exact absurd hs hne
      | cons _ _ => rfl
    have hfm : findMan mans m.label = some m := hlook m hm
    have hst : (decodeIng v mans (ingAssertion v i) k).store = flatStore mans m.label := by
      simp [decodeIng, ingAssertion, hm]
    have hact' : (decodeIng v mans (ingAssertion v i) k).active = some m.label := by
      simp [decodeIng, ingAssertion, hm]
    have ham' : activeMan (decodeIng v mans (ingAssertion v i) k) = some m := by
      unfold activeMan
      rw [hact', hst]
      exact findMan_flat_root mans m.label m hfm
    have hemp' : (decodeIng v mans (ingAssertion v i) k).store.isEmpty = false := by
      rw [hst]
      cases hs : flatStore mans m.label with
      | nil => exact absurd hs (flatStore_ne_nil mans m.label m hfm)
      | cons _ _ => rfl
    refine ⟨?_, Or.inr ⟨m, ham', hmv⟩⟩
    have hbase : baseThumb i = baseOf (isValid i) m.thumb := by
      simp [baseThumb, hm, baseOf]
    have hval' : isValid (decodeIng v mans (ingAssertion v i) k) = (decide (v ≥ 2) && isValid i) := by
      unfold isValid
      rw [hres]
      by_cases hv : v ≥ 2 <;> simp [hv]
    have hbase' : baseThumb (decodeIng v mans (ingAssertion v i) k) =
        baseOf (decide (v ≥ 2) && isValid i) m.thumb := by
      simp [baseThumb, ham', hval', baseOf]
    have e3 : (thumbLoc v (decodeIng v mans (ingAssertion v i) k)).map (locImg (some m.label)) =
        (thumbLoc v i).map (locImg (some m.label)) := by
      rw [thumbLoc_eq v (decodeIng v mans (ingAssertion v i) k), hthumb, hact', hemp', hbase',
        thumbLoc_eq v i, hbase, hemp, hact]
      apply thumb_step_store
      rcases hth with h | hth
      · exact absurd h hne
      · cases hti : i.thumb with
        | none => trivial
        | some t =>
          cases t with
          | res img => simp [hti] at hth
          | own hsh =>
            cases hsh with
            | true => trivial
            | false =>
              simp only [hti] at hth
              exact ⟨hth.1, hth.2.1, hth.2.2 m hm⟩
          | outer img => trivial
    have hA : (ingAssertion v (decodeIng v mans (ingAssertion v i) k)).active = (ingAssertion v i).active := by
      show (activeMan (decodeIng v mans (ingAssertion v i) k)).map (·.label) = (activeMan i).map (·.label)
      rw [ham', hm]
    have hA0 : (ingAssertion v i).active = some m.label := by simp only [ingAssertion, hm, Option.map_some]
    have hT : (thumbLoc v (decodeIng v mans (ingAssertion v i) k)).map
        (locImg (ingAssertion v (decodeIng v mans (ingAssertion v i) k)).active) =
        (thumbLoc v i).map (locImg (ingAssertion v i).active) := by
      rw [hA, hA0]
      exact e3
    unfold repIng
    congr 1
    all_goals first | rfl | exact hA | exact e1 | exact e2 | exact hT

/-! ### the manifests a claim carries -/

def unionFrom (ms : List Man) (ings : List Ing) : List Man :=
  ings.foldl (fun ms i => i.store.foldl upsert ms) ms

/-- the manifests `to_claim` collects from the ingredients -/
def unionStores (ings : List Ing) : List Man := unionFrom [] ings

def SameSet (a b : List Man) : Prop := ∀ m, m ∈ a ↔ m ∈ b

/-- no two different manifests under one label -/
def Uniq (ms : List Man) : Prop := ∀ x ∈ ms, ∀ y ∈ ms, x.label = y.label → x = y

/-- the ingredients' stores do not hold different manifests under one label -/
def Consistent (ings : List Ing) : Prop :=
  ∀ i ∈ ings, ∀ j ∈ ings, ∀ x ∈ i.store, ∀ y ∈ j.store, x.label = y.label → x = y

theorem upsert_mem (ms : List Man) (m : Man) (hc : ∀ x ∈ ms, x.label = m.label → x = m) (y : Man) :
    y ∈ upsert ms m ↔ y ∈ ms ∨ y = m := by
  unfold upsert
  by_cases hany : ms.any (fun x => x.label == m.label) = true
  · simp only [hany, if_true]
    have hid : ms.map (fun x => if x.label == m.label then m else x) = ms := by
      conv => rhs; rw [← List.map_id ms]
      apply List.map_congr_left
      intro x hx
      by_cases hl : (x.label == m.label) = true
      · simp [hl, hc x hx (by simpa using hl)]
      · simp [hl]
    rw [hid]
    obtain ⟨x, hx, hxl⟩ := List.any_eq_true.1 hany
    have : x = m := hc x hx (by simpa using hxl)
    subst this
    constructor
    · intro h; exact Or.inl h
    · rintro (h | rfl)
      · exact h
      · exact hx
  · simp only [hany, Bool.false_eq_true, if_false, List.mem_append, List.mem_singleton]

theorem foldl_upsert_mem (st ms : List Man)
    (hc : ∀ x, x ∈ ms ∨ x ∈ st → ∀ y, y ∈ ms ∨ y ∈ st → x.label = y.label → x = y) (y : Man) :
    y ∈ st.foldl upsert ms ↔ y ∈ ms ∨ y ∈ st := by
  induction st generalizing ms with
  | nil => simp
  | cons m t ih =>
    simp only [List.foldl_cons]
    have hm : ∀ z, z ∈ upsert ms m ↔ z ∈ ms ∨ z = m :=
      upsert_mem ms m (fun x hx hl => hc x (Or.inl hx) m (Or.inr (by simp)) hl)
    rw [ih (upsert ms m) (by
      intro x hx z hz hl
      apply hc x _ z _ hl
      · rcases hx with hx | hx
        · rcases (hm x).1 hx with h | rfl
          · exact Or.inl h
          · exact Or.inr (by simp)
        · exact Or.inr (by simp [hx])
      · rcases hz with hz | hz
        · rcases (hm z).1 hz with h | rfl
          · exact Or.inl h
          · exact Or.inr (by simp)
        · exact Or.inr (by simp [hz]))]
    rw [hm y]
    simp only [List.mem_cons]
    constructor
    · rintro ((h | h) | h)
      · exact Or.inl h
      · exact Or.inr (Or.inl h)
      · exact Or.inr (Or.inr h)
    · rintro (h | h | h)
      · exact Or.inl (Or.inl h)
      · exact Or.inl (Or.inr h)
      · exact Or.inr h

theorem unionFrom_mem (ings : List Ing) (ms : List Man)
    (hc : ∀ x, (x ∈ ms ∨ ∃ i ∈ ings, x ∈ i.store) → ∀ y, (y ∈ ms ∨ ∃ i ∈ ings, y ∈ i.store) →
      x.label = y.label → x = y) (y : Man) :
    y ∈ unionFrom ms ings ↔ y ∈ ms ∨ ∃ i ∈ ings, y ∈ i.store := by
  induction ings generalizing ms with
  | nil => simp [unionFrom]
  | cons i t ih =>
    have hstep : ∀ z, z ∈ i.store.foldl upsert ms ↔ z ∈ ms ∨ z ∈ i.store :=
      foldl_upsert_mem i.store ms (by
        intro x hx z hz hl
        apply hc x _ z _ hl
        · rcases hx with h | h
          · exact Or.inl h
          · exact Or.inr ⟨i, by simp, h⟩
        · rcases hz with h | h
          · exact Or.inl h
          · exact Or.inr ⟨i, by simp, h⟩)
    show y ∈ unionFrom (i.store.foldl upsert ms) t ↔ _
    rw [ih (i.store.foldl upsert ms) (by
      intro x hx z hz hl
      apply hc x _ z _ hl
      · rcases hx with h | ⟨j, hj, h⟩
        · rcases (hstep x).1 h with h | h
          · exact Or.inl h
          · exact Or.inr ⟨i, by simp, h⟩
        · exact Or.inr ⟨j, by simp [hj], h⟩
      · rcases hz with h | ⟨j, hj, h⟩
        · rcases (hstep z).1 h with h | h
          · exact Or.inl h
          · exact Or.inr ⟨i, by simp, h⟩
        · exact Or.inr ⟨j, by simp [hj], h⟩)]
    rw [hstep y]
    constructor
    · rintro ((h | h) | ⟨j, hj, h⟩)
      · exact Or.inl h
      · exact Or.inr ⟨i, by simp, h⟩
      · exact Or.inr ⟨j, by simp [hj], h⟩
    · rintro (h | ⟨j, hj, h⟩)
      · exact Or.inl (Or.inl h)
      · rcases List.mem_cons.1 hj with rfl | hj
        · exact Or.inl (Or.inr h)
        · exact Or.inr ⟨j, hj, h⟩

/-- with consistent stores, the claim carries exactly the manifests of its ingredients' stores -/
theorem unionStores_mem (ings : List Ing) (hc : Consistent ings) (y : Man) :
    y ∈ unionStores ings ↔ ∃ i ∈ ings, y ∈ i.store := by
  unfold unionStores
  rw [unionFrom_mem ings [] (by
    intro x hx z hz hl
    rcases hx with h | ⟨i, hi, hx⟩
    · simp at h
    · rcases hz with h | ⟨j, hj, hz⟩
      · simp at h
      · exact hc i hi j hj x hx z hz hl)]
  simp

/-- the claim's collection holds an ingredient's active manifest under its label -/
theorem look_of_consistent (ings : List Ing) (hc : Consistent ings) (i : Ing) (hi : i ∈ ings)
    (m : Man) (hm : activeMan i = some m) : findMan (unionStores ings) m.label = some m := by
  have hact := activeMan_label hm
  have hmem : m ∈ i.store := by
    unfold activeMan at hm
    rw [hact] at hm
    exact (findMan_some hm).2
  have hmu : m ∈ unionStores ings := (unionStores_mem ings hc m).2 ⟨i, hi, hmem⟩
  cases hf : findMan (unionStores ings) m.label with
  | none =>
    exfalso
    unfold findMan at hf
    rw [List.find?_eq_none] at hf
    exact hf m hmu (by simp)
  | some x =>
    obtain ⟨hxl, hxm⟩ := findMan_some hf
    obtain ⟨j, hj, hxj⟩ := (unionStores_mem ings hc x).1 hxm
    rw [hc j hj i hi x hxj m hmem hxl]

/-! ### `to_claim` on a well-formed state -/

theorem loadIngredient_ok (v : Nat) (ms : List Man) (i : Ing) (h : IngLoad v i) :
    loadIngredient v [] ms i = .ok (i.store, []) := by
  unfold loadIngredient dropConflicts
  rcases h with h | ⟨m, hm, hmv⟩
  · simp [h]
  · have hne : i.store ≠ [] := by
      intro h; rw [activeMan_nil h] at hm; cases hm
    have hemp : i.store.isEmpty = false := by
      cases hs : i.store with
      | nil => exact absurd hs hne
      | cons _ _ => rfl
    have : ¬ v < m.v := by omega
    simp [hemp, hm, this, applyReds]

theorem addIngredients_ok (v : Nat) (ings : List Ing) (ms : List Man) (ap : List Red)
    (h : ∀ i ∈ ings, IngLoad v i) :
    addIngredients v [] ings ms ap = .ok (ings.map (ingAssertion v), unionFrom ms ings, ap) := by
  induction ings generalizing ms ap with
  | nil => rfl
  | cons i t ih =>
    simp only [addIngredients, loadIngredient_ok v ms i (h i (by simp)), List.append_nil]
    rw [ih _ _ (fun j hj => h j (by simp [hj]))]
    rfl

def thumbEntries (s : BState) : List Entry :=
  match s.thumbnail with
  | some (f, b) => if f == "none" then [] else [Entry.thumb f b]
  | none => []

/-- the claim `to_claim` builds when nothing fails and nothing is redacted; `L` is the assertion
list after the settings / intent step -/
def claimOf (s : BState) (g : String) (L : List BAsn) : Claim :=
  { label := claimLabel s g
    version := s.v
    title := s.title
    format := some s.format
    instanceId := s.instanceId
    generators := markGens s.generators
    redactions := []
    alg := s.hashAlg
    entries := thumbEntries s ++ numberIngs (s.ingredients.map (ingAssertion s.v)) 0 ++
      numberAsns (L.map (norm s.v)) []
    manifests := unionStores s.ingredients
    remote := s.remoteUrl
    embedded := !s.noEmbed
    update := s.intent == some .update }

theorem toClaim_ok (cfg : Cfg) (s : BState) (g : String) (L : List BAsn) (hred : s.redactions = none)
    (hload : ∀ i ∈ s.ingredients, IngLoad s.v i)
    (hprep : prepAsns cfg s.intent (hasParent s) s.assertions = .ok L) :
    toClaim cfg s g = .ok (claimOf s g L) := by
  unfold toClaim
  simp only [hred, Option.getD_none, addIngredients_ok s.v s.ingredients [] [] hload, List.any_nil,
    Bool.false_eq_true, if_false, hprep]
  rfl

theorem usersOf_thumbEntries (s : BState) : usersOf (thumbEntries s) = [] := by
  unfold thumbEntries
  cases s.thumbnail with
  | none => rfl
  | some fb => obtain ⟨f, b⟩ := fb; by_cases h : (f == "none") = true <;> simp [h, usersOf]

theorem ingsOf_thumbEntries (s : BState) : ingsOf (thumbEntries s) = [] := by
  unfold thumbEntries
  cases s.thumbnail with
  | none => rfl
  | some fb => obtain ⟨f, b⟩ := fb; by_cases h : (f == "none") = true <;> simp [h, ingsOf]

/-- the three projections of the entries of `claimOf`, followed by bookkeeping entries `X` -/
theorem proj_users (s : BState) (Y : List BAsn) (X : List Entry) (hX : usersOf X = []) :
    usersOf (claimOrder s.v (thumbEntries s ++ numberIngs (s.ingredients.map (ingAssertion s.v)) 0 ++
      numberAsns Y [] ++ X)) = pairOrder s.v (numP Y []) := by
  rw [usersOf_claimOrder]
  simp only [usersOf_append, usersOf_thumbEntries, usersOf_numberIngs, usersOf_number, hX,
    List.nil_append, List.append_nil]

theorem proj_ings (s : BState) (Y : List BAsn) (X : List Entry) (hX : ingsOf X = []) :
    ingsOf (claimOrder s.v (thumbEntries s ++ numberIngs (s.ingredients.map (ingAssertion s.v)) 0 ++
      numberAsns Y [] ++ X)) = idxFrom (s.ingredients.map (ingAssertion s.v)) 0 := by
  rw [ingsOf_claimOrder]
  simp only [ingsOf_append, ingsOf_thumbEntries, ingsOf_numberIngs, ingsOf_numberAsns, hX,
    List.nil_append, List.append_nil]

theorem proj_thumb (s : BState) (Y : List BAsn) (X : List Entry) (hX : entryThumb X = none) :
    entryThumb (claimOrder s.v (thumbEntries s ++ numberIngs (s.ingredients.map (ingAssertion s.v)) 0 ++
      numberAsns Y [] ++ X)) = entryThumb (thumbEntries s) := by
  rw [entryThumb_claimOrder]
  have hrest : entryThumb (numberIngs (s.ingredients.map (ingAssertion s.v)) 0 ++ numberAsns Y [] ++ X) = none := by
    rw [List.append_assoc, entryThumb_append_none _ _ (entryThumb_numberIngs _ _),
      entryThumb_append_none _ _ (entryThumb_numberAsns _ _), hX]
  unfold thumbEntries
  cases s.thumbnail with
  | none => simpa [entryThumb] using hrest
  | some fb =>
    obtain ⟨f, b⟩ := fb
    by_cases h : (f == "none") = true
    · simpa [h, entryThumb] using hrest
    · simp [h, entryThumb]

theorem pairOrder_mem {v : Nat} {P : List (BAsn × Nat)} {q : BAsn × Nat} (h : q ∈ pairOrder v P) : q ∈ P := by
  unfold pairOrder at h
  by_cases hv : v ≥ 2
  · simp only [hv, if_true, List.mem_append, List.mem_filter] at h
    rcases h with h | h <;> exact h.1
  · simpa [hv] using h

theorem asnOrder_map (v : Nat) (f : BAsn → BAsn) (hf : ∀ a, (f a).created = a.created) (Y : List BAsn) :
    asnOrder v (Y.map f) = (asnOrder v Y).map f := by
  unfold asnOrder
  by_cases hv : v ≥ 2
  · simp only [hv, if_true, List.map_append, List.filter_map]
    have e1 : ((fun a : BAsn => a.created) ∘ f) = fun a => a.created := by funext a; simp [hf]
    have e2 : ((fun a : BAsn => !a.created) ∘ f) = fun a => !a.created := by funext a; simp [hf]
    rw [e1, e2]
  · simp [hv]

theorem shown_of_kept {l : String} (h : keptLabel l = true) : shownLabel l = true := by
  unfold keptLabel at h
  unfold shownLabel
  exact (Bool.and_eq_true _ _ ▸ h).1

/-- all user assertions of a numbered list pass a label filter they all satisfy -/
theorem kept_filter (p : String → Bool) (v : Nat) (Y : List BAsn) (hk : ∀ a ∈ Y, p a.label = true) :
    (pairOrder v (numP Y [])).filter (fun q => p q.1.label) = pairOrder v (numP Y []) := by
  apply List.filter_eq_self.2
  intro q hq
  exact hk q.1 (numP_mem Y [] q (pairOrder_mem hq))

/-- the builder `with_archive` restores from the archive of `claimOf s g L` -/
def restored (s : BState) (g : String) (L : List BAsn) : BState :=
  { title := s.title
    format := if s.v ≥ 2 then "" else s.format
    version := match claimLabel s g with | .gen true _ _ => some 1 | _ => none
    label := some (claimLabel s g)
    vendor := match claimLabel s g with | .gen _ v _ => v | .other _ => none
    generators := markGens s.generators
    thumbnail := entryThumb (thumbEntries s)
    redactions := none
    ingredients := (idxFrom (s.ingredients.map (ingAssertion s.v)) 0).map
      (fun p => decodeIng s.v (unionStores s.ingredients) p.1 p.2)
    assertions := restoredAsns s.v L
    hashAlg := none
    instanceId := s.instanceId
    intent := none
    remoteUrl := none
    noEmbed := false }

theorem decode_seal (s : BState) (g : String) (L : List BAsn)
    (hkept : ∀ a ∈ L, keptLabel (normLabel a.label) = true) :
    decode (sealArchive (claimOf s g L)) = restored s g L := by
  unfold decode sealArchive wire claimOf restored
  simp only
  congr 1
  · by_cases hv : s.v ≥ 2 <;> simp [hv]
  · exact proj_thumb s _ _ rfl
  · rw [entryIngs_eq, proj_ings s _ _ rfl]
  · rw [decodeEntries_eq, proj_users s _ _ rfl]
    rw [kept_filter keptLabel s.v _ (by
      intro a ha
      obtain ⟨b, hb, rfl⟩ := List.mem_map.1 ha
      exact hkept b hb)]
    unfold restoredAsns
    have hN : L.map (N s.v) = (L.map (norm s.v)).map fix := by simp [N, Function.comp]
    rw [hN, asnOrder_map s.v fix (fun _ => rfl)]
    have : (fun q : BAsn × Nat => fix q.1) = fix ∘ (·.1) := rfl
    rw [this, ← List.map_map, pairOrder_fst, numP_fst]

theorem markGens_idem (gs : List Gen) : markGens (markGens gs) = markGens gs := by
  cases gs with
  | nil => rfl
  | cons g t => rfl

/-! ### the round trip -/

/-- what the `Reader` reports of `Builder::sign` on `claimOf s g L` -/
theorem report_bind (s : BState) (g : String) (L : List BAsn)
    (hkept : ∀ a ∈ L, keptLabel (normLabel a.label) = true) :
    report (bindData (claimOf s g L)) =
      { title := s.title, version := s.v, generators := markGens s.generators
        thumbnail := entryThumb (thumbEntries s), redactions := []
        ingredients := (idxFrom (s.ingredients.map (ingAssertion s.v)) 0).map (repIng s.v)
        assertions := reportPairs s.v L
        manifests := unionStores s.ingredients, alg := s.hashAlg, remote := s.remoteUrl
        embedded := !s.noEmbed, update := s.intent == some .update } := by
  unfold report bindData wire claimOf
  simp only
  congr 1
  · exact proj_thumb s _ _ rfl
  · rw [reportIngs_eq, proj_ings s _ _ rfl]
  · rw [reportAsns_eq, proj_users s _ _ rfl]
    rw [kept_filter shownLabel s.v _ (by
      intro a ha
      obtain ⟨b, hb, rfl⟩ := List.mem_map.1 ha
      exact shown_of_kept (hkept b hb))]
    rfl

/-- the manifest label gives the claim version back: none (the SDK generates one of the right
shape), a generated-shape label of the state's version, or a free-form label on a version-2
state (`manifest_label_to_parts` fails on it and `into_builder` leaves the default version) -/
def LabelOK (s : BState) : Prop :=
  match s.label with
  | none => True
  | some (.gen b _ _) => b = (s.v == 1)
  | some (.other _) => s.v = 2

/-- Conditions on the settings and the input builder state under which the round trip
preserves the report. Each one is necessary (see the witnesses below). -/
structure WF (cfg : Cfg) (s : BState) : Prop where
  /-- no settings-driven actions / templates (`settings_actions_duplicated`) -/
  cfg : cfg.extraActions = [] ∧ cfg.templates = []
  ver : s.v = 1 ∨ s.v = 2
  /-- the manifest label is left to the SDK, or is one whose shape gives the claim version back -/
  label : LabelOK s
  /-- `hash_alg_not_restored` -/
  alg : s.hashAlg = none
  /-- `redaction_resign_fails` -/
  reds : s.redactions = none
  /-- `embedding_mode_not_restored` -/
  embed : s.noEmbed = false ∧ s.remoteUrl = none
  /-- no intent (`edit_intent_archive_fails`; a Create / Edit-with-parent intent is baked into
  the archived actions assertion: `intent_baked_*`) -/
  intent : s.intent = none
  /-- `reserved_prefix_not_restored` -/
  kept : ∀ a ∈ s.assertions, keptLabel (normLabel a.label) = true
  /-- `actions_reordered_resign_fails` -/
  one : OneActions s.assertions
  /-- `instance_numbers_swap` -/
  sep : Sep (s.assertions.map (norm s.v))
  load : ∀ i ∈ s.ingredients, IngLoad s.v i
  /-- `v1_ingredient_thumbnail_lost`, `user_ingredient_thumbnail_replaced` -/
  thumbs : ∀ i ∈ s.ingredients, ThumbOK s.v i
  consistent : Consistent s.ingredients
  /-- the walk from the active manifest reaches the whole store (`orphan_manifest_dropped`) -/
  flat : ∀ i ∈ s.ingredients, ∀ m, activeMan i = some m →
    SameSet (flatStore (unionStores s.ingredients) m.label) i.store

/-- equal reports; the carried ingredient manifests as sets -/
structure ReportEq (r' r : Report) : Prop where
  title : r'.title = r.title
  version : r'.version = r.version
  generators : r'.generators = r.generators
  thumbnail : r'.thumbnail = r.thumbnail
  redactions : r'.redactions = r.redactions
  ingredients : r'.ingredients = r.ingredients
  assertions : r'.assertions = r.assertions
  manifests : SameSet r'.manifests r.manifests
  alg : r'.alg = r.alg
  remote : r'.remote = r.remote
  embedded : r'.embedded = r.embedded
  update : r'.update = r.update

theorem maybeAddParent_none (src : Ing) (s : BState) (h : s.intent = none) : maybeAddParent src s = s := by
  unfold maybeAddParent
  simp [h]

theorem restored_v (s : BState) (g : String) (L : List BAsn) (hv : s.v = 1 ∨ s.v = 2) (hl : LabelOK s) :
    (restored s g L).v = s.v := by
  unfold LabelOK at hl
  show (match claimLabel s g with | .gen true _ _ => some 1 | _ => (none : Option Nat)).getD 2 = s.v
  unfold claimLabel
  cases hlab : s.label with
  | none =>
    simp only
    rcases hv with hv | hv
    · have : (s.v == 1) = true := by simp [hv]
      simp only [this]; exact hv.symm
    · have : (s.v == 1) = false := by simp [hv]
      simp only [this]; exact hv.symm
  | some l =>
    simp only [hlab] at hl
    cases l with
    | gen b vd gd =>
      simp only at hl ⊢
      subst hl
      rcases hv with hv | hv
      · have : (s.v == 1) = true := by simp [hv]
        simp only [this]; exact hv.symm
      · have : (s.v == 1) = false := by simp [hv]
        simp only [this]; exact hv.symm
    | other t =>
      simp only at hl ⊢
      exact hl.symm

theorem thumb_restored (s : BState) : entryThumb (thumbEntries
      ({ s with thumbnail := entryThumb (thumbEntries s) } : BState)) = entryThumb (thumbEntries s) := by
  unfold thumbEntries
  cases s.thumbnail with
  | none => rfl
  | some fb =>
    obtain ⟨f, b⟩ := fb
    by_cases h : (f == "none") = true
    · simp [h, entryThumb]
    · simp [h, entryThumb]

theorem idxFrom_mem {X : List IngA} {k : Nat} {p : IngA × Nat} (h : p ∈ idxFrom X k) : p.1 ∈ X := by
  induction X generalizing k with
  | nil => simp [idxFrom] at h
  | cons a t ih =>
    simp only [idxFrom, List.mem_cons] at h
    rcases h with rfl | h
    · simp
    · exact List.mem_cons_of_mem _ (ih h)

theorem idxFrom_mem' {X : List IngA} {a : IngA} (h : a ∈ X) (k : Nat) : ∃ n, (a, n) ∈ idxFrom X k := by
  induction X generalizing k with
  | nil => simp at h
  | cons b t ih =>
    rcases List.mem_cons.1 h with rfl | h
    · exact ⟨k, by simp [idxFrom]⟩
    · obtain ⟨n, hn⟩ := ih h (k + 1)
      exact ⟨n, by simp [idxFrom, hn]⟩

/-- restored ingredients are written and reported like the originals, index by index -/
theorem idx_step (v : Nat) (mans : List Man) (X : List Ing) (k : Nat)
    (h : ∀ i ∈ X, ∀ k, repIng v (ingAssertion v (decodeIng v mans (ingAssertion v i) k), k) =
      repIng v (ingAssertion v i, k)) :
    (idxFrom (((idxFrom (X.map (ingAssertion v)) k).map (fun p => decodeIng v mans p.1 p.2)).map
        (ingAssertion v)) k).map (repIng v) =
      (idxFrom (X.map (ingAssertion v)) k).map (repIng v) := by
  induction X generalizing k with
  | nil => rfl
  | cons i t ih =>
    simp only [List.map_cons, idxFrom]
    rw [h i (by simp) k]
    congr 1
    exact ih (k + 1) (fun j hj => h j (by simp [hj]))

/-- **archive_roundtrip** — for every settings value and builder state satisfying `WF`, every
pair of fresh manifest ids and every source asset: the archive is written; the original and the
restored builder both sign; the two reports agree in title, claim version, generators, claim
thumbnail, redactions, ingredients (title, format, relationship, instance id, label, active
manifest, validation results / status, thumbnail image), assertions (label, instance number,
payload, kind, created/gathered, claim order), hash algorithm, embedding mode, and carry the
same set of ingredient manifests. -/
theorem archive_roundtrip (cfg : Cfg) (s : BState) (src : Ing) (g g' : String) (h : WF cfg s) :
    ∃ a c c', encode cfg s g = .ok a ∧ sign cfg src s g' = .ok c ∧
      sign cfg src (decode a) g' = .ok c' ∧ ReportEq (report c') (report c) := by
  have hprep : prepAsns cfg s.intent (hasParent s) s.assertions = .ok s.assertions := by
    rw [h.intent]; exact prep_plain cfg h.cfg _ _ h.one
  have hcl : ∀ x, toClaim cfg s x = .ok (claimOf s x s.assertions) :=
    fun x => toClaim_ok cfg s x _ h.reds h.load hprep
  have henc : encode cfg s g = .ok (sealArchive (claimOf s g s.assertions)) := by
    unfold encode; rw [hcl g]; rfl
  have hsign : sign cfg src s g' = .ok (bindData (claimOf s g' s.assertions)) := by
    unfold sign; rw [maybeAddParent_none src s h.intent, hcl g']; rfl
  have hdec : decode (sealArchive (claimOf s g s.assertions)) = restored s g s.assertions :=
    decode_seal s g _ h.kept
  -- the restored builder
  have hrv : (restored s g s.assertions).v = s.v := restored_v s g _ h.ver h.label
  have hlook : ∀ i ∈ s.ingredients, ∀ m, activeMan i = some m →
      findMan (unionStores s.ingredients) m.label = some m :=
    fun i hi m hm => look_of_consistent s.ingredients h.consistent i hi m hm
  have hstep : ∀ i ∈ s.ingredients, ∀ k,
      repIng s.v (ingAssertion s.v (decodeIng s.v (unionStores s.ingredients) (ingAssertion s.v i) k), k) =
        repIng s.v (ingAssertion s.v i, k) ∧
      IngLoad s.v (decodeIng s.v (unionStores s.ingredients) (ingAssertion s.v i) k) :=
    fun i hi k => ing_step s.v _ i k (h.load i hi) (h.thumbs i hi) (hlook i hi)
  have hload' : ∀ i ∈ (restored s g s.assertions).ingredients, IngLoad (restored s g s.assertions).v i := by
    intro i hi
    rw [hrv]
    simp only [restored, List.mem_map] at hi
    obtain ⟨p, hp, rfl⟩ := hi
    obtain ⟨j, hj, hpj⟩ := List.mem_map.1 (idxFrom_mem hp)
    rw [← hpj]
    exact (hstep j hj p.2).2
  have hone' : OneActions (restored s g s.assertions).assertions := OneActions_restored s.v _ h.one
  have hprep' : prepAsns cfg (restored s g s.assertions).intent (hasParent (restored s g s.assertions))
      (restored s g s.assertions).assertions = .ok (restoredAsns s.v s.assertions) :=
    prep_plain cfg h.cfg _ _ hone'
  have hcl' : toClaim cfg (restored s g s.assertions) g' =
      .ok (claimOf (restored s g s.assertions) g' (restoredAsns s.v s.assertions)) :=
    toClaim_ok cfg _ g' _ rfl hload' hprep'
  have hsign' : sign cfg src (restored s g s.assertions) g' =
      .ok (bindData (claimOf (restored s g s.assertions) g' (restoredAsns s.v s.assertions))) := by
    unfold sign; rw [maybeAddParent_none src _ rfl, hcl']; rfl
  have hkept' : ∀ a ∈ restoredAsns s.v s.assertions, keptLabel (normLabel a.label) = true := by
    intro a ha
    obtain ⟨b, hb, rfl⟩ := List.mem_map.1 (asnOrder_mem ha)
    rw [N_label, normLabel_idem]
    exact h.kept b hb
  refine ⟨_, _, _, henc, hsign, by rw [hdec]; exact hsign', ?_⟩
  rw [report_bind _ g' _ hkept', report_bind s g' _ h.kept, hrv]
  constructor
  · rfl
  · rfl
  · exact markGens_idem _
  · exact thumb_restored s
  · rfl
  · -- ingredients
    show (idxFrom ((restored s g s.assertions).ingredients.map (ingAssertion s.v)) 0).map (repIng s.v) = _
    exact idx_step s.v _ s.ingredients 0 (fun i hi k => (hstep i hi k).1)
  · -- assertions
    exact assertions_roundtrip s.v s.assertions h.sep
  · -- manifests
    intro m
    show m ∈ unionStores (restored s g s.assertions).ingredients ↔ m ∈ unionStores s.ingredients
    have hstore : ∀ i' ∈ (restored s g s.assertions).ingredients, ∃ i ∈ s.ingredients,
        SameSet i'.store i.store := by
      intro i' hi'
      simp only [restored, List.mem_map] at hi'
      obtain ⟨p, hp, rfl⟩ := hi'
      obtain ⟨j, hj, hpj⟩ := List.mem_map.1 (idxFrom_mem hp)
      refine ⟨j, hj, ?_⟩
      rw [← hpj]
      cases ham : activeMan j with
      | none =>
        have hjs : j.store = [] := by
          rcases h.load j hj with hn | ⟨m', hm', _⟩
          · exact hn
          · rw [ham] at hm'; cases hm'
        intro x
        simp [decodeIng, ingAssertion, ham, hjs]
      | some m' =>
        have := h.flat j hj m' ham
        intro x
        simp only [decodeIng, ingAssertion, ham, Option.map_some]
        exact this x
    have hstore' : ∀ i ∈ s.ingredients, ∃ i' ∈ (restored s g s.assertions).ingredients,
        SameSet i'.store i.store := by
      intro j hj
      obtain ⟨n, hn⟩ := idxFrom_mem' (List.mem_map_of_mem (f := ingAssertion s.v) hj) 0
      refine ⟨decodeIng s.v (unionStores s.ingredients) (ingAssertion s.v j) n, ?_, ?_⟩
      · simp only [restored, List.mem_map]
        exact ⟨_, hn, rfl⟩
      · cases ham : activeMan j with
        | none =>
          have hjs : j.store = [] := by
            rcases h.load j hj with hn' | ⟨m', hm', _⟩
            · exact hn'
            · rw [ham] at hm'; cases hm'
          intro x
          simp [decodeIng, ingAssertion, ham, hjs]
        | some m' =>
          have := h.flat j hj m' ham
          intro x
          simp only [decodeIng, ingAssertion, ham, Option.map_some]
          exact this x
    have hc' : Consistent (restored s g s.assertions).ingredients := by
      intro a ha b hb x hx y hy hl
      obtain ⟨i, hi, hsi⟩ := hstore a ha
      obtain ⟨j, hj, hsj⟩ := hstore b hb
      exact h.consistent i hi j hj x ((hsi x).1 hx) y ((hsj y).1 hy) hl
    rw [unionStores_mem _ hc', unionStores_mem _ h.consistent]
    constructor
    · rintro ⟨i', hi', hm⟩
      obtain ⟨i, hi, hs⟩ := hstore i' hi'
      exact ⟨i, hi, (hs m).1 hm⟩
    · rintro ⟨i, hi, hm⟩
      obtain ⟨i', hi', hs⟩ := hstore' i hi
      exact ⟨i', hi', (hs m).2 hm⟩
  · show (none : Option String) = s.hashAlg
    exact h.alg.symm
  · show (none : Option String) = s.remoteUrl
    exact h.embed.2.symm
  · show (!false) = !s.noEmbed
    rw [h.embed.1]
  · show ((none : Option Intent) == some Intent.update) = (s.intent == some Intent.update)
    rw [h.intent]

/-! ### chains of any length (ingredients without manifest stores) -/

/-- no ingredient carries a manifest store (unsigned ingredients; any thumbnails) -/
def Plain (s : BState) : Prop := ∀ i ∈ s.ingredients, i.store = []

theorem ReportEq.rfl' (r : Report) : ReportEq r r :=
  ⟨rfl, rfl, rfl, rfl, rfl, rfl, rfl, fun _ => Iff.rfl, rfl, rfl, rfl, rfl⟩

theorem ReportEq.trans' {a b c : Report} (h1 : ReportEq a b) (h2 : ReportEq b c) : ReportEq a c :=
  ⟨h1.title.trans h2.title, h1.version.trans h2.version, h1.generators.trans h2.generators,
    h1.thumbnail.trans h2.thumbnail, h1.redactions.trans h2.redactions,
    h1.ingredients.trans h2.ingredients, h1.assertions.trans h2.assertions,
    fun m => (h1.manifests m).trans (h2.manifests m), h1.alg.trans h2.alg, h1.remote.trans h2.remote,
    h1.embedded.trans h2.embedded, h1.update.trans h2.update⟩

theorem Sep_of_subset {X Y : List BAsn} (h : ∀ a ∈ Y, a ∈ X) (hs : Sep X) : Sep Y :=
  fun a ha b hb hab => hs a (h a ha) b (h b hb) hab

/-- one step keeps a plain well-formed state plain and well-formed -/
theorem wf_step_plain (cfg : Cfg) (s : BState) (g : String) (h : WF cfg s) (hp : Plain s) :
    ∃ a, encode cfg s g = .ok a ∧ WF cfg (decode a) ∧ Plain (decode a) := by
  have hprep : prepAsns cfg s.intent (hasParent s) s.assertions = .ok s.assertions := by
    rw [h.intent]; exact prep_plain cfg h.cfg _ _ h.one
  have henc : encode cfg s g = .ok (sealArchive (claimOf s g s.assertions)) := by
    unfold encode; rw [toClaim_ok cfg s g _ h.reds h.load hprep]; rfl
  have hdec : decode (sealArchive (claimOf s g s.assertions)) = restored s g s.assertions :=
    decode_seal s g _ h.kept
  have hrv : (restored s g s.assertions).v = s.v := restored_v s g _ h.ver h.label
  have hstores : ∀ i ∈ (restored s g s.assertions).ingredients, i.store = [] := by
    intro i hi
    simp only [restored, List.mem_map] at hi
    obtain ⟨p, hp', rfl⟩ := hi
    obtain ⟨j, hj, hpj⟩ := List.mem_map.1 (idxFrom_mem hp')
    rw [← hpj]
    simp [decodeIng, ingAssertion, activeMan_nil (hp j hj)]
  refine ⟨_, henc, ?_, by rw [hdec]; exact hstores⟩
  rw [hdec]
  refine
    { cfg := h.cfg, ver := by rw [hrv]; exact h.ver, label := ?_, alg := rfl, reds := rfl
      embed := ⟨rfl, rfl⟩, intent := rfl, kept := ?_, one := OneActions_restored s.v _ h.one
      sep := ?_, load := fun i hi => Or.inl (hstores i hi), thumbs := fun i hi => Or.inl (hstores i hi)
      consistent := ?_, flat := ?_ }
  · -- label
    unfold LabelOK
    show (match (some (claimLabel s g) : Option MLabel) with
      | none => True
      | some (.gen b _ _) => b = ((restored s g s.assertions).v == 1)
      | some (.other _) => (restored s g s.assertions).v = 2)
    rw [hrv]
    have hl := h.label
    unfold LabelOK at hl
    unfold claimLabel
    cases hlab : s.label with
    | none => simp
    | some l =>
      simp only [hlab] at hl
      cases l with
      | gen b vd gd => simpa using hl
      | other t => simpa using hl
  · -- kept labels
    intro a ha
    obtain ⟨b, hb, rfl⟩ := List.mem_map.1 (asnOrder_mem ha)
    rw [N_label, normLabel_idem]
    exact h.kept b hb
  · -- Sep
    show Sep ((restoredAsns s.v s.assertions).map (norm (restored s g s.assertions).v))
    rw [hrv]
    have hNN : (restoredAsns s.v s.assertions).map (norm s.v) = restoredAsns s.v s.assertions := by
      apply asnOrder_map_id
      intro y hy
      obtain ⟨a, _, rfl⟩ := List.mem_map.1 hy
      exact norm_N s.v a
    rw [hNN]
    have hN : s.assertions.map (N s.v) = (s.assertions.map (norm s.v)).map fix := by simp [N, Function.comp]
    apply Sep_of_subset (X := s.assertions.map (N s.v)) (fun a ha => asnOrder_mem ha)
    rw [hN]
    exact Sep_map fix (fun _ => rfl) (fun _ => rfl) _ h.sep
  · intro i hi j _ x hx
    rw [hstores i hi] at hx
    simp at hx
  · intro i hi m hm
    rw [activeMan_nil (hstores i hi)] at hm
    cases hm

/-- **archive_chain_plain** — any number of save/restore steps: for a well-formed builder state
whose ingredients carry no manifest store, the chain succeeds and the restored builder signs to
a report equal to the original's. -/
theorem archive_chain_plain (cfg : Cfg) (src : Ing) (g' : String) (gs : List String) (s : BState)
    (h : WF cfg s) (hp : Plain s) :
    ∃ r c c', chain cfg gs s = .ok r ∧ sign cfg src s g' = .ok c ∧ sign cfg src r g' = .ok c' ∧
      ReportEq (report c') (report c) := by
  induction gs generalizing s with
  | nil =>
    obtain ⟨_, c, _, _, hs, _, _⟩ := archive_roundtrip cfg s src "g" g' h
    exact ⟨s, c, c, rfl, hs, hs, ReportEq.rfl' _⟩
  | cons g t ih =>
    obtain ⟨a, c, c', ha, hs, hs', heq⟩ := archive_roundtrip cfg s src g g' h
    obtain ⟨a', ha', hwf, hpl⟩ := wf_step_plain cfg s g h hp
    have : a' = a := by rw [ha] at ha'; cases ha'; rfl
    subst this
    obtain ⟨r, c1, c2, hr, hs1, hs2, heq2⟩ := ih (decode a') hwf hpl
    have : c1 = c' := by rw [hs'] at hs1; cases hs1; rfl
    subst this
    refine ⟨r, c, c2, ?_, hs, hs2, heq2.trans' heq⟩
    simp only [chain, ha]
    exact hr

/-- **chain_payload_stable** — without settings-driven additions the reported assertions (with
their payloads) are the same after any number of round trips; with them they are not
(`settings_actions_duplicated`). -/
theorem chain_payload_stable (cfg : Cfg) (src : Ing) (g' : String) (gs : List String) (s : BState)
    (h : WF cfg s) (hp : Plain s) :
    ∃ r c c', chain cfg gs s = .ok r ∧ sign cfg src s g' = .ok c ∧ sign cfg src r g' = .ok c' ∧
      (report c').assertions = (report c).assertions := by
  obtain ⟨r, c, c', h1, h2, h3, h4⟩ := archive_chain_plain cfg src g' gs s h hp
  exact ⟨r, c, c', h1, h2, h3, h4.assertions⟩

/-! ### witnesses: each restriction of `WF` is necessary

`rep cfg n s` is the report of signing `s` after `n` save/restore steps (`n = 0`: directly);
manifests are compared sorted by label. The harness replays every witness on the
implementation (`W-…` cases). -/

def rep (cfg : Cfg) (n : Nat) (s : BState) : Except Err Report :=
  match chain cfg (List.replicate n "g") s with
  | .error e => .error e
  | .ok r => (sign cfg srcIng r "h").map fun c =>
      let x := report c
      { x with manifests := sortMans x.manifests }

def s0 : BState :=
  { title := some "t", format := "f", version := none, label := none, vendor := none
    generators := [⟨"g", false⟩], thumbnail := some ("image/jpeg", "img"), redactions := none
    ingredients := []
    assertions := [⟨"c2pa.actions", "", ["c2pa.created"], [], false, true⟩, ⟨"org.x", "d", [], [], true, false⟩]
    hashAlg := none, instanceId := "i", intent := none, remoteUrl := none, noEmbed := false }

/-- a signed, validated ingredient whose store is its active manifest `m0` -/
def ingCA (th : Option TRef) (store : List Man) : Ing :=
  ⟨"CA", "f", "componentOf", "i", none, some "m0", store, some true, ["u"], th⟩

def m0 : Man := ⟨"m0", 1, true, ["c2pa.actions", "x"], []⟩

def sCA (v : Nat) (th : Option TRef) : BState :=
  { s0 with version := some v, ingredients := [ingCA th [m0]] }

/-- `hash_alg` is not restored -/
theorem hash_alg_not_restored :
    (rep {} 1 { s0 with hashAlg := some "sha512" }).map (·.alg) ≠
      (rep {} 0 { s0 with hashAlg := some "sha512" }).map (·.alg) := by decide

/-- `remote_url` / `no_embed` are not restored: the original builder writes a remote-only
manifest, the restored one embeds it -/
theorem embedding_mode_not_restored :
    (rep {} 1 { s0 with noEmbed := true, remoteUrl := some "r" }).map (fun r => (r.embedded, r.remote)) ≠
      (rep {} 0 { s0 with noEmbed := true, remoteUrl := some "r" }).map (fun r => (r.embedded, r.remote)) := by
  decide

/-- a user assertion labelled like the archive bookkeeping is reported when signed directly and
gone after a round trip -/
theorem archive_label_dropped :
    (rep {} 1 { s0 with assertions := s0.assertions ++ [⟨"org.contentauth.archive.metadata.mine", "d", [], [], true, false⟩] }).map (·.assertions.length) = .ok 2 ∧
    (rep {} 0 { s0 with assertions := s0.assertions ++ [⟨"org.contentauth.archive.metadata.mine", "d", [], [], true, false⟩] }).map (·.assertions.length) = .ok 3 := by
  decide

/-- **Every assertion definition a restored builder holds has a label that `from_store` lists
among the assertions and that is not archive bookkeeping** — whatever the archive's claim held. -/
theorem restored_labels_kept (es : List Entry) (a : BAsn) (ha : a ∈ decodeEntries es) :
    keptLabel a.label = true := by
  induction es with
  | nil => simp [decodeEntries] at ha
  | cons e t ih =>
    cases e with
    | user b k =>
      simp only [decodeEntries] at ha
      by_cases hk : keptLabel b.label = true
      · simp only [hk, if_true, List.mem_cons] at ha
        rcases ha with rfl | ha
        · exact hk
        · exact ih ha
      · simp only [hk, Bool.false_eq_true, if_false] at ha
        exact ih ha
    | _ => exact ih (by simpa [decodeEntries] using ha)

/-- **reserved_prefix_not_restored** — no assertion definition of a restored builder has a label
that `from_store` routes to its ingredient, hard-binding or claim-thumbnail arm, or that starts
like the archive bookkeeping — whatever the archive's claim held under such a label. -/
theorem reserved_prefix_not_restored (es : List Entry) (a : BAsn) (ha : a ∈ decodeEntries es) :
    classify a.label ≠ Part.ingredient ∧ classify a.label ≠ Part.hidden ∧
      classify a.label ≠ Part.thumbnail ∧ startsWith archiveMetaLabel a.label = false := by
  have hk := restored_labels_kept es a ha
  unfold keptLabel at hk
  simp only [Bool.and_eq_true, Bool.or_eq_true, beq_iff_eq, Bool.not_eq_true'] at hk
  refine ⟨?_, ?_, ?_, hk.2⟩ <;> intro h <;> rw [h] at hk <;> simp at hk

/-- the arms in terms of label prefixes (source order of `Manifest::from_store`) -/
theorem classify_ingredient (l : String) (h1 : startsWith "c2pa.actions" l = false)
    (h2 : startsWith "c2pa.ingredient" l = true) : classify l = Part.ingredient := by
  simp [classify, h1, h2]

theorem classify_bmff (l : String) (h1 : startsWith "c2pa.actions" l = false)
    (h2 : startsWith "c2pa.ingredient" l = false) (h3 : startsWith "c2pa.hash.bmff" l = true) :
    classify l = Part.hidden := by
  simp [classify, h1, h2, isHardBinding, h3]

theorem classify_claim_thumbnail (l : String) (h1 : startsWith "c2pa.actions" l = false)
    (h2 : startsWith "c2pa.ingredient" l = false) (h3 : isHardBinding l = false)
    (h4 : startsWith "c2pa.thumbnail.claim" l = true) : classify l = Part.thumbnail := by
  simp [classify, h1, h2, h3, h4]

example : classify "c2pa.ingredient.mine" = Part.ingredient ∧ classify "c2pa.hash.bmff.v9x" = Part.hidden ∧
    classify "c2pa.thumbnail.claim.mine" = Part.thumbnail ∧ classify "org.x.metadata" = Part.metadata := by
  decide

def sRed : BState := { s0 with version := some 2, ingredients := [ingCA (some (.own true)) [m0]], redactions := some [("m0", "x")] }

/-- a builder with a redaction signs, but after a round trip signing fails: the archive holds
the ingredient's manifest with the assertion already removed, and re-applying the redaction does
not find it (`Claim::redact_assertion` → `AssertionRedactionNotFound`) -/
theorem redaction_resign_fails :
    (rep {} 0 sRed).map (·.redactions) =
      .ok [("m0", "x")] ∧
    rep {} 1 sRed = .error .redactionNotFound := by
  decide

/-- settings-driven actions and templates are appended by every `to_claim`: signing directly
gives one copy, after n round trips n+1 copies -/
theorem settings_actions_duplicated :
    ((rep ⟨["c2pa.edited"], ["t"]⟩ 0 s0).map fun r => r.assertions.map fun q => (q.1.acts, q.1.tmpls)) =
      .ok [(["c2pa.created", "c2pa.edited"], ["t"]), ([], [])] ∧
    ((rep ⟨["c2pa.edited"], ["t"]⟩ 1 s0).map fun r => r.assertions.map fun q => (q.1.acts, q.1.tmpls)) =
      .ok [(["c2pa.created", "c2pa.edited", "c2pa.edited"], ["t", "t"]), ([], [])] ∧
    ((rep ⟨["c2pa.edited"], ["t"]⟩ 2 s0).map fun r => r.assertions.map fun q => (q.1.acts, q.1.tmpls)) =
      .ok [(["c2pa.created", "c2pa.edited", "c2pa.edited", "c2pa.edited"], ["t", "t", "t"]), ([], [])] := by
  decide

/-- … also when the definition has no actions assertion (the `!found_actions` branch): the
restored builder then holds one, and the inception action is there twice -/
theorem settings_actions_duplicated_no_actions :
    ((rep ⟨["c2pa.created", "c2pa.edited"], []⟩ 1 { s0 with assertions := [] }).map fun r =>
        r.assertions.map fun q => q.1.acts) =
      .ok [["c2pa.created", "c2pa.edited", "c2pa.created", "c2pa.edited"]] := by
  decide

/-- two actions assertions, the inception in the gathered one: signs directly; the restored
builder lists the created one first and `to_claim` refuses the inception in the second -/
theorem actions_reordered_resign_fails :
    (rep {} 0 { s0 with assertions := [⟨"c2pa.actions", "", ["c2pa.created"], [], false, false⟩,
        ⟨"c2pa.actions", "", ["c2pa.edited"], [], false, true⟩] }).isOk = true ∧
    rep {} 1 { s0 with assertions := [⟨"c2pa.actions", "", ["c2pa.created"], [], false, false⟩,
        ⟨"c2pa.actions", "", ["c2pa.edited"], [], false, true⟩] } = .error .badParam := by
  decide

/-- version-1 claim, validated signed ingredient with the thumbnail of its own manifest: one
round trip keeps the image (copied into a data box), the second loses the thumbnail — the data
box reference is declared stale and a version-1 ingredient assertion carries no validation
results to justify the fallback -/
theorem v1_ingredient_thumbnail_lost :
    (rep {} 0 (sCA 1 (some (.own true)))).map (fun r => r.ingredients.map (·.thumb)) = .ok [some "own:m0"] ∧
    (rep {} 1 (sCA 1 (some (.own true)))).map (fun r => r.ingredients.map (·.thumb)) = .ok [some "own:m0"] ∧
    (rep {} 2 (sCA 1 (some (.own true)))).map (fun r => r.ingredients.map (·.thumb)) = .ok [none] := by
  decide

/-- a caller-supplied thumbnail on a signed ingredient is replaced by the claim thumbnail of the
ingredient's manifest (version-2 claim), or lost (version-1 claim) -/
theorem user_ingredient_thumbnail_replaced :
    (rep {} 0 (sCA 2 (some (.res "user")))).map (fun r => r.ingredients.map (·.thumb)) = .ok [some "user"] ∧
    (rep {} 1 (sCA 2 (some (.res "user")))).map (fun r => r.ingredients.map (·.thumb)) = .ok [some "own:m0"] ∧
    (rep {} 1 (sCA 1 (some (.res "user")))).map (fun r => r.ingredients.map (·.thumb)) = .ok [none] := by
  decide

/-- an Edit intent without a parent ingredient: `sign` takes the source asset as parent, but
`to_archive` has no source asset and fails -/
theorem edit_intent_archive_fails :
    (rep {} 0 { s0 with intent := some .edit, assertions := [] }).isOk = true ∧
    encode {} { s0 with intent := some .edit, assertions := [] } "g" = .error .badParam := by
  decide

def sEditParent : BState :=
  { s0 with intent := some .edit, assertions := [], version := some 2
            ingredients := [⟨"CA", "f", "parentOf", "i", none, some "m0", [m0], some true, ["u"], some (.own true)⟩] }

def ingParent : Ing := ⟨"CA", "f", "parentOf", "i", none, some "m0", [m0], some true, ["u"], some (.own true)⟩

/-- a Create intent (and an Edit intent with a parent) is baked into the archived actions
assertion: the report is the same although the restored builder has no intent -/
theorem intent_baked :
    rep {} 1 { s0 with intent := some .create, assertions := [] } =
      rep {} 0 { s0 with intent := some .create, assertions := [] } ∧
    rep {} 2 sEditParent =
      rep {} 0 sEditParent := by
  decide

/-- a manifest of the ingredient's store that no ingredient assertion leads to is not carried
through the archive -/
theorem orphan_manifest_dropped :
    (rep {} 0 { s0 with ingredients := [ingCA none [m0, ⟨"m9", 1, false, [], []⟩]] }).map (·.manifests.length) = .ok 2 ∧
    (rep {} 1 { s0 with ingredients := [ingCA none [m0, ⟨"m9", 1, false, [], []⟩]] }).map (·.manifests.length) = .ok 1 := by
  decide

/-! ### chains on the shapes of the fixture ingredients (kernel-evaluated) -/

/-- ocsp.jpg: the active manifest refers to its ingredient through `c2pa_manifest` -/
def storeV1Chain : List Man := [⟨"m1", 1, false, ["c2pa.actions"], []⟩, ⟨"m0", 1, true, ["c2pa.actions"], [(false, "m1")]⟩]

/-- CACAE-uri-CA.jpg: three manifests, `c2pa_manifest` links -/
def storeV1Deep : List Man :=
  [⟨"m2", 1, true, ["x"], []⟩, ⟨"m1", 1, true, ["x"], [(false, "m2")]⟩, ⟨"m0", 1, true, ["x"], [(false, "m1")]⟩]

/-- CACA.jpg: `activeManifest` link -/
def storeV3Chain : List Man := [⟨"m1", 2, false, ["c2pa.actions.v2"], []⟩, ⟨"m0", 2, true, ["c2pa.actions.v2"], [(true, "m1")]⟩]

def sV1Chain : BState := { s0 with ingredients := [ingCA (some (.own true)) storeV1Chain] }
def sV1Deep : BState := { s0 with ingredients := [ingCA (some (.own true)) storeV1Deep] }
def sV3Chain : BState := { s0 with ingredients := [ingCA (some (.own true)) storeV3Chain, ingCA none []] }

theorem chain_examples_single :
    rep {} 1 (sCA 2 (some (.own true))) = rep {} 0 (sCA 2 (some (.own true))) ∧
    rep {} 2 (sCA 2 (some (.own true))) = rep {} 0 (sCA 2 (some (.own true))) ∧
    rep {} 3 (sCA 2 (some (.own true))) = rep {} 0 (sCA 2 (some (.own true))) := by
  decide +kernel

theorem chain_examples_v1_links :
    rep {} 1 sV1Chain = rep {} 0 sV1Chain ∧ rep {} 2 sV1Chain = rep {} 0 sV1Chain ∧
    rep {} 3 sV1Chain = rep {} 0 sV1Chain := by
  decide +kernel

theorem chain_examples_v1_deep :
    rep {} 1 sV1Deep = rep {} 0 sV1Deep ∧ rep {} 2 sV1Deep = rep {} 0 sV1Deep ∧
    rep {} 3 sV1Deep = rep {} 0 sV1Deep := by
  decide +kernel

theorem chain_examples_v3_links :
    rep {} 1 sV3Chain = rep {} 0 sV3Chain ∧ rep {} 2 sV3Chain = rep {} 0 sV3Chain ∧
    rep {} 3 sV3Chain = rep {} 0 sV3Chain := by
  decide +kernel

/-- version-1 claim: chains are faithful for signed ingredients without a reported thumbnail
(here: not validated) and for unsigned ingredients with a caller-supplied one -/
def ingInvalid : Ing := ⟨"CA", "f", "componentOf", "i", none, some "m0", storeV1Chain, some false, ["u"], none⟩
def ingPlainThumb : Ing := ⟨"U", "f", "componentOf", "i", none, none, [], none, [], some (.res "user")⟩
def sV1Invalid : BState := { s0 with version := some 1, ingredients := [ingInvalid] }
def sV1Plain : BState := { s0 with version := some 1, ingredients := [ingPlainThumb] }

theorem chain_examples_v1_claim :
    rep {} 1 sV1Invalid = rep {} 0 sV1Invalid ∧ rep {} 2 sV1Invalid = rep {} 0 sV1Invalid ∧
    rep {} 3 sV1Invalid = rep {} 0 sV1Invalid ∧
    rep {} 1 sV1Plain = rep {} 0 sV1Plain ∧ rep {} 2 sV1Plain = rep {} 0 sV1Plain ∧
    rep {} 3 sV1Plain = rep {} 0 sV1Plain := by
  decide +kernel

/-! ### non-vacuity -/

theorem sameSet_of_all {a b : List Man} (h1 : a.all (fun m => b.contains m) = true)
    (h2 : b.all (fun m => a.contains m) = true) : SameSet a b := by
  intro m
  constructor
  · intro hm
    have := List.all_eq_true.1 h1 m hm
    simpa using this
  · intro hm
    have := List.all_eq_true.1 h2 m hm
    simpa using this

/-- a state with a caller thumbnail, created and gathered assertions, an unsigned ingredient and
a signed one whose two manifests are linked by `c2pa_manifest` meets `WF` -/
example : WF {} { s0 with ingredients := [ingCA (some (.own true)) storeV1Chain, ingPlainThumb] } where
  cfg := ⟨rfl, rfl⟩
  ver := Or.inr rfl
  label := trivial
  alg := rfl
  reds := rfl
  embed := ⟨rfl, rfl⟩
  intent := rfl
  kept := by decide
  one := by unfold OneActions; decide
  sep := by unfold Sep; decide
  load := by
    intro i hi
    simp at hi
    rcases hi with rfl | rfl
    · exact Or.inr ⟨⟨"m0", 1, true, ["c2pa.actions"], [(false, "m1")]⟩, by decide, by decide⟩
    · exact Or.inl rfl
  thumbs := by
    intro i hi
    simp at hi
    rcases hi with rfl | rfl
    · exact Or.inr trivial
    · exact Or.inl rfl
  consistent := by unfold Consistent; decide
  flat := by
    intro i hi m hm
    simp at hi
    rcases hi with rfl | rfl
    · have : m = ⟨"m0", 1, true, ["c2pa.actions"], [(false, "m1")]⟩ := by
        have h : activeMan (ingCA (some (.own true)) storeV1Chain) =
            some ⟨"m0", 1, true, ["c2pa.actions"], [(false, "m1")]⟩ := by decide
        rw [h] at hm; cases hm; rfl
      subst this
      exact sameSet_of_all (by decide) (by decide)
    · have h : activeMan ingPlainThumb = none := by decide
      rw [h] at hm; cases hm

example : Plain s0 ∧ WF {} s0 :=
  ⟨by intro i hi; simp [s0] at hi,
   { cfg := ⟨rfl, rfl⟩, ver := Or.inr rfl, label := trivial, alg := rfl, reds := rfl
     embed := ⟨rfl, rfl⟩, intent := rfl, kept := by decide, one := by unfold OneActions; decide, sep := by unfold Sep; decide
     load := by intro i hi; simp [s0] at hi
     thumbs := by intro i hi; simp [s0] at hi
     consistent := by intro i hi; simp [s0] at hi
     flat := by intro i hi; simp [s0] at hi }⟩


/-- `with_archive ∘ to_archive` is not the identity on builder states, even on a well-formed
one: the restored builder has the archive's manifest label, marked generators, the typed actions
label, created-first assertion order and no `format` (version-2 claim) -/
example : (encode {} s0 "g").map decode ≠ .ok s0 := by decide

end C2pa.C22
