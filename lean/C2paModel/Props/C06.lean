import C2paModel.Model.C06
import C2paModel.Props.C04
/-
C06 — property theorems. The statement (properties.jsonl):

  If the signing certificate violates the C2PA certificate profile (not X.509 v3, CA certificate,
  self-signed, unsupported signature algorithm or curve, RSA key under 2048 bits, issuer/subject
  unique IDs, missing or disallowed key usage/EKU, unhandled critical extension, or not valid at
  the signing time), the manifest is never reported Valid or Trusted and a signingCredential
  failure code is reported. A conforming certificate is never flagged by these checks.

All theorems quantify over every `CertFacts` value (any extension list, any EKU set, any times)
and every `Env` (time stamp or not, any clock, any EKU configuration).
-/
namespace C2pa.C06

/-! ### The extension loop in closed form -/

def isAki (e : Ext) : Bool := match e.kind with | .aki => true | _ => false
def isSki (e : Ext) : Bool := match e.kind with | .ski => true | _ => false
/-- a keyUsage extension asserting keyCertSign -/
def kuCertSign (e : Ext) : Bool := match e.kind with | .keyUsage _ kcs _ => kcs | _ => false
/-- a keyUsage extension asserting one of the bits the code counts as usable -/
def kuUsable (e : Ext) : Bool := match e.kind with | .keyUsage ds kcs nr => ds || kcs || nr | _ => false
/-- a keyUsage extension asserting digitalSignature -/
def kuDigitalSignature (e : Ext) : Bool := match e.kind with | .keyUsage ds _ _ => ds | _ => false
def isKeyUsage (e : Ext) : Bool := match e.kind with | .keyUsage .. => true | _ => false
def unhandledCritical (e : Ext) : Bool := match e.kind with | .other => e.critical | _ => false

theorem extStep_spec (isCa : Bool) (fl : Flags) (e : Ext) :
    extStep isCa fl e =
      if kuCertSign e && !isCa then none
      else some { aki := fl.aki || isAki e, ski := fl.ski || isSki e,
                  keyUsage := fl.keyUsage || kuUsable e,
                  handledAllCritical := fl.handledAllCritical && !unhandledCritical e } := by
  obtain ⟨kind, crit⟩ := e
  obtain ⟨a, s, k, h⟩ := fl
  cases kind with
  | aki => simp [extStep, kuCertSign, isAki, isSki, kuUsable, unhandledCritical]
  | ski => simp [extStep, kuCertSign, isAki, isSki, kuUsable, unhandledCritical]
  | handled => simp [extStep, kuCertSign, isAki, isSki, kuUsable, unhandledCritical]
  | other => cases crit <;> simp [extStep, kuCertSign, isAki, isSki, kuUsable, unhandledCritical]
  | keyUsage ds kcs nr =>
    cases ds <;> cases kcs <;> cases nr <;> cases isCa <;> cases k <;>
      simp [extStep, kuCertSign, isAki, isSki, kuUsable, unhandledCritical]

/-- **The loop, for every extension list**: it aborts exactly when some keyUsage extension
asserts keyCertSign on a non-CA certificate; otherwise the flags are the obvious `any`s. -/
theorem extLoop_spec (isCa : Bool) : ∀ (es : List Ext) (fl : Flags),
    extLoop isCa es fl =
      if es.any (fun e => kuCertSign e && !isCa) then none
      else some { aki := fl.aki || es.any isAki, ski := fl.ski || es.any isSki,
                  keyUsage := fl.keyUsage || es.any kuUsable,
                  handledAllCritical := fl.handledAllCritical && !es.any unhandledCritical } := by
  intro es
  induction es with
  | nil => intro fl; simp [extLoop]
  | cons e es ih =>
    intro fl
    unfold extLoop
    rw [extStep_spec]
    by_cases h : (kuCertSign e && !isCa) = true
    · simp [h]
    · have h' : (kuCertSign e && !isCa) = false := by simpa using h
      simp only [h', Bool.false_eq_true, if_false, List.any_cons, Bool.false_or]
      rw [ih]
      by_cases h2 : (es.any fun e => kuCertSign e && !isCa) = true
      · simp [h2]
      · simp only [h2]
        simp [Bool.or_assoc, Bool.and_assoc, Bool.not_or]

/-! ### Conformance, declaratively -/

/-- The certificate profile as the code enforces it, stated over the decoded facts. -/
structure Conforming (env : Env) (f : CertFacts) : Prop where
  parses : f.parses = true
  v3 : f.version = 2
  notBefore : f.notBefore ≤ signingTime env
  notAfter : signingTime env ≤ f.notAfter
  sigAlg : f.sigAlg ≠ .other
  pss : f.sigAlg = .pss → ∃ h, f.pss = .params h true ∧ h ≠ .other
  curve : f.spkiAlg = .ec → f.ecParams = .p256 ∨ f.ecParams = .p384 ∨ f.ecParams = .p521
  rsa : f.spkiAlg = .rsa ∨ f.spkiAlg = .rsapss → f.rsaKeyOk = true ∧ 2048 ≤ f.rsaBits
  noDuplicateExt : f.dupExt = false
  notSelfSigned : f.issuerEqSubject = false
  noIssuerUid : f.issuerUid = false
  noSubjectUid : f.subjectUid = false
  notCa : f.isCa = false
  eku : ∃ e, f.eku = .some e ∧ e.any = false ∧ hasAllowedEku env.allowedEkus e = true ∧ badEkuSet e = false
  noCertSign : ∀ x ∈ f.exts, kuCertSign x = false
  aki : ∃ x ∈ f.exts, isAki x = true
  keyUsage : ∃ x ∈ f.exts, kuUsable x = true
  noUnhandledCritical : ∀ x ∈ f.exts, unhandledCritical x = false

theorem checkEndEntity_ok_iff_inner (env : Env) (f : CertFacts) :
    checkEndEntity env f = .ok ↔ checkInner env f = none ∧ f.parses = true ∧ f.isCa = false := by
  unfold checkEndEntity checkProfile
  cases h : checkInner env f with
  | none => cases hp : f.parses <;> cases hc : f.isCa <;> simp
  | some r =>
    obtain ⟨k, l⟩ := r
    cases l with
    | none => simp
    | some cr => obtain ⟨c, r⟩ := cr; simp

theorem headCheck_none_iff (env : Env) (f : CertFacts) :
    headCheck env f = none ↔
      f.parses = true ∧ f.version = 2 ∧ validAt f (signingTime env) = true ∧ f.sigAlg ≠ .other := by
  unfold headCheck
  cases hp : f.parses
  · simp
  · by_cases hv : f.version = 2
    · cases hva : validAt f (signingTime env)
      · simp [hv]
      · cases hs : f.sigAlg <;> simp [hv, sigAlgAccepted]
    · simp [hv]

theorem pssCheck_none_iff (f : CertFacts) :
    pssCheck f = none ↔ (f.sigAlg = .pss → ∃ h, f.pss = .params h true ∧ h ≠ .other) := by
  unfold pssCheck
  by_cases hs : f.sigAlg = .pss
  · simp only [hs, if_true, true_implies]
    cases hp : f.pss with
    | absent => simp
    | malformed => simp
    | params h same => cases same <;> cases h <;> simp [hashMandatory]
  · simp [hs]

theorem curveCheck_none_iff (f : CertFacts) :
    curveCheck f = none ↔
      (f.spkiAlg = .ec → f.ecParams = .p256 ∨ f.ecParams = .p384 ∨ f.ecParams = .p521) := by
  unfold curveCheck
  by_cases hs : f.spkiAlg = .ec
  · simp only [hs, if_true, true_implies]
    cases hp : f.ecParams <;> simp [curveAccepted]
  · simp [hs]

theorem rsaCheck_none_iff (f : CertFacts) :
    rsaCheck f = none ↔
      (f.spkiAlg = .rsa ∨ f.spkiAlg = .rsapss → f.rsaKeyOk = true ∧ 2048 ≤ f.rsaBits) := by
  unfold rsaCheck
  cases hs : f.spkiAlg
  · cases hk : f.rsaKeyOk
    · simp
    · by_cases hbits : f.rsaBits < 2048
      · simp [hbits]
      · simp [hbits]; omega
  · cases hk : f.rsaKeyOk
    · simp
    · by_cases hbits : f.rsaBits < 2048
      · simp [hbits]
      · simp [hbits]; omega
  · simp
  · simp

theorem idCheck_none_iff (f : CertFacts) :
    idCheck f = none ↔
      f.dupExt = false ∧ f.issuerEqSubject = false ∧ f.issuerUid = false ∧ f.subjectUid = false := by
  unfold idCheck
  cases f.dupExt <;> cases f.issuerEqSubject <;> cases f.issuerUid <;> cases f.subjectUid <;> simp

theorem not_any_iff {α} (l : List α) (p : α → Bool) : l.any p = false ↔ ∀ x ∈ l, p x = false := by
  induction l with
  | nil => simp
  | cons a l ih => simp [List.any_cons, Bool.or_eq_false_iff, ih]

theorem any_iff {α} (l : List α) (p : α → Bool) : l.any p = true ↔ ∃ x ∈ l, p x = true := by
  simp [List.any_eq_true]

/-- The extension part of the tail for a non-CA certificate, given the EKU verdict. -/
theorem extPart_none_iff (f : CertFacts) (hca : f.isCa = false) (b : Bool) :
    extPart f b = none ↔
    b = true ∧ f.exts.any kuCertSign = false ∧ f.exts.any isAki = true ∧
      f.exts.any kuUsable = true ∧ f.exts.any unhandledCritical = false := by
  unfold extPart
  rw [extLoop_spec, hca]
  simp only [Bool.not_false, Bool.and_true]
  cases hcs : f.exts.any kuCertSign
  · simp only [Bool.false_eq_true, if_false, finalFlags, hca]
    cases ha : f.exts.any isAki <;> cases hk : f.exts.any kuUsable <;>
      cases hu : f.exts.any unhandledCritical <;> cases b <;> simp
  · simp

theorem ekuGood_cases (env : Env) (f : CertFacts) (hca : f.isCa = false) :
    (ekuGood env f = .ok true ∧
      ∃ e, f.eku = .some e ∧ e.any = false ∧ hasAllowedEku env.allowedEkus e = true ∧ badEkuSet e = false) ∨
    ((ekuGood env f = .ok false ∨ ∃ r, ekuGood env f = .error r) ∧
      ¬ ∃ e, f.eku = .some e ∧ e.any = false ∧ hasAllowedEku env.allowedEkus e = true ∧ badEkuSet e = false) := by
  unfold ekuGood
  cases he : f.eku with
  | none => right; simp [hca]
  | err => right; simp
  | some e =>
    cases ha : e.any
    · cases hh : hasAllowedEku env.allowedEkus e
      · right; simp [ha, hh]
      · cases hb : badEkuSet e
        · left; simp [ha, hh, hb]
        · right; simp [ha, hh, hb]
    · right; simp [ha]

/-- The tail of `check_certificate_profile_inner` (EKU block, extension loop, final flag test)
for a non-CA certificate. -/
theorem tailCheck_none_iff (env : Env) (f : CertFacts) (hca : f.isCa = false) :
    tailCheck env f = none ↔
    (∃ e, f.eku = .some e ∧ e.any = false ∧ hasAllowedEku env.allowedEkus e = true ∧ badEkuSet e = false) ∧
    (∀ x ∈ f.exts, kuCertSign x = false) ∧ (∃ x ∈ f.exts, isAki x = true) ∧
    (∃ x ∈ f.exts, kuUsable x = true) ∧ (∀ x ∈ f.exts, unhandledCritical x = false) := by
  rw [← not_any_iff, ← any_iff, ← any_iff, ← not_any_iff]
  unfold tailCheck
  rcases ekuGood_cases env f hca with ⟨hok, hex⟩ | ⟨hbad, hne⟩
  · rw [hok]
    simp only
    rw [extPart_none_iff f hca true]
    constructor
    · rintro ⟨_, h⟩; exact ⟨hex, h⟩
    · rintro ⟨_, h⟩; exact ⟨rfl, h⟩
  · rcases hbad with hf | ⟨r, hr⟩
    · rw [hf]
      simp only
      rw [extPart_none_iff f hca false]
      constructor
      · rintro ⟨h, _⟩; cases h
      · rintro ⟨h, _⟩; exact absurd h hne
    · rw [hr]
      simp only
      constructor
      · intro h; cases h
      · rintro ⟨h, _⟩; exact absurd h hne

theorem checkInner_none_iff (env : Env) (f : CertFacts) (hca : f.isCa = false) :
    checkInner env f = none ↔
      (f.parses = true ∧ f.version = 2 ∧ validAt f (signingTime env) = true ∧ f.sigAlg ≠ .other) ∧
      pssCheck f = none ∧ curveCheck f = none ∧ rsaCheck f = none ∧
      (f.dupExt = false ∧ f.issuerEqSubject = false ∧ f.issuerUid = false ∧ f.subjectUid = false) ∧
      ((∃ e, f.eku = .some e ∧ e.any = false ∧ hasAllowedEku env.allowedEkus e = true ∧ badEkuSet e = false) ∧
       (∀ x ∈ f.exts, kuCertSign x = false) ∧ (∃ x ∈ f.exts, isAki x = true) ∧
       (∃ x ∈ f.exts, kuUsable x = true) ∧ (∀ x ∈ f.exts, unhandledCritical x = false)) := by
  unfold checkInner
  simp only [Option.or_eq_none_iff]
  rw [headCheck_none_iff, idCheck_none_iff, tailCheck_none_iff env f hca]

/-- **Accepted ⇔ conforming**: `check_end_entity_certificate_profile` returns `Ok` exactly for
the certificates that satisfy every rule, for every environment. -/
theorem accepted_iff_conforming (env : Env) (f : CertFacts) :
    checkEndEntity env f = .ok ↔ Conforming env f := by
  rw [checkEndEntity_ok_iff_inner]
  constructor
  · rintro ⟨hin, hp, hca⟩
    obtain ⟨⟨_, hv, hva, hs⟩, hpss, hcu, hr, ⟨hd, hss, hiu, hsu⟩, he, hcs, ha, hk, hu⟩ :=
      (checkInner_none_iff env f hca).1 hin
    have hva' : f.notBefore ≤ signingTime env ∧ signingTime env ≤ f.notAfter := by
      simpa [validAt] using hva
    exact ⟨hp, hv, hva'.1, hva'.2, hs, (pssCheck_none_iff f).1 hpss, (curveCheck_none_iff f).1 hcu,
      (rsaCheck_none_iff f).1 hr, hd, hss, hiu, hsu, hca, he, hcs, ha, hk, hu⟩
  · intro c
    refine ⟨(checkInner_none_iff env f c.notCa).2 ⟨⟨c.parses, c.v3, ?_, c.sigAlg⟩,
      (pssCheck_none_iff f).2 c.pss, (curveCheck_none_iff f).2 c.curve, (rsaCheck_none_iff f).2 c.rsa,
      ⟨c.noDuplicateExt, c.notSelfSigned, c.noIssuerUid, c.noSubjectUid⟩, c.eku, c.noCertSign, c.aki,
      c.keyUsage, c.noUnhandledCritical⟩, c.parses, c.notCa⟩
    simp [validAt, c.notBefore, c.notAfter]

/-- **A conforming certificate is never flagged.** -/
theorem conforming_accepted (env : Env) (f : CertFacts) (h : Conforming env f) :
    checkEndEntity env f = .ok := (accepted_iff_conforming env f).2 h

/-- Rejection always comes with exactly one logged `signingCredential.*` failure (there is no
silent rejection): by the shape of `Res`, stated for the record. -/
theorem rejected_reports_failure (env : Env) (f : CertFacts) (h : (checkEndEntity env f).rejected = true) :
    ∃ k c r, checkEndEntity env f = .err k c r := by
  cases hr : checkEndEntity env f with
  | ok => rw [hr] at h; cases h
  | err k c r => exact ⟨k, c, r, rfl⟩

theorem rejected_of_not_conforming (env : Env) (f : CertFacts) (h : ¬ Conforming env f) :
    (checkEndEntity env f).rejected = true := by
  cases hr : checkEndEntity env f with
  | ok => exact absurd ((accepted_iff_conforming env f).1 hr) h
  | err k c r => rfl

/-! ### each_violation_rejected: one lemma per rule of the statement -/

theorem unparseable_rejected (env f) (h : f.parses = false) : (checkEndEntity env f).rejected = true :=
  rejected_of_not_conforming env f (fun c => by rw [c.parses] at h; cases h)

theorem not_v3_rejected (env f) (h : f.version ≠ 2) : (checkEndEntity env f).rejected = true :=
  rejected_of_not_conforming env f (fun c => h c.v3)

theorem ca_certificate_rejected (env f) (h : f.isCa = true) : (checkEndEntity env f).rejected = true :=
  rejected_of_not_conforming env f (fun c => by rw [c.notCa] at h; cases h)

theorem self_signed_rejected (env f) (h : f.issuerEqSubject = true) : (checkEndEntity env f).rejected = true :=
  rejected_of_not_conforming env f (fun c => by rw [c.notSelfSigned] at h; cases h)

theorem unsupported_signature_algorithm_rejected (env f) (h : f.sigAlg = .other) :
    (checkEndEntity env f).rejected = true :=
  rejected_of_not_conforming env f (fun c => c.sigAlg h)

/-- RSASSA-PSS with absent / undecodable parameters, a non-mandatory hash, or an MGF hash that
differs from the message hash. -/
theorem unsupported_pss_parameters_rejected (env f) (hs : f.sigAlg = .pss)
    (h : ∀ hh, f.pss = .params hh true → hh = .other) : (checkEndEntity env f).rejected = true :=
  rejected_of_not_conforming env f (fun c => by
    obtain ⟨hh, hp, hne⟩ := c.pss hs
    exact hne (h hh hp))

theorem unsupported_curve_rejected (env f) (hs : f.spkiAlg = .ec)
    (h : f.ecParams ≠ .p256 ∧ f.ecParams ≠ .p384 ∧ f.ecParams ≠ .p521) :
    (checkEndEntity env f).rejected = true :=
  rejected_of_not_conforming env f (fun c => by
    rcases c.curve hs with h1 | h1 | h1
    · exact h.1 h1
    · exact h.2.1 h1
    · exact h.2.2 h1)

theorem short_rsa_key_rejected (env f) (hs : f.spkiAlg = .rsa ∨ f.spkiAlg = .rsapss) (h : f.rsaBits < 2048) :
    (checkEndEntity env f).rejected = true :=
  rejected_of_not_conforming env f (fun c => by have := (c.rsa hs).2; omega)

theorem unique_id_rejected (env f) (h : f.issuerUid = true ∨ f.subjectUid = true) :
    (checkEndEntity env f).rejected = true :=
  rejected_of_not_conforming env f (fun c => by
    rcases h with h | h
    · rw [c.noIssuerUid] at h; cases h
    · rw [c.noSubjectUid] at h; cases h)

theorem duplicate_extension_rejected (env f) (h : f.dupExt = true) : (checkEndEntity env f).rejected = true :=
  rejected_of_not_conforming env f (fun c => by rw [c.noDuplicateExt] at h; cases h)

theorem key_usage_missing_rejected (env f) (h : ∀ x ∈ f.exts, isKeyUsage x = false) :
    (checkEndEntity env f).rejected = true :=
  rejected_of_not_conforming env f (fun c => by
    obtain ⟨x, hx, hu⟩ := c.keyUsage
    have := h x hx
    unfold kuUsable at hu; unfold isKeyUsage at this
    cases hk : x.kind <;> simp [hk] at hu this)

theorem key_usage_without_usable_bit_rejected (env f) (h : ∀ x ∈ f.exts, kuUsable x = false) :
    (checkEndEntity env f).rejected = true :=
  rejected_of_not_conforming env f (fun c => by
    obtain ⟨x, hx, hu⟩ := c.keyUsage
    rw [h x hx] at hu; cases hu)

theorem key_cert_sign_rejected (env f) (h : ∃ x ∈ f.exts, kuCertSign x = true) :
    (checkEndEntity env f).rejected = true :=
  rejected_of_not_conforming env f (fun c => by
    obtain ⟨x, hx, hk⟩ := h
    rw [c.noCertSign x hx] at hk; cases hk)

theorem eku_missing_rejected (env f) (h : f.eku = .none) : (checkEndEntity env f).rejected = true :=
  rejected_of_not_conforming env f (fun c => by
    obtain ⟨e, he, _⟩ := c.eku
    rw [h] at he; cases he)

theorem eku_undecodable_rejected (env f) (h : f.eku = .err) : (checkEndEntity env f).rejected = true :=
  rejected_of_not_conforming env f (fun c => by
    obtain ⟨e, he, _⟩ := c.eku
    rw [h] at he; cases he)

theorem eku_any_rejected (env f e) (h : f.eku = .some e) (ha : e.any = true) :
    (checkEndEntity env f).rejected = true :=
  rejected_of_not_conforming env f (fun c => by
    obtain ⟨e', he, hany, _⟩ := c.eku
    rw [h] at he; cases he; rw [ha] at hany; cases hany)

/-- No accepted purpose: none of emailProtection / timeStamping / OCSPSigning and no OID of the
configured list. -/
theorem eku_not_accepted_rejected (env f e) (h : f.eku = .some e)
    (h1 : e.emailProtection = false) (h2 : e.timeStamping = false) (h3 : e.ocspSigning = false)
    (h4 : ∀ o ∈ e.other, o ∉ env.allowedEkus) : (checkEndEntity env f).rejected = true :=
  rejected_of_not_conforming env f (fun c => by
    obtain ⟨e', he, _, hal, _⟩ := c.eku
    rw [h] at he; cases he
    unfold hasAllowedEku at hal
    simp only [h1, h2, h3, Bool.false_or, List.any_eq_true] at hal
    obtain ⟨o, ho, hc⟩ := hal
    exact h4 o ho (by simpa using hc))

/-- timeStamping / OCSPSigning mixed with each other or with any other purpose. -/
theorem eku_exclusive_purpose_mixed_rejected (env f e) (h : f.eku = .some e) (hb : badEkuSet e = true) :
    (checkEndEntity env f).rejected = true :=
  rejected_of_not_conforming env f (fun c => by
    obtain ⟨e', he, _, _, hbad⟩ := c.eku
    rw [h] at he; cases he; rw [hb] at hbad; cases hbad)

theorem unhandled_critical_extension_rejected (env f) (h : ∃ x ∈ f.exts, unhandledCritical x = true) :
    (checkEndEntity env f).rejected = true :=
  rejected_of_not_conforming env f (fun c => by
    obtain ⟨x, hx, hu⟩ := h
    rw [c.noUnhandledCritical x hx] at hu; cases hu)

theorem authority_key_identifier_missing_rejected (env f) (h : ∀ x ∈ f.exts, isAki x = false) :
    (checkEndEntity env f).rejected = true :=
  rejected_of_not_conforming env f (fun c => by
    obtain ⟨x, hx, ha⟩ := c.aki
    rw [h x hx] at ha; cases ha)

theorem not_valid_at_signing_time_rejected (env f)
    (h : signingTime env < f.notBefore ∨ f.notAfter < signingTime env) :
    (checkEndEntity env f).rejected = true :=
  rejected_of_not_conforming env f (fun c => by
    have := c.notBefore; have := c.notAfter; omega)

/-- …and for a parseable v3 certificate the reported code is `signingCredential.expired`. -/
theorem not_valid_at_signing_time_code (env f) (hp : f.parses = true) (hv : f.version = 2)
    (h : signingTime env < f.notBefore ∨ f.notAfter < signingTime env) :
    checkEndEntity env f = .err .certificateNotValidAtTime .expired .expired := by
  have hva : validAt f (signingTime env) = false := by
    unfold validAt
    rcases h with h | h
    · have : ¬ f.notBefore ≤ signingTime env := by omega
      simp [this]
    · have : ¬ signingTime env ≤ f.notAfter := by omega
      simp [this]
  unfold checkEndEntity checkProfile checkInner headCheck
  simp [hp, hv, hva, rej]

/-! ### The rule of the statement the code does *not* enforce: digitalSignature -/

/-- The statement's key-usage rule read with the C2PA profile: a signing certificate none of
whose keyUsage extensions asserts digitalSignature is rejected. -/
def DigitalSignatureRequired : Prop :=
  ∀ env f, (∀ x ∈ f.exts, kuDigitalSignature x = false) → (checkEndEntity env f).rejected = true

/-- A certificate conforming in everything except that its key usage is {nonRepudiation}. -/
def exNonRepudiationOnly : CertFacts :=
  { notBefore := 0, notAfter := 100, eku := .some { emailProtection := true },
    exts := [⟨.handled, true⟩, ⟨.keyUsage false false true, true⟩, ⟨.handled, false⟩, ⟨.ski, false⟩, ⟨.aki, false⟩] }

/-- **The code falsifies that rule** (known finding `ku-without-digital-signature-accepted`,
replayed by the harness): nonRepudiation alone is accepted. -/
theorem digital_signature_required_false : ¬ DigitalSignatureRequired := by
  intro h
  have := h { now := 50 } exNonRepudiationOnly (by decide)
  revert this; decide

/-- What does hold (`…_partial`): without any of digitalSignature / keyCertSign /
nonRepudiation the certificate is rejected, and keyCertSign is rejected on every end-entity
certificate. -/
theorem key_usage_rejected_partial (env f)
    (h : (∀ x ∈ f.exts, kuUsable x = false) ∨ (∃ x ∈ f.exts, kuCertSign x = true)) :
    (checkEndEntity env f).rejected = true := by
  rcases h with h | h
  · exact key_usage_without_usable_bit_rejected env f h
  · exact key_cert_sign_rejected env f h

/-! ### expired_needs_timestamp -/

/-- Without a time stamp the clock decides: a certificate whose validity ended before now is
reported `signingCredential.expired`, whatever else is true of it. -/
theorem expired_without_timestamp (env f) (hp : f.parses = true) (hv : f.version = 2)
    (ht : env.tst = none) (h : f.notAfter < env.now) :
    checkEndEntity env f = .err .certificateNotValidAtTime .expired .expired := by
  apply not_valid_at_signing_time_code env f hp hv
  right; simp only [signingTime, ht]; exact h

/-- With a time stamp the clock is irrelevant: the outcome is the same for every `now`. -/
theorem timestamp_overrides_clock (env : Env) (t : Int) (n : Int) (f : CertFacts) :
    checkEndEntity { env with tst := some t, now := n } f = checkEndEntity { env with tst := some t } f := by
  unfold checkEndEntity checkProfile checkInner headCheck tailCheck signingTime ekuGood
  rfl

/-- **An expired certificate is accepted exactly when a time stamp places the signature inside
its validity window** (and the rest of the profile holds). -/
theorem expired_needs_timestamp (env : Env) (f : CertFacts) (hexp : f.notAfter < env.now) :
    checkEndEntity env f = .ok ↔
      ∃ t, env.tst = some t ∧ f.notBefore ≤ t ∧ t ≤ f.notAfter ∧ Conforming env f := by
  rw [accepted_iff_conforming]
  constructor
  · intro c
    cases ht : env.tst with
    | none =>
      have := c.notAfter
      simp only [signingTime, ht] at this
      omega
    | some t =>
      refine ⟨t, rfl, ?_, ?_, c⟩
      · have := c.notBefore; simp only [signingTime, ht] at this; exact this
      · have := c.notAfter; simp only [signingTime, ht] at this; exact this
  · rintro ⟨_, _, _, _, c⟩; exact c

/-! ### Composition with C04: rejected ⇒ non-tolerated failure ⇒ not Valid, not Trusted -/

theorem code_not_tolerated (c : Code) : C04.tolerated c.code = false := by
  cases c <;> decide

theorem profile_failure_in_codes (mode : Mode) (k : ErrKind) (c : Code) (r : Rule) (trust : Trust)
    (sigOk : Bool) (hm : mode ≠ .ignore) :
    c.code ∈ (signatureCodes mode (.err k c r) trust sigOk).failure := by
  unfold signatureCodes profileFailure
  simp [hm]

/-- A results value whose active manifest carries a non-tolerated failure is Invalid. -/
theorem invalid_of_active_failure (r : C04.Results) (a : C04.Codes) (c : C04.Code)
    (ha : r.active = some a) (hc : c ∈ a.failure) (ht : C04.tolerated c = false) :
    C04.state r = .invalid := by
  rw [C04.state_invalid_iff]
  rintro ⟨a', ha', _, _, hf, _⟩
  rw [ha] at ha'; cases ha'
  have := hf c hc; rw [ht] at this; cases this

theorem add_preserves_failure (a : C04.Codes) (s : C04.Status) (c : C04.Code) (h : c ∈ a.failure) :
    c ∈ (a.add s).failure := by
  unfold C04.Codes.add
  cases s.kind <;> simp [h]

/-- Whatever is logged afterwards (any status, any kind, active manifest or ingredient), an
active-manifest failure stays. -/
theorem addStatus_preserves_active_failure (r : C04.Results) (s : C04.Status) (c : C04.Code)
    (h : ∃ a, r.active = some a ∧ c ∈ a.failure) :
    ∃ a, (C04.addStatus r s).active = some a ∧ c ∈ a.failure := by
  obtain ⟨a, ha, hc⟩ := h
  unfold C04.addStatus
  cases hu : s.uri with
  | none => exact ⟨_, rfl, by rw [ha]; exact add_preserves_failure a s c hc⟩
  | some u =>
    simp only
    cases hadd : C04.addToFirst u s (C04.deltasOf r) with
    | some ds => exact ⟨a, ha, hc⟩
    | none => exact ⟨a, ha, hc⟩

theorem foldl_preserves_active_failure (ss : List C04.Status) (c : C04.Code) :
    ∀ r : C04.Results, (∃ a, r.active = some a ∧ c ∈ a.failure) →
      ∃ a, (ss.foldl C04.addStatus r).active = some a ∧ c ∈ a.failure := by
  induction ss with
  | nil => intro r h; exact h
  | cons s ss ih => intro r h; exact ih _ (addStatus_preserves_active_failure r s c h)

/-- **Rejected ⇒ never Valid or Trusted**, for every verifier mode that checks the profile,
every trust verdict, every signature outcome and *every* sequence of further statuses the rest
of validation may log (assertion results, ingredient deltas, …): the state is Invalid and the
`signingCredential.*` failure code is among the reported failures. -/
theorem rejected_never_valid (env : Env) (f : CertFacts) (mode : Mode) (hm : mode ≠ .ignore)
    (trust : Trust) (sigOk : Bool) (later : List C04.Status)
    (h : (checkEndEntity env f).rejected = true) :
    let r := later.foldl C04.addStatus (resultsOf (signatureCodes mode (checkEndEntity env f) trust sigOk))
    C04.state r = .invalid ∧
      ∃ a c, r.active = some a ∧ (c = Code.invalid ∨ c = Code.expired) ∧ c.code ∈ a.failure := by
  obtain ⟨k, c, rl, hr⟩ := rejected_reports_failure env f h
  rw [hr]
  have h0 : ∃ a, (resultsOf (signatureCodes mode (.err k c rl) trust sigOk)).active = some a ∧
      c.code ∈ a.failure := ⟨_, rfl, profile_failure_in_codes mode k c rl trust sigOk hm⟩
  obtain ⟨a, ha, hc⟩ := foldl_preserves_active_failure later c.code _ h0
  refine ⟨invalid_of_active_failure _ a c.code ha hc (code_not_tolerated c), a, c, ha, ?_, hc⟩
  cases c <;> simp

/-- Each violation of the statement, end to end (instances of the above). -/
theorem each_violation_rejected (env : Env) (f : CertFacts)
    (h : f.version ≠ 2 ∨ f.isCa = true ∨ f.issuerEqSubject = true ∨ f.sigAlg = .other ∨
      (f.sigAlg = .pss ∧ ∀ hh, f.pss = .params hh true → hh = .other) ∨
      (f.spkiAlg = .ec ∧ f.ecParams ≠ .p256 ∧ f.ecParams ≠ .p384 ∧ f.ecParams ≠ .p521) ∨
      ((f.spkiAlg = .rsa ∨ f.spkiAlg = .rsapss) ∧ f.rsaBits < 2048) ∨
      f.issuerUid = true ∨ f.subjectUid = true ∨
      (∀ x ∈ f.exts, kuUsable x = false) ∨ (∃ x ∈ f.exts, kuCertSign x = true) ∨
      f.eku = .none ∨ f.eku = .err ∨
      (∃ e, f.eku = .some e ∧ (e.any = true ∨ hasAllowedEku env.allowedEkus e = false ∨ badEkuSet e = true)) ∨
      (∃ x ∈ f.exts, unhandledCritical x = true) ∨
      signingTime env < f.notBefore ∨ f.notAfter < signingTime env) :
    (checkEndEntity env f).rejected = true := by
  apply rejected_of_not_conforming
  intro c
  rcases h with h | h | h | h | ⟨hs, h⟩ | ⟨hs, h⟩ | ⟨hs, h⟩ | h | h | h | h | h | h | ⟨e, he, h⟩ | h | h | h
  · exact h c.v3
  · rw [c.notCa] at h; cases h
  · rw [c.notSelfSigned] at h; cases h
  · exact c.sigAlg h
  · obtain ⟨hh, hp, hne⟩ := c.pss hs; exact hne (h hh hp)
  · rcases c.curve hs with h1 | h1 | h1
    · exact h.1 h1
    · exact h.2.1 h1
    · exact h.2.2 h1
  · have := (c.rsa hs).2; omega
  · rw [c.noIssuerUid] at h; cases h
  · rw [c.noSubjectUid] at h; cases h
  · obtain ⟨x, hx, hu⟩ := c.keyUsage; rw [h x hx] at hu; cases hu
  · obtain ⟨x, hx, hk⟩ := h; rw [c.noCertSign x hx] at hk; cases hk
  · obtain ⟨e, he, _⟩ := c.eku; rw [h] at he; cases he
  · obtain ⟨e, he, _⟩ := c.eku; rw [h] at he; cases he
  · obtain ⟨e', he', h1, h2, h3⟩ := c.eku
    rw [he] at he'; cases he'
    rcases h with h | h | h
    · rw [h1] at h; cases h
    · rw [h2] at h; cases h
    · rw [h3] at h; cases h
  · obtain ⟨x, hx, hu⟩ := h; rw [c.noUnhandledCritical x hx] at hu; cases hu
  · have := c.notBefore; omega
  · have := c.notAfter; omega

/-- A conforming, trusted, correctly signed credential yields Trusted; untrusted yields Valid
(no later failures): the profile check contributes nothing. -/
theorem conforming_state (env : Env) (f : CertFacts) (h : Conforming env f) (trust : Trust) :
    C04.state (resultsOf (signatureCodes .trustPolicy (checkEndEntity env f) trust true)) =
      (match trust with | .trusted => .trusted | .untrusted => .valid) := by
  rw [conforming_accepted env f h]
  cases trust <;> decide

/-! ### Non-vacuity -/

def exConforming : CertFacts :=
  { notBefore := 0, notAfter := 100, eku := .some { emailProtection := true },
    exts := [⟨.handled, true⟩, ⟨.keyUsage true false false, true⟩, ⟨.handled, false⟩, ⟨.ski, false⟩, ⟨.aki, false⟩] }

example : checkEndEntity { now := 50 } exConforming = .ok := by decide
example : Conforming { now := 50 } exConforming := (accepted_iff_conforming _ _).1 (by decide)
example : checkEndEntity { now := 500 } exConforming = .err .certificateNotValidAtTime .expired .expired := by decide
example : checkEndEntity { now := 500, tst := some 100 } exConforming = .ok := by decide
example : checkEndEntity { now := 50 } { exConforming with issuerEqSubject := true }
    = .err .selfSignedCertificate .invalid .selfSigned := by decide
example : checkEndEntity { now := 50 } { exConforming with sigAlg := .pss, pss := .malformed }
    = .err .invalidCertificate .invalid .unlogged := by decide
example : checkEndEntity { now := 50 } { exConforming with isCa := true }
    = .err .invalidCertificate .invalid .endEntityIsCa := by decide
example : checkEndEntity { now := 50 }
    { exConforming with exts := [⟨.keyUsage false true false, true⟩, ⟨.aki, false⟩] }
    = .err .invalidCertificate .invalid .kuCertSign := by decide
example : C04.state (resultsOf (signatureCodes .trustPolicy
    (checkEndEntity { now := 50 } { exConforming with subjectUid := true }) .trusted true)) = .invalid := by decide

end C2pa.C06
