import C2paModel.Model.C06
import C2paModel.Props.C04
/-
C06 — property theorems. The statement (properties.jsonl):

  If the signing certificate violates the C2PA certificate profile (not X.509 v3, CA certificate,
  self-signed, unsupported signature algorithm or curve, RSA key under 2048 bits, issuer/subject
  unique IDs, missing or disallowed key usage/EKU, unhandled critical extension, or not valid at
  the signing time), the manifest is never reported Valid or Trusted and a signingCredential
  failure code is reported. A conforming certificate is never flagged by these checks.

All theorems quantify over every `CertFacts` value (any extension list, any EKU set, any times)
and every `Env` (time stamp or not, any clock, any EKU configuration).
-/
namespace C2pa.C06

/-! ### The extension loop in closed form -/

def isAki (e : Ext) : Bool := match e.kind with | .aki => true | _ => false
def isSki (e : Ext) : Bool := match e.kind with | .ski => true | _ => false
/-- a keyUsage extension asserting keyCertSign -/
def kuCertSign (e : Ext) : Bool := match e.kind with | .keyUsage _ kcs _ => kcs | _ => false
/-- a keyUsage extension asserting one of the bits the code counts as usable -/
def kuUsable (e : Ext) : Bool := match e.kind with | .keyUsage ds kcs nr => ds || kcs || nr | _ => false
/-- a keyUsage extension asserting digitalSignature -/
def kuDigitalSignature (e : Ext) : Bool := match e.kind with | .keyUsage ds _ _ => ds | _ => false
def isKeyUsage (e : Ext) : Bool := match e.kind with | .keyUsage .. => true | _ => false
def unhandledCritical (e : Ext) : Bool := match e.kind with | .other => e.critical | _ => false

theorem extStep_spec (isCa : Bool) (fl : Flags) (e : Ext) :
    extStep isCa fl e =
      if kuCertSign e && !isCa then none
      else some { aki := fl.aki || isAki e, ski := fl.ski || isSki e,
                  keyUsage := fl.keyUsage || kuUsable e,
                  handledAllCritical := fl.handledAllCritical && !unhandledCritical e } := by
  obtain ⟨kind, crit⟩ := e
  obtain ⟨a, s, k, h⟩ := fl
  cases kind with
  | aki => simp [extStep, kuCertSign, isAki, isSki, kuUsable, unhandledCritical]
  | ski => simp [extStep, kuCertSign, isAki, isSki, kuUsable, unhandledCritical]
  | handled => simp [extStep, kuCertSign, isAki, isSki, kuUsable, unhandledCritical]
  | other => cases crit <;> simp [extStep, kuCertSign, isAki, isSki, kuUsable, unhandledCritical]
  | keyUsage ds kcs nr =>
    cases ds <;> cases kcs <;> cases nr <;> cases isCa <;> cases k <;>
      simp [extStep, kuCertSign, isAki, isSki, kuUsable, unhandledCritical]

/-- **The loop, for every extension list**: it aborts exactly when some keyUsage extension
asserts keyCertSign on a non-CA certificate; otherwise the flags are the obvious `any`s. -/
theorem extLoop_spec (isCa : Bool) : ∀ (es : List Ext) (fl : Flags),
    extLoop isCa es fl =
      if es.any (fun e => kuCertSign e && !isCa) then none
      else some { aki := fl.aki || es.any isAki, ski := fl.ski || es.any isSki,
                  keyUsage := fl.keyUsage || es.any kuUsable,
                  handledAllCritical := fl.handledAllCritical && !es.any unhandledCritical } := by
  intro es
  induction es with
  | nil => intro fl; simp [extLoop]
  | cons e es ih =>
    intro fl
    unfold extLoop
    rw [extStep_spec]
    by_cases h : (kuCertSign e && !isCa) = true
    · simp [h]
    · have h' : (kuCertSign e && !isCa) = false := by simpa using h
      simp only [h', Bool.false_eq_true, if_false, List.any_cons, Bool.false_or]
      rw [ih]
      by_cases h2 : (es.any fun e => kuCertSign e && !isCa) = true
      · simp [h2]
      · simp only [h2]
        simp [Bool.or_assoc, Bool.and_assoc, Bool.not_or]

/-! ### Conformance, declaratively -/

/-- The certificate profile as the code enforces it, stated over the decoded facts. -/
structure Conforming (env : Env) (f : CertFacts) : Prop where
  parses : f.parses = true
  v3 : f.version = 2
  notBefore : f.notBefore ≤ signingTime env
  notAfter : signingTime env ≤ f.notAfter
  sigAlg : f.sigAlg ≠ .other
  pss : f.sigAlg = .pss → ∃ h, f.pss = .params h true ∧ h ≠ .other
  curve : f.spkiAlg = .ec → f.ecParams = .p256 ∨ f.ecParams = .p384 ∨ f.ecParams = .p521
  rsa : f.spkiAlg = .rsa ∨ f.spkiAlg = .rsapss → f.rsaKeyOk = true ∧ 2048 ≤ f.rsaBits
  noDuplicateExt : f.dupExt = false
  notSelfSigned : f.issuerEqSubject = false
  noIssuerUid : f.issuerUid = false
  noSubjectUid : f.subjectUid = false
  notCa : f.isCa = false
  eku : ∃ e, f.eku = .some e ∧ e.any = false ∧ hasAllowedEku env.allowedEkus e = true ∧ badEkuSet e = false
  noCertSign : ∀ x ∈ f.exts, kuCertSign x = false
  aki : ∃ x ∈ f.exts, isAki x = true
  keyUsage : ∃ x ∈ f.exts, kuUsable x = true
  noUnhandledCritical : ∀ x ∈ f.exts, unhandledCritical x = false

theorem checkEndEntity_ok_iff_inner (env : Env) (f : CertFacts) :
    checkEndEntity env f = .ok ↔ checkInner env f = none ∧ f.parses = true ∧ f.isCa = false := by
  unfold checkEndEntity checkProfile
  cases h : checkInner env f with
  | none => cases hp : f.parses <;> cases hc : f.isCa <;> simp
  | some r =>
    obtain ⟨k, l⟩ := r
    cases l with
    | none => simp
    | some cr => obtain ⟨c, r⟩ := cr; simp

theorem headCheck_none_iff (env : Env) (f : CertFacts) :
    headCheck env f = none ↔
      f.parses = true ∧ f.version = 2 ∧ validAt f (signingTime env) = true ∧ f.sigAlg ≠ .other := by
  unfold headCheck
  cases hp : f.parses
  · simp
  · by_cases hv : f.version = 2
    · cases hva : validAt f (signingTime env)
      · simp [hv]
      · cases hs : f.sigAlg <;> simp [hv, sigAlgAccepted]
    · simp [hv]

theorem pssCheck_none_iff (f : CertFacts) :
    pssCheck f = none ↔ (f.sigAlg = .pss → ∃ h, f.pss = .params h true ∧ h ≠ .other) := by
  unfold pssCheck
  by_cases hs : f.sigAlg = .pss
  · simp only [hs, if_true, true_implies]
    cases hp : f.pss with
    | absent => simp
    | malformed => simp
    | params h same => cases same <;> cases h <;> simp [hashMandatory]
  · simp [hs]

theorem curveCheck_none_iff (f : CertFacts) :
    curveCheck f = none ↔
      (f.spkiAlg = .ec → f.ecParams = .p256 ∨ f.ecParams = .p384 ∨ f.ecParams = .p521) := by
  unfold curveCheck
  by_cases hs : f.spkiAlg = .ec
  · simp only [hs, if_true, true_implies]
    cases hp : f.ecParams <;> simp [curveAccepted]
  · simp [hs]

theorem rsaCheck_none_iff (f : CertFacts) :
    rsaCheck f = none ↔
      (f.spkiAlg = .rsa ∨ f.spkiAlg = .rsapss → f.rsaKeyOk = true ∧ 2048 ≤ f.rsaBits) := by
  unfold rsaCheck
  cases hs : f.spkiAlg
  · cases hk : f.rsaKeyOk
    · simp
    · by_cases hbits : f.rsaBits < 2048
      · simp [hbits]
      · simp [hbits]; omega
  · cases hk : f.rsaKeyOk
    · simp
    · by_cases hbits : f.rsaBits < 2048
      · simp [hbits]
      · simp [hbits]; omega
  · simp
  · simp

theorem idCheck_none_iff (f : CertFacts) :
    idCheck f = none ↔
      f.dupExt = false ∧ f.issuerEqSubject = false ∧ f.issuerUid = false ∧ f.subjectUid = false := by
  unfold idCheck
  cases f.dupExt <;> cases f.issuerEqSubject <;> cases f.issuerUid <;> cases f.subjectUid <;> simp

theorem not_any_iff {α} (l : List α) (p : α → Bool) : l.any p = false ↔ ∀ x ∈ l, p x = false := by
  induction l with
  | nil => simp
  | cons a l ih => simp [List.any_cons, Bool.or_eq_false_iff, ih]

theorem any_iff {α} (l : List α) (p : α → Bool) : l.any p = true ↔ ∃ x ∈ l, p x = true := by
  simp [List.any_eq_true]

/-- The extension part of the tail for a non-CA certificate, given the EKU verdict. -/
theorem extPart_none_iff (f : CertFacts) (hca : f.isCa = false) (b : Bool) :
    extPart f b = none ↔
    b = true ∧ f.exts.any kuCertSign = false ∧ f.exts.any isAki = true ∧
      f.exts.any kuUsable = true ∧ f.exts.any unhandledCritical = false := by
  unfold extPart
  rw [extLoop_spec, hca]
  simp only [Bool.not_false, Bool.and_true]
  cases hcs : f.exts.any kuCertSign
  · simp only [Bool.false_eq_true, if_false, finalFlags, hca]
    cases ha : f.exts.any isAki <;> cases hk : f.exts.any kuUsable <;>
      cases hu : f.exts.any unhandledCritical <;> cases b <;> simp
  · simp

theorem ekuGood_cases (env : Env) (f : CertFacts) (hca : f.isCa = false) :
    (ekuGood env f = .ok true ∧
      ∃ e, f.eku = .some e ∧ e.any = false ∧ hasAllowedEku env.allowedEkus e = true ∧ badEkuSet e = false) ∨
    ((ekuGood env f = .ok false ∨ ∃ r, ekuGood env f = .error r) ∧
      ¬ ∃ e, f.eku = .some e ∧ e.any = false ∧ hasAllowedEku env.allowedEkus e = true ∧ badEkuSet e = false) := by
  unfold ekuGood
  cases he : f.eku with
  | none => right; simp [hca]
  | err => right; simp
  | some e =>
    cases ha : e.any
    · cases hh : hasAllowedEku env.allowedEkus e
      · right; simp [ha, hh]
      · cases hb : badEkuSet e
        · left; simp [ha, hh, hb]
        · right; simp [ha, hh, hb]
    · right; simp [ha]

/-- The tail of `check_certificate_profile_inner` (EKU block, extension loop, final flag test)
for a non-CA certificate. -/
theorem tailCheck_none_iff (env : Env) (f : CertFacts) (hca : f.isCa = false) :
    tailCheck env f = none ↔
    (∃ e, f.eku = .some e ∧ e.any = false ∧ hasAllowedEku env.allowedEkus e = true ∧ badEkuSet e = false) ∧
    (∀ x ∈ f.exts, kuCertSign x = false) ∧ (∃ x ∈ f.exts, isAki x = true) ∧
    (∃ x ∈ f.exts, kuUsable x = true) ∧ (∀ x ∈ f.exts, unhandledCritical x = false) := by
  rw [← not_any_iff, ← any_iff, ← any_iff, ← not_any_iff]
  unfold tailCheck
  rcases ekuGood_cases env f hca with ⟨hok, hex⟩ | ⟨hbad, hne⟩
  · rw [hok]
    simp only
    rw [extPart_none_iff f hca true]
    constructor
    · rintro ⟨_, h⟩; exact ⟨hex, h⟩
    · rintro ⟨_, h⟩; exact ⟨rfl, h⟩
  · rcases hbad with hf | ⟨r, hr⟩
    · rw [hf]
      simp only
      rw [extPart_none_iff f hca false]
      constructor
      · rintro ⟨h, _⟩; cases h
      · rintro ⟨h, _⟩; exact absurd h hne
    · rw [hr]
      simp only
      constructor
      · intro h; cases h
      · rintro ⟨h, _⟩; exact absurd h hne

theorem checkInner_none_iff (env : Env) (f : CertFacts) (hca : f.isCa = false) :
    checkInner env f = none ↔
      (f.parses = true ∧ f.version = 2 ∧ validAt f (signingTime env) = true ∧ f.sigAlg ≠ .other) ∧
      pssCheck f = none ∧ curveCheck f = none ∧ rsaCheck f = none ∧
      (f.dupExt = false ∧ f.issuerEqSubject = false ∧ f.issuerUid = false ∧ f.subjectUid = false) ∧
      ((∃ e, f.eku = .some e ∧ e.any = false ∧ hasAllowedEku env.allowedEkus e = true ∧ badEkuSet e = false) ∧
       (∀ x ∈ f.exts, kuCertSign x = false) ∧ (∃ x ∈ f.exts, isAki x = true) ∧
       (∃ x ∈ f.exts, kuUsable x = true) ∧ (∀ x ∈ f.exts, unhandledCritical x = false)) := by
  unfold checkInner
  simp only [Option.or_eq_none_iff]
  rw [headCheck_none_iff, idCheck_none_iff, tailCheck_none_iff env f hca]

/-- **Accepted ⇔ conforming**: `check_end_entity_certificate_profile` returns `Ok` exactly for
the certificates that satisfy every rule, for every environment. -/
theorem accepted_iff_conforming (env : Env) (f : CertFacts) :
    checkEndEntity env f = .ok ↔ Conforming env f := by
  rw [checkEndEntity_ok_iff_inner]
  constructor
  · rintro ⟨hin, hp, hca⟩
    obtain ⟨⟨_, hv, hva, hs⟩, hpss, hcu, hr, ⟨hd, hss, hiu, hsu⟩, he, hcs, ha, hk, hu⟩ :=
      (checkInner_none_iff env f hca).1 hin
    have hva' : f.notBefore ≤ signingTime env ∧ signingTime env ≤ f.notAfter := by
      simpa [validAt] using hva
    exact ⟨hp, hv, hva'.1, hva'.2, hs, (pssCheck_none_iff f).1 hpss, (curveCheck_none_iff f).1 hcu,
      (rsaCheck_none_iff f).1 hr, hd, hss, hiu, hsu, hca, he, hcs, ha, hk, hu⟩
  · intro c
    refine ⟨(checkInner_none_iff env f c.notCa).2 ⟨⟨c.parses, c.v3, ?_, c.sigAlg⟩,
      (pssCheck_none_iff f).2 c.pss, (curveCheck_none_iff f).2 c.curve, (rsaCheck_none_iff f).2 c.rsa,
      ⟨c.noDuplicateExt, c.notSelfSigned, c.noIssuerUid, c.noSubjectUid⟩, c.eku, c.noCertSign, c.aki,
      c.keyUsage, c.noUnhandledCritical⟩, c.parses, c.notCa⟩
    simp [validAt, c.notBefore, c.notAfter]

/-- **A conforming certificate is never flagged.** -/
theorem conforming_accepted (env : Env) (f : CertFacts) (h : Conforming env f) :
    checkEndEntity env f = .ok := (accepted_iff_conforming env f).2 h

/-- Rejection always comes with exactly one logged `signingCredential.*` failure (there is no
silent rejection): by the shape of `Res`, stated for the record. -/
theorem rejected_reports_failure (env : Env) (f : CertFacts) (h : (checkEndEntity env f).rejected = true) :
    ∃ k c r, checkEndEntity env f = .err k c r := by
  cases hr : checkEndEntity env f with
  | ok => rw [hr] at h; cases h
  | err k c r => exact ⟨k, c, r, rfl⟩

theorem rejected_of_not_conforming (env : Env) (f : CertFacts) (h : ¬ Conforming env f) :
    (checkEndEntity env f).rejected = true := by
  cases hr : checkEndEntity env f with
  | ok => exact absurd ((accepted_iff_conforming env f).1 hr) h
  | err k c r => rfl

/-! ### each_violation_rejected: one lemma per rule of the statement -/

theorem unparseable_rejected (env f) (h : f.parses = false) : (checkEndEntity env f).rejected = true :=
  rejected_of_not_conforming env f (fun c => by rw [c.parses] at h; cases h)

theorem not_v3_rejected (env f) (h : f.version ≠ 2) : (checkEndEntity env f).rejected = true :=
  rejected_of_not_conforming env f (fun c => h c.v3)

theorem ca_certificate_rejected (env f) (h : f.isCa = true) : (checkEndEntity env f).rejected = true :=
  rejected_of_not_conforming env f (fun c => by rw [c.notCa] at h; cases h)

theorem self_signed_rejected (env f) (h : f.issuerEqSubject = true) : (checkEndEntity env f).rejected = true :=
  rejected_of_not_conforming env f (fun c => by rw [c.notSelfSigned] at h; cases h)

theorem unsupported_signature_algorithm_rejected (env f) (h : f.sigAlg = .other) :
    (checkEndEntity env f).rejected = true :=
  rejected_of_not_conforming env f (fun c => c.sigAlg h)

/-- RSASSA-PSS with absent / undecodable parameters, a non-mandatory hash, or an MGF hash that
differs from the message hash. -/
theorem unsupported_pss_parameters_rejected (env f) (hs : f.sigAlg = .pss)
    (h : ∀ hh, f.pss = .params hh true → hh = .other) : (checkEndEntity env f).rejected = true :=
  rejected_of_not_conforming env f (fun c => by
    obtain ⟨hh, hp, hne⟩ := c.pss hs
    exact hne (h hh hp))

theorem unsupported_curve_rejected (env f) (hs : f.spkiAlg = .ec)
    (h : f.ecParams ≠ .p256 ∧ f.ecParams ≠ .p384 ∧ f.ecParams ≠ .p521) :
    (checkEndEntity env f).rejected = true :=
  rejected_of_not_conforming env f (fun c => by
    rcases c.curve hs with h1 | h1 | h1
    · exact h.1 h1
    · exact h.2.1 h1
    · exact h.2.2 h1)

theorem short_rsa_key_rejected (env f) (hs : f.spkiAlg = .rsa ∨ f.spkiAlg = .rsapss) (h : f.rsaBits < 2048) :
    (checkEndEntity env f).rejected = true :=
  rejected_of_not_conforming env f (fun c => by have := (c.rsa hs).2; omega)

theorem unique_id_rejected (env f) (h : f.issuerUid = true ∨ f.subjectUid = true) :
    (checkEndEntity env f).rejected = true :=
  rejected_of_not_conforming env f (fun c => by
    rcases h with h | h
    · rw [c.noIssuerUid] at h; cases h
    · rw [c.noSubjectUid] at h; cases h)

theorem duplicate_extension_rejected (env f) (h : f.dupExt = true) : (checkEndEntity env f).rejected = true :=
  rejected_of_not_conforming env f (fun c => by rw [c.noDuplicateExt] at h; cases h)

theorem key_usage_missing_rejected (env f) (h : ∀ x ∈ f.exts, isKeyUsage x = false) :
    (checkEndEntity env f).rejected = true :=
  rejected_of_not_conforming env f (fun c => by
    obtain ⟨x, hx, hu⟩ := c.keyUsage
    have := h x hx
    unfold kuUsable at hu; unfold isKeyUsage at this
    cases hk : x.kind <;> simp [hk] at hu this)

theorem key_usage_without_usable_bit_rejected (env f) (h : ∀ x ∈ f.exts, kuUsable x = false) :
    (checkEndEntity env f).rejected = true :=
  rejected_of_not_conforming env f (fun c => by
    obtain ⟨x, hx, hu⟩ := c.keyUsage
    rw [h x hx] at hu; cases hu)

theorem key_cert_sign_rejected (env f) (h : ∃ x ∈ f.exts, kuCertSign x = true) :
    (checkEndEntity env f).rejected = true :=
  rejected_of_not_conforming env f (fun c => by
    obtain ⟨x, hx, hk⟩ := h
    rw [c.noCertSign x hx] at hk; cases hk)

theorem eku_missing_rejected (env f) (h : f.eku = .none) : (checkEndEntity env f).rejected = true :=
  rejected_of_not_conforming env f (fun c => by
    obtain ⟨e, he, _⟩ := c.eku
    rw [h] at he; cases he)

theorem eku_undecodable_rejected (env f) (h : f.eku = .err) : (checkEndEntity env f).rejected = true :=
  rejected_of_not_conforming env f (fun c => by
    obtain ⟨e, he, _⟩ := c.eku
    rw [h] at he; cases he)

theorem eku_any_rejected (env f e) (h : f.eku = .some e) (ha : e.any = true) :
    (checkEndEntity env f).rejected = true :=
  rejected_of_not_conforming env f (fun c => by
    obtain ⟨e', he, hany, _⟩ := c.eku
    rw [h] at he; cases he; rw [ha] at hany; cases hany)

/-- No accepted purpose: none of emailProtection / timeStamping / OCSPSigning and no OID of the
configured list. -/
theorem eku_not_accepted_rejected (env f e) (h : f.eku = .some e)
    (h1 : e.emailProtection = false) (h2 : e.timeStamping = false) (h3 : e.ocspSigning = false)
    (h4 : ∀ o ∈ e.other, o ∉ env.allowedEkus) : (checkEndEntity env f).rejected = true :=
  rejected_of_not_conforming env f (fun c => by
    obtain ⟨e', he, _, hal, _⟩ := c.eku
    rw [h] at he; cases he
    unfold hasAllowedEku at hal
    simp only [h1, h2, h3, Bool.false_or, List.any_eq_true] at hal
    obtain ⟨o, ho, hc⟩ := hal
    exact h4 o ho (by simpa using hc))

/-- timeStamping / OCSPSigning mixed with each other or with any other purpose. -/
theorem eku_exclusive_purpose_mixed_rejected (env f e) (h : f.eku = .some e) (hb : badEkuSet e = true) :
    (checkEndEntity env f).rejected = true :=
  rejected_of_not_conforming env f (fun c => by
    obtain ⟨e', he, _, _, hbad⟩ := c.eku
    rw [h] at he; cases he; rw [hb] at hbad; cases hbad)

theorem unhandled_critical_extension_rejected (env f) (h : ∃ x ∈ f.exts, unhandledCritical x = true) :
    (checkEndEntity env f).rejected = true :=
  rejected_of_not_conforming env f (fun c => by
    obtain ⟨x, hx, hu⟩ := h
    rw [c.noUnhandledCritical x hx] at hu; cases hu)

theorem authority_key_identifier_missing_rejected (env f) (h : ∀ x ∈ f.exts, isAki x = false) :
    (checkEndEntity env f).rejected = true :=
  rejected_of_not_conforming env f (fun c => by
    obtain ⟨x, hx, ha⟩ := c.aki
    rw [h x hx] at ha; cases ha)

theorem not_valid_at_signing_time_rejected (env f)
    (h : signingTime env < f.notBefore ∨ f.notAfter < signingTime env) :
    (checkEndEntity env f).rejected = true :=
  rejected_of_not_conforming env f (fun c => by
    have := c.notBefore; have := c.notAfter; omega)

/-- …and for a parseable v3 certificate the reported code is `signingCredential.expired`. -/
theorem not_valid_at_signing_time_code (env f) (hp : f.parses = true) (hv : f.version = 2)
    (h : signingTime env < f.notBefore ∨ f.notAfter < signingTime env) :
    checkEndEntity env f = .err .certificateNotValidAtTime .expired .expired := by
  have hva : validAt f (signingTime env) = false := by
    unfold validAt
    rcases h with h | h
    · have : ¬ f.notBefore ≤ signingTime env := by omega
      simp [this]
    · have : ¬ signingTime env ≤ f.notAfter := by omega
      simp [this]
  unfold checkEndEntity checkProfile checkInner headCheck
  simp [hp, hv, hva, rej]

/-! ### The rule of the statement the code does *not* enforce: digitalSignature -/

/-- The statement's key-usage rule read with the C2PA profile: a signing certificate none of
whose keyUsage extensions asserts digitalSignature is rejected. -/
def DigitalSignatureRequired : Prop :=
  ∀ env f, (∀ x ∈ f.exts, kuDigitalSignature x = false) → (checkEndEntity env f).rejected = true

/-- A certificate conforming in everything except that its key usage is {nonRepudiation}. -/
def exNonRepudiationOnly : CertFacts :=
  { notBefore := 0, notAfter := 100, eku := .some { emailProtection := true },
    exts := [⟨.handled, true⟩, ⟨.keyUsage false false true, true⟩, ⟨.handled, false⟩, ⟨.ski, false⟩, ⟨.aki, false⟩] }

/-- **The code falsifies that rule** (known finding `ku-without-digital-signature-accepted`,
replayed by the harness): nonRepudiation alone is accepted. -/
theorem digital_signature_required_false : ¬ DigitalSignatureRequired := by
  intro h
  have := h { now := 50 } exNonRepudiationOnly (by decide)
  revert this; decide

/-- What does hold (`…_partial`): without any of digitalSignature / keyCertSign /
nonRepudiation the certificate is rejected, and keyCertSign is rejected on every end-entity
certificate. -/
theorem key_usage_rejected_partial (env f)
    (h : (∀ x ∈ f.exts, kuUsable x = false) ∨ (∃ x ∈ f.exts, kuCertSign x = true)) :
    (checkEndEntity env f).rejected = true := by
  rcases h with h | h
  · exact key_usage_without_usable_bit_rejected env f h
  · exact key_cert_sign_rejected env f h

/-! ### expired_needs_timestamp -/

/-- Without a time stamp the clock decides: a certificate whose validity ended before now is
reported `signingCredential.expired`, whatever else is true of it. -/
theorem expired_without_timestamp (env f) (hp : f.parses = true) (hv : f.version = 2)
    (ht : env.tst = none) (h : f.notAfter < env.now) :
    checkEndEntity env f = .err .certificateNotValidAtTime .expired .expired := by
  apply not_valid_at_signing_time_code env f hp hv
  right; simp only [signingTime, ht]; exact h

/-- With a time stamp the clock is irrelevant: the outcome is the same for every `now`. -/
theorem timestamp_overrides_clock (env : Env) (t : Int) (n : Int) (f : CertFacts) :
    checkEndEntity { env with tst := some t, now := n } f = checkEndEntity { env with tst := some t } f := by
  unfold checkEndEntity checkProfile checkInner headCheck tailCheck signingTime ekuGood
  rfl

/-- **An expired certificate is accepted exactly when a time stamp places the signature inside
its validity window** (and the rest of the profile holds). -/
theorem expired_needs_timestamp (env : Env) (f : CertFacts) (hexp : f.notAfter < env.now) :
    checkEndEntity env f = .ok ↔
      ∃ t, env.tst = some t ∧ f.notBefore ≤ t ∧ t ≤ f.notAfter ∧ Conforming env f := by
  rw [accepted_iff_conforming]
  constructor
  · intro c
    cases ht : env.tst with
    | none =>
      have := c.notAfter
      simp only [signingTime, ht] at this
      omega
    | some t =>
      refine ⟨t, rfl, ?_, ?_, c⟩
      · have := c.notBefore; simp only [signingTime, ht] at this; exact this
      · have := c.notAfter; simp only [signingTime, ht] at this; exact this
  · rintro ⟨_, _, _, _, c⟩; exact c

/-! ### Composition with C04: rejected ⇒ non-tolerated failure ⇒ not Valid, not Trusted -/

theorem code_not_tolerated (c : Code) : C04.tolerated c.code = false := by
  cases c <;> decide

theorem profile_failure_in_codes (mode : Mode) (k : ErrKind) (c : Code) (r : Rule) (trust : Trust)
    (sigOk : Bool) (hm : mode ≠ .ignore) :
    c.code ∈ (signatureCodes mode (.err k c r) trust sigOk).failure := by
  unfold signatureCodes profileFailure
  simp [hm]

/-- A results value whose active manifest carries a non-tolerated failure is Invalid. -/
theorem invalid_of_active_failure (r : C04.Results) (a : C04.Codes) (c : C04.Code)
    (ha : r.active = some a) (hc : c ∈ a.failure) (ht : C04.tolerated c = false) :
    C04.state r = .invalid := by
  rw [C04.state_invalid_iff]
  rintro ⟨a', ha', _, _, hf, _⟩
  rw [ha] at ha'; cases ha'
  have := hf c hc; rw [ht] at this; cases this

theorem add_preserves_failure (a : C04.Codes) (s : C04.Status) (c : C04.Code) (h : c ∈ a.failure) :
    c ∈ (a.add s).failure := by
  unfold C04.Codes.add
  cases s.kind <;> simp [h]

/-- Whatever is logged afterwards (any status, any kind, active manifest or ingredient), an
active-manifest failure stays. -/
theorem addStatus_preserves_active_failure (r : C04.Results) (s : C04.Status) (c : C04.Code)
    (h : ∃ a, r.active = some a ∧ c ∈ a.failure) :
    ∃ a, (C04.addStatus r s).active = some a ∧ c ∈ a.failure := by
  obtain ⟨a, ha, hc⟩ := h
  unfold C04.addStatus
  cases hu : s.uri with
  | none => exact ⟨_, rfl, by rw [ha]; exact add_preserves_failure a s c hc⟩
  | some u =>
    simp only
    cases hadd : C04.addToFirst u s (C04.deltasOf r) with
    | some ds => exact ⟨a, ha, hc⟩
    | none => exact ⟨a, ha, hc⟩

theorem foldl_preserves_active_failure (ss : List C04.Status) (c : C04.Code) :
    ∀ r : C04.Results, (∃ a, r.active = some a ∧ c ∈ a.failure) →
      ∃ a, (ss.foldl C04.addStatus r).active = some a ∧ c ∈ a.failure := by
  induction ss with
  | nil => intro r h; exact h
  | cons s ss ih => intro r h; exact ih _ (addStatus_preserves_active_failure r s c h)

/-- **Rejected ⇒ never Valid or Trusted**, for every verifier mode that checks the profile,
every trust verdict, every signature outcome and *every* sequence of further statuses the rest
of validation may log (assertion results, ingredient deltas, …): the state is Invalid and the
`signingCredential.*` failure code is among the reported failures. -/
theorem rejected_never_valid (env : Env) (f : CertFacts) (mode : Mode) (hm : mode ≠ .ignore)
    (trust : Trust) (sigOk : Bool) (later : List C04.Status)
    (h : (checkEndEntity env f).rejected = true) :
    let r := later.foldl C04.addStatus (resultsOf (signatureCodes mode (checkEndEntity env f) trust sigOk))
    C04.state r = .invalid ∧
      ∃ a c, r.active = some a ∧ (c = Code.invalid ∨ c = Code.expired) ∧ c.code ∈ a.failure := by
  obtain ⟨k, c, rl, hr⟩ := rejected_reports_failure env f h
  rw [hr]
  have h0 : ∃ a, (resultsOf (signatureCodes mode (.err k c rl) trust sigOk)).active = some a ∧
      c.code ∈ a.failure := ⟨_, rfl, profile_failure_in_codes mode k c rl trust sigOk hm⟩
  obtain ⟨a, ha, hc⟩ := foldl_preserves_active_failure later c.code _ h0
  refine ⟨invalid_of_active_failure _ a c.code ha hc (code_not_tolerated c), a, c, ha, ?_, hc⟩
  cases c <;> simp

/-- Each violation of the statement, end to end (instances of the above). -/
theorem each_violation_rejected (env : Env) (f : CertFacts)
    (h : f.version ≠ 2 ∨ f.isCa = true ∨ f.issuerEqSubject = true ∨ f.sigAlg = .other ∨
      (f.sigAlg = .pss ∧ ∀ hh, f.pss = .params hh true → hh = .other) ∨
      (f.spkiAlg = .ec ∧ f.ecParams ≠ .p256 ∧ f.ecParams ≠ .p384 ∧ f.ecParams ≠ .p521) ∨
      ((f.spkiAlg = .rsa ∨ f.spkiAlg = .rsapss) ∧ f.rsaBits < 2048) ∨
      f.issuerUid = true ∨ f.subjectUid = true ∨
      (∀ x ∈ f.exts, kuUsable x = false) ∨ (∃ x ∈ f.exts, kuCertSign x = true) ∨
      f.eku = .none ∨ f.eku = .err ∨
      (∃ e, f.eku = .some e ∧ (e.any = true ∨ hasAllowedEku env.allowedEkus e = false ∨ badEkuSet e = true)) ∨
      (∃ x ∈ f.exts, unhandledCritical x = true) ∨
      signingTime env < f.notBefore ∨ f.notAfter < signingTime env) :
    (checkEndEntity env f).rejected = true := by
  apply rejected_of_not_conforming
  intro c
  rcases h with h | h | h | h | ⟨hs, h⟩ | ⟨hs, h⟩ | ⟨hs, h⟩ | h | h | h | h | h | h | ⟨e, he, h⟩ | h | h | h
  · exact h c.v3
  · rw [c.notCa] at h; cases h
  · rw [c.notSelfSigned] at h; cases h
  · exact c.sigAlg h
  · obtain ⟨hh, hp, hne⟩ := c.pss hs; exact hne (h hh hp)
  · rcases c.curve hs with h1 | h1 | h1
    · exact h.1 h1
    · exact h.2.1 h1
    · exact h.2.2 h1
  · have := (c.rsa hs).2; omega
  · rw [c.noIssuerUid] at h; cases h
  · rw [c.noSubjectUid] at h; cases h
  · obtain ⟨x, hx, hu⟩ := c.keyUsage; rw [h x hx] at hu; cases hu
  · obtain ⟨x, hx, hk⟩ := h; rw [c.noCertSign x hx] at hk; cases hk
  · obtain ⟨e, he, _⟩ := c.eku; rw [h] at he; cases he
  · obtain ⟨e, he, _⟩ := c.eku; rw [h] at he; cases he
  · obtain ⟨e', he', h1, h2, h3⟩ := c.eku
    rw [he] at he'; cases he'
    rcases h with h | h | h
    · rw [h1] at h; cases h
    · rw [h2] at h; cases h
    · rw [h3] at h; cases h
  · obtain ⟨x, hx, hu⟩ := h; rw [c.noUnhandledCritical x hx] at hu; cases hu
  · have := c.notBefore; omega
  · have := c.notAfter; omega

/-! ### Statement level: what is flagged, and what is not -/

/-- The violations the property statement lists, over the decoded facts (the hypothesis of
`each_violation_rejected`). -/
def StatementViolation (env : Env) (f : CertFacts) : Prop :=
  f.version ≠ 2 ∨ f.isCa = true ∨ f.issuerEqSubject = true ∨ f.sigAlg = .other ∨
  (f.sigAlg = .pss ∧ ∀ hh, f.pss = .params hh true → hh = .other) ∨
  (f.spkiAlg = .ec ∧ f.ecParams ≠ .p256 ∧ f.ecParams ≠ .p384 ∧ f.ecParams ≠ .p521) ∨
  ((f.spkiAlg = .rsa ∨ f.spkiAlg = .rsapss) ∧ f.rsaBits < 2048) ∨
  f.issuerUid = true ∨ f.subjectUid = true ∨
  (∀ x ∈ f.exts, kuUsable x = false) ∨ (∃ x ∈ f.exts, kuCertSign x = true) ∨
  f.eku = .none ∨ f.eku = .err ∨
  (∃ e, f.eku = .some e ∧ (e.any = true ∨ hasAllowedEku env.allowedEkus e = false ∨ badEkuSet e = true)) ∨
  (∃ x ∈ f.exts, unhandledCritical x = true) ∨
  signingTime env < f.notBefore ∨ f.notAfter < signingTime env

/-- What the code rejects *beyond* the statement's list: bytes that are not a certificate, a
repeated extension, an RSA key that does not decode, no authority key identifier. -/
def StructuralDefect (f : CertFacts) : Prop :=
  f.parses = false ∨ f.dupExt = true ∨
  ((f.spkiAlg = .rsa ∨ f.spkiAlg = .rsapss) ∧ f.rsaKeyOk = false) ∨
  (∀ x ∈ f.exts, isAki x = false)

/-- **Flagged ⇔ violating**: the check rejects a certificate exactly when it violates a rule of
the statement or has one of the four structural defects — so a certificate free of both is never
flagged, and `Conforming` (the code's notion) is nothing more than that. -/
theorem accepted_iff_no_violation (env : Env) (f : CertFacts) :
    checkEndEntity env f = .ok ↔ ¬ StatementViolation env f ∧ ¬ StructuralDefect f := by
  constructor
  · intro hok
    have c := (accepted_iff_conforming env f).1 hok
    refine ⟨fun hv => ?_, ?_⟩
    · have := each_violation_rejected env f hv
      rw [hok] at this; cases this
    · rintro (h | h | ⟨hk, h⟩ | h)
      · rw [c.parses] at h; cases h
      · rw [c.noDuplicateExt] at h; cases h
      · rw [(c.rsa hk).1] at h; cases h
      · obtain ⟨x, hx, ha⟩ := c.aki; rw [h x hx] at ha; cases ha
  · rintro ⟨hnv, hns⟩
    rw [accepted_iff_conforming]
    simp only [StatementViolation, not_or] at hnv
    obtain ⟨n1, n2, n3, n4, n5, n6, n7, n8, n9, n10, n11, n12, n13, n14, n15, n16, n17⟩ := hnv
    simp only [StructuralDefect, not_or] at hns
    obtain ⟨s1, s2, s3, s4⟩ := hns
    have b2t : ∀ {b : Bool}, ¬ b = true → b = false := by intro b h; cases b <;> simp_all
    have b2f : ∀ {b : Bool}, ¬ b = false → b = true := by intro b h; cases b <;> simp_all
    refine
      { parses := b2f s1
        v3 := Classical.byContradiction n1
        notBefore := by omega
        notAfter := by omega
        sigAlg := n4
        pss := ?_
        curve := ?_
        rsa := ?_
        noDuplicateExt := b2t s2
        notSelfSigned := b2t n3
        noIssuerUid := b2t n8
        noSubjectUid := b2t n9
        notCa := b2t n2
        eku := ?_
        noCertSign := ?_
        aki := ?_
        keyUsage := ?_
        noUnhandledCritical := ?_ }
    · intro hs
      apply Classical.byContradiction
      intro hne
      exact n5 ⟨hs, fun hh hp => Classical.byContradiction fun hno => hne ⟨hh, hp, hno⟩⟩
    · intro hs
      cases he : f.ecParams <;> simp_all
    · intro hk
      refine ⟨b2f fun h => s3 ⟨hk, h⟩, ?_⟩
      have : ¬ f.rsaBits < 2048 := fun h => n7 ⟨hk, h⟩
      omega
    · cases he : f.eku with
      | none => exact absurd he n12
      | err => exact absurd he n13
      | some e =>
        refine ⟨e, rfl, b2t fun h => n14 ⟨e, he, Or.inl h⟩, b2f fun h => n14 ⟨e, he, Or.inr (Or.inl h)⟩,
          b2t fun h => n14 ⟨e, he, Or.inr (Or.inr h)⟩⟩
    · intro x hx
      exact b2t fun h => n11 ⟨x, hx, h⟩
    · apply Classical.byContradiction
      intro hne
      exact s4 fun x hx => b2t fun h => hne ⟨x, hx, h⟩
    · apply Classical.byContradiction
      intro hne
      exact n10 fun x hx => b2t fun h => hne ⟨x, hx, h⟩
    · intro x hx
      exact b2t fun h => n15 ⟨x, hx, h⟩

/-- **A certificate without a statement violation and without structural defect is never
flagged**, end to end: nothing is added to the failure codes and the state is decided by trust. -/
theorem unflagged_of_no_violation (env : Env) (f : CertFacts) (hv : ¬ StatementViolation env f)
    (hs : ¬ StructuralDefect f) (mode : Mode) :
    checkEndEntity env f = .ok ∧ profileFailure mode (checkEndEntity env f) = [] := by
  have h := (accepted_iff_no_violation env f).2 ⟨hv, hs⟩
  exact ⟨h, by rw [h]; rfl⟩

/-- A conforming, trusted, correctly signed credential yields Trusted; untrusted yields Valid
(no later failures): the profile check contributes nothing. -/
theorem conforming_state (env : Env) (f : CertFacts) (h : Conforming env f) (trust : Trust) :
    C04.state (resultsOf (signatureCodes .trustPolicy (checkEndEntity env f) trust true)) =
      (match trust with | .trusted => .trusted | .untrusted => .valid) := by
  rw [conforming_accepted env f h]
  cases trust <;> decide

/-! ### Which failure is reported: one theorem per log statement

Each takes a conforming certificate, changes exactly the fact(s) one rule looks at, and gives the
exact outcome — error kind, status code and the log statement that fires. A reordering of the
checks that lets another rule mask this one, a wrong status code or a wrong error kind falsifies
the corresponding theorem (and the differential run, which compares the same triple). -/

theorem conforming_blocks (env : Env) (f : CertFacts) (c : Conforming env f) :
    headCheck env f = none ∧ pssCheck f = none ∧ curveCheck f = none ∧ rsaCheck f = none ∧
      idCheck f = none ∧ tailCheck env f = none := by
  have h := ((checkEndEntity_ok_iff_inner env f).1 (conforming_accepted env f c)).1
  unfold checkInner at h
  simpa only [Option.or_eq_none_iff] using h

/-- The outcome of the public function is the first rejection of the inner one; a rejection
that returned without logging is reported by the wrapper as `signingCredential.invalid`. -/
theorem checkEndEntity_of_inner (env : Env) (f : CertFacts) (r : Rej) (h : checkInner env f = some r) :
    checkEndEntity env f =
      match r.logged with
      | some (c, rl) => .err r.kind c rl
      | none => .err r.kind .invalid .unlogged := by
  unfold checkEndEntity checkProfile
  rw [h]
  obtain ⟨k, l⟩ := r
  cases l with
  | none => rfl
  | some cr => obtain ⟨c, rl⟩ := cr; rfl

/-- **No silent rejection**: whatever the inner check rejects — with or without a log statement
of its own — the public function reports the same error kind together with a
`signingCredential.*` failure; the wrapper's catch-all supplies `signingCredential.invalid` exactly
for the rejections that logged nothing. -/
theorem silent_rejection_still_logged (env : Env) (f : CertFacts) (r : Rej)
    (h : checkInner env f = some r) :
    ∃ c rl, checkEndEntity env f = .err r.kind c rl ∧
      (r.logged = some (c, rl) ∨ (r.logged = none ∧ c = .invalid ∧ rl = .unlogged)) := by
  rw [checkEndEntity_of_inner env f r h]
  obtain ⟨k, l⟩ := r
  cases l with
  | none => exact ⟨.invalid, .unlogged, rfl, Or.inr ⟨rfl, rfl, rfl⟩⟩
  | some cr => obtain ⟨c, rl⟩ := cr; exact ⟨c, rl, rfl, Or.inl rfl⟩

/-! Block-level facts for an arbitrary certificate `g`, hypotheses on its fields only. -/

theorem inner_of_head (env : Env) (g : CertFacts) (r : Rej) (h : headCheck env g = some r) :
    checkInner env g = some r := by
  unfold checkInner; rw [h]; rfl

theorem inner_of_pss (env : Env) (g : CertFacts) (r : Rej) (h1 : headCheck env g = none)
    (h : pssCheck g = some r) : checkInner env g = some r := by
  unfold checkInner; rw [h1, h]; rfl

theorem inner_of_curve (env : Env) (g : CertFacts) (r : Rej) (h1 : headCheck env g = none)
    (h2 : pssCheck g = none) (h : curveCheck g = some r) : checkInner env g = some r := by
  unfold checkInner; rw [h1, h2, h]; rfl

theorem inner_of_rsa (env : Env) (g : CertFacts) (r : Rej) (h1 : headCheck env g = none)
    (h2 : pssCheck g = none) (h3 : curveCheck g = none) (h : rsaCheck g = some r) :
    checkInner env g = some r := by
  unfold checkInner; rw [h1, h2, h3, h]; rfl

theorem inner_of_id (env : Env) (g : CertFacts) (r : Rej) (h1 : headCheck env g = none)
    (h2 : pssCheck g = none) (h3 : curveCheck g = none) (h4 : rsaCheck g = none)
    (h : idCheck g = some r) : checkInner env g = some r := by
  unfold checkInner; rw [h1, h2, h3, h4, h]; rfl

theorem inner_of_tail (env : Env) (g : CertFacts) (h1 : headCheck env g = none)
    (h2 : pssCheck g = none) (h3 : curveCheck g = none) (h4 : rsaCheck g = none)
    (h5 : idCheck g = none) : checkInner env g = tailCheck env g := by
  unfold checkInner; rw [h1, h2, h3, h4, h5]; rfl

theorem headCheck_none_of (env : Env) (g : CertFacts) (hp : g.parses = true) (hv : g.version = 2)
    (hnb : g.notBefore ≤ signingTime env) (hna : signingTime env ≤ g.notAfter) (hs : g.sigAlg ≠ .other) :
    headCheck env g = none := by
  rw [headCheck_none_iff]
  exact ⟨hp, hv, by simp [validAt, hnb, hna], hs⟩

theorem ekuGood_ok_of (env : Env) (g : CertFacts) (e : Eku) (he : g.eku = .some e) (h1 : e.any = false)
    (h2 : hasAllowedEku env.allowedEkus e = true) (h3 : badEkuSet e = false) :
    ekuGood env g = .ok true := by
  unfold ekuGood; rw [he]; simp [h1, h2, h3]

theorem extPart_certSign (g : CertFacts) (hca : g.isCa = false) (b : Bool)
    (h : ∃ x ∈ g.exts, kuCertSign x = true) :
    extPart g b = some (rej .invalidCertificate .invalid .kuCertSign) := by
  unfold extPart
  rw [extLoop_spec, hca]
  have hany : (g.exts.any fun x => kuCertSign x && !false) = true := by
    obtain ⟨x, hx, hk⟩ := h
    exact List.any_eq_true.2 ⟨x, hx, by simp [hk]⟩
  rw [hany]; rfl

/-- The extension part for a non-CA certificate whose list asserts no keyCertSign, in closed form. -/
theorem extPart_nonCa (g : CertFacts) (hca : g.isCa = false) (b : Bool)
    (hcs : g.exts.any kuCertSign = false) :
    extPart g b =
      if g.exts.any isAki && g.exts.any kuUsable && b && !g.exts.any unhandledCritical then none
      else some (rej .invalidCertificate .invalid .params) := by
  unfold extPart
  rw [extLoop_spec, hca]
  simp only [Bool.not_false, Bool.and_true, hcs, Bool.false_eq_true, if_false, finalFlags, hca]
  cases g.exts.any isAki <;> cases g.exts.any kuUsable <;> cases b <;>
    cases g.exts.any unhandledCritical <;> simp

theorem extPart_params (g : CertFacts) (hca : g.isCa = false) (b : Bool)
    (hcs : ∀ x ∈ g.exts, kuCertSign x = false)
    (h : b = false ∨ (∀ x ∈ g.exts, isAki x = false) ∨ (∀ x ∈ g.exts, kuUsable x = false) ∨
      (∃ x ∈ g.exts, unhandledCritical x = true)) :
    extPart g b = some (rej .invalidCertificate .invalid .params) := by
  rw [extPart_nonCa g hca b ((not_any_iff _ _).2 hcs)]
  rcases h with h | h | h | h
  · simp [h]
  · have : g.exts.any isAki = false := (not_any_iff _ _).2 h
    simp [this]
  · have : g.exts.any kuUsable = false := (not_any_iff _ _).2 h
    simp [this]
  · have : g.exts.any unhandledCritical = true := (any_iff _ _).2 h
    simp [this]

theorem tailCheck_of_ekuGood (env : Env) (g : CertFacts) (b : Bool) (h : ekuGood env g = .ok b) :
    tailCheck env g = extPart g b := by
  unfold tailCheck; rw [h]

theorem tailCheck_of_ekuErr (env : Env) (g : CertFacts) (r : Rej) (h : ekuGood env g = .error r) :
    tailCheck env g = some r := by
  unfold tailCheck; rw [h]

/-! The single-violation theorems. -/

theorem unparseable_only_code (env : Env) (f : CertFacts) :
    checkEndEntity env { f with parses := false } = .err .invalidCertificate .invalid .parse := by
  rw [checkEndEntity_of_inner env _ (rej .invalidCertificate .invalid .parse)]
  · rfl
  · exact inner_of_head _ _ _ (by simp [headCheck])

theorem not_v3_only_code (env : Env) (f : CertFacts) (c : Conforming env f) (v : Nat) (hv : v ≠ 2) :
    checkEndEntity env { f with version := v } =
      .err .invalidCertificateVersion .invalid .version := by
  rw [checkEndEntity_of_inner env _ (rej .invalidCertificateVersion .invalid .version)]
  · rfl
  · apply inner_of_head
    have hp : ({ f with version := v } : CertFacts).parses = true := c.parses
    unfold headCheck
    rw [hp]
    simp [hv]

theorem headCheck_algorithm_of (env : Env) (g : CertFacts) (hp : g.parses = true) (hv : g.version = 2)
    (hnb : g.notBefore ≤ signingTime env) (hna : signingTime env ≤ g.notAfter) (hs : g.sigAlg = .other) :
    headCheck env g = some (rej .unsupportedAlgorithm .invalid .algorithm) := by
  have hva : validAt g (signingTime env) = true := by simp [validAt, hnb, hna]
  unfold headCheck
  rw [hp, hv, hva, hs]
  rfl

theorem signature_algorithm_only_code (env : Env) (f : CertFacts) (c : Conforming env f) :
    checkEndEntity env { f with sigAlg := .other } =
      .err .unsupportedAlgorithm .invalid .algorithm := by
  rw [checkEndEntity_of_inner env _ (rej .unsupportedAlgorithm .invalid .algorithm)]
  · rfl
  · exact inner_of_head _ _ _
      (headCheck_algorithm_of env { f with sigAlg := .other } c.parses c.v3 c.notBefore c.notAfter rfl)

/-- The head block passes for a conforming certificate whose signature algorithm is replaced by
another accepted one. -/
theorem headCheck_with_sigAlg (env : Env) (f : CertFacts) (c : Conforming env f) (a : SigAlg) (p : Pss)
    (ha : a ≠ .other) : headCheck env { f with sigAlg := a, pss := p } = none :=
  headCheck_none_of env _ c.parses c.v3 c.notBefore c.notAfter ha

theorem pss_mismatch_only_code (env : Env) (f : CertFacts) (c : Conforming env f) (h : Hash) :
    checkEndEntity env { f with sigAlg := .pss, pss := .params h false } =
      .err .invalidCertificate .invalid .pssMismatch := by
  rw [checkEndEntity_of_inner env _ (rej .invalidCertificate .invalid .pssMismatch)]
  · rfl
  · exact inner_of_pss _ _ _ (headCheck_with_sigAlg env f c .pss _ (by decide)) (by simp [pssCheck])

theorem pss_hash_only_code (env : Env) (f : CertFacts) (c : Conforming env f) :
    checkEndEntity env { f with sigAlg := .pss, pss := .params .other true } =
      .err .invalidCertificate .invalid .pssHash := by
  rw [checkEndEntity_of_inner env _ (rej .invalidCertificate .invalid .pssHash)]
  · rfl
  · exact inner_of_pss _ _ _ (headCheck_with_sigAlg env f c .pss _ (by decide))
      (by simp [pssCheck, hashMandatory])

theorem pss_params_missing_only_code (env : Env) (f : CertFacts) (c : Conforming env f) :
    checkEndEntity env { f with sigAlg := .pss, pss := .absent } =
      .err .invalidCertificate .invalid .pssParamsMissing := by
  rw [checkEndEntity_of_inner env _ (rej .invalidCertificate .invalid .pssParamsMissing)]
  · rfl
  · exact inner_of_pss _ _ _ (headCheck_with_sigAlg env f c .pss _ (by decide)) (by simp [pssCheck])

/-- RSASSA-PSS parameters the code cannot decode: rejected by a bare `?`, reported by the wrapper. -/
theorem pss_malformed_only_code (env : Env) (f : CertFacts) (c : Conforming env f) :
    checkEndEntity env { f with sigAlg := .pss, pss := .malformed } =
      .err .invalidCertificate .invalid .unlogged := by
  rw [checkEndEntity_of_inner env _ (silent .invalidCertificate)]
  · rfl
  · exact inner_of_pss _ _ _ (headCheck_with_sigAlg env f c .pss _ (by decide)) (by simp [pssCheck])

theorem curve_only_code (env : Env) (f : CertFacts) (c : Conforming env f) :
    checkEndEntity env { f with spkiAlg := .ec, ecParams := .other } =
      .err .invalidCertificate .invalid .curve := by
  obtain ⟨h1, h2, _, _, _, _⟩ := conforming_blocks env f c
  rw [checkEndEntity_of_inner env _ (rej .invalidCertificate .invalid .curve)]
  · rfl
  · exact inner_of_curve _ _ _ h1 h2 (by simp [curveCheck, curveAccepted])

/-- EC key without (or with non-OID) curve parameters: bare `return Err`, reported by the wrapper. -/
theorem curve_params_undecodable_only_code (env : Env) (f : CertFacts) (c : Conforming env f)
    (e : EcParams) (he : e = .absent ∨ e = .notOid) :
    checkEndEntity env { f with spkiAlg := .ec, ecParams := e } =
      .err .invalidCertificate .invalid .unlogged := by
  obtain ⟨h1, h2, _, _, _, _⟩ := conforming_blocks env f c
  rw [checkEndEntity_of_inner env _ (silent .invalidCertificate)]
  · rfl
  · exact inner_of_curve _ _ _ h1 h2 (by rcases he with rfl | rfl <;> simp [curveCheck])

theorem short_rsa_key_only_code (env : Env) (f : CertFacts) (c : Conforming env f) (a : SpkiAlg)
    (ha : a = .rsa ∨ a = .rsapss) (n : Nat) (hn : n < 2048) :
    checkEndEntity env { f with spkiAlg := a, rsaKeyOk := true, rsaBits := n } =
      .err .invalidCertificate .invalid .rsaBits := by
  obtain ⟨h1, h2, _, _, _, _⟩ := conforming_blocks env f c
  rw [checkEndEntity_of_inner env _ (rej .invalidCertificate .invalid .rsaBits)]
  · rfl
  · exact inner_of_rsa _ _ _ h1 h2 (by rcases ha with rfl | rfl <;> simp [curveCheck])
      (by rcases ha with rfl | rfl <;> simp [rsaCheck, hn])

/-- RSA key whose `subjectPublicKey` does not decode: `map_err(..)?`, reported by the wrapper. -/
theorem rsa_key_undecodable_only_code (env : Env) (f : CertFacts) (c : Conforming env f) (a : SpkiAlg)
    (ha : a = .rsa ∨ a = .rsapss) :
    checkEndEntity env { f with spkiAlg := a, rsaKeyOk := false } =
      .err .invalidCertificate .invalid .unlogged := by
  obtain ⟨h1, h2, _, _, _, _⟩ := conforming_blocks env f c
  rw [checkEndEntity_of_inner env _ (silent .invalidCertificate)]
  · rfl
  · exact inner_of_rsa _ _ _ h1 h2 (by rcases ha with rfl | rfl <;> simp [curveCheck])
      (by rcases ha with rfl | rfl <;> simp [rsaCheck])

theorem duplicate_extension_only_code (env : Env) (f : CertFacts) (c : Conforming env f) :
    checkEndEntity env { f with dupExt := true } =
      .err .invalidCertificate .invalid .duplicateExt := by
  obtain ⟨h1, h2, h3, h4, _, _⟩ := conforming_blocks env f c
  rw [checkEndEntity_of_inner env _ (rej .invalidCertificate .invalid .duplicateExt)]
  · rfl
  · exact inner_of_id _ _ _ h1 h2 h3 h4 (by simp [idCheck])

theorem self_signed_only_code (env : Env) (f : CertFacts) (c : Conforming env f) :
    checkEndEntity env { f with issuerEqSubject := true } =
      .err .selfSignedCertificate .invalid .selfSigned := by
  obtain ⟨h1, h2, h3, h4, _, _⟩ := conforming_blocks env f c
  rw [checkEndEntity_of_inner env _ (rej .selfSignedCertificate .invalid .selfSigned)]
  · rfl
  · refine inner_of_id env { f with issuerEqSubject := true } _ h1 h2 h3 h4 ?_
    have hd : ({ f with issuerEqSubject := true } : CertFacts).dupExt = false := c.noDuplicateExt
    unfold idCheck
    rw [hd]
    rfl

theorem unique_id_only_code (env : Env) (f : CertFacts) (c : Conforming env f) (i s : Bool)
    (h : i = true ∨ s = true) :
    checkEndEntity env { f with issuerUid := i, subjectUid := s } =
      .err .invalidCertificate .invalid .uniqueId := by
  obtain ⟨h1, h2, h3, h4, _, _⟩ := conforming_blocks env f c
  rw [checkEndEntity_of_inner env _ (rej .invalidCertificate .invalid .uniqueId)]
  · rfl
  · refine inner_of_id env { f with issuerUid := i, subjectUid := s } _ h1 h2 h3 h4 ?_
    have hd : ({ f with issuerUid := i, subjectUid := s } : CertFacts).dupExt = false := c.noDuplicateExt
    have hs : ({ f with issuerUid := i, subjectUid := s } : CertFacts).issuerEqSubject = false := c.notSelfSigned
    unfold idCheck
    rw [hd, hs]
    rcases h with rfl | rfl <;> simp

/-- Everything before the EKU block passes for a conforming certificate whose EKU / extension
list is replaced. -/
theorem checkInner_with_tail (env : Env) (f : CertFacts) (c : Conforming env f) (e : EkuExt) (es : List Ext) :
    checkInner env { f with eku := e, exts := es } = tailCheck env { f with eku := e, exts := es } := by
  obtain ⟨h1, h2, h3, h4, h5, _⟩ := conforming_blocks env f c
  exact inner_of_tail _ _ h1 h2 h3 h4 h5

theorem eku_any_only_code (env : Env) (f : CertFacts) (c : Conforming env f) (e : Eku) (h : e.any = true) :
    checkEndEntity env { f with eku := .some e } = .err .invalidCertificate .invalid .ekuAny := by
  rw [checkEndEntity_of_inner env _ (rej .invalidCertificate .invalid .ekuAny)]
  · rfl
  · rw [checkInner_with_tail env f c (.some e) f.exts]
    exact tailCheck_of_ekuErr _ _ _ (by simp [ekuGood, h])

theorem eku_not_accepted_only_code (env : Env) (f : CertFacts) (c : Conforming env f) (e : Eku)
    (h : e.any = false) (hn : hasAllowedEku env.allowedEkus e = false) :
    checkEndEntity env { f with eku := .some e } = .err .invalidCertificate .invalid .ekuMissing := by
  rw [checkEndEntity_of_inner env _ (rej .invalidCertificate .invalid .ekuMissing)]
  · rfl
  · rw [checkInner_with_tail env f c (.some e) f.exts]
    exact tailCheck_of_ekuErr _ _ _ (by simp [ekuGood, h, hn])

theorem eku_set_only_code (env : Env) (f : CertFacts) (c : Conforming env f) (e : Eku)
    (h : e.any = false) (ha : hasAllowedEku env.allowedEkus e = true) (hb : badEkuSet e = true) :
    checkEndEntity env { f with eku := .some e } = .err .invalidCertificate .invalid .ekuSet := by
  rw [checkEndEntity_of_inner env _ (rej .invalidCertificate .invalid .ekuSet)]
  · rfl
  · rw [checkInner_with_tail env f c (.some e) f.exts]
    exact tailCheck_of_ekuErr _ _ _ (by simp [ekuGood, h, ha, hb])

/-- Duplicate / undecodable EKU extension: `map_err(..)?`, reported by the wrapper. -/
theorem eku_undecodable_only_code (env : Env) (f : CertFacts) (c : Conforming env f) :
    checkEndEntity env { f with eku := .err } = .err .invalidCertificate .invalid .unlogged := by
  rw [checkEndEntity_of_inner env _ (silent .invalidCertificate)]
  · rfl
  · rw [checkInner_with_tail env f c .err f.exts]
    exact tailCheck_of_ekuErr _ _ _ (by simp [ekuGood])

/-- EKU extension absent on a non-CA certificate. -/
theorem eku_missing_only_code (env : Env) (f : CertFacts) (c : Conforming env f) :
    checkEndEntity env { f with eku := .none } = .err .invalidCertificate .invalid .params := by
  rw [checkEndEntity_of_inner env _ (rej .invalidCertificate .invalid .params)]
  · rfl
  · rw [checkInner_with_tail env f c .none f.exts]
    have hg : ekuGood env { f with eku := .none } = .ok false := by
      have hca : ({ f with eku := EkuExt.none } : CertFacts).isCa = false := c.notCa
      unfold ekuGood
      rw [hca]
    rw [tailCheck_of_ekuGood _ _ _ hg]
    exact extPart_params { f with eku := .none } c.notCa false c.noCertSign (Or.inl rfl)

/-- keyCertSign asserted by some keyUsage extension of a non-CA certificate — whatever else the
extension list holds. -/
theorem key_cert_sign_only_code (env : Env) (f : CertFacts) (c : Conforming env f) (es : List Ext)
    (h : ∃ x ∈ es, kuCertSign x = true) :
    checkEndEntity env { f with exts := es } = .err .invalidCertificate .invalid .kuCertSign := by
  obtain ⟨e, he, h1, h2, h3⟩ := c.eku
  rw [checkEndEntity_of_inner env _ (rej .invalidCertificate .invalid .kuCertSign)]
  · rfl
  · have ht : checkInner env { f with exts := es } = tailCheck env { f with exts := es } :=
      checkInner_with_tail env f c f.eku es
    rw [ht, tailCheck_of_ekuGood _ _ _ (ekuGood_ok_of env { f with exts := es } e he h1 h2 h3)]
    exact extPart_certSign { f with exts := es } c.notCa true h

/-- The extension list of a non-CA certificate lacks an authority key identifier, or a keyUsage
with a usable bit, or carries an unhandled critical extension (and asserts no keyCertSign):
"certificate params incorrect". -/
theorem extension_flags_only_code (env : Env) (f : CertFacts) (c : Conforming env f) (es : List Ext)
    (hcs : ∀ x ∈ es, kuCertSign x = false)
    (h : (∀ x ∈ es, isAki x = false) ∨ (∀ x ∈ es, kuUsable x = false) ∨ (∃ x ∈ es, unhandledCritical x = true)) :
    checkEndEntity env { f with exts := es } = .err .invalidCertificate .invalid .params := by
  obtain ⟨e, he, h1, h2, h3⟩ := c.eku
  rw [checkEndEntity_of_inner env _ (rej .invalidCertificate .invalid .params)]
  · rfl
  · have ht : checkInner env { f with exts := es } = tailCheck env { f with exts := es } :=
      checkInner_with_tail env f c f.eku es
    rw [ht, tailCheck_of_ekuGood _ _ _ (ekuGood_ok_of env { f with exts := es } e he h1 h2 h3)]
    exact extPart_params { f with exts := es } c.notCa true hcs (Or.inr h)

/-- A CA certificate that is otherwise fine (it has a subject key identifier, which the profile
demands of CAs) is turned away by the end-entity test of the public function. -/
theorem ca_only_code (env : Env) (f : CertFacts) (c : Conforming env f) (hski : ∃ x ∈ f.exts, isSki x = true) :
    checkEndEntity env { f with isCa := true } = .err .invalidCertificate .invalid .endEntityIsCa := by
  obtain ⟨h1, h2, h3, h4, h5, _⟩ := conforming_blocks env f c
  obtain ⟨e, he, hany, hal, hb⟩ := c.eku
  have hin : checkInner env { f with isCa := true } = none := by
    rw [inner_of_tail env { f with isCa := true } h1 h2 h3 h4 h5,
      tailCheck_of_ekuGood _ _ _ (ekuGood_ok_of env { f with isCa := true } e he hany hal hb)]
    unfold extPart
    rw [extLoop_spec]
    have ha : f.exts.any isAki = true := (any_iff _ _).2 c.aki
    have hk : f.exts.any kuUsable = true := (any_iff _ _).2 c.keyUsage
    have hs : f.exts.any isSki = true := (any_iff _ _).2 hski
    have hu : f.exts.any unhandledCritical = false := (not_any_iff _ _).2 c.noUnhandledCritical
    simp [finalFlags, ha, hk, hs, hu]
  unfold checkEndEntity checkProfile
  rw [hin]
  simp [c.parses]

/-- No log statement other than the validity-window one uses `signingCredential.expired`. -/
def Rej.notExpired (r : Rej) : Prop := ∀ rl, r.logged ≠ some (.expired, rl)

theorem pssCheck_notExpired (f : CertFacts) (r : Rej) (h : pssCheck f = some r) : r.notExpired := by
  intro rl
  unfold pssCheck at h
  repeat' split at h
  all_goals simp_all [rej, silent]
  all_goals (subst h; simp)

theorem curveCheck_notExpired (f : CertFacts) (r : Rej) (h : curveCheck f = some r) : r.notExpired := by
  intro rl
  unfold curveCheck at h
  repeat' split at h
  all_goals simp_all [rej, silent]
  all_goals (subst h; simp)

theorem rsaCheck_notExpired (f : CertFacts) (r : Rej) (h : rsaCheck f = some r) : r.notExpired := by
  intro rl
  unfold rsaCheck at h
  repeat' split at h
  all_goals simp_all [rej, silent]
  all_goals (subst h; simp)

theorem idCheck_notExpired (f : CertFacts) (r : Rej) (h : idCheck f = some r) : r.notExpired := by
  intro rl
  unfold idCheck at h
  repeat' split at h
  all_goals simp_all [rej, silent]
  all_goals (subst h; simp)

theorem ekuGood_notExpired (env : Env) (f : CertFacts) (r : Rej) (h : ekuGood env f = .error r) :
    r.notExpired := by
  intro rl
  unfold ekuGood at h
  repeat' split at h
  all_goals simp_all [rej, silent]
  all_goals (subst h; simp)

theorem extPart_notExpired (f : CertFacts) (b : Bool) (r : Rej) (h : extPart f b = some r) :
    r.notExpired := by
  intro rl
  unfold extPart at h
  cases hl : extLoop f.isCa f.exts {} with
  | none => rw [hl] at h; simp [rej] at h; subst h; simp
  | some fl =>
    rw [hl] at h
    simp only [finalFlags] at h
    have hr : r = rej .invalidCertificate .invalid .params := by
      repeat' split at h
      all_goals simp_all [rej]
    subst hr
    simp [rej]

theorem tailCheck_notExpired (env : Env) (f : CertFacts) (r : Rej) (h : tailCheck env f = some r) :
    r.notExpired := by
  unfold tailCheck at h
  cases he : ekuGood env f with
  | error e =>
    rw [he] at h
    simp only [Option.some.injEq] at h
    subst h
    exact ekuGood_notExpired env f _ he
  | ok b =>
    rw [he] at h
    exact extPart_notExpired f b r h

theorem headCheck_expired (env : Env) (f : CertFacts) (r : Rej) (rl : Rule)
    (h : headCheck env f = some r) (hl : r.logged = some (.expired, rl)) :
    f.parses = true ∧ f.version = 2 ∧ validAt f (signingTime env) = false ∧
      r = rej .certificateNotValidAtTime .expired .expired := by
  unfold headCheck at h
  cases hp : f.parses
  · simp [hp, rej] at h; subst h; simp at hl
  · by_cases hv : f.version = 2
    · cases hva : validAt f (signingTime env)
      · simp [hp, hv, hva] at h
        exact ⟨rfl, hv, rfl, h.symm⟩
      · cases hs : sigAlgAccepted f.sigAlg
        · simp [hp, hv, hva, hs, rej] at h; subst h; simp at hl
        · simp [hp, hv, hva, hs] at h
    · simp [hp, hv, rej] at h; subst h; simp at hl

/-- **`signingCredential.expired` is reported for the validity window only**: no other rule —
and no parse failure — ever yields that code. -/
theorem expired_code_only_for_window (env : Env) (f : CertFacts) (k : ErrKind) (r : Rule)
    (h : checkEndEntity env f = .err k .expired r) :
    f.parses = true ∧ f.version = 2 ∧ validAt f (signingTime env) = false ∧
      k = .certificateNotValidAtTime ∧ r = .expired := by
  cases hin : checkInner env f with
  | none =>
    unfold checkEndEntity checkProfile at h
    rw [hin] at h
    simp only at h
    split at h
    · cases h
    · split at h <;> cases h
  | some rj =>
    rw [checkEndEntity_of_inner env f rj hin] at h
    obtain ⟨k', l⟩ := rj
    cases l with
    | none => simp at h
    | some cr =>
      obtain ⟨c', r'⟩ := cr
      simp only [Res.err.injEq] at h
      obtain ⟨hk, hc, hr⟩ := h
      subst hc
      rw [← hk, ← hr]
      -- which block produced it
      unfold checkInner at hin
      cases h1 : headCheck env f with
      | some r1 =>
        rw [h1] at hin
        simp only [Option.or] at hin
        cases hin
        obtain ⟨a, b, c, d⟩ := headCheck_expired env f _ r' h1 rfl
        simp only [rej, Rej.mk.injEq, Option.some.injEq, Prod.mk.injEq] at d
        exact ⟨a, b, c, d.1, d.2.2⟩
      | none =>
        rw [h1] at hin
        simp only [Option.or] at hin
        exfalso
        cases h2 : pssCheck f with
        | some r2 => rw [h2] at hin; cases hin; exact pssCheck_notExpired f _ h2 r' rfl
        | none =>
          rw [h2] at hin
          cases h3 : curveCheck f with
          | some r3 => rw [h3] at hin; cases hin; exact curveCheck_notExpired f _ h3 r' rfl
          | none =>
            rw [h3] at hin
            cases h4 : rsaCheck f with
            | some r4 => rw [h4] at hin; cases hin; exact rsaCheck_notExpired f _ h4 r' rfl
            | none =>
              rw [h4] at hin
              cases h5 : idCheck f with
              | some r5 => rw [h5] at hin; cases hin; exact idCheck_notExpired f _ h5 r' rfl
              | none =>
                rw [h5] at hin
                exact tailCheck_notExpired env f _ hin r' rfl

/-! ### Ignore mode -/

/-- **The ignore-mode hole, stated**: with `Verifier::IgnoreProfileAndTrustPolicy` the profile
outcome leaves no trace — a certificate the profile rejects still yields state Valid when the
signature verifies. (`verify_cose` selects this mode only for `cert_check = false`, which
`Store::verify_store` passes for *ingredient* manifests when `verify.check_ingredient_trust` is
off; the active manifest is always checked with `cert_check = true`, so for it `mode ≠ .ignore`
— the hypothesis of `rejected_never_valid` — always holds. The CAWG X.509 identity validators use
this mode too.) -/
theorem ignore_mode_accepts_rejected (k : ErrKind) (c : Code) (r : Rule) (trust : Trust) :
    C04.state (resultsOf (signatureCodes .ignore (.err k c r) trust true)) = .valid ∧
    (signatureCodes .ignore (.err k c r) trust true).failure = [] := by
  have h : signatureCodes .ignore (.err k c r) trust true = signatureCodes .ignore .ok trust true := rfl
  rw [h]
  cases trust <;> exact ⟨by decide, rfl⟩

/-! ### Non-vacuity -/

def exConforming : CertFacts :=
  { notBefore := 0, notAfter := 100, eku := .some { emailProtection := true },
    exts := [⟨.handled, true⟩, ⟨.keyUsage true false false, true⟩, ⟨.handled, false⟩, ⟨.ski, false⟩, ⟨.aki, false⟩] }

example : checkEndEntity { now := 50 } exConforming = .ok := by decide
example : Conforming { now := 50 } exConforming := (accepted_iff_conforming _ _).1 (by decide)
example : checkEndEntity { now := 500 } exConforming = .err .certificateNotValidAtTime .expired .expired := by decide
example : checkEndEntity { now := 500, tst := some 100 } exConforming = .ok := by decide
example : checkEndEntity { now := 50 } { exConforming with issuerEqSubject := true }
    = .err .selfSignedCertificate .invalid .selfSigned := by decide
example : checkEndEntity { now := 50 } { exConforming with sigAlg := .pss, pss := .malformed }
    = .err .invalidCertificate .invalid .unlogged := by decide
example : checkEndEntity { now := 50 } { exConforming with isCa := true }
    = .err .invalidCertificate .invalid .endEntityIsCa := by decide
example : checkEndEntity { now := 50 }
    { exConforming with exts := [⟨.keyUsage false true false, true⟩, ⟨.aki, false⟩] }
    = .err .invalidCertificate .invalid .kuCertSign := by decide
example : C04.state (resultsOf (signatureCodes .trustPolicy
    (checkEndEntity { now := 50 } { exConforming with subjectUid := true }) .trusted true)) = .invalid := by decide

example : checkEndEntity { now := 50 } { exConforming with isCa := true }
    = .err .invalidCertificate .invalid .endEntityIsCa :=
  ca_only_code _ _ ((accepted_iff_conforming _ _).1 (by decide)) ⟨⟨.ski, false⟩, by decide, rfl⟩
example : checkEndEntity { now := 50 } { exConforming with exts := [⟨.keyUsage true false false, true⟩] }
    = .err .invalidCertificate .invalid .params :=
  extension_flags_only_code _ _ ((accepted_iff_conforming _ _).1 (by decide)) _ (by decide) (Or.inl (by decide))
example : checkEndEntity { now := 50 } { exConforming with spkiAlg := .rsa, rsaKeyOk := true, rsaBits := 2047 }
    = .err .invalidCertificate .invalid .rsaBits :=
  short_rsa_key_only_code _ _ ((accepted_iff_conforming _ _).1 (by decide)) .rsa (Or.inl rfl) 2047 (by decide)
example : ¬ StatementViolation { now := 50 } exConforming ∧ ¬ StructuralDefect exConforming :=
  (accepted_iff_no_violation _ _).1 (by decide)
example : StatementViolation { now := 50 } exNonRepudiationOnly → False :=
  ((accepted_iff_no_violation _ _).1 (by decide)).1
example : checkInner { now := 50 } { exConforming with sigAlg := .pss, pss := .malformed } = some (silent .invalidCertificate) := by decide
example : C04.state (resultsOf (signatureCodes .ignore
    (checkEndEntity { now := 50 } { exConforming with subjectUid := true }) .untrusted true)) = .valid := by decide

end C2pa.C06
