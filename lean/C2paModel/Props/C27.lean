import C2paModel.Model.C26
import C2paModel.Lemmas.C26Stack
import C2paModel.Lemmas.C27Net
import C2paModel.Gen.C28HttpSites
/-
C27 — property theorems. The statement (properties.jsonl):

  When following redirects, the SDK never sends a request to a host that is localhost, loopback,
  private (including IPv6 unique-local), link-local, unspecified, multicast, broadcast, IPv4
  documentation or IPv4 shared address space, whether written as a name, as an IPv4 literal in any
  notation the URL parser accepts, as an IPv6 literal, or as an IPv4-mapped IPv6 literal. It never
  follows more than ten redirects, refuses every redirect when redirects are disabled, and never
  forwards Authorization, Cookie, Proxy-Authorization or Host headers to a redirect target.

Address blocks are written as numeric ranges on the 32-bit value / the first 16-bit segment,
independently of the predicates of the code. The stack theorems hold for every transport, every
behaviour of `Url::join`, every allow-list configuration (including none), every request and
every redirect history.
-/
namespace C2pa.C27

open C2pa.C26

/-! ### IPv4 address space -/

def v4Num (a b c d : Nat) : Nat := a * 0x1000000 + b * 0x10000 + c * 0x100 + d

/-- The IPv4 blocks named by the statement, as inclusive ranges of the 32-bit address. -/
def BlockedV4 (n : Nat) : Prop :=
  n = 0                                        -- unspecified 0.0.0.0
  ∨ (0x7f000000 ≤ n ∧ n ≤ 0x7fffffff)         -- loopback 127.0.0.0/8
  ∨ (0x0a000000 ≤ n ∧ n ≤ 0x0affffff)         -- private 10.0.0.0/8
  ∨ (0xac100000 ≤ n ∧ n ≤ 0xac1fffff)         -- private 172.16.0.0/12
  ∨ (0xc0a80000 ≤ n ∧ n ≤ 0xc0a8ffff)         -- private 192.168.0.0/16
  ∨ (0xa9fe0000 ≤ n ∧ n ≤ 0xa9feffff)         -- link-local 169.254.0.0/16
  ∨ (0xe0000000 ≤ n ∧ n ≤ 0xefffffff)         -- multicast 224.0.0.0/4
  ∨ n = 0xffffffff                             -- broadcast
  ∨ (0xc0000200 ≤ n ∧ n ≤ 0xc00002ff)         -- documentation 192.0.2.0/24
  ∨ (0xc6336400 ≤ n ∧ n ≤ 0xc63364ff)         -- documentation 198.51.100.0/24
  ∨ (0xcb007100 ≤ n ∧ n ≤ 0xcb0071ff)         -- documentation 203.0.113.0/24
  ∨ (0x64400000 ≤ n ∧ n ≤ 0x647fffff)         -- shared address space 100.64.0.0/10

/-- `ipv4_is_non_global` as a proposition on the octets. -/
theorem ipv4IsNonGlobal_iff (a b c d : Nat) (hb : b < 256) :
    ipv4IsNonGlobal a b c d = true ↔
      ((a = 0 ∧ b = 0 ∧ c = 0 ∧ d = 0) ∨ a = 0 ∨ a = 127
        ∨ a = 10 ∨ (a = 172 ∧ 16 ≤ b ∧ b ≤ 31) ∨ (a = 192 ∧ b = 168)
        ∨ (a = 169 ∧ b = 254) ∨ (a = 255 ∧ b = 255 ∧ c = 255 ∧ d = 255)
        ∨ (a = 192 ∧ b = 0 ∧ c = 2) ∨ (a = 198 ∧ b = 51 ∧ c = 100) ∨ (a = 203 ∧ b = 0 ∧ c = 113)
        ∨ (224 ≤ a ∧ a ≤ 239) ∨ (a = 100 ∧ 64 ≤ b ∧ b ≤ 127)) := by
  have hm := mask_c0 b hb
  simp only [ipv4IsNonGlobal, Bool.or_eq_true, Bool.and_eq_true, beq_iff_eq, decide_eq_true_eq, hm,
    or_assoc, and_assoc]

/-- **Every IPv4 address of a listed block is classified non-global.** -/
theorem v4_sound (a b c d : Nat) (ha : a < 256) (hb : b < 256) (hc : c < 256) (hd : d < 256)
    (h : BlockedV4 (v4Num a b c d)) : ipv4IsNonGlobal a b c d = true := by
  rw [ipv4IsNonGlobal_iff a b c d hb]
  unfold BlockedV4 v4Num at h
  rcases h with h | h | h | h | h | h | h | h | h | h | h | h
  · have : a = 0 := by omega
    simp [this]
  · have : a = 127 := by omega
    simp [this]
  · have : a = 10 := by omega
    simp [this]
  · have h1 : a = 172 := by omega
    have h2 : 16 ≤ b := by omega
    have h3 : b ≤ 31 := by omega
    simp [h1, h2, h3]
  · have h1 : a = 192 := by omega
    have h2 : b = 168 := by omega
    simp [h1, h2]
  · have h1 : a = 169 := by omega
    have h2 : b = 254 := by omega
    simp [h1, h2]
  · have h1 : 224 ≤ a := by omega
    have h2 : a ≤ 239 := by omega
    simp [h1, h2]
  · have h1 : a = 255 := by omega
    have h2 : b = 255 := by omega
    have h3 : c = 255 := by omega
    have h4 : d = 255 := by omega
    simp [h1, h2, h3, h4]
  · have h1 : a = 192 := by omega
    have h2 : b = 0 := by omega
    have h3 : c = 2 := by omega
    simp [h1, h2, h3]
  · have h1 : a = 198 := by omega
    have h2 : b = 51 := by omega
    have h3 : c = 100 := by omega
    simp [h1, h2, h3]
  · have h1 : a = 203 := by omega
    have h2 : b = 0 := by omega
    have h3 : c = 113 := by omega
    simp [h1, h2, h3]
  · have h1 : a = 100 := by omega
    have h2 : 64 ≤ b := by omega
    have h3 : b ≤ 127 := by omega
    simp [h1, h2, h3]

/-- The classification blocks exactly the listed blocks plus the rest of `0.0.0.0/8`. -/
theorem v4_exact (a b c d : Nat) (ha : a < 256) (hb : b < 256) (hc : c < 256) (hd : d < 256) :
    ipv4IsNonGlobal a b c d = true ↔ (BlockedV4 (v4Num a b c d) ∨ v4Num a b c d ≤ 0x00ffffff) := by
  constructor
  · rw [ipv4IsNonGlobal_iff a b c d hb]
    unfold BlockedV4 v4Num
    rintro (h | h | h | h | h | h | h | h | h | h | h | h | h)
    · right; omega
    · right; omega
    · left; right; left; omega
    · left; right; right; left; omega
    · left; right; right; right; left; omega
    · left; right; right; right; right; left; omega
    · left; right; right; right; right; right; left; omega
    · left; right; right; right; right; right; right; right; left; omega
    · left; right; right; right; right; right; right; right; right; left; omega
    · left; right; right; right; right; right; right; right; right; right; left; omega
    · left; right; right; right; right; right; right; right; right; right; right; left; omega
    · left; right; right; right; right; right; right; left; omega
    · left; right; right; right; right; right; right; right; right; right; right; right; omega
  · rintro (h | h)
    · exact v4_sound a b c d ha hb hc hd h
    · rw [ipv4IsNonGlobal_iff a b c d hb]
      have : a = 0 := by unfold v4Num at h; omega
      simp [this]

example : BlockedV4 (v4Num 169 254 169 254) := by unfold BlockedV4 v4Num; omega
example : ¬ BlockedV4 (v4Num 93 184 216 34) := by unfold BlockedV4 v4Num; omega

/-! ### IPv6 address space -/

/-- The IPv6 blocks named by the statement, on the eight 16-bit segments. -/
def BlockedV6 (s0 s1 s2 s3 s4 s5 s6 s7 : Nat) : Prop :=
  (s0 = 0 ∧ s1 = 0 ∧ s2 = 0 ∧ s3 = 0 ∧ s4 = 0 ∧ s5 = 0 ∧ s6 = 0 ∧ s7 = 0)      -- unspecified ::
  ∨ (s0 = 0 ∧ s1 = 0 ∧ s2 = 0 ∧ s3 = 0 ∧ s4 = 0 ∧ s5 = 0 ∧ s6 = 0 ∧ s7 = 1)    -- loopback ::1
  ∨ 0xff00 ≤ s0                                                                   -- multicast ff00::/8
  ∨ (0xfc00 ≤ s0 ∧ s0 ≤ 0xfdff)                                                  -- unique local fc00::/7
  ∨ (0xfe80 ≤ s0 ∧ s0 ≤ 0xfebf)                                                  -- link-local fe80::/10
  ∨ (s0 = 0 ∧ s1 = 0 ∧ s2 = 0 ∧ s3 = 0 ∧ s4 = 0 ∧ s5 = 0xffff ∧
      BlockedV4 (s6 * 0x10000 + s7))                                              -- ::ffff:a.b.c.d

theorem toIpv4Mapped_mapped (ab cd : Nat) :
    toIpv4Mapped [0, 0, 0, 0, 0, 0xffff, ab, cd] = some (ab / 256, ab % 256, cd / 256, cd % 256) := rfl

theorem toIpv4Mapped_none (s0 s1 s2 s3 s4 s5 s6 s7 : Nat)
    (h : ¬ (s0 = 0 ∧ s1 = 0 ∧ s2 = 0 ∧ s3 = 0 ∧ s4 = 0 ∧ s5 = 0xffff)) :
    toIpv4Mapped [s0, s1, s2, s3, s4, s5, s6, s7] = none := by
  unfold toIpv4Mapped
  split
  · rename_i heq
    simp only [List.cons.injEq, and_true] at heq
    exact absurd ⟨heq.1, heq.2.1, heq.2.2.1, heq.2.2.2.1, heq.2.2.2.2.1, heq.2.2.2.2.2.1⟩ h
  · rfl

/-- **Every IPv6 address of a listed block (including IPv4-mapped addresses of a listed IPv4
block) is classified non-global.** -/
theorem v6_sound (s0 s1 s2 s3 s4 s5 s6 s7 : Nat)
    (h0 : s0 < 65536) (h6 : s6 < 65536) (h7 : s7 < 65536)
    (h : BlockedV6 s0 s1 s2 s3 s4 s5 s6 s7) :
    ipv6IsNonGlobal [s0, s1, s2, s3, s4, s5, s6, s7] = true := by
  by_cases hm : s0 = 0 ∧ s1 = 0 ∧ s2 = 0 ∧ s3 = 0 ∧ s4 = 0 ∧ s5 = 0xffff
  · obtain ⟨rfl, rfl, rfl, rfl, rfl, rfl⟩ := hm
    unfold ipv6IsNonGlobal
    rw [toIpv4Mapped_mapped]
    simp only
    apply v4_sound _ _ _ _ (by omega) (by omega) (by omega) (by omega)
    have hv : v4Num (s6 / 256) (s6 % 256) (s7 / 256) (s7 % 256) = s6 * 0x10000 + s7 := by
      unfold v4Num; omega
    rw [hv]
    unfold BlockedV6 at h
    rcases h with h | h | h | h | h | h
    · omega
    · omega
    · omega
    · omega
    · omega
    · exact h.2.2.2.2.2.2
  · unfold ipv6IsNonGlobal
    rw [toIpv4Mapped_none _ _ _ _ _ _ _ _ hm]
    simp only [List.headD_cons, Bool.or_eq_true, beq_iff_eq, List.cons.injEq, and_true]
    rw [mask_ff00 s0 h0, mask_fe00 s0 h0, mask_ffc0 s0 h0]
    unfold BlockedV6 at h
    rcases h with h | h | h | h | h | h
    · left; left; left; left; exact h
    · left; left; left; right; exact h
    · left; left; right; exact h
    · left; right; exact h
    · right; exact h
    · exact absurd ⟨h.1, h.2.1, h.2.2.1, h.2.2.2.1, h.2.2.2.2.1, h.2.2.2.2.2.1⟩ hm

example : BlockedV6 0xfe80 0 0 0 0 0 0 1 := by unfold BlockedV6; omega
example : BlockedV6 0 0 0 0 0 0xffff 0xa9fe 0xa9fe := by unfold BlockedV6 BlockedV4; omega
example : ¬ BlockedV6 0x2606 0x2800 0x220 1 0x248 0x1893 0x25c8 0x1946 := by
  unfold BlockedV6 BlockedV4; omega


/-- The IPv4-mapped rest of `0.0.0.0/8` (blocked through the IPv4 rule `a == 0`). -/
def MappedThisNetwork (s0 s1 s2 s3 s4 s5 s6 s7 : Nat) : Prop :=
  s0 = 0 ∧ s1 = 0 ∧ s2 = 0 ∧ s3 = 0 ∧ s4 = 0 ∧ s5 = 0xffff ∧ s6 * 0x10000 + s7 ≤ 0x00ffffff

/-- **The IPv6 classification blocks exactly the listed blocks (incl. IPv4-mapped listed blocks)
plus the IPv4-mapped rest of `0.0.0.0/8`** — nothing else. In particular IPv4-compatible
(`::a.b.c.d`), NAT64 (`64:ff9b::/96`), 6to4 (`2002::/16`) and `::ffff:0:a.b.c.d` forms of an
internal IPv4 address are *not* unwrapped (see `v4_in_v6_not_unwrapped`). Widening a mask or
dropping the mapped unwrap falsifies this. -/
theorem v6_exact (s0 s1 s2 s3 s4 s5 s6 s7 : Nat)
    (h0 : s0 < 65536) (h6 : s6 < 65536) (h7 : s7 < 65536) :
    ipv6IsNonGlobal [s0, s1, s2, s3, s4, s5, s6, s7] = true ↔
      (BlockedV6 s0 s1 s2 s3 s4 s5 s6 s7 ∨ MappedThisNetwork s0 s1 s2 s3 s4 s5 s6 s7) := by
  constructor
  · intro h
    by_cases hm : s0 = 0 ∧ s1 = 0 ∧ s2 = 0 ∧ s3 = 0 ∧ s4 = 0 ∧ s5 = 0xffff
    · obtain ⟨rfl, rfl, rfl, rfl, rfl, rfl⟩ := hm
      unfold ipv6IsNonGlobal at h
      rw [toIpv4Mapped_mapped] at h
      simp only at h
      have hv : v4Num (s6 / 256) (s6 % 256) (s7 / 256) (s7 % 256) = s6 * 0x10000 + s7 := by
        unfold v4Num; omega
      rcases (v4_exact _ _ _ _ (by omega) (by omega) (by omega) (by omega)).1 h with hb | hb
      · left; unfold BlockedV6
        right; right; right; right; right
        exact ⟨rfl, rfl, rfl, rfl, rfl, rfl, by rw [← hv]; exact hb⟩
      · right; exact ⟨rfl, rfl, rfl, rfl, rfl, rfl, by rw [← hv]; exact hb⟩
    · left
      unfold ipv6IsNonGlobal at h
      rw [toIpv4Mapped_none _ _ _ _ _ _ _ _ hm] at h
      simp only [List.headD_cons, Bool.or_eq_true, beq_iff_eq, List.cons.injEq, and_true] at h
      rw [mask_ff00 s0 h0, mask_fe00 s0 h0, mask_ffc0 s0 h0] at h
      unfold BlockedV6
      rcases h with (((h | h) | h) | h) | h
      · left; exact h
      · right; left; exact h
      · right; right; left; exact h
      · right; right; right; left; exact h
      · right; right; right; right; left; exact h
  · rintro (h | ⟨rfl, rfl, rfl, rfl, rfl, rfl, h⟩)
    · exact v6_sound _ _ _ _ _ _ _ _ h0 h6 h7 h
    · unfold ipv6IsNonGlobal
      rw [toIpv4Mapped_mapped]
      simp only
      apply (v4_exact _ _ _ _ (by omega) (by omega) (by omega) (by omega)).2
      right
      have hv : v4Num (s6 / 256) (s6 % 256) (s7 / 256) (s7 % 256) = s6 * 0x10000 + s7 := by
        unfold v4Num; omega
      rw [hv]; exact h

/-- Facts pinned, not violations (the statement names IPv4-*mapped* literals only): an internal IPv4
address embedded in another IPv6 form is classified by the IPv6 rules alone. -/
theorem v4_in_v6_not_unwrapped :
    hostStrIsNonGlobal (bytesOf "[::127.0.0.1]") = false ∧          -- IPv4-compatible
    hostStrIsNonGlobal (bytesOf "[64:ff9b::169.254.169.254]") = false ∧  -- NAT64
    hostStrIsNonGlobal (bytesOf "[2002:7f00:1::1]") = false ∧       -- 6to4
    hostStrIsNonGlobal (bytesOf "[::ffff:0:10.0.0.1]") = false := by decide  -- SIIT

/-! ### literals and names as they appear in a URI host -/

/-- Verdict for a host that parses as an IP address: the address classification. -/
theorem parsed_host_verdict (h : Bytes) (ip : Ip) (hp : parseIp (normalizeHost h) = some ip) :
    hostStrIsNonGlobal h = ipIsNonGlobal ip := by
  simp [hostStrIsNonGlobal, hp]

/-- **A standard dotted-decimal literal of a listed block is refused**, plain, with a trailing dot
or in brackets. -/
theorem literal_v4_blocked (a b c d : Nat) (ha : a < 256) (hb : b < 256) (hc : c < 256) (hd : d < 256)
    (h : BlockedV4 (v4Num a b c d)) :
    hostStrIsNonGlobal (dotted a b c d) = true ∧
    hostStrIsNonGlobal (dotted a b c d ++ [46]) = true ∧
    hostStrIsNonGlobal (91 :: (dotted a b c d ++ [93])) = true := by
  have hv := v4_sound a b c d ha hb hc hd h
  have hp := parseIp_dotted a b c d ha hb hc hd
  refine ⟨?_, ?_, ?_⟩
  · rw [parsed_host_verdict _ (.v4 a b c d) (by rw [normalizeHost_dotted a b c d ha hb hc hd]; exact hp)]
    exact hv
  · rw [parsed_host_verdict _ (.v4 a b c d) (by rw [normalizeHost_dotted_dot a b c d ha hb hc hd]; exact hp)]
    exact hv
  · rw [parsed_host_verdict _ (.v4 a b c d) (by rw [normalizeHost_dotted_brackets a b c d ha hb hc hd]; exact hp)]
    exact hv

/-- `[::ffff:a.b.c.d]` -/
def mappedLiteral (a b c d : Nat) : Bytes :=
  91 :: ((bytesOf "::ffff:" ++ dotted a b c d) ++ [93])

theorem readV4_colon (t : Bytes) : readV4 (58 :: t) = none := by
  simp [readV4, readSep, readDec3, isDigit, dec3Val]

theorem readV4_f (t : Bytes) : readV4 (102 :: t) = none := by
  simp [readV4, readSep, readDec3, isDigit, dec3Val]

theorem readHex4_colon (t : Bytes) : readHex4 (58 :: t) = none := by
  simp [readHex4, isHexDigit, hex4Val]

theorem readHex4_ffff (t : Bytes) :
    readHex4 (102 :: 102 :: 102 :: 102 :: 58 :: t) = some (0xffff, 58 :: t) := by
  simp [readHex4, isHexDigit, hex4Val, digitsVal, hexDigitVal]

theorem parseIp_mapped (a b c d : Nat) (ha : a < 256) (hb : b < 256) (hc : c < 256) (hd : d < 256) :
    parseIp (bytesOf "::ffff:" ++ dotted a b c d) =
      some (.v6 [0, 0, 0, 0, 0, 0xffff, a * 256 + b, c * 256 + d]) := by
  have hd4 := readV4_dotted a b c d ha hb hc hd
  have hs : bytesOf "::ffff:" ++ dotted a b c d
      = 58 :: 58 :: 102 :: 102 :: 102 :: 102 :: 58 :: dotted a b c d := rfl
  rw [hs]
  unfold parseIp
  rw [readV4_colon]
  simp only
  have hv6 : readV6 (58 :: 58 :: 102 :: 102 :: 102 :: 102 :: 58 :: dotted a b c d) =
      some ([0, 0, 0, 0, 0, 0xffff, a * 256 + b, c * 256 + d], []) := by
    unfold readV6
    have hg0 : readGroups 8 8 0 (58 :: 58 :: 102 :: 102 :: 102 :: 102 :: 58 :: dotted a b c d) =
        ([], false, 58 :: 58 :: 102 :: 102 :: 102 :: 102 :: 58 :: dotted a b c d) := by
      simp [readGroups, readSep, readV4_colon, readHex4_colon]
    rw [hg0]
    simp only [List.length_nil, expect, if_true]
    have hg1 : readGroups 7 7 0 (102 :: 102 :: 102 :: 102 :: 58 :: dotted a b c d) =
        ([0xffff, a * 256 + b, c * 256 + d], true, []) := by
      simp [readGroups, readSep, readV4_f, readHex4_ffff, expect, hd4]
    simp [hg1]
  rw [hv6]
  rfl

theorem normalizeHost_mapped (a b c d : Nat) (ha : a < 256) (hb : b < 256) (hc : c < 256)
    (hd : d < 256) :
    normalizeHost (mappedLiteral a b c d) = bytesOf "::ffff:" ++ dotted a b c d := by
  obtain ⟨y, hy, hyd⟩ := dotted_last a b c d hd
  have hdd := dotted_digitDot a b c d ha hb hc hd
  have hlast : (bytesOf "::ffff:" ++ dotted a b c d).getLast? ≠ some 46 := by
    obtain ⟨x, t, hxt, _⟩ := dotted_head a b c d ha
    have hne : dotted a b c d ≠ [] := by rw [hxt]; simp
    rw [List.getLast?_append, hy]
    simp only [Option.some_or]
    intro e
    have : y = 46 := by simpa using e
    subst this; simp [isDigit] at hyd
  unfold normalizeHost mappedLiteral
  simp only [stripBrackets_bracketed, stripSuffix1_none 46 _ hlast, Option.getD_none]
  apply lower_id
  intro z hz
  rcases List.mem_append.1 hz with hz | hz
  · have : z = 58 ∨ z = 102 := by
      have : z ∈ [58, 58, 102, 102, 102, 102, 58] := hz
      simp at this; omega
    omega
  · exact digit_not_upper z (hdd z hz)

/-- **An IPv4-mapped IPv6 literal of a listed IPv4 block is refused.** -/
theorem literal_mapped_blocked (a b c d : Nat) (ha : a < 256) (hb : b < 256) (hc : c < 256)
    (hd : d < 256) (h : BlockedV4 (v4Num a b c d)) :
    hostStrIsNonGlobal (mappedLiteral a b c d) = true := by
  rw [parsed_host_verdict _ _ (by rw [normalizeHost_mapped a b c d ha hb hc hd]; exact parseIp_mapped a b c d ha hb hc hd)]
  show ipv6IsNonGlobal [0, 0, 0, 0, 0, 0xffff, a * 256 + b, c * 256 + d] = true
  apply v6_sound _ _ _ _ _ _ _ _ (by omega) (by omega) (by omega)
  unfold BlockedV6
  right; right; right; right; right
  refine ⟨rfl, rfl, rfl, rfl, rfl, rfl, ?_⟩
  have : (a * 256 + b) * 0x10000 + (c * 256 + d) = v4Num a b c d := by unfold v4Num; omega
  rw [this]; exact h

/-- **Any host that parses as an IPv6 literal of a listed block is refused** (whatever its text
form: compressed, expanded, upper case, embedded dotted quad, with or without brackets / trailing
dot). No hypothesis on the segments: `parseIp_v6_shape` shows the parser only returns eight
16-bit segments. -/
theorem literal_v6_blocked (h : Bytes) (s0 s1 s2 s3 s4 s5 s6 s7 : Nat)
    (hp : parseIp (normalizeHost h) = some (.v6 [s0, s1, s2, s3, s4, s5, s6, s7]))
    (hb : BlockedV6 s0 s1 s2 s3 s4 s5 s6 s7) : hostStrIsNonGlobal h = true := by
  rw [parsed_host_verdict h _ hp]
  have hs := (parseIp_v6_shape _ _ hp).2
  exact v6_sound _ _ _ _ _ _ _ _ (hs s0 (by simp)) (hs s6 (by simp)) (hs s7 (by simp)) hb

/-- **Exact verdict for every host text that parses as an IPv6 address**: the parse result has
exactly eight segments, and the host is refused iff they form a listed block or the IPv4-mapped
rest of `0.0.0.0/8`. Covers every spelling of an IPv4-mapped literal (`::ffff:a.b.c.d`,
`::ffff:hhhh:hhhh`, expanded, upper case), not only the one of `literal_mapped_blocked`. -/
theorem literal_v6_exact (h : Bytes) (g : List Nat)
    (hp : parseIp (normalizeHost h) = some (.v6 g)) :
    ∃ s0 s1 s2 s3 s4 s5 s6 s7, g = [s0, s1, s2, s3, s4, s5, s6, s7] ∧
      (hostStrIsNonGlobal h = true ↔
        (BlockedV6 s0 s1 s2 s3 s4 s5 s6 s7 ∨ MappedThisNetwork s0 s1 s2 s3 s4 s5 s6 s7)) := by
  obtain ⟨hlen, hs⟩ := parseIp_v6_shape _ _ hp
  obtain ⟨s0, s1, s2, s3, s4, s5, s6, s7, rfl⟩ := eight_of_length g hlen
  refine ⟨s0, s1, s2, s3, s4, s5, s6, s7, rfl, ?_⟩
  rw [parsed_host_verdict h _ hp]
  exact v6_exact _ _ _ _ _ _ _ _ (hs s0 (by simp)) (hs s6 (by simp)) (hs s7 (by simp))

/-- Exact verdict for every host text that parses as an IPv4 address (no hypothesis on the octets:
`parseIp_v4_le`). -/
theorem literal_v4_exact (h : Bytes) (a b c d : Nat)
    (hp : parseIp (normalizeHost h) = some (.v4 a b c d)) :
    hostStrIsNonGlobal h = true ↔ (BlockedV4 (v4Num a b c d) ∨ v4Num a b c d ≤ 0x00ffffff) := by
  obtain ⟨ha, hb, hc, hd⟩ := parseIp_v4_le _ _ _ _ _ hp
  rw [parsed_host_verdict h _ hp]
  exact v4_exact a b c d (by omega) (by omega) (by omega) (by omega)

example : parseIp (normalizeHost (bytesOf "[0:0:0:0:0:FFFF:A9FE:A9FE]")) =
    some (.v6 [0, 0, 0, 0, 0, 0xffff, 0xa9fe, 0xa9fe]) := by decide

example : hostStrIsNonGlobal (bytesOf "[::1]") = true := by decide
example : hostStrIsNonGlobal (bytesOf "[FE80::1]") = true := by decide
example : hostStrIsNonGlobal (bytesOf "[fd00:1:2::3]") = true := by decide
example : hostStrIsNonGlobal (bytesOf "[::ffff:7f00:1]") = true := by decide
example : hostStrIsNonGlobal (bytesOf "[0:0:0:0:0:ffff:169.254.169.254]") = true := by decide
example : hostStrIsNonGlobal (bytesOf "[2606:2800:220:1:248:1893:25c8:1946]") = false := by decide
example : parseIp (bytesOf "fe80::1") = some (.v6 [0xfe80, 0, 0, 0, 0, 0, 0, 1]) := by decide

/-! #### numeric hosts fail closed -/

/-- The number forms of inet_aton / the WHATWG host parser: dot-separated labels, each all
decimal digits (decimal or octal) or starting with `0x`/`0X`. -/
def NumericForm (s : Bytes) : Prop :=
  s ≠ [] ∧ ∀ l ∈ splitOn 46 s, l.all isDigit = true ∨ starts0x l = true

theorem splitOn_all_digits (s : Bytes) (h : ∀ l ∈ splitOn 46 s, l.all isDigit = true) :
    s.all (fun b => isDigit b || b == 46) = true := by
  induction s with
  | nil => rfl
  | cons b t ih =>
    unfold splitOn at h
    by_cases hb : b = 46
    · subst hb
      simp only [if_true, List.mem_cons] at h
      simp only [List.all_cons, beq_self_eq_true, Bool.or_true, Bool.true_and]
      exact ih (fun l hl => h l (Or.inr hl))
    · simp only [hb, if_false] at h
      cases hs : splitOn 46 t with
      | nil =>
        rw [hs] at h
        -- `splitOn` never returns the empty list
        cases t with
        | nil => simp [splitOn] at hs
        | cons c u =>
          unfold splitOn at hs
          by_cases hc : c = 46
          · simp [hc] at hs
          · simp only [hc, if_false] at hs
            cases hs' : splitOn 46 u <;> simp [hs'] at hs
      | cons p ps =>
        rw [hs] at h
        have hbp := h (b :: p) (List.mem_cons_self ..)
        simp only [List.all_cons, Bool.and_eq_true] at hbp
        simp only [List.all_cons, hbp.1, Bool.true_or, Bool.true_and]
        apply ih
        intro l hl
        rw [hs] at hl
        rcases List.mem_cons.1 hl with rfl | hl
        · exact hbp.2
        · exact h l (List.mem_cons_of_mem _ hl)

/-- Every numeric form is recognised by `looks_like_obfuscated_ip`. -/
theorem numeric_form_looks_obfuscated (s : Bytes) (h : NumericForm s) : looksObfuscated s = true := by
  obtain ⟨hne, hl⟩ := h
  unfold looksObfuscated
  have he : s.isEmpty = false := by cases s <;> simp at hne ⊢
  simp only [he, Bool.false_eq_true, if_false]
  by_cases hall : s.all (fun b => isDigit b || b == 46) = true
  · simp [hall]
  · simp only [hall, if_false]
    apply Decidable.byContradiction
    intro hno
    apply hall
    apply splitOn_all_digits
    intro l hmem
    rcases hl l hmem with h1 | h1
    · exact h1
    · exfalso; apply hno
      exact List.any_eq_true.2 ⟨l, hmem, h1⟩

/-- **Numeric hosts fail closed**: a host in any inet_aton number form (decimal, octal, hex, one to
four parts, trailing dot, brackets, any case) is refused, unless it is a standard IP literal, in
which case the address classification decides. -/
theorem numeric_host_fail_closed (h : Bytes) (hn : NumericForm (normalizeHost h)) :
    hostStrIsNonGlobal h = true ∨
    ∃ ip, parseIp (normalizeHost h) = some ip ∧ hostStrIsNonGlobal h = ipIsNonGlobal ip := by
  cases hp : parseIp (normalizeHost h) with
  | some ip => right; exact ⟨ip, rfl, parsed_host_verdict h ip hp⟩
  | none =>
    left
    simp [hostStrIsNonGlobal, hp, numeric_form_looks_obfuscated _ hn]

example : NumericForm (normalizeHost (bytesOf "0x7F.1")) := by
  refine ⟨by decide, ?_⟩
  intro l hl
  have : l = bytesOf "0x7f" ∨ l = bytesOf "1" := by
    have : l ∈ [bytesOf "0x7f", bytesOf "1"] := hl
    simpa using this
  rcases this with rfl | rfl <;> decide
example : hostStrIsNonGlobal (bytesOf "2130706433") = true := by decide
example : hostStrIsNonGlobal (bytesOf "0177.0.0.1") = true := by decide
example : hostStrIsNonGlobal (bytesOf "127.0x1") = true := by decide
example : hostStrIsNonGlobal (bytesOf "134744072") = true := by decide  -- 8.8.8.8, still refused

/-! #### the loopback name -/

theorem mem_of_endsWith (s suffix : Bytes) (x : Nat) (h : endsWith s suffix = true) (hx : x ∈ suffix) :
    x ∈ s := by
  obtain ⟨t, ht⟩ := List.isSuffixOf_iff_suffix.1 h
  rw [← ht]; exact List.mem_append_right _ hx

/-- **`localhost` and every name under `.localhost` is refused**, in any case, with or without a
trailing dot. -/
theorem localhost_blocked (h : Bytes)
    (hl : normalizeHost h = localhost ∨ endsWith (normalizeHost h) dotLocalhost = true) :
    hostStrIsNonGlobal h = true := by
  have ht : (116 : Nat) ∈ normalizeHost h := by
    rcases hl with hl | hl
    · rw [hl]; decide
    · exact mem_of_endsWith _ _ 116 hl (by decide)
  have hp := parseIp_none_of_mem (normalizeHost h) 116 ht (by decide)
  unfold hostStrIsNonGlobal
  simp only [hp]
  by_cases ho : looksObfuscated (normalizeHost h) = true
  · simp [ho]
  · have hof : looksObfuscated (normalizeHost h) = false := by simpa using ho
    simp only [hof, Bool.false_eq_true, if_false, Bool.or_eq_true, beq_iff_eq]
    exact hl

example : normalizeHost (bytesOf "LocalHost.") = localhost := by decide
example : endsWith (normalizeHost (bytesOf "api.LOCALHOST")) dotLocalhost = true := by decide
example : hostStrIsNonGlobal (bytesOf "notlocalhost.example.com") = false := by decide

/-- A URI without a host is refused as a redirect target. -/
theorem no_host_blocked (u : Uri) (h : u.host = none) : hostIsNonGlobal u = true := by
  simp [hostIsNonGlobal, h]

/-! ### the redirect follower: every hop, every history -/

theorem redirectTarget_ok (join : JoinFn) (a : Bool) (hop : Nat) (u : Uri) (resp : Response)
    (t : Uri) (h : redirectTarget join a hop u resp = .ok (some t)) :
    a = true ∧ hostIsNonGlobal t = false ∧ ∃ loc, redirectLocation resp = some loc ∧ join hop u loc = .ok t := by
  unfold redirectTarget at h
  cases hl : redirectLocation resp with
  | none => simp [hl] at h
  | some loc =>
    simp only [hl] at h
    cases a with
    | false => simp at h
    | true =>
      simp only [Bool.not_true, Bool.false_eq_true, if_false] at h
      cases hj : join hop u loc with
      | other => simp [hj] at h
      | http => simp [hj] at h
      | ok target =>
        simp only [hj] at h
        by_cases hg : hostIsNonGlobal target = true
        · simp [hg] at h
        · simp only [hg, if_false] at h
          have : target = t := by simpa using h
          subst this
          exact ⟨rfl, by simpa using hg, loc, rfl, hj⟩

/-- **No redirect hop goes to a host the classification refuses**: every request that reaches the
transport after the first one has a host, and `host_is_non_global` is false for it. With the
soundness theorems above: never a listed IPv4/IPv6/mapped literal, a numeric form, or a
localhost name. -/
theorem redirects_never_reach_internal (t : Transport) (join : JoinFn)
    (allowed : Option (List Pattern)) (redirects : Bool) (req : Request) :
    ∀ r ∈ (stack t join allowed redirects req).1.trace.tail, hostIsNonGlobal r.uri = false := by
  rw [stack_eq]
  unfold redirectResolver
  refine loop_hops _ join redirects (fun r => hostIsNonGlobal r.uri = false)
    (stackInner_innerOK t allowed) ?_ _ _ _ _ (Or.inl rfl) (by intro r hr; cases hr)
  intro hop rq resp tg h
  exact (redirectTarget_ok join redirects hop rq.uri resp tg h).2.1

/-- Spelled out for dotted-decimal literals: no request after the first goes to a listed block. -/
theorem redirect_hop_not_listed_v4 (t : Transport) (join : JoinFn)
    (allowed : Option (List Pattern)) (redirects : Bool) (req : Request)
    (a b c d : Nat) (ha : a < 256) (hb : b < 256) (hc : c < 256) (hd : d < 256)
    (r : Request) (hr : r ∈ (stack t join allowed redirects req).1.trace.tail)
    (hhost : r.uri.host = some (dotted a b c d)) : ¬ BlockedV4 (v4Num a b c d) := by
  intro hbl
  have h1 := redirects_never_reach_internal t join allowed redirects req r hr
  have h2 := (literal_v4_blocked a b c d ha hb hc hd hbl).1
  simp [hostIsNonGlobal, hhost, h2] at h1

/-- **At most ten redirects are followed**: the transport is called at most eleven times. -/
theorem hop_limit (t : Transport) (join : JoinFn) (allowed : Option (List Pattern))
    (redirects : Bool) (req : Request) :
    (stack t join allowed redirects req).1.trace.length ≤ maxRedirects + 1 := by
  rw [stack_eq]
  unfold redirectResolver
  have := loop_trace_length _ join redirects (stackInner_innerOK t allowed) (maxRedirects + 1) 0 req {}
  simpa using this

/-- The bound is attained and ends in `TooManyRedirects`: a transport that always redirects. -/
def loopTransport : Transport := fun _ _ => .ok { status := 302, location := .str (bytesOf "/again") }
def loopUri : Uri :=
  { text := bytesOf "https://example.com/again", scheme := some (bytesOf "https"),
    host := some (bytesOf "example.com"), port := none }
def loopJoin : JoinFn := fun _ _ _ => .ok loopUri
def loopReq : Request := { method := bytesOf "GET", uri := loopUri, headers := [], body := [] }
def isTooMany : Except Err Response → Bool
  | .error .tooManyRedirects => true
  | _ => false

example : (stack loopTransport loopJoin none true loopReq).1.trace.length = 11 ∧
    isTooMany (stack loopTransport loopJoin none true loopReq).2 = true := by decide

/-- **With redirects disabled no redirect is followed**: at most one transport call, and a
redirect response ends the run in `RedirectDisallowed`. -/
theorem disabled_refuses_all (t : Transport) (join : JoinFn) (allowed : Option (List Pattern))
    (req : Request) :
    (stack t join allowed false req).1.trace.length ≤ 1 ∧
    ∀ resp loc, (stackInner t allowed 0 req {}).2 = .ok resp → redirectLocation resp = some loc →
      (stack t join allowed false req).2 = .error .redirectDisallowed := by
  rw [stack_eq]
  unfold redirectResolver
  rw [show maxRedirects + 1 = 10 + 1 from rfl, loop_disabled]
  have hin := stackInner_innerOK t allowed 0 req {}
  cases hi : stackInner t allowed 0 req {} with
  | mk st' res =>
    rw [hi] at hin
    have hlen : st'.trace.length ≤ 1 := by
      rcases hin with e | e
      · have : st'.trace = [req] := by simpa using e
        rw [this]; simp
      · have : st'.trace = [] := by simpa using e
        rw [this]; simp
    cases res with
    | error e =>
      refine ⟨hlen, ?_⟩
      intro resp loc h; cases h
    | ok resp =>
      simp only
      constructor
      · cases redirectLocation resp <;> exact hlen
      · intro resp' loc h hl
        have : resp = resp' := by simpa using h
        subst this
        rw [hl]

/-- The four header names `build_redirected_request` drops. -/
def Sensitive (name : Bytes) : Prop :=
  name = hHost ∨ name = hAuthorization ∨ name = hCookie ∨ name = hProxyAuthorization

theorem dropHeader_iff (name : Bytes) : dropHeader name = true ↔ Sensitive name := by
  simp [dropHeader, Sensitive, or_assoc]

/-- **Authorization, Cookie, Proxy-Authorization and Host never reach a redirect target**: no
request after the first carries any of them (header names as `http::HeaderName` holds them, i.e.
lower case), on every hop, whether or not the origin changes. -/
theorem headers_stripped (t : Transport) (join : JoinFn) (allowed : Option (List Pattern))
    (redirects : Bool) (req : Request) :
    ∀ r ∈ (stack t join allowed redirects req).1.trace.tail, ∀ h ∈ r.headers, ¬ Sensitive h.name := by
  rw [stack_eq]
  unfold redirectResolver
  refine loop_hops _ join redirects (fun r => ∀ h ∈ r.headers, ¬ Sensitive h.name)
    (stackInner_innerOK t allowed) ?_ _ _ _ _ (Or.inl rfl) (by intro r hr; cases hr)
  intro hop rq resp tg _ h hh
  simp only [buildRedirected, List.mem_filter, Bool.not_eq_true'] at hh
  intro hs
  have := (dropHeader_iff h.name).2 hs
  rw [hh.2] at this; cases this

/-- Everything else of the request is preserved across redirects: method and body of every
request that reaches the transport are those of the original request, and the other headers are
kept in order. -/
theorem method_body_preserved (t : Transport) (join : JoinFn) (allowed : Option (List Pattern))
    (redirects : Bool) (req : Request) :
    ∀ r ∈ (stack t join allowed redirects req).1.trace, r.method = req.method ∧ r.body = req.body := by
  rw [stack_eq]
  unfold redirectResolver
  -- strengthen: current request and all of the trace agree with `req`
  suffices hgen : ∀ fuel hop (rq : Request) (st : St),
      (rq.method = req.method ∧ rq.body = req.body) →
      (∀ r ∈ st.trace, r.method = req.method ∧ r.body = req.body) →
      ∀ r ∈ (redirectLoop (stackInner t allowed) join redirects fuel hop rq st).1.trace,
        r.method = req.method ∧ r.body = req.body from
    hgen _ _ _ _ ⟨rfl, rfl⟩ (by intro r hr; cases hr)
  intro fuel
  induction fuel with
  | zero => intro hop rq st _ h; simpa [redirectLoop] using h
  | succ n ih =>
    intro hop rq st hrq h
    have hst' : ∀ r ∈ (stackInner t allowed hop rq st).1.trace, r.method = req.method ∧ r.body = req.body := by
      intro r hr
      rcases stackInner_innerOK t allowed hop rq st with e | e
      · rw [e] at hr
        rcases List.mem_append.1 hr with h1 | h1
        · exact h r h1
        · have : r = rq := by simpa using h1
          subst this; exact hrq
      · rw [e] at hr; exact h r hr
    unfold redirectLoop
    cases hi : stackInner t allowed hop rq st with
    | mk st' res =>
      rw [hi] at hst'
      cases res with
      | error e => simpa using hst'
      | ok resp =>
        simp only
        cases hr : redirectTarget join redirects hop rq.uri resp with
        | error e => simpa using hst'
        | ok o =>
          cases o with
          | none => simpa using hst'
          | some target => exact ih _ _ _ hrq hst'

/-! ### non-vacuity of the stack theorems: a chain that is followed, then refused -/

def exHeaders : List Header :=
  [{ name := hAuthorization, value := bytesOf "Bearer x" }, { name := bytesOf "accept", value := bytesOf "*/*" },
   { name := hCookie, value := bytesOf "sid=1" }]
def exReq : Request :=
  { method := bytesOf "POST", uri := loopUri, headers := exHeaders, body := [1, 2, 3] }
def metaUri : Uri :=
  { text := bytesOf "http://169.254.169.254/latest/", scheme := some (bytesOf "http"),
    host := some (bytesOf "169.254.169.254"), port := none }
def exT : Transport := fun _ _ => .ok { status := 307, location := .str (bytesOf "x") }
def exJ : JoinFn := fun hop _ _ => if hop = 0 then .ok loopUri else .ok metaUri
def isTargetDisallowed : Except Err Response → Bool
  | .error .targetDisallowed => true
  | _ => false

example :
    let r := stack exT exJ none true exReq
    isTargetDisallowed r.2 = true ∧ r.1.trace.length = 2 ∧
    (r.1.trace.tail.map (·.headers)) = [[{ name := bytesOf "accept", value := bytesOf "*/*" }]] := by
  decide

/-! ### the statement in one piece: no redirect hop goes to a host the statement names -/

/-- The host texts the statement names: a listed IPv4 block as dotted-decimal literal (plain,
trailing dot, bracketed) or as `[::ffff:a.b.c.d]`; any text that parses as an IPv6 address of a
listed block (incl. every spelling of an IPv4-mapped listed address); any inet_aton number form
that is not a standard literal (fail closed, whatever address it denotes); `localhost` and names
under `.localhost`. Written without reference to the code's predicates. -/
def ListedHost (h : Bytes) : Prop :=
  (∃ a b c d, a < 256 ∧ b < 256 ∧ c < 256 ∧ d < 256 ∧ BlockedV4 (v4Num a b c d) ∧
      (h = dotted a b c d ∨ h = dotted a b c d ++ [46] ∨ h = 91 :: (dotted a b c d ++ [93]) ∨
       h = mappedLiteral a b c d)) ∨
  (∃ s0 s1 s2 s3 s4 s5 s6 s7, parseIp (normalizeHost h) = some (.v6 [s0, s1, s2, s3, s4, s5, s6, s7]) ∧
      BlockedV6 s0 s1 s2 s3 s4 s5 s6 s7) ∨
  (NumericForm (normalizeHost h) ∧ parseIp (normalizeHost h) = none) ∨
  (normalizeHost h = localhost ∨ endsWith (normalizeHost h) dotLocalhost = true)

theorem listed_host_refused (h : Bytes) (hl : ListedHost h) : hostStrIsNonGlobal h = true := by
  rcases hl with ⟨a, b, c, d, ha, hb, hc, hd, hbl, (rfl | rfl | rfl | rfl)⟩ | ⟨s0, s1, s2, s3, s4, s5, s6, s7, hp, hbl⟩ |
    ⟨hn, hp⟩ | hl
  · exact (literal_v4_blocked a b c d ha hb hc hd hbl).1
  · exact (literal_v4_blocked a b c d ha hb hc hd hbl).2.1
  · exact (literal_v4_blocked a b c d ha hb hc hd hbl).2.2
  · exact literal_mapped_blocked a b c d ha hb hc hd hbl
  · exact literal_v6_blocked h _ _ _ _ _ _ _ _ hp hbl
  · rcases numeric_host_fail_closed h hn with h1 | ⟨ip, hip, _⟩
    · exact h1
    · rw [hp] at hip; cases hip
  · exact localhost_blocked h hl

/-- **No request after the first goes to a host the statement names**, for every transport, every
`Url::join` behaviour, every allow-list configuration, both redirect settings, every request and
redirect history: each later request has a host, and that host is not a listed one. -/
theorem redirects_never_reach_listed (t : Transport) (join : JoinFn)
    (allowed : Option (List Pattern)) (redirects : Bool) (req : Request) :
    ∀ r ∈ (stack t join allowed redirects req).1.trace.tail,
      ∃ h, r.uri.host = some h ∧ ¬ ListedHost h := by
  intro r hr
  have h1 := redirects_never_reach_internal t join allowed redirects req r hr
  cases hh : r.uri.host with
  | none => simp [hostIsNonGlobal, hh] at h1
  | some h =>
    refine ⟨h, rfl, fun hl => ?_⟩
    have := listed_host_refused h hl
    simp [hostIsNonGlobal, hh, this] at h1

example : ListedHost (bytesOf "169.254.169.254") :=
  Or.inl ⟨169, 254, 169, 254, by omega, by omega, by omega, by omega, by unfold BlockedV4 v4Num; omega,
    Or.inl (by decide)⟩
example : ListedHost (bytesOf "[FE80::1]") :=
  Or.inr (Or.inl ⟨0xfe80, 0, 0, 0, 0, 0, 0, 1, by decide, by unfold BlockedV6; omega⟩)

/-! ### "the SDK": the request sites

The redirect guarantees above are those of `RedirectResolver` inside `Context::resolver()`. Two
request sites of sdk/src do not use the caller's Context (`Model/C26.lean`, `Site`): for them parts
of the statement are **false**; the witnesses are replayed on the real code over a loopback
listener (known findings `remote-signer-follows-redirect-to-internal-host`,
`remote-signer-follows-redirect-while-disabled`, `signer-timestamp-request-ignores-allow-redirects`). -/

/-- no redirect hop issued at `site` goes to a host the classification refuses -/
def SiteNeverRedirectsToInternal (site : Site) : Prop :=
  ∀ (t : Transport) (join : JoinFn) (allowed : Option (List Pattern)) (redirects : Bool) (req : Request),
    ∀ r ∈ (siteStack site t join allowed redirects req).1.trace.tail, hostIsNonGlobal r.uri = false

/-- with `core.allow_redirects = false` in the caller's configuration no redirect is followed at `site` -/
def SiteHonoursDisabled (site : Site) : Prop :=
  ∀ (t : Transport) (join : JoinFn) (allowed : Option (List Pattern)) (req : Request),
    (siteStack site t join allowed false req).1.trace.length ≤ 1

/-- The two clauses of the statement over every request site. False of the current code. -/
def EverySiteGuardsRedirects : Prop :=
  ∀ site, SiteNeverRedirectsToInternal site ∧ SiteHonoursDisabled site

/-- a client that follows the redirect to the metadata address -/
def metaT : Transport := fun hop _ =>
  if hop = 0 then .ok { status := 302, location := .str (bytesOf "http://169.254.169.254/latest/") }
  else .ok { status := 200, location := .absent }
def metaJ : JoinFn := fun _ _ _ => .ok metaUri

/-- **Redirect targets are classified at every site except the remote signer**, whose HTTP client
follows redirects by itself. -/
theorem site_never_internal_iff (site : Site) :
    SiteNeverRedirectsToInternal site ↔ site ≠ .remoteSigner := by
  constructor
  · intro h hs
    subst hs
    have := h metaT metaJ none true loopReq { loopReq with uri := metaUri } (by decide)
    revert this; decide
  · intro hs t join allowed redirects req
    cases site with
    | contextResolver => exact redirects_never_reach_internal t join allowed redirects req
    | signerTimestamp => exact redirects_never_reach_internal t join none true req
    | remoteSigner => exact absurd rfl hs

/-- **`allow_redirects = false` is honoured only through the Context resolver**: the signer's
default time-stamp request runs under a default-settings Context (redirects on), the remote signer
under a client that follows by itself. -/
theorem site_honours_disabled_iff (site : Site) : SiteHonoursDisabled site ↔ site = .contextResolver := by
  constructor
  · intro h
    cases site with
    | contextResolver => rfl
    | signerTimestamp =>
      have := h loopTransport loopJoin none loopReq
      revert this; decide
    | remoteSigner =>
      have := h loopTransport loopJoin none loopReq
      revert this; decide
  · rintro rfl t join allowed req
    exact (disabled_refuses_all t join allowed req).1

theorem every_site_guards_redirects_false : ¬ EverySiteGuardsRedirects := by
  intro h
  have := (site_honours_disabled_iff .signerTimestamp).1 (h .signerTimestamp).2
  cases this

/-- What remains true of the full statement `EverySiteGuardsRedirects`: the Context-resolver site
satisfies both clauses, and the signer's time-stamp site the first. -/
theorem every_site_guards_redirects_partial :
    (SiteNeverRedirectsToInternal .contextResolver ∧ SiteHonoursDisabled .contextResolver) ∧
    SiteNeverRedirectsToInternal .signerTimestamp :=
  ⟨⟨(site_never_internal_iff _).2 (by decide), (site_honours_disabled_iff _).2 rfl⟩,
   (site_never_internal_iff _).2 (by decide)⟩

/-- The one client that follows redirects natively is the remote signer's: generated from sdk/src on
every run (`with_redirects()` outside sdk/src/http), pinned here; the default-settings Contexts are
pinned by `C2pa.C26.request_sites_pinned`. -/
theorem native_redirect_clients_pinned :
    C28.Gen.nativeRedirectClients = [("settings/signer.rs", "sign")] := by decide


end C2pa.C27
