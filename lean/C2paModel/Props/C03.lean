import C2paModel.Lemmas.C03Base
import C2paModel.Lemmas.C03Split
import C2paModel.Lemmas.C03Count
import C2paModel.Lemmas.C03Splice
import C2paModel.Lemmas.C03NoEmbed
import C2paModel.Lemmas.C03Report
/-
C03 — property theorems. The statement (properties.jsonl):

  For any supported source asset, any well-formed manifest definition, any supported signing
  algorithm and hash algorithm, signing succeeds and reading the output back yields a Valid
  manifest (…). The reported active manifest carries exactly the title, format, claim
  generator, assertions (labels and data), ingredients and redactions that were supplied.

What is proved here, about `Model/C03.lean` (every hypothesis is about the inputs — the
handler, serialiser, digest and signer functions, the source, the chunk sizes — none about model
intermediates; the hasher's preconditions are *derived*, `Lemmas/C03Count.lean`):

* `sign_then_verify_core` / `sign_then_verify_valid` — the two-pass flow succeeds and the hard
  binding it stores verifies on the final asset (the verifier absorbs exactly the bytes whose
  digest is stored), for every handler obeying `Laws` (non-empty in-range exclusion list for what
  it wrote; non-empty output; replacing the payload by one of equal length changes neither the
  length nor any byte outside those exclusions), every JUMBF serialisation whose length is
  `base + |DataHash assertion| + |signature box|`, every signer that fills its reserve (C14),
  every digest function, every positive chunk size of signer and verifier, every first-pass output
  below 4 GiB (the `u32` progress counters then cannot overflow: `chunkCount_le_len`).
  The chain is the one of DESIGN §6: equal length (C14 `datahash_pad_exact`) ⇒ same Cai region
  ⇒ the verifier selects the same bytes as the signer hashed (C13 `excl_digest`) ⇒ the stored
  digest matches.
* `sign_ok_iff_fits` / `sign_fails_unless_fits` / `no_source_region_fails` — signing succeeds
  *exactly when* the unpadded final DataHash is not longer than the placeholder with its 10 bytes
  of padding; otherwise `JumbfCreationError` (e.g. a handler reporting no region for the source).
* `split_laws` / `split_sign_then_verify_valid`, `splice_laws` / `splice_sign_then_verify_valid` —
  two container handlers obey the laws for every framing, definition size (`base`) and reserve:
  prefix ++ framed manifest ++ suffix with length-dependent prefix/suffix, and a handler that
  *reads its asset* (cuts the reported region, writes the framed payload there; that the second
  write replaces the first is a theorem). `split_fits`: 10 bytes of padding absorb the growth of
  the region length. For real handlers the laws are checked by the harness on every data-hash
  format (`handler_laws` in harness/src/bin/c03.rs).
* `noembed_sign_then_verify_valid` — sidecar / remote manifests: the final DataHash has no
  exclusions, stores the digest of the whole (unchanged) asset, and verifies.
* `sign_then_state_valid` / `readBack_state` — composition with C01 (`bindData` on the signed
  asset returns `matched`), C06 (signature codes) and C04 (`state`): Valid, or Trusted when the
  signer chains to an anchor.
* `report_reflects_definition`, `claim_store_spec`, `report_instances` — title, format (version-1
  claims), the assertion list (labels up to `c2pa.actions…` → `c2pa.actions.v2`, payloads, kinds,
  order), the number of ingredients and the thumbnail are reported as supplied, the hard binding
  is not; instance numbers = earlier occurrences of the same label whenever no stored label is a
  proper substring of another.
* every headline theorem is instantiated on a concrete flow by a kernel-checked `example`
  (section "non-vacuity").
-/
namespace C2pa.C03
open C2pa

/-! ### the second pass -/

/-- What the second pass computes on the first-pass output, from input-level facts only: the
handler laws, a supported algorithm, a positive chunk size and an output shorter than 4 GiB
(`HashOK` is *derived*: `hashOK_of`). -/
theorem second_pass (E : Env) (alg : String) (src : Asset) (buf n base : Nat)
    (hd : digestLen alg = some n) (hn : 0 < n)
    (hH : ∀ x, (E.H x).length = n)
    (hj : ∀ d s, (E.jumbf d s).length = base + d.size + s.length)
    (laws : Laws E src (base + (placeholderDH alg src n).size + E.sigPlaceholder.length))
    (hbuf : 0 < buf) (hsz : (firstOut E alg src n).bytes.length ≤ C13.u32Max) :
    ∃ ex, finalExcl (firstOut E alg src n) = some ex ∧ ex ≠ [] ∧
      (1 ≤ (firstOut E alg src n).bytes.length ∧
        ∀ r ∈ ex, r.start + r.length ≤ (firstOut E alg src n).bytes.length) ∧
      genDataHash E.H alg (firstOut E alg src n).bytes (firstOut E alg src n).locs true buf =
        .ok (rawDH alg ex (E.H (C13.exclSpec (firstOut E alg src n).bytes (ex.map toHR)))) ∧
      (rawDH alg ex (E.H (C13.exclSpec (firstOut E alg src n).bytes (ex.map toHR)))).size =
        (rawDH alg ex (List.replicate n 0)).size := by
  let dh0 := placeholderDH alg src n
  let data0 := E.jumbf dh0 E.sigPlaceholder
  let out0 := E.embed src data0
  have hlen0 : data0.length = base + dh0.size + E.sigPlaceholder.length := hj _ _
  obtain ⟨ex, hex, hne, hwithin⟩ := laws.reported data0 hlen0
  have hexm : ex.map toHR ≠ [] := map_toHR_ne hne
  have ok1 : HashOK alg out0.bytes.length (ex.map toHR) buf :=
    hashOK_of hd _ ex buf hbuf hne (laws.nonempty data0 hlen0) hsz hwithin
  obtain ⟨prog, hhash⟩ := hash_excl alg out0.bytes (ex.map toHR) buf hexm ok1
  have hHne : (E.H (C13.exclSpec out0.bytes (ex.map toHR))).isEmpty = false := by
    have := hH (C13.exclSpec out0.bytes (ex.map toHR))
    cases hx : E.H (C13.exclSpec out0.bytes (ex.map toHR)) with
    | nil => rw [hx] at this; simp at this; omega
    | cons a t => rfl
  refine ⟨ex, hex, hne, ⟨laws.nonempty data0 hlen0, hwithin⟩, ?_, ?_⟩
  · unfold genDataHash
    have hex' : exclusionsOf out0.bytes.length out0.locs true = some ex := hex
    show (match exclusionsOf out0.bytes.length out0.locs true with
      | none => Except.error Err.badParam
      | some excl => _) = _
    simp only [hex', if_true]
    have hr : ({ excl := ex, algLen := alg.length, hash := [], pad := 0, pad2 := none } : DHash).ranges
        = some (ex.map toHR) := ranges_of_ne _ hne
    rw [hr, hhash]
    simp [hHne, rawDH]
    rfl
  · unfold DHash.size DHash.c15
    simp [hH]

/-- the `start_save_stream` result after the second pass, unfolded -/
theorem startSave_unfold (E : Env) (alg : String) (src : Asset) (buf n : Nat)
    (hd : digestLen alg = some n) (h1 : DHash)
    (hgen2 : genDataHash E.H alg (firstOut E alg src n).bytes (firstOut E alg src n).locs true buf = .ok h1) :
    startSave E alg src buf =
      (match updateDataHash h1 (placeholderDH alg src n).size with
        | .error e => .error e
        | .ok dh1 =>
          if (E.jumbf dh1 E.sigPlaceholder).length ≠ (E.jumbf (placeholderDH alg src n) E.sigPlaceholder).length
          then .error .jumbfCreation
          else .ok ⟨firstOut E alg src n, dh1, (E.jumbf (placeholderDH alg src n) E.sigPlaceholder).length⟩) := by
  unfold startSave
  rw [genDataHash_first E.H alg src buf n hd]
  show (match genDataHash E.H alg (firstOut E alg src n).bytes (firstOut E alg src n).locs true buf with
      | .error e => .error e
      | .ok h1 => match updateDataHash h1 (placeholderDH alg src n).size with
        | .error e => .error e
        | .ok dh1 =>
          if (E.jumbf dh1 E.sigPlaceholder).length ≠ (E.jumbf (placeholderDH alg src n) E.sigPlaceholder).length
          then .error .jumbfCreation
          else .ok ⟨firstOut E alg src n, dh1, (E.jumbf (placeholderDH alg src n) E.sigPlaceholder).length⟩
        : Except Err Started) = _
  rw [hgen2]

/-! ### the main theorem -/

/-- **sign_then_verify_core.** The flow succeeds; the final asset is the first-pass output with
the *final* store embedded over the placeholder; the store has the placeholder's length; and the
verifier, hashing the final asset with the stored exclusions, **absorbs exactly the byte string
`pre` whose digest the manifest stores** (so the comparison succeeds for every digest function,
collisions or not). `sign_then_verify_valid` is the digest-level corollary. -/
theorem sign_then_verify_core (E : Env) (alg : String) (src : Asset) (buf buf' n base : Nat)
    (hd : digestLen alg = some n) (hn : 0 < n)
    (hH : ∀ x, (E.H x).length = n)
    (hj : ∀ d s, (E.jumbf d s).length = base + d.size + s.length)
    (hs : ∀ d, (E.sign d).length = E.sigPlaceholder.length)
    (laws : Laws E src (base + (placeholderDH alg src n).size + E.sigPlaceholder.length))
    (hbuf : 0 < buf) (hbuf' : 0 < buf')
    (hsz : (firstOut E alg src n).bytes.length ≤ C13.u32Max)
    (fits : ∀ ex, finalExcl (firstOut E alg src n) = some ex →
      (rawDH alg ex (List.replicate n 0)).size ≤ (placeholderDH alg src n).size) :
    ∃ manifest dh pre,
      saveToStream E alg src buf = .ok (E.embed (firstOut E alg src n) manifest) manifest dh ∧
      manifest.length = (E.jumbf (placeholderDH alg src n) E.sigPlaceholder).length ∧
      (E.embed (firstOut E alg src n) manifest).bytes.length = (firstOut E alg src n).bytes.length ∧
      dh.size = (placeholderDH alg src n).size ∧
      finalExcl (firstOut E alg src n) = some dh.excl ∧ dh.excl ≠ [] ∧
      dh.hash = E.H pre ∧
      ∃ prog, C13.hashModel alg (E.embed (firstOut E alg src n) manifest).bytes dh.ranges true buf' none
        = .ok pre prog := by
  let dh0 := placeholderDH alg src n
  let data0 := E.jumbf dh0 E.sigPlaceholder
  let out0 := E.embed src data0
  have hlen0 : data0.length = base + dh0.size + E.sigPlaceholder.length := hj _ _
  obtain ⟨ex, hex, hne, ok1, hgen2, hsz1⟩ := second_pass E alg src buf n base hd hn hH hj laws hbuf hsz
  have hexm : ex.map toHR ≠ [] := map_toHR_ne hne
  let h1 : DHash := rawDH alg ex (E.H (C13.exclSpec out0.bytes (ex.map toHR)))
  have hle : C14.dhSize h1.c14 ≤ dh0.size := by
    rw [size_c14, hsz1]; exact fits ex hex
  obtain ⟨p, hp, hpsz, hprest⟩ := C14.datahash_pad_exact h1.c14 dh0.size rfl hle
  let dh1 : DHash := { h1 with pad := p.pad, pad2 := p.pad2 }
  have hupd : updateDataHash h1 dh0.size = .ok dh1 := by
    unfold updateDataHash
    rw [hp]
  have hdh1 : dh1.size = dh0.size := by
    rw [← size_c14]
    have : dh1.c14 = p := by
      show (⟨dh1.rest, p.pad, p.pad2⟩ : C14.DH) = p
      have : dh1.rest = p.rest := by rw [hprest]; rfl
      rw [this]
    rw [this, hpsz]
  have hdata1 : (E.jumbf dh1 E.sigPlaceholder).length = data0.length := by
    rw [hj, hlen0, hdh1]
  have hstart : startSave E alg src buf = .ok ⟨out0, dh1, data0.length⟩ := by
    rw [startSave_unfold E alg src buf n hd h1 hgen2]
    have hupd' : updateDataHash h1 (placeholderDH alg src n).size = .ok dh1 := hupd
    have hdata1' : (E.jumbf dh1 E.sigPlaceholder).length =
        (E.jumbf (placeholderDH alg src n) E.sigPlaceholder).length := hdata1
    simp only [hupd', hdata1', ne_eq, not_true_eq_false, if_false]
    rfl
  let final := E.jumbf dh1 (E.sign dh1)
  have hfinal : final.length = data0.length := by
    show (E.jumbf dh1 (E.sign dh1)).length = _
    rw [hj, hs, hlen0, hdh1]
  obtain ⟨hl, hagree⟩ := laws.stable data0 final ex hlen0 (by rw [hfinal, hlen0]) hex
  refine ⟨final, dh1, C13.exclSpec out0.bytes (ex.map toHR), ?_, hfinal, hl, hdh1, hex, hne, rfl, ?_⟩
  · unfold saveToStream
    rw [hstart]
  · -- the verifier hashes the final asset with the stored exclusions
    have ok2 : HashOK alg (E.embed out0 final).bytes.length (ex.map toHR) buf' := by
      rw [hl]
      exact hashOK_of hd _ ex buf' hbuf' hne ok1.1 hsz ok1.2
    obtain ⟨prog2, hhash2⟩ := hash_excl alg (E.embed out0 final).bytes (ex.map toHR) buf' hexm ok2
    have hr : dh1.ranges = some (ex.map toHR) := ranges_of_ne dh1 hne
    have : C13.exclSpec (E.embed out0 final).bytes (ex.map toHR) = C13.exclSpec out0.bytes (ex.map toHR) :=
      exclSpec_congr _ _ _ hl hagree
    refine ⟨prog2, ?_⟩
    rw [hr, ← this]
    exact hhash2

/-- **sign_then_verify_valid.** For every handler obeying `Laws`, every JUMBF serialisation with
the length law, every signer filling its reserve, every digest function of the right length,
every pair of positive chunk sizes and every first-pass output shorter than 4 GiB: if the final
DataHash fits the placeholder (`fits`: its unpadded CBOR is not longer than the placeholder's —
see `split_fits` for why 10 bytes of padding suffice, and `sign_ok_iff_fits` for the converse),
the flow succeeds, the returned manifest store has exactly the placeholder's length, the final
asset has the first-pass asset's length, and the verifier — hashing the *final* asset with the
exclusions stored in the manifest — recomputes exactly the stored digest.

All hypotheses are about the inputs (`E`'s functions, the source, the chunk sizes); the hasher's
preconditions are derived (`hashOK_of`). -/
theorem sign_then_verify_valid (E : Env) (alg : String) (src : Asset) (buf buf' n base : Nat)
    (hd : digestLen alg = some n) (hn : 0 < n)
    (hH : ∀ x, (E.H x).length = n)
    (hj : ∀ d s, (E.jumbf d s).length = base + d.size + s.length)
    (hs : ∀ d, (E.sign d).length = E.sigPlaceholder.length)
    (laws : Laws E src (base + (placeholderDH alg src n).size + E.sigPlaceholder.length))
    (hbuf : 0 < buf) (hbuf' : 0 < buf')
    (hsz : (firstOut E alg src n).bytes.length ≤ C13.u32Max)
    (fits : ∀ ex, finalExcl (firstOut E alg src n) = some ex →
      (rawDH alg ex (List.replicate n 0)).size ≤ (placeholderDH alg src n).size) :
    ∃ asset manifest dh, saveToStream E alg src buf = .ok asset manifest dh ∧
      manifest.length = (E.jumbf (placeholderDH alg src n) E.sigPlaceholder).length ∧
      asset.bytes.length = (firstOut E alg src n).bytes.length ∧
      dh.size = (placeholderDH alg src n).size ∧
      verifyBinding E.H alg asset.bytes dh buf' = true := by
  obtain ⟨manifest, dh, pre, h1, h2, h3, h4, _, _, h7, prog, h8⟩ :=
    sign_then_verify_core E alg src buf buf' n base hd hn hH hj hs laws hbuf hbuf' hsz fits
  refine ⟨_, manifest, dh, h1, h2, h3, h4, ?_⟩
  unfold verifyBinding
  rw [h8, h7]
  simp

/-! ### the fit condition is necessary -/

theorem padToSize_too_big (d : C14.DH) (want : Nat) (h : C14.dhSize d > want) :
    C14.padToSize d want = .err := by
  unfold C14.padToSize C14.padToSizeF
  simp [h]

/-- **sign_fails_unless_fits.** If the unpadded final DataHash is longer than the placeholder
(with its 10 bytes of padding), the flow ends in `JumbfCreationError` — whatever the handler,
definition size and reserve. -/
theorem sign_fails_unless_fits (E : Env) (alg : String) (src : Asset) (buf n base : Nat)
    (hd : digestLen alg = some n) (hn : 0 < n)
    (hH : ∀ x, (E.H x).length = n)
    (hj : ∀ d s, (E.jumbf d s).length = base + d.size + s.length)
    (laws : Laws E src (base + (placeholderDH alg src n).size + E.sigPlaceholder.length))
    (hbuf : 0 < buf) (hsz : (firstOut E alg src n).bytes.length ≤ C13.u32Max)
    (nofit : ∀ ex, finalExcl (firstOut E alg src n) = some ex →
      (placeholderDH alg src n).size < (rawDH alg ex (List.replicate n 0)).size) :
    saveToStream E alg src buf = .err .jumbfCreation := by
  obtain ⟨ex, hex, hne, ok1, hgen2, hsz1⟩ := second_pass E alg src buf n base hd hn hH hj laws hbuf hsz
  have hbig : C14.dhSize
      (rawDH alg ex (E.H (C13.exclSpec (firstOut E alg src n).bytes (ex.map toHR)))).c14 >
        (placeholderDH alg src n).size := by
    rw [size_c14, hsz1]; exact nofit ex hex
  have hupd : updateDataHash
      (rawDH alg ex (E.H (C13.exclSpec (firstOut E alg src n).bytes (ex.map toHR))))
      (placeholderDH alg src n).size = .error .jumbfCreation := by
    unfold updateDataHash
    rw [padToSize_too_big _ _ hbig]
  unfold saveToStream
  rw [startSave_unfold E alg src buf n hd _ hgen2]
  simp only [hupd]

/-- **sign_ok_iff_fits.** Under the input-level hypotheses of `sign_then_verify_valid`, signing
succeeds *exactly when* the unpadded final DataHash is not longer than the placeholder. -/
theorem sign_ok_iff_fits (E : Env) (alg : String) (src : Asset) (buf n base : Nat)
    (hd : digestLen alg = some n) (hn : 0 < n)
    (hH : ∀ x, (E.H x).length = n)
    (hj : ∀ d s, (E.jumbf d s).length = base + d.size + s.length)
    (hs : ∀ d, (E.sign d).length = E.sigPlaceholder.length)
    (laws : Laws E src (base + (placeholderDH alg src n).size + E.sigPlaceholder.length))
    (hbuf : 0 < buf) (hsz : (firstOut E alg src n).bytes.length ≤ C13.u32Max) :
    (∃ asset manifest dh, saveToStream E alg src buf = .ok asset manifest dh) ↔
      (∀ ex, finalExcl (firstOut E alg src n) = some ex →
        (rawDH alg ex (List.replicate n 0)).size ≤ (placeholderDH alg src n).size) := by
  constructor
  · rintro ⟨a, m, dh, hok⟩ ex hex
    rcases Nat.lt_or_ge (placeholderDH alg src n).size (rawDH alg ex (List.replicate n 0)).size with h | h
    · have := sign_fails_unless_fits E alg src buf n base hd hn hH hj laws hbuf hsz (by
        intro ex' hex'
        rw [hex] at hex'
        cases hex'
        exact h)
      rw [this] at hok
      cases hok
    · exact h
  · intro fits
    obtain ⟨a, m, dh, h, _⟩ :=
      sign_then_verify_valid E alg src buf buf n base hd hn hH hj hs laws hbuf hbuf hsz fits
    exact ⟨a, m, dh, h⟩

/-- **no_source_region_fails.** If the handler reports no exclusion for the source (so the
placeholder DataHash has no `exclusions` member at all) while the asset it writes has one, the
final DataHash is at least 17 bytes longer than the placeholder with its 10 bytes of padding and
the flow ends in `JumbfCreationError` — whatever the handler, definition size and reserve. -/
theorem no_source_region_fails (E : Env) (alg : String) (src : Asset) (buf n base : Nat)
    (hd : digestLen alg = some n) (hn : 0 < n)
    (hH : ∀ x, (E.H x).length = n)
    (hj : ∀ d s, (E.jumbf d s).length = base + d.size + s.length)
    (hsrc : exclusionsOf src.bytes.length src.locs false = some [])
    (laws : Laws E src (base + (placeholderDH alg src n).size + E.sigPlaceholder.length))
    (hbuf : 0 < buf) (hsz : (firstOut E alg src n).bytes.length ≤ C13.u32Max) :
    saveToStream E alg src buf = .err .jumbfCreation := by
  apply sign_fails_unless_fits E alg src buf n base hd hn hH hj laws hbuf hsz
  intro ex hex
  have hne : ex ≠ [] := by
    obtain ⟨ex', hex', hne', _⟩ := laws.reported (E.jumbf (placeholderDH alg src n) E.sigPlaceholder) (hj _ _)
    have : finalExcl (firstOut E alg src n) = some ex' := hex'
    rw [hex] at this
    cases this
    exact hne'
  have hdh0 : placeholderDH alg src n =
      { excl := [], algLen := alg.length, hash := List.replicate n 0, pad := 10, pad2 := none } := by
    unfold placeholderDH
    rw [hsrc]; rfl
  rw [hdh0]
  unfold DHash.size DHash.c15 C15.dhSize
  cases ex with
  | nil => exact absurd rfl hne
  | cons r rs =>
    simp only [List.isEmpty_nil, List.isEmpty_cons, if_true, Bool.false_eq_true, if_false,
      C15.exclSize, C15.optField, C15.str, List.length_replicate, List.map_cons, List.sum_cons,
      C15.rangeSize]
    have h1' := C15.hdr_pos (List.length (r :: rs))
    have h2' := C15.hdr_pos r.start
    have h3' := C15.hdr_pos r.length
    have h4 : C15.hdr 10 = 1 := by decide
    have h5 : C15.hdr 0 = 1 := by decide
    omega

/-! ### the prefix ++ framed manifest ++ suffix container -/

/-- the `fits` (and single-exclusion) hypotheses hold for every container split -/
theorem split_fits_hyp (s : Split) (bytes : List UInt8) (at_ probe : Nat)
    (alg : String) (n : Nat) (jm : DHash → List UInt8 → List UInt8)
    (H : List UInt8 → List UInt8) (sg : DHash → List UInt8) (ph : List UInt8)
    (hprobe : 0 < probe) (hw : ∀ j, 0 < (s.wrap j).length)
    (hat : ∀ m, C15.hdr (s.pre m).length ≤ C15.hdr at_ + 2) :
    ∀ ex, finalExcl (firstOut ⟨s.embed, jm, H, sg, ph⟩ alg (Split.source bytes at_ probe) n) = some ex →
      (rawDH alg ex (List.replicate n 0)).size ≤ (placeholderDH alg (Split.source bytes at_ probe) n).size ∧
      ex.length ≤ 1 := by
  let src := Split.source bytes at_ probe
  have hph : placeholderDH alg src n =
      { excl := [⟨at_, probe⟩], algLen := alg.length, hash := List.replicate n 0, pad := 10, pad2 := none } := by
    unfold placeholderDH
    rw [split_source_excl bytes at_ probe hprobe]
    rfl
  intro ex hex
  have hfe := split_finalExcl s src (jm (placeholderDH alg src n) ph) (hw _)
  have hex2 : finalExcl (s.embed src (jm (placeholderDH alg src n) ph)) = some ex := hex
  rw [hfe] at hex2
  injection hex2 with hex2
  refine ⟨?_, by rw [← hex2]; exact Nat.le_refl 1⟩
  rw [← hex2]
  show _ ≤ (placeholderDH alg src n).size
  rw [hph]
  have := split_fits alg.length n at_ (s.pre (jm (placeholderDH alg src n) ph).length).length probe
    (s.wrap (jm (placeholderDH alg src n) ph)).length (hat _)
  rw [← hph] at this
  rw [← hph]
  exact this

/-- **sign_then_verify_valid for every container split**: any prefix/suffix (which may depend on
the payload length), any framing whose length depends on the payload length only, any source
bytes with a non-empty reported region whose start has (up to 2 bytes) the CBOR head size of the
start of the written region (`hat`; equal starts in every real handler), any definition size
`base`, any reserve (`ph`), any digest, any positive chunk sizes, any output below 4 GiB. -/
theorem split_sign_then_verify_valid (s : Split) (bytes : List UInt8) (at_ probe : Nat)
    (alg : String) (buf buf' n base : Nat) (jm : DHash → List UInt8 → List UInt8)
    (H : List UInt8 → List UInt8) (sg : DHash → List UInt8) (ph : List UInt8)
    (hprobe : 0 < probe) (hd : digestLen alg = some n) (hn : 0 < n)
    (hH : ∀ x, (H x).length = n)
    (hj : ∀ d σ, (jm d σ).length = base + d.size + σ.length)
    (hs : ∀ d, (sg d).length = ph.length)
    (hw : ∀ j, 0 < (s.wrap j).length)
    (hwl : ∀ j j', j.length = j'.length → (s.wrap j').length = (s.wrap j).length)
    (hat : ∀ m, C15.hdr (s.pre m).length ≤ C15.hdr at_ + 2)
    (hbuf : 0 < buf) (hbuf' : 0 < buf')
    (hsz : (firstOut ⟨s.embed, jm, H, sg, ph⟩ alg (Split.source bytes at_ probe) n).bytes.length ≤ C13.u32Max) :
    ∃ asset manifest dh,
      saveToStream ⟨s.embed, jm, H, sg, ph⟩ alg (Split.source bytes at_ probe) buf = .ok asset manifest dh ∧
      verifyBinding H alg asset.bytes dh buf' = true := by
  let E : Env := ⟨s.embed, jm, H, sg, ph⟩
  let src := Split.source bytes at_ probe
  have laws : Laws E src (base + (placeholderDH alg src n).size + E.sigPlaceholder.length) :=
    split_laws (jm := jm) (H := H) (sg := sg) (ph := ph) s src _ (fun j _ => hw j)
      (fun j j' h h' => hwl j j' (by rw [h, h']))
  obtain ⟨asset, manifest, dh, h1, _, _, _, h5⟩ :=
    sign_then_verify_valid E alg src buf buf' n base hd hn hH hj hs laws hbuf hbuf' hsz
      (fun ex hex => (split_fits_hyp s bytes at_ probe alg n jm H sg ph hprobe hw hat ex hex).1)
  exact ⟨asset, manifest, dh, h1, h5⟩

/-! ### a handler that reads the asset it is given -/

/-- **splice_sign_then_verify_valid.** The same for the splice handler — `Splice.embed` *reads*
the asset it is handed: it cuts the region the asset reports and writes the framed payload in
its place; that the second write replaces the first is proved (`splice_embed_embed`), not built
in. For every source whose reported region `[at_, at_+probe)` starts inside it: signing succeeds,
the binding verifies, and the signed asset is the source with its region replaced by the framed
*final* manifest store. -/
theorem splice_sign_then_verify_valid (s : Splice) (bytes : List UInt8) (at_ probe : Nat)
    (alg : String) (buf buf' n base : Nat) (jm : DHash → List UInt8 → List UInt8)
    (H : List UInt8 → List UInt8) (sg : DHash → List UInt8) (ph : List UInt8)
    (hprobe : 0 < probe) (hin : at_ ≤ bytes.length) (hd : digestLen alg = some n) (hn : 0 < n)
    (hH : ∀ x, (H x).length = n)
    (hj : ∀ d σ, (jm d σ).length = base + d.size + σ.length)
    (hs : ∀ d, (sg d).length = ph.length)
    (hw : ∀ j, 0 < (s.wrap j).length)
    (hwl : ∀ j j', j.length = j'.length → (s.wrap j').length = (s.wrap j).length)
    (hbuf : 0 < buf) (hbuf' : 0 < buf')
    (hsz : (firstOut ⟨s.embed, jm, H, sg, ph⟩ alg (Split.source bytes at_ probe) n).bytes.length ≤ C13.u32Max) :
    ∃ asset manifest dh,
      saveToStream ⟨s.embed, jm, H, sg, ph⟩ alg (Split.source bytes at_ probe) buf = .ok asset manifest dh ∧
      verifyBinding H alg asset.bytes dh buf' = true ∧
      asset.bytes = bytes.take at_ ++ s.wrap manifest ++ bytes.drop (at_ + probe) := by
  let E : Env := ⟨s.embed, jm, H, sg, ph⟩
  let src := Split.source bytes at_ probe
  have hreg : s.region src = (at_, probe) := splice_source_region s bytes at_ probe
  have ho : (s.region src).1 ≤ src.bytes.length := by rw [hreg]; exact hin
  have hph : placeholderDH alg src n =
      { excl := [⟨at_, probe⟩], algLen := alg.length, hash := List.replicate n 0, pad := 10, pad2 := none } := by
    unfold placeholderDH
    rw [split_source_excl bytes at_ probe hprobe]
    rfl
  have laws : Laws E src (base + (placeholderDH alg src n).size + E.sigPlaceholder.length) :=
    splice_laws (jm := jm) (H := H) (sg := sg) (ph := ph) s src _ ho (fun j _ => hw j)
      (fun j j' h h' => hwl j j' (by rw [h, h']))
  obtain ⟨manifest, dh, pre, h1, _, _, _, _, _, h7, prog, h8⟩ :=
    sign_then_verify_core E alg src buf buf' n base hd hn hH hj hs laws hbuf hbuf' hsz
      (by
        intro ex hex
        have hfe := splice_finalExcl s src (jm (placeholderDH alg src n) ph) (hw _) ho
        have hex2 : finalExcl (s.embed src (jm (placeholderDH alg src n) ph)) = some ex := hex
        rw [hfe, hreg] at hex2
        injection hex2 with hex2
        rw [← hex2, hph]
        exact split_fits alg.length n at_ at_ probe _ (by omega))
  refine ⟨_, manifest, dh, h1, ?_, ?_⟩
  · unfold verifyBinding
    rw [h8, h7]
    exact beq_self_eq_true (H pre)
  · have := splice_embed_embed s src (jm (placeholderDH alg src n) ph) manifest ho
    rw [hreg] at this
    exact this

/-! ### sidecar / remote manifests -/

/-- **noembed_sign_then_verify_valid.** `RemoteManifest::SideCar` / `Remote(url)`: for every
intermediate asset (source without a store, plus the XMP reference for `Remote`) whose handler
reports no `OtherExclusion` location, whatever `Cai` placeholder it reports: signing succeeds,
the output is the intermediate asset unchanged, the store has the placeholder's length, the
final DataHash has **no exclusions** and stores the digest of the whole asset, and the verifier
recomputes it. -/
theorem noembed_sign_then_verify_valid (E : Env) (alg : String) (inter : Asset)
    (buf buf' n base : Nat)
    (hd : digestLen alg = some n) (hn : 0 < n)
    (hH : ∀ x, (E.H x).length = n)
    (hj : ∀ d s, (E.jumbf d s).length = base + d.size + s.length)
    (hs : ∀ d, (E.sign d).length = E.sigPlaceholder.length)
    (hno : ∀ l ∈ inter.locs, l.kind ≠ .otherExcl)
    (h1 : 1 ≤ inter.bytes.length) (hsz : inter.bytes.length ≤ C13.u32Max)
    (hbuf : 0 < buf) (hbuf' : 0 < buf') :
    ∃ manifest dh, saveNoEmbed E alg inter buf = .ok inter manifest dh ∧
      manifest.length = (E.jumbf (placeholderDH alg inter n) E.sigPlaceholder).length ∧
      dh.excl = [] ∧ dh.hash = E.H inter.bytes ∧
      verifyBinding E.H alg inter.bytes dh buf' = true := by
  let dh0 := placeholderDH alg inter n
  have halg := supported_of_digestLen hd
  obtain ⟨prog, hhash⟩ := hash_whole alg inter.bytes buf halg h1 hsz hbuf
  obtain ⟨prog', hhash'⟩ := hash_whole alg inter.bytes buf' halg h1 hsz hbuf'
  let h1' : DHash := rawDH alg [] (E.H inter.bytes)
  have hHne : (E.H inter.bytes).isEmpty = false := by
    have := hH inter.bytes
    cases hx : E.H inter.bytes with
    | nil => rw [hx] at this; simp at this; omega
    | cons a t => rfl
  have hgen2 : genDataHash E.H alg inter.bytes (zeroLocs inter.locs) true buf = .ok h1' := by
    unfold genDataHash
    rw [exclusionsOf_zero _ _ hno]
    simp only [if_true]
    have hr : ({ excl := [], algLen := alg.length, hash := [], pad := 0, pad2 := none } : DHash).ranges = none := rfl
    rw [hr, hhash]
    simp [hHne, h1', rawDH]
  have hle : C14.dhSize h1'.c14 ≤ dh0.size := by
    rw [size_c14]
    show (rawDH alg [] (E.H inter.bytes)).size ≤ (placeholderDH alg inter n).size
    unfold DHash.size DHash.c15 C15.dhSize placeholderDH
    simp only [rawDH, List.isEmpty_nil, if_true, C15.optField, C15.str, hH, List.length_replicate]
    have h4 : C15.hdr 10 = 1 := by decide
    have h5 : C15.hdr 0 = 1 := by decide
    split <;> omega
  obtain ⟨p, hp, hpsz, hprest⟩ := C14.datahash_pad_exact h1'.c14 dh0.size rfl hle
  let dh1 : DHash := { h1' with pad := p.pad, pad2 := p.pad2 }
  have hupd : updateDataHash h1' dh0.size = .ok dh1 := by
    unfold updateDataHash
    rw [hp]
  have hdh1 : dh1.size = dh0.size := by
    rw [← size_c14]
    have : dh1.c14 = p := by
      show (⟨dh1.rest, p.pad, p.pad2⟩ : C14.DH) = p
      have : dh1.rest = p.rest := by rw [hprest]; rfl
      rw [this]
    rw [this, hpsz]
  have hstart : startSaveNoEmbed E alg inter buf =
      .ok ⟨inter, dh1, (E.jumbf dh0 E.sigPlaceholder).length⟩ := by
    unfold startSaveNoEmbed
    rw [genDataHash_first E.H alg inter buf n hd]
    show (match genDataHash E.H alg inter.bytes (zeroLocs inter.locs) true buf with
      | .error e => .error e
      | .ok h1 => match updateDataHash h1 dh0.size with
        | .error e => .error e
        | .ok dh1 =>
          if (E.jumbf dh1 E.sigPlaceholder).length ≠ (E.jumbf dh0 E.sigPlaceholder).length
          then .error .jumbfCreation
          else .ok ⟨inter, dh1, (E.jumbf dh0 E.sigPlaceholder).length⟩ : Except Err Started) = _
    rw [hgen2]
    have : (E.jumbf dh1 E.sigPlaceholder).length = (E.jumbf dh0 E.sigPlaceholder).length := by
      rw [hj, hj, hdh1]
    simp only [hupd, this, ne_eq, not_true_eq_false, if_false]
  refine ⟨E.jumbf dh1 (E.sign dh1), dh1, ?_, ?_, rfl, rfl, ?_⟩
  · unfold saveNoEmbed
    rw [hstart]
  · rw [hj, hj, hs, hdh1]
  · unfold verifyBinding
    have hr : dh1.ranges = none := rfl
    rw [hr, hhash']
    exact beq_self_eq_true _

/-! ### reading back: binding verdict (C01) and validation state (C04/C06) -/

theorem foldl_addStatus_success (codes : List C04.Code) (c : C04.Codes) :
    (codes.map fun k => (⟨k, .success, none⟩ : C04.Status)).foldl C04.addStatus
        { active := some c, deltas := none } =
      { active := some { c with success := c.success ++ codes }, deltas := none } := by
  induction codes generalizing c with
  | nil => simp
  | cons k t ih =>
    simp only [List.map_cons, List.foldl_cons]
    have : C04.addStatus { active := some c, deltas := none } ⟨k, .success, none⟩ =
        { active := some { c with success := c.success ++ [k] }, deltas := none } := rfl
    rw [this, ih]
    simp

/-- **readBack_state.** A store whose claim signature validates, whose assertions all match
their hashed URIs and whose data-hash binding matches (without additional exclusions) reads back
as `Trusted` when the signer chains to a configured anchor and `Valid` otherwise — the state is
C04's `state` applied to the codes C06's signature step and the binding step log. -/
theorem readBack_state (trust : C06.Trust) (k : Nat) :
    (readBack trust true (List.replicate k true) (.matched false)).map C04.state =
      some (match trust with | .trusted => .trusted | .untrusted => .valid) := by
  unfold readBack bindingStatuses
  simp only [Bool.false_eq_true, if_false, List.nil_append, List.map_replicate, if_true, Option.map_some]
  have : (List.replicate k (⟨cUriMatch, .success, none⟩ : C04.Status) ++ [⟨cDataMatch, .success, none⟩]) =
      (List.replicate k cUriMatch ++ [cDataMatch]).map fun c => (⟨c, .success, none⟩ : C04.Status) := by
    simp
  rw [this]
  unfold C06.resultsOf
  rw [foldl_addStatus_success]
  cases trust
  · simp only [C04.state, C04.isTrusted, C04.isValid, C04.deltasOf, C04.failuresTolerated,
      C06.signatureCodes, C06.trustCodes, C06.profileFailure, List.any_append, List.any_replicate]
    have e1 : (cUriMatch == C04.cTrusted) = false := by decide
    have e2 : (cUriMatch == C04.cSigValidated) = false := by decide
    have e3 : (cUriMatch == C04.cInsideValidity) = false := by decide
    simp only [e1, e2, e3, ite_self]
    decide
  · simp only [C04.state, C04.isTrusted, C04.isValid, C04.deltasOf, C04.failuresTolerated,
      C06.signatureCodes, C06.trustCodes, C06.profileFailure, List.any_append, List.any_replicate]
    have e1 : (cUriMatch == C04.cTrusted) = false := by decide
    have e2 : (cUriMatch == C04.cSigValidated) = false := by decide
    have e3 : (cUriMatch == C04.cInsideValidity) = false := by decide
    simp only [e1, e2, e3, ite_self]
    decide

/-- **sign_then_state_valid.** Composition with the verifier models of C01 (binding), C06
(signature codes) and C04 (state): under the hypotheses of `sign_then_verify_valid`, for a
handler reporting a single exclusion, C01's `bindData` on the *signed asset* with the *stored*
exclusions and the stored digest's preimage returns `matched` (no additional exclusions), and a
read-back whose signature validates and whose `k` hashed URIs match is `Trusted` / `Valid`
according to the trust verdict. -/
theorem sign_then_state_valid (E : Env) (alg : String) (src : Asset) (buf buf' n base : Nat)
    (hd : digestLen alg = some n) (hn : 0 < n)
    (hH : ∀ x, (E.H x).length = n)
    (hj : ∀ d s, (E.jumbf d s).length = base + d.size + s.length)
    (hs : ∀ d, (E.sign d).length = E.sigPlaceholder.length)
    (laws : Laws E src (base + (placeholderDH alg src n).size + E.sigPlaceholder.length))
    (hbuf : 0 < buf) (hbuf' : 0 < buf')
    (hsz : (firstOut E alg src n).bytes.length ≤ C13.u32Max)
    (fits : ∀ ex, finalExcl (firstOut E alg src n) = some ex →
      (rawDH alg ex (List.replicate n 0)).size ≤ (placeholderDH alg src n).size)
    (hone : ∀ ex, finalExcl (firstOut E alg src n) = some ex → ex.length ≤ 1)
    (trust : C06.Trust) (k : Nat) :
    ∃ asset manifest dh pre, saveToStream E alg src buf = .ok asset manifest dh ∧
      dh.hash = E.H pre ∧
      C01.bindData ⟨false, none, dh.ranges, pre⟩ (some alg) false none asset.bytes buf' = .matched false ∧
      (readBack trust true (List.replicate k true)
          (C01.bindData ⟨false, none, dh.ranges, pre⟩ (some alg) false none asset.bytes buf')).map C04.state =
        some (match trust with | .trusted => .trusted | .untrusted => .valid) := by
  obtain ⟨manifest, dh, pre, h1, _, _, _, h5, h6, h7, prog, h8⟩ :=
    sign_then_verify_core E alg src buf buf' n base hd hn hH hj hs laws hbuf hbuf' hsz fits
  have hb : C01.bindData ⟨false, none, dh.ranges, pre⟩ (some alg) false none
      (E.embed (firstOut E alg src n) manifest).bytes buf' = .matched false := by
    have hr : dh.ranges = some (dh.excl.map toHR) := ranges_of_ne dh h6
    have hlen := hone dh.excl h5
    unfold C01.bindData C01.verifyData C01.compareHash
    simp only [Bool.false_eq_true, if_false]
    rw [h8]
    simp only [if_true, hr, List.length_map]
    have : ¬ dh.excl.length > 1 := by omega
    simp [this]
  exact ⟨_, manifest, dh, pre, h1, h7, hb, by rw [hb]; exact readBack_state trust k⟩

/-! ### non-vacuity: the headline theorems instantiated on a concrete flow -/

/-- a concrete container: 3-byte prefix, framing = 2-byte header + payload + 1-byte trailer,
2-byte suffix -/
def exSplit : Split :=
  { pre := fun _ => [1, 2, 3], suf := fun _ => [9, 9], wrap := fun j => [0xff, 0xeb] ++ j ++ [0] }

/-- a 32-byte "digest" that depends on its input (byte sum) -/
def exH (x : List UInt8) : List UInt8 := x.foldl (· + ·) 0 :: List.replicate 31 7

def exJumbf (d : DHash) (σ : List UInt8) : List UInt8 := List.replicate (7 + d.size + σ.length) 5

/-- **`split_sign_then_verify_valid` is not vacuous**: every hypothesis is discharged for a
concrete container, serialisation, digest and signer, and the conclusion is obtained *from the
theorem*. -/
example : ∃ asset manifest dh,
    saveToStream ⟨exSplit.embed, exJumbf, exH, fun _ => [1, 1], [0, 0]⟩ "sha256"
      (Split.source [1, 2, 3, 9, 9] 3 4) 64 = .ok asset manifest dh ∧
    verifyBinding exH "sha256" asset.bytes dh 3 = true :=
  split_sign_then_verify_valid exSplit [1, 2, 3, 9, 9] 3 4 "sha256" 64 3 32 7 exJumbf exH
    (fun _ => [1, 1]) [0, 0] (by decide) (by decide) (by decide)
    (by intro x; simp [exH])
    (by intro d σ; simp [exJumbf])
    (by intro d; rfl)
    (by intro j; simp [exSplit])
    (by intro j j' h; simp [exSplit, h])
    (by intro m; show C15.hdr 3 ≤ C15.hdr 3 + 2; omega)
    (by decide) (by decide)
    (by decide +kernel)

/-- … and the value the theorem speaks about is the one the model computes (kernel evaluation
of the same flow) -/
example :
    (match saveToStream ⟨exSplit.embed, exJumbf, exH, fun _ => [1, 1], [0, 0]⟩ "sha256"
        (Split.source [1, 2, 3, 9, 9] 3 4) 64 with
      | .ok a m dh => verifyBinding exH "sha256" a.bytes dh 3 && decide (a.bytes.length = m.length + 8)
      | .err _ => false) = true := by decide +kernel

/-- a concrete splice handler (same framing) -/
def exSplice : Splice := { wrap := fun j => [0xff, 0xeb] ++ j ++ [0], ins := 2 }

/-- **`splice_sign_then_verify_valid` instantiated**: the signed asset is the 9-byte source with
its 4-byte region replaced by the framed final store -/
example : ∃ asset manifest dh,
    saveToStream ⟨exSplice.embed, exJumbf, exH, fun _ => [1, 1], [0, 0]⟩ "sha256"
      (Split.source [1, 2, 3, 4, 5, 6, 7, 8, 9] 3 4) 64 = .ok asset manifest dh ∧
    verifyBinding exH "sha256" asset.bytes dh 3 = true ∧
    asset.bytes = [1, 2, 3] ++ exSplice.wrap manifest ++ [8, 9] :=
  splice_sign_then_verify_valid exSplice [1, 2, 3, 4, 5, 6, 7, 8, 9] 3 4 "sha256" 64 3 32 7 exJumbf exH
    (fun _ => [1, 1]) [0, 0] (by decide) (by decide) (by decide) (by decide)
    (by intro x; simp [exH])
    (by intro d σ; simp [exJumbf])
    (by intro d; rfl)
    (by intro j; simp [exSplice])
    (by intro j j' h; simp [exSplice, h])
    (by decide) (by decide)
    (by decide +kernel)

/-- **`sign_then_verify_valid` / `sign_then_state_valid` instantiated** (general theorem, handler
laws discharged by `split_laws`): C01's verdict on the signed asset is `matched`, the read-back
state with a trusted signer and three matching hashed URIs is `Trusted` -/
example : ∃ asset manifest dh pre,
    saveToStream ⟨exSplit.embed, exJumbf, exH, fun _ => [1, 1], [0, 0]⟩ "sha256"
      (Split.source [1, 2, 3, 9, 9] 3 4) 64 = .ok asset manifest dh ∧
    dh.hash = exH pre ∧
    C01.bindData ⟨false, none, dh.ranges, pre⟩ (some "sha256") false none asset.bytes 3 = .matched false ∧
    (readBack .trusted true (List.replicate 3 true)
      (C01.bindData ⟨false, none, dh.ranges, pre⟩ (some "sha256") false none asset.bytes 3)).map C04.state
      = some .trusted :=
  sign_then_state_valid ⟨exSplit.embed, exJumbf, exH, fun _ => [1, 1], [0, 0]⟩ "sha256"
    (Split.source [1, 2, 3, 9, 9] 3 4) 64 3 32 7 (by decide) (by decide)
    (by intro x; simp [exH])
    (by intro d σ; simp [exJumbf])
    (by intro d; rfl)
    (split_laws exSplit _ _ (by intro j _; simp [exSplit]) (by intro j j' h h'; simp [exSplit, h, h']))
    (by decide) (by decide) (by decide +kernel)
    (fun ex hex => (split_fits_hyp exSplit [1, 2, 3, 9, 9] 3 4 "sha256" 32 exJumbf exH (fun _ => [1, 1]) [0, 0]
      (by decide) (by intro j; simp [exSplit]) (by intro m; show C15.hdr 3 ≤ C15.hdr 3 + 2; omega) ex hex).1)
    (fun ex hex => (split_fits_hyp exSplit [1, 2, 3, 9, 9] 3 4 "sha256" 32 exJumbf exH (fun _ => [1, 1]) [0, 0]
      (by decide) (by intro j; simp [exSplit]) (by intro m; show C15.hdr 3 ≤ C15.hdr 3 + 2; omega) ex hex).2)
    .trusted 3

/-- **`noembed_sign_then_verify_valid` instantiated**: a sidecar signing of a 5-byte asset whose
handler reports a placeholder region -/
example : ∃ manifest dh,
    saveNoEmbed ⟨exSplit.embed, exJumbf, exH, fun _ => [1, 1], [0, 0]⟩ "sha256"
      ⟨[1, 2, 3, 4, 5], [⟨2, 3, .cai⟩]⟩ 64 = .ok ⟨[1, 2, 3, 4, 5], [⟨2, 3, .cai⟩]⟩ manifest dh ∧
    manifest.length = (exJumbf (placeholderDH "sha256" ⟨[1, 2, 3, 4, 5], [⟨2, 3, .cai⟩]⟩ 32) [0, 0]).length ∧
    dh.excl = [] ∧ dh.hash = exH [1, 2, 3, 4, 5] ∧
    verifyBinding exH "sha256" [1, 2, 3, 4, 5] dh 2 = true :=
  noembed_sign_then_verify_valid ⟨exSplit.embed, exJumbf, exH, fun _ => [1, 1], [0, 0]⟩ "sha256"
    ⟨[1, 2, 3, 4, 5], [⟨2, 3, .cai⟩]⟩ 64 2 32 7 (by decide) (by decide)
    (by intro x; simp [exH])
    (by intro d σ; simp [exJumbf])
    (by intro d; rfl)
    (by decide) (by decide) (by decide) (by decide) (by decide)

/-- `no_source_region_fails` / `sign_ok_iff_fits` are not vacuous either: the same flow with a
source for which the handler reports no region fails exactly as stated -/
example :
    (match saveToStream ⟨exSplit.embed, exJumbf, exH, fun _ => [1, 1], [0, 0]⟩ "sha256"
        ⟨[1, 2, 3, 9, 9], []⟩ 64 with
      | .err .jumbfCreation => true
      | _ => false) = true := by decide +kernel

/-! ### report -/

theorem foldl_add_asn (l : List Asn) (acc : List CAsn) :
    (l.foldl addAssertion acc).map (·.asn) = acc.map (·.asn) ++ l := by
  induction l generalizing acc with
  | nil => simp
  | cons a t ih =>
    simp only [List.foldl_cons]
    rw [ih]
    simp [addAssertion]

theorem store_asns (d : Definition) : (toClaim d).store.map (·.asn) = allAsns d := by
  rw [toClaim_store, foldl_add_asn]
  rfl

theorem classify_thumb (v : Nat) : classify (thumbLabel v) = .thumbnail := by
  unfold thumbLabel; split <;> decide

theorem classify_ingredient (v : Nat) : classify (ingredientLabel v) = .ingredient := by
  unfold ingredientLabel; split <;> decide

theorem filter_const_part (l : List Asn) (Q P : Part) (h : ∀ a ∈ l, classify a.label = Q) :
    l.filter (fun a => classify a.label == P) = if Q = P then l else [] := by
  by_cases hq : Q = P
  · rw [if_pos hq]
    apply List.filter_eq_self.2
    intro a ha
    rw [h a ha, hq]; simp
  · rw [if_neg hq]
    apply List.filter_eq_nil_iff.2
    intro a ha
    rw [h a ha]; simpa using hq

/-- how `Manifest::from_store` partitions what the claim stores -/
theorem filter_allAsns (d : Definition)
    (hl : ∀ a ∈ d.assertions, classify (normLabel a.label) = .assertion) (P : Part) :
    (allAsns d).filter (fun a => classify a.label == P) =
      (if Part.thumbnail = P then (if d.thumbnail then [(⟨thumbLabel d.version, "", false⟩ : Asn)] else []) else []) ++
      (if Part.ingredient = P then (List.replicate d.ingredients (ingredientLabel d.version)).map
        (fun l => (⟨l, "", false⟩ : Asn)) else []) ++
      (if Part.assertion = P then d.assertions.map (fun a => { a with label := normLabel a.label }) else []) ++
      (if Part.hidden = P then [(⟨"c2pa.hash.data", "", false⟩ : Asn)] else []) := by
  unfold allAsns preLabels
  simp only [List.map_append, List.filter_append]
  rw [filter_const_part _ .thumbnail P, filter_const_part _ .ingredient P,
    filter_const_part _ .assertion P, filter_const_part _ .hidden P]
  · cases hd : d.thumbnail <;> simp
  · intro a ha
    simp only [List.mem_singleton] at ha
    subst ha; decide
  · intro a ha
    obtain ⟨b, hb, rfl⟩ := List.mem_map.1 ha
    exact hl b hb
  · intro a ha
    obtain ⟨l, hl', rfl⟩ := List.mem_map.1 ha
    rw [(List.mem_replicate.1 hl').2]
    exact classify_ingredient _
  · intro a ha
    obtain ⟨l, hl', rfl⟩ := List.mem_map.1 ha
    cases hd : d.thumbnail with
    | false => simp [hd] at hl'
    | true =>
      simp only [hd, if_true, List.mem_singleton] at hl'
      rw [hl']; exact classify_thumb _

theorem map_asn_filter (S : List CAsn) (P : Part) :
    (S.filter (fun x => classify x.asn.label == P)).map (·.asn) =
      (S.map (·.asn)).filter (fun a => classify a.label == P) := by
  rw [List.filter_map]
  rfl

/-- **report_reflects_definition.** For every definition whose (re-labelled) assertion labels
are reported as assertions (not `c2pa.ingredient…`, `c2pa.thumbnail.claim…` or hard-binding
labels): the report carries the definition's title; its format exactly when the claim is
version 1 (a version ≥ 2 claim has no `dc:format` field); exactly the definition's assertions —
same order, same payloads and kinds, labels unchanged except the documented `c2pa.actions…` →
`c2pa.actions.v2`; exactly as many ingredients as supplied; a thumbnail exactly when one was
supplied; and the hard binding added by the signing flow is not reported. (Instance numbers:
`report_instances`.) -/
theorem report_reflects_definition (d : Definition)
    (hl : ∀ a ∈ d.assertions, classify (normLabel a.label) = .assertion) :
    (report (wire (toClaim d))).title = d.title ∧
    ((report (wire (toClaim d))).format = if d.version ≥ 2 then none else some d.format) ∧
    (report (wire (toClaim d))).assertions.map (·.asn) =
      d.assertions.map (fun a => { a with label := normLabel a.label }) ∧
    (report (wire (toClaim d))).ingredients.map (·.asn) =
      List.replicate d.ingredients ⟨ingredientLabel d.version, "", false⟩ ∧
    (report (wire (toClaim d))).thumbnail.map (·.asn) =
      (if d.thumbnail then some ⟨thumbLabel d.version, "", false⟩ else none) := by
  refine ⟨rfl, rfl, ?_, ?_, ?_⟩
  · show ((toClaim d).store.filter (fun x => classify x.asn.label == .assertion)).map (·.asn) = _
    rw [map_asn_filter, store_asns, filter_allAsns d hl]
    simp
  · show ((toClaim d).store.filter (fun x => classify x.asn.label == .ingredient)).map (·.asn) = _
    rw [map_asn_filter, store_asns, filter_allAsns d hl]
    simp
  · show (((toClaim d).store.filter (fun x => classify x.asn.label == .thumbnail)).getLast?).map (·.asn) = _
    rw [← List.getLast?_map, map_asn_filter, store_asns, filter_allAsns d hl]
    cases d.thumbnail <;> simp

theorem zip_asn_inst (S : List CAsn) : S = List.zipWith CAsn.mk (S.map (·.asn)) (S.map (·.inst)) := by
  induction S with
  | nil => rfl
  | cons x t ih => simp only [List.map_cons, List.zipWith_cons_cons]; rw [← ih]

/-- **report_instances.** The reported assertions (and ingredients) *with their instance
numbers*: the claim store is the stored assertions paired with the number of earlier stored
assertions of the same label, and the report is its filter — for every definition in which no
stored label is a proper substring of another stored label (`next_instance` filters by
substring; see the example below for what happens otherwise). -/
theorem report_instances (d : Definition) (hnp : NoProperInfix (allLabels d)) :
    (report (wire (toClaim d))).assertions =
      (List.zipWith CAsn.mk (allAsns d) (occBefore (allLabels d))).filter
        (fun x => classify x.asn.label == .assertion) ∧
    (report (wire (toClaim d))).ingredients =
      (List.zipWith CAsn.mk (allAsns d) (occBefore (allLabels d))).filter
        (fun x => classify x.asn.label == .ingredient) := by
  obtain ⟨h1, h2⟩ := claim_store_spec d hnp
  have hS : (toClaim d).store = List.zipWith CAsn.mk (allAsns d) (occBefore (allLabels d)) := by
    rw [← h1, ← h2]; exact zip_asn_inst _
  exact ⟨by show (toClaim d).store.filter _ = _; rw [hS], by show (toClaim d).store.filter _ = _; rw [hS]⟩

/-- pairwise distinct stored labels, none a substring of another: every reported instance is 0 -/
theorem report_instances_zero (d : Definition) (hnp : NoProperInfix (allLabels d))
    (hnd : (allLabels d).Nodup) : ∀ x ∈ (report (wire (toClaim d))).assertions, x.inst = 0 := by
  intro x hx
  have : x ∈ (toClaim d).store := (List.mem_filter.1 hx).1
  exact claim_instances_zero d hnp hnd x this

def exDef : Definition :=
  { title := some "t", format := "image/jpeg", version := 2
    assertions := [⟨"c2pa.actions", "x", false⟩, ⟨"org.verif.custom", "y", true⟩, ⟨"org.verif.custom", "z", true⟩]
    thumbnail := true, ingredients := 2 }

example : ∀ a ∈ exDef.assertions, classify (normLabel a.label) = .assertion := by decide
example : NoProperInfix (allLabels exDef) := by unfold NoProperInfix; decide
/-- duplicate labels are numbered 0, 1 (and the second ingredient is `__1`) -/
example : (report (wire (toClaim exDef))).assertions.map (fun x => (x.asn.label, x.inst)) =
    [("c2pa.actions.v2", 0), ("org.verif.custom", 0), ("org.verif.custom", 1)] ∧
    (report (wire (toClaim exDef))).ingredients.map (·.inst) = [0, 1] := by decide
/-- what the substring test does outside `NoProperInfix`: the *first* `org.verif` assertion is
numbered 1 because the earlier label `org.verif.custom` contains it (the harness compares the
implementation with exactly this numbering) -/
example : (report (wire (toClaim { exDef with assertions :=
      [⟨"org.verif.custom", "y", true⟩, ⟨"org.verif", "z", true⟩] }))).assertions.map
        (fun x => (x.asn.label, x.inst)) = [("org.verif.custom", 0), ("org.verif", 1)] := by decide

end C2pa.C03
