import C2paModel.Lemmas.C03Base
import C2paModel.Lemmas.C03Split
/-
C03 — property theorems. The statement (properties.jsonl):

  For any supported source asset, any well-formed manifest definition, any supported signing
  algorithm and hash algorithm, signing succeeds and reading the output back yields a Valid
  manifest (…). The reported active manifest carries exactly the title, format, claim
  generator, assertions (labels and data), ingredients and redactions that were supplied.

What is proved here, about `Model/C03.lean`:

* `sign_then_verify_valid` — the two-pass flow succeeds and the hard binding it stores verifies
  on the final asset, for every handler obeying the two laws of `Laws` (the handler reports a
  non-empty in-range exclusion list for what it wrote; replacing the payload by one of equal
  length changes neither the length nor any byte outside those exclusions), every JUMBF
  serialisation whose length is `base + |DataHash assertion| + |signature box|`, every signer
  that fills its reserve (C14), every digest function, every chunk size of signer and verifier.
  The chain is the one of DESIGN §6: equal length (C14 `datahash_pad_exact`) ⇒ same Cai region
  ⇒ the verifier selects the same bytes as the signer hashed (C13 `excl_digest`) ⇒ the stored
  digest matches.
* `split_laws` / `split_sign_then_verify_valid` — the prefix ++ framed manifest ++ suffix
  container obeys the laws for every split, framing, definition size (`base`) and reserve, as
  soon as the handler reports a non-empty region for the source (`0 < probe`);
  `split_fits` is the CBOR-size argument (10 bytes of padding absorb the growth of the region
  length).
* `no_source_region_fails` — the flow really needs that: a handler reporting no region for the
  source (first-pass DataHash without exclusions) makes the second pass outgrow the placeholder
  (`JumbfCreationError`), for every handler, definition size and reserve.
* `report_reflects_definition` — title, format (version-1 claims; a version ≥ 2 claim has no
  `dc:format`) and the assertion list (labels up to the documented `c2pa.actions` →
  `c2pa.actions.v2`, payloads, kinds, order) are copied, the hard binding is not reported.
-/
namespace C2pa.C03
open C2pa

/-! ### the main theorem -/

/-- **sign_then_verify_valid.** For every handler obeying `Laws`, every JUMBF serialisation with
the length law, every signer filling its reserve, every digest function of the right length and
every pair of chunk sizes: if the final DataHash fits the placeholder (`fits`: its unpadded CBOR
is not longer than the placeholder's — see `split_fits` for why 10 bytes of padding suffice), the
flow succeeds, the returned manifest store has exactly the placeholder's length, the final
asset has the first-pass asset's length, and the verifier — hashing the *final* asset with the
exclusions stored in the manifest — recomputes exactly the stored digest. -/
theorem sign_then_verify_valid (E : Env) (alg : String) (src : Asset) (buf buf' n base : Nat)
    (hd : digestLen alg = some n) (hn : 0 < n)
    (hH : ∀ x, (E.H x).length = n)
    (hj : ∀ d s, (E.jumbf d s).length = base + d.size + s.length)
    (hs : ∀ d, (E.sign d).length = E.sigPlaceholder.length)
    (laws : Laws E src (base + (placeholderDH alg src n).size + E.sigPlaceholder.length))
    (hok : ∀ a : Asset, ∀ ex, finalExcl a = some ex →
      a.bytes.length = (E.embed src (E.jumbf (placeholderDH alg src n) E.sigPlaceholder)).bytes.length →
      HashOK alg a.bytes.length (ex.map toHR) buf ∧ HashOK alg a.bytes.length (ex.map toHR) buf')
    (fits : ∀ ex, finalExcl (E.embed src (E.jumbf (placeholderDH alg src n) E.sigPlaceholder)) = some ex →
      ({ excl := ex, algLen := alg.length, hash := List.replicate n 0, pad := 0, pad2 := none } : DHash).size
        ≤ (placeholderDH alg src n).size) :
    ∃ asset manifest dh, saveToStream E alg src buf = .ok asset manifest dh ∧
      manifest.length = (E.jumbf (placeholderDH alg src n) E.sigPlaceholder).length ∧
      asset.bytes.length =
        (E.embed src (E.jumbf (placeholderDH alg src n) E.sigPlaceholder)).bytes.length ∧
      dh.size = (placeholderDH alg src n).size ∧
      verifyBinding E.H alg asset.bytes dh buf' = true := by
  -- names
  let dh0 := placeholderDH alg src n
  let data0 := E.jumbf dh0 E.sigPlaceholder
  let out0 := E.embed src data0
  have hlen0 : data0.length = base + dh0.size + E.sigPlaceholder.length := hj _ _
  obtain ⟨ex, hex, hne, hwithin⟩ := laws.reported data0 hlen0
  have hexm : ex.map toHR ≠ [] := map_toHR_ne hne
  obtain ⟨ok1, _⟩ := hok out0 ex hex rfl
  obtain ⟨prog, hhash⟩ := hash_excl alg out0.bytes (ex.map toHR) buf hexm ok1
  -- second-pass DataHash
  let h1 : DHash := { excl := ex, algLen := alg.length, hash := E.H (C13.exclSpec out0.bytes (ex.map toHR)),
                      pad := 0, pad2 := none }
  have hHne : (E.H (C13.exclSpec out0.bytes (ex.map toHR))).isEmpty = false := by
    have := hH (C13.exclSpec out0.bytes (ex.map toHR))
    cases hx : E.H (C13.exclSpec out0.bytes (ex.map toHR)) with
    | nil => rw [hx] at this; simp at this; omega
    | cons a t => rfl
  have hgen2 : genDataHash E.H alg out0.bytes out0.locs true buf = .ok h1 := by
    unfold genDataHash
    have hex' : exclusionsOf out0.bytes.length out0.locs true = some ex := hex
    simp only [hex', if_true]
    have hr : ({ excl := ex, algLen := alg.length, hash := [], pad := 0, pad2 := none } : DHash).ranges
        = some (ex.map toHR) := ranges_of_ne _ hne
    rw [hr, hhash]
    simp [hHne, h1]
  -- its size equals the all-zero-digest one (same digest length)
  have hsz1 : h1.size =
      ({ excl := ex, algLen := alg.length, hash := List.replicate n 0, pad := 0, pad2 := none } : DHash).size := by
    unfold DHash.size DHash.c15
    simp [h1, hH]
  have hle : C14.dhSize h1.c14 ≤ dh0.size := by
    rw [size_c14, hsz1]; exact fits ex hex
  obtain ⟨p, hp, hpsz, hprest⟩ := C14.datahash_pad_exact h1.c14 dh0.size rfl hle
  let dh1 : DHash := { h1 with pad := p.pad, pad2 := p.pad2 }
  have hupd : updateDataHash h1 dh0.size = .ok dh1 := by
    unfold updateDataHash
    rw [hp]
  have hdh1 : dh1.size = dh0.size := by
    rw [← size_c14]
    have : dh1.c14 = p := by
      show (⟨dh1.rest, p.pad, p.pad2⟩ : C14.DH) = p
      have : dh1.rest = p.rest := by rw [hprest]; rfl
      rw [this]
    rw [this, hpsz]
  have hdata1 : (E.jumbf dh1 E.sigPlaceholder).length = data0.length := by
    rw [hj, hlen0, hdh1]
  have hstart : startSave E alg src buf = .ok ⟨out0, dh1, data0.length⟩ := by
    unfold startSave
    rw [genDataHash_first E.H alg src buf n hd]
    show (match genDataHash E.H alg out0.bytes out0.locs true buf with
      | .error e => .error e
      | .ok h1 => match updateDataHash h1 dh0.size with
        | .error e => .error e
        | .ok dh1 =>
          if (E.jumbf dh1 E.sigPlaceholder).length ≠ data0.length then .error .jumbfCreation
          else .ok ⟨out0, dh1, data0.length⟩ : Except Err Started) = _
    rw [hgen2]
    simp only [hupd, hdata1, ne_eq, not_true_eq_false, if_false]
  let final := E.jumbf dh1 (E.sign dh1)
  have hfinal : final.length = data0.length := by
    show (E.jumbf dh1 (E.sign dh1)).length = _
    rw [hj, hs, hlen0, hdh1]
  refine ⟨E.embed out0 final, final, dh1, ?_, hfinal, ?_, hdh1, ?_⟩
  · unfold saveToStream
    rw [hstart]
  · exact (laws.stable data0 final ex hlen0 (by rw [hfinal, hlen0]) hex).1
  · obtain ⟨hl, hagree⟩ := laws.stable data0 final ex hlen0 (by rw [hfinal, hlen0]) hex
    have hfe : finalExcl (E.embed out0 final) = finalExcl (E.embed out0 final) := rfl
    -- the verifier hashes the final asset with the stored exclusions
    have ok2 : HashOK alg (E.embed out0 final).bytes.length (ex.map toHR) buf' := by
      rw [hl]; exact (hok out0 ex hex rfl).2
    obtain ⟨prog2, hhash2⟩ := hash_excl alg (E.embed out0 final).bytes (ex.map toHR) buf' hexm ok2
    unfold verifyBinding
    have hr : dh1.ranges = some (ex.map toHR) := ranges_of_ne dh1 hne
    rw [hr, hhash2]
    have : C13.exclSpec (E.embed out0 final).bytes (ex.map toHR) = C13.exclSpec out0.bytes (ex.map toHR) :=
      exclSpec_congr _ _ _ hl hagree
    simp [this, dh1, h1]

/-- **sign_then_verify_valid for every container split**: any prefix/suffix (which may depend on
the payload length), any framing whose length depends on the payload length only, any source
bytes with a non-empty reported region whose start has (up to 2 bytes) the CBOR head size of the
start of the written region (`hat`; equal starts in every real handler), any definition size `base`, any reserve
(`sigPlaceholder`), any digest, any chunk sizes. -/
theorem split_sign_then_verify_valid (s : Split) (bytes : List UInt8) (at_ probe : Nat)
    (alg : String) (buf buf' n base : Nat) (jm : DHash → List UInt8 → List UInt8)
    (H : List UInt8 → List UInt8) (sg : DHash → List UInt8) (ph : List UInt8)
    (hprobe : 0 < probe) (hd : digestLen alg = some n) (hn : 0 < n)
    (hH : ∀ x, (H x).length = n)
    (hj : ∀ d σ, (jm d σ).length = base + d.size + σ.length)
    (hs : ∀ d, (sg d).length = ph.length)
    (hw : ∀ j, 0 < (s.wrap j).length)
    (hwl : ∀ j j', j.length = j'.length → (s.wrap j').length = (s.wrap j).length)
    (hat : ∀ m, C15.hdr (s.pre m).length ≤ C15.hdr at_ + 2)
    (hok : ∀ a : Asset, ∀ ex, finalExcl a = some ex →
      HashOK alg a.bytes.length (ex.map toHR) buf ∧ HashOK alg a.bytes.length (ex.map toHR) buf') :
    ∃ asset manifest dh,
      saveToStream ⟨s.embed, jm, H, sg, ph⟩ alg (Split.source bytes at_ probe) buf = .ok asset manifest dh ∧
      verifyBinding H alg asset.bytes dh buf' = true := by
  let E : Env := ⟨s.embed, jm, H, sg, ph⟩
  let src := Split.source bytes at_ probe
  have hph : placeholderDH alg src n =
      { excl := [⟨at_, probe⟩], algLen := alg.length, hash := List.replicate n 0, pad := 10, pad2 := none } := by
    unfold placeholderDH
    rw [split_source_excl bytes at_ probe hprobe]
    rfl
  have laws : Laws E src (base + (placeholderDH alg src n).size + E.sigPlaceholder.length) :=
    split_laws (jm := jm) (H := H) (sg := sg) (ph := ph) s src _ (fun j _ => hw j)
      (fun j j' h h' => hwl j j' (by rw [h, h']))
  obtain ⟨asset, manifest, dh, h1, _, _, _, h5⟩ :=
    sign_then_verify_valid E alg src buf buf' n base hd hn hH hj hs laws
      (fun a ex h _ => hok a ex h)
      (by
        intro ex hex
        have hfe := split_finalExcl s src (jm (placeholderDH alg src n) ph) (hw _)
        have hex2 : finalExcl (s.embed src (jm (placeholderDH alg src n) ph)) = some ex := hex
        rw [hfe] at hex2
        injection hex2 with hex2
        rw [← hex2, hph]
        have := split_fits alg.length n at_ (s.pre (jm (placeholderDH alg src n) ph).length).length probe
          (s.wrap (jm (placeholderDH alg src n) ph)).length (hat _)
        rw [← hph] at this
        rw [← hph]
        exact this)
  exact ⟨asset, manifest, dh, h1, h5⟩

/-! ### the flow needs a region for the source -/

theorem padToSize_too_big (d : C14.DH) (want : Nat) (h : C14.dhSize d > want) :
    C14.padToSize d want = .err := by
  unfold C14.padToSize C14.padToSizeF
  simp [h]

/-- **no_source_region_fails.** If the handler reports no exclusion for the source (so the
placeholder DataHash has no `exclusions` member at all) while the asset it writes has one, the
final DataHash is at least 17 bytes longer than the placeholder with its 10 bytes of padding and
the flow ends in `JumbfCreationError` — whatever the handler, definition size and reserve. -/
theorem no_source_region_fails (E : Env) (alg : String) (src : Asset) (buf n base : Nat)
    (hd : digestLen alg = some n) (hn : 0 < n)
    (hH : ∀ x, (E.H x).length = n)
    (hj : ∀ d s, (E.jumbf d s).length = base + d.size + s.length)
    (hsrc : exclusionsOf src.bytes.length src.locs false = some [])
    (laws : Laws E src (base + (placeholderDH alg src n).size + E.sigPlaceholder.length))
    (hok : ∀ ex, finalExcl (E.embed src (E.jumbf (placeholderDH alg src n) E.sigPlaceholder)) = some ex →
      HashOK alg (E.embed src (E.jumbf (placeholderDH alg src n) E.sigPlaceholder)).bytes.length
        (ex.map toHR) buf) :
    saveToStream E alg src buf = .err .jumbfCreation := by
  let dh0 := placeholderDH alg src n
  let data0 := E.jumbf dh0 E.sigPlaceholder
  let out0 := E.embed src data0
  have hlen0 : data0.length = base + dh0.size + E.sigPlaceholder.length := hj _ _
  obtain ⟨ex, hex, hne, _⟩ := laws.reported data0 hlen0
  have hexm : ex.map toHR ≠ [] := map_toHR_ne hne
  obtain ⟨prog, hhash⟩ := hash_excl alg out0.bytes (ex.map toHR) buf hexm (hok ex hex)
  let h1 : DHash := { excl := ex, algLen := alg.length, hash := E.H (C13.exclSpec out0.bytes (ex.map toHR)),
                      pad := 0, pad2 := none }
  have hHne : (E.H (C13.exclSpec out0.bytes (ex.map toHR))).isEmpty = false := by
    have := hH (C13.exclSpec out0.bytes (ex.map toHR))
    cases hx : E.H (C13.exclSpec out0.bytes (ex.map toHR)) with
    | nil => rw [hx] at this; simp at this; omega
    | cons a t => rfl
  have hgen2 : genDataHash E.H alg out0.bytes out0.locs true buf = .ok h1 := by
    unfold genDataHash
    have hex' : exclusionsOf out0.bytes.length out0.locs true = some ex := hex
    simp only [hex', if_true]
    have hr : ({ excl := ex, algLen := alg.length, hash := [], pad := 0, pad2 := none } : DHash).ranges
        = some (ex.map toHR) := ranges_of_ne _ hne
    rw [hr, hhash]
    simp [hHne, h1]
  -- sizes: the final one has an `exclusions` member, the placeholder none
  have hbig : C14.dhSize h1.c14 > dh0.size := by
    rw [size_c14]
    show dh0.size < h1.size
    have hdh0 : dh0 = { excl := [], algLen := alg.length, hash := List.replicate n 0, pad := 10, pad2 := none } := by
      show placeholderDH alg src n = _
      unfold placeholderDH
      rw [hsrc]; rfl
    rw [hdh0]
    unfold DHash.size DHash.c15 C15.dhSize
    cases ex with
    | nil => exact absurd rfl hne
    | cons r rs =>
      simp only [h1, List.isEmpty_nil, List.isEmpty_cons, if_true, Bool.false_eq_true, if_false,
        C15.exclSize, C15.optField, C15.str, List.length_replicate, hH, List.map_cons, List.sum_cons,
        C15.rangeSize]
      have h1' := C15.hdr_pos (List.length (r :: rs))
      have h2' := C15.hdr_pos r.start
      have h3' := C15.hdr_pos r.length
      have h4 : C15.hdr 10 = 1 := by decide
      have h5 : C15.hdr 0 = 1 := by decide
      omega
  have hupd : updateDataHash h1 dh0.size = .error .jumbfCreation := by
    unfold updateDataHash
    rw [padToSize_too_big _ _ hbig]
  unfold saveToStream startSave
  rw [genDataHash_first E.H alg src buf n hd]
  show (match (match genDataHash E.H alg out0.bytes out0.locs true buf with
      | .error e => .error e
      | .ok h1 => match updateDataHash h1 dh0.size with
        | .error e => .error e
        | .ok dh1 =>
          if (E.jumbf dh1 E.sigPlaceholder).length ≠ data0.length then .error .jumbfCreation
          else .ok ⟨out0, dh1, data0.length⟩ : Except Err Started) with
    | .error e => Res.err e
    | .ok st => Res.ok (E.embed st.out0 (E.jumbf st.dh (E.sign st.dh))) (E.jumbf st.dh (E.sign st.dh)) st.dh) = _
  rw [hgen2]
  simp only [hupd]

/-! ### non-vacuity -/

/-- a concrete container: 3-byte prefix, framing = 2-byte header + payload + 1-byte trailer,
2-byte suffix -/
def exSplit : Split :=
  { pre := fun _ => [1, 2, 3], suf := fun _ => [9, 9], wrap := fun j => [0xff, 0xeb] ++ j ++ [0] }

example : ∀ j, 0 < (exSplit.wrap j).length := by intro j; simp [exSplit]
example : ∀ j j' : List UInt8, j.length = j'.length → (exSplit.wrap j').length = (exSplit.wrap j).length := by
  intro j j' h; simp [exSplit, h]
example : ∀ m, C15.hdr (exSplit.pre m).length ≤ C15.hdr 3 + 2 := by
  intro m; show C15.hdr 3 ≤ C15.hdr 3 + 2; omega
example : digestLen "sha256" = some 32 := by decide
/-- the flow on the concrete container really runs (and the binding verifies) -/
example :
    (match saveToStream ⟨exSplit.embed, fun d σ => List.replicate (7 + d.size + σ.length) 5,
        fun x => x.take 1 ++ List.replicate 31 7, fun _ => [1, 1], [0, 0]⟩ "sha256"
        (Split.source [1, 2, 3, 9, 9] 3 4) 64 with
      | .ok a _ dh => verifyBinding (fun x => x.take 1 ++ List.replicate 31 7) "sha256" a.bytes dh 3
      | .err _ => false) = true := by decide +kernel

/-! ### report -/

theorem foldl_add_asn (f : Asn → Asn) (l : List Asn) (acc : List CAsn) :
    (l.foldl (fun st a => addAssertion st (f a)) acc).map (·.asn) = acc.map (·.asn) ++ l.map f := by
  induction l generalizing acc with
  | nil => simp
  | cons a t ih =>
    simp only [List.foldl_cons, List.map_cons]
    rw [ih]
    simp [addAssertion]

/-- **report_reflects_definition.** For every definition whose (normalised) labels are not
hard-binding labels: the report carries the definition's title; its format exactly when the
claim is version 1 (a version ≥ 2 claim has no `dc:format` field); and exactly the definition's
assertions — same order, same payloads and kinds, labels unchanged except the documented
`c2pa.actions` → `c2pa.actions.v2` — the hard binding added by the signing flow is not reported. -/
theorem report_reflects_definition (d : Definition)
    (hl : ∀ a ∈ d.assertions, isHardBinding (normLabel a.label) = false) :
    (report (wire (toClaim d))).title = d.title ∧
    ((report (wire (toClaim d))).format = if d.version ≥ 2 then none else some d.format) ∧
    (report (wire (toClaim d))).assertions.map (·.asn) =
      d.assertions.map (fun a => { a with label := normLabel a.label }) := by
  refine ⟨rfl, rfl, ?_⟩
  unfold report wire toClaim
  simp only
  let store := d.assertions.foldl (fun st a => addAssertion st { a with label := normLabel a.label }) []
  have hmap : store.map (·.asn) = d.assertions.map (fun a => { a with label := normLabel a.label }) := by
    have := foldl_add_asn (fun a => { a with label := normLabel a.label }) d.assertions []
    simpa using this
  have hall : ∀ x ∈ store, (!isHardBinding x.asn.label) = true := by
    intro x hx
    have : x.asn ∈ store.map (·.asn) := List.mem_map_of_mem hx
    rw [hmap] at this
    obtain ⟨a, ha, h⟩ := List.mem_map.1 this
    rw [← h]
    simp [hl a ha]
  show ((addAssertion store ⟨"c2pa.hash.data", "", false⟩).filter fun x => !isHardBinding x.asn.label).map (·.asn) = _
  unfold addAssertion
  rw [List.filter_append, List.filter_eq_self.2 hall]
  have : isHardBinding "c2pa.hash.data" = true := by decide
  simp [this, hmap]

example : ∀ a ∈ [(⟨"c2pa.actions", "x", false⟩ : Asn), ⟨"org.verif.custom", "y", true⟩],
    isHardBinding (normLabel a.label) = false := by decide

end C2pa.C03
