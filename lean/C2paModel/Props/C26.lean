import C2paModel.Model.C26
import C2paModel.Lemmas.C26Stack
/-
C26 — property theorems. The statement (properties.jsonl):

  When an allowed-hosts list is configured, no HTTP request (the initial request or any redirect
  hop) reaches the transport unless its URI matches a configured pattern under the documented
  rules (exact host or wildcard subdomain, optional scheme, port must match). Everything else is
  refused with a URI-disallowed error.

`MatchesSpec` is the documented rule written declaratively (no reference to the code's control
flow); `matches_spec` shows the model of `HostPattern::matches` decides exactly that rule,
`new_spec` characterises how `HostPattern::new` reads a pattern string, and the stack theorems
quantify over every transport, every `Url::join` behaviour, every pattern list, every request and
every redirect history.
-/
namespace C2pa.C26

open C2pa.C27

/-! ### the documented rule -/

/-- Host rule: `*.suffix` admits exactly the hosts `pre ++ "." ++ suffix`, anything else is an
exact comparison; both ASCII-case-insensitively. (`pre` is whatever stands in place of the `*`;
the code does not require it to be non-empty, so the degenerate host `.suffix` is admitted too —
never the bare `suffix` and never `xsuffix`.) -/
def HostRule (patternHost host : Bytes) : Prop :=
  (∃ suffix, patternHost = wildcard ++ suffix ∧ ∃ pre, lower host = pre ++ 46 :: suffix) ∨
  ((∀ suffix, patternHost ≠ wildcard ++ suffix) ∧ lower patternHost = lower host)

/-- Scheme rule: a scheme in the pattern must be the URI's scheme. -/
def SchemeRule (patternScheme uriScheme : Option Bytes) : Prop :=
  ∀ s, patternScheme = some s → uriScheme = some s

/-- The documented rule for one pattern: host rule, equal port strings (both absent or both the
same text), scheme rule; a pattern without a host (scheme only) admits the URIs of that scheme. -/
def MatchesSpec (p : Pattern) (u : Uri) : Prop :=
  match p.host with
  | some ph => ∃ h, u.host = some h ∧ HostRule ph h ∧ p.port = u.port ∧ SchemeRule p.scheme u.scheme
  | none => ∃ s, p.scheme = some s ∧ u.scheme = some s

def AllowedSpec (ps : List Pattern) (u : Uri) : Prop := ∃ p ∈ ps, MatchesSpec p u

/-! ### string lemmas -/

theorem stripPrefix_some_iff (p s r : Bytes) : stripPrefix p s = some r ↔ s = p ++ r := by
  unfold stripPrefix
  constructor
  · intro h
    by_cases hp : p.isPrefixOf s = true
    · simp only [hp, if_true, Option.some.injEq] at h
      obtain ⟨t, ht⟩ := List.isPrefixOf_iff_prefix.1 hp
      subst ht; subst h; simp
    · simp [hp] at h
  · intro h
    subst h
    have : p.isPrefixOf (p ++ r) = true := List.isPrefixOf_iff_prefix.2 ⟨r, rfl⟩
    simp [this]

theorem stripPrefix_none_iff (p s : Bytes) : stripPrefix p s = none ↔ ∀ r, s ≠ p ++ r := by
  constructor
  · intro h r hr
    have := (stripPrefix_some_iff p s r).2 hr
    rw [h] at this; cases this
  · intro h
    cases hs : stripPrefix p s with
    | none => rfl
    | some r => exact absurd ((stripPrefix_some_iff p s r).1 hs) (h r)

theorem wildcardMatch_iff (suffix host : Bytes) :
    wildcardMatch suffix host = true ↔ ∃ pre, lower host = pre ++ 46 :: suffix := by
  unfold wildcardMatch endsWith
  generalize lower host = hl
  constructor
  · intro h
    by_cases hc : (decide (hl.length ≤ suffix.length) || !suffix.isSuffixOf hl) = true
    · simp [hc] at h
    · simp only [hc] at h
      simp only [Bool.or_eq_true, decide_eq_true_eq, Bool.not_eq_true', not_or, Nat.not_le,
        Bool.not_eq_false] at hc
      obtain ⟨hlen, hsuf⟩ := hc
      obtain ⟨t, ht⟩ := List.isSuffixOf_iff_suffix.1 hsuf
      subst ht
      have htl : 0 < t.length := by simp at hlen; omega
      have hidx : (t ++ suffix).length - suffix.length - 1 = t.length - 1 := by simp
      have h' : (t ++ suffix)[t.length - 1]? = some 46 := by
        rw [← hidx]; simpa using h
      rw [List.getElem?_append_left (by omega)] at h'
      have hlast : t.getLast? = some 46 := by
        rw [List.getLast?_eq_getElem?]; exact h'
      obtain ⟨ys, hys⟩ := List.getLast?_eq_some_iff.1 hlast
      exact ⟨ys, by rw [hys]; simp⟩
  · rintro ⟨pre, rfl⟩
    have hsuf : suffix.isSuffixOf (pre ++ 46 :: suffix) = true :=
      List.isSuffixOf_iff_suffix.2 ⟨pre ++ [46], by simp⟩
    have hlen : ¬ (pre ++ 46 :: suffix).length ≤ suffix.length := by simp; omega
    have hidx : (pre ++ 46 :: suffix).length - suffix.length - 1 = pre.length := by simp; omega
    have hc : (decide ((pre ++ 46 :: suffix).length ≤ suffix.length) || !suffix.isSuffixOf (pre ++ 46 :: suffix)) = false := by
      simp only [hsuf, Bool.not_true, Bool.or_false, decide_eq_false_iff_not]; exact hlen
    rw [if_neg (by rw [hc]; simp), hidx]
    simp

/-! ### `matches` decides the documented rule -/

theorem hostAllowed_iff (ph h : Bytes) : hostAllowed ph h = true ↔ HostRule ph h := by
  unfold HostRule hostAllowed
  cases hs : stripPrefix wildcard ph with
  | some suffix =>
    have hph := (stripPrefix_some_iff _ _ _).1 hs
    simp only [wildcardMatch_iff]
    constructor
    · intro h1; left; exact ⟨suffix, hph, h1⟩
    · rintro (⟨suf, hsuf, hpre⟩ | ⟨hno, _⟩)
      · have : suffix = suf := by
          rw [hph] at hsuf; exact List.append_cancel_left hsuf
        subst this; exact hpre
      · exact absurd hph (hno suffix)
  | none =>
    have hno := (stripPrefix_none_iff _ _).1 hs
    simp only [eqIgnoreCase, beq_iff_eq]
    constructor
    · intro h1; right; exact ⟨hno, h1⟩
    · rintro (⟨suf, hsuf, _⟩ | ⟨_, h1⟩)
      · exact absurd hsuf (hno suf)
      · exact h1

theorem schemeEquals_iff (a : Bytes) (us : Option Bytes) :
    schemeEquals a us = true ↔ us = some a := by
  unfold schemeEquals
  cases us with
  | none => simp
  | some s => simp

/-- **The model of `HostPattern::matches` holds exactly when the documented rule does.** -/
theorem matches_spec (p : Pattern) (u : Uri) : p.matches u = true ↔ MatchesSpec p u := by
  unfold Pattern.matches MatchesSpec SchemeRule
  cases hp : p.host with
  | none =>
    cases hsc : p.scheme with
    | none => simp
    | some a =>
      simp only [schemeEquals_iff, Option.some.injEq]
      constructor
      · intro h; exact ⟨a, rfl, h⟩
      · rintro ⟨s, rfl, h⟩; exact h
  | some ph =>
    cases hh : u.host with
    | none => simp
    | some h =>
      have hH := hostAllowed_iff ph h
      simp only [Option.some.injEq, exists_eq_left']
      by_cases hhost : hostAllowed ph h = true
      · have hr := hH.1 hhost
        by_cases hport : p.port = u.port
        · have hpb : (p.port == u.port) = true := by simpa using hport
          simp only [hhost, hpb, Bool.and_self, if_true]
          cases hsc : p.scheme with
          | none =>
            simp only [true_iff]
            exact ⟨hr, hport, fun s hs => by cases hs⟩
          | some a =>
            simp only [schemeEquals_iff, Option.some.injEq]
            constructor
            · intro h3; exact ⟨hr, hport, fun s hs => by rw [← hs]; exact h3⟩
            · intro h3; exact h3.2.2 a rfl
        · have hpb : (p.port == u.port) = false := by simpa using hport
          simp only [hhost, hpb, Bool.and_false]
          constructor
          · intro h3; cases h3
          · intro h3; exact absurd h3.2.1 hport
      · have hf : hostAllowed ph h = false := by simpa using hhost
        simp only [hf, Bool.false_and]
        constructor
        · intro h3; cases h3
        · intro h3; exact absurd (hH.2 h3.1) hhost

/-- `is_uri_allowed` holds exactly when some configured pattern admits the URI. -/
theorem isUriAllowed_iff (ps : List Pattern) (u : Uri) :
    isUriAllowed ps u = true ↔ AllowedSpec ps u := by
  unfold isUriAllowed AllowedSpec
  simp only [List.any_eq_true]
  constructor
  · rintro ⟨p, hp, hm⟩; exact ⟨p, hp, (matches_spec p u).1 hm⟩
  · rintro ⟨p, hp, hm⟩; exact ⟨p, hp, (matches_spec p u).2 hm⟩

/-- An empty configured list admits nothing. -/
theorem empty_list_allows_nothing (u : Uri) : ¬ AllowedSpec [] u := by
  rintro ⟨p, hp, _⟩; cases hp

/-! ### how `HostPattern::new` reads a pattern string -/

theorem takeWhile_append_dropWhile {α : Type} (f : α → Bool) (l : List α) :
    l.takeWhile f ++ l.dropWhile f = l := List.takeWhile_append_dropWhile

theorem mem_takeWhile_ne (c : Nat) (l : List Nat) (x : Nat) (h : x ∈ l.takeWhile (· != c)) : x ≠ c := by
  have := @List.all_takeWhile _ (· != c) l
  rw [List.all_eq_true] at this
  simpa using this x h

/-- `rsplit_once(c)` splits at the *last* `c`. -/
theorem rsplitOnce_some (c : Nat) (s a b : Bytes) :
    rsplitOnce c s = some (a, b) ↔ s = a ++ c :: b ∧ c ∉ b := by
  unfold rsplitOnce
  have hsplit := takeWhile_append_dropWhile (· != c) s.reverse
  constructor
  · intro h
    cases hd : s.reverse.dropWhile (· != c) with
    | nil => simp [hd] at h
    | cons x before =>
      simp only [hd, Option.some.injEq, Prod.mk.injEq] at h
      obtain ⟨ha, hb⟩ := h
      have hx : x = c := by
        have hne : s.reverse.dropWhile (· != c) ≠ [] := by simp [hd]
        have := List.head_dropWhile_not (· != c) hne
        simpa [hd] using this
      subst hx
      rw [hd] at hsplit
      have hs : s = (s.reverse.takeWhile (· != x) ++ x :: before).reverse := by
        rw [hsplit]; simp
      refine ⟨?_, ?_⟩
      · rw [hs, ← ha, ← hb]; simp
      · rw [← hb]
        intro hmem
        have hmem' : x ∈ s.reverse.takeWhile (· != x) := by simpa using hmem
        exact mem_takeWhile_ne x _ x hmem' rfl
  · rintro ⟨hs, hnb⟩
    subst hs
    have hrev : (a ++ c :: b).reverse = b.reverse ++ c :: a.reverse := by simp
    have hall : ∀ x ∈ b.reverse, (x != c) = true := by
      intro x hx
      have : x ∈ b := by simpa using hx
      simp only [bne_iff_ne, ne_eq]
      intro e; subst e; exact hnb this
    have htw : (b.reverse ++ c :: a.reverse).takeWhile (· != c) = b.reverse := by
      rw [List.takeWhile_append_of_pos hall]; simp
    have hdw : (b.reverse ++ c :: a.reverse).dropWhile (· != c) = c :: a.reverse := by
      rw [List.dropWhile_append_of_pos hall]; simp
    simp only [hrev, htw, hdw, List.reverse_reverse]

theorem rsplitOnce_none (c : Nat) (s : Bytes) : rsplitOnce c s = none ↔ c ∉ s := by
  constructor
  · intro h hmem
    obtain ⟨a, b, hab⟩ : ∃ a b, s = a ++ c :: b ∧ c ∉ b := by
      -- split at the last occurrence
      induction s with
      | nil => cases hmem
      | cons x xs ih =>
        by_cases hxs : c ∈ xs
        · have hne : rsplitOnce c xs ≠ none ∨ True := Or.inr trivial
          obtain ⟨a, b, hab, hnb⟩ : ∃ a b, xs = a ++ c :: b ∧ c ∉ b := by
            clear ih h hmem hne
            induction xs with
            | nil => cases hxs
            | cons y ys ih2 =>
              by_cases hys : c ∈ ys
              · obtain ⟨a, b, hab, hnb⟩ := ih2 hys
                exact ⟨y :: a, b, by simp [hab], hnb⟩
              · have : y = c := by
                  rcases List.mem_cons.1 hxs with e | e
                  · exact e.symm
                  · exact absurd e hys
                subst this
                exact ⟨[], ys, rfl, hys⟩
          exact ⟨x :: a, b, by simp [hab], hnb⟩
        · have : x = c := by
            rcases List.mem_cons.1 hmem with e | e
            · exact e.symm
            · exact absurd e hxs
          subst this
          exact ⟨[], xs, rfl, hxs⟩
    have := (rsplitOnce_some c s a b).2 hab
    rw [h] at this; cases this
  · intro hnot
    cases hr : rsplitOnce c s with
    | none => rfl
    | some ab =>
      obtain ⟨a, b⟩ := ab
      have := ((rsplitOnce_some c s a b).1 hr).1
      exact absurd (by rw [this]; simp) hnot

theorem splitScheme_spec (pat : Bytes) :
    (splitScheme pat = (some sHttps, (splitScheme pat).2) ∧ pat = pHttps ++ (splitScheme pat).2) ∨
    (splitScheme pat = (some sHttp, (splitScheme pat).2) ∧ pat = pHttp ++ (splitScheme pat).2 ∧
      ∀ r, pat ≠ pHttps ++ r) ∨
    (splitScheme pat = (none, pat) ∧ (∀ r, pat ≠ pHttps ++ r) ∧ ∀ r, pat ≠ pHttp ++ r) := by
  unfold splitScheme
  cases h1 : stripPrefix pHttps pat with
  | some r1 => left; exact ⟨rfl, (stripPrefix_some_iff _ _ _).1 h1⟩
  | none =>
    have n1 := (stripPrefix_none_iff _ _).1 h1
    cases h2 : stripPrefix pHttp pat with
    | some r2 => right; left; exact ⟨rfl, (stripPrefix_some_iff _ _ _).1 h2, n1⟩
    | none => right; right; exact ⟨rfl, n1, (stripPrefix_none_iff _ _).1 h2⟩

theorem splitPort_spec (rest : Bytes) :
    (∃ portText, (splitPort rest).2 = some portText ∧ rest = (splitPort rest).1 ++ 58 :: portText ∧
      58 ∉ portText) ∨
    ((splitPort rest).2 = none ∧ (splitPort rest).1 = rest ∧ 58 ∉ rest) := by
  unfold splitPort
  cases h3 : rsplitOnce 58 rest with
  | some hp =>
    obtain ⟨h, pt⟩ := hp
    have := (rsplitOnce_some _ _ _ _).1 h3
    left; exact ⟨pt, rfl, this.1, this.2⟩
  | none => right; exact ⟨rfl, rfl, (rsplitOnce_none _ _).1 h3⟩

/-- The components `HostPattern::new` extracts, described by equations on the lower-cased pattern
text: an `https://` or (failing that) `http://` prefix is the scheme; the rest is split at its
*last* `:` into host and port (no `:` — no port); an empty host is no host. -/
theorem new_spec (raw : Bytes) :
    let p := Pattern.new raw
    p.pattern = lower raw ∧
    ∃ rest hostText,
      ((p.scheme = some sHttps ∧ lower raw = pHttps ++ rest) ∨
       (p.scheme = some sHttp ∧ lower raw = pHttp ++ rest ∧ ∀ r, lower raw ≠ pHttps ++ r) ∨
       (p.scheme = none ∧ lower raw = rest ∧ (∀ r, lower raw ≠ pHttps ++ r) ∧ ∀ r, lower raw ≠ pHttp ++ r)) ∧
      ((∃ portText, p.port = some portText ∧ rest = hostText ++ 58 :: portText ∧ 58 ∉ portText) ∨
       (p.port = none ∧ rest = hostText ∧ 58 ∉ rest)) ∧
      p.host = (if hostText.isEmpty then none else some hostText) := by
  intro p
  refine ⟨rfl, (splitScheme (lower raw)).2, (splitPort (splitScheme (lower raw)).2).1, ?_, ?_, rfl⟩
  · rcases splitScheme_spec (lower raw) with ⟨h1, h2⟩ | ⟨h1, h2, h3⟩ | ⟨h1, h2, h3⟩
    · left; exact ⟨congrArg Prod.fst h1, h2⟩
    · right; left; exact ⟨congrArg Prod.fst h1, h2, h3⟩
    · right; right; exact ⟨congrArg Prod.fst h1, (congrArg Prod.snd h1).symm, h2, h3⟩
  · rcases splitPort_spec (splitScheme (lower raw)).2 with ⟨pt, h1, h2, h3⟩ | ⟨h1, h2, h3⟩
    · left; exact ⟨pt, h1, h2, h3⟩
    · right; exact ⟨h1, h2.symm, h3⟩

/-! ### enforcement: one layer -/

/-- **A URI outside the list is refused with `UriDisallowed` and the transport is not called.** -/
theorem restricted_refuses (ps : List Pattern) (t : Transport) (hop : Nat) (req : Request) (st : St)
    (h : ¬ AllowedSpec ps req.uri) :
    restricted (some ps) t hop req st =
      ({ st with attempts := st.attempts ++ [req] }, .error .uriDisallowed) := by
  have : isUriAllowed ps req.uri = false := by
    cases hb : isUriAllowed ps req.uri with
    | false => rfl
    | true => exact absurd ((isUriAllowed_iff ps req.uri).1 hb) h
  simp [restricted, resolverAllows, this]

/-- A URI inside the list is handed to the transport unchanged. -/
theorem restricted_passes (ps : List Pattern) (t : Transport) (hop : Nat) (req : Request) (st : St)
    (h : AllowedSpec ps req.uri) :
    restricted (some ps) t hop req st =
      ({ attempts := st.attempts ++ [req], trace := st.trace ++ [req] }, t hop req) := by
  have : isUriAllowed ps req.uri = true := (isUriAllowed_iff ps req.uri).2 h
  simp [restricted, resolverAllows, this]

/-! ### enforcement: the whole stack, every hop -/

/-- **Every request that reaches the transport — the initial one and every redirect hop —
matches a configured pattern under the documented rule.** For every transport, every behaviour of
`Url::join`, both redirect settings, every request. -/
theorem transport_only_sees_allowed (t : Transport) (join : JoinFn) (ps : List Pattern)
    (redirects : Bool) (req : Request) :
    ∀ r ∈ (stack t join (some ps) redirects req).1.trace, ∃ p ∈ ps, MatchesSpec p r.uri := by
  unfold stack redirectResolver
  refine loop_preserves (restricted (some ps) t) join redirects
    (fun st => ∀ r ∈ st.trace, AllowedSpec ps r.uri) ?_ _ _ _ _ (by intro r hr; cases hr)
  intro hop rq st hst
  by_cases ha : AllowedSpec ps rq.uri
  · rw [restricted_passes ps t hop rq st ha]
    intro r hr
    rcases List.mem_append.1 hr with h | h
    · exact hst r h
    · have : r = rq := by simpa using h
      subst this; exact ha
  · rw [restricted_refuses ps t hop rq st ha]; exact hst

/-- Outcome of a run with respect to the allow-list: either every attempted request was admitted
(and all of them reached the transport), or exactly the last attempt was outside the list, it did
not reach the transport, and the result is `UriDisallowed`. -/
def RefusalShape (ps : List Pattern) (r : St × Except Err Response) : Prop :=
  (∀ q ∈ r.1.trace, AllowedSpec ps q.uri) ∧
  (r.1.attempts = r.1.trace ∨
    ∃ q, r.1.attempts = r.1.trace ++ [q] ∧ ¬ AllowedSpec ps q.uri ∧ r.2 = .error .uriDisallowed)

theorem loop_refusal (t : Transport) (join : JoinFn) (ps : List Pattern) (redirects : Bool) :
    ∀ fuel hop req st, st.attempts = st.trace → (∀ q ∈ st.trace, AllowedSpec ps q.uri) →
      RefusalShape ps (redirectLoop (restricted (some ps) t) join redirects fuel hop req st) := by
  intro fuel
  induction fuel with
  | zero => intro hop req st h1 h2; exact ⟨by simpa [redirectLoop] using h2, Or.inl (by simpa [redirectLoop] using h1)⟩
  | succ n ih =>
    intro hop req st h1 h2
    unfold redirectLoop
    by_cases ha : AllowedSpec ps req.uri
    · rw [restricted_passes ps t hop req st ha]
      have h1' : (st.attempts ++ [req]) = (st.trace ++ [req]) := by rw [h1]
      have h2' : ∀ q ∈ st.trace ++ [req], AllowedSpec ps q.uri := by
        intro q hq
        rcases List.mem_append.1 hq with h | h
        · exact h2 q h
        · have : q = req := by simpa using h
          subst this; exact ha
      cases ht : t hop req with
      | error e => exact ⟨h2', Or.inl h1'⟩
      | ok resp =>
        simp only
        cases hr : redirectTarget join redirects hop req.uri resp with
        | error e => exact ⟨h2', Or.inl h1'⟩
        | ok o =>
          cases o with
          | none => exact ⟨h2', Or.inl h1'⟩
          | some target => exact ih _ _ _ h1' h2'
    · rw [restricted_refuses ps t hop req st ha]
      exact ⟨h2, Or.inr ⟨req, by simp [h1], ha, rfl⟩⟩

/-- **Everything else is refused with a URI-disallowed error**: in every run of the stack each
attempted request outside the list is the last attempt, never reaches the transport, and the run
ends in `UriDisallowed`; all other attempts reached the transport. -/
theorem refused_is_uri_disallowed (t : Transport) (join : JoinFn) (ps : List Pattern)
    (redirects : Bool) (req : Request) :
    RefusalShape ps (stack t join (some ps) redirects req) := by
  unfold stack redirectResolver
  exact loop_refusal t join ps redirects _ _ _ _ rfl (by intro q hq; cases hq)

/-- In particular: an initial request outside the list never reaches the transport at all. -/
theorem initial_refused (t : Transport) (join : JoinFn) (ps : List Pattern) (redirects : Bool)
    (req : Request) (h : ¬ AllowedSpec ps req.uri) :
    stack t join (some ps) redirects req =
      ({ attempts := [req], trace := [] }, .error .uriDisallowed) := by
  unfold stack redirectResolver
  show redirectLoop _ _ _ (maxRedirects + 1) 0 req {} = _
  unfold redirectLoop
  rw [restricted_refuses ps t 0 req {} h]
  rfl

/-- A redirect hop outside the list: the follow-up request is refused, whatever came before. -/
theorem redirect_hop_refused (t : Transport) (join : JoinFn) (ps : List Pattern)
    (fuel hop : Nat) (req : Request) (st : St) (resp : Response) (target : Uri)
    (hallow : AllowedSpec ps req.uri) (ht : t hop req = .ok resp)
    (hr : redirectTarget join true hop req.uri resp = .ok (some target))
    (hout : ¬ AllowedSpec ps target) :
    redirectLoop (restricted (some ps) t) join true (fuel + 2) hop req st =
      ({ attempts := st.attempts ++ [req] ++ [buildRedirected req target], trace := st.trace ++ [req] },
        .error .uriDisallowed) := by
  unfold redirectLoop
  rw [restricted_passes ps t hop req st hallow, ht]
  simp only [hr]
  unfold redirectLoop
  have : ¬ AllowedSpec ps (buildRedirected req target).uri := hout
  rw [restricted_refuses ps t (hop + 1) _ _ this]

/-! ### non-vacuity -/

def exPatterns : List Pattern :=
  [Pattern.new (bytesOf "*.Example.org"), Pattern.new (bytesOf "https://cdn.example.net:8443")]

def exUri (text scheme host : String) (port : Option String) : Uri :=
  { text := bytesOf text, scheme := some (bytesOf scheme), host := some (bytesOf host),
    port := port.map bytesOf }

example : (Pattern.new (bytesOf "https://cdn.example.net:8443")) =
    { pattern := bytesOf "https://cdn.example.net:8443", scheme := some sHttps,
      host := some (bytesOf "cdn.example.net"), port := some (bytesOf "8443") } := by decide

example : isUriAllowed exPatterns (exUri "https://A.example.org/x" "https" "A.example.org" none) = true := by decide
example : isUriAllowed exPatterns (exUri "https://example.org/x" "https" "example.org" none) = false := by decide
example : isUriAllowed exPatterns (exUri "https://fakeexample.org/" "https" "fakeexample.org" none) = false := by decide
example : isUriAllowed exPatterns (exUri "https://cdn.example.net:8443/" "https" "cdn.example.net" (some "8443")) = true := by decide
example : isUriAllowed exPatterns (exUri "http://cdn.example.net:8443/" "http" "cdn.example.net" (some "8443")) = false := by decide
example : isUriAllowed exPatterns (exUri "https://cdn.example.net/" "https" "cdn.example.net" none) = false := by decide

def exTransport : Transport := fun hop _ =>
  if hop = 0 then .ok { status := 302, location := .str (bytesOf "https://evil.example.com/") }
  else .ok { status := 200, location := .absent }
def exJoin : JoinFn := fun _ _ _ => .ok (exUri "https://evil.example.com/" "https" "evil.example.com" none)
def exReq : Request :=
  { method := bytesOf "GET", uri := exUri "https://a.example.org/" "https" "a.example.org" none,
    headers := [], body := [] }
def isUriDisallowed : Except Err Response → Bool
  | .error .uriDisallowed => true
  | _ => false

/-- a followed redirect to an outside host: one transport call, then `UriDisallowed` -/
example :
    isUriDisallowed (stack exTransport exJoin (some exPatterns) true exReq).2 = true ∧
    (stack exTransport exJoin (some exPatterns) true exReq).1.trace.length = 1 ∧
    (stack exTransport exJoin (some exPatterns) true exReq).1.attempts.length = 2 := by decide

end C2pa.C26
