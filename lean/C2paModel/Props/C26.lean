import C2paModel.Model.C26
import C2paModel.Lemmas.C26Stack
import C2paModel.Gen.C28HttpSites
/-
C26 — property theorems. The statement (properties.jsonl):

  When an allowed-hosts list is configured, no HTTP request (the initial request or any redirect
  hop) reaches the transport unless its URI matches a configured pattern under the documented
  rules (exact host or wildcard subdomain, optional scheme, port must match). Everything else is
  refused with a URI-disallowed error.

`MatchesSpec` is the documented rule written declaratively (no reference to the code's control
flow); `matches_spec` shows the model of `HostPattern::matches` decides exactly that rule,
`new_spec` characterises how `HostPattern::new` reads a pattern string, and the stack theorems
quantify over every transport, every `Url::join` behaviour, every pattern list, every request and
every redirect history.
-/
namespace C2pa.C26

open C2pa.C27

/-! ### the documented rule -/

/-- Host rule: `*.suffix` admits exactly the hosts `pre ++ "." ++ suffix`, anything else is an
exact comparison; both ASCII-case-insensitively. (`pre` is whatever stands in place of the `*`;
the code does not require it to be non-empty, so the degenerate host `.suffix` is admitted too —
never the bare `suffix` and never `xsuffix`.) -/
def HostRule (patternHost host : Bytes) : Prop :=
  (∃ suffix, patternHost = wildcard ++ suffix ∧ ∃ pre, lower host = pre ++ 46 :: suffix) ∨
  ((∀ suffix, patternHost ≠ wildcard ++ suffix) ∧ lower patternHost = lower host)

/-- Scheme rule: a scheme in the pattern must be the URI's scheme. -/
def SchemeRule (patternScheme uriScheme : Option Bytes) : Prop :=
  ∀ s, patternScheme = some s → uriScheme = some s

/-- The documented rule for one pattern: host rule, equal port strings (both absent or both the
same text), scheme rule; a pattern without a host (scheme only) admits the URIs of that scheme. -/
def MatchesSpec (p : Pattern) (u : Uri) : Prop :=
  match p.host with
  | some ph => ∃ h, u.host = some h ∧ HostRule ph h ∧ p.port = u.port ∧ SchemeRule p.scheme u.scheme
  | none => ∃ s, p.scheme = some s ∧ u.scheme = some s

def AllowedSpec (ps : List Pattern) (u : Uri) : Prop := ∃ p ∈ ps, MatchesSpec p u

/-! ### string lemmas -/

theorem stripPrefix_some_iff (p s r : Bytes) : stripPrefix p s = some r ↔ s = p ++ r := by
  unfold stripPrefix
  constructor
  · intro h
    by_cases hp : p.isPrefixOf s = true
    · simp only [hp, if_true, Option.some.injEq] at h
      obtain ⟨t, ht⟩ := List.isPrefixOf_iff_prefix.1 hp
      subst ht; subst h; simp
    · simp [hp] at h
  · intro h
    subst h
    have : p.isPrefixOf (p ++ r) = true := List.isPrefixOf_iff_prefix.2 ⟨r, rfl⟩
    simp [this]

theorem stripPrefix_none_iff (p s : Bytes) : stripPrefix p s = none ↔ ∀ r, s ≠ p ++ r := by
  constructor
  · intro h r hr
    have := (stripPrefix_some_iff p s r).2 hr
    rw [h] at this; cases this
  · intro h
    cases hs : stripPrefix p s with
    | none => rfl
    | some r => exact absurd ((stripPrefix_some_iff p s r).1 hs) (h r)

theorem wildcardMatch_iff (suffix host : Bytes) :
    wildcardMatch suffix host = true ↔ ∃ pre, lower host = pre ++ 46 :: suffix := by
  unfold wildcardMatch endsWith
  generalize lower host = hl
  constructor
  · intro h
    by_cases hc : (decide (hl.length ≤ suffix.length) || !suffix.isSuffixOf hl) = true
    · simp [hc] at h
    · simp only [hc] at h
      simp only [Bool.or_eq_true, decide_eq_true_eq, Bool.not_eq_true', not_or, Nat.not_le,
        Bool.not_eq_false] at hc
      obtain ⟨hlen, hsuf⟩ := hc
      obtain ⟨t, ht⟩ := List.isSuffixOf_iff_suffix.1 hsuf
      subst ht
      have htl : 0 < t.length := by simp at hlen; omega
      have hidx : (t ++ suffix).length - suffix.length - 1 = t.length - 1 := by simp
      have h' : (t ++ suffix)[t.length - 1]? = some 46 := by
        rw [← hidx]; simpa using h
      rw [List.getElem?_append_left (by omega)] at h'
      have hlast : t.getLast? = some 46 := by
        rw [List.getLast?_eq_getElem?]; exact h'
      obtain ⟨ys, hys⟩ := List.getLast?_eq_some_iff.1 hlast
      exact ⟨ys, by rw [hys]; simp⟩
  · rintro ⟨pre, rfl⟩
    have hsuf : suffix.isSuffixOf (pre ++ 46 :: suffix) = true :=
      List.isSuffixOf_iff_suffix.2 ⟨pre ++ [46], by simp⟩
    have hlen : ¬ (pre ++ 46 :: suffix).length ≤ suffix.length := by simp; omega
    have hidx : (pre ++ 46 :: suffix).length - suffix.length - 1 = pre.length := by simp; omega
    have hc : (decide ((pre ++ 46 :: suffix).length ≤ suffix.length) || !suffix.isSuffixOf (pre ++ 46 :: suffix)) = false := by
      simp only [hsuf, Bool.not_true, Bool.or_false, decide_eq_false_iff_not]; exact hlen
    rw [if_neg (by rw [hc]; simp), hidx]
    simp

/-! ### `matches` decides the documented rule -/

theorem hostAllowed_iff (ph h : Bytes) : hostAllowed ph h = true ↔ HostRule ph h := by
  unfold HostRule hostAllowed
  cases hs : stripPrefix wildcard ph with
  | some suffix =>
    have hph := (stripPrefix_some_iff _ _ _).1 hs
    simp only [wildcardMatch_iff]
    constructor
    · intro h1; left; exact ⟨suffix, hph, h1⟩
    · rintro (⟨suf, hsuf, hpre⟩ | ⟨hno, _⟩)
      · have : suffix = suf := by
          rw [hph] at hsuf; exact List.append_cancel_left hsuf
        subst this; exact hpre
      · exact absurd hph (hno suffix)
  | none =>
    have hno := (stripPrefix_none_iff _ _).1 hs
    simp only [eqIgnoreCase, beq_iff_eq]
    constructor
    · intro h1; right; exact ⟨hno, h1⟩
    · rintro (⟨suf, hsuf, _⟩ | ⟨_, h1⟩)
      · exact absurd hsuf (hno suf)
      · exact h1

theorem schemeEquals_iff (a : Bytes) (us : Option Bytes) :
    schemeEquals a us = true ↔ us = some a := by
  unfold schemeEquals
  cases us with
  | none => simp
  | some s => simp

/-- **The model of `HostPattern::matches` holds exactly when the documented rule does.** -/
theorem matches_spec (p : Pattern) (u : Uri) : p.matches u = true ↔ MatchesSpec p u := by
  unfold Pattern.matches MatchesSpec SchemeRule
  cases hp : p.host with
  | none =>
    cases hsc : p.scheme with
    | none => simp
    | some a =>
      simp only [schemeEquals_iff, Option.some.injEq]
      constructor
      · intro h; exact ⟨a, rfl, h⟩
      · rintro ⟨s, rfl, h⟩; exact h
  | some ph =>
    cases hh : u.host with
    | none => simp
    | some h =>
      have hH := hostAllowed_iff ph h
      simp only [Option.some.injEq, exists_eq_left']
      by_cases hhost : hostAllowed ph h = true
      · have hr := hH.1 hhost
        by_cases hport : p.port = u.port
        · have hpb : (p.port == u.port) = true := by simpa using hport
          simp only [hhost, hpb, Bool.and_self, if_true]
          cases hsc : p.scheme with
          | none =>
            simp only [true_iff]
            exact ⟨hr, hport, fun s hs => by cases hs⟩
          | some a =>
            simp only [schemeEquals_iff, Option.some.injEq]
            constructor
            · intro h3; exact ⟨hr, hport, fun s hs => by rw [← hs]; exact h3⟩
            · intro h3; exact h3.2.2 a rfl
        · have hpb : (p.port == u.port) = false := by simpa using hport
          simp only [hhost, hpb, Bool.and_false]
          constructor
          · intro h3; cases h3
          · intro h3; exact absurd h3.2.1 hport
      · have hf : hostAllowed ph h = false := by simpa using hhost
        simp only [hf, Bool.false_and]
        constructor
        · intro h3; cases h3
        · intro h3; exact absurd (hH.2 h3.1) hhost

/-- `is_uri_allowed` holds exactly when some configured pattern admits the URI. -/
theorem isUriAllowed_iff (ps : List Pattern) (u : Uri) :
    isUriAllowed ps u = true ↔ AllowedSpec ps u := by
  unfold isUriAllowed AllowedSpec
  simp only [List.any_eq_true]
  constructor
  · rintro ⟨p, hp, hm⟩; exact ⟨p, hp, (matches_spec p u).1 hm⟩
  · rintro ⟨p, hp, hm⟩; exact ⟨p, hp, (matches_spec p u).2 hm⟩

/-- An empty configured list admits nothing. -/
theorem empty_list_allows_nothing (u : Uri) : ¬ AllowedSpec [] u := by
  rintro ⟨p, hp, _⟩; cases hp


/-! ### the documented rule read strictly, and exactly what the code admits beyond it

`HostRule` above lets the text in place of the `*` and the suffix be empty, because the code does
(`host.len() <= suffix.len()` and a `.` before the suffix are its only checks). The documentation
(settings `core.allowed_network_hosts`) speaks of a *sub-domain* of a *hostname*:
`StrictHostRule` is that reading, `DegenerateHost` is precisely the excess, and
`matches_exact` says the code admits the strict rule plus exactly that excess — so neither
degenerate case can grow or shrink unnoticed. -/

/-- `*.suffix` with a non-empty suffix admits exactly `label….suffix` with a non-empty left part;
anything else is an exact comparison. -/
def StrictHostRule (patternHost host : Bytes) : Prop :=
  (∃ suffix, patternHost = wildcard ++ suffix ∧ suffix ≠ [] ∧
     ∃ pre, pre ≠ [] ∧ lower host = pre ++ 46 :: suffix) ∨
  ((∀ suffix, patternHost ≠ wildcard ++ suffix) ∧ lower patternHost = lower host)

/-- What the code admits beyond the strict reading: the pattern `*.` (empty suffix) admits every
host that ends in a dot, and `*.suffix` admits the host `.suffix` (empty label). -/
def DegenerateHost (patternHost host : Bytes) : Prop :=
  ∃ suffix, patternHost = wildcard ++ suffix ∧
    ((suffix = [] ∧ ∃ pre, lower host = pre ++ [46]) ∨ lower host = 46 :: suffix)

theorem hostRule_exact (ph h : Bytes) : HostRule ph h ↔ (StrictHostRule ph h ∨ DegenerateHost ph h) := by
  unfold HostRule StrictHostRule DegenerateHost
  constructor
  · rintro (⟨suffix, hph, pre, hpre⟩ | hex)
    · by_cases hs : suffix = []
      · right; exact ⟨suffix, hph, Or.inl ⟨hs, pre, by rw [hpre, hs]⟩⟩
      · by_cases hp : pre = []
        · right; exact ⟨suffix, hph, Or.inr (by rw [hpre, hp]; rfl)⟩
        · left; left; exact ⟨suffix, hph, hs, pre, hp, hpre⟩
    · left; right; exact hex
  · rintro ((⟨suffix, hph, _, pre, _, hpre⟩ | hex) | ⟨suffix, hph, (⟨hs, pre, hpre⟩ | hpre)⟩)
    · left; exact ⟨suffix, hph, pre, hpre⟩
    · right; exact hex
    · left; exact ⟨suffix, hph, pre, by rw [hpre, hs]⟩
    · left; exact ⟨suffix, hph, [], by rw [hpre]; rfl⟩

/-- The documented rule for one pattern, strict reading, written without reference to the code's
control flow: a pattern with a host needs a URI host under `StrictHostRule`, equal port texts and
the scheme rule; a pattern without a host (scheme only) admits the URIs of that scheme. -/
def StrictMatchesSpec (p : Pattern) (u : Uri) : Prop :=
  (∃ ph h, p.host = some ph ∧ u.host = some h ∧ StrictHostRule ph h ∧ p.port = u.port ∧
     SchemeRule p.scheme u.scheme) ∨
  (p.host = none ∧ ∃ s, p.scheme = some s ∧ u.scheme = some s)

/-- **`HostPattern::matches` admits exactly the strictly-read documented rule plus the two
degenerate host cases** (with the same port and scheme conditions). -/
theorem matches_exact (p : Pattern) (u : Uri) :
    p.matches u = true ↔
      (StrictMatchesSpec p u ∨
       ∃ ph h, p.host = some ph ∧ u.host = some h ∧ DegenerateHost ph h ∧ p.port = u.port ∧
         SchemeRule p.scheme u.scheme) := by
  rw [matches_spec]
  unfold MatchesSpec StrictMatchesSpec
  cases hp : p.host with
  | none =>
    constructor
    · rintro ⟨s, h1, h2⟩; left; right; exact ⟨rfl, s, h1, h2⟩
    · rintro ((⟨ph, h, h0, _⟩ | ⟨_, s, h1, h2⟩) | ⟨ph, h, h0, _⟩)
      · cases h0
      · exact ⟨s, h1, h2⟩
      · cases h0
  | some ph =>
    constructor
    · rintro ⟨h, hu, hr, hport, hsc⟩
      rcases (hostRule_exact ph h).1 hr with hs | hd
      · left; left; exact ⟨ph, h, rfl, hu, hs, hport, hsc⟩
      · right; exact ⟨ph, h, rfl, hu, hd, hport, hsc⟩
    · rintro ((⟨ph', h, h0, hu, hs, hport, hsc⟩ | ⟨h0, _⟩) | ⟨ph', h, h0, hu, hd, hport, hsc⟩)
      · cases h0; exact ⟨h, hu, (hostRule_exact ph h).2 (Or.inl hs), hport, hsc⟩
      · cases h0
      · cases h0; exact ⟨h, hu, (hostRule_exact ph h).2 (Or.inr hd), hport, hsc⟩

/-- The strict rule never admits the bare suffix, a sibling that merely ends in the suffix text,
or an empty label. -/
theorem strict_wildcard_needs_label (suffix host : Bytes) (_hs : suffix ≠ [])
    (h : StrictHostRule (wildcard ++ suffix) host) :
    ∃ pre, pre ≠ [] ∧ lower host = pre ++ 46 :: suffix := by
  rcases h with ⟨suf, hph, _, pre, hpre, hh⟩ | ⟨hno, _⟩
  · have : suffix = suf := List.append_cancel_left hph
    subst this; exact ⟨pre, hpre, hh⟩
  · exact absurd rfl (hno suffix)

/-! ### how `HostPattern::new` reads a pattern string -/

theorem takeWhile_append_dropWhile {α : Type} (f : α → Bool) (l : List α) :
    l.takeWhile f ++ l.dropWhile f = l := List.takeWhile_append_dropWhile

theorem mem_takeWhile_ne (c : Nat) (l : List Nat) (x : Nat) (h : x ∈ l.takeWhile (· != c)) : x ≠ c := by
  have := @List.all_takeWhile _ (· != c) l
  rw [List.all_eq_true] at this
  simpa using this x h

/-- `rsplit_once(c)` splits at the *last* `c`. -/
theorem rsplitOnce_some (c : Nat) (s a b : Bytes) :
    rsplitOnce c s = some (a, b) ↔ s = a ++ c :: b ∧ c ∉ b := by
  unfold rsplitOnce
  have hsplit := takeWhile_append_dropWhile (· != c) s.reverse
  constructor
  · intro h
    cases hd : s.reverse.dropWhile (· != c) with
    | nil => simp [hd] at h
    | cons x before =>
      simp only [hd, Option.some.injEq, Prod.mk.injEq] at h
      obtain ⟨ha, hb⟩ := h
      have hx : x = c := by
        have hne : s.reverse.dropWhile (· != c) ≠ [] := by simp [hd]
        have := List.head_dropWhile_not (· != c) hne
        simpa [hd] using this
      subst hx
      rw [hd] at hsplit
      have hs : s = (s.reverse.takeWhile (· != x) ++ x :: before).reverse := by
        rw [hsplit]; simp
      refine ⟨?_, ?_⟩
      · rw [hs, ← ha, ← hb]; simp
      · rw [← hb]
        intro hmem
        have hmem' : x ∈ s.reverse.takeWhile (· != x) := by simpa using hmem
        exact mem_takeWhile_ne x _ x hmem' rfl
  · rintro ⟨hs, hnb⟩
    subst hs
    have hrev : (a ++ c :: b).reverse = b.reverse ++ c :: a.reverse := by simp
    have hall : ∀ x ∈ b.reverse, (x != c) = true := by
      intro x hx
      have : x ∈ b := by simpa using hx
      simp only [bne_iff_ne, ne_eq]
      intro e; subst e; exact hnb this
    have htw : (b.reverse ++ c :: a.reverse).takeWhile (· != c) = b.reverse := by
      rw [List.takeWhile_append_of_pos hall]; simp
    have hdw : (b.reverse ++ c :: a.reverse).dropWhile (· != c) = c :: a.reverse := by
      rw [List.dropWhile_append_of_pos hall]; simp
    simp only [hrev, htw, hdw, List.reverse_reverse]

theorem rsplitOnce_none (c : Nat) (s : Bytes) : rsplitOnce c s = none ↔ c ∉ s := by
  constructor
  · intro h hmem
    obtain ⟨a, b, hab⟩ : ∃ a b, s = a ++ c :: b ∧ c ∉ b := by
      -- split at the last occurrence
      induction s with
      | nil => cases hmem
      | cons x xs ih =>
        by_cases hxs : c ∈ xs
        · have hne : rsplitOnce c xs ≠ none ∨ True := Or.inr trivial
          obtain ⟨a, b, hab, hnb⟩ : ∃ a b, xs = a ++ c :: b ∧ c ∉ b := by
            clear ih h hmem hne
            induction xs with
            | nil => cases hxs
            | cons y ys ih2 =>
              by_cases hys : c ∈ ys
              · obtain ⟨a, b, hab, hnb⟩ := ih2 hys
                exact ⟨y :: a, b, by simp [hab], hnb⟩
              · have : y = c := by
                  rcases List.mem_cons.1 hxs with e | e
                  · exact e.symm
                  · exact absurd e hys
                subst this
                exact ⟨[], ys, rfl, hys⟩
          exact ⟨x :: a, b, by simp [hab], hnb⟩
        · have : x = c := by
            rcases List.mem_cons.1 hmem with e | e
            · exact e.symm
            · exact absurd e hxs
          subst this
          exact ⟨[], xs, rfl, hxs⟩
    have := (rsplitOnce_some c s a b).2 hab
    rw [h] at this; cases this
  · intro hnot
    cases hr : rsplitOnce c s with
    | none => rfl
    | some ab =>
      obtain ⟨a, b⟩ := ab
      have := ((rsplitOnce_some c s a b).1 hr).1
      exact absurd (by rw [this]; simp) hnot

theorem splitScheme_spec (pat : Bytes) :
    (splitScheme pat = (some sHttps, (splitScheme pat).2) ∧ pat = pHttps ++ (splitScheme pat).2) ∨
    (splitScheme pat = (some sHttp, (splitScheme pat).2) ∧ pat = pHttp ++ (splitScheme pat).2 ∧
      ∀ r, pat ≠ pHttps ++ r) ∨
    (splitScheme pat = (none, pat) ∧ (∀ r, pat ≠ pHttps ++ r) ∧ ∀ r, pat ≠ pHttp ++ r) := by
  unfold splitScheme
  cases h1 : stripPrefix pHttps pat with
  | some r1 => left; exact ⟨rfl, (stripPrefix_some_iff _ _ _).1 h1⟩
  | none =>
    have n1 := (stripPrefix_none_iff _ _).1 h1
    cases h2 : stripPrefix pHttp pat with
    | some r2 => right; left; exact ⟨rfl, (stripPrefix_some_iff _ _ _).1 h2, n1⟩
    | none => right; right; exact ⟨rfl, n1, (stripPrefix_none_iff _ _).1 h2⟩

theorem splitPort_spec (rest : Bytes) :
    (∃ portText, (splitPort rest).2 = some portText ∧ rest = (splitPort rest).1 ++ 58 :: portText ∧
      58 ∉ portText) ∨
    ((splitPort rest).2 = none ∧ (splitPort rest).1 = rest ∧ 58 ∉ rest) := by
  unfold splitPort
  cases h3 : rsplitOnce 58 rest with
  | some hp =>
    obtain ⟨h, pt⟩ := hp
    have := (rsplitOnce_some _ _ _ _).1 h3
    left; exact ⟨pt, rfl, this.1, this.2⟩
  | none => right; exact ⟨rfl, rfl, (rsplitOnce_none _ _).1 h3⟩

/-- The components `HostPattern::new` extracts, described by equations on the lower-cased pattern
text: an `https://` or (failing that) `http://` prefix is the scheme; the rest is split at its
*last* `:` into host and port (no `:` — no port); an empty host is no host. -/
theorem new_spec (raw : Bytes) :
    let p := Pattern.new raw
    p.pattern = lower raw ∧
    ∃ rest hostText,
      ((p.scheme = some sHttps ∧ lower raw = pHttps ++ rest) ∨
       (p.scheme = some sHttp ∧ lower raw = pHttp ++ rest ∧ ∀ r, lower raw ≠ pHttps ++ r) ∨
       (p.scheme = none ∧ lower raw = rest ∧ (∀ r, lower raw ≠ pHttps ++ r) ∧ ∀ r, lower raw ≠ pHttp ++ r)) ∧
      ((∃ portText, p.port = some portText ∧ rest = hostText ++ 58 :: portText ∧ 58 ∉ portText) ∨
       (p.port = none ∧ rest = hostText ∧ 58 ∉ rest)) ∧
      p.host = (if hostText.isEmpty then none else some hostText) := by
  intro p
  refine ⟨rfl, (splitScheme (lower raw)).2, (splitPort (splitScheme (lower raw)).2).1, ?_, ?_, rfl⟩
  · rcases splitScheme_spec (lower raw) with ⟨h1, h2⟩ | ⟨h1, h2, h3⟩ | ⟨h1, h2, h3⟩
    · left; exact ⟨congrArg Prod.fst h1, h2⟩
    · right; left; exact ⟨congrArg Prod.fst h1, h2, h3⟩
    · right; right; exact ⟨congrArg Prod.fst h1, (congrArg Prod.snd h1).symm, h2, h3⟩
  · rcases splitPort_spec (splitScheme (lower raw)).2 with ⟨pt, h1, h2, h3⟩ | ⟨h1, h2, h3⟩
    · left; exact ⟨pt, h1, h2, h3⟩
    · right; exact ⟨h1, h2.symm, h3⟩


/-! ### `new` and `matches` composed: from the pattern *text* to the admitted URIs -/

def exUri' (host : String) (port : Option String) : Uri :=
  { text := [], scheme := some (bytesOf "https"), host := some (bytesOf host), port := port.map bytesOf }

/-- `scheme://` or nothing -/
def schemePrefix : Option Bytes → Bytes
  | none => []
  | some s => s ++ bytesOf "://"

/-- `:port` or nothing -/
def portSuffix : Option Bytes → Bytes
  | none => []
  | some p => 58 :: p

theorem pHttp_ne_pHttps (x r : Bytes) : pHttp ++ x ≠ pHttps ++ r := by
  intro h
  have := congrArg (fun l => l[4]?) h
  simp [pHttp, pHttps, bytesOf] at this

/-- **What `HostPattern::new` makes of a well-formed pattern text.** If the lower-cased text is
`[http(s)://] host [:port]` — the host non-empty, the port (when present) without `:`, the host
without `:` when there is no port, and a scheme-less text not itself starting with `http(s)://` —
then `new` yields exactly these three components. Splitting at the first `:` instead of the last,
dropping the port, or mis-reading the scheme prefix all falsify this. -/
theorem new_of_text (raw : Bytes) (sc : Option Bytes) (h : Bytes) (pt : Option Bytes)
    (hraw : lower raw = schemePrefix sc ++ (h ++ portSuffix pt))
    (hsc : sc = none ∨ sc = some sHttps ∨ sc = some sHttp)
    (hnone : sc = none → (∀ r, lower raw ≠ pHttps ++ r) ∧ ∀ r, lower raw ≠ pHttp ++ r)
    (hne : h ≠ [])
    (hcolon : match pt with | none => 58 ∉ h | some p => 58 ∉ p) :
    Pattern.new raw = { pattern := lower raw, scheme := sc, host := some h, port := pt } := by
  have hsplit : splitScheme (lower raw) = (sc, h ++ portSuffix pt) := by
    unfold splitScheme
    rcases hsc with rfl | rfl | rfl
    · obtain ⟨n1, n2⟩ := hnone rfl
      rw [(stripPrefix_none_iff _ _).2 n1, (stripPrefix_none_iff _ _).2 n2]
      simp [hraw, schemePrefix]
    · have : stripPrefix pHttps (lower raw) = some (h ++ portSuffix pt) :=
        (stripPrefix_some_iff _ _ _).2 (by rw [hraw]; rfl)
      rw [this]
    · have n1 : stripPrefix pHttps (lower raw) = none :=
        (stripPrefix_none_iff _ _).2 (fun r hr => by
          rw [hraw] at hr; exact pHttp_ne_pHttps _ _ hr)
      have : stripPrefix pHttp (lower raw) = some (h ++ portSuffix pt) :=
        (stripPrefix_some_iff _ _ _).2 (by rw [hraw]; rfl)
      rw [n1, this]
  have hport : splitPort (h ++ portSuffix pt) = (h, pt) := by
    unfold splitPort
    cases pt with
    | none =>
      simp only [portSuffix, List.append_nil]
      rw [(rsplitOnce_none 58 h).2 hcolon]
    | some p =>
      simp only [portSuffix]
      rw [(rsplitOnce_some 58 (h ++ 58 :: p) h p).2 ⟨rfl, hcolon⟩]
  have hem : h.isEmpty = false := by cases h <;> simp at hne ⊢
  unfold Pattern.new
  simp only [hsplit, hport, hem, Bool.false_eq_true, if_false]

/-- **From pattern text to admitted URIs**: for a well-formed pattern text the URIs that
`HostPattern::new(text).matches` admits are exactly those whose host satisfies the host rule for
the text's host part, whose port text equals the text's port part (both absent or both equal) and
whose scheme is the text's scheme when it has one. -/
theorem new_matches_iff (raw : Bytes) (sc : Option Bytes) (h : Bytes) (pt : Option Bytes) (u : Uri)
    (hraw : lower raw = schemePrefix sc ++ (h ++ portSuffix pt))
    (hsc : sc = none ∨ sc = some sHttps ∨ sc = some sHttp)
    (hnone : sc = none → (∀ r, lower raw ≠ pHttps ++ r) ∧ ∀ r, lower raw ≠ pHttp ++ r)
    (hne : h ≠ [])
    (hcolon : match pt with | none => 58 ∉ h | some p => 58 ∉ p) :
    (Pattern.new raw).matches u = true ↔
      ∃ uh, u.host = some uh ∧ HostRule h uh ∧ pt = u.port ∧ SchemeRule sc u.scheme := by
  rw [new_of_text raw sc h pt hraw hsc hnone hne hcolon, matches_spec]
  simp [MatchesSpec]

/-- Plain host text (no scheme, no port, no wildcard): admitted are exactly the URIs with that
host, case-insensitively, and *no* port. -/
theorem new_exact_host (raw : Bytes) (u : Uri)
    (hc : 58 ∉ lower raw) (hne : raw ≠ [])
    (hw : ∀ s, lower raw ≠ wildcard ++ s) :
    (Pattern.new raw).matches u = true ↔
      ((u.host.map lower) = some (lower raw) ∧ u.port = none) := by
  have hnp : ∀ (pre : Bytes), (58 : Nat) ∈ pre → ∀ r, lower raw ≠ pre ++ r := by
    intro pre hp r e; apply hc; rw [e]; exact List.mem_append_left _ hp
  have hne' : lower raw ≠ [] := by cases raw <;> simp [lower] at hne ⊢
  rw [new_matches_iff raw none (lower raw) none u (by simp [schemePrefix, portSuffix]) (Or.inl rfl)
    (fun _ => ⟨hnp pHttps (by decide), hnp pHttp (by decide)⟩) hne' hc]
  have lower_lower : lower (lower raw) = lower raw := by
    unfold lower
    rw [List.map_map]
    apply List.map_congr_left
    intro b _
    simp only [Function.comp, lowerByte]
    by_cases h1 : 65 ≤ b ∧ b ≤ 90
    · simp only [h1, and_self, if_true]
      have h2 : ¬ (65 ≤ b + 32 ∧ b + 32 ≤ 90) := by omega
      rw [if_neg h2]
    · simp [h1]
  constructor
  · rintro ⟨uh, hu, hr, hp, _⟩
    rcases hr with ⟨suffix, hs, _⟩ | ⟨_, he⟩
    · exact absurd hs (hw suffix)
    · rw [lower_lower] at he
      exact ⟨by rw [hu]; simp [he], hp.symm⟩
  · rintro ⟨hh, hp⟩
    cases hu : u.host with
    | none => rw [hu] at hh; simp at hh
    | some uh =>
      rw [hu] at hh
      refine ⟨uh, rfl, Or.inr ⟨hw, ?_⟩, hp.symm, fun s hs => by cases hs⟩
      rw [lower_lower]; simpa using hh.symm

example : Pattern.new (bytesOf "HTTPS://Cdn.Example.net:8443") =
    { pattern := bytesOf "https://cdn.example.net:8443", scheme := some sHttps,
      host := some (bytesOf "cdn.example.net"), port := some (bytesOf "8443") } :=
  new_of_text _ (some sHttps) (bytesOf "cdn.example.net") (some (bytesOf "8443")) (by decide)
    (Or.inr (Or.inl rfl)) (by intro h; cases h) (by decide) (by decide)

/-- `new_exact_host` applies to an ordinary host name … -/
example : (Pattern.new (bytesOf "Example.ORG")).matches (exUri' "EXAMPLE.org" none) = true :=
  (new_exact_host (bytesOf "Example.ORG") _ (by decide) (by decide)
    (by intro s h; have := congrArg (fun l => l[0]?) h; simp [lower, lowerByte, bytesOf, wildcard] at this)).2
    (by decide)

/-- … and `new_matches_iff` to a wildcard pattern with scheme and port: a sub-domain on that port
and scheme is admitted. -/
example : (Pattern.new (bytesOf "https://*.Example.org:8443")).matches
    { text := [], scheme := some sHttps, host := some (bytesOf "CDN.example.org"), port := some (bytesOf "8443") } = true :=
  (new_matches_iff (bytesOf "https://*.Example.org:8443") (some sHttps) (bytesOf "*.example.org")
    (some (bytesOf "8443")) _ (by decide) (Or.inr (Or.inl rfl)) (by intro h; cases h) (by decide) (by decide)).2
    ⟨bytesOf "CDN.example.org", rfl,
      Or.inl ⟨bytesOf "example.org", by decide, bytesOf "cdn", by decide⟩, rfl, fun s hs => by cases hs; rfl⟩

/-! ### degenerate and surprising pattern texts, pinned as facts

None of these lets a request through that the *configured text* does not name, so none is a
violation of the statement; they are recorded so that a change is noticed (the harness replays each
on `HostPattern::new` / `matches`). -/

def uriOf (host : String) (port : Option String) : Uri :=
  { text := [], scheme := some (bytesOf "https"), host := some (bytesOf host), port := port.map bytesOf }

/-- the pattern `*.` (no suffix) admits every host written with a trailing dot -/
theorem wildcard_dot_admits_fqdn :
    (Pattern.new (bytesOf "*.")).matches (uriOf "evil.com." none) = true ∧
    (Pattern.new (bytesOf "*.")).matches (uriOf "evil.com" none) = false := by decide

/-- `*.example.org` admits the host `.example.org` (empty label) — and not `example.org` -/
theorem wildcard_admits_empty_label :
    (Pattern.new (bytesOf "*.example.org")).matches (uriOf ".example.org" none) = true ∧
    (Pattern.new (bytesOf "*.example.org")).matches (uriOf "example.org" none) = false ∧
    (Pattern.new (bytesOf "*.example.org")).matches (uriOf "fakeexample.org" none) = false := by decide

/-- An IPv6 literal pattern without a port is cut at its last `:` (host `[:`, port `1]`) and admits
nothing an `http::Uri` can carry (its port is digits only) — it fails closed; with a port it works. -/
theorem ipv6_pattern_needs_port :
    Pattern.new (bytesOf "[::1]") =
      { pattern := bytesOf "[::1]", scheme := none, host := some (bytesOf "[:"), port := some (bytesOf "1]") } ∧
    (Pattern.new (bytesOf "[::1]")).matches (uriOf "[::1]" none) = false ∧
    (Pattern.new (bytesOf "[::1]")).matches (uriOf "[::1]" (some "8080")) = false ∧
    (Pattern.new (bytesOf "[::1]:8080")).matches (uriOf "[::1]" (some "8080")) = true := by decide

/-- A pattern with a trailing dot or a trailing `:` is compared literally. -/
theorem literal_dot_and_colon :
    (Pattern.new (bytesOf "example.org")).matches (uriOf "example.org." none) = false ∧
    (Pattern.new (bytesOf "example.org:")).matches (uriOf "example.org" none) = false := by decide

/-! ### enforcement: one layer -/

/-- **A URI outside the list is refused with `UriDisallowed` and the transport is not called.** -/
theorem restricted_refuses (ps : List Pattern) (t : Transport) (hop : Nat) (req : Request) (st : St)
    (h : ¬ AllowedSpec ps req.uri) :
    restricted (some ps) t hop req st =
      ({ st with attempts := st.attempts ++ [req] }, .error .uriDisallowed) := by
  have : isUriAllowed ps req.uri = false := by
    cases hb : isUriAllowed ps req.uri with
    | false => rfl
    | true => exact absurd ((isUriAllowed_iff ps req.uri).1 hb) h
  simp [restricted, resolverAllows, this]

/-- A URI inside the list is handed to the transport unchanged. -/
theorem restricted_passes (ps : List Pattern) (t : Transport) (hop : Nat) (req : Request) (st : St)
    (h : AllowedSpec ps req.uri) :
    restricted (some ps) t hop req st =
      ({ attempts := st.attempts ++ [req], trace := st.trace ++ [req] }, t hop req) := by
  have : isUriAllowed ps req.uri = true := (isUriAllowed_iff ps req.uri).2 h
  simp [restricted, resolverAllows, this]

/-! ### enforcement: the whole stack, every hop -/

/-- **Every request that reaches the transport — the initial one and every redirect hop —
matches a configured pattern under the documented rule.** For every transport, every behaviour of
`Url::join`, both redirect settings, every request. -/
theorem transport_only_sees_allowed (t : Transport) (join : JoinFn) (ps : List Pattern)
    (redirects : Bool) (req : Request) :
    ∀ r ∈ (stack t join (some ps) redirects req).1.trace, ∃ p ∈ ps, MatchesSpec p r.uri := by
  unfold stack redirectResolver
  refine loop_preserves (restricted (some ps) t) join redirects
    (fun st => ∀ r ∈ st.trace, AllowedSpec ps r.uri) ?_ _ _ _ _ (by intro r hr; cases hr)
  intro hop rq st hst
  by_cases ha : AllowedSpec ps rq.uri
  · rw [restricted_passes ps t hop rq st ha]
    intro r hr
    rcases List.mem_append.1 hr with h | h
    · exact hst r h
    · have : r = rq := by simpa using h
      subst this; exact ha
  · rw [restricted_refuses ps t hop rq st ha]; exact hst

/-- Outcome of a run with respect to the allow-list: either every attempted request was admitted
(and all of them reached the transport), or exactly the last attempt was outside the list, it did
not reach the transport, and the result is `UriDisallowed`. -/
def RefusalShape (ps : List Pattern) (r : St × Except Err Response) : Prop :=
  (∀ q ∈ r.1.trace, AllowedSpec ps q.uri) ∧
  (r.1.attempts = r.1.trace ∨
    ∃ q, r.1.attempts = r.1.trace ++ [q] ∧ ¬ AllowedSpec ps q.uri ∧ r.2 = .error .uriDisallowed)

theorem loop_refusal (t : Transport) (join : JoinFn) (ps : List Pattern) (redirects : Bool) :
    ∀ fuel hop req st, st.attempts = st.trace → (∀ q ∈ st.trace, AllowedSpec ps q.uri) →
      RefusalShape ps (redirectLoop (restricted (some ps) t) join redirects fuel hop req st) := by
  intro fuel
  induction fuel with
  | zero => intro hop req st h1 h2; exact ⟨by simpa [redirectLoop] using h2, Or.inl (by simpa [redirectLoop] using h1)⟩
  | succ n ih =>
    intro hop req st h1 h2
    unfold redirectLoop
    by_cases ha : AllowedSpec ps req.uri
    · rw [restricted_passes ps t hop req st ha]
      have h1' : (st.attempts ++ [req]) = (st.trace ++ [req]) := by rw [h1]
      have h2' : ∀ q ∈ st.trace ++ [req], AllowedSpec ps q.uri := by
        intro q hq
        rcases List.mem_append.1 hq with h | h
        · exact h2 q h
        · have : q = req := by simpa using h
          subst this; exact ha
      cases ht : t hop req with
      | error e => exact ⟨h2', Or.inl h1'⟩
      | ok resp =>
        simp only
        cases hr : redirectTarget join redirects hop req.uri resp with
        | error e => exact ⟨h2', Or.inl h1'⟩
        | ok o =>
          cases o with
          | none => exact ⟨h2', Or.inl h1'⟩
          | some target => exact ih _ _ _ h1' h2'
    · rw [restricted_refuses ps t hop req st ha]
      exact ⟨h2, Or.inr ⟨req, by simp [h1], ha, rfl⟩⟩

/-- **Everything else is refused with a URI-disallowed error**: in every run of the stack each
attempted request outside the list is the last attempt, never reaches the transport, and the run
ends in `UriDisallowed`; all other attempts reached the transport. -/
theorem refused_is_uri_disallowed (t : Transport) (join : JoinFn) (ps : List Pattern)
    (redirects : Bool) (req : Request) :
    RefusalShape ps (stack t join (some ps) redirects req) := by
  unfold stack redirectResolver
  exact loop_refusal t join ps redirects _ _ _ _ rfl (by intro q hq; cases hq)

/-- In particular: an initial request outside the list never reaches the transport at all. -/
theorem initial_refused (t : Transport) (join : JoinFn) (ps : List Pattern) (redirects : Bool)
    (req : Request) (h : ¬ AllowedSpec ps req.uri) :
    stack t join (some ps) redirects req =
      ({ attempts := [req], trace := [] }, .error .uriDisallowed) := by
  unfold stack redirectResolver
  show redirectLoop _ _ _ (maxRedirects + 1) 0 req {} = _
  unfold redirectLoop
  rw [restricted_refuses ps t 0 req {} h]
  rfl

/-- A redirect hop outside the list: the follow-up request is refused, whatever came before. -/
theorem redirect_hop_refused (t : Transport) (join : JoinFn) (ps : List Pattern)
    (fuel hop : Nat) (req : Request) (st : St) (resp : Response) (target : Uri)
    (hallow : AllowedSpec ps req.uri) (ht : t hop req = .ok resp)
    (hr : redirectTarget join true hop req.uri resp = .ok (some target))
    (hout : ¬ AllowedSpec ps target) :
    redirectLoop (restricted (some ps) t) join true (fuel + 2) hop req st =
      ({ attempts := st.attempts ++ [req] ++ [buildRedirected req target], trace := st.trace ++ [req] },
        .error .uriDisallowed) := by
  unfold redirectLoop
  rw [restricted_passes ps t hop req st hallow, ht]
  simp only [hr]
  unfold redirectLoop
  have : ¬ AllowedSpec ps (buildRedirected req target).uri := hout
  rw [restricted_refuses ps t (hop + 1) _ _ this]

/-! ### non-vacuity -/

def exPatterns : List Pattern :=
  [Pattern.new (bytesOf "*.Example.org"), Pattern.new (bytesOf "https://cdn.example.net:8443")]

def exUri (text scheme host : String) (port : Option String) : Uri :=
  { text := bytesOf text, scheme := some (bytesOf scheme), host := some (bytesOf host),
    port := port.map bytesOf }

example : (Pattern.new (bytesOf "https://cdn.example.net:8443")) =
    { pattern := bytesOf "https://cdn.example.net:8443", scheme := some sHttps,
      host := some (bytesOf "cdn.example.net"), port := some (bytesOf "8443") } := by decide

example : isUriAllowed exPatterns (exUri "https://A.example.org/x" "https" "A.example.org" none) = true := by decide
example : isUriAllowed exPatterns (exUri "https://example.org/x" "https" "example.org" none) = false := by decide
example : isUriAllowed exPatterns (exUri "https://fakeexample.org/" "https" "fakeexample.org" none) = false := by decide
example : isUriAllowed exPatterns (exUri "https://cdn.example.net:8443/" "https" "cdn.example.net" (some "8443")) = true := by decide
example : isUriAllowed exPatterns (exUri "http://cdn.example.net:8443/" "http" "cdn.example.net" (some "8443")) = false := by decide
example : isUriAllowed exPatterns (exUri "https://cdn.example.net/" "https" "cdn.example.net" none) = false := by decide

def exTransport : Transport := fun hop _ =>
  if hop = 0 then .ok { status := 302, location := .str (bytesOf "https://evil.example.com/") }
  else .ok { status := 200, location := .absent }
def exJoin : JoinFn := fun _ _ _ => .ok (exUri "https://evil.example.com/" "https" "evil.example.com" none)
def exReq : Request :=
  { method := bytesOf "GET", uri := exUri "https://a.example.org/" "https" "a.example.org" none,
    headers := [], body := [] }
def isUriDisallowed : Except Err Response → Bool
  | .error .uriDisallowed => true
  | _ => false

/-- a followed redirect to an outside host: one transport call, then `UriDisallowed` -/
example :
    isUriDisallowed (stack exTransport exJoin (some exPatterns) true exReq).2 = true ∧
    (stack exTransport exJoin (some exPatterns) true exReq).1.trace.length = 1 ∧
    (stack exTransport exJoin (some exPatterns) true exReq).1.attempts.length = 2 := by decide

/-! ### the Context's two default stacks as a function of the setting -/

/-- Both flavours are the stack of the theorems above. -/
theorem contextStack_eq (f : Flavour) (t : Transport) (join : JoinFn)
    (allowed : Option (List Pattern)) (redirects : Bool) (req : Request) :
    contextStack f t join allowed redirects req = stack t join allowed redirects req := by
  cases f <;> cases allowed <;> rfl

/-- `None` ⇒ no allow-list layer; `Some l` ⇒ the layer, for every `l` and both flavours. -/
theorem contextStack_layer (f : Flavour) (t : Transport) (join : JoinFn) (redirects : Bool)
    (req : Request) :
    contextStack f t join none redirects req = redirectResolver (bare t) join redirects req ∧
    ∀ l, contextStack f t join (some l) redirects req =
      redirectResolver (restricted (some l) t) join redirects req := by
  cases f <;> exact ⟨rfl, fun _ => rfl⟩

/-- **`core.allowed_network_hosts = []` blocks all traffic, on the sync and on the async default
resolver**: whatever the request, the transport and the redirect setting, the request is attempted
once, never reaches the transport, and the result is `UriDisallowed`. -/
theorem empty_list_refuses_everything (f : Flavour) (t : Transport) (join : JoinFn)
    (redirects : Bool) (req : Request) :
    contextStack f t join (some []) redirects req =
      ({ attempts := [req], trace := [] }, .error .uriDisallowed) := by
  rw [contextStack_eq]
  exact initial_refused t join [] redirects req (empty_list_allows_nothing _)

/-- Every request either flavour hands to the transport matches a configured pattern. -/
theorem contextStack_only_sees_allowed (f : Flavour) (t : Transport) (join : JoinFn)
    (ps : List Pattern) (redirects : Bool) (req : Request) :
    ∀ r ∈ (contextStack f t join (some ps) redirects req).1.trace, ∃ p ∈ ps, MatchesSpec p r.uri := by
  rw [contextStack_eq]
  exact transport_only_sees_allowed t join ps redirects req

/-! ### "every request": the request sites of the SDK

The statement quantifies over every HTTP request of the SDK. `transport_only_sees_allowed` covers
the requests issued through `Context::resolver()`. Two request sites do not go through it
(`Model/C26.lean`, `Site`); for them the statement is **false**, proved here with witnesses that
the harness replays on the real code over a loopback listener (known findings
`signer-timestamp-request-ignores-allow-list`, `remote-signer-ignores-allow-list`). -/

/-- The allow-list of the caller's configuration is enforced on every request issued at `site`. -/
def SiteEnforces (site : Site) : Prop :=
  ∀ (t : Transport) (join : JoinFn) (ps : List Pattern) (redirects : Bool) (req : Request),
    ∀ r ∈ (siteStack site t join (some ps) redirects req).1.trace, AllowedSpec ps r.uri

/-- The full statement of C26 over the request sites of sdk/src. It is false of the current code. -/
def EveryRequestSiteEnforces : Prop := ∀ site, SiteEnforces site

def okTransport : Transport := fun _ _ => .ok { status := 200, location := .absent }

/-- **Exactly the Context-resolver site enforces the allow-list**; the signer's default
time-stamp request and the remote signer send their request whatever list is configured (witness:
the empty list, "all traffic is blocked"). -/
theorem site_enforces_iff (site : Site) : SiteEnforces site ↔ site = .contextResolver := by
  constructor
  · intro h
    cases site with
    | contextResolver => rfl
    | signerTimestamp =>
      have := h okTransport exJoin [] false exReq exReq (by decide)
      exact absurd this (empty_list_allows_nothing _)
    | remoteSigner =>
      have := h okTransport exJoin [] false exReq exReq (by decide)
      exact absurd this (empty_list_allows_nothing _)
  · rintro rfl t join ps redirects req r hr
    exact transport_only_sees_allowed t join ps redirects req r hr

/-- The full statement is false: witness `signerTimestamp` (also `remoteSigner`). -/
theorem every_request_site_enforces_false : ¬ EveryRequestSiteEnforces := by
  intro h
  have := (site_enforces_iff .signerTimestamp).1 (h .signerTimestamp)
  cases this

/-- What remains true: the part of the statement about the Context resolver
(`transport_only_sees_allowed`, `refused_is_uri_disallowed`) — the full statement is
`EveryRequestSiteEnforces`. -/
theorem every_request_site_enforces_partial : SiteEnforces .contextResolver :=
  (site_enforces_iff .contextResolver).2 rfl

/-- The witnesses, concretely: with the empty list configured the time-stamp request and the
remote-signing request reach the transport, while the same request through the Context resolver
is refused without reaching it. -/
example :
    (siteStack .signerTimestamp okTransport exJoin (some []) false exReq).1.trace = [exReq] ∧
    (siteStack .remoteSigner okTransport exJoin (some []) false exReq).1.trace = [exReq] ∧
    (siteStack .contextResolver okTransport exJoin (some []) false exReq).1.trace = [] ∧
    isUriDisallowed (siteStack .contextResolver okTransport exJoin (some []) false exReq).2 = true := by
  decide

/-! #### the site list is the source's: generated table, pinned exception list

`Gen.sinkSites` / `Gen.freshContexts` are regenerated from sdk/src on every run
(`translators/c28_http_sites.py`). A request site is classified by how it obtains its transport:
through `.resolver()` / `.resolver_async()` of a Context (then which Context matters: the
`freshContexts` rows are the functions that build a default-settings Context on the spot), or by
constructing an HTTP client itself (`own_transport`). The theorem pins both exception lists: a new
site that builds its own client, or a new function that builds a fresh `Context`, changes the
generated table and breaks this obligation. -/

/-- every non-test function of sdk/src (outside sdk/src/http) that touches an HTTP transport
either asks a Context for its resolver, is the Context's own stack builder, or is the one reviewed
exception `RemoteSigner::sign` -/
def sinkSiteClassified (x : String × String × String) : Bool :=
  C28.Gen.sinkSites.contains (x.1, x.2.1, "resolver") || x.1 == "context.rs" ||
    (x.1 == "settings/signer.rs" && x.2.1 == "sign")

theorem request_sites_pinned :
    C28.Gen.sinkSites.all sinkSiteClassified = true ∧
    -- HTTP clients constructed outside sdk/src/http: the Context's two stack builders and `Site.remoteSigner`
    (C28.Gen.sinkSites.filter (fun x => x.2.2 == "own_transport")).map (fun x => (x.1, x.2.1)) =
      [("context.rs", "build_default_async_resolver"), ("context.rs", "build_default_sync_resolver"),
       ("settings/signer.rs", "sign")] ∧
    -- default-settings Contexts built on the spot; the two that are handed to a request function are
    -- `Site.signerTimestamp` (provider.rs and signer.rs, sync and async bodies folded); `Reader::default`
    -- and `Store::default` are the caller's own "no settings" constructors, utils/test.rs is test support
    C28.Gen.freshContexts =
      [("crypto/time_stamp/provider.rs", "send_time_stamp_request"), ("reader.rs", "default"),
       ("signer.rs", "send_timestamp_request"), ("store.rs", "default"),
       ("utils/test.rs", "create_test_store"), ("utils/test.rs", "create_test_store_v1")] := by
  decide


end C2pa.C26
