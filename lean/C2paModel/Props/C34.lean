import C2paModel.Lemmas.C34Inst
import C2paModel.Lemmas.C34Total
import C2paModel.Lemmas.C34Gen
/-
C34 — property theorems. The statement (properties.jsonl):

  Building a manifest label from its parts (GUID, claim generator, version, reason) and
  parsing it returns the same parts, and a URI built for a manifest, assertion, signature
  or databox yields back the manifest label and the assertion/box label it was built from,
  for every label the SDK can generate.

All theorems quantify over every string (`List Char`, unbounded length, any Unicode
scalar) and every number below 2^64 (`usize`). The hypotheses are explicit decidable
predicates (`WF`, `okSeg`, `wfLabel`) derived from what the code needs; the full,
hypothesis-free statements are kept as `def … : Prop` and refuted with concrete witnesses
where the code falsifies them.

Lemma files: Lemmas/C34.lean (split/join, decimal), C34Uri.lean (URI normal forms),
C34Parts.lean (label shapes), C34Inst.lean (instance suffixes), C34Total.lean (no panic),
C34Gen.lean (labels of new claims, the parse-first direction, lower-casing).
-/
set_option linter.unusedSimpArgs false
namespace C2pa.C34

/-! ## 0. the string and number primitives -/

/-- `join(sep)` after `split(sep)` is the identity, for every string. -/
theorem join_split_id (sep : Char) (s : Str) : joinWith sep (splitOnC sep s) = s :=
  join_split sep s

/-- `split(sep)` after `join(sep)` gives the pieces back, provided there is at least one
piece and no piece contains the separator (`"".split(c)` is `[""]`, never `[]`). -/
theorem split_join_id (sep : Char) (l : List Str) (hne : l ≠ []) (h : ∀ x ∈ l, sep ∉ x) :
    splitOnC sep (joinWith sep l) = l :=
  split_join sep l hne h

example : splitOnC ':' (joinWith ':' ["urn".toList, "c2pa".toList, [], "x".toList])
    = ["urn".toList, "c2pa".toList, [], "x".toList] := by decide

/-- Printing a `usize` and parsing it back. -/
theorem usize_roundtrip (n : Nat) (h : n < usizeLimit) : parseUsize (showNat n) = some n :=
  parseUsize_showNat n h

example : parseUsize "+007".toList = some 7 := by decide
example : parseUsize "18446744073709551615".toList = some 18446744073709551615 := by decide
example : parseUsize "18446744073709551616".toList = none := by decide
example : parseUsize "+".toList = none ∧ parseUsize [] = none ∧ parseUsize "-1".toList = none
    ∧ parseUsize "++1".toList = none ∧ parseUsize "1 ".toList = none := by decide

/-! ## 1. parts → label → parts -/

/-- **parts_roundtrip_partial.** For every well-formed `ManifestParts` value, `Display` followed by
`manifest_label_to_parts` returns exactly the same parts (and does not panic).
`WF`: GUID and vendor free of `:` and `/`; a 2.x vendor is non-empty and passes the code's
own three vendor tests; a reason only with a version; numbers are `usize`; 1.x labels carry
neither version nor reason. -/
theorem parts_roundtrip_partial (p : Parts) (h : WF p = true) :
    manifestLabelToParts (display p) = some (some p) := by
  obtain ⟨g, v1, cgi, ver, rsn⟩ := p
  cases v1 <;> cases cgi <;> cases ver <;> cases rsn <;>
    simp [WF, clean_iff, optLt] at h
  · exact rt_v2_nn h
  · exact rt_v2_nvn h.1 h.2
  · exact rt_v2_nvr h.1 h.2.1 h.2.2
  · exact rt_v2_sn h.1.1 h.1.2 h.2.1 h.2.2
  · exact rt_v2_svn h.1.1 h.1.2 h.2.1.1 h.2.1.2 h.2.2
  · exact rt_v2_svr h.1.1 h.1.2 h.2.1.1.1 h.2.1.1.2 h.2.1.2 h.2.2
  · exact rt_v1_none h
  · exact rt_v1_some h.1 h.2

/-- `WF` is met by the labels the SDK writes (`Claim::new`, `new_with_user_guid`, the
conflict relabelling of the store): lower-case hyphenated UUID, lower-cased vendor. -/
example : WF ⟨"3fad1ead-8ed5-44d0-873b-ea5f58adea82".toList, false, some "acme".toList, some 2, some 1⟩ = true := by
  decide
example : WF ⟨"3fad1ead-8ed5-44d0-873b-ea5f58adea82".toList, false, none, some 18446744073709551615, none⟩ = true := by
  decide
example : WF ⟨"3fad1ead-8ed5-44d0-873b-ea5f58adea82".toList, false, none, none, none⟩ = true := by decide
example : WF ⟨"3fad1ead-8ed5-44d0-873b-ea5f58adea82".toList, true, some "claim_capture".toList, none, none⟩ = true := by
  decide
example : WF ⟨"F9168C5E-CEB2-4FAA-B6BF-329BF39FA1E4".toList, true, none, none, none⟩ = true := by decide
/-- since the repair of `manifest_label_to_parts`, a 1.x vendor may be `urn` itself -/
example : WF ⟨"g".toList, true, some "urn".toList, none, none⟩ = true := by decide

/-- characters of a hyphenated UUID -/
def uuidChar (c : Char) : Bool :=
  ('0' ≤ c && c ≤ '9') || ('a' ≤ c && c ≤ 'f') || ('A' ≤ c && c ≤ 'F') || c == '-'

/-- Every string made of UUID characters is a legal GUID for `WF` and a legal URI segment. -/
theorem uuid_clean (g : Str) (h : ∀ c ∈ g, uuidChar c = true) : clean g = true ∧ okSeg g := by
  have key : ∀ c, uuidChar c = true → c ≠ ':' ∧ c ≠ '/' ∧ c ≠ '=' := by
    intro c hc
    refine ⟨?_, ?_, ?_⟩ <;> (rintro rfl; revert hc; decide)
  refine ⟨clean_iff.mpr ⟨fun hm => (key _ (h _ hm)).1 rfl, fun hm => (key _ (h _ hm)).2.1 rfl⟩,
    fun hm => (key _ (h _ hm)).2.1 rfl, fun hm => (key _ (h _ hm)).2.2 rfl⟩

/-- Every vendor of 1..=32 printable non-space ASCII characters without `:` and `/`
is accepted: together with `uuid_clean` this gives `WF` for all generated labels. -/
theorem wf_of_uuid_vendor (g v : Str) (ver rsn : Option Nat)
    (hg : ∀ c ∈ g, uuidChar c = true)
    (hv : ∀ c ∈ v, visible c = true ∧ c ≠ ':' ∧ c ≠ '/') (hne : v ≠ []) (hlen : v.length ≤ 32)
    (hr : rsn.isSome → ver.isSome) (hvl : optLt ver = true) (hrl : optLt rsn = true) :
    WF ⟨g, false, some v, ver, rsn⟩ = true := by
  have h1 := (uuid_clean g hg).1
  have h2 : clean v = true :=
    clean_iff.mpr ⟨fun hm => (hv _ hm).2.1 rfl, fun hm => (hv _ hm).2.2 rfl⟩
  have h3 := vendorBad_visible hne hlen (fun c hc => (hv c hc).1)
  have h4 : (rsn.isNone || ver.isSome) = true := by
    cases rsn <;> cases ver <;> simp_all
  have h5 : v.isEmpty = false := by cases v <;> simp_all
  simp [WF, h1, h2, h3, h4, h5, hvl, hrl]

/-- The statement without the well-formedness hypothesis. -/
def PartsRoundtripFull : Prop :=
  ∀ p : Parts, manifestLabelToParts (display p) = some (some p)

/-- Witness 1: a "GUID" that contains `/c2pa/` is read as a JUMBF path. -/
theorem parts_witness_path :
    manifestLabelToParts (display ⟨"x/c2pa/urn:c2pa:y".toList, false, none, none, none⟩)
      = some (some ⟨"y".toList, false, none, none, none⟩) := by decide

/-- Witness 2: a 1.x label cannot carry a version; `Display` drops it. -/
theorem parts_witness_v1_version :
    display ⟨"g".toList, true, none, some 2, some 1⟩ = "urn:uuid:g".toList
    ∧ manifestLabelToParts "urn:uuid:g".toList = some (some ⟨"g".toList, true, none, none, none⟩) := by
  decide

/-- The code falsifies the hypothesis-free statement. -/
theorem parts_roundtrip_full_false : ¬ PartsRoundtripFull := by
  intro h
  have h1 := h ⟨"x/c2pa/urn:c2pa:y".toList, false, none, none, none⟩
  rw [parts_witness_path] at h1
  exact absurd h1 (by decide)

/-- The parser sees a URI only through the manifest label it extracts. -/
theorem parts_of_uri {u L : Str} (h1 : manifestLabelFromUri u = some (some L))
    (h2 : manifestLabelFromUri L = some none) :
    manifestLabelToParts u = manifestLabelToParts L := by
  simp [manifestLabelToParts, h1, h2]

/-- `=`-free well-formed parts also round-trip through every URI builder. -/
def WFU (p : Parts) : Bool :=
  WF p && !p.guid.contains '=' && (match p.cgi with | none => true | some v => !v.contains '=')

theorem display_okSeg (p : Parts) (h : WFU p = true) : okSeg (display p) := by
  obtain ⟨g, v1, cgi, ver, rsn⟩ := p
  have e1 := fun n => not_mem_showNat (c := '/') (by decide) n
  have e2 := fun n => not_mem_showNat (c := '=') (by decide) n
  cases v1 <;> cases cgi <;> cases ver <;> cases rsn <;>
    simp [WFU, WF, clean_iff, optLt] at h <;>
    simp [okSeg, display, List.mem_append, e1, e2] <;> simp_all

/-- **parts round trip through the URIs.** -/
theorem parts_roundtrip_uri_partial (p : Parts) (h : WFU p = true) (tail : List Str)
    (ht : ∀ x ∈ tail, okSeg x) :
    manifestLabelToParts (absUri (display p :: tail)) = some (some p) := by
  have hok := display_okSeg p h
  have hwf : WF p = true := by simp [WFU] at h; exact h.1.1
  rw [parts_of_uri (mlabel_abs hok ht) (mlabel_noSlash hok.1)]
  exact parts_roundtrip_partial p hwf

/-! ## 1b. label → parts → label → parts (labels read from files; conflict relabelling)

`Store` relabels a conflicting ingredient manifest with
`manifest_label_to_parts(label)? ; version := …; reason := 1; to_string()` — the label comes
from a file and was not written by `Display`. -/

/-- The parse-first statement without hypothesis. -/
def PartsDisplayIdempotentFull : Prop :=
  ∀ (s : Str) (p : Parts), manifestLabelToParts s = some (some p) →
    manifestLabelToParts (display p) = some (some p)

/-- **parts_display_idempotent_partial.** Whatever `manifest_label_to_parts` returns for a bare
label (no `/`) or for a JUMBF URI that names a manifest is well-formed, so printing it and
parsing it again gives the same parts — although the printed label may differ from the input
(`+007` prints as `7`, a third `_` piece and empty trailing fields are dropped). -/
theorem parts_display_idempotent_partial (s : Str) (p : Parts)
    (hs : '/' ∉ s ∨ ∃ L, manifestLabelFromUri s = some (some L))
    (h : manifestLabelToParts s = some (some p)) :
    WF p = true ∧ manifestLabelToParts (display p) = some (some p) :=
  ⟨parse_wf hs h, parts_roundtrip_partial p (parse_wf hs h)⟩

/-- the hypothesis is met by labels `Display` never writes, and `Display` normalises them -/
example : manifestLabelToParts "urn:c2pa:g:v:+007_2_9".toList
      = some (some ⟨"g".toList, false, some "v".toList, some 7, some 2⟩)
    ∧ display ⟨"g".toList, false, some "v".toList, some 7, some 2⟩ = "urn:c2pa:g:v:7_2".toList
    ∧ manifestLabelToParts "urn:c2pa:g::".toList = some (some ⟨"g".toList, false, none, none, none⟩)
    ∧ manifestLabelToParts "urn:uuid:g:any:thing".toList = some (some ⟨"g".toList, true, none, none, none⟩)
    ∧ manifestLabelToParts "self#jumbf=/c2pa/urn:c2pa:g:v:3/c2pa.signature".toList
      = some (some ⟨"g".toList, false, some "v".toList, some 3, none⟩) := by decide

/-- Witness: a string with `/` that is not a manifest URI only because of a trailing `=`;
the trailing piece is dropped by `Display`, and what is printed *is* a manifest URI. -/
theorem parts_display_idempotent_witness :
    manifestLabelToParts "urn:uuid:a/c2pa/b:t=q".toList
      = some (some ⟨"a/c2pa/b".toList, true, none, none, none⟩)
    ∧ manifestLabelToParts (display ⟨"a/c2pa/b".toList, true, none, none, none⟩) = some none := by
  decide

theorem parts_display_idempotent_false : ¬ PartsDisplayIdempotentFull := by
  intro h
  have h1 := h _ _ parts_display_idempotent_witness.1
  rw [parts_display_idempotent_witness.2] at h1
  exact absurd h1 (by decide)

theorem wf_relabel {p : Parts} (h : WF p = true) (hv2 : p.isV1 = false) {nv : Nat}
    (hn : nv < usizeLimit) : WF (relabelParts p nv) = true := by
  obtain ⟨g, v1, cgi, ver, rsn⟩ := p
  simp only at hv2
  subst hv2
  have h1 : (1 : Nat) < usizeLimit := by decide
  cases cgi <;> simp [WF, relabelParts, optLt, hn, h1] at h ⊢ <;> simp [h]

/-- **relabel_roundtrip_partial.** The relabelling step on a 2.x label read from a file (bare,
or a manifest URI): it succeeds, and the new label parses to the old parts with the new
version and reason 1. -/
theorem relabel_roundtrip_partial (s : Str) (p : Parts) (nv : Nat)
    (hs : '/' ∉ s ∨ ∃ L, manifestLabelFromUri s = some (some L))
    (h : manifestLabelToParts s = some (some p)) (hv2 : p.isV1 = false) (hn : nv < usizeLimit) :
    conflictRelabel s nv = some (some (display (relabelParts p nv)))
    ∧ manifestLabelToParts (display (relabelParts p nv)) = some (some (relabelParts p nv)) := by
  refine ⟨by simp [conflictRelabel, h], ?_⟩
  exact parts_roundtrip_partial _ (wf_relabel (parse_wf hs h) hv2 hn)

example : conflictRelabel "urn:c2pa:3fad1ead-8ed5-44d0-873b-ea5f58adea82:acme".toList 2
    = some (some "urn:c2pa:3fad1ead-8ed5-44d0-873b-ea5f58adea82:acme:2_1".toList) := by decide

/-- The new label differs from every label whose version is not the new version (the store
takes the new version above all versions in use). -/
theorem relabel_fresh (s : Str) (p : Parts) (nv : Nat)
    (hs : '/' ∉ s ∨ ∃ L, manifestLabelFromUri s = some (some L))
    (h : manifestLabelToParts s = some (some p)) (hv2 : p.isV1 = false) (hn : nv < usizeLimit)
    (k : Str) (q : Parts) (hk : manifestLabelToParts k = some (some q)) (hq : q.version ≠ some nv) :
    k ≠ display (relabelParts p nv) := by
  rintro rfl
  rw [(relabel_roundtrip_partial s p nv hs h hv2 hn).2] at hk
  injection hk with hk
  injection hk with hk
  subst hk
  exact hq rfl

/-- The statement "the relabelled label is a new label" for all labels the parser accepts. -/
def RelabelChangesLabelFull : Prop :=
  ∀ (s : Str) (p : Parts) (nv : Nat), manifestLabelToParts s = some (some p) →
    conflictRelabel s nv ≠ some (some (display p))

/-- A 1.x label cannot carry version and reason: `Display` drops them, the "new" label is
the old one. -/
theorem relabel_v1_unchanged (p : Parts) (nv : Nat) (h : p.isV1 = true) :
    display (relabelParts p nv) = display p := by
  simp [display, relabelParts, h]

theorem relabel_v1_witness :
    manifestLabelToParts "urn:uuid:g".toList = some (some ⟨"g".toList, true, none, none, none⟩)
    ∧ conflictRelabel "urn:uuid:g".toList 2 = some (some "urn:uuid:g".toList) := by decide

theorem relabel_changes_label_full_false : ¬ RelabelChangesLabelFull := by
  intro h
  exact h _ _ 2 relabel_v1_witness.1 (by decide)

/-! ## 1c. labels of new claims (`Claim::new`, `Builder::to_claim`) -/

/-- `Claim::new` writes exactly what `Display` writes for (GUID, lower-cased vendor). -/
theorem newLabel_is_display (g : Str) (vendor : Option Str) (v1 : Bool) :
    newLabel g vendor v1 = display ⟨g, v1, vendor.map lowerAscii, none, none⟩ :=
  newLabel_eq_display g vendor v1

/-- The round trip for `Claim::new` without a hypothesis on the vendor. -/
def NewLabelRoundtripFull : Prop :=
  ∀ (g : Str) (vendor : Option Str) (v1 : Bool), (∀ c ∈ g, uuidChar c = true) →
    manifestLabelToParts (newLabel g vendor v1) = some (some ⟨g, v1, vendor.map lowerAscii, none, none⟩)

/-- Witnesses: `Claim::new` only lower-cases the vendor. A vendor with `:`, with a space, or
longer than 32 characters gives a 2.x label the parser rejects; with `/` a label that is cut
when it is placed into a URI; with `:` a 1.x label the parser rejects; an empty vendor is
read back as "no vendor". -/
theorem newLabel_witness :
    manifestLabelToParts (newLabel "3fad1ead-8ed5-44d0-873b-ea5f58adea82".toList (some "a:b".toList) false) = some none
    ∧ manifestLabelToParts (newLabel "3fad1ead-8ed5-44d0-873b-ea5f58adea82".toList (some "My Vendor".toList) false) = some none
    ∧ manifestLabelToParts (newLabel "3fad1ead-8ed5-44d0-873b-ea5f58adea82".toList
        (some "abcdefghijklmnopqrstuvwxyz0123456".toList) false) = some none
    ∧ manifestLabelFromUri (toManifestUri (newLabel "3fad1ead-8ed5-44d0-873b-ea5f58adea82".toList (some "a/b".toList) false))
      = some (some "urn:c2pa:3fad1ead-8ed5-44d0-873b-ea5f58adea82:a".toList)
    ∧ manifestLabelToParts (newLabel "3fad1ead-8ed5-44d0-873b-ea5f58adea82".toList (some "a:b".toList) true) = some none
    ∧ manifestLabelToParts (newLabel "3fad1ead-8ed5-44d0-873b-ea5f58adea82".toList (some []) false)
      = some (some ⟨"3fad1ead-8ed5-44d0-873b-ea5f58adea82".toList, false, none, none, none⟩) := by
  decide

theorem newLabel_roundtrip_full_false : ¬ NewLabelRoundtripFull := by
  intro h
  have h1 := h "3fad1ead-8ed5-44d0-873b-ea5f58adea82".toList (some "a:b".toList) false (by decide)
  rw [newLabel_witness.1] at h1
  exact absurd h1 (by decide)

/-- **builder_label_roundtrip.** Every label the SDK generates through its public entry
(`Builder::to_claim`, which refuses a vendor failing `is_valid_vendor`; the GUID is a fresh
UUID): it is what `Display` prints for (GUID, lower-cased vendor); these parts are well-formed
and `=`-free; the label parses back to them; and it is a legal URI segment, so every theorem of
§1–§4 applies to it. No hypothesis on the vendor beyond the Builder having accepted it. -/
theorem builder_label_roundtrip (g : Str) (vendor : Option Str) (v1 : Bool) (L : Str)
    (hg : ∀ c ∈ g, uuidChar c = true) (h : builderLabel g vendor v1 = some L) :
    L = display ⟨g, v1, vendor.map lowerAscii, none, none⟩
    ∧ WFU ⟨g, v1, vendor.map lowerAscii, none, none⟩ = true
    ∧ manifestLabelToParts L = some (some ⟨g, v1, vendor.map lowerAscii, none, none⟩)
    ∧ okSeg L := by
  have hgc := uuid_clean g hg
  have hL : L = display ⟨g, v1, vendor.map lowerAscii, none, none⟩ := by
    cases vendor with
    | none => simp [builderLabel] at h; rw [← h]; exact newLabel_eq_display g none v1
    | some v =>
      simp only [builderLabel] at h
      split at h
      · injection h with h; rw [← h]; exact newLabel_eq_display g (some v) v1
      · exact absurd h (by simp)
  have hW : WFU ⟨g, v1, vendor.map lowerAscii, none, none⟩ = true := by
    cases vendor with
    | none => cases v1 <;> simp [WFU, WF, hgc.1, hgc.2.2, optLt]
    | some v =>
      have hok : vendorOk v = true := by
        simp only [builderLabel] at h
        split at h
        · assumption
        · exact absurd h (by simp)
      obtain ⟨l1, l2, l3, l4, l5, l6⟩ := vendorOk_lower hok
      have hcl : clean (lowerAscii v) = true := clean_iff.mpr ⟨l4, l5⟩
      have hvb := vendorBad_visible l1 l2 l3
      have hne : (lowerAscii v).isEmpty = false := by
        cases hh : lowerAscii v with
        | nil => exact absurd hh l1
        | cons _ _ => rfl
      cases v1 <;> simp [WFU, WF, hgc.1, hgc.2.2, optLt, hcl, hvb, hne, l6]
  refine ⟨hL, hW, ?_, ?_⟩
  · rw [hL]
    exact parts_roundtrip_partial _ (by simp [WFU] at hW; exact hW.1.1)
  · rw [hL]
    exact display_okSeg _ hW

/-- the hypotheses are met: a mixed-case vendor with punctuation, 1.x and 2.x, and no vendor -/
example : builderLabel "3fad1ead-8ed5-44d0-873b-ea5f58adea82".toList (some "Camera+App".toList) false
    = some "urn:c2pa:3fad1ead-8ed5-44d0-873b-ea5f58adea82:camera+app".toList := by decide
example : builderLabel "3fad1ead-8ed5-44d0-873b-ea5f58adea82".toList (some "URN".toList) true
    = some "urn:urn:uuid:3fad1ead-8ed5-44d0-873b-ea5f58adea82".toList := by decide
example : builderLabel "3fad1ead-8ed5-44d0-873b-ea5f58adea82".toList none true
    = some "urn:uuid:3fad1ead-8ed5-44d0-873b-ea5f58adea82".toList := by decide
/-- …and the vendors of `newLabel_witness` are refused -/
example : builderLabel [] (some "a:b".toList) false = none
    ∧ builderLabel [] (some "My Vendor".toList) false = none
    ∧ builderLabel [] (some "abcdefghijklmnopqrstuvwxyz0123456".toList) true = none
    ∧ builderLabel [] (some "a/b".toList) false = none
    ∧ builderLabel [] (some "a=b".toList) false = none
    ∧ builderLabel [] (some "caf\u00e9".toList) false = none
    ∧ builderLabel [] (some []) false = none := by decide

/-- The Builder refuses exactly the vendors failing `is_valid_vendor`: empty, longer than 32
bytes, or containing a character that is not printable ASCII, a space, `:`, `/` or `=`. -/
theorem builder_label_refused_iff (g v : Str) (v1 : Bool) :
    builderLabel g (some v) v1 = none ↔
      (v = [] ∨ 32 < utf8Len v ∨ ∃ c ∈ v, visible c = false ∨ c = ':' ∨ c = '/' ∨ c = '=') := by
  have hiff := vendorOk_iff (v := v)
  constructor
  · intro h
    have hno : vendorOk v ≠ true := by
      intro hok
      simp [builderLabel, hok] at h
    by_cases h1 : v = []
    · exact Or.inl h1
    · by_cases h2 : 32 < utf8Len v
      · exact Or.inr (Or.inl h2)
      · right; right
        apply Classical.byContradiction
        intro hne
        apply hno
        apply hiff.mpr
        refine ⟨h1, by omega, fun c hc => ?_⟩
        refine ⟨?_, ?_, ?_, ?_⟩
        · cases hvv : visible c with
          | true => rfl
          | false => exact absurd ⟨c, hc, Or.inl hvv⟩ hne
        · intro e; exact hne ⟨c, hc, Or.inr (Or.inl e)⟩
        · intro e; exact hne ⟨c, hc, Or.inr (Or.inr (Or.inl e))⟩
        · intro e; exact hne ⟨c, hc, Or.inr (Or.inr (Or.inr e))⟩
  · intro h
    have hno : vendorOk v = false := by
      cases hok : vendorOk v with
      | false => rfl
      | true =>
        obtain ⟨h1, h2, h3⟩ := hiff.mp hok
        rcases h with h | h | ⟨c, hc, h⟩
        · exact absurd h h1
        · omega
        · have := h3 c hc
          rcases h with h | h | h | h
          · rw [this.1] at h; exact absurd h (by simp)
          · exact absurd h this.2.1
          · exact absurd h this.2.2.1
          · exact absurd h this.2.2.2
    simp [builderLabel, hno]

/-! ## 2. URI builders → readers -/

/-- The hypothesis-free statement for URIs. -/
def UriRoundtripFull : Prop :=
  ∀ m a : Str, manifestLabelFromUri (toAssertionUri m a) = some (some m)
    ∧ assertionLabelFromUri (toAssertionUri m a) = some (some a)

/-- **uri_roundtrips.** For a manifest label `m` and an assertion / box label `a` without
`/` and `=`: every builder's URI gives back `m`; the assertion and databox URIs give back
`a`; `box_name_from_uri` gives the last segment. No reader panics. -/
theorem uri_roundtrips_partial (m a : Str) (hm : okSeg m) (ha : okSeg a) :
    manifestLabelFromUri (toManifestUri m) = some (some m)
    ∧ manifestLabelFromUri (toSignatureUri m) = some (some m)
    ∧ manifestLabelFromUri (toAssertionUri m a) = some (some m)
    ∧ manifestLabelFromUri (toDataboxUri m a) = some (some m)
    ∧ manifestLabelFromUri (toCredentialUri m a) = some (some m)
    ∧ assertionLabelFromUri (toAssertionUri m a) = some (some a)
    ∧ assertionLabelFromUri (toDataboxUri m a) = some (some a)
    ∧ assertionLabelFromUri (toManifestUri m) = some none
    ∧ boxNameFromUri (toManifestUri m) = some (some m)
    ∧ boxNameFromUri (toSignatureUri m) = some (some cSignature)
    ∧ boxNameFromUri (toAssertionUri m a) = some (some a)
    ∧ boxNameFromUri (toDataboxUri m a) = some (some a) := by
  have n := okSegs_nil
  have c1 := okSegs_cons ha n
  refine ⟨?_, ?_, ?_, ?_, ?_, ?_, ?_, ?_, ?_, ?_, ?_, ?_⟩
  · rw [toManifestUri_eq]; exact mlabel_abs hm n
  · rw [toSignatureUri_eq]; exact mlabel_abs hm (okSegs_cons okSeg_signature n)
  · rw [toAssertionUri_eq]; exact mlabel_abs hm (okSegs_cons okSeg_assertions c1)
  · rw [toDataboxUri_eq]; exact mlabel_abs hm (okSegs_cons okSeg_databoxes c1)
  · rw [toCredentialUri_eq]; exact mlabel_abs hm (okSegs_cons okSeg_credentials c1)
  · rw [toAssertionUri_eq]; exact alabel_abs hm okSeg_assertions ha n (Or.inl rfl)
  · rw [toDataboxUri_eq]; exact alabel_abs hm okSeg_databoxes ha n (Or.inr rfl)
  · rw [toManifestUri_eq]
    obtain ⟨hn, hs⟩ := absUri_norm (okSegs_cons hm n)
    simp [assertionLabelFromUri, hn, hs, lenGtAndEq, idx]
    decide
  · rw [toManifestUri_eq, box_abs (okSegs_cons hm n)]; simp
  · rw [toSignatureUri_eq, box_abs (okSegs_cons hm (okSegs_cons okSeg_signature n))]; simp
  · rw [toAssertionUri_eq, box_abs (okSegs_cons hm (okSegs_cons okSeg_assertions c1))]; simp
  · rw [toDataboxUri_eq, box_abs (okSegs_cons hm (okSegs_cons okSeg_databoxes c1))]; simp

example : okSeg "urn:c2pa:3fad1ead-8ed5-44d0-873b-ea5f58adea82:acme:2_1".toList := by decide
example : okSeg "c2pa.thumbnail.ingredient__2.jpeg".toList := by decide
example : okSeg "stds.schema-org.CreativeWork".toList := by decide

/-- Witness: a vendor containing `=` (which `manifest_label_to_parts` accepts) makes every
reader cut the URI at that `=`. -/
theorem uri_witness_eq :
    manifestLabelFromUri (toAssertionUri "urn:c2pa:g:my=vendor".toList "c2pa.actions".toList)
      = some (some "urn:c2pa:g:my".toList)
    ∧ manifestLabelToParts "urn:c2pa:g:my=vendor".toList
      = some (some ⟨"g".toList, false, some "my=vendor".toList, none, none⟩) := by decide

theorem uri_roundtrip_full_false : ¬ UriRoundtripFull := by
  intro h
  have h1 := (h "urn:c2pa:g:my=vendor".toList "c2pa.actions".toList).1
  rw [uri_witness_eq.1] at h1
  exact absurd h1 (by decide)

/-! ## 3. relative ↔ absolute -/

/-- The hypothesis-free statement. -/
def RelAbsFull : Prop :=
  ∀ m a : Str, (toRelativeUri (toAssertionUri m a)).bind (toAbsoluteUri m) = some (toAssertionUri m a)

/-- Witness: an assertion label containing `=` is cut at the `=` on the way. -/
theorem relabs_witness :
    (toRelativeUri (toAssertionUri "m".toList "x=y".toList)).bind (toAbsoluteUri "m".toList)
      = some (toAssertionUri "m".toList "x".toList) := by decide

theorem relative_absolute_full_false : ¬ RelAbsFull := by
  intro h
  have h1 := h "m".toList "x=y".toList
  rw [relabs_witness] at h1
  exact absurd h1 (by decide)

/-- **relative_absolute_inverse.** For `m`, `a` without `/`, `=` and a store segment
`box ≠ "c2pa"` (assertions, databoxes, credentials …):
`to_relative_uri` of the absolute URI is `self#jumbf=<box>/<a>`; `to_absolute_uri m` of that
is the absolute URI again; and each is a fixed point of its own direction. -/
theorem relative_absolute_inverse_partial (m box a : Str) (hm : okSeg m) (hb : okSeg box) (ha : okSeg a)
    (hne : box ≠ cManifestStore) :
    toRelativeUri (absUri [m, box, a]) = some (relUri [box, a])
    ∧ toAbsoluteUri m (relUri [box, a]) = some (absUri [m, box, a])
    ∧ toRelativeUri (relUri [box, a]) = some (relUri [box, a])
    ∧ toAbsoluteUri m (absUri [m, box, a]) = some (absUri [m, box, a]) :=
  ⟨rel_abs hm hb ha okSegs_nil, abs_rel hb ha hne, rel_rel hb ha hne,
    abs_abs hm (okSegs_cons hb (okSegs_cons ha okSegs_nil))⟩

/-- The same for the concrete builders. -/
theorem relative_absolute_assertion (m a : Str) (hm : okSeg m) (ha : okSeg a) :
    (toRelativeUri (toAssertionUri m a)).bind (toAbsoluteUri m) = some (toAssertionUri m a)
    ∧ (toRelativeUri (toDataboxUri m a)).bind (toAbsoluteUri m) = some (toDataboxUri m a)
    ∧ (toRelativeUri (toCredentialUri m a)).bind (toAbsoluteUri m) = some (toCredentialUri m a)
    ∧ (toRelativeUri (toAssertionUri m a)).bind assertionLabelFromUri = some (some a)
    ∧ (toRelativeUri (toAssertionUri m a)).bind manifestLabelFromUri = some none := by
  refine ⟨?_, ?_, ?_, ?_, ?_⟩
  · rw [toAssertionUri_eq, rel_abs hm okSeg_assertions ha okSegs_nil]
    exact abs_rel okSeg_assertions ha (by decide)
  · rw [toDataboxUri_eq, rel_abs hm okSeg_databoxes ha okSegs_nil]
    exact abs_rel okSeg_databoxes ha (by decide)
  · rw [toCredentialUri_eq, rel_abs hm okSeg_credentials ha okSegs_nil]
    exact abs_rel okSeg_credentials ha (by decide)
  · rw [toAssertionUri_eq, rel_abs hm okSeg_assertions ha okSegs_nil]
    exact alabel_rel ha
  · rw [toAssertionUri_eq, rel_abs hm okSeg_assertions ha okSegs_nil]
    exact mlabel_rel okSeg_assertions ha (by decide)

/-- Manifest and signature URIs have fewer than five segments: `to_relative_uri` leaves
them as they are (they stay absolute), and `to_absolute_uri` accepts that. -/
theorem relative_short (m : Str) (hm : okSeg m) :
    toRelativeUri (toManifestUri m) = some (toManifestUri m)
    ∧ toRelativeUri (toSignatureUri m) = some (toSignatureUri m)
    ∧ toAbsoluteUri m (toSignatureUri m) = some (toSignatureUri m) := by
  refine ⟨?_, ?_, ?_⟩
  · rw [toManifestUri_eq]; exact rel_short hm
  · rw [toSignatureUri_eq]; exact rel_short2 hm okSeg_signature
  · rw [toSignatureUri_eq]; exact abs_abs hm (okSegs_cons okSeg_signature okSegs_nil)

/-- Observation (not required by the statement): `assertion_label_from_uri` does not
understand a *relative* databox URI, although it understands a relative assertion URI. -/
theorem relative_databox_label_none (a : Str) (ha : okSeg a) :
    assertionLabelFromUri (relUri [cDataboxes, a]) = some none :=
  alabel_rel_databox ha

/-! ## 4. instance suffixes -/

/-- The hypothesis-free statement for instance suffixes. -/
def InstanceRoundtripFull : Prop :=
  ∀ (l : Str) (n : Nat), n < usizeLimit →
    (labelWithInstance l n).bind labelAndInstance = some (l, n)

/-- **instance_roundtrip.** For every well-formed assertion label `l` (plain: no `/`, `=`,
`__`, no trailing `_`, not starting with `c2pa.thumbnail.ingredient`; or an ingredient
thumbnail label `c2pa.thumbnail.ingredient[.fmt]`), every `usize` `n` and every manifest label
`m`: `assertion_label_from_link` applied to the assertion URI (absolute, relative, or the
bare label) of `label_with_instance(l, n)` returns `(l, n)`; and
`assertion_label_from_uri` returns the instanced label itself. -/
theorem instance_roundtrip_partial (m l : Str) (n : Nat) (hm : okSeg m) (hl : wfLabel l = true)
    (hn : n < usizeLimit) :
    ∃ li, labelWithInstance l n = some li
      ∧ assertionLabelFromLink (toAssertionUri m li) = some (l, n)
      ∧ assertionLabelFromLink (relUri [cAssertions, li]) = some (l, n)
      ∧ assertionLabelFromLink li = some (l, n)
      ∧ assertionLabelFromUri (toAssertionUri m li) = some (some li) := by
  obtain ⟨li, h1, hok, h2⟩ := instance_core hl hn
  refine ⟨li, h1, ?_, ?_, ?_, ?_⟩
  · rw [toAssertionUri_eq, link_abs hm okSeg_assertions hok]; exact h2
  · rw [link_rel okSeg_assertions hok (by decide)]; exact h2
  · rw [link_bare hok]; exact h2
  · exact (uri_roundtrips_partial m li hm hok).2.2.2.2.2.1

example : wfLabel "c2pa.ingredient.v3".toList = true := by decide
example : wfLabel "stds.schema-org.CreativeWork".toList = true := by decide
example : wfLabel "c2pa.thumbnail.claim.jpeg".toList = true := by decide
example : wfLabel "c2pa.thumbnail.ingredient".toList = true := by decide
example : wfLabel "c2pa.thumbnail.ingredient.jpeg".toList = true := by decide
example : labelWithInstance "c2pa.thumbnail.ingredient.jpeg".toList 2
    = some "c2pa.thumbnail.ingredient__2.jpeg".toList := by decide
example : labelWithInstance "c2pa.ingredient.v3".toList 18446744073709551615
    = some "c2pa.ingredient.v3__18446744073709551615".toList := by decide

/-- Witness: a label ending in `_` loses its instance (`a_` + `__5` splits as `a`, `_5`). -/
theorem instance_witness :
    (labelWithInstance "a_".toList 5).bind labelAndInstance = some ("a".toList, 0) := by decide

theorem instance_roundtrip_full_false : ¬ InstanceRoundtripFull := by
  intro h
  have h1 := h "a_".toList 5 (by decide)
  rw [instance_witness] at h1
  exact absurd h1 (by decide)

/-- Witness (review): an ingredient-thumbnail label whose format suffix is not lower case.
`label_with_instance(l, 0)` returns `l` unchanged, `assertion_label_from_link` lower-cases. -/
theorem instance_case_witness :
    (labelWithInstance (cIngThumb ++ ".JPEG".toList) 0).bind labelAndInstance
      ≠ some (cIngThumb ++ ".JPEG".toList, 0) := by decide

/-- **instance_roundtrip_normalised.** For an ingredient-thumbnail label with a format suffix of
*any* case (no `_`, `.`, `/`, `=`) the pair read back is the label with the suffix lower-cased
— the form `Assertion::label()` writes into the assertion box — and the same instance. -/
theorem instance_roundtrip_normalised (f : Str) (n : Nat) (hf : fmtAny f = true) (hn : n < usizeLimit) :
    (labelWithInstance (cIngThumb ++ '.' :: f) n).bind labelAndInstance
      = some (cIngThumb ++ '.' :: lowerAscii f, n) := by
  by_cases h0 : n = 0
  · subst h0
    simp [lwi_plain_zero, ing_any_zero hf]
  · simp [lwi_ing_any_pos hf h0, ing_fmt_pos (fmtOk_lower hf) hn]

/-- …so the exact round trip holds **iff** the suffix is lower case: the `fmtOk` hypothesis of
`instance_roundtrip_partial` is necessary, not only sufficient. -/
theorem instance_roundtrip_iff_lower (f : Str) (n : Nat) (hf : fmtAny f = true) (hn : n < usizeLimit) :
    (labelWithInstance (cIngThumb ++ '.' :: f) n).bind labelAndInstance
      = some (cIngThumb ++ '.' :: f, n) ↔ lowerAscii f = f := by
  rw [instance_roundtrip_normalised f n hf hn]
  constructor
  · intro h
    injection h with h
    injection h with h1 _
    exact (List.cons.inj (List.append_cancel_left h1)).2
  · intro h; rw [h]

example : fmtAny "JPEG".toList = true ∧ lowerAscii "JPEG".toList = "jpeg".toList := by decide

/-! ## 5. no panic -/

/-- **no_panic.** None of the modelled functions indexes or slices out of range, for any
input string whatsoever (`none` in the `P` layer is a Rust panic). -/
theorem no_panic (s m : Str) (n : Nat) :
    (toNormalizedUri s).isSome ∧ (toAbsoluteUri m s).isSome ∧ (toRelativeUri s).isSome
    ∧ (manifestLabelFromUri s).isSome ∧ (assertionLabelFromUri s).isSome
    ∧ (boxNameFromUri s).isSome ∧ (manifestLabelToParts s).isSome
    ∧ (labelWithInstance s n).isSome ∧ (assertionLabelFromLink s).isSome := by
  obtain ⟨_, h1⟩ := norm_total s
  obtain ⟨_, h2⟩ := abs_total m s
  obtain ⟨_, h3⟩ := rel_total s
  obtain ⟨_, h4⟩ := mlabel_total s
  obtain ⟨_, h5⟩ := alabel_total s
  obtain ⟨_, h6⟩ := box_total s
  obtain ⟨_, h7⟩ := parts_total s
  obtain ⟨_, h8⟩ := lwi_total s n
  obtain ⟨_, h9⟩ := link_total s
  simp [h1, h2, h3, h4, h5, h6, h7, h8, h9]

/-- …including the helpers they call. -/
theorem no_panic_helpers (s : Str) (parts : List Str) :
    (thumbnailImageType s).isSome ∧ (thumbnailInstance s).isSome ∧ (labelAndInstance s).isSome
    ∧ (parseVendor parts).isSome ∧ (parseVersion parts).isSome := by
  obtain ⟨_, h1⟩ := imageType_total s
  obtain ⟨_, h2⟩ := instance_total s
  obtain ⟨_, h3⟩ := labelAndInstance_total s
  obtain ⟨_, h4⟩ := parseVendor_total parts
  obtain ⟨_, h5⟩ := parseVersion_total parts
  simp [h1, h2, h3, h4, h5]

/-- the guards are tight where it matters: the bare `c2pa.assertions` segment (the input of
the regression test in labels.rs) takes the `None` branch, not the index. -/
example : assertionLabelFromUri "c2pa.assertions".toList = some none
    ∧ assertionLabelFromUri "self#jumbf=c2pa.assertions".toList = some none
    ∧ assertionLabelFromUri [] = some none := by decide

end C2pa.C34
