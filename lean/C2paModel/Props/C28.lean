import C2paModel.Model.C28
import C2paModel.Gen.C28HttpSites
/-
C28 — no network access unless the configuration enables it.

Every theorem is about the decision functions of `Model/C28.lean` for *all* settings, transport
behaviours, signers, assets and (unbounded) lists of ingredients and claims.
-/
namespace C2pa.C28

/-! ### helper facts about the pieces -/

theorem fetchOcsp_mem {env : Env} {k r : Req} {c : Claim} (h : r ∈ fetchOcsp env k c) : r = k := by
  unfold fetchOcsp at h
  split at h
  · exact List.eq_of_mem_replicate h
  · split at h
    · simp at h
    · simpa using h

theorem fetchOcsp_length_le (env : Env) (k : Req) (c : Claim) :
    (fetchOcsp env k c).length ≤ c.responders := by
  unfold fetchOcsp
  split
  · simp
  · split
    · simp
    · simp; omega

theorem checkOcsp_mem {s : Settings} {env : Env} {st : Store} {c : Claim} {r : Req}
    (h : r ∈ checkOcsp s env st c) :
    r = .ocspVerify ∧ s.ocspFetch = true ∧ (c.stapled && c.stapledUsable) = false := by
  unfold checkOcsp at h
  split at h
  · simp at h
  · split at h
    · simp at h
    · split at h
      · rename_i h1 h2 h3
        exact ⟨fetchOcsp_mem h, h3, by simpa using h2⟩
      · simp at h

theorem verifyStore_mem {s : Settings} {env : Env} {st : Store} {r : Req}
    (h : r ∈ verifyStore s env st) : r = .ocspVerify ∧ s.ocspFetch = true := by
  unfold verifyStore at h
  obtain ⟨c, _, hc⟩ := List.mem_flatMap.mp h
  exact ⟨(checkOcsp_mem hc).1, (checkOcsp_mem hc).2.1⟩

theorem statusLabels_nil_of_off (s : Settings) (st : Store)
    (h : s.statusFetch = .none ∨ s.statusOverride = none) : statusLabels s st = [] := by
  unfold statusLabels
  rcases h with h | h
  · rw [h]; cases s.statusOverride with
    | none => rfl
    | some b => cases b <;> simp
  · rw [h]

theorem statusDers_mem {s : Settings} {env : Env} {st : Store} {r : Req}
    (h : r ∈ statusDers s env st) :
    r = .ocspStatus ∧ s.statusFetch ≠ .none ∧ s.statusOverride.isSome = true := by
  unfold statusDers at h
  obtain ⟨c, hc, hr⟩ := List.mem_flatMap.mp h
  refine ⟨fetchOcsp_mem hr, ?_, ?_⟩
  · intro h0
    rw [statusLabels_nil_of_off s st (Or.inl h0)] at hc
    simp at hc
  · cases h1 : s.statusOverride with
    | some b => rfl
    | none =>
      rw [statusLabels_nil_of_off s st (Or.inr h1)] at hc
      simp at hc

theorem loadJumbf_mem {s : Settings} {env : Env} {a : Asset} {r : Req}
    (h : r ∈ (loadJumbf s env a).2) :
    ∃ u, r = .manifest u ∧ s.remoteFetch = true ∧ a.embedded = .absent ∧ a.xmp = some u
      ∧ validRef a u = true ∧ a.refUriOk = true := by
  unfold loadJumbf at h
  split at h
  · simp at h
  · simp at h
  · rename_i hemb
    split at h
    · simp at h
    · rename_i u hx
      split at h
      · rename_i hv
        split at h
        · rename_i hf
          split at h
          · rename_i hq
            split at h <;> (simp at h; exact ⟨u, h, hf, hemb, hx, hv, hq⟩)
          · simp at h
        · simp at h
      · simp at h

/-- the trace of `loadJumbf` is empty or the single request for the referenced URL -/
theorem loadJumbf_trace (s : Settings) (env : Env) (a : Asset) :
    (loadJumbf s env a).2 = [] ∨ ∃ u, (loadJumbf s env a).2 = [.manifest u] ∧ a.xmp = some u := by
  unfold loadJumbf
  split
  · simp
  · simp
  · split
    · simp
    · rename_i u hx
      split
      · split
        · split
          · split <;> simp [hx]
          · simp
        · simp
      · simp

/-- a predicate that keeps manifest requests keeps the whole trace of `loadJumbf` -/
theorem loadJumbf_trace_filter (s : Settings) (env : Env) (a : Asset) (p : Req → Bool)
    (hp : ∀ u, p (.manifest u) = true) :
    (loadJumbf s env a).2.filter p = (loadJumbf s env a).2 := by
  rcases loadJumbf_trace s env a with h | ⟨u, h, _⟩
  · rw [h]; rfl
  · rw [h]; simp [hp u]

/-! ### the property: every request is asked for -/

theorem identityReqs_mem {s : Settings} {st : Store} {r : Req} (h : r ∈ identityReqs s st) :
    r = .didWeb ∧ s.decodeIdentity = true := by
  unfold identityReqs at h
  split at h
  · rename_i hd
    obtain ⟨c, _, hc⟩ := List.mem_flatMap.mp h
    exact ⟨List.eq_of_mem_replicate hc, hd⟩
  · simp at h

/-- where the requests of a read come from -/
theorem read_mem {s : Settings} {env : Env} {a : Asset} {r : Req} (h : r ∈ (read s env a).trace) :
    r ∈ (loadJumbf s env a).2 ∨ (r = .ocspVerify ∧ s.ocspFetch = true)
      ∨ (r = .didWeb ∧ s.decodeIdentity = true) := by
  unfold read at h
  split at h
  · rename_i e t heq
    left; rw [heq]; exact h
  · rename_i st t heq
    simp only [List.mem_append] at h
    rcases h with (h | h) | h
    · left; rw [heq]; exact h
    · right; left; exact verifyStore_mem h
    · right; right; exact identityReqs_mem h

/-- `enabled` does not look at the signer or the builder for the requests of reading. -/
theorem request_implies_enabled_read (s : Settings) (env : Env) (a : Asset) (tsa ex : Bool)
    (r : Req) (h : r ∈ (read s env a).trace) : enabled ⟨s, tsa, ex⟩ r = true := by
  rcases read_mem h with hl | ⟨hr, ho⟩ | ⟨hr, hd⟩
  · obtain ⟨u, hu, hf, _⟩ := loadJumbf_mem hl
    subst hu
    simpa [enabled] using hf
  · subst hr
    simpa [enabled] using ho
  · subst hr
    simpa [enabled] using hd

theorem importIng_mem {s : Settings} {env : Env} {a : Asset} {p e : Bool} {r : Req}
    (h : r ∈ (importIng s env a p e).2) :
    r ∈ (loadJumbf s env a).2 ∨ (r = .ocspVerify ∧ s.ocspFetch = true)
      ∨ (r = .ocspStatus ∧ s.statusFetch ≠ .none ∧ s.statusOverride.isSome = true) := by
  unfold importIng at h
  split at h
  · rename_i st t heq
    simp only [List.mem_append] at h
    rcases h with (h | h) | h
    · left; rw [heq]; exact h
    · right; left; exact verifyStore_mem h
    · right; right; exact statusDers_mem h
  all_goals (rename_i heq; left; rw [heq]; exact h)

theorem importIng_flags (s : Settings) (env : Env) (a : Asset) (p e : Bool) :
    (importIng s env a p e).1.explicitTs = e ∧ (importIng s env a p e).1.parent = p := by
  unfold importIng
  split <;> simp

theorem request_implies_enabled_import (s : Settings) (env : Env) (a : Asset) (p e tsa ex : Bool)
    (r : Req) (h : r ∈ (importIng s env a p e).2) : enabled ⟨s, tsa, ex⟩ r = true := by
  rcases importIng_mem h with hl | ⟨hr, ho⟩ | ⟨hr, h1, h2⟩
  · obtain ⟨u, hu, hf, _⟩ := loadJumbf_mem hl
    subst hu
    simpa [enabled] using hf
  · subst hr
    simpa [enabled] using ho
  · subst hr
    simp only [enabled, h2, Bool.and_true]
    cases hs : s.statusFetch
    · exact absurd hs h1
    · decide
    · decide

theorem timestampReqs_mem {s : Settings} {ings : List Ing} {r : Req}
    (h : r ∈ timestampReqs s ings) :
    r = .tsaAssertion ∧ (s.autoTs = true ∨ ings.any (·.explicitTs) = true) := by
  unfold timestampReqs at h
  split at h
  · simp at h
  · rename_i hc
    constructor
    · obtain ⟨_, _, rfl⟩ := List.mem_map.mp h; rfl
    · cases h1 : s.autoTs
      · cases h2 : ings.any (·.explicitTs)
        · simp [h1, h2] at hc
        · exact Or.inr rfl
      · exact Or.inl rfl

theorem tsPhase_mem {s : Settings} {sg : Signer} {ings : List Ing} {r : Req}
    (h : r ∈ tsPhase s sg ings) :
    r = .tsaAssertion ∧ sg.tsa = true ∧ (s.autoTs = true ∨ ings.any (·.explicitTs) = true) := by
  unfold tsPhase at h
  split at h
  · rename_i ht
    exact ⟨(timestampReqs_mem h).1, ht, (timestampReqs_mem h).2⟩
  · simp at h

theorem signerTs_mem {sg : Signer} {r : Req} (h : r ∈ signerTs sg) :
    r = .tsaSigner ∧ sg.tsa = true := by
  unfold signerTs at h
  split at h
  · rename_i ht; exact ⟨by simpa using h, ht⟩
  · simp at h

theorem afterSign_mem {s : Settings} {env : Env} {sg : Signer} {ings : List Ing} {r : Req}
    (h : r ∈ afterSign s env sg ings) :
    r = .ocspVerify ∧ s.ocspFetch = true ∧ s.verifyAfterSign = true := by
  unfold afterSign at h
  split at h
  · rename_i hv
    exact ⟨(verifyStore_mem h).1, (verifyStore_mem h).2, hv⟩
  · simp at h

theorem signFlow_mem {s : Settings} {env : Env} {sg : Signer} {ings : List Ing} {r : Req}
    (h : r ∈ (signFlow s env sg ings).trace) :
    (r = .tsaAssertion ∧ sg.tsa = true ∧ (s.autoTs = true ∨ ings.any (·.explicitTs) = true))
      ∨ (r = .tsaSigner ∧ sg.tsa = true)
      ∨ (r = .ocspVerify ∧ s.ocspFetch = true ∧ s.verifyAfterSign = true) := by
  unfold signFlow at h
  split at h
  · simp at h
  · split at h
    · exact Or.inl (tsPhase_mem (List.mem_of_mem_take h))
    · split at h
      · rename_i hts
        rcases List.mem_append.mp h with h | h
        · exact Or.inl (tsPhase_mem h)
        · refine Or.inr (Or.inl ⟨by simpa using h, ?_⟩)
          simp only [Bool.and_eq_true] at hts
          exact hts.1
      · rcases List.mem_append.mp h with h | h
        · rcases List.mem_append.mp h with h | h
          · exact Or.inl (tsPhase_mem h)
          · exact Or.inr (Or.inl (signerTs_mem h))
        · exact Or.inr (Or.inr (afterSign_mem h))

theorem request_implies_enabled_sign (s : Settings) (env : Env) (sg : Signer) (ings : List Ing)
    (r : Req) (h : r ∈ (signFlow s env sg ings).trace) :
    enabled ⟨s, sg.tsa, ings.any (·.explicitTs)⟩ r = true := by
  rcases signFlow_mem h with ⟨hr, h1, h2⟩ | ⟨hr, h1⟩ | ⟨hr, h1, _⟩
  · subst hr
    simp only [enabled, h1, Bool.true_and]
    rcases h2 with h2 | h2 <;> simp [h2]
  · subst hr
    simpa [enabled] using h1
  · subst hr
    simpa [enabled] using h1

theorem importAll_mem {s : Settings} {env : Env} :
    ∀ {as : List (Asset × Bool × Bool)} {r : Req}, r ∈ (importAll s env as).2 →
      ∃ a p e, (a, p, e) ∈ as ∧ r ∈ (importIng s env a p e).2
  | [], r, h => by simp [importAll] at h
  | (a, p, e) :: rest, r, h => by
    simp only [importAll, List.mem_append] at h
    rcases h with h | h
    · exact ⟨a, p, e, List.mem_cons_self, h⟩
    · obtain ⟨a', p', e', hm, hr⟩ := importAll_mem h
      exact ⟨a', p', e', List.mem_cons_of_mem _ hm, hr⟩

theorem importAll_explicit (s : Settings) (env : Env) :
    ∀ as : List (Asset × Bool × Bool),
      (importAll s env as).1.any (·.explicitTs) = as.any (fun x => x.2.2)
  | [] => by simp [importAll]
  | (a, p, e) :: rest => by
    simp only [importAll, List.any_cons]
    rw [importAll_explicit s env rest, (importIng_flags s env a p e).1]

/-- The full statement, as a proposition about the model. -/
def NoRequestUnlessEnabled : Prop :=
  (∀ (s : Settings) (env : Env) (a : Asset) (tsa ex : Bool) (r : Req),
      r ∈ (read s env a).trace → enabled ⟨s, tsa, ex⟩ r = true)
  ∧ (∀ (s : Settings) (env : Env) (sg : Signer) (as : List (Asset × Bool × Bool)) (r : Req),
      r ∈ (importAndSign s env sg as).2.trace →
        enabled ⟨s, sg.tsa, as.any (fun x => x.2.2)⟩ r = true)

/-- **Every request in the trace of reading, of importing any number of ingredients and of
signing is enabled by its setting / the signer / the builder call.** -/
theorem request_implies_enabled : NoRequestUnlessEnabled := by
  refine ⟨request_implies_enabled_read, ?_⟩
  intro s env sg as r h
  unfold importAndSign at h
  simp only at h
  rcases List.mem_append.mp h with h | h
  · obtain ⟨a, p, e, _, hr⟩ := importAll_mem h
    exact request_implies_enabled_import s env a p e _ _ r hr
  · have := request_implies_enabled_sign s env sg (importAll s env as).1 r h
    rwa [importAll_explicit] at this

/-- With everything off (remote manifest fetch, OCSP fetch, certificate-status fetch, identity
assertion decoding, no TSA URL) no operation issues any request, whatever the assets reference. -/
theorem no_request_when_nothing_enabled (s : Settings) (env : Env) (sg : Signer)
    (as : List (Asset × Bool × Bool)) (a : Asset)
    (h1 : s.remoteFetch = false) (h2 : s.ocspFetch = false)
    (h3 : s.statusFetch = .none ∨ s.statusOverride = none) (h4 : sg.tsa = false)
    (h5 : s.decodeIdentity = false) :
    (read s env a).trace = [] ∧ (importAndSign s env sg as).2.trace = [] := by
  have key : ∀ r : Req, enabled ⟨s, sg.tsa, as.any (fun x => x.2.2)⟩ r = false := by
    intro r
    cases r <;> simp [enabled, h1, h2, h4, h5]
    rcases h3 with h3 | h3 <;> simp [h3]
  constructor
  · apply List.eq_nil_iff_forall_not_mem.mpr
    intro r hr
    have := request_implies_enabled.1 s env a sg.tsa (as.any (fun x => x.2.2)) r hr
    rw [key r] at this; cases this
  · apply List.eq_nil_iff_forall_not_mem.mpr
    intro r hr
    have := request_implies_enabled.2 s env sg as r hr
    rw [key r] at this; cases this

/-- `http://h/m` -/
def urlEx : Url := ['h', 't', 't', 'p', ':', '/', '/', 'h', '/', 'm']

/-- non-vacuity: the hypotheses hold for a remote-only asset and a remote-only ingredient whose
claims name OCSP responders and did:web issuers, with the time-stamp assertion settings on -/
example :
    (read ⟨false, false, .all, none, true, true, .all, true, false⟩ ⟨.ok, .ok, .ok⟩
        ⟨.absent, some urlEx, [], true, true⟩).trace = []
      ∧ (importAndSign ⟨false, false, .all, none, true, true, .all, true, false⟩ ⟨.ok, .ok, .ok⟩
          ⟨false, 2, false, false, 0, true⟩
          [(⟨.absent, some urlEx, [⟨1, false, false, 0, false, false, false, 3⟩], true, true⟩, true, true)]).2.trace = [] :=
  no_request_when_nothing_enabled _ _ _ _ _ rfl rfl (Or.inr rfl) rfl rfl

/-! ### remote manifests -/

/-- **Remote-only asset, fetching disabled: the error is `RemoteManifestUrl` and carries exactly
the referenced URL; nothing is requested.** -/
theorem remote_only_disabled_error_has_url (s : Settings) (env : Env) (a : Asset) (u : Url)
    (he : a.embedded = .absent) (hx : a.xmp = some u) (hv : validRef a u = true)
    (hf : s.remoteFetch = false) :
    read s env a = ⟨.error (.remoteManifestUrl u), []⟩ := by
  simp [read, loadJumbf, he, hx, hv, hf]

/-- The same asset imported as an ingredient: `manifest.inaccessible` with that URL, no request. -/
theorem remote_only_disabled_ingredient_has_url (s : Settings) (env : Env) (a : Asset) (u : Url)
    (p e : Bool) (he : a.embedded = .absent) (hx : a.xmp = some u)
    (hv : validRef a u = true) (hf : s.remoteFetch = false) :
    importIng s env a p e = (⟨.inaccessible (some u), p, e⟩, []) := by
  simp [importIng, loadJumbf, he, hx, hv, hf]

/-- the bytes of a string literal -/
def ul (s : String) : Url := s.toList

example : classify urlEx = .valid := by decide
example : classify (ul "HTTPs://h") = .valid := by decide
example : classify (ul "ftp://h/m") = .invalid := by decide
example : classify (ul "m/x.c2pa") = .invalid := by decide
example : classify (ul "http://") = .invalid := by decide
-- forms `url::Url::parse` accepts although they do not look like `scheme://host/path`
example : classify (ul "http:/h/m") = .valid := by decide
example : classify (ul "http:h") = .valid := by decide
example : classify (ul " \thttp://h/m\n ") = .valid := by decide
example : classify (ul "ht\ttp:/\n/h/\rm") = .valid := by decide
example : classify (ul "http:\\\\h\\m") = .valid := by decide
example : classify (ul "http://u:p@h:00080/m") = .valid := by decide
example : classify (ul "http://0x7f.1/m") = .valid := by decide
-- and forms it rejects
example : classify (ul "http://h:65536/") = .invalid := by decide
example : classify (ul "http://a.1/") = .invalid := by decide
example : classify (ul "http://a b/") = .invalid := by decide
example : classify (ul "http://@/m") = .invalid := by decide
example : classify (ul "1http://h") = .invalid := by decide
-- left to the `url` crate (oracle input `refUrlCrate`)
example : classify (ul "http://[::1]/m") = .exoticHost := by decide
example : classify (ul "http://a%41/") = .exoticHost := by decide

/-- **Whatever the oracle input says, a reference that is accepted has scheme `http` or `https`
(compared case-insensitively, after the trimming and tab/newline removal of the WHATWG parser)
and a non-empty host-and-port.** In particular a relative reference, `ftp:`, `file:` … is never
fetched and never reported as `RemoteManifestUrl`. -/
theorem valid_ref_has_http_scheme (a : Asset) (u : Url) (h : validRef a u = true) :
    ∃ s rest, splitScheme (cleaned u) = some (s, rest) ∧ (s = httpS ∨ s = httpsS)
      ∧ hostPort rest ≠ [] := by
  unfold validRef at h
  cases hs : splitScheme (cleaned u) with
  | none => simp [classify, hs] at h
  | some p =>
    obtain ⟨s, rest⟩ := p
    refine ⟨s, rest, rfl, ?_⟩
    by_cases h1 : s = httpS
    · refine ⟨Or.inl h1, ?_⟩
      intro hnil
      simp [classify, hs, h1, hnil] at h
    · by_cases h2 : s = httpsS
      · refine ⟨Or.inr h2, ?_⟩
        intro hnil
        simp [classify, hs, h2, hnil] at h
      · simp [classify, hs, h1, h2] at h

/-- the oracle input is consulted for exotic hosts only -/
theorem valid_ref_oracle_free (a b : Asset) (u : Url) (h : classify u ≠ .exoticHost) :
    validRef a u = validRef b u := by
  unfold validRef
  cases hc : classify u <;> simp_all

/-- **An embedded manifest is preferred: with one present (or present but unreadable) no remote
manifest is requested**, whatever the XMP reference and the settings say. -/
theorem embedded_preferred (s : Settings) (env : Env) (a : Asset) (p e : Bool)
    (h : a.embedded ≠ .absent) (u : Url) :
    Req.manifest u ∉ (read s env a).trace ∧ Req.manifest u ∉ (importIng s env a p e).2 := by
  have nl : ∀ r, r ∈ (loadJumbf s env a).2 → False := by
    intro r hr
    obtain ⟨_, _, _, he, _⟩ := loadJumbf_mem hr
    exact h he
  constructor
  · intro hm
    rcases read_mem hm with hm | ⟨hm, _⟩ | ⟨hm, _⟩
    · exact nl _ hm
    · cases hm
    · cases hm
  · intro hm
    rcases importIng_mem hm with hm | ⟨hm, _⟩ | ⟨hm, _⟩
    · exact nl _ hm
    · cases hm
    · cases hm

/-- Exactly when a remote manifest is requested while reading, and for which URL. -/
theorem manifest_request_iff (s : Settings) (env : Env) (a : Asset) (u : Url) :
    Req.manifest u ∈ (read s env a).trace ↔
      a.embedded = .absent ∧ a.xmp = some u ∧ validRef a u = true ∧ s.remoteFetch = true
        ∧ a.refUriOk = true := by
  constructor
  · intro hm
    have : Req.manifest u ∈ (loadJumbf s env a).2 := by
      rcases read_mem hm with hm | ⟨hm, _⟩ | ⟨hm, _⟩
      · exact hm
      · cases hm
      · cases hm
    obtain ⟨u', hu, hf, he, hx, hv, hq⟩ := loadJumbf_mem this
    cases hu
    exact ⟨he, hx, hv, hf, hq⟩
  · rintro ⟨he, hx, hv, hf, hq⟩
    cases hm : env.manifest <;> simp [read, loadJumbf, he, hx, hv, hf, hq, hm]

/-- A reference `http::Request::get` refuses is never requested: reading fails with `HttpError`
(when fetching is enabled) without any request. -/
theorem unbuildable_request_not_sent (s : Settings) (env : Env) (a : Asset) (u : Url)
    (he : a.embedded = .absent) (hx : a.xmp = some u) (hv : validRef a u = true)
    (hf : s.remoteFetch = true) (hq : a.refUriOk = false) :
    read s env a = ⟨.error .httpRequest, []⟩ := by
  simp [read, loadJumbf, he, hx, hv, hf, hq]

/-- At most one remote manifest request per read, and it comes first. -/
theorem read_trace_shape (s : Settings) (env : Env) (a : Asset) :
    ∃ pre post, (read s env a).trace = pre ++ post
      ∧ (pre = [] ∨ ∃ u, pre = [.manifest u] ∧ a.xmp = some u)
      ∧ ∀ r ∈ post, r = .ocspVerify ∨ r = .didWeb := by
  unfold read
  split
  · rename_i e t heq
    refine ⟨t, [], by simp, ?_, by simp⟩
    have := loadJumbf_trace s env a
    rw [heq] at this; exact this
  · rename_i st t heq
    refine ⟨t, verifyStore s env st ++ identityReqs s st, by simp, ?_, ?_⟩
    · have := loadJumbf_trace s env a
      rw [heq] at this; exact this
    · intro r hr
      rcases List.mem_append.mp hr with hr | hr
      · exact Or.inl (verifyStore_mem hr).1
      · exact Or.inr (identityReqs_mem hr).1

/-- did:web documents are resolved only while reading with `core.decode_identity_assertions`;
importing an ingredient and signing never resolve one. -/
theorem identity_lookup_only_when_decoding (s : Settings) (env : Env) (sg : Signer) (a : Asset)
    (as : List (Asset × Bool × Bool)) :
    (Req.didWeb ∈ (read s env a).trace → s.decodeIdentity = true)
      ∧ Req.didWeb ∉ (importAndSign s env sg as).2.trace := by
  constructor
  · intro h
    simpa [enabled] using request_implies_enabled_read s env a false false _ h
  · intro h
    unfold importAndSign at h
    simp only at h
    rcases List.mem_append.mp h with h | h
    · obtain ⟨a', p, e, _, hr⟩ := importAll_mem h
      rcases importIng_mem hr with hl | ⟨hr, _⟩ | ⟨hr, _⟩
      · obtain ⟨u, hu, _⟩ := loadJumbf_mem hl
        cases hu
      · cases hr
      · cases hr
    · rcases signFlow_mem h with ⟨hr, _⟩ | ⟨hr, _⟩ | ⟨hr, _⟩ <;> cases hr

/-! ### OCSP -/

/-- A claim whose signature staples a usable OCSP response is never the reason for a fetch during
validation, whatever `verify.ocsp_fetch` says. -/
theorem stapled_never_fetched (s : Settings) (env : Env) (st : Store) (c : Claim)
    (h : c.stapled = true) (hu : c.stapledUsable = true) : checkOcsp s env st c = [] := by
  apply List.eq_nil_iff_forall_not_mem.mpr
  intro r hr
  have := (checkOcsp_mem hr).2.2
  rw [h, hu] at this; cases this

/-- At most one request per OCSP responder named by the certificate, per validation of a claim. -/
theorem ocsp_requests_bounded (s : Settings) (env : Env) (st : Store) (c : Claim) :
    (checkOcsp s env st c).length ≤ c.responders := by
  unfold checkOcsp
  split
  · simp
  · split
    · simp
    · split
      · exact fetchOcsp_length_le env _ c
      · simp

/-- Certificate-status responses held by the store replace the fetch when
`certificate_status_should_override` is on. -/
theorem status_override_suppresses_fetch (s : Settings) (env : Env) (st : Store) (c : Claim)
    (h1 : s.statusOverride = some true) (h2 : statusResp st c = true) :
    checkOcsp s env st c = [] := by
  simp [checkOcsp, h1, h2]

example : statusResp [⟨1, false, false, 0, true, true, false, 0⟩, ⟨1, false, false, 0, false, false, false, 0⟩]
    ⟨1, false, false, 0, false, false, false, 0⟩ = true := by decide

/-- With fetching on and nothing stapled or overriding, all responders are tried as long as they
answer with a non-200 status (so the bound above is attained). -/
theorem ocsp_all_responders_tried (s : Settings) (st : Store) (c : Claim) (m t : Reply)
    (h1 : s.ocspFetch = true) (h2 : c.stapledUsable = false) (h3 : s.statusOverride.getD false = false) :
    checkOcsp s ⟨m, .notFound, t⟩ st c = List.replicate c.responders .ocspVerify := by
  simp [checkOcsp, fetchOcsp, h1, h2, h3]

/-! ### time stamps -/

/-- Without a TSA URL on the signer no time-stamp request of either kind is issued. -/
theorem no_tsa_url_no_timestamp_request (s : Settings) (env : Env) (sg : Signer)
    (as : List (Asset × Bool × Bool)) (h : sg.tsa = false) :
    Req.tsaAssertion ∉ (importAndSign s env sg as).2.trace
      ∧ Req.tsaSigner ∉ (importAndSign s env sg as).2.trace := by
  constructor <;> intro hm <;>
    (have := request_implies_enabled.2 s env sg as _ hm; simp [enabled, h] at this)

/-- **Every request of a signing goes through the resolver of the caller's `Context`, except the
signer's own time-stamp request, which is issued only when the signer names a TSA**; and there is
at most one such request per signing. -/
theorem only_signer_timestamp_leaves_context (s : Settings) (env : Env) (sg : Signer)
    (ings : List Ing) :
    (∀ r ∈ (signFlow s env sg ings).trace,
        r.channel = .context ∨ (r = .tsaSigner ∧ sg.tsa = true))
      ∧ ((signFlow s env sg ings).trace.filter (· == .tsaSigner)).length ≤ 1 := by
  constructor
  · intro r hr
    rcases signFlow_mem hr with ⟨h, _⟩ | h | ⟨h, _⟩
    · left; rw [h]; rfl
    · right; exact h
    · left; rw [h]; rfl
  · have hts : (tsPhase s sg ings).filter (· == Req.tsaSigner) = [] := by
      apply List.filter_eq_nil_iff.mpr
      intro r hr
      rw [(tsPhase_mem hr).1]; decide
    have hts1 : ((tsPhase s sg ings).take 1).filter (· == Req.tsaSigner) = [] := by
      apply List.filter_eq_nil_iff.mpr
      intro r hr
      rw [(tsPhase_mem (List.mem_of_mem_take hr)).1]; decide
    have hvs : (afterSign s env sg ings).filter (· == Req.tsaSigner) = [] := by
      apply List.filter_eq_nil_iff.mpr
      intro r hr
      rw [(afterSign_mem hr).1]; decide
    have hsg : ((signerTs sg).filter (· == Req.tsaSigner)).length ≤ 1 := by
      unfold signerTs; cases sg.tsa <;> simp
    unfold signFlow
    split
    · simp
    · split
      · rw [hts1]; simp
      · split
        · rw [List.filter_append, hts]; simp
        · rw [List.filter_append, List.filter_append, hts, hvs]; simpa using hsg

/-- Reading and importing ingredients use the resolver of the caller's `Context` for every
request. -/
theorem read_and_import_stay_in_context (s : Settings) (env : Env) (a : Asset) (p e : Bool) :
    (∀ r ∈ (read s env a).trace, r.channel = .context)
      ∧ (∀ r ∈ (importIng s env a p e).2, r.channel = .context) := by
  constructor
  · intro r hr
    rcases read_mem hr with h | ⟨h, _⟩ | ⟨h, _⟩
    · obtain ⟨u, hu, _⟩ := loadJumbf_mem h
      rw [hu]; rfl
    · rw [h]; rfl
    · rw [h]; rfl
  · intro r hr
    rcases importIng_mem hr with h | ⟨h, _⟩ | ⟨h, _⟩
    · obtain ⟨u, hu, _⟩ := loadJumbf_mem h
      rw [hu]; rfl
    · rw [h]; rfl
    · rw [h]; rfl

/-- `cawg_x509_signer.local.tsa_url` has no influence on any request or result of signing
(`CawgX509IdentitySigner::from_settings` discards it). The statement is about a field the
decision functions do not read; its content is the differential run, which drives the real
settings-based signer with that URL set and unset. -/
theorem cawg_tsa_url_irrelevant (s : Settings) (env : Env) (sg : Signer)
    (as : List (Asset × Bool × Bool)) (b : Bool) :
    importAndSign s env { sg with cawgTsa := b } as = importAndSign s env sg as := rfl

/-! ### the inventory of request sites, regenerated from sdk/src -/

/-- **Every place of sdk/src that reaches an HTTP transport is one of the reviewed sites; every
call path from such a site up to its guard is a reviewed one; every guard expression the model
relies on is present in the source.** (`decide` over the table of
`translators/c28_http_sites.py`.) -/
theorem call_site_inventory_closed :
    (Gen.sinkSites.all (fun x => (siteKind? x.1 x.2.1).isSome)) = true
      ∧ (Gen.callers.all (fun x => reviewedCallers.contains x)) = true
      ∧ (requiredGuards.all (fun g => Gen.guards.contains (g, true))) = true
      ∧ (Gen.guards.all (fun g => g.2)) = true := by
  decide +kernel

/-- Every request kind of the model is issued by a site that exists in the source, and every
inventoried site is either of a kind no modelled operation reaches (`unmodelledKinds`: the remote
signer, the construction of the default transports) or the issuing site of some request kind of
the model (so a site of a new kind cannot be reviewed into `reviewedSinks` without a request kind
that accounts for it). -/
theorem model_requests_match_sites :
    (∀ k : ReqKind, Gen.sinkSites.any (fun x => siteKind? x.1 x.2.1 == some (SiteKind.of k)) = true)
      ∧ (Gen.sinkSites.all (fun x =>
          match siteKind? x.1 x.2.1 with
          | some kd => unmodelledKinds.contains kd || allReqKinds.any (fun k => SiteKind.of k == kd)
          | none => false)) = true
      ∧ (∀ k : ReqKind, k ∈ allReqKinds) := by
  refine ⟨?_, ?_, ?_⟩
  · intro k; cases k <;> decide +kernel
  · decide +kernel
  · intro k; cases k <;> decide

/-- **The places that decide the OCSP fetch policy or hand a time-stamp request to the signer
are exactly the reviewed ones** (regenerated from sdk/src on every run): a new caller of
`check_ocsp_status`, a new use of `OcspFetchPolicy::FetchAllowed`, a new caller of
`send_timestamp_request` / `send_time_stamp_request` changes this obligation. -/
theorem policy_sites_closed :
    (Gen.policySites.all (fun x => reviewedPolicySites.contains x)) = true
      ∧ (reviewedPolicySites.all (fun x => Gen.policySites.contains x)) = true := by
  decide +kernel

/-- `OcspFetchPolicy::FetchAllowed` is named only inside `crypto/cose/ocsp.rs::check_ocsp_status`
(the `match` on the policy) and in `claim.rs::check_ocsp_status`, where the guard
`claim::check_ocsp_status:policy-from-ocsp_fetch` shows it is chosen by `verify.ocsp_fetch`; and
the callers of the policy-taking function outside crypto/cose go through that wrapper. -/
theorem fetch_allowed_sites_closed :
    (Gen.policySites.all (fun x =>
        x.1 != "OcspFetchPolicy::FetchAllowed"
          || x.2 == ("crypto/cose/ocsp.rs", "check_ocsp_status")
          || x.2 == ("claim.rs", "check_ocsp_status"))) = true
      ∧ Gen.guards.contains ("claim::check_ocsp_status:policy-from-ocsp_fetch", true) = true
      ∧ Gen.guards.contains ("store.rs:check_ocsp_status-is-the-claim-level-wrapper", true) = true := by
  decide +kernel

/-- **The trait-default `send_time_stamp_request` (a request on a fresh `Context::new()`,
crypto/time_stamp/provider.rs) is unreachable with a service URL inside the SDK**: every
`impl (Async)TimeStampProvider` is a reviewed one, and each implementor that names a service URL
(`time_stamp_service_url`) also replaces `send_time_stamp_request`. In particular the CAWG X.509
identity signature (`RawSignerCoseSigner`) never requests a time stamp. -/
theorem ts_provider_default_unreachable :
    (Gen.tsProviders.all (fun x => reviewedTsProviders.contains x)) = true
      ∧ (Gen.tsProviders.all (fun x =>
          !x.2.2.contains "time_stamp_service_url" || x.2.2.contains "send_time_stamp_request")) = true
      ∧ Gen.tsProviders.contains ("crypto/cose/cose_signer.rs", "RawSignerCoseSigner", []) = true := by
  decide +kernel

/-! ### non-vacuity: with the settings on, the requests do occur -/

def sOn : Settings := ⟨true, true, .all, some false, true, true, .all, true, true⟩
def envNf : Env := ⟨.ok, .notFound, .ok⟩
def remOnly : Asset := ⟨.absent, some urlEx, [⟨2, false, false, 1, false, false, false, 1⟩], true, true⟩

example : (read sOn envNf remOnly).trace = [.manifest urlEx, .ocspVerify, .ocspVerify, .didWeb] := by
  decide
example : (importAndSign sOn envNf ⟨true, 1, false, false, 0, false⟩ [(remOnly, true, false)]).2.trace
    = [.manifest urlEx, .ocspVerify, .ocspVerify, .ocspStatus, .ocspStatus,
       .tsaAssertion, .tsaSigner, .ocspVerify, .ocspVerify, .ocspVerify] := by
  decide
example : read { sOn with remoteFetch := false } envNf remOnly
    = ⟨.error (.remoteManifestUrl urlEx), []⟩ := by decide

example : read { sOn with remoteFetch := true } envNf { remOnly with refUriOk := false }
    = ⟨.error .httpRequest, []⟩ := by decide

/-! ### gate independence: a setting influences only its own kind of request -/

theorem checkOcsp_off (s : Settings) (env : Env) (st : Store) (c : Claim) :
    checkOcsp { s with ocspFetch := false } env st c = [] := by
  simp [checkOcsp]

theorem verifyStore_off (s : Settings) (env : Env) (st : Store) :
    verifyStore { s with ocspFetch := false } env st = [] := by
  unfold verifyStore
  apply List.flatMap_eq_nil_iff.mpr
  intro c _
  exact checkOcsp_off s env st c

theorem verifyStore_filter_ocsp (s : Settings) (env : Env) (st : Store) :
    (verifyStore s env st).filter (· != .ocspVerify) = [] := by
  apply List.filter_eq_nil_iff.mpr
  intro r hr
  rw [(verifyStore_mem hr).1]; decide

theorem identityReqs_filter_ocsp (s : Settings) (st : Store) :
    (identityReqs s st).filter (· != .ocspVerify) = identityReqs s st := by
  apply List.filter_eq_self.mpr
  intro r hr
  rw [(identityReqs_mem hr).1]; decide

/-- **Switching `verify.ocsp_fetch` off removes exactly the OCSP requests of a read** and changes
nothing else: not the result, not the other requests, not their order. (Reviewer d.1, as
suggested.) -/
theorem ocsp_gate_independent (s : Settings) (env : Env) (a : Asset) :
    (read { s with ocspFetch := false } env a).trace
        = (read s env a).trace.filter (· != .ocspVerify)
      ∧ (read { s with ocspFetch := false } env a).result = (read s env a).result := by
  have hl : loadJumbf { s with ocspFetch := false } env a = loadJumbf s env a := rfl
  have hi : ∀ st, identityReqs { s with ocspFetch := false } st = identityReqs s st := fun _ => rfl
  have hf := loadJumbf_trace_filter s env a (· != .ocspVerify) (fun _ => by simp)
  cases h : loadJumbf s env a with
  | mk res t =>
    rw [h] at hf
    cases res with
    | error e => simp only [read, hl, h]; exact ⟨hf.symm, trivial⟩
    | ok st =>
      simp only [read, hl, h, hi, verifyStore_off, List.append_nil, List.filter_append,
        verifyStore_filter_ocsp, identityReqs_filter_ocsp]
      exact ⟨by rw [show List.filter (fun x => x != Req.ocspVerify) t = t from hf], trivial⟩

theorem identityReqs_off (s : Settings) (st : Store) :
    identityReqs { s with decodeIdentity := false } st = [] := by
  simp [identityReqs]

theorem identityReqs_filter_did (s : Settings) (st : Store) :
    (identityReqs s st).filter (· != .didWeb) = [] := by
  apply List.filter_eq_nil_iff.mpr
  intro r hr
  rw [(identityReqs_mem hr).1]; decide

theorem verifyStore_filter_did (s : Settings) (env : Env) (st : Store) :
    (verifyStore s env st).filter (· != .didWeb) = verifyStore s env st := by
  apply List.filter_eq_self.mpr
  intro r hr
  rw [(verifyStore_mem hr).1]; decide

/-- **Switching `core.decode_identity_assertions` off removes exactly the did:web resolutions of
a read** and changes nothing else. -/
theorem identity_gate_independent (s : Settings) (env : Env) (a : Asset) :
    (read { s with decodeIdentity := false } env a).trace
        = (read s env a).trace.filter (· != .didWeb)
      ∧ (read { s with decodeIdentity := false } env a).result = (read s env a).result := by
  have hl : loadJumbf { s with decodeIdentity := false } env a = loadJumbf s env a := rfl
  have hv : ∀ st, verifyStore { s with decodeIdentity := false } env st = verifyStore s env st :=
    fun _ => rfl
  have hf := loadJumbf_trace_filter s env a (· != .didWeb) (fun _ => by simp)
  cases h : loadJumbf s env a with
  | mk res t =>
    rw [h] at hf
    cases res with
    | error e => simp only [read, hl, h]; exact ⟨hf.symm, trivial⟩
    | ok st =>
      simp only [read, hl, h, hv, identityReqs_off, List.append_nil, List.filter_append,
        identityReqs_filter_did, verifyStore_filter_did]
      exact ⟨by rw [show List.filter (fun x => x != Req.didWeb) t = t from hf], trivial⟩

/-- **`verify.remote_manifest_fetch` matters only for an asset without embedded manifest.**
The reviewer's form (`trace.filter (· is not a manifest request)`) is *not* provable and not true
of the code: with fetching off a remote-only asset is not loaded at all, so the OCSP and did:web
requests that validating the fetched store would cause disappear together with the manifest
request. What holds: with an embedded manifest (readable or not) the setting changes nothing at
all; without one, switching it off leaves no request of any kind. -/
theorem remote_gate_independent (s : Settings) (env : Env) (a : Asset) (b : Bool) :
    (a.embedded ≠ .absent → read { s with remoteFetch := b } env a = read s env a)
      ∧ (a.embedded = .absent → (read { s with remoteFetch := false } env a).trace = []) := by
  constructor
  · intro he
    have hl : loadJumbf { s with remoteFetch := b } env a = loadJumbf s env a := by
      unfold loadJumbf
      cases hemb : a.embedded with
      | absent => exact absurd hemb he
      | store st => rfl
      | broken => rfl
    have hv : ∀ st, verifyStore { s with remoteFetch := b } env st = verifyStore s env st :=
      fun _ => rfl
    have hi : ∀ st, identityReqs { s with remoteFetch := b } st = identityReqs s st := fun _ => rfl
    simp only [read, hl, hv, hi]
  · intro he
    apply List.eq_nil_iff_forall_not_mem.mpr
    intro r hr
    rcases read_mem hr with h | ⟨_, _⟩ | ⟨_, _⟩
    · obtain ⟨_, _, hf, _⟩ := loadJumbf_mem h
      cases hf
    all_goals
      (unfold read at hr
       have hnone : ∀ st t, loadJumbf { s with remoteFetch := false } env a ≠ (.ok st, t) := by
         intro st t
         unfold loadJumbf
         rw [he]
         cases a.xmp with
         | none => simp
         | some u => by_cases hv : validRef a u = true <;> simp [hv]
       split at hr
       · rename_i e t heq
         have := loadJumbf_trace { s with remoteFetch := false } env a
         rw [heq] at this
         rcases this with h0 | ⟨u, h0, _⟩
         · simp only at h0; rw [h0] at hr; cases hr
         · simp only at h0
           have hm : Req.manifest u ∈ (loadJumbf { s with remoteFetch := false } env a).2 := by
             rw [heq]; simp [h0]
           obtain ⟨_, _, hf, _⟩ := loadJumbf_mem hm
           cases hf
       · rename_i st t heq
         exact absurd heq (hnone st t))

theorem tsSelected_congr (s s' : Settings) (seen : Bool) (i : Ing)
    (h1 : s.tsScope = s'.tsScope) (h2 : s.tsSkipExisting = s'.tsSkipExisting) :
    tsSelected s seen i = tsSelected s' seen i := by
  unfold tsSelected
  rw [h1, h2]

theorem tsClaims_congr (s s' : Settings)
    (h1 : s.tsScope = s'.tsScope) (h2 : s.tsSkipExisting = s'.tsSkipExisting) :
    ∀ (seen : Bool) (ings : List Ing), tsClaims s seen ings = tsClaims s' seen ings
  | _, [] => rfl
  | seen, i :: is => by
    simp only [tsClaims]
    rw [tsSelected_congr s s' seen i h1 h2, tsClaims_congr s s' h1 h2 (seen || i.parent) is]

theorem tsPhase_ocsp_off (s : Settings) (sg : Signer) (ings : List Ing) :
    tsPhase { s with ocspFetch := false } sg ings = tsPhase s sg ings := by
  unfold tsPhase timestampReqs
  rw [tsClaims_congr { s with ocspFetch := false } s rfl rfl]

theorem tsPhase_filter_ocsp (s : Settings) (sg : Signer) (ings : List Ing) (n : Nat) :
    ((tsPhase s sg ings).take n).filter (· != .ocspVerify) = (tsPhase s sg ings).take n := by
  apply List.filter_eq_self.mpr
  intro r hr
  rw [(tsPhase_mem (List.mem_of_mem_take hr)).1]; decide

/-- **Switching `verify.ocsp_fetch` off removes exactly the OCSP requests of a signing** (those
of `verify_after_sign`) and changes neither the result nor the time-stamp requests. -/
theorem ocsp_gate_independent_sign (s : Settings) (env : Env) (sg : Signer) (ings : List Ing) :
    (signFlow { s with ocspFetch := false } env sg ings).trace
        = (signFlow s env sg ings).trace.filter (· != .ocspVerify)
      ∧ (signFlow { s with ocspFetch := false } env sg ings).result
        = (signFlow s env sg ings).result := by
  have hp := tsPhase_ocsp_off s sg ings
  have hk : ∀ n, ((tsPhase s sg ings).take n).filter (· != .ocspVerify) = (tsPhase s sg ings).take n :=
    tsPhase_filter_ocsp s sg ings
  have hk' : (tsPhase s sg ings).filter (· != .ocspVerify) = tsPhase s sg ings := by
    have := hk (tsPhase s sg ings).length
    rwa [List.take_length] at this
  have ha : afterSign { s with ocspFetch := false } env sg ings = [] := by
    unfold afterSign
    split
    · exact verifyStore_off s env _
    · rfl
  have hb : (afterSign s env sg ings).filter (· != .ocspVerify) = [] := by
    apply List.filter_eq_nil_iff.mpr
    intro r hr
    rw [(afterSign_mem hr).1]; decide
  have hs : (signerTs sg).filter (· != .ocspVerify) = signerTs sg := by
    unfold signerTs; cases sg.tsa <;> decide
  unfold signFlow
  rw [hp, ha]
  split
  · exact ⟨rfl, rfl⟩
  · split
    · exact ⟨(hk 1).symm, rfl⟩
    · split
      · refine ⟨?_, rfl⟩
        rw [List.filter_append, hk']; rfl
      · refine ⟨?_, rfl⟩
        rw [List.filter_append, List.filter_append, hk', hs, hb]

/-- **Without a TSA URL on the signer exactly the two kinds of time-stamp request disappear**,
provided the TSA answers. (Without that proviso the statement is false for model and code alike:
a TSA that fails aborts the signing, so the OCSP requests of `verify_after_sign` that follow a
successful signing are absent from the run with a TSA URL.) -/
theorem tsa_gate_independent (s : Settings) (env : Env) (sg : Signer) (ings : List Ing)
    (hok : env.tsa = .ok) :
    (signFlow s env { sg with tsa := false } ings).trace
      = (signFlow s env sg ings).trace.filter (fun r => r != .tsaAssertion && r != .tsaSigner) := by
  have hc : ({ sg with tsa := false } : Signer).claim = sg.claim := rfl
  have ha : afterSign s env { sg with tsa := false } ings = afterSign s env sg ings := by
    unfold afterSign; rw [hc]
  have hfa : (afterSign s env sg ings).filter (fun r => r != .tsaAssertion && r != .tsaSigner)
      = afterSign s env sg ings := by
    apply List.filter_eq_self.mpr
    intro r hr
    rw [(afterSign_mem hr).1]; decide
  have hfp : (tsPhase s sg ings).filter (fun r => r != .tsaAssertion && r != .tsaSigner) = [] := by
    apply List.filter_eq_nil_iff.mpr
    intro r hr
    rw [(tsPhase_mem hr).1]; decide
  have hfs : (signerTs sg).filter (fun r => r != .tsaAssertion && r != .tsaSigner) = [] := by
    unfold signerTs; cases sg.tsa <;> decide
  have hp0 : tsPhase s { sg with tsa := false } ings = [] := by simp [tsPhase]
  unfold signFlow
  rw [hp0, ha]
  simp only [hok, bne_self_eq_false, Bool.and_false, Bool.false_eq_true, if_false, signerTs,
    List.isEmpty_nil, Bool.not_true, List.nil_append]
  split
  · rfl
  · rw [← show signerTs sg = (if sg.tsa = true then [Req.tsaSigner] else []) from rfl,
      List.filter_append, List.filter_append, hfp, hfs, hfa]; rfl

/-! ### converse statements: exactly when each kind of request occurs -/

theorem fetchOcsp_mem_iff (env : Env) (k : Req) (c : Claim) :
    k ∈ fetchOcsp env k c ↔ c.responders ≠ 0 := by
  unfold fetchOcsp
  split
  · simp [List.mem_replicate]
  · split <;> simp [*]

/-- **Exactly when validating a claim queries an OCSP responder**: fetching is on, the
certificate names a responder, no usable stapled response, no overriding certificate-status
response. -/
theorem ocsp_check_iff (s : Settings) (env : Env) (st : Store) (c : Claim) :
    Req.ocspVerify ∈ checkOcsp s env st c ↔
      s.ocspFetch = true ∧ c.responders ≠ 0 ∧ (c.stapled && c.stapledUsable) = false
        ∧ (s.statusOverride.getD false && statusResp st c) = false := by
  unfold checkOcsp
  split
  · rename_i h1; simp [h1]
  · rename_i h1
    split
    · rename_i h2; simp [h2]
    · rename_i h2
      split
      · rename_i h3
        rw [fetchOcsp_mem_iff]
        simp only [Bool.not_eq_true] at h1 h2
        simp [h1, h2, h3]
      · rename_i h3; simp [h3]

def ocspCond (s : Settings) (st : Store) (c : Claim) : Prop :=
  s.ocspFetch = true ∧ c.responders ≠ 0 ∧ (c.stapled && c.stapledUsable) = false
    ∧ (s.statusOverride.getD false && statusResp st c) = false

theorem loadJumbf_no_other {s : Settings} {env : Env} {a : Asset} {r : Req}
    (h : r ∈ (loadJumbf s env a).2) : r ≠ .ocspVerify ∧ r ≠ .didWeb := by
  obtain ⟨u, hu, _⟩ := loadJumbf_mem h
  rw [hu]; exact ⟨by simp, by simp⟩

/-- **Exactly when a read queries an OCSP responder**: a manifest store is loaded (embedded, or
fetched) and one of its claims meets the conditions of `ocsp_check_iff`. -/
theorem ocsp_request_iff (s : Settings) (env : Env) (a : Asset) :
    Req.ocspVerify ∈ (read s env a).trace ↔
      ∃ st, (loadJumbf s env a).1 = .ok st ∧ ∃ c ∈ st, ocspCond s st c := by
  cases h : loadJumbf s env a with
  | mk res t =>
    have hno : ∀ r ∈ t, r ≠ .ocspVerify ∧ r ≠ .didWeb := by
      intro r hr
      exact loadJumbf_no_other (s := s) (env := env) (a := a) (by rw [h]; exact hr)
    cases res with
    | error e =>
      simp only [read, h]
      constructor
      · intro hm; exact absurd rfl (hno _ hm).1
      · rintro ⟨st, hst, _⟩; cases hst
    | ok st =>
      simp only [read, h, List.mem_append]
      constructor
      · rintro ((hm | hm) | hm)
        · exact absurd rfl (hno _ hm).1
        · unfold verifyStore at hm
          obtain ⟨c, hc, hr⟩ := List.mem_flatMap.mp hm
          exact ⟨st, rfl, c, hc, (ocsp_check_iff s env st c).mp hr⟩
        · cases (identityReqs_mem hm).1
      · rintro ⟨st', hst, c, hc, hcond⟩
        cases hst
        left; right
        unfold verifyStore
        exact List.mem_flatMap.mpr ⟨c, hc, (ocsp_check_iff s env st c).mpr hcond⟩

/-- **Exactly when a read resolves a did:web document**: identity decoding is on, a manifest
store is loaded and one of its claims carries an identity assertion with a did:web issuer. -/
theorem didweb_request_iff (s : Settings) (env : Env) (a : Asset) :
    Req.didWeb ∈ (read s env a).trace ↔
      s.decodeIdentity = true ∧ ∃ st, (loadJumbf s env a).1 = .ok st ∧ ∃ c ∈ st, c.didWeb ≠ 0 := by
  cases h : loadJumbf s env a with
  | mk res t =>
    have hno : ∀ r ∈ t, r ≠ .ocspVerify ∧ r ≠ .didWeb := by
      intro r hr
      exact loadJumbf_no_other (s := s) (env := env) (a := a) (by rw [h]; exact hr)
    cases res with
    | error e =>
      simp only [read, h]
      constructor
      · intro hm; exact absurd rfl (hno _ hm).2
      · rintro ⟨_, st, hst, _⟩; cases hst
    | ok st =>
      simp only [read, h, List.mem_append]
      constructor
      · rintro ((hm | hm) | hm)
        · exact absurd rfl (hno _ hm).2
        · cases (verifyStore_mem hm).1
        · refine ⟨(identityReqs_mem hm).2, st, rfl, ?_⟩
          unfold identityReqs at hm
          rw [if_pos (identityReqs_mem hm).2] at hm
          obtain ⟨c, hc, hr⟩ := List.mem_flatMap.mp hm
          refine ⟨c, hc, ?_⟩
          intro h0; rw [h0] at hr; simp at hr
      · rintro ⟨hd, st', hst, c, hc, hne⟩
        cases hst
        right
        unfold identityReqs
        rw [if_pos hd]
        exact List.mem_flatMap.mpr ⟨c, hc, List.mem_replicate.mpr ⟨hne, rfl⟩⟩

/-- **Exactly when the signer's own time-stamp request is sent**: the signer names a TSA, every
ingredient can be encoded, and no earlier time-stamp assertion request has failed. -/
theorem tsa_signer_request_iff (s : Settings) (env : Env) (sg : Signer) (ings : List Ing) :
    Req.tsaSigner ∈ (signFlow s env sg ings).trace ↔
      sg.tsa = true ∧ anyUnencodable ings = false
        ∧ (tsPhase s sg ings = [] ∨ env.tsa = .ok) := by
  have hnp : ∀ n, Req.tsaSigner ∉ (tsPhase s sg ings).take n := by
    intro n hm
    cases (tsPhase_mem (List.mem_of_mem_take hm)).1
  have hnp' : Req.tsaSigner ∉ tsPhase s sg ings := by
    intro hm; cases (tsPhase_mem hm).1
  have hna : Req.tsaSigner ∉ afterSign s env sg ings := by
    intro hm; cases (afterSign_mem hm).1
  unfold signFlow
  split
  · rename_i hu; simp [hu]
  · rename_i hu
    simp only [Bool.not_eq_true] at hu
    split
    · rename_i h2
      simp only [Bool.and_eq_true, Bool.not_eq_true', List.isEmpty_eq_false_iff, bne_iff_ne,
        ne_eq] at h2
      constructor
      · intro hm; exact absurd hm (hnp 1)
      · rintro ⟨_, _, h | h⟩
        · exact absurd h h2.1
        · exact absurd h h2.2
    · rename_i h2
      have h2' : tsPhase s sg ings = [] ∨ env.tsa = .ok := by
        cases hp : tsPhase s sg ings with
        | nil => exact Or.inl rfl
        | cons x xs =>
          right
          cases ht : env.tsa with
          | ok => rfl
          | notFound => simp [hp, ht] at h2
          | transportErr => simp [hp, ht] at h2
      split
      · rename_i h3
        simp only [Bool.and_eq_true] at h3
        simp [hu, h3.1, h2']
      · rename_i h3
        simp only [List.mem_append, hu, true_and]
        constructor
        · rintro ((hm | hm) | hm)
          · exact absurd hm hnp'
          · exact ⟨(signerTs_mem hm).2, h2'⟩
          · exact absurd hm hna
        · rintro ⟨ht, _⟩
          left; right
          simp [signerTs, ht]

/-- **Exactly when a time-stamp assertion request is sent while signing**: every ingredient can
be encoded and `maybe_add_timestamp` selects at least one claim (`tsPhase`, which is empty
without a TSA URL on the signer: `tsPhase_mem`). -/
theorem tsa_assertion_request_iff (s : Settings) (env : Env) (sg : Signer) (ings : List Ing) :
    Req.tsaAssertion ∈ (signFlow s env sg ings).trace ↔
      anyUnencodable ings = false ∧ tsPhase s sg ings ≠ [] := by
  have hall : ∀ r ∈ tsPhase s sg ings, r = .tsaAssertion := fun r hr => (tsPhase_mem hr).1
  have hna : Req.tsaAssertion ∉ afterSign s env sg ings := by
    intro hm; cases (afterSign_mem hm).1
  have hns : Req.tsaAssertion ∉ signerTs sg := by
    intro hm; cases (signerTs_mem hm).1
  have hmem : Req.tsaAssertion ∈ tsPhase s sg ings ↔ tsPhase s sg ings ≠ [] := by
    constructor
    · intro hm hnil; rw [hnil] at hm; cases hm
    · intro hne
      cases hp : tsPhase s sg ings with
      | nil => exact absurd hp hne
      | cons x xs =>
        have : x = .tsaAssertion := hall x (by rw [hp]; exact List.mem_cons_self)
        rw [this]; exact List.mem_cons_self
  unfold signFlow
  split
  · rename_i hu; simp [hu]
  · rename_i hu
    simp only [Bool.not_eq_true] at hu
    split
    · rename_i h2
      simp only [Bool.and_eq_true, Bool.not_eq_true', List.isEmpty_eq_false_iff] at h2
      simp only [hu, true_and]
      constructor
      · intro _; exact h2.1
      · intro _
        cases hp : tsPhase s sg ings with
        | nil => exact absurd hp h2.1
        | cons x xs =>
          have : x = .tsaAssertion := hall x (by rw [hp]; exact List.mem_cons_self)
          rw [this]; simp
    · split
      · simp only [List.mem_append, hu, true_and, List.mem_singleton]
        rw [← hmem]
        constructor
        · rintro (hm | hm)
          · exact hm
          · cases hm
        · intro hm; exact Or.inl hm
      · simp only [List.mem_append, hu, true_and]
        rw [← hmem]
        constructor
        · rintro ((hm | hm) | hm)
          · exact hm
          · exact absurd hm hns
          · exact absurd hm hna
        · intro hm; exact Or.inl (Or.inl hm)

example : ocspCond sOn [⟨2, false, false, 1, false, false, false, 1⟩] ⟨2, false, false, 1, false, false, false, 1⟩ := by
  unfold ocspCond; decide
example : Req.tsaSigner ∈ (signFlow sOn envNf ⟨true, 1, false, false, 0, false⟩ []).trace := by decide

end C2pa.C28
